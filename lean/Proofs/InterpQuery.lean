import PyxModel.Interp.Spec
import Proofs.InterpPres
import Proofs.InterpLaws

/-!
  Selection and navigation:
    * `select … where` is a filter (`filterAll_eq_filter`, `filterFirst_eq_find`);
    * `select many` is the duplicate-free result in encounter order (`dedup_nodup`, `mem_dedup`),
      `select any/one` its first element;
    * a navigation chain is the relational composition of its steps (`mem_navChain`), and one direct step is
      the image under the association's pair list (`mem_follow`).
-/
namespace Pyx.Interp
open M

/-! ### dedup -/

def dedupStep (acc : List Inst) (x : Inst) : List Inst := if x ∈ acc then acc else acc ++ [x]

theorem dedup_eq (l : List Inst) : dedup l = l.foldl dedupStep [] := rfl

theorem foldl_dedup_nodup : ∀ (l acc : List Inst), acc.Nodup → (l.foldl dedupStep acc).Nodup
  | [], acc, h => h
  | x :: rest, acc, h => by
    simp only [List.foldl]
    apply foldl_dedup_nodup rest
    unfold dedupStep
    by_cases hx : x ∈ acc
    · rw [if_pos hx]; exact h
    · rw [if_neg hx]
      rw [List.nodup_append]
      refine ⟨h, by simp, ?_⟩
      intro a ha b hb
      simp only [List.mem_singleton] at hb
      subst hb
      intro hab; subst hab; exact hx ha

theorem dedupStep_mem (acc : List Inst) (x y : Inst) : y ∈ dedupStep acc x ↔ y ∈ acc ∨ y = x := by
  unfold dedupStep
  by_cases hx : x ∈ acc
  · rw [if_pos hx]
    constructor
    · exact Or.inl
    · rintro (h | h)
      · exact h
      · rw [h]; exact hx
  · rw [if_neg hx, List.mem_append, List.mem_singleton]

theorem mem_foldl_dedup : ∀ (l acc : List Inst) (y : Inst), y ∈ l.foldl dedupStep acc ↔ y ∈ acc ∨ y ∈ l
  | [], acc, y => by simp
  | x :: rest, acc, y => by
    simp only [List.foldl]
    rw [mem_foldl_dedup rest, dedupStep_mem, List.mem_cons]
    constructor
    · rintro ((h | h) | h)
      · exact Or.inl h
      · exact Or.inr (Or.inl h)
      · exact Or.inr (Or.inr h)
    · rintro (h | h | h)
      · exact Or.inl (Or.inl h)
      · exact Or.inl (Or.inr h)
      · exact Or.inr h

/-- `select many`: no duplicates … -/
theorem dedup_nodup (l : List Inst) : (dedup l).Nodup := foldl_dedup_nodup l [] List.nodup_nil

/-- … and exactly the instances found -/
theorem mem_dedup (l : List Inst) (y : Inst) : y ∈ dedup l ↔ y ∈ l := by
  rw [dedup_eq, mem_foldl_dedup]; simp

theorem foldl_dedup_of_nodup : ∀ (l acc : List Inst), (acc ++ l).Nodup → l.foldl dedupStep acc = acc ++ l
  | [], acc, _ => by simp
  | x :: rest, acc, h => by
    simp only [List.foldl]
    have hx : x ∉ acc := by
      intro hx
      rw [List.nodup_append] at h
      exact h.2.2 x hx x (List.mem_cons_self) rfl
    have hstep : dedupStep acc x = acc ++ [x] := by unfold dedupStep; rw [if_neg hx]
    rw [hstep]
    have h' : (acc ++ [x] ++ rest).Nodup := by simpa using h
    rw [foldl_dedup_of_nodup rest (acc ++ [x]) h']
    simp

/-- … in encounter order: a duplicate-free result is kept as it is -/
theorem dedup_of_nodup (l : List Inst) (h : l.Nodup) : dedup l = l := by
  rw [dedup_eq, foldl_dedup_of_nodup l [] (by simpa using h)]; simp

/-! ### where clauses -/

theorem filterAll_eq_filter {rec : Oracle} {wh : Expr} {p : Inst → Bool} {c : Cfg} :
    ∀ (cands : List Inst), (∀ i ∈ cands, evalWhere rec wh i c = some (.ok (p i, c))) →
      filterAll rec wh cands c = some (.ok (cands.filter p, c))
  | [], _ => rfl
  | i :: rest, hp => by
    have hi := hp i List.mem_cons_self
    have hrest := filterAll_eq_filter rest (fun j hj => hp j (List.mem_cons_of_mem _ hj))
    simp only [filterAll]
    rw [bind_ok hi, bind_ok hrest]
    cases hpi : p i <;> simp [List.filter, hpi, pure_run]

theorem filterFirst_eq_find {rec : Oracle} {wh : Expr} {p : Inst → Bool} {c : Cfg} :
    ∀ (cands : List Inst), (∀ i ∈ cands, evalWhere rec wh i c = some (.ok (p i, c))) →
      filterFirst rec wh cands c = some (.ok (cands.find? p, c))
  | [], _ => rfl
  | i :: rest, hp => by
    have hi := hp i List.mem_cons_self
    have hrest := filterFirst_eq_find rest (fun j hj => hp j (List.mem_cons_of_mem _ hj))
    simp only [filterFirst]
    rw [bind_ok hi]
    cases hpi : p i
    · simp only [Bool.false_eq_true, if_false, List.find?, hpi]; exact hrest
    · simp only [if_true, List.find?, hpi]; rfl

/-- `select many … where`: the candidates that satisfy the clause, each evaluated with `selected` bound to it -/
theorem select_many_where {rec : Oracle} {wh : Expr} {p : Inst → Bool} {c : Cfg} (cands : List Inst)
    (hp : ∀ i ∈ cands, evalWhere rec wh i c = some (.ok (p i, c))) :
    selectResult rec true cands (some wh) c = some (.ok (.set (dedup (cands.filter p)), c)) := by
  simp only [selectResult]
  rw [bind_ok (filterAll_eq_filter cands hp)]
  rfl

/-- `select any/one … where`: the first candidate that satisfies the clause, none if there is none -/
theorem select_any_where {rec : Oracle} {wh : Expr} {p : Inst → Bool} {c : Cfg} (cands : List Inst)
    (hp : ∀ i ∈ cands, evalWhere rec wh i c = some (.ok (p i, c))) :
    selectResult rec false cands (some wh) c =
      some (.ok ((match cands.find? p with | none => Val.none | some i => .inst i), c)) := by
  simp only [selectResult]
  rw [bind_ok (filterFirst_eq_find cands hp)]
  rfl

theorem select_many_plain (rec : Oracle) (cands : List Inst) (c : Cfg) :
    selectResult rec true cands none c = some (.ok (.set (dedup cands), c)) := rfl

theorem select_any_plain (rec : Oracle) (cands : List Inst) (c : Cfg) :
    selectResult rec false cands none c = some (.ok ((match cands with | [] => Val.none | i :: _ => .inst i), c)) := rfl

/-! ### navigation -/

/-- one direct step is the image under the association's pair list -/
theorem mem_follow (st : State) (l : LinkRef) (i y : Inst) :
    y ∈ follow st l i ↔ (if l.toSource then (y, i) ∈ st.links l.k else (i, y) ∈ st.links l.k) := by
  unfold follow
  by_cases hl : l.toSource = true
  · rw [if_pos hl, if_pos hl, List.mem_filterMap]
    constructor
    · rintro ⟨⟨a, b⟩, hm, hp⟩
      by_cases hab : b = i
      · simp only [] at hp
        rw [if_pos hab] at hp
        cases hp
        rw [← hab]; exact hm
      · simp only [] at hp
        rw [if_neg hab] at hp; cases hp
    · intro hm; exact ⟨(y, i), hm, by simp⟩
  · rw [if_neg hl, if_neg hl, List.mem_filterMap]
    constructor
    · rintro ⟨⟨a, b⟩, hm, hp⟩
      by_cases hab : a = i
      · simp only [] at hp
        rw [if_pos hab] at hp
        cases hp
        rw [← hab]; exact hm
      · simp only [] at hp
        rw [if_neg hab] at hp; cases hp
    · intro hm; exact ⟨(i, y), hm, by simp⟩

/-- the relation a navigation step denotes -/
def StepRel (C : Ctx) (st : State) (s : NavStep) (x y : Inst) : Prop := ∃ l, navStep C st x s = .ok l ∧ y ∈ l

/-- relational composition along a chain -/
def PathRel (C : Ctx) (st : State) : List NavStep → Inst → Inst → Prop
  | [], x, y => x = y
  | s :: rest, x, y => ∃ z, StepRel C st s x z ∧ PathRel C st rest z y

theorem mem_navStepList {C : Ctx} {st : State} {s : NavStep} : ∀ {l l' : List Inst},
    navStepList C st l s = .ok l' → ∀ z, z ∈ l' ↔ ∃ x ∈ l, StepRel C st s x z
  | [], l', h, z => by
    simp [navStepList] at h; subst h; simp
  | i :: rest, l', h, z => by
    unfold navStepList at h
    split at h
    · cases h
    · rename_i li hli
      split at h
      · cases h
      · rename_i lr hlr
        simp only [Except.ok.injEq] at h
        subst h
        have ih := mem_navStepList hlr z
        rw [List.mem_append, ih]
        constructor
        · rintro (hz | ⟨x, hx, hxz⟩)
          · exact ⟨i, List.mem_cons_self, li, hli, hz⟩
          · exact ⟨x, List.mem_cons_of_mem _ hx, hxz⟩
        · rintro ⟨x, hx, hxz⟩
          rcases List.mem_cons.1 hx with rfl | hx
          · obtain ⟨l2, h2, hz⟩ := hxz
            rw [hli] at h2
            simp only [Except.ok.injEq] at h2
            subst h2; exact Or.inl hz
          · exact Or.inr ⟨x, hx, hxz⟩

/-- chain navigation = relational composition of the steps, started from every element of the handle -/
theorem mem_navChain {C : Ctx} {st : State} : ∀ {steps : List NavStep} {start res : List Inst},
    navChain C st start steps = .ok res → ∀ y, y ∈ res ↔ ∃ x ∈ start, PathRel C st steps x y
  | [], start, res, h, y => by
    simp [navChain] at h; subst h
    simp [PathRel]
  | s :: rest, start, res, h, y => by
    unfold navChain at h
    split at h
    · cases h
    · rename_i l' hl'
      rw [mem_navChain h y]
      constructor
      · rintro ⟨z, hz, hp⟩
        obtain ⟨x, hx, hxz⟩ := (mem_navStepList hl' z).1 hz
        exact ⟨x, hx, z, hxz, hp⟩
      · rintro ⟨x, hx, z, hxz, hp⟩
        exact ⟨z, (mem_navStepList hl' z).2 ⟨x, hx, hxz⟩, hp⟩

/-! ### cardinality, empty, not_empty -/

theorem card_none : unop .card .none = .ok (.int 0) := rfl
theorem card_inst (i : Inst) : unop .card (.inst i) = .ok (.int 1) := rfl
theorem card_set (l : List Inst) : unop .card (.set l) = .ok (.int l.length) := rfl
theorem empty_none : unop .empty .none = .ok (.bool true) := rfl
theorem empty_inst (i : Inst) : unop .empty (.inst i) = .ok (.bool false) := rfl
theorem empty_set (l : List Inst) : unop .empty (.set l) = .ok (.bool l.isEmpty) := rfl
theorem notEmpty_is_not_empty (v : Val) (b : Bool) (h : unop .empty v = .ok (.bool b)) :
    unop .notEmpty v = .ok (.bool (!b)) := by
  cases v <;> simp [unop] at h ⊢ <;> simp [← h]

end Pyx.Interp
