import Proofs.LoadHeap

/-! C18: projection of a history onto one built metamodel, and the invariant that carries non-interference. -/

namespace Pyx.Heap
open Pyx.Load

/-- the history as far as the k-th built metamodel is concerned: the inputs accepted before its build, its
    build, and the mutations applied to it (renumbered to metamodel 0); `n` = builds seen so far -/
def project (k : Nat) : Nat → List Op → List Op
  | _, [] => []
  | n, .input ss :: rest => if n ≤ k then .input ss :: project k n rest else project k n rest
  | n, .build :: rest => if n = k then .build :: project k (n + 1) rest else project k (n + 1) rest
  | n, .mutate j μ :: rest => if j = k then .mutate 0 μ :: project k n rest else project k n rest

def runFrom (sh : Sharing) (w : World) (ops : List Op) : World := ops.foldl (step sh) w

/-- every built metamodel owns its attribute lists and its key pointers designate existing statements -/
def Good (w : World) : Prop :=
  ∀ (j : Nat) (o : HMeta), w.metas[j]? = some (some o) → AllOwn o ∧ KeysBound o w.stmts.length

/-- how the full world `w` and the projected world `w'` correspond after `n` builds -/
def Rel (k n : Nat) (w w' : World) : Prop :=
  w.metas.length = n ∧ Good w ∧
  (n ≤ k → w'.metas = [] ∧ w'.stmts = w.stmts) ∧
  (k < n → ∃ x more, w'.metas = [x] ∧ w.metas[k]? = some x ∧ w.stmts = w'.stmts ++ more ∧
      ∀ o, x = some o → KeysBound o w'.stmts.length)

theorem keysBound_mono {o : HMeta} {n m : Nat} (h : KeysBound o n) (hnm : n ≤ m) : KeysBound o m :=
  fun a ha idx hidx => Nat.lt_of_lt_of_le (h a ha idx hidx) hnm

theorem step_mutate_good (sh : Sharing) (w : World) (j : Nat) (μ : Mut) (hg : Good w) :
    (step sh w (.mutate j μ)).stmts = w.stmts ∧ Good (step sh w (.mutate j μ)) ∧
    (step sh w (.mutate j μ)).metas.length = w.metas.length ∧
    ∀ i, i ≠ j → (step sh w (.mutate j μ)).metas[i]? = w.metas[i]? := by
  simp only [step]
  cases hj : w.metas[j]? with
  | none => exact ⟨rfl, hg, rfl, fun _ _ => rfl⟩
  | some x =>
    cases x with
    | none => exact ⟨rfl, hg, rfl, fun _ _ => rfl⟩
    | some o =>
      obtain ⟨ho, hk⟩ := hg j o hj
      obtain ⟨h1, _, _, h4⟩ := applyMut_allOwn w.stmts w.stmts o μ ho
      simp only
      refine ⟨h1, ?_, by simp, ?_⟩
      · intro i o' hi
        simp only at hi
        rw [h1]
        by_cases hij : i = j
        · subst hij
          have hlt : i < w.metas.length := by
            have := List.getElem?_eq_some_iff.mp hj
            exact this.1
          rw [List.getElem?_set_self hlt] at hi
          simp only [Option.some.injEq] at hi
          subst hi
          exact ⟨h4, applyMut_keysBound _ _ _ _ hk⟩
        · rw [List.getElem?_set_ne (fun e => hij e.symm)] at hi
          exact hg i o' hi
      · intro i hij
        rw [List.getElem?_set_ne (fun e => hij e.symm)]

theorem rel_step (sh : Sharing) (hs : sh.classAttrsByRef = false) (k n : Nat) (w w' : World) (op : Op)
    (rest : List Op) (h : Rel k n w w') :
    ∃ n' w1', Rel k n' (step sh w op) w1' ∧
      runFrom sh w' (project k n (op :: rest)) = runFrom sh w1' (project k n' rest) := by
  obtain ⟨hlen, hg, hle, hgt⟩ := h
  cases op with
  | input ss =>
    have hg1 : Good (step sh w (.input ss)) := by
      intro j o hj
      obtain ⟨ho, hk⟩ := hg j o hj
      exact ⟨ho, keysBound_mono hk (by simp [step])⟩
    by_cases hnk : n ≤ k
    · obtain ⟨hm, hst⟩ := hle hnk
      refine ⟨n, step sh w' (.input ss), ⟨hlen, hg1, ?_, ?_⟩, ?_⟩
      · intro _; exact ⟨hm, by simp [step, hst]⟩
      · intro hkn; omega
      · simp [project, hnk, runFrom]
    · have hkn : k < n := by omega
      obtain ⟨x, more, hm, hx, hst, hkb⟩ := hgt hkn
      refine ⟨n, w', ⟨hlen, hg1, ?_, ?_⟩, ?_⟩
      · intro h'; omega
      · intro _
        exact ⟨x, more ++ ss, hm, hx, by simp [step, hst], hkb⟩
      · simp [project, hnk]
  | build =>
    have hg1 : Good (step sh w .build) := by
      intro j o hj
      simp only [step] at hj ⊢
      by_cases hjl : j < w.metas.length
      · rw [List.getElem?_append_left hjl] at hj
        exact hg j o hj
      · have : j = w.metas.length := by
          have := (List.getElem?_eq_some_iff.mp hj).1
          simp at this; omega
        subst this
        simp only [List.getElem?_concat_length, Option.some.injEq] at hj
        exact hbuild_allOwn sh hs w.stmts o hj
    have hlen1 : (step sh w .build).metas.length = n + 1 := by simp [step, hlen]
    by_cases hnk : n = k
    · subst hnk
      obtain ⟨hm, hst⟩ := hle (Nat.le_refl _)
      refine ⟨n + 1, step sh w' .build, ⟨hlen1, hg1, ?_, ?_⟩, ?_⟩
      · intro h'; omega
      · intro _
        refine ⟨hbuild sh w.stmts, [], ?_, ?_, ?_, ?_⟩
        · simp [step, hm, hst]
        · simp only [step]
          rw [← hlen, List.getElem?_concat_length]
        · simp [step, hst]
        · intro o ho
          simp only [step, hst]
          exact (hbuild_allOwn sh hs w.stmts o ho).2
      · simp [project, runFrom]
    · by_cases hlt : n < k
      · obtain ⟨hm, hst⟩ := hle (by omega)
        refine ⟨n + 1, w', ⟨hlen1, hg1, ?_, ?_⟩, ?_⟩
        · intro _; exact ⟨hm, by simp [step, hst]⟩
        · intro h'; omega
        · simp [project, hnk]
      · have hkn : k < n := by omega
        obtain ⟨x, more, hm, hx, hst, hkb⟩ := hgt hkn
        refine ⟨n + 1, w', ⟨hlen1, hg1, ?_, ?_⟩, ?_⟩
        · intro h'; omega
        · intro _
          refine ⟨x, more, hm, ?_, by simp [step, hst], hkb⟩
          simp only [step]
          rw [List.getElem?_append_left (by omega)]
          exact hx
        · simp [project, hnk]
  | mutate j μ =>
    obtain ⟨hst1, hg1, hlen1, hother⟩ := step_mutate_good sh w j μ hg
    by_cases hjk : j = k
    · subst hjk
      by_cases hnk : n ≤ j
      · obtain ⟨hm, hst⟩ := hle hnk
        have hnone : w.metas[j]? = none := by
          rw [List.getElem?_eq_none_iff]; omega
        have hw : step sh w (.mutate j μ) = w := by simp [step, hnone]
        have hw' : step sh w' (.mutate 0 μ) = w' := by simp [step, hm]
        refine ⟨n, w', ?_, ?_⟩
        · rw [hw]; exact ⟨hlen, hg, hle, hgt⟩
        · simp only [project, if_true, runFrom, List.foldl_cons, hw']
      · have hkn : j < n := by omega
        obtain ⟨x, more, hm, hx, hst, hkb⟩ := hgt hkn
        refine ⟨n, step sh w' (.mutate 0 μ), ⟨by rw [hlen1, hlen], hg1, ?_, ?_⟩, ?_⟩
        · intro h'; omega
        · intro _
          cases x with
          | none =>
            have hw : step sh w (.mutate j μ) = w := by simp [step, hx]
            have hw' : step sh w' (.mutate 0 μ) = w' := by simp [step, hm]
            rw [hw, hw']
            exact ⟨none, more, hm, hx, hst, hkb⟩
          | some o =>
            obtain ⟨ho, _⟩ := hg j o hx
            obtain ⟨h1, h2, _, _⟩ := applyMut_allOwn w.stmts w'.stmts o μ ho
            obtain ⟨h1', _, _, _⟩ := applyMut_allOwn w'.stmts w.stmts o μ ho
            refine ⟨some (applyMut w'.stmts o μ).1, more, ?_, ?_, ?_, ?_⟩
            · simp [step, hm, h1']
            · simp only [step, hx]
              have hlt : j < w.metas.length := by omega
              rw [List.getElem?_set_self hlt, h2]
            · simp only [step, hx, hm, List.getElem?_cons_zero, h1, h1']
              exact hst
            · intro o' ho'
              simp only [Option.some.injEq] at ho'
              subst ho'
              simp only [step, hm, List.getElem?_cons_zero, h1']
              exact applyMut_keysBound _ _ _ _ (hkb o rfl)
        · simp [project, runFrom]
    · refine ⟨n, w', ⟨by rw [hlen1, hlen], hg1, ?_, ?_⟩, ?_⟩
      · intro hnk
        obtain ⟨hm, hst⟩ := hle hnk
        exact ⟨hm, by rw [hst1, hst]⟩
      · intro hkn
        obtain ⟨x, more, hm, hx, hst, hkb⟩ := hgt hkn
        exact ⟨x, more, hm, by rw [hother k (fun e => hjk e.symm)]; exact hx, by rw [hst1]; exact hst, hkb⟩
      · simp [project, hjk]

theorem rel_run (sh : Sharing) (hs : sh.classAttrsByRef = false) (k : Nat) (ops : List Op) :
    ∀ n w w', Rel k n w w' →
      ∃ n', Rel k n' (runFrom sh w ops) (runFrom sh w' (project k n ops)) := by
  induction ops with
  | nil => intro n w w' h; exact ⟨n, by simpa [runFrom, project] using h⟩
  | cons op rest ih =>
    intro n w w' h
    obtain ⟨n', w1', hrel, heq⟩ := rel_step sh hs k n w w' op rest h
    obtain ⟨n'', hfin⟩ := ih n' (step sh w op) w1' hrel
    refine ⟨n'', ?_⟩
    rw [heq]
    simpa [runFrom] using hfin

theorem rel_init (k : Nat) : Rel k 0 World.init World.init := by
  refine ⟨rfl, ?_, ?_, ?_⟩
  · intro j o hj; simp [World.init] at hj
  · intro _; exact ⟨rfl, rfl⟩
  · intro h; omega

theorem observe_of_rel {k n : Nat} {w w' : World} (h : Rel k n w w') : observe w k = observe w' 0 := by
  obtain ⟨hlen, hg, hle, hgt⟩ := h
  unfold observe
  by_cases hnk : n ≤ k
  · obtain ⟨hm, _⟩ := hle hnk
    have : w.metas[k]? = none := by rw [List.getElem?_eq_none_iff]; omega
    simp [this, hm]
  · obtain ⟨x, more, hm, hx, hst, hkb⟩ := hgt (by omega)
    simp only [hx, hm, List.getElem?_cons_zero]
    cases x with
    | none => rfl
    | some o =>
      simp only
      obtain ⟨ho, _⟩ := hg k o hx
      rw [hst, observeMeta_append _ _ _ ho (hkb o rfl)]

/-- the statements a loader holds are the inputs in order, whatever was built and mutated in between -/
def inputsOf : List Op → List Stmt
  | [] => []
  | .input ss :: rest => ss ++ inputsOf rest
  | _ :: rest => inputsOf rest

theorem good_runFrom (sh : Sharing) (hs : sh.classAttrsByRef = false) (ops : List Op) :
    ∀ w, Good w → Good (runFrom sh w ops) ∧ (runFrom sh w ops).stmts = w.stmts ++ inputsOf ops := by
  induction ops with
  | nil => intro w hg; exact ⟨hg, by simp [runFrom, inputsOf]⟩
  | cons op rest ih =>
    intro w hg
    have hstep : Good (step sh w op) ∧ (step sh w op).stmts = w.stmts ++ inputsOf [op] := by
      cases op with
      | input ss =>
        refine ⟨?_, by simp [step, inputsOf]⟩
        intro j o hj
        obtain ⟨ho, hk⟩ := hg j o hj
        exact ⟨ho, keysBound_mono hk (by simp [step])⟩
      | build =>
        refine ⟨?_, by simp [step, inputsOf]⟩
        intro j o hj
        simp only [step] at hj ⊢
        by_cases hjl : j < w.metas.length
        · rw [List.getElem?_append_left hjl] at hj
          exact hg j o hj
        · have : j = w.metas.length := by
            have := (List.getElem?_eq_some_iff.mp hj).1
            simp at this; omega
          subst this
          simp only [List.getElem?_concat_length, Option.some.injEq] at hj
          exact hbuild_allOwn sh hs w.stmts o hj
      | mutate j μ =>
        obtain ⟨h1, h2, _, _⟩ := step_mutate_good sh w j μ hg
        exact ⟨h2, by simp [h1, inputsOf]⟩
    obtain ⟨hg', hs'⟩ := ih (step sh w op) hstep.1
    refine ⟨by simpa [runFrom] using hg', ?_⟩
    have : runFrom sh w (op :: rest) = runFrom sh (step sh w op) rest := by simp [runFrom]
    rw [this, hs', hstep.2]
    cases op <;> simp [inputsOf]

end Pyx.Heap

namespace Pyx.Heap
open Pyx.Load

/-! ### histories with clones -/

theorem runC_from (sh : Sharing) (ops : List OpC) :
    ∀ w, ops.foldl (stepC sh) w = runFrom sh w (resolveAll sh w ops) := by
  induction ops with
  | nil => intro w; rfl
  | cons oc rest ih =>
    intro w
    simp only [List.foldl_cons, resolveAll, runFrom]
    rw [ih]
    rfl

/-- a history with clones is the history in which every clone is replaced by the `new` it amounts to -/
theorem runC_eq_run (sh : Sharing) (ops : List OpC) : runC sh ops = run sh (resolveAll sh World.init ops) :=
  runC_from sh ops World.init

theorem resolveOp_clone (w : World) (k j : Nat) (kind : String) (id : Nat) :
    resolveOp w (.cloneInto k j kind id) = .input [] ∨
    ∃ args, resolveOp w (.cloneInto k j kind id) = .mutate k (.newArgs kind args) := by
  simp only [resolveOp]
  split
  · split
    · split
      · exact Or.inr ⟨_, rfl⟩
      · exact Or.inl rfl
    · exact Or.inl rfl
  · exact Or.inl rfl

/-- cloning an instance of metamodel `j` into metamodel `k` leaves the loader's statements and every metamodel
    other than `k` — in particular the source `j ≠ k` — as they were -/
theorem clone_writes_target_only (sh : Sharing) (w : World) (hg : Good w) (k j : Nat) (kind : String) (id : Nat) :
    (stepC sh w (.cloneInto k j kind id)).stmts = w.stmts ∧
    ∀ i, i ≠ k → (stepC sh w (.cloneInto k j kind id)).metas[i]? = w.metas[i]? := by
  unfold stepC
  rcases resolveOp_clone w k j kind id with h | ⟨args, h⟩
  · rw [h]
    exact ⟨by simp [step], fun _ _ => rfl⟩
  · rw [h]
    obtain ⟨h1, _, _, h4⟩ := step_mutate_good sh w k (.newArgs kind args) hg
    exact ⟨h1, h4⟩

theorem good_runC (sh : Sharing) (hs : sh.classAttrsByRef = false) (ops : List OpC) : Good (runC sh ops) := by
  rw [runC_eq_run]
  exact (good_runFrom sh hs _ World.init (by intro j o hj; simp [World.init] at hj)).1

end Pyx.Heap
