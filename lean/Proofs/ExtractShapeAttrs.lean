import Proofs.ExtractShapeAssoc

/-!
  C14 — the attribute loop of `mk_class` (`while o_attr: …` along R103 'precedes') of the generated IR against `sattr` / `classOf … .attrs`
  (PyxModel/Extract/Schema.lean).  Population (`attrWorld`): the attributes of the class by POSITION on the R103 chain (the model's
  `Class.attrs` is that chain), O_BATTR (R106) for base and derived attributes, O_DBATTR (R107) for derived ones.  The two type calls
  (`get_attribute_type`, `_get_data_type_name`) are read through an ORACLE hypothesis: they return the model's `attrTy`.
-/

namespace Pyx.XShape
open Pyx.Extract Pyx.Gen.ExtractShape

inductive AI where
  | obj
  | pos (k : Nat)
  | battr (k : Nat)
  | dbattr (k : Nat)
  deriving DecidableEq

def attrHop (c : Class) (x : AI) (h : Hop) : List AI :=
  match x with
  | .obj => if h = hp "O_ATTR" 102 then (List.range c.attrs.length).map AI.pos else []
  | .pos k =>
    if h = { cls := "O_ATTR", rel := 103, phrase := "precedes" } then (if k + 1 < c.attrs.length then [.pos (k + 1)] else [])
    else if h = { cls := "O_ATTR", rel := 103, phrase := "succeeds" } then (if 0 < k ∧ k < c.attrs.length then [.pos (k - 1)] else [])
    else if h = hp "O_BATTR" 106 then
      (match c.attrs[k]? with
       | some a => (match a.kind with | .ref _ _ => [] | _ => [.battr k])
       | none => [])
    else []
  | .battr k => if h = hp "O_DBATTR" 107 then (if (c.attrs[k]?).any Attr.isDerived then [.dbattr k] else []) else []
  | .dbattr _ => []

def attrAttr (c : Class) (x : AI) (f : String) : Val AI :=
  match x with
  | .obj => if f = "Key_Lett" then .str c.kl else .unset
  | .pos k => if f = "Name" then (match c.attrs[k]? with | some a => .str a.name | none => .unset) else .unset
  | _ => .unset

def attrWorld (c : Class) : World AI :=
  { hop := attrHop c, attr := attrAttr c, kind := fun _ => "", subtype := fun _ _ => none, select := fun _ => [] }

@[simp] theorem attrWorld_hop (c : Class) : (attrWorld c).hop = attrHop c := rfl
@[simp] theorem attrWorld_attr (c : Class) : (attrWorld c).attr = attrAttr c := rfl

/-- the body of `while o_attr:` -/
def attrBody : List Stmt :=
  [ .assign "s_dt" (.call "get_attribute_type" ["o_attr"]),
    .assign "ty" (.call "_get_data_type_name" ["s_dt"]),
    .ite (.and (.not (.truthy (.var "derived_attributes"))) (.truthy (.nav { card := .one, start := "o_attr", hops := [{ cls := "O_BATTR", rel := 106, phrase := "" }, { cls := "O_DBATTR", rel := 107, phrase := "" }], filter := .all }))) [
      .pass ] [
      .ite (.not (.truthy (.var "ty"))) [
        .log ] [
        .appendPair "attributes" (.attr "o_attr" "Name") (.var "ty") ] ],
    .assign "o_attr" (.nav { card := .one, start := "o_attr", hops := [{ cls := "O_ATTR", rel := 103, phrase := "precedes" }], filter := .all }) ]

/-- the attribute loop of the generated `mk_class` IS this (breaks when the source changes) -/
theorem mk_class_attrLoop : (match mk_class.body with
    | [_, _, s, _, _, _, _, _] => s
    | _ => .pass) = .whileVar "o_attr" attrBody := rfl

/-- the list `attributes` as the interpreter holds it: `list()` until the first append -/
def accVal : List (String × String) → Val AI
  | [] => .strs []
  | p :: ps => .pairs (p :: ps)

def tyVal : Option String → Val AI
  | none => .inst none
  | some s => .str s

/-- the oracle reading of the two type calls: a token for the S_DT, and the model's type name for it -/
structure TyOracle (d : ClassDiagram) (c : Class) (cf : CallF AI) where
  tok : Nat → Val AI
  h1 : ∀ k L C, cf "get_attribute_type" [.inst (some (AI.pos k))] L C = .ok (tok k, C)
  h2 : ∀ k L C, cf "_get_data_type_name" [tok k] L C = .ok (tyVal ((c.attrs[k]?).bind (attrTy d)), C)

def pairOf (s : SAttr) : String × String := (s.name, s.ty)


theorem dtTypeFuel_ne (dts : List DataType) : ∀ (f id : Nat) (s : String), dtTypeFuel dts f id = some s → s ≠ "" := by
  intro f
  induction f with
  | zero => intro id s h; simp [dtTypeFuel] at h
  | succ f ih =>
    intro id s h
    unfold dtTypeFuel at h
    cases ht : findDt dts id with
    | none => simp [ht] at h
    | some t =>
      simp only [ht] at h
      cases hk : t.kind with
      | core n =>
        simp only [hk] at h
        split at h
        · rename_i hc
          have := Option.some.inj h
          subst this
          intro he
          exact hc.2.2 ((upper_eq_empty _).mp he)
        · cases h
      | enum es =>
        simp only [hk] at h
        have h' := Option.some.inj h
        rw [← h']
        all_goals (try decide)
      | user b => simp only [hk] at h; exact ih b s h
      | other => simp only [hk] at h; cases h

theorem attrTy_ne (d : ClassDiagram) (a : Attr) (s : String) (h : attrTy d a = some s) : s ≠ "" := by
  unfold attrTy at h
  cases hd : attrDt d a with
  | none => simp [hd] at h
  | some dt => simp only [hd, Option.bind_some] at h; exact dtTypeFuel_ne _ _ _ _ h

theorem strbne {a b : String} (h : ¬ a = b) : (a != b) = true := by simpa using h

/-- one pass through the body of the attribute loop, at the attribute `a` in position `pre.length` -/
theorem attrStep (d : ClassDiagram) (c : Class) (cf : CallF AI) (fuel : Nat) (O : TyOracle d c cf) (drv : Bool)
    (pre : List Attr) (a : Attr) (rest : List Attr) (hc : c.attrs = pre ++ a :: rest) (L : Loc AI) (C : Calls AI)
    (acc : List (String × String))
    (h1 : L "o_attr" = .inst (some (AI.pos pre.length))) (h2 : L "derived_attributes" = .bool drv)
    (h3 : L "attributes" = accVal acc) :
    ∃ L', iStmts (attrWorld c) cf fuel attrBody L C = .ok (L', C, .next) ∧
      L' "o_attr" = .inst (if rest = [] then none else some (AI.pos (pre.length + 1))) ∧
      L' "derived_attributes" = .bool drv ∧
      L' "attributes" = accVal (acc ++ ((sattr d drv a).map pairOf).toList) := by
  have hk : c.attrs[pre.length]? = some a := by simp [hc]
  have hnext : (if pre.length + 1 < c.attrs.length then [AI.pos (pre.length + 1)] else []) =
      (if rest = [] then [] else [AI.pos (pre.length + 1)]) := by
    cases rest with
    | nil => simp [hc]
    | cons b r => simp [hc]
  have o1 := O.h1 pre.length
  have o2 := O.h2 pre.length
  simp only [hk, Option.bind_some] at o2
  have hs : ∀ s, attrTy d a = some s → (s != "") = true := by
    intro s h; simpa using attrTy_ne d a s h
  cases drv <;> cases hd : a.isDerived <;> cases hty : attrTy d a <;> cases acc <;> cases hak : a.kind <;> cases rest <;>
    (try have hs' := hs _ hty) <;>
    simp_all [attrBody, iStmts, iStmt, thenStep, eExpr, eCond, eNav, startSet, evalHops, filterE, passes, Loc.set, truthy,
      Except.map, attrHop, attrAttr, hp, accVal, tyVal, sattr, pairOf, Attr.isDerived, strbne]


/-- the attribute loop of `mk_class` from any position of the R103 chain on -/
theorem attrLoop (d : ClassDiagram) (c : Class) (cf : CallF AI) (fuel : Nat) (O : TyOracle d c cf) (drv : Bool) :
    ∀ (rest pre : List Attr) (L : Loc AI) (C : Calls AI) (acc : List (String × String)) (n : Nat),
      c.attrs = pre ++ rest → L "o_attr" = .inst (if rest = [] then none else some (AI.pos pre.length)) →
      L "derived_attributes" = .bool drv → L "attributes" = accVal acc → rest.length < n →
      ∃ L', whileLoop "o_attr" (fun L' C' => iStmts (attrWorld c) cf fuel attrBody L' C') n L C = .ok (L', C, .next) ∧
        L' "attributes" = accVal (acc ++ (rest.filterMap (sattr d drv)).map pairOf) := by
  intro rest
  induction rest with
  | nil =>
    intro pre L C acc n _ h1 _ h3 hn
    cases n with
    | zero => omega
    | succ n => exact ⟨L, by simp [whileLoop, h1, truthy], by simpa using h3⟩
  | cons a rest ih =>
    intro pre L C acc n hc h1 h2 h3 hn
    cases n with
    | zero => omega
    | succ n =>
      have h1' : L "o_attr" = .inst (some (AI.pos pre.length)) := by simpa using h1
      obtain ⟨L1, hrun, g1, g2, g3⟩ := attrStep d c cf fuel O drv pre a rest hc L C acc h1' h2 h3
      obtain ⟨L', hL, hacc⟩ := ih (pre ++ [a]) L1 C (acc ++ ((sattr d drv a).map pairOf).toList) n
        (by simp [hc]) (by simpa using g1) g2 g3 (by simp at hn; omega)
      refine ⟨L', ?_, ?_⟩
      · simp only [whileLoop, h1', truthy, Option.isSome_some, hrun]
        exact hL
      · rw [hacc]
        cases h : sattr d drv a <;> simp [List.filterMap_cons, h]

end Pyx.XShape
