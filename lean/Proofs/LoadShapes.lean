import PyxModel.LoadApi
import Gen.RelateShape
import Gen.NewShape
import Gen.QueryShape

/-! C03: the API route of the model (`_find_link`, `relate`, the query of `new`) against the statement-shape tables
    translated from xtuml/meta.py (Gen/RelateShape.lean, Gen/NewShape.lean, Gen/QueryShape.lean): a change of
    `_find_link`, `relate`, `WhereEqual` or of the phases of `MetaClass.new` that alters those tables breaks these. -/

namespace Pyx.Load
open Pyx.Gen.RelateShape

/-! ### `_find_link` -/

def endKind (a : AssocStmt) : End → String
  | .source => a.srcKind
  | .target => a.tgtKind

def endPhrase (a : AssocStmt) : End → String
  | .source => a.srcPhrase
  | .target => a.tgtPhrase

def endMany (a : AssocStmt) : End → Bool
  | .source => a.srcMany
  | .target => a.tgtMany

def evalBExp {α : Type} (atom : α → Bool) : BExp α → Bool
  | .atom a => atom a
  | .and l r => evalBExp atom l && evalBExp atom r
  | .or l r => evalBExp atom l || evalBExp atom r
  | .not e => !evalBExp atom e

/-- the atoms of `_find_link` for association `a`, read through the link definitions: `ass.source_link.from_metaclass`
    is the class at the end `fromCls` of the source link, and so on -/
def findAtom (a : AssocStmt) (k1 k2 rel phrase : String) (sd td : LinkDef) : FindAtom → Bool
  | .relDiffers => decide (a.rel ≠ rel)
  | .srcFrom1 => decide (endKind a sd.fromCls = k1)
  | .srcTo2 => decide (endKind a sd.toCls = k2)
  | .srcPhrase => decide (endPhrase a sd.phrase = phrase)
  | .tgtFrom1 => decide (endKind a td.fromCls = k1)
  | .tgtTo2 => decide (endKind a td.toCls = k2)
  | .tgtPhrase => decide (endPhrase a td.phrase = phrase)

/-- the first test of the loop body that holds decides; `none`: the body falls through to the next association -/
def findStep (body : List (BExp FindAtom × FindAct)) (atom : FindAtom → Bool) : Option FindAct :=
  match body with
  | [] => none
  | (c, act) :: rest => if evalBExp atom c then some act else findStep rest atom

def findLinkBy (body : List (BExp FindAtom × FindAct)) (sd td : LinkDef) (k1 k2 rel phrase : String) :
    Nat → List AssocStmt → Option (Nat × Bool)
  | _, [] => none
  | n, a :: rest =>
    match findStep body (findAtom a k1 k2 rel phrase sd td) with
    | some (.found sw) => some (n, sw)
    | _ => findLinkBy body sd td k1 k2 rel phrase (n + 1) rest

theorem findStep_findBody (a : AssocStmt) (k1 k2 rel phrase : String) (sd td : LinkDef) (hd : linkDefs = [sd, td]) :
    findStep findBody (findAtom a k1 k2 rel phrase sd td) =
      if a.rel ≠ rel then some .next
      else if a.tgtKind = k1 ∧ a.srcKind = k2 ∧ a.tgtPhrase = phrase then some (.found false)
      else if a.srcKind = k1 ∧ a.tgtKind = k2 ∧ a.srcPhrase = phrase then some (.found true)
      else none := by
  simp only [linkDefs, List.cons.injEq, and_true] at hd
  obtain ⟨rfl, rfl⟩ := hd
  by_cases h0 : a.rel = rel <;> by_cases h1 : a.tgtKind = k1 <;> by_cases h2 : a.srcKind = k2 <;>
    by_cases h3 : a.tgtPhrase = phrase <;> by_cases h4 : a.srcKind = k1 <;> by_cases h5 : a.tgtKind = k2 <;>
    by_cases h6 : a.srcPhrase = phrase <;>
    simp [findBody, findStep, evalBExp, findAtom, endKind, endPhrase, h0, h1, h2, h3, h4, h5, h6]

theorem findLinkFrom_eq_generated (k1 k2 rel phrase : String) (sd td : LinkDef) (hd : linkDefs = [sd, td]) :
    ∀ (l : List AssocStmt) (n : Nat),
      findLinkFrom k1 k2 rel phrase n l = findLinkBy findBody sd td k1 k2 rel phrase n l := by
  intro l
  induction l with
  | nil => intro n; rfl
  | cons a rest ih =>
    intro n
    rw [findLinkFrom, findLinkBy, findStep_findBody a k1 k2 rel phrase sd td hd]
    by_cases h0 : a.rel ≠ rel
    · rw [if_pos h0, if_pos h0]; exact ih (n + 1)
    · rw [if_neg h0, if_neg h0]
      by_cases h1 : a.tgtKind = k1 ∧ a.srcKind = k2 ∧ a.tgtPhrase = phrase
      · rw [if_pos h1, if_pos h1]
      · rw [if_neg h1, if_neg h1]
        by_cases h2 : a.srcKind = k1 ∧ a.tgtKind = k2 ∧ a.srcPhrase = phrase
        · rw [if_pos h2, if_pos h2]
        · rw [if_neg h2, if_neg h2]; exact ih (n + 1)

/-! ### `relate` -/

/-- a call of the program on the pair (inst1, inst2) = (t, s) that `_find_link` returned -/
def argOf (t s : Nat) : Arg → Nat
  | .inst1 => t
  | .inst2 => s
  | .fromInst => t
  | .toInst => s

def linkMap (L : Links) : LinkSel → (Nat → List Nat)
  | .sourceLink => L.src
  | .targetLink => L.tgt

def setLink (L : Links) (sel : LinkSel) (m : Nat → List Nat) : Links :=
  match sel with
  | .sourceLink => ⟨m, L.tgt⟩
  | .targetLink => ⟨L.src, m⟩

/-- one `connect` / `disconnect` call; `none` = it returned False -/
def runCall (a : AssocStmt) (sd td : LinkDef) (c : Call) (L : Links) (t s : Nat) : Option Links :=
  let many := match c.link with
    | .sourceLink => endMany a sd.many
    | .targetLink => endMany a td.many
  match c.op with
  | .connect => (connectChecked (linkMap L c.link) many (argOf t s c.a1) (argOf t s c.a2)).map (setLink L c.link)
  | .disconnect => some (setLink L c.link (disconnect (linkMap L c.link) (argOf t s c.a1) (argOf t s c.a2)))

/-- `if not <call>: <undo…>; raise` for every step; the Bool says whether nothing was raised -/
def runSteps' (a : AssocStmt) (sd td : LinkDef) : List GuardedCall → Links → Nat → Nat → Links × Bool
  | [], L, _, _ => (L, true)
  | g :: rest, L, t, s =>
    match runCall a sd td g.call L t s with
    | some L' => runSteps' a sd td rest L' t s
    | none => (g.undo.foldl (fun L u => (runCall a sd td u L t s).getD L) L, false)

theorem relateAt_eq_generated (a : AssocStmt) (L : Links) (t s : Nat) (sd td : LinkDef) (hd : linkDefs = [sd, td]) :
    relateAt a L t s = runSteps' a sd td relateProg.steps L t s := by
  simp only [linkDefs, List.cons.injEq, and_true] at hd
  obtain ⟨rfl, rfl⟩ := hd
  simp only [relateAt, relateProg, runSteps', runCall, endMany, linkMap, argOf, setLink]
  cases h1 : connectChecked L.src a.srcMany t s with
  | none => rfl
  | some src' =>
    simp only [Option.map_some]
    have e : (setLink L LinkSel.sourceLink src').tgt = L.tgt := rfl
    rw [e]
    cases h2 : connectChecked L.tgt a.tgtMany s t with
    | none => simp [List.foldl, runCall, setLink, linkMap, argOf]
    | some tgt' => simp [setLink]

/-! ### the query of `new`: `WhereEqual` -/

open Pyx.Gen.QueryShape in
/-- `for name, value in items: if getattr(inst, name) <breakWhen> value: break` / `else: yield`; `none` = the read
    did not end -/
def rowMatchesBy (w : WhereShape) (m : Model) (fuel : Nat) (kind : String) (j : Nat) :
    List (String × Val) → Option Bool
  | [] => some (w.yieldWhen == .completed)
  | (n, v) :: rest =>
    match readAttr m fuel kind j n with
    | none => none
    | some r =>
      let brk := match w.breakWhen with
        | .ne => !(r == v)
        | .eq => r == v
      if brk then some (w.yieldWhen == .broke) else rowMatchesBy w m fuel kind j rest

theorem rowMatches_eq_generated (m : Model) (fuel : Nat) (kind : String) (j : Nat) (kw : List (String × Val)) :
    rowMatches m fuel kind j kw = rowMatchesBy Pyx.Gen.QueryShape.whereShape m fuel kind j kw := by
  induction kw with
  | nil => rfl
  | cons p rest ih =>
    obtain ⟨n, v⟩ := p
    simp only [rowMatches, rowMatchesBy, Pyx.Gen.QueryShape.whereShape]
    cases readAttr m fuel kind j n with
    | none => rfl
    | some r =>
      simp only
      by_cases h : (r == v) = true
      · simp only [h, if_true, Bool.not_true, Bool.false_eq_true, if_false]; exact ih
      · have h' : (r == v) = false := by simpa using h
        simp [h']

end Pyx.Load
