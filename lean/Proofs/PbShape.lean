import PyxModel.Prebuild.Flat
import Gen.PbShape

/-!
  C05 / C06 source tie, statement structure of bridgepoint/prebuild.py: a GENERIC interpreter of the first-order IR that
  translator/gen_pbshape.py extracts (`Pyx.Gen.PbShape`), over the builder state `St` of PyxModel/Prebuild/Flat.lean.

  The interpreter (`evalA`, `evalE`, `exec`, `callFn`) is defined once, for ANY IR value; only the `…_eq` lemmas (and the
  `*_as_in_source` theorems of Props/C06.lean) mention the generated constants.  What it fixes, once, is the meaning of the
  ATOMS (the hand-modelled environment):

    an instance                  = `V.inst i`: the i-th row of the flat population; model elements are named the way Flat.lean
                                   names them (`V.obj kl`, `V.rrel r`, `V.dt name`); `V.ghost` = an instance of a class that
                                   Flat.lean leaves out (V_LOC) or an opaque value (positions, the character stream)
    `self.new('<CLS>', k=v…)`    = `blankRow`: a new row appended, every referential attribute still EMPTY (0 / none / ""),
                                   the printed attributes (Value, Operator, cardinality, relationship_phrase, Name) from the
                                   keywords; unknown class = stuck
    `relate(a, b, n[, 'ph'])`    = `relateV`: xtuml.relate is symmetric in (a, b) for a non-reflexive association: the row of
                                   the class that HOLDS the referential attribute of association n (`setRef`, `setElem`: THE
                                   TABLE, read off the ooaofooa schema the way Flat.lean stores each association) is rewritten
                                   in place, provided the partner has the class the association demands (`partnerOk`);
                                   R661 is reflexive: `relate(x, y, 661, 'precedes')` writes Previous_Statement_ID of y := x,
                                   with 'succeeds' the roles are swapped; R682 / R683 store the Statement_ID of the ACT_IF's
                                   supertype row; R820 goes to the side table `tys`; R601 / R848 / R835 are not stored.
                                   None on either side: the asserting `relate` fails (`ok := false`), `xtuml.relate` does nothing
    `self.symtab.<m>`            = `curBlk` / `curObj` / `findSym` / `install` / `pushScope` / `popScope` of Flat.lean
    `self.find_symbol(node, n)`  = `lookupVar` of Flat.lean (ActionPrebuilder.find_symbol + the self-declaring override)
    `self.o_obj(kl)`, `r_rel`    = the class if it is in scope (`fc.classes`), the association by its name
    `self.accept(node.<child>)`  = an ORACLE supplied with the node (`Node.kids`, `Node.children`): any function of the
                                   interpreter state — the theorems instantiate it with the Flat.lean function of the child
    fuel                         = one unit per statement, sub-expression, call and loop round; exhaustion = stuck (`none`)
-/
set_option linter.unusedVariables false
set_option linter.unusedSimpArgs false
namespace Pyx.PbShape
open Pyx.Prebuild Pyx.Prebuild.Flat Pyx.Gen.PbShape

inductive V where
  | none
  | bool (b : Bool)
  | str (s : String)
  | nat (n : Nat)
  | inst (i : Nat)
  | obj (kl : String)
  | rrel (r : String)
  | dt (name : String)
  | actAct
  | ghost (what : String)
  | node
  | child (i : Nat)
  deriving DecidableEq, Repr, Inhabited

/-- interpreter state: the builder state, `self.is_lvalue`, and R820 (V_VAL ↦ S_DT name) which FlatPop does not store -/
structure G where
  st : St
  lval : Bool := false
  tys : List (Nat × String) := []
  deriving Repr, Inhabited

abbrev Kw := List (String × V)
abbrev Acc := Kw → G → V × G

/-- the node being accepted: its string fields, what accepting each child does, and `node.children` -/
structure Node where
  strs : List (String × String) := []
  kids : List (String × Acc) := []
  children : List Acc := []

structure Fr where
  loc : Kw := []
  kwargs : Kw := []

def truthy : V → Bool
  | .none => false
  | .bool b => b
  | .str s => s != ""
  | .nat n => n != 0
  | _ => true

def Fr.get (fr : Fr) (x : String) : V := (fr.loc.lookup x).getD .none
def Fr.set (fr : Fr) (x : String) (v : V) : Fr := { fr with loc := (x, v) :: fr.loc }

def kwStr (kw : Kw) (k : String) : String :=
  match kw.lookup k with
  | some (.str s) => s
  | _ => ""

/-! ### atoms: rows -/

/-- more classes (extension, round 11): the R801 subtypes that name a variable, ACT_CR, ACT_FIO, ACT_FOR -/
@[simp] def blankRow2 (cls : String) (kw : Kw) : Option (Option Row) :=
  if cls = "V_IRF" then some (some (.irf 0 0))
  else if cls = "V_ISR" then some (some (.isr 0 0))
  else if cls = "V_TVL" then some (some (.tvl 0 0))
  else if cls = "ACT_CR" then some (some (.cr 0 0 ""))
  else if cls = "ACT_FIO" then some (some (.fio 0 0 "" (kwStr kw "cardinality")))
  else if cls = "ACT_FOR" then some (some (.for_ 0 0 0 0 ""))
  else none

/-- `self.new('<cls>', k=v…)`: `some (some row)` a row with empty referentials, `some none` a class left out of FlatPop -/
def blankRow (cls : String) (kw : Kw) : Option (Option Row) :=
  if cls = "ACT_BLK" then some (some (.blk false))
  else if cls = "ACT_SMT" then some (some (.smt 0 none))
  else if cls = "ACT_RET" then some (some (.ret 0 none))
  else if cls = "ACT_BRK" then some (some (.brk 0))
  else if cls = "ACT_CON" then some (some (.con 0))
  else if cls = "ACT_CTL" then some (some (.ctl 0))
  else if cls = "ACT_CNV" then some (some (.cnv 0 ""))
  else if cls = "ACT_DEL" then some (some (.del 0 0))
  else if cls = "ACT_REL" then some (some (.rel 0 0 0 "" (kwStr kw "relationship_phrase")))
  else if cls = "ACT_RU" then some (some (.ru 0 0 0 0 "" (kwStr kw "relationship_phrase")))
  else if cls = "ACT_UNR" then some (some (.unr 0 0 0 "" (kwStr kw "relationship_phrase")))
  else if cls = "ACT_URU" then some (some (.uru 0 0 0 0 "" (kwStr kw "relationship_phrase")))
  else if cls = "ACT_WHL" then some (some (.whl 0 0 0))
  else if cls = "ACT_IF" then some (some (.if_ 0 0 0))
  else if cls = "ACT_EL" then some (some (.el 0 0 0 0))
  else if cls = "ACT_E" then some (some (.e 0 0 0))
  else if cls = "V_VAL" then some (some (.val 0))
  else if cls = "V_LIN" then some (some (.lin 0 (kwStr kw "Value")))
  else if cls = "V_LRL" then some (some (.lrl 0 (kwStr kw "Value")))
  else if cls = "V_LST" then some (some (.lst 0 (kwStr kw "Value")))
  else if cls = "V_LBO" then some (some (.lbo 0 (kwStr kw "Value")))
  else if cls = "V_UNY" then some (some (.uny 0 (kwStr kw "Operator") 0))
  else if cls = "V_BIN" then some (some (.bin 0 (kwStr kw "Operator") 0 0))
  else if cls = "V_SLR" then some (some (.slr 0))
  else if cls = "V_VAR" then some (some (.var (kwStr kw "Name") 0))
  else if cls = "V_INT" then some (some (.vint 0 ""))
  else if cls = "V_INS" then some (some (.vins 0 ""))
  else if cls = "V_TRN" then some (some (.vtrn 0))
  else if cls = "V_LOC" then some none
  else blankRow2 cls kw

/-- THE TABLE, continued (extension, round 11): R603 of ACT_CR / ACT_FIO / ACT_FOR, R633, R639, R605 / R614 / R652,
    R801 of V_IRF / V_ISR / V_TVL, R808, R809, R805 -/
@[simp] def setRef2 (rel : Nat) (r : Row) (k : Nat) : Option Row :=
  match rel, r with
  | 603, .cr _ v kl => some (.cr k v kl)
  | 603, .fio _ v kl c => some (.fio k v kl c)
  | 603, .for_ _ b v sv kl => some (.for_ k b v sv kl)
  | 633, .cr s _ kl => some (.cr s k kl)
  | 639, .fio s _ kl c => some (.fio s k kl c)
  | 605, .for_ s _ v sv kl => some (.for_ s k v sv kl)
  | 614, .for_ s b _ sv kl => some (.for_ s b k sv kl)
  | 652, .for_ s b v _ kl => some (.for_ s b v k kl)
  | 801, .irf _ v => some (.irf k v)
  | 801, .isr _ v => some (.isr k v)
  | 801, .tvl _ v => some (.tvl k v)
  | 808, .irf v _ => some (.irf v k)
  | 809, .isr v _ => some (.isr v k)
  | 805, .tvl v _ => some (.tvl v k)
  | _, _ => none

/-- THE TABLE, instance partners: association `rel`, held by row `r`, partner = row number `k` -/
def setRef (rel : Nat) (r : Row) (k : Nat) : Option Row :=
  match rel, r with
  | 602, .smt _ p => some (.smt k p)
  | 603, .ret _ v => some (.ret k v)
  | 603, .brk _ => some (.brk k)
  | 603, .con _ => some (.con k)
  | 603, .ctl _ => some (.ctl k)
  | 603, .cnv _ kl => some (.cnv k kl)
  | 603, .del _ v => some (.del k v)
  | 603, .rel _ a b rr ph => some (.rel k a b rr ph)
  | 603, .ru _ a b u rr ph => some (.ru k a b u rr ph)
  | 603, .unr _ a b rr ph => some (.unr k a b rr ph)
  | 603, .uru _ a b u rr ph => some (.uru k a b u rr ph)
  | 603, .whl _ b v => some (.whl k b v)
  | 603, .if_ _ b v => some (.if_ k b v)
  | 603, .el _ b v i => some (.el k b v i)
  | 603, .e _ b i => some (.e k b i)
  | 668, .ret s _ => some (.ret s (some k))
  | 634, .del s _ => some (.del s k)
  | 615, .rel s _ b rr ph => some (.rel s k b rr ph)
  | 616, .rel s a _ rr ph => some (.rel s a k rr ph)
  | 617, .ru s _ b u rr ph => some (.ru s k b u rr ph)
  | 618, .ru s a _ u rr ph => some (.ru s a k u rr ph)
  | 619, .ru s a b _ rr ph => some (.ru s a b k rr ph)
  | 620, .unr s _ b rr ph => some (.unr s k b rr ph)
  | 621, .unr s a _ rr ph => some (.unr s a k rr ph)
  | 622, .uru s _ b u rr ph => some (.uru s k b u rr ph)
  | 623, .uru s a _ u rr ph => some (.uru s a k u rr ph)
  | 624, .uru s a b _ rr ph => some (.uru s a b k rr ph)
  | 608, .whl s _ v => some (.whl s k v)
  | 626, .whl s b _ => some (.whl s b k)
  | 607, .if_ s _ v => some (.if_ s k v)
  | 625, .if_ s b _ => some (.if_ s b k)
  | 658, .el s _ v i => some (.el s k v i)
  | 659, .el s b _ i => some (.el s b k i)
  | 682, .el s b v _ => some (.el s b v k)
  | 606, .e s _ i => some (.e s k i)
  | 683, .e s b _ => some (.e s b k)
  | 826, .val _ => some (.val k)
  | 801, .lin _ x => some (.lin k x)
  | 801, .lrl _ x => some (.lrl k x)
  | 801, .lst _ x => some (.lst k x)
  | 801, .lbo _ x => some (.lbo k x)
  | 801, .uny _ o x => some (.uny k o x)
  | 801, .bin _ o l rr => some (.bin k o l rr)
  | 801, .slr _ => some (.slr k)
  | 804, .uny v o _ => some (.uny v o k)
  | 802, .bin v o _ rr => some (.bin v o k rr)
  | 803, .bin v o l _ => some (.bin v o l k)
  | 823, .var n _ => some (.var n k)
  | 814, .vint _ kl => some (.vint k kl)
  | 814, .vins _ kl => some (.vins k kl)
  | 814, .vtrn _ => some (.vtrn k)
  | rel, r => setRef2 rel r k

/-- the partners of the associations of `setRef2` that are not in `partnerOk` yet: all V_VAR -/
@[simp] def partnerOk2 (rel : Nat) (y : Row) : Bool :=
  match rel, y with
  | 633, .var _ _ | 639, .var _ _ | 614, .var _ _ | 652, .var _ _ | 808, .var _ _ | 809, .var _ _ | 805, .var _ _ => true
  | _, _ => false

/-- THE TABLE, the class the partner of `rel` must have (the row at the other end) -/
def partnerOk (rel : Nat) (y : Row) : Bool :=
  match rel, y with
  | 602, .blk _ | 605, .blk _ | 606, .blk _ | 607, .blk _ | 608, .blk _ | 658, .blk _ | 826, .blk _ | 823, .blk _ => true
  | 603, .smt _ _ => true
  | 682, .if_ _ _ _ | 683, .if_ _ _ _ => true
  | 668, .val _ | 626, .val _ | 625, .val _ | 659, .val _ | 801, .val _ | 802, .val _ | 803, .val _ | 804, .val _ => true
  | 634, .var _ _ | 615, .var _ _ | 616, .var _ _ | 617, .var _ _ | 618, .var _ _ | 619, .var _ _ | 620, .var _ _
  | 621, .var _ _ | 622, .var _ _ | 623, .var _ _ | 624, .var _ _ | 814, .var _ _ => true
  | rel, y => partnerOk2 rel y

/-- O_OBJ partners, continued (extension, round 11): R671, R677, R670 -/
@[simp] def setElem2 (rel : Nat) (r : Row) (y : V) : Option Row :=
  match rel, r, y with
  | 671, .cr s v _, .obj kl => some (.cr s v kl)
  | 677, .fio s v _ c, .obj kl => some (.fio s v kl c)
  | 670, .for_ s b v sv _, .obj kl => some (.for_ s b v sv kl)
  | _, _, _ => none

/-- THE TABLE, partners that are model elements: O_OBJ (R672, R818, R819), R_REL (R653 – R656) -/
def setElem (rel : Nat) (r : Row) (y : V) : Option Row :=
  match rel, r, y with
  | 672, .cnv s _, .obj kl => some (.cnv s kl)
  | 818, .vint v _, .obj kl => some (.vint v kl)
  | 819, .vins v _, .obj kl => some (.vins v kl)
  | 653, .rel s a b _ ph, .rrel rr => some (.rel s a b rr ph)
  | 654, .ru s a b u _ ph, .rrel rr => some (.ru s a b u rr ph)
  | 655, .unr s a b _ ph, .rrel rr => some (.unr s a b rr ph)
  | 656, .uru s a b u _ ph, .rrel rr => some (.uru s a b u rr ph)
  | 666, .blk _, .actAct => some (.blk true)
  | 601, .blk o, .actAct => some (.blk o)
  | rel, r, y => setElem2 rel r y

/-- the key a link to row `k` stores: R682 / R683 name the ACT_IF by the Statement_ID it shares with its supertype row -/
def linkKey (rel : Nat) (k : Nat) (y : Row) : Nat :=
  match rel, y with
  | 682, .if_ s _ _ => s
  | 683, .if_ s _ _ => s
  | _, _ => k

/-- one direction: x holds the referential attribute -/
def linkFrom (p : FlatPop) (rel : Nat) (x y : V) : Option FlatPop :=
  match x with
  | .inst i =>
    match p[i]? with
    | some r =>
      (match y with
       | .inst k =>
         (match p[k]? with
          | some yr => if partnerOk rel yr then (setRef rel r (linkKey rel k yr)).map (fun r' => p.set i r') else none
          | none => none)
       | _ => (setElem rel r y).map (fun r' => p.set i r'))
    | none => none
  | _ => none

/-- R661: Previous_Statement_ID of `later` := `earlier` -/
def link661 (p : FlatPop) (earlier later : V) : Option FlatPop :=
  match earlier, later with
  | .inst e, .inst l =>
    (match p[e]?, p[l]? with
     | some (.smt _ _), some (.smt b _) => some (p.set l (.smt b (some e)))
     | _, _ => none)
  | _, _ => none

/-- R820 to an S_DT the model does not name (the type of a variable, R848, is `V.ghost`): not stored (extension, round 11) -/
@[simp] def relate820g (g : G) : V → V → Option G
  | .inst _, .ghost _ => some g
  | .ghost _, .inst _ => some g
  | _, _ => none

/-- `xtuml.relate(a, b, rel, phrase)` on instances that exist; `none`: xtuml raises (unknown association / classes) -/
def relateV (g : G) (a b : V) (rel : Nat) (phrase : String) : Option G :=
  if rel = 661 then
    if phrase = "precedes" then (link661 g.st.pop a b).map (fun p => { g with st := { g.st with pop := p } })
    else if phrase = "succeeds" then (link661 g.st.pop b a).map (fun p => { g with st := { g.st with pop := p } })
    else none
  else if rel = 820 then
    match a, b with
    | .inst v, .dt t => some { g with tys := (v, t) :: g.tys }
    | .dt t, .inst v => some { g with tys := (v, t) :: g.tys }
    | a, b => relate820g g a b
  else if rel = 848 || rel = 835 then some g
  else
    match linkFrom g.st.pop rel a b with
    | some p => some { g with st := { g.st with pop := p } }
    | none => (linkFrom g.st.pop rel b a).map (fun p => { g with st := { g.st with pop := p } })

def gfail (g : G) : G := { g with st := g.st.fail }

/-! ### atoms: navigation, attribute reads -/

def readAttr (p : FlatPop) (v : V) (f : String) : V :=
  match v with
  | .inst i =>
    (match p[i]? with
     | some (.var n _) => if f = "Name" then .str n else .ghost f
     | _ => .ghost f)
  | _ => .ghost f

/-- one step `.<cls>[<rel>]` from one value; `none` = a step the interpreter does not know (stuck) -/
def navStep (g : G) (v : V) (s : Gen.PbShape.Step) : Option V :=
  match v with
  | .none => some .none
  | .inst i =>
    if s = ⟨"S_DT", 820, ""⟩ then some (match g.tys.lookup i with | some t => .dt t | none => .none)
    else if s = ⟨"V_VAR", 814, ""⟩ then
      (match g.st.pop[i]? with
       | some r => (match r.varOf with | some k => some (.inst k) | none => none)
       | none => none)
    else if s = ⟨"S_DT", 848, ""⟩ then some (.ghost "S_DT")
    else none
  | .dt t =>
    -- the generic reference types belong to no class: `.S_IRDT[17].O_OBJ[123]…` reaches nothing
    if s.cls = "S_IRDT" && s.rel = 17 then
      (if t = "inst_ref<Object>" || t = "inst_ref_set<Object>" then some .none else none)
    else none
  | .obj _ => if s = ⟨"S_IRDT", 123, ""⟩ then some .none else none   -- class-specific reference types are not modelled
  | _ => none

def navSteps (g : G) : V → List Gen.PbShape.Step → Option V
  | v, [] => some v
  | v, s :: rest => match navStep g v s with
    | some v' => navSteps g v' rest
    | none => none

/-- `==` on values, spelled out (identity of instances, equality of strings) -/
def veq : V → V → Bool
  | .none, .none => true
  | .bool a, .bool b => a == b
  | .str a, .str b => a == b
  | .nat a, .nat b => a == b
  | .inst a, .inst b => a == b
  | .obj a, .obj b => a == b
  | .rrel a, .rrel b => a == b
  | .dt a, .dt b => a == b
  | .actAct, .actAct => true
  | .ghost a, .ghost b => a == b
  | .node, .node => true
  | .child a, .child b => a == b
  | _, _ => false

/-! ### the interpreter -/

structure Env where
  fc : FCtx
  nd : Node
  fns : List Fn

def evalA (E : Env) (g : G) (fr : Fr) : A → V
  | .loc x => fr.get x
  | .none => .none
  | .tt => .bool true
  | .ff => .bool false
  | .str s => .str s
  | .nat n => .nat n
  | .node [] => .node
  | .node [f] => (match E.nd.strs.lookup f with | some s => .str s | none => .ghost f)
  | .node (f :: _) => .ghost f
  | .selfField f =>
    if f = "act_act" then .actAct
    else if f = "is_lvalue" then .bool g.lval
    else if f = "_o_obj" then (match E.fc.selfKl with | some kl => .obj kl | none => .none)
    else .ghost f
  | .attr a f => readAttr g.st.pop (evalA E g fr a) f
  | .lower a => (match evalA E g fr a with | .str s => .str (lowerStr s) | v => v)
  | .strUpper a => (match evalA E g fr a with | .str s => .str (String.ofList (s.toList.map Char.toUpper)) | v => v)
  | .slice1m1 a => (match evalA E g fr a with | .str s => .str (unquote s) | v => v)
  | .className a => .ghost "__class__"

def evalKw (E : Env) (g : G) (fr : Fr) (kw : List (String × A)) : Kw := kw.map (fun p => (p.1, evalA E g fr p.2))

/-- the symbol table of Flat.lean -/
def symtabCall (g : G) (fn : String) (args : List V) (kw : Kw) : Option (V × G) :=
  if fn = "find_symbol" then
    (match args, kw with
     | [], [("kind", .str k)] =>
       if k = "ACT_BLK" then some ((match curBlk g.st.scopes with | some b => .inst b | none => .none), g)
       else if k = "O_OBJ" then some ((match curObj g.st.scopes with | some kl => .obj kl | none => .none), g)
       else none
     | [.str n], [] => some ((match findSym g.st.scopes n with | some v => .inst v | none => .none), g)
     | _, _ => none)
  else if fn = "enter_scope" then
    (match args with
     | [.inst b] => some (.inst b, { g with st := pushScope (.blk b) g.st })
     | [.obj kl] => some (.obj kl, { g with st := pushScope (.obj kl) g.st })
     | _ => none)
  else if fn = "leave_scope" then some (.none, { g with st := popScope g.st })
  else if fn = "install_symbol" then
    (match args with
     | [.str n, .inst v] => some (.none, { g with st := { g.st with scopes := install g.st.scopes n v } })
     | _ => none)
  else none

/-- helpers that are atoms: model-element lookups and the (overridable) `find_symbol` -/
def atomCall (E : Env) (g : G) (fn : String) (args : List V) : Option (V × G) :=
  if fn = "o_obj" then
    (match args with
     | [.str kl] => some ((if E.fc.classes.contains kl then .obj kl else .none), g)
     | _ => none)
  else if fn = "r_rel" then (match args with | [.str r] => some (.rrel r, g) | _ => none)
  else if fn = "find_symbol" then
    (match args with
     | [.node, .str n] => let r := lookupVar E.fc n g.st; some ((match r.1 with | some v => .inst v | none => .none), { g with st := r.2 })
     | _ => none)
  else none

def bindParams : List String → List V → Kw → Option Fr
  | [], [], kw => if kw.isEmpty then some {} else none
  | ["**kwargs"], [], kw => some { kwargs := kw }
  | p :: ps, v :: vs, kw => (bindParams ps vs kw).map (fun fr => fr.set p v)
  | p :: ps, [], kw =>
    if p = "**kwargs" then none else
    match kw.lookup p with
    | some v => (bindParams ps [] (kw.filter (fun q => q.1 != p))).map (fun fr => fr.set p v)
    | none => none
  | [], _ :: _, _ => none

/-- the result of a statement list: fell through (the locals) or returned -/
inductive Ctl where
  | next (fr : Fr)
  | ret (v : V)

mutual
  def evalE (E : Env) : Nat → G → Fr → Gen.PbShape.E → Option (V × G)
    | 0, _, _, _ => none
    | f + 1, g, fr, e =>
      match e with
      | .atom a => some (evalA E g fr a, g)
      | .call fn args kw star =>
        let vs := args.map (evalA E g fr)
        let kws := evalKw E g fr kw ++ (if star then fr.kwargs else [])
        (match atomCall E g fn vs with
         | some r => some r
         | none =>
           match E.fns.find? (fun fn' => fn'.name == fn) with
           | some fn' =>
             (match bindParams fn'.params vs kws with
              | some fr' =>
                (match exec E f g fr' fn'.body with
                 | some (.ret v, g') => some (v, g')
                 | some (.next _, g') => some (.none, g')
                 | none => none)
              | none => none)
           | none => none)
      | .selectAny cls k a =>
        (match evalA E g fr a with
         | .str n => if cls = "S_DT" && k = "Name" then some (.dt n, g) else none
         | _ => none)
      | .symtab fn args kw => symtabCall g fn (args.map (evalA E g fr)) (evalKw E g fr kw)
      | .accept child kw =>
        (match child with
         | .node [c] =>
           (match E.nd.kids.lookup c with
            | some acc => some (acc (evalKw E g fr kw) g)
            | none => some (.none, g))
         | .node [a, c] =>
           (match E.nd.kids.lookup (a ++ "." ++ c) with
            | some acc => some (acc (evalKw E g fr kw) g)
            | none => some (.none, g))
         | .loc x =>
           (match fr.get x with
            | .child i => (match E.nd.children[i]? with | some acc => some (acc (evalKw E g fr kw) g) | none => none)
            | _ => none)
         | _ => none)
      | .new cls kw star =>
        (match blankRow cls (evalKw E g fr kw ++ (if star then fr.kwargs else [])) with
         | some (some row) => let r := g.st.new row; some (.inst r.1, { g with st := r.2 })
         | some none => some (.ghost cls, g)
         | none => none)
      | .nav _ start steps filter =>
        -- filters only occur on steps whose result the interpreter does not distinguish (S_IRDT, O_OBJ by key letters)
        (navSteps g (evalA E g fr start) steps).map (fun v => (v, g))
      | .subtype a rel =>
        (match evalA E g fr a with
         | .inst v => if rel = 801 then some ((match g.st.pop.findIdx? (fun r => r.valOf == some v) with | some i => .inst i | none => .none), g) else none
         | _ => none)
      | .memOf a l => some (.bool ((l.map (evalA E g fr)).contains (evalA E g fr a)), g)
      | .or_ a b =>
        (match evalE E f g fr a with
         | some (v, g') => if truthy v then some (v, g') else evalE E f g' fr b
         | none => none)
      | .and_ a b =>
        (match evalE E f g fr a with
         | some (v, g') => if truthy v then evalE E f g' fr b else some (v, g')
         | none => none)
      | .not_ a => (match evalE E f g fr a with | some (v, g') => some (.bool (!truthy v), g') | none => none)
      | .isNone a => (match evalE E f g fr a with | some (v, g') => some (.bool (v == .none), g') | none => none)
      | .eq a b =>
        (match evalE E f g fr a with
         | some (v, g') => (match evalE E f g' fr b with | some (w, g'') => some (.bool (veq v w), g'') | none => none)
         | none => none)
  def exec (E : Env) : Nat → G → Fr → List S → Option (Ctl × G)
    | 0, _, _, _ => none
    | _ + 1, g, fr, [] => some (.next fr, g)
    | f + 1, g, fr, s :: rest =>
      match s with
      | .assign x e => (match evalE E f g fr e with | some (v, g') => exec E f g' (fr.set x v) rest | none => none)
      | .setAttr _ _ _ => exec E f g fr rest      -- positions, Label, isLValue, Declared: not in FlatPop
      | .setSelf fld a =>
        if fld = "is_lvalue" then exec E f { g with lval := truthy (evalA E g fr a) } fr rest else none
      | .relate asserting a b rel ph =>
        let va := evalA E g fr a
        let vb := evalA E g fr b
        if va = .none || vb = .none then (if asserting then exec E f (gfail g) fr rest else exec E f g fr rest)
        else (match relateV g va vb rel ph with | some g' => exec E f g' fr rest | none => none)
      | .expr e => (match evalE E f g fr e with | some (_, g') => exec E f g' fr rest | none => none)
      | .ifThen c thn els =>
        (match evalE E f g fr c with
         | some (v, g') =>
           (match exec E f g' fr (if truthy v then thn else els) with
            | some (.next fr', g'') => exec E f g'' fr' rest
            | r => r)
         | none => none)
      | .whileDo c body =>
        (match evalE E f g fr c with
         | some (v, g') =>
           if truthy v then
             (match exec E f g' fr body with
              | some (.next fr', g'') => exec E f g'' fr' (.whileDo c body :: rest)
              | r => r)
           else exec E f g' fr rest
         | none => none)
      | .forChildren x rev body =>
        (match loop E f g fr x body (if rev then (List.range E.nd.children.length).reverse else List.range E.nd.children.length) with
         | some (.next fr', g') => exec E f g' fr' rest
         | r => r)
      | .ret e => (match evalE E f g fr e with | some (v, g') => some (.ret v, g') | none => none)
      | .raise => some (.ret .none, gfail g)
  def loop (E : Env) : Nat → G → Fr → String → List S → List Nat → Option (Ctl × G)
    | 0, _, _, _, _, _ => none
    | _ + 1, g, fr, _, _, [] => some (.next fr, g)
    | f + 1, g, fr, x, body, i :: is =>
      match exec E f g (fr.set x (.child i)) body with
      | some (.next fr', g') => loop E f g' fr' x body is
      | r => r
end

/-- `self.<fn>(node, args…)` of the generated method table -/
def callFn (E : Env) (fuel : Nat) (fn : Fn) (args : List V) (kw : Kw) (g : G) : Option (V × G) :=
  match bindParams fn.params args kw with
  | some fr =>
    (match exec E fuel g fr fn.body with
     | some (.ret v, g') => some (v, g')
     | some (.next _, g') => some (.none, g')
     | none => none)
  | none => none

def mkEnv (fc : FCtx) (nd : Node) : Env := { fc := fc, nd := nd, fns := methods }

/-- accepting a node with handler `fn` -/
def handle (fc : FCtx) (fn : Fn) (nd : Node) (kw : Kw) (g : G) : Option (V × G) :=
  callFn (mkEnv fc nd) 60 fn [.node] kw g

end Pyx.PbShape

/-! ### equation lemmas about the generated IR (used by Props/C06.lean) -/
namespace Pyx.PbShape
open Pyx.Prebuild Pyx.Prebuild.Flat Pyx.Gen.PbShape

/-- the handle of the current block scope is an ACT_BLK row (the real code passes the instance itself) -/
def BlkOK (st : St) : Prop := ∀ b, curBlk st.scopes = some b → ∃ o, st.pop[b]? = some (.blk o)

/-- the loop body of accept_StatementListNode, as generated -/
def stmtListBody : List S :=
  match accept_StatementListNode.body with
  | [_, .forChildren _ _ body] => body
  | _ => []

/-- Flat.lean's deviation in form, made explicit: Previous_Statement_ID of the ACT_SMT row `s` := prev, written AFTER the
    child was accepted (Flat.lean writes it when it creates the row) -/
def linkPrev (prev : Option Nat) (s : Nat) (st : St) : St :=
  match prev, st.pop[s]? with
  | some e, some (.smt b _) => { st with pop := st.pop.set s (.smt b (some e)) }
  | _, _ => st

def prevV : Option Nat → V
  | none => .none
  | some e => .inst e

theorem act_smt_eq (fc : FCtx) (nd : Node) (g : G) (hb : BlkOK g.st) :
    callFn (mkEnv fc nd) 12 act_smt [.node] [] g
      = some (.inst (newSmt none g.st).1, { g with st := (newSmt none g.st).2 }) := by
  obtain ⟨⟨pop, scopes, ok⟩, lval, tys⟩ := g
  unfold BlkOK at hb
  simp only at hb
  cases hc : curBlk scopes with
  | none =>
    simp [callFn, act_smt, mkEnv, bindParams, exec, evalE, evalA, evalKw, symtabCall, hc, Fr.set, Fr.get, blankRow, St.new,
      gfail, newSmt, St.guard, St.fail, curBlkD, List.lookup]
  | some b =>
    obtain ⟨o, ho⟩ := hb b hc
    have hlt : b < pop.length := by
      rcases Nat.lt_or_ge b pop.length with h | h
      · exact h
      · simp [List.getElem?_eq_none h] at ho
    simp [callFn, act_smt, mkEnv, bindParams, exec, evalE, evalA, evalKw, symtabCall, hc, Fr.set, Fr.get, blankRow, St.new,
      gfail, newSmt, St.guard, St.fail, curBlkD, List.lookup, relateV, linkFrom, ho, List.getElem?_append_left hlt,
      setRef, partnerOk, linkKey, setElem]

theorem stmt_list_step (fc : FCtx) (nd : Node) (g g1 : G) (fr : Fr) (i s b : Nat) (acc : Acc) (prev : Option Nat)
    (hp : fr.get "prev" = prevV prev) (hk : nd.children[i]? = some acc) (ha : acc [] g = (.inst s, g1))
    (hs : g1.st.pop[s]? = some (.smt b none))
    (he : ∀ e, prev = some e → ∃ b' p', g1.st.pop[e]? = some (.smt b' p')) :
    exec (mkEnv fc nd) 20 g (fr.set "child" (.child i)) stmtListBody
        = some (.next (((fr.set "child" (.child i)).set "act_smt" (.inst s)).set "prev" (.inst s)),
                { g1 with st := linkPrev prev s g1.st }) := by
  cases prev with
  | none =>
    simp [prevV, Fr.get] at hp
    simp [stmtListBody, accept_StatementListNode, exec, evalE, evalA, evalKw, mkEnv, Fr.set, Fr.get, List.lookup, hk, ha,
        linkPrev, hp]
  | some e =>
    obtain ⟨b', p', hep⟩ := he e rfl
    simp [prevV, Fr.get] at hp
    simp [stmtListBody, accept_StatementListNode, exec, evalE, evalA, evalKw, mkEnv, Fr.set, Fr.get, List.lookup, hk, ha,
        linkPrev, hp, relateV, link661, hep, hs]

/-- the oracle for a statement child: Flat.lean's `buildStmt` with NO predecessor (the handler itself never writes R661) -/
def stmtAcc (fc : FCtx) (s : Stmt) : Acc := fun _ g => let r := buildStmt fc none s g.st; (.inst r.1, { g with st := r.2 })

/-- the generated loop body with the two instances of the R661 relate SWAPPED (a hand-made mutant, for non-vacuity) -/
def stmtListBodySwapped : List S :=
  [ .assign "act_smt" (.accept (.loc "child") []),
    .relate false (.loc "act_smt") (.loc "prev") 661 "precedes",
    .assign "prev" (.atom (.loc "act_smt")) ]

/-- … and with the phrase of the defect repaired by 5de8b22 -/
def stmtListBodySucceeds : List S :=
  [ .assign "act_smt" (.accept (.loc "child") []),
    .relate false (.loc "prev") (.loc "act_smt") 661 "succeeds",
    .assign "prev" (.atom (.loc "act_smt")) ]

def demoG : G := { st := { pop := [.blk true, .smt 0 none, .brk 1], scopes := [⟨.blk 0, []⟩] } }
def demoNd : Node := { children := [stmtAcc { ees := [], classes := [] } .cont] }
def demoFr : Fr := (({} : Fr).set "prev" (.inst 1)).set "child" (.child 0)

end Pyx.PbShape

/-! ### round 2: helpers as calls, statement and value handlers -/
namespace Pyx.PbShape
open Pyx.Prebuild Pyx.Prebuild.Flat Pyx.Gen.PbShape

theorem act_smt_fuel (fc : FCtx) (nd : Node) (g : G) (n : Nat) (hb : BlkOK g.st) :
    callFn (mkEnv fc nd) (n + 12) act_smt [.node] [] g
      = some (.inst (newSmt none g.st).1, { g with st := (newSmt none g.st).2 }) := by
  obtain ⟨⟨pop, scopes, ok⟩, lval, tys⟩ := g
  unfold BlkOK at hb
  simp only at hb
  cases hc : curBlk scopes with
  | none =>
    simp [callFn, act_smt, mkEnv, bindParams, exec, evalE, evalA, evalKw, symtabCall, hc, Fr.set, Fr.get, blankRow, St.new,
      gfail, newSmt, St.guard, St.fail, curBlkD, List.lookup]
  | some b =>
    obtain ⟨o, ho⟩ := hb b hc
    have hlt : b < pop.length := by
      rcases Nat.lt_or_ge b pop.length with h | h
      · exact h
      · simp [List.getElem?_eq_none h] at ho
    simp [callFn, act_smt, mkEnv, bindParams, exec, evalE, evalA, evalKw, symtabCall, hc, Fr.set, Fr.get, blankRow, St.new,
      gfail, newSmt, St.guard, St.fail, curBlkD, List.lookup, relateV, linkFrom, ho, List.getElem?_append_left hlt,
      setRef, partnerOk, linkKey, setElem]

/-- a call of a method of the generated table that is no atom -/
theorem evalE_call (E : Env) (f : Nat) (g : G) (fr : Fr) (fn : String) (args : List A) (kw : List (String × A)) (star : Bool)
    (fn' : Fn) (ha : atomCall E g fn (args.map (evalA E g fr)) = none) (hf : E.fns.find? (fun x => x.name == fn) = some fn') :
    evalE E (f + 1) g fr (.call fn args kw star)
      = callFn E f fn' (args.map (evalA E g fr)) (evalKw E g fr kw ++ (if star then fr.kwargs else [])) g := by
  simp [evalE, callFn, ha, hf]

theorem find_act_smt (fc : FCtx) (nd : Node) : (mkEnv fc nd).fns.find? (fun x => x.name == "act_smt") = some act_smt := by
  rfl

theorem call_act_smt (fc : FCtx) (nd : Node) (g : G) (fr : Fr) (f : Nat) (hf : 13 ≤ f) (hb : BlkOK g.st) :
    evalE (mkEnv fc nd) f g fr (.call "act_smt" [A.node []] [] false)
      = some (.inst (newSmt none g.st).1, { g with st := (newSmt none g.st).2 }) := by
  obtain ⟨n, rfl⟩ := Nat.exists_eq_add_of_le' hf
  rw [evalE_call (mkEnv fc nd) (n + 12) g fr "act_smt" _ _ _ act_smt (by simp [atomCall]) (find_act_smt fc nd)]
  simpa [evalA, evalKw] using act_smt_fuel fc nd g n hb

theorem break_eq (fc : FCtx) (nd : Node) (g : G) (n : Nat) (hb : BlkOK g.st) :
    callFn (mkEnv fc nd) (n + 20) accept_BreakNode [.node] [] g
      = some (.inst (buildStmt fc none .brk g.st).1, { g with st := (buildStmt fc none .brk g.st).2 }) := by
  simp [callFn, accept_BreakNode, bindParams, exec, ↓call_act_smt, hb, evalE, evalA, evalKw, Fr.set, Fr.get, List.lookup,
    blankRow, St.new, relateV, linkFrom, newSmt, setRef, partnerOk, linkKey, buildStmt]

@[simp] theorem mkEnv_nd (fc : FCtx) (nd : Node) : (mkEnv fc nd).nd = nd := rfl
@[simp] theorem mkEnv_fc (fc : FCtx) (nd : Node) : (mkEnv fc nd).fc = fc := rfl

theorem continue_eq (fc : FCtx) (nd : Node) (g : G) (n : Nat) (hb : BlkOK g.st) :
    callFn (mkEnv fc nd) (n + 20) accept_ContinueNode [.node] [] g
      = some (.inst (buildStmt fc none .cont g.st).1, { g with st := (buildStmt fc none .cont g.st).2 }) := by
  simp [callFn, accept_ContinueNode, bindParams, exec, ↓call_act_smt, hb, evalE, evalA, evalKw, Fr.set, Fr.get, List.lookup,
    blankRow, St.new, relateV, linkFrom, newSmt, setRef, partnerOk, linkKey, buildStmt]

theorem control_eq (fc : FCtx) (nd : Node) (g : G) (n : Nat) (hb : BlkOK g.st) :
    callFn (mkEnv fc nd) (n + 20) accept_ControlNode [.node] [] g
      = some (.inst (buildStmt fc none .ctl g.st).1, { g with st := (buildStmt fc none .ctl g.st).2 }) := by
  simp [callFn, accept_ControlNode, bindParams, exec, ↓call_act_smt, hb, evalE, evalA, evalKw, Fr.set, Fr.get, List.lookup,
    blankRow, St.new, relateV, linkFrom, newSmt, setRef, partnerOk, linkKey, buildStmt]

/-- a bare `return;`: node.expression is None, `self.accept(None)` is None, `xtuml.relate(act_ret, None, 668)` does nothing -/
theorem return_bare_eq (fc : FCtx) (nd : Node) (g : G) (n : Nat) (hb : BlkOK g.st) (hk : nd.kids.lookup "expression" = none) :
    callFn (mkEnv fc nd) (n + 20) accept_ReturnNode [.node] [] g
      = some (.inst (buildStmt fc none (.ret none) g.st).1, { g with st := (buildStmt fc none (.ret none) g.st).2 }) := by
  simp [callFn, accept_ReturnNode, bindParams, exec, ↓call_act_smt, hb, evalE, evalA, evalKw, Fr.set, Fr.get, List.lookup,
    blankRow, St.new, relateV, linkFrom, newSmt, setRef, partnerOk, linkKey, buildStmt, mkEnv_nd, mkEnv_fc, hk]

theorem create_nv_eq (fc : FCtx) (nd : Node) (g : G) (n : Nat) (kl : String) (hb : BlkOK g.st)
    (hk : nd.strs.lookup "key_letter" = some kl) (hc : kl ∈ fc.classes) :
    callFn (mkEnv fc nd) (n + 20) accept_CreateObjectNoVariableNode [.node] [] g
      = some (.inst (buildStmt fc none (.createNV kl) g.st).1, { g with st := (buildStmt fc none (.createNV kl) g.st).2 }) := by
  obtain ⟨⟨pop, scopes, ok⟩, lval, tys⟩ := g
  simp [callFn, accept_CreateObjectNoVariableNode, bindParams, exec, ↓call_act_smt, hb, evalE, evalA, evalKw, Fr.set, Fr.get,
    List.lookup, blankRow, St.new, relateV, linkFrom, newSmt, setRef, partnerOk, linkKey, buildStmt, mkEnv_nd, mkEnv_fc, hk, atomCall, hc,
    setElem, gfail, St.guard, St.fail]

/-! ### round 3: values — v_val / s_dt as calls, literals, unary and binary operations with the R820 chain -/

theorem v_val_fuel (fc : FCtx) (nd : Node) (g : G) (n : Nat) (hb : BlkOK g.st) :
    callFn (mkEnv fc nd) (n + 12) v_val [.node] [] g
      = some (.inst (newVal g.st).1, { g with st := (newVal g.st).2 }) := by
  obtain ⟨⟨pop, scopes, ok⟩, lval, tys⟩ := g
  unfold BlkOK at hb
  simp only at hb
  cases hc : curBlk scopes with
  | none =>
    simp [callFn, v_val, bindParams, exec, evalE, evalA, evalKw, symtabCall, hc, Fr.set, Fr.get, blankRow, St.new,
      gfail, newVal, St.guard, St.fail, curBlkD, List.lookup]
  | some b =>
    obtain ⟨o, ho⟩ := hb b hc
    have hlt : b < pop.length := by
      rcases Nat.lt_or_ge b pop.length with h | h
      · exact h
      · simp [List.getElem?_eq_none h] at ho
    simp [callFn, v_val, bindParams, exec, evalE, evalA, evalKw, symtabCall, hc, Fr.set, Fr.get, blankRow, St.new,
      gfail, newVal, St.guard, St.fail, curBlkD, List.lookup, relateV, linkFrom, ho, List.getElem?_append_left hlt,
      setRef, partnerOk, linkKey, setElem]

theorem find_v_val (fc : FCtx) (nd : Node) : (mkEnv fc nd).fns.find? (fun x => x.name == "v_val") = some v_val := by rfl
theorem find_s_dt (fc : FCtx) (nd : Node) : (mkEnv fc nd).fns.find? (fun x => x.name == "s_dt") = some s_dt := by rfl

theorem call_v_val (fc : FCtx) (nd : Node) (g : G) (fr : Fr) (f : Nat) (hf : 13 ≤ f) (hb : BlkOK g.st) :
    evalE (mkEnv fc nd) f g fr (.call "v_val" [A.node []] [] false)
      = some (.inst (newVal g.st).1, { g with st := (newVal g.st).2 }) := by
  obtain ⟨n, rfl⟩ := Nat.exists_eq_add_of_le' hf
  rw [evalE_call (mkEnv fc nd) (n + 12) g fr "v_val" _ _ _ v_val (by simp [atomCall]) (find_v_val fc nd)]
  simpa [evalA, evalKw] using v_val_fuel fc nd g n hb

theorem call_s_dt (fc : FCtx) (nd : Node) (g : G) (fr : Fr) (f : Nat) (name : String) (hf : 4 ≤ f) :
    evalE (mkEnv fc nd) f g fr (.call "s_dt" [A.str name] [] false) = some (.dt name, g) := by
  obtain ⟨n, rfl⟩ := Nat.exists_eq_add_of_le' hf
  rw [evalE_call (mkEnv fc nd) (n + 3) g fr "s_dt" _ _ _ s_dt (by simp [atomCall]) (find_s_dt fc nd)]
  simp [callFn, s_dt, bindParams, exec, evalE, evalA, evalKw, Fr.set, Fr.get, List.lookup]

theorem integer_eq (fc : FCtx) (nd : Node) (g : G) (n : Nat) (v : String) (hb : BlkOK g.st)
    (hv : nd.strs.lookup "value" = some v) :
    callFn (mkEnv fc nd) (n + 20) accept_IntegerNode [.node] [] g
      = some (.inst (buildExpr fc (.int v) g.st).1,
              { g with st := (buildExpr fc (.int v) g.st).2, tys := ((buildExpr fc (.int v) g.st).1, "integer") :: g.tys }) := by
  simp [callFn, accept_IntegerNode, bindParams, exec, ↓call_v_val, ↓call_s_dt, hb, evalE, evalA, evalKw, Fr.set, Fr.get,
    List.lookup, blankRow, St.new, relateV, linkFrom, newVal, setRef, partnerOk, linkKey, buildExpr, hv, kwStr]

@[simp] theorem guard_pop (st : St) (c : Bool) : (st.guard c).pop = st.pop := by cases c <;> rfl
@[simp] theorem guard_scopes (st : St) (c : Bool) : (st.guard c).scopes = st.scopes := by cases c <;> rfl

/-- the R820 type `accept_UnaryOperationNode` selects, as the model's `typeOf` states it -/
def unTy (op t : String) : String :=
  if Flat.boolUnOps.contains op then "boolean" else if op == "cardinality" then "integer" else t

theorem unary_eq (fc : FCtx) (nd : Node) (g g1 : G) (n o b : Nat) (op t : String) (acc : Acc)
    (hop : nd.strs.lookup "operator" = some op) (hk : nd.kids.lookup "operand" = some acc)
    (ha : acc [] g = (.inst o, g1)) (hb : BlkOK g1.st) (ho : g1.st.pop[o]? = some (.val b))
    (ht : g1.tys.lookup o = some t) :
    callFn (mkEnv fc nd) (n + 30) accept_UnaryOperationNode [.node] [] g
      = some (.inst (newVal g1.st).1,
              { g1 with st := ((newVal g1.st).2.new (.uny (newVal g1.st).1 (lowerStr op) o)).2,
                        tys := ((newVal g1.st).1, unTy (lowerStr op) t) :: g1.tys }) := by
  obtain ⟨⟨pop, scopes, ok⟩, lval, tys⟩ := g1
  have hlt : o < pop.length := by
    rcases Nat.lt_or_ge o pop.length with h | h
    · exact h
    · simp [List.getElem?_eq_none h] at ho
  simp only at ho ht hb
  by_cases h1 : lowerStr op = "not" ∨ lowerStr op = "empty" ∨ lowerStr op = "not_empty"
  · simp [callFn, accept_UnaryOperationNode, bindParams, exec, ↓call_v_val, ↓call_s_dt, hb, evalE, evalA, evalKw, Fr.set, Fr.get,
      List.lookup, blankRow, St.new, relateV, linkFrom, newVal, setRef, partnerOk, linkKey, hop, hk, ha, kwStr, truthy, veq,
      h1, unTy, Flat.boolUnOps, ho, List.getElem?_append_left hlt]
  · by_cases h2 : lowerStr op = "cardinality"
    · simp [callFn, accept_UnaryOperationNode, bindParams, exec, ↓call_v_val, ↓call_s_dt, hb, evalE, evalA, evalKw, Fr.set, Fr.get,
        List.lookup, blankRow, St.new, relateV, linkFrom, newVal, setRef, partnerOk, linkKey, hop, hk, ha, kwStr, truthy, veq,
        h1, h2, unTy, Flat.boolUnOps, ho, List.getElem?_append_left hlt]
    · simp [callFn, accept_UnaryOperationNode, bindParams, exec, ↓call_v_val, ↓call_s_dt, hb, evalE, evalA, evalKw, Fr.set, Fr.get,
        List.lookup, blankRow, St.new, relateV, linkFrom, newVal, setRef, partnerOk, linkKey, hop, hk, ha, kwStr, truthy, veq,
        h1, h2, unTy, Flat.boolUnOps, ho, List.getElem?_append_left hlt, navSteps, navStep, ht]

/-- the R820 type `accept_BinaryOperationNode` selects, as the model's `typeOf` states it -/
def binTy (op t : String) : String :=
  if Flat.compareOps.contains op then "boolean"
  else if ["|", "+", "&", "^", "-"].contains op && ["inst_ref<Object>", "inst_ref_set<Object>"].contains t then "inst_ref_set<Object>"
  else t

theorem nav_type (g : G) (l : Nat) :
    navSteps g (.inst l) [⟨"S_DT", 820, ""⟩] = some (match g.tys.lookup l with | some t => .dt t | none => .none) := by
  simp [navSteps, navStep]

theorem dt_beq (a b : String) : (V.dt a == V.dt b) = decide (a = b) := by
  by_cases h : a = b <;> simp [h]

theorem nav_generic (g : G) (t : String) (h : t = "inst_ref<Object>" ∨ t = "inst_ref_set<Object>") :
    navSteps g (.dt t) [⟨"S_IRDT", 17, ""⟩, ⟨"O_OBJ", 123, ""⟩, ⟨"S_IRDT", 123, ""⟩] = some .none := by
  rcases h with rfl | rfl <;> simp [navSteps, navStep]

theorem nav_none (g : G) (s : Pyx.Gen.PbShape.Step) : navSteps g .none [s] = some .none := by
  simp [navSteps, navStep]

def binRes (g2 : G) (op t : String) (l r : Nat) : Option (V × G) :=
  some (.inst (newVal g2.st).1,
        { g2 with st := ((newVal g2.st).2.new (.bin (newVal g2.st).1 (lowerStr op) l r)).2,
                  tys := ((newVal g2.st).1, binTy (lowerStr op) t) :: g2.tys })

section Binary
variable (fc : FCtx) (nd : Node) (g g1 g2 : G) (n l r bl br : Nat) (op t : String) (accL accR : Acc)
    (hop : nd.strs.lookup "operator" = some op)
    (hkl : nd.kids.lookup "left" = some accL) (hkr : nd.kids.lookup "right" = some accR)
    (hal : accL [] g = (.inst l, g1)) (har : accR [] g1 = (.inst r, g2)) (hb : BlkOK g2.st)
    (hl : g2.st.pop[l]? = some (.val bl)) (hr : g2.st.pop[r]? = some (.val br))
    (ht : g2.tys.lookup l = some t)
include hop hkl hkr hal har hb hl hr ht

theorem binary_cmp (h1 : lowerStr op = "<" ∨ lowerStr op = "<=" ∨ lowerStr op = "==" ∨ lowerStr op = "!=" ∨ lowerStr op = ">=" ∨
      lowerStr op = ">" ∨ lowerStr op = "and" ∨ lowerStr op = "or") :
    callFn (mkEnv fc nd) (n + 40) accept_BinaryOperationNode [.node] [] g = binRes g2 op t l r := by
  obtain ⟨⟨pop, scopes, ok⟩, lval, tys⟩ := g2
  have hltl : l < pop.length := by
    rcases Nat.lt_or_ge l pop.length with h | h
    · exact h
    · simp [List.getElem?_eq_none h] at hl
  have hltr : r < pop.length := by
    rcases Nat.lt_or_ge r pop.length with h | h
    · exact h
    · simp [List.getElem?_eq_none h] at hr
  simp only at hl hr ht hb
  simp [binRes, callFn, accept_BinaryOperationNode, bindParams, exec, ↓call_v_val, ↓call_s_dt, hb, evalE, evalA, evalKw, Fr.set, Fr.get,
      List.lookup, blankRow, St.new, relateV, linkFrom, newVal, setRef, partnerOk, linkKey, hop, hkl, hkr, hal, har, kwStr, truthy, veq,
      h1, binTy, Flat.compareOps, hl, hr, List.getElem?_append_left hltl, List.getElem?_append_left hltr,
      nav_type, ht]

theorem binary_arith (h1 : ¬ (lowerStr op = "<" ∨ lowerStr op = "<=" ∨ lowerStr op = "==" ∨ lowerStr op = "!=" ∨ lowerStr op = ">=" ∨
      lowerStr op = ">" ∨ lowerStr op = "and" ∨ lowerStr op = "or")) (h2 : ¬ (lowerStr op = "|" ∨ lowerStr op = "+" ∨ lowerStr op = "&" ∨ lowerStr op = "^" ∨ lowerStr op = "-")) :
    callFn (mkEnv fc nd) (n + 40) accept_BinaryOperationNode [.node] [] g = binRes g2 op t l r := by
  obtain ⟨⟨pop, scopes, ok⟩, lval, tys⟩ := g2
  have hltl : l < pop.length := by
    rcases Nat.lt_or_ge l pop.length with h | h
    · exact h
    · simp [List.getElem?_eq_none h] at hl
  have hltr : r < pop.length := by
    rcases Nat.lt_or_ge r pop.length with h | h
    · exact h
    · simp [List.getElem?_eq_none h] at hr
  simp only at hl hr ht hb
  simp [binRes, callFn, accept_BinaryOperationNode, bindParams, exec, ↓call_v_val, ↓call_s_dt, ↓dt_beq, hb, evalE, evalA, evalKw, Fr.set, Fr.get,
      List.lookup, blankRow, St.new, relateV, linkFrom, newVal, setRef, partnerOk, linkKey, hop, hkl, hkr, hal, har, kwStr, truthy, veq,
      h1, h2, binTy, Flat.compareOps,
      hl, hr, List.getElem?_append_left hltl, List.getElem?_append_left hltr, nav_type, ht]

/-- comparison / logical operators and the operators that are no set operator (`*`, `/`, `%`); the branch of
    `|  +  &  ^  -` (type test against the generic reference types) is not proved -/
theorem binary_eq (h2 : ¬ (lowerStr op = "|" ∨ lowerStr op = "+" ∨ lowerStr op = "&" ∨ lowerStr op = "^" ∨ lowerStr op = "-")) :
    callFn (mkEnv fc nd) (n + 40) accept_BinaryOperationNode [.node] [] g = binRes g2 op t l r := by
  by_cases h1 : lowerStr op = "<" ∨ lowerStr op = "<=" ∨ lowerStr op = "==" ∨ lowerStr op = "!=" ∨ lowerStr op = ">=" ∨
      lowerStr op = ">" ∨ lowerStr op = "and" ∨ lowerStr op = "or"
  · exact binary_cmp fc nd g g1 g2 n l r bl br op t accL accR hop hkl hkr hal har hb hl hr ht h1
  · exact binary_arith fc nd g g1 g2 n l r bl br op t accL accR hop hkl hkr hal har hb hl hr ht h1 h2
theorem binary_set_plain (h1 : ¬ (lowerStr op = "<" ∨ lowerStr op = "<=" ∨ lowerStr op = "==" ∨ lowerStr op = "!=" ∨ lowerStr op = ">=" ∨
      lowerStr op = ">" ∨ lowerStr op = "and" ∨ lowerStr op = "or"))
    (h2 : lowerStr op = "|" ∨ lowerStr op = "+" ∨ lowerStr op = "&" ∨ lowerStr op = "^" ∨ lowerStr op = "-")
    (h3a : ¬ t = "inst_ref<Object>") (h3b : ¬ t = "inst_ref_set<Object>") :
    callFn (mkEnv fc nd) (n + 40) accept_BinaryOperationNode [.node] [] g = binRes g2 op t l r := by
  obtain ⟨⟨pop, scopes, ok⟩, lval, tys⟩ := g2
  have hltl : l < pop.length := by
    rcases Nat.lt_or_ge l pop.length with h | h
    · exact h
    · simp [List.getElem?_eq_none h] at hl
  have hltr : r < pop.length := by
    rcases Nat.lt_or_ge r pop.length with h | h
    · exact h
    · simp [List.getElem?_eq_none h] at hr
  simp only at hl hr ht hb
  simp [binRes, callFn, accept_BinaryOperationNode, bindParams, exec, ↓call_v_val, ↓call_s_dt, hb, evalE, evalA, evalKw, Fr.set, Fr.get,
      List.lookup, blankRow, St.new, relateV, linkFrom, newVal, setRef, partnerOk, linkKey, hop, hkl, hkr, hal, har, kwStr, truthy, veq,
      h1, h2, h3a, h3b, binTy, Flat.compareOps,
      hl, hr, List.getElem?_append_left hltl, List.getElem?_append_left hltr, nav_type, ht]
theorem binary_gen (h1 : ¬ (lowerStr op = "<" ∨ lowerStr op = "<=" ∨ lowerStr op = "==" ∨ lowerStr op = "!=" ∨ lowerStr op = ">=" ∨
      lowerStr op = ">" ∨ lowerStr op = "and" ∨ lowerStr op = "or"))
    (h2 : lowerStr op = "|" ∨ lowerStr op = "+" ∨ lowerStr op = "&" ∨ lowerStr op = "^" ∨ lowerStr op = "-")
    (h3 : t = "inst_ref<Object>" ∨ t = "inst_ref_set<Object>") :
    callFn (mkEnv fc nd) (n + 40) accept_BinaryOperationNode [.node] [] g = binRes g2 op t l r := by
  obtain ⟨⟨pop, scopes, ok⟩, lval, tys⟩ := g2
  have hltl : l < pop.length := by
    rcases Nat.lt_or_ge l pop.length with h | h
    · exact h
    · simp [List.getElem?_eq_none h] at hl
  have hltr : r < pop.length := by
    rcases Nat.lt_or_ge r pop.length with h | h
    · exact h
    · simp [List.getElem?_eq_none h] at hr
  simp only at hl hr ht hb
  rcases h3 with rfl | rfl <;>
  simp [binRes, callFn, accept_BinaryOperationNode, bindParams, exec, ↓call_v_val, ↓call_s_dt, hb, evalE, evalA, evalKw, Fr.set, Fr.get,
      List.lookup, blankRow, St.new, relateV, linkFrom, newVal, setRef, partnerOk, linkKey, hop, hkl, hkr, hal, har, kwStr, truthy, veq,
      h1, h2, binTy, Flat.compareOps, nav_generic, nav_none,
      hl, hr, List.getElem?_append_left hltl, List.getElem?_append_left hltr, nav_type, ht]

/-- every operator: comparison / logical, set operators on generic references, set operators on other types, the rest -/
theorem binary_all : callFn (mkEnv fc nd) (n + 40) accept_BinaryOperationNode [.node] [] g = binRes g2 op t l r := by
  by_cases h1 : lowerStr op = "<" ∨ lowerStr op = "<=" ∨ lowerStr op = "==" ∨ lowerStr op = "!=" ∨ lowerStr op = ">=" ∨
      lowerStr op = ">" ∨ lowerStr op = "and" ∨ lowerStr op = "or"
  · exact binary_cmp fc nd g g1 g2 n l r bl br op t accL accR hop hkl hkr hal har hb hl hr ht h1
  · by_cases h2 : (lowerStr op = "|" ∨ lowerStr op = "+" ∨ lowerStr op = "&" ∨ lowerStr op = "^" ∨ lowerStr op = "-")
    · by_cases h3 : t = "inst_ref<Object>" ∨ t = "inst_ref_set<Object>"
      · exact binary_gen fc nd g g1 g2 n l r bl br op t accL accR hop hkl hkr hal har hb hl hr ht h1 h2 h3
      · exact binary_set_plain fc nd g g1 g2 n l r bl br op t accL accR hop hkl hkr hal har hb hl hr ht h1 h2
          (fun h => h3 (Or.inl h)) (fun h => h3 (Or.inr h))
    · exact binary_arith fc nd g g1 g2 n l r bl br op t accL accR hop hkl hkr hal har hb hl hr ht h1 h2

end Binary

theorem real_eq (fc : FCtx) (nd : Node) (g : G) (n : Nat) (v : String) (hb : BlkOK g.st)
    (hv : nd.strs.lookup "value" = some v) :
    callFn (mkEnv fc nd) (n + 20) accept_RealNode [.node] [] g
      = some (.inst (buildExpr fc (.real v) g.st).1,
              { g with st := (buildExpr fc (.real v) g.st).2, tys := ((buildExpr fc (.real v) g.st).1, "real") :: g.tys }) := by
  simp [callFn, accept_RealNode, bindParams, exec, ↓call_v_val, ↓call_s_dt, hb, evalE, evalA, evalKw, Fr.set, Fr.get,
    List.lookup, blankRow, St.new, relateV, linkFrom, newVal, setRef, partnerOk, linkKey, buildExpr, hv, kwStr]

theorem string_eq (fc : FCtx) (nd : Node) (g : G) (n : Nat) (v : String) (hb : BlkOK g.st)
    (hv : nd.strs.lookup "value" = some v) :
    callFn (mkEnv fc nd) (n + 20) accept_StringNode [.node] [] g
      = some (.inst (buildExpr fc (.str v) g.st).1,
              { g with st := (buildExpr fc (.str v) g.st).2, tys := ((buildExpr fc (.str v) g.st).1, "string") :: g.tys }) := by
  simp [callFn, accept_StringNode, bindParams, exec, ↓call_v_val, ↓call_s_dt, hb, evalE, evalA, evalKw, Fr.set, Fr.get,
    List.lookup, blankRow, St.new, relateV, linkFrom, newVal, setRef, partnerOk, linkKey, buildExpr, hv, kwStr]

/-! ### final round: boolean literal, blocks, delete -/

theorem upper_true : String.ofList ("true".toList.map Char.toUpper) = "TRUE" := by decide
theorem upper_false : String.ofList ("false".toList.map Char.toUpper) = "FALSE" := by decide

theorem boolean_eq (fc : FCtx) (nd : Node) (g : G) (n : Nat) (v : String) (hb : BlkOK g.st)
    (hv : nd.strs.lookup "value" = some v) (hlit : v = "true" ∨ v = "false") :
    callFn (mkEnv fc nd) (n + 20) accept_BooleanNode [.node] [] g
      = some (.inst (buildExpr fc (.bool v) g.st).1,
              { g with st := (buildExpr fc (.bool v) g.st).2, tys := ((buildExpr fc (.bool v) g.st).1, "boolean") :: g.tys }) := by
  rcases hlit with rfl | rfl <;>
  simp [callFn, accept_BooleanNode, bindParams, exec, ↓call_v_val, ↓call_s_dt, hb, evalE, evalA, evalKw, Fr.set, Fr.get,
    List.lookup, blankRow, St.new, relateV, linkFrom, newVal, setRef, partnerOk, linkKey, buildExpr, hv, kwStr,
    upper_true, upper_false, boolValue, St.guard]

theorem block_eq (fc : FCtx) (nd : Node) (g : G) (n : Nat) (acc : Acc)
    (hk : nd.kids.lookup "statement_list" = some acc) :
    callFn (mkEnv fc nd) (n + 20) accept_BlockNode [.node] [] g
      = some (.inst (g.st.new (.blk false)).1,
              { (acc [] { g with st := pushScope (.blk (g.st.new (.blk false)).1) (g.st.new (.blk false)).2 }).2 with
                st := popScope (acc [] { g with st := pushScope (.blk (g.st.new (.blk false)).1) (g.st.new (.blk false)).2 }).2.st }) := by
  simp [callFn, accept_BlockNode, bindParams, exec, evalE, evalA, evalKw, Fr.set, Fr.get, List.lookup, blankRow, St.new,
    relateV, linkFrom, setElem, symtabCall, hk]

theorem body_eq (fc : FCtx) (nd : Node) (g : G) (n : Nat) (acc : Acc)
    (hk : nd.kids.lookup "block.statement_list" = some acc) :
    callFn (mkEnv fc nd) (n + 20) accept_BodyNode [.node] [] g
      = some (.actAct,
              { (acc [] { g with st := pushScope (.blk (g.st.new (.blk true)).1) (g.st.new (.blk true)).2 }).2 with
                st := popScope (acc [] { g with st := pushScope (.blk (g.st.new (.blk true)).1) (g.st.new (.blk true)).2 }).2.st }) := by
  simp [callFn, accept_BodyNode, bindParams, exec, evalE, evalA, evalKw, Fr.set, Fr.get, List.lookup, blankRow, St.new,
    relateV, linkFrom, setElem, symtabCall, hk]

theorem lookupVar_pop (fc : FCtx) (n : String) (st : St) : ∃ ext, (lookupVar fc n st).2.pop = st.pop ++ ext := by
  unfold lookupVar
  split
  · exact ⟨[], by simp [St.fail]⟩
  · split
    · exact ⟨[], by simp⟩
    · split
      · split
        · rename_i kl _; exact ⟨[Row.var "self" (curBlkD st.scopes), Row.vint st.pop.length kl], by simp [newVar, St.new]⟩
        · exact ⟨[], by simp⟩
      · exact ⟨[], by simp⟩

theorem delete_eq (fc : FCtx) (nd : Node) (g : G) (n : Nat) (name : String) (hb : BlkOK g.st)
    (hn : nd.strs.lookup "variable_name" = some name)
    (hvar : ∀ v, (lookupVar fc name (newSmt none g.st).2).1 = some v →
      ∃ nm b, (lookupVar fc name (newSmt none g.st).2).2.pop[v]? = some (.var nm b)) :
    callFn (mkEnv fc nd) (n + 20) accept_DeleteNode [.node] [] g
      = some (.inst (buildStmt fc none (.delete name) g.st).1,
              { g with st := (buildStmt fc none (.delete name) g.st).2 }) := by
  obtain ⟨ext, hext⟩ := lookupVar_pop fc name (newSmt none g.st).2
  have hs1 : (newSmt none g.st).1 = g.st.pop.length := by simp [newSmt, St.new]
  have hs2 : (newSmt none g.st).2.pop = g.st.pop ++ [.smt (curBlkD g.st.scopes) none] := by simp [newSmt, St.new]
  generalize hL : lookupVar fc name (newSmt none g.st).2 = L at hext hvar
  obtain ⟨lv, ⟨lp, lsc, lok⟩⟩ := L
  simp only at hext hvar
  subst hext
  have h603 : ((newSmt none g.st).2.pop ++ (ext ++ [Row.del 0 0]))[(newSmt none g.st).1]? = some (.smt (curBlkD g.st.scopes) none) := by
    rw [hs1, hs2]; simp
  have hdel : ∀ r0 : Row, ((newSmt none g.st).2.pop ++ (ext ++ [r0]))[(newSmt none g.st).2.pop.length + ext.length]? = some r0 := by
    intro r0; rw [← List.append_assoc, ← List.length_append]; simp
  have hset : ∀ r0 r' : Row, ((newSmt none g.st).2.pop ++ (ext ++ [r0])).set ((newSmt none g.st).2.pop.length + ext.length) r'
      = (newSmt none g.st).2.pop ++ (ext ++ [r']) := by
    intro r0 r'; rw [← List.append_assoc, ← List.length_append, ← List.append_assoc]; simp
  cases lv with
  | none =>
    simp [callFn, accept_DeleteNode, bindParams, exec, ↓call_act_smt, hb, evalE, evalA, evalKw, Fr.set, Fr.get, List.lookup,
      blankRow, St.new, relateV, linkFrom, setRef, partnerOk, linkKey, buildStmt, atomCall, hn, hL, needVar, h603, hdel,
      gfail, St.fail, hset]
  | some v =>
    obtain ⟨nm, b, hv⟩ := hvar v rfl
    have hvlt : v < ((newSmt none g.st).2.pop ++ ext).length := by
      rcases Nat.lt_or_ge v ((newSmt none g.st).2.pop ++ ext).length with h | h
      · exact h
      · simp [List.getElem?_eq_none h] at hv
    have hv' : ∀ r' : Row, ((newSmt none g.st).2.pop ++ (ext ++ [r']))[v]? = some (.var nm b) := by
      intro r'; rw [← List.append_assoc, List.getElem?_append_left hvlt]; exact hv
    simp [callFn, accept_DeleteNode, bindParams, exec, ↓call_act_smt, hb, evalE, evalA, evalKw, Fr.set, Fr.get, List.lookup,
      blankRow, St.new, relateV, linkFrom, setRef, partnerOk, linkKey, buildStmt, atomCall, hn, hL, needVar, h603, hdel,
      hv', hset]

end Pyx.PbShape
