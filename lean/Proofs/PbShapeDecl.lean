import Proofs.PbShapeMore2

/-!
  C06 source tie, continued (3): the variable-declaring helpers v_var / v_int / v_ins of the generated IR equal `newVar` of
  PyxModel/Prebuild/Flat.lean for every state, and with them accept_CreateObjectNode = the `.create v kl` clause and
  accept_SelectFromNode = the `.selFrom card v kl` clause of `buildStmt`, for ALL states.
-/
set_option linter.unusedVariables false
set_option linter.unusedSimpArgs false
namespace Pyx.PbShape
open Pyx.Prebuild Pyx.Prebuild.Flat Pyx.Gen.PbShape

/-! ### lists: the last rows of a population -/

theorem get2_0 {α} (P : List α) (a b : α) : (P ++ [a, b])[P.length]? = some a := by simp
theorem get2_1 {α} (P : List α) (a b : α) : (P ++ [a, b])[P.length + 1]? = some b := by simp
theorem set2_1 {α} (P : List α) (a b r : α) : (P ++ [a, b]).set (P.length + 1) r = P ++ [a, r] := by simp
theorem get3_0 {α} (P : List α) (a b c : α) : (P ++ [a, b, c])[P.length]? = some a := by simp
theorem get3_1 {α} (P : List α) (a b c : α) : (P ++ [a, b, c])[P.length + 1]? = some b := by simp
theorem get3_2 {α} (P : List α) (a b c : α) : (P ++ [a, b, c])[P.length + 2]? = some c := by simp
theorem set3_2 {α} (P : List α) (a b c r : α) : (P ++ [a, b, c]).set (P.length + 2) r = P ++ [a, b, r] := by simp

/-- `newVar`, spelled out: two rows, the symbol installed, the failure flag of a missing block scope -/
theorem newVar_eq (name : String) (sub : Nat → Row) (st : St) :
    newVar name sub st = (st.pop.length,
      { pop := st.pop ++ [.var name (curBlkD st.scopes), sub st.pop.length],
        scopes := install st.scopes name st.pop.length, ok := st.ok && (curBlk st.scopes).isSome }) := by
  obtain ⟨pop, scopes, ok⟩ := st
  cases h : (curBlk scopes).isSome <;> simp [newVar, St.guard, St.new, St.fail, h]

/-! ### v_var / v_int / v_ins -/

/-- `v_var(node, Name=name)`: a V_VAR row related over R823 to the current block (V_LOC / R835 are not stored) -/
theorem v_var_fuel (fc : FCtx) (nd : Node) (g : G) (n : Nat) (name : String) (hb : BlkOK g.st) :
    callFn (mkEnv fc nd) (n + 7) v_var [.node] [("Name", .str name)] g
      = some (.inst g.st.pop.length,
          { g with st := { pop := g.st.pop ++ [.var name (curBlkD g.st.scopes)], scopes := g.st.scopes,
                           ok := g.st.ok && (curBlk g.st.scopes).isSome } }) := by
  obtain ⟨⟨pop, scopes, ok⟩, lval, tys⟩ := g
  unfold BlkOK at hb
  simp only at hb
  cases hc : curBlk scopes with
  | none =>
    simp [callFn, v_var, bindParams, exec, evalE, evalA, evalKw, symtabCall, hc, Fr.set, Fr.get, blankRow, St.new,
      gfail, St.guard, St.fail, curBlkD, List.lookup, kwStr, relateV]
  | some b =>
    obtain ⟨o, ho⟩ := hb b hc
    have hlt : b < pop.length := getElem?_lt ho
    simp [callFn, v_var, bindParams, exec, evalE, evalA, evalKw, symtabCall, hc, Fr.set, Fr.get, blankRow, St.new,
      gfail, St.guard, St.fail, curBlkD, List.lookup, kwStr, relateV, linkFrom, ho, List.getElem?_append_left hlt,
      setRef, partnerOk, linkKey, setElem]

theorem find_v_var (fc : FCtx) (nd : Node) : (mkEnv fc nd).fns.find? (fun x => x.name == "v_var") = some v_var := by rfl
theorem find_v_int (fc : FCtx) (nd : Node) : (mkEnv fc nd).fns.find? (fun x => x.name == "v_int") = some v_int := by rfl
theorem find_v_ins (fc : FCtx) (nd : Node) : (mkEnv fc nd).fns.find? (fun x => x.name == "v_ins") = some v_ins := by rfl

theorem call_v_var (fc : FCtx) (nd : Node) (g : G) (fr : Fr) (f : Nat) (name : String) (hf : 8 ≤ f) (hb : BlkOK g.st)
    (hn : fr.get "name" = .str name) :
    evalE (mkEnv fc nd) f g fr (.call "v_var" [A.node []] [("Name", A.loc "name")] false)
      = some (.inst g.st.pop.length,
          { g with st := { pop := g.st.pop ++ [.var name (curBlkD g.st.scopes)], scopes := g.st.scopes,
                           ok := g.st.ok && (curBlk g.st.scopes).isSome } }) := by
  obtain ⟨n, rfl⟩ := Nat.exists_eq_add_of_le' hf
  rw [evalE_call (mkEnv fc nd) (n + 7) g fr "v_var" _ _ _ v_var (by simp [atomCall]) (find_v_var fc nd)]
  simpa [evalA, evalKw, hn] using v_var_fuel fc nd g n name hb

/-- `v_int(node, name, o_obj)` = `newVar name (V_INT of kl)`: V_VAR, V_INT, R814, R818, install_symbol; answers the V_INT -/
theorem v_int_fuel (fc : FCtx) (nd : Node) (g : G) (n : Nat) (name kl : String) (hb : BlkOK g.st) :
    callFn (mkEnv fc nd) (n + 11) v_int [.node, .str name, .obj kl] [] g
      = some (.inst (g.st.pop.length + 1), { g with st := (newVar name (fun i => .vint i kl) g.st).2 }) := by
  obtain ⟨⟨pop, scopes, ok⟩, lval, tys⟩ := g
  have hcv := fun g' fr f hf hb' hn => call_v_var fc nd g' fr f name hf hb' hn
  simp [callFn, v_int, bindParams, exec, ↓hcv, ↓call_s_dt, hb, evalE, evalA, evalKw, Fr.set, Fr.get, List.lookup,
    blankRow, St.new, relateV, linkFrom, setRef, partnerOk, linkKey, setElem, navSteps, navStep, truthy, symtabCall, readAttr,
    newVar_eq, gfail, St.fail, get2_0, get2_1, set2_1]

/-- `v_ins(node, name, o_obj)` = `newVar name (V_INS of kl)`: V_VAR, V_INS, R814, R819, install_symbol; answers the V_INS -/
theorem v_ins_fuel (fc : FCtx) (nd : Node) (g : G) (n : Nat) (name kl : String) (hb : BlkOK g.st) :
    callFn (mkEnv fc nd) (n + 11) v_ins [.node, .str name, .obj kl] [] g
      = some (.inst (g.st.pop.length + 1), { g with st := (newVar name (fun i => .vins i kl) g.st).2 }) := by
  obtain ⟨⟨pop, scopes, ok⟩, lval, tys⟩ := g
  have hcv := fun g' fr f hf hb' hn => call_v_var fc nd g' fr f name hf hb' hn
  simp [callFn, v_ins, bindParams, exec, ↓hcv, ↓call_s_dt, hb, evalE, evalA, evalKw, Fr.set, Fr.get, List.lookup,
    blankRow, St.new, relateV, linkFrom, setRef, partnerOk, linkKey, setElem, navSteps, navStep, truthy, symtabCall, readAttr,
    newVar_eq, gfail, St.fail, get2_0, get2_1, set2_1]

theorem call_v_int (fc : FCtx) (nd : Node) (g : G) (fr : Fr) (f : Nat) (fld name kl : String) (hf : 12 ≤ f) (hb : BlkOK g.st)
    (hn : nd.strs.lookup fld = some name) (ho : fr.get "o_obj" = .obj kl) :
    evalE (mkEnv fc nd) f g fr (.call "v_int" [A.node [], A.node [fld], A.loc "o_obj"] [] false)
      = some (.inst (g.st.pop.length + 1), { g with st := (newVar name (fun i => .vint i kl) g.st).2 }) := by
  obtain ⟨n, rfl⟩ := Nat.exists_eq_add_of_le' hf
  rw [evalE_call (mkEnv fc nd) (n + 11) g fr "v_int" _ _ _ v_int (by simp [atomCall]) (find_v_int fc nd)]
  simpa [evalA, evalKw, hn, ho] using v_int_fuel fc nd g n name kl hb

theorem call_v_ins (fc : FCtx) (nd : Node) (g : G) (fr : Fr) (f : Nat) (fld name kl : String) (hf : 12 ≤ f) (hb : BlkOK g.st)
    (hn : nd.strs.lookup fld = some name) (ho : fr.get "o_obj" = .obj kl) :
    evalE (mkEnv fc nd) f g fr (.call "v_ins" [A.node [], A.node [fld], A.loc "o_obj"] [] false)
      = some (.inst (g.st.pop.length + 1), { g with st := (newVar name (fun i => .vins i kl) g.st).2 }) := by
  obtain ⟨n, rfl⟩ := Nat.exists_eq_add_of_le' hf
  rw [evalE_call (mkEnv fc nd) (n + 11) g fr "v_ins" _ _ _ v_ins (by simp [atomCall]) (find_v_ins fc nd)]
  simpa [evalA, evalKw, hn, ho] using v_ins_fuel fc nd g n name kl hb

/-! ### accept_CreateObjectNode, accept_SelectFromNode -/

/-- `create object instance v of kl` : act_smt, o_obj, find_symbol, (v_int when not found), ACT_CR with R603 / R633 / R671 -/
theorem create_object_eq (fc : FCtx) (nd : Node) (g : G) (n : Nat) (v kl : String) (hb : BlkOK g.st)
    (hn : nd.strs.lookup "variable_name" = some v) (hk : nd.strs.lookup "key_letter" = some kl)
    (hv : v ≠ "self") (hc : kl ∈ fc.classes)
    (hva : VarAns (lookupVar fc v (newSmt none g.st).2)) :
    callFn (mkEnv fc nd) (n + 20) accept_CreateObjectNode [.node] [] g
      = some (.inst (buildStmt fc none (.create v kl) g.st).1,
              { g with st := (buildStmt fc none (.create v kl) g.st).2 }) := by
  have hgd : (v != "self" && fc.classes.contains kl) = true := by simp [hv, hc]
  have hx : Ext (newSmt none g.st).2 (lookupVar fc v (newSmt none g.st).2).2 := Ext.lookupVar _ _ _
  have hb1 : BlkOK (lookupVar fc v (newSmt none g.st).2).2 := ((Ext.newSmt none g.st).trans hx).blkOK hb
  have hs : (lookupVar fc v (newSmt none g.st).2).2.pop[(newSmt none g.st).1]? = some (.smt (curBlkD g.st.scopes) none) :=
    hx.get (newSmt_row g.st)
  unfold VarAns at hva
  clear hx
  generalize hL : lookupVar fc v (newSmt none g.st).2 = L at hb1 hs hva
  obtain ⟨l, ⟨P, sc, ok⟩⟩ := L
  simp only at hb1 hs hva
  have hslt := getElem?_lt hs
  cases l with
  | some x =>
    obtain ⟨nm, b, hx⟩ := hva x rfl
    have hxlt := getElem?_lt hx
    simp [callFn, accept_CreateObjectNode, bindParams, exec, ↓call_act_smt, hb, evalE, evalA, evalKw, Fr.set, Fr.get,
      List.lookup, blankRow, St.new, relateV, linkFrom, setRef, partnerOk, linkKey, setElem, buildStmt, atomCall, hn, hk, hc,
      hgd, hv, St.guard, declVar, hL, hs, hx, List.getElem?_append_left hslt, List.getElem?_append_left hxlt, truthy]
  | none =>
    have hci := fun g' fr f hf hb' ho => call_v_int fc nd g' fr f "variable_name" v kl hf hb' hn ho
    simp [callFn, accept_CreateObjectNode, bindParams, exec, ↓call_act_smt, ↓hci, hb, hb1, evalE, evalA, evalKw, Fr.set, Fr.get,
      List.lookup, blankRow, St.new, relateV, linkFrom, setRef, partnerOk, linkKey, setElem, buildStmt, atomCall, hn, hk, hc,
      hgd, hv, St.guard, declVar, hL, hs, List.getElem?_append_left hslt, truthy, newVar_eq, navSteps, navStep, Row.varOf,
      get3_0, get3_1, get3_2, set3_2, get2_0, get2_1]

/-- `select any / many v from instances of kl` : act_smt, find_symbol, o_obj, (v_ins / v_int by `node.many` when not found),
    ACT_FIO (cardinality in lower case) with R603 / R639 / R677 -/
theorem select_from_eq (fc : FCtx) (nd : Node) (g : G) (n : Nat) (card v kl m : String) (hb : BlkOK g.st)
    (hn : nd.strs.lookup "variable_name" = some v) (hk : nd.strs.lookup "key_letter" = some kl)
    (hcd : nd.strs.lookup "cardinality" = some card) (hm : nd.strs.lookup "many" = some m)
    (hmc : (m != "") = isMany card)
    (hv : v ≠ "self") (hc : kl ∈ fc.classes)
    (hva : VarAns (lookupVar fc v (newSmt none g.st).2)) :
    callFn (mkEnv fc nd) (n + 20) accept_SelectFromNode [.node] [] g
      = some (.inst (buildStmt fc none (.selFrom card v kl) g.st).1,
              { g with st := (buildStmt fc none (.selFrom card v kl) g.st).2 }) := by
  have hgd : (v != "self" && fc.classes.contains kl) = true := by simp [hv, hc]
  have hx : Ext (newSmt none g.st).2 (lookupVar fc v (newSmt none g.st).2).2 := Ext.lookupVar _ _ _
  have hb1 : BlkOK (lookupVar fc v (newSmt none g.st).2).2 := ((Ext.newSmt none g.st).trans hx).blkOK hb
  have hs : (lookupVar fc v (newSmt none g.st).2).2.pop[(newSmt none g.st).1]? = some (.smt (curBlkD g.st.scopes) none) :=
    hx.get (newSmt_row g.st)
  unfold VarAns at hva
  clear hx
  generalize hL : lookupVar fc v (newSmt none g.st).2 = L at hb1 hs hva
  obtain ⟨l, ⟨P, sc, ok⟩⟩ := L
  simp only at hb1 hs hva
  have hslt := getElem?_lt hs
  cases l with
  | some x =>
    obtain ⟨nm, b, hx⟩ := hva x rfl
    have hxlt := getElem?_lt hx
    simp [callFn, accept_SelectFromNode, bindParams, exec, ↓call_act_smt, hb, evalE, evalA, evalKw, Fr.set, Fr.get,
      List.lookup, blankRow, St.new, relateV, linkFrom, setRef, partnerOk, linkKey, setElem, buildStmt, atomCall, hn, hk, hc,
      hcd, hm, kwStr, hgd, hv, St.guard, declVar, hL, hs, hx, List.getElem?_append_left hslt, List.getElem?_append_left hxlt, truthy]
  | none =>
    have hci := fun g' fr f hf hb' ho => call_v_int fc nd g' fr f "variable_name" v kl hf hb' hn ho
    have hcs := fun g' fr f hf hb' ho => call_v_ins fc nd g' fr f "variable_name" v kl hf hb' hn ho
    cases hmany : isMany card with
    | true =>
      have hm' : ¬ m = "" := by simpa [hmany] using hmc
      simp [callFn, accept_SelectFromNode, bindParams, exec, ↓call_act_smt, ↓hci, ↓hcs, hb, hb1, evalE, evalA, evalKw, Fr.set, Fr.get,
        List.lookup, blankRow, St.new, relateV, linkFrom, setRef, partnerOk, linkKey, setElem, buildStmt, atomCall, hn, hk, hc,
        hcd, hm, hm', hmany, kwStr, hgd, hv, St.guard, declVar, hL, hs, List.getElem?_append_left hslt, truthy, newVar_eq, navSteps,
        navStep, Row.varOf, get3_0, get3_1, get3_2, set3_2, get2_0, get2_1]
    | false =>
      have hm' : m = "" := by simpa [hmany] using hmc
      simp [callFn, accept_SelectFromNode, bindParams, exec, ↓call_act_smt, ↓hci, ↓hcs, hb, hb1, evalE, evalA, evalKw, Fr.set, Fr.get,
        List.lookup, blankRow, St.new, relateV, linkFrom, setRef, partnerOk, linkKey, setElem, buildStmt, atomCall, hn, hk, hc,
        hcd, hm, hm', hmany, kwStr, hgd, hv, St.guard, declVar, hL, hs, List.getElem?_append_left hslt, truthy, newVar_eq, navSteps,
        navStep, Row.varOf, get3_0, get3_1, get3_2, set3_2, get2_0, get2_1]

end Pyx.PbShape
