import PyxModel.Load

/-! Helper lemmas for C03, part 1: dicts, ordered sets, enumeration, keys, the hash index, the join loop. -/

namespace Pyx.Load

/-! ### dict -/

theorem dictSet_of_not_mem {β : Type} (d : List (String × β)) (k : String) (v : β)
    (h : k ∉ d.map (·.1)) : dictSet d k v = d ++ [(k, v)] := by
  induction d with
  | nil => rfl
  | cons e d ih =>
    obtain ⟨k', v'⟩ := e
    simp only [List.map_cons, List.mem_cons, not_or] at h
    have hne : ¬ k' = k := fun e => h.1 e.symm
    simp only [dictSet, hne, if_false, List.cons_append, ih h.2]

theorem foldl_dictSet_nodup {β : Type} (l acc : List (String × β))
    (h : ((acc ++ l).map (·.1)).Nodup) :
    l.foldl (fun d p => dictSet d p.1 p.2) acc = acc ++ l := by
  induction l generalizing acc with
  | nil => simp
  | cons p l ih =>
    simp only [List.foldl_cons]
    have hp : p.1 ∉ acc.map (·.1) := by
      simp only [List.map_append, List.map_cons] at h
      have := List.nodup_append.mp h
      intro hm
      exact this.2.2 _ hm _ (List.mem_cons_self) rfl
    rw [dictSet_of_not_mem _ _ _ hp]
    have : acc ++ [(p.1, p.2)] ++ l = acc ++ p :: l := by simp
    rw [ih]
    · exact this
    · rw [this]; exact h

theorem dictOfPairs_eq_self {β : Type} (l : List (String × β)) (h : (l.map (·.1)).Nodup) :
    dictOfPairs l = l := by
  unfold dictOfPairs
  have := foldl_dictSet_nodup l [] (by simpa using h)
  simpa using this

/-! ### ordered set -/

theorem osetAdd_nil (j : Nat) : osetAdd [] j = [j] := by simp [osetAdd]

theorem osetAdd_idem (b : List Nat) (j : Nat) : osetAdd (osetAdd b j) j = osetAdd b j := by
  unfold osetAdd
  by_cases h : j ∈ b
  · simp [h]
  · simp [h]

theorem mem_osetAdd (b : List Nat) (j x : Nat) : x ∈ osetAdd b j ↔ x ∈ b ∨ x = j := by
  unfold osetAdd
  by_cases h : j ∈ b
  · simp only [h, if_true]
    constructor
    · exact Or.inl
    · rintro (h1 | h1)
      · exact h1
      · exact h1 ▸ h
  · simp [h]

theorem osetAddAll_append (b l1 l2 : List Nat) :
    osetAddAll b (l1 ++ l2) = osetAddAll (osetAddAll b l1) l2 := by
  simp [osetAddAll, List.foldl_append]

theorem osetAddAll_nodup (acc l : List Nat) (h : (acc ++ l).Nodup) : osetAddAll acc l = acc ++ l := by
  induction l generalizing acc with
  | nil => simp [osetAddAll]
  | cons x l ih =>
    have hx : x ∉ acc := by
      have := List.nodup_append.mp h
      intro hm
      exact this.2.2 _ hm _ List.mem_cons_self rfl
    have e : acc ++ x :: l = (acc ++ [x]) ++ l := by simp
    show osetAddAll (osetAdd acc x) l = acc ++ x :: l
    have : osetAdd acc x = acc ++ [x] := by simp [osetAdd, hx]
    rw [this, ih _ (e ▸ h), e]

theorem osetAddAll_nil_nodup (l : List Nat) (h : l.Nodup) : osetAddAll [] l = l := by
  simpa using osetAddAll_nodup [] l (by simpa using h)

/-! ### enumeration -/

theorem enumFrom_map_fst {α : Type} (n : Nat) (l : List α) :
    (enumFrom n l).map (·.1) = List.range' n l.length := by
  induction l generalizing n with
  | nil => rfl
  | cons x xs ih => simp [enumFrom, ih, List.range'_succ]

theorem le_of_mem_enumFrom {α : Type} {n i : Nat} {x : α} {l : List α} (h : (i, x) ∈ enumFrom n l) : n ≤ i := by
  induction l generalizing n with
  | nil => simp [enumFrom] at h
  | cons y ys ih =>
    simp only [enumFrom, List.mem_cons, Prod.mk.injEq] at h
    rcases h with ⟨h1, _⟩ | h
    · omega
    · have := ih h; omega

theorem mem_enumFrom_add {α : Type} (n k : Nat) (x : α) (l : List α) :
    (n + k, x) ∈ enumFrom n l ↔ l[k]? = some x := by
  induction l generalizing n k with
  | nil => simp [enumFrom]
  | cons y ys ih =>
    cases k with
    | zero =>
      simp only [enumFrom, List.mem_cons, Prod.mk.injEq, Nat.add_zero, true_and, List.getElem?_cons_zero,
        Option.some.injEq]
      constructor
      · rintro (h | h)
        · exact h.symm
        · have := le_of_mem_enumFrom h; omega
      · intro h; exact Or.inl h.symm
    | succ k =>
      simp only [enumFrom, List.mem_cons, Prod.mk.injEq, List.getElem?_cons_succ]
      have e : n + (k + 1) = (n + 1) + k := by omega
      rw [e, ih]
      constructor
      · rintro (⟨h, _⟩ | h)
        · omega
        · exact h
      · exact Or.inr

theorem mem_enumFrom_zero {α : Type} (i : Nat) (x : α) (l : List α) :
    (i, x) ∈ enumFrom 0 l ↔ l[i]? = some x := by
  have := mem_enumFrom_add 0 i x l
  simpa using this

/-- the enumerated rows selected by a test on the row, as the list of their positions -/
def selectIdx {α : Type} (n : Nat) (l : List α) (c : α → Bool) : List Nat :=
  (enumFrom n l).filterMap (fun p => if c p.2 then some p.1 else none)

theorem selectIdx_eq_map {α : Type} (n : Nat) (l : List α) (c : α → Bool) :
    selectIdx n l c = ((enumFrom n l).filter (fun p => c p.2)).map (·.1) := by
  unfold selectIdx
  induction enumFrom n l with
  | nil => rfl
  | cons p ps ih =>
    by_cases h : c p.2
    · simp [List.filterMap_cons, h, ih]
    · simp [List.filterMap_cons, h, ih]

theorem selectIdx_nodup {α : Type} (n : Nat) (l : List α) (c : α → Bool) : (selectIdx n l c).Nodup := by
  rw [selectIdx_eq_map]
  have hs : (((enumFrom n l).filter (fun p => c p.2)).map (·.1)).Sublist ((enumFrom n l).map (·.1)) :=
    (List.filter_sublist).map _
  rw [enumFrom_map_fst] at hs
  exact hs.nodup (List.nodup_range')

theorem mem_selectIdx_zero {α : Type} (l : List α) (c : α → Bool) (i : Nat) :
    i ∈ selectIdx 0 l c ↔ ∃ x, l[i]? = some x ∧ c x = true := by
  unfold selectIdx
  simp only [List.mem_filterMap]
  constructor
  · rintro ⟨⟨j, x⟩, hm, hc⟩
    by_cases h : c x
    · simp only [h, if_true, Option.some.injEq] at hc
      subst hc
      exact ⟨x, (mem_enumFrom_zero _ _ _).mp hm, h⟩
    · simp [h] at hc
  · rintro ⟨x, hx, hc⟩
    exact ⟨(i, x), (mem_enumFrom_zero _ _ _).mpr hx, by simp [hc]⟩

theorem selectIdx_congr {α : Type} (n : Nat) (l : List α) (c c' : α → Bool) (h : ∀ x ∈ l, c x = c' x) :
    selectIdx n l c = selectIdx n l c' := by
  unfold selectIdx
  induction l generalizing n with
  | nil => rfl
  | cons x xs ih =>
    simp only [enumFrom, List.filterMap_cons]
    rw [h x List.mem_cons_self, ih (n + 1) (fun y hy => h y (List.mem_cons_of_mem _ hy))]

theorem selectIdx_false {α : Type} (n : Nat) (l : List α) : selectIdx n l (fun _ => false) = [] := by
  unfold selectIdx
  induction l generalizing n with
  | nil => rfl
  | cons x xs ih => simp [enumFrom, List.filterMap_cons, ih]

/-- picking the entries of one position out of an enumeration -/
theorem flatMap_enumFrom_lt {α β : Type} (n z : Nat) (l : List α) (f : α → List β) (h : z < n) :
    (enumFrom n l).flatMap (fun p => if p.1 = z then f p.2 else []) = [] := by
  induction l generalizing n with
  | nil => rfl
  | cons x xs ih =>
    have hne : ¬ n = z := by omega
    simp only [enumFrom, List.flatMap_cons, hne, if_false, List.nil_append]
    exact ih (n + 1) (by omega)

theorem flatMap_enumFrom_add {α β : Type} (n k : Nat) (l : List α) (f : α → List β) :
    (enumFrom n l).flatMap (fun p => if p.1 = n + k then f p.2 else []) =
      (match l[k]? with | some x => f x | none => []) := by
  induction l generalizing n k with
  | nil => rfl
  | cons x xs ih =>
    cases k with
    | zero =>
      simp only [enumFrom, List.flatMap_cons, Nat.add_zero, if_true, List.getElem?_cons_zero]
      rw [flatMap_enumFrom_lt (n + 1) n xs f (by omega)]
      simp
    | succ k =>
      have hne : ¬ n = n + (k + 1) := by omega
      have e : n + (k + 1) = (n + 1) + k := by omega
      simp only [enumFrom, List.flatMap_cons, hne, if_false, List.nil_append, List.getElem?_cons_succ]
      rw [e, ih]

theorem flatMap_enumFrom_zero {α β : Type} (z : Nat) (l : List α) (f : α → List β) :
    (enumFrom 0 l).flatMap (fun p => if p.1 = z then f p.2 else []) =
      (match l[z]? with | some x => f x | none => []) := by
  have := flatMap_enumFrom_add 0 z l f
  simpa using this

/-! ### frozenset keys -/

theorem keyEq_iff (a b : Key) : keyEq a b = true ↔ ∀ x, x ∈ a ↔ x ∈ b := by
  unfold keyEq
  simp only [Bool.and_eq_true, List.all_eq_true, List.contains_iff_mem]
  constructor
  · rintro ⟨h1, h2⟩ x
    exact ⟨h1 x, h2 x⟩
  · intro h
    exact ⟨fun x hx => (h x).mp hx, fun x hx => (h x).mpr hx⟩

theorem namesEq_iff (a b : List String) : namesEq a b = true ↔ ∀ x, x ∈ a ↔ x ∈ b := by
  unfold namesEq
  simp only [Bool.and_eq_true, List.all_eq_true, List.contains_iff_mem]
  constructor
  · rintro ⟨h1, h2⟩ x
    exact ⟨h1 x, h2 x⟩
  · intro h
    exact ⟨fun x hx => (h x).mp hx, fun x hx => (h x).mpr hx⟩

theorem keyEq_refl (a : Key) : keyEq a a = true := (keyEq_iff a a).mpr (fun _ => Iff.rfl)

theorem keyEq_symm {a b : Key} (h : keyEq a b = true) : keyEq b a = true :=
  (keyEq_iff b a).mpr (fun x => ((keyEq_iff a b).mp h x).symm)

theorem keyEq_trans {a b c : Key} (h1 : keyEq a b = true) (h2 : keyEq b c = true) : keyEq a c = true :=
  (keyEq_iff a c).mpr (fun x => ((keyEq_iff a b).mp h1 x).trans ((keyEq_iff b c).mp h2 x))

/-- replacing a key by an equal one does not change any comparison -/
theorem keyEq_congr_right {a b c : Key} (h : keyEq b c = true) : keyEq a b = keyEq a c := by
  cases h1 : keyEq a b <;> cases h2 : keyEq a c <;> try rfl
  · have := keyEq_trans h2 (keyEq_symm h); simp [h1] at this
  · have := keyEq_trans h1 h; simp [h2] at this

theorem keyEq_congr_left {a b c : Key} (h : keyEq a b = true) : keyEq a c = keyEq b c := by
  cases h1 : keyEq a c <;> cases h2 : keyEq b c <;> try rfl
  · have := keyEq_trans h h2; simp [h1] at this
  · have := keyEq_trans (keyEq_symm h) h1; simp [h2] at this

/-! ### the hash index -/

def bucketOf (idx : Index) (k : Key) : List Nat :=
  match findBucket idx k with
  | some b => b
  | none => []

theorem bucketOf_nil (k : Key) : bucketOf [] k = [] := rfl

theorem bucketOf_cons (e : Key × List Nat) (idx : Index) (k : Key) :
    bucketOf (e :: idx) k = if keyEq e.1 k then e.2 else bucketOf idx k := by
  unfold bucketOf findBucket
  by_cases h : keyEq e.1 k
  · simp [List.find?_cons, h]
  · simp [List.find?_cons, h]

theorem bucketOf_indexAdd (idx : Index) (k' : Key) (j : Nat) (k : Key) :
    bucketOf (indexAdd idx k' j) k = if keyEq k' k then osetAdd (bucketOf idx k) j else bucketOf idx k := by
  induction idx with
  | nil =>
    simp only [indexAdd, bucketOf_cons, bucketOf_nil, osetAdd_nil]
  | cons e rest ih =>
    obtain ⟨ke, b⟩ := e
    simp only [indexAdd]
    by_cases h1 : keyEq ke k'
    · simp only [h1, if_true, bucketOf_cons]
      rw [keyEq_congr_left (c := k) h1]
      by_cases h2 : keyEq k' k
      · simp [h2]
      · simp [h2]
    · simp only [h1, Bool.false_eq_true, if_false, bucketOf_cons, ih]
      by_cases h2 : keyEq ke k
      · have h3 : ¬ keyEq k' k = true := by
          intro h3
          exact h1 (keyEq_trans h2 (keyEq_symm h3))
        simp [h2, h3]
      · simp [h2]

/-- does the target row `t` carry the (non-null) key `k` on the attributes `names`? -/
def hit (names : List String) (t : Row) (k : Key) : Bool :=
  match indexKey names t with
  | some k' => keyEq k' k
  | none => false

theorem bucketOf_mkIndexFrom (names : List String) (j : Nat) (T : List Row) (idx : Index) (k : Key) :
    bucketOf (mkIndexFrom names j T idx) k =
      osetAddAll (bucketOf idx k) (selectIdx j T (fun t => hit names t k)) := by
  induction T generalizing j idx with
  | nil => simp [mkIndexFrom, selectIdx, enumFrom, osetAddAll]
  | cons t ts ih =>
    simp only [mkIndexFrom, ih]
    unfold selectIdx
    simp only [enumFrom, List.filterMap_cons]
    unfold hit
    cases hk : indexKey names t with
    | none => simp
    | some k' =>
      simp only [bucketOf_indexAdd]
      by_cases h : keyEq k' k
      · simp [h, osetAddAll]
      · simp [h]

/-- the index answers a lookup with the positions, in storage order, of the rows carrying the key -/
theorem bucketOf_mkIndex (names : List String) (T : List Row) (k : Key) :
    bucketOf (mkIndex names T) k = selectIdx 0 T (fun t => hit names t k) := by
  unfold mkIndex
  rw [bucketOf_mkIndexFrom, bucketOf_nil]
  exact osetAddAll_nil_nodup _ (selectIdx_nodup _ _ _)

/-! ### the join loop -/

theorem connectBucket_tgt (i : Nat) (b : List Nat) (L : Links) (z : Nat) :
    (connectBucket i b L).tgt z = if z = i then osetAddAll (L.tgt i) b else L.tgt z := by
  induction b generalizing L with
  | nil => by_cases h : z = i <;> simp [connectBucket, osetAddAll, h]
  | cons j js ih =>
    simp only [connectBucket, ih, connect]
    by_cases h : z = i
    · simp [h, osetAddAll]
    · simp [h]

theorem connectBucket_src (i : Nat) (b : List Nat) (L : Links) (z : Nat) :
    (connectBucket i b L).src z = if z ∈ b then osetAdd (L.src z) i else L.src z := by
  induction b generalizing L with
  | nil => simp [connectBucket]
  | cons j js ih =>
    simp only [connectBucket, ih, connect]
    by_cases h1 : z = j
    · subst h1
      by_cases h2 : z ∈ js
      · simp [h2, osetAdd_idem]
      · simp [h2]
    · by_cases h2 : z ∈ js
      · simp [h1, h2]
      · simp [h1, h2]

theorem osetAddAll_replicate_like (b : List Nat) (i : Nat) : osetAddAll (osetAdd b i) [] = osetAdd b i := rfl

theorem joinLoop_tgt (a : AssocStmt) (idx : Index) (srcs : List (Nat × Row)) (L : Links) (z : Nat) :
    (joinLoop a idx srcs L).tgt z =
      osetAddAll (L.tgt z) (srcs.flatMap (fun p => if p.1 = z then partners a idx p.2 else [])) := by
  induction srcs generalizing L with
  | nil => simp [joinLoop, osetAddAll]
  | cons p rest ih =>
    obtain ⟨i, s⟩ := p
    simp only [joinLoop, ih, connectBucket_tgt, List.flatMap_cons]
    by_cases h : z = i
    · subst h
      simp [osetAddAll_append]
    · have h' : ¬ i = z := fun e => h e.symm
      simp [h, h']

theorem joinLoop_src (a : AssocStmt) (idx : Index) (srcs : List (Nat × Row)) (L : Links) (z : Nat) :
    (joinLoop a idx srcs L).src z =
      osetAddAll (L.src z) (srcs.filterMap (fun p => if z ∈ partners a idx p.2 then some p.1 else none)) := by
  induction srcs generalizing L with
  | nil => simp [joinLoop, osetAddAll]
  | cons p rest ih =>
    obtain ⟨i, s⟩ := p
    simp only [joinLoop, ih, connectBucket_src, List.filterMap_cons]
    by_cases h : z ∈ partners a idx s
    · simp [h, osetAddAll]
    · simp [h]

end Pyx.Load
