import PyxModel.Prebuild.Flat

/-
  C05 / C06 — helper lemmas for the flat population model (PyxModel/Prebuild/Flat.lean):
  state projections of the builder primitives, `find?` at a known index, the invariants
    TSv p     a row that is the R801 subtype of value k lies AFTER row k
    SymOK st  every symbol of the symbol table names a V_VAR row of that name
-/
set_option linter.unusedSimpArgs false
set_option linter.unusedVariables false

namespace Pyx.Prebuild.Flat
open Pyx.Prebuild

/-! ### builder primitives -/

@[simp] theorem new_fst (st : St) (r : Row) : (st.new r).1 = st.pop.length := rfl
@[simp] theorem new_pop (st : St) (r : Row) : (st.new r).2.pop = st.pop ++ [r] := rfl
@[simp] theorem new_scopes (st : St) (r : Row) : (st.new r).2.scopes = st.scopes := rfl
@[simp] theorem new_ok (st : St) (r : Row) : (st.new r).2.ok = st.ok := rfl
@[simp] theorem fail_pop (st : St) : st.fail.pop = st.pop := rfl
@[simp] theorem fail_scopes (st : St) : st.fail.scopes = st.scopes := rfl
@[simp] theorem fail_ok (st : St) : st.fail.ok = false := rfl
@[simp] theorem guard_pop (st : St) (c : Bool) : (st.guard c).pop = st.pop := by
  unfold St.guard; split <;> rfl
@[simp] theorem guard_scopes (st : St) (c : Bool) : (st.guard c).scopes = st.scopes := by
  unfold St.guard; split <;> rfl
@[simp] theorem guard_ok (st : St) (c : Bool) : (st.guard c).ok = (st.ok && c) := by
  unfold St.guard; cases c <;> simp
@[simp] theorem newVal_fst (st : St) : (newVal st).1 = st.pop.length := by simp [newVal]
@[simp] theorem newVal_pop (st : St) : (newVal st).2.pop = st.pop ++ [.val (curBlkD st.scopes)] := by simp [newVal]
@[simp] theorem newVal_scopes (st : St) : (newVal st).2.scopes = st.scopes := by simp [newVal]
@[simp] theorem newVal_ok (st : St) : (newVal st).2.ok = (st.ok && (curBlk st.scopes).isSome) := by simp [newVal]

/-! ### `find?` at a known index -/

theorem find?_at {α : Type} {P : α → Bool} : ∀ {l : List α} {n : Nat} {r : α},
    (∀ i x, i < n → l[i]? = some x → P x = false) → l[n]? = some r → P r = true → l.find? P = some r
  | [], n, r, _, hn, _ => by simp at hn
  | a :: l, 0, r, _, hn, hP => by
    simp at hn; subst hn; simp [List.find?, hP]
  | a :: l, n + 1, r, hlt, hn, hP => by
    have ha : P a = false := hlt 0 a (by omega) (by simp)
    simp only [List.find?, ha]
    apply find?_at (n := n) _ (by simpa using hn) hP
    intro i x hi hx
    exact hlt (i + 1) x (by omega) (by simpa using hx)

/-! ### invariants -/

/-- a row that is the R801 subtype of value `k` lies after row `k` -/
def TSv (p : FlatPop) : Prop := ∀ (i : Nat) (r : Row) (k : Nat), p[i]? = some r → r.valOf = some k → k < i

theorem TSv.append {p : FlatPop} (h : TSv p) {d : List Row}
    (hd : ∀ (j : Nat) (r : Row) (k : Nat), d[j]? = some r → r.valOf = some k → k < p.length + j) : TSv (p ++ d) := by
  intro i r k hi hk
  by_cases hlt : i < p.length
  · rw [List.getElem?_append_left hlt] at hi; exact h i r k hi hk
  · rw [List.getElem?_append_right (by omega)] at hi
    have := hd (i - p.length) r k hi hk
    omega

/-- every symbol names a V_VAR row of that name -/
def SymOK (st : St) : Prop := ∀ n v, findSym st.scopes n = some v → ∃ b, st.pop[v]? = some (.var n b)

theorem SymOK.mono {st st' : St} (h : SymOK st) (hs : st'.scopes = st.scopes) {d : List Row}
    (hp : st'.pop = st.pop ++ d) : SymOK st' := by
  intro n v hf
  rw [hs] at hf
  obtain ⟨b, hb⟩ := h n v hf
  refine ⟨b, ?_⟩
  rw [hp]
  have : v < st.pop.length := by
    rcases Nat.lt_or_ge v st.pop.length with h' | h'
    · exact h'
    · simp [List.getElem?_eq_none h'] at hb
  rw [List.getElem?_append_left this]; exact hb

/-- value `v` (a V_VAL at index `v`) has its R801 subtype row right behind it, and nothing earlier claims `v` -/
theorem valSub_at {p : FlatPop} {v : Nat} {sub : Row} (hts : TSv p) (hsub : p[v + 1]? = some sub)
    (hv : sub.valOf = some v) (ext : List Row) :
    valSub (p ++ ext) v = some sub := by
  unfold valSub
  have hlt : v + 1 < p.length := by
    rcases Nat.lt_or_ge (v + 1) p.length with h' | h'
    · exact h'
    · simp [List.getElem?_eq_none h'] at hsub
  apply find?_at (n := v + 1)
  · intro i x hi hx
    rw [List.getElem?_append_left (by omega)] at hx
    cases hxv : x.valOf with
    | none => simp
    | some k =>
      have := hts i x k hx hxv
      simp; omega
  · rw [List.getElem?_append_left hlt]; exact hsub
  · simp [hv]

/-! ### expressions: `regenVal` reads back what `buildExpr` wrote -/

/-- the expressions the value-level theorem covers: literals, enumerators / qualified constants, variable reads,
    `selected`, parameter reads, attribute reads, unary and binary operations (operators in the normal form) -/
def coreE : Expr → Bool
  | .int _ | .real _ | .str _ | .bool _ | .enum _ _ | .var _ | .selected | .param _ => true
  | .field h _ => coreE h
  | .un op e => lowerStr op == op && coreE e
  | .bin l op r => lowerStr op == op && coreE l && coreE r
  | _ => false

/-- navigation depth of an expression's values -/
def szV : Expr → Nat
  | .field h _ => szV h + 1
  | .un _ e => szV e + 1
  | .bin l _ r => szV l + szV r + 1
  | _ => 1

/-- what one `accept_<expression node>` call does to the builder state -/
structure ExprSpec (fc : FCtx) (e : Expr) (st : St) : Prop where
  ok0 : st.ok = true
  blk : (curBlk st.scopes).isSome = true
  scopes : (buildExpr fc e st).2.scopes = st.scopes
  grows : ∃ d : List Row, (buildExpr fc e st).2.pop = st.pop ++ d ∧ szV e + 1 ≤ d.length ∧
    (∀ r ∈ d, ∀ k, r.valOf = some k → st.pop.length ≤ k) ∧
    (∀ r ∈ d, r.smtOf = none ∧ r.varOf = none ∧ (∀ b q, r ≠ .smt b q) ∧ (∀ o, r ≠ .blk o))
  tsv : TSv (buildExpr fc e st).2.pop
  isVal : ∃ b, (buildExpr fc e st).2.pop[(buildExpr fc e st).1]? = some (.val b)
  inRange : st.pop.length ≤ (buildExpr fc e st).1
  regen : ∀ (ext : List Row) (fuel : Nat), szV e ≤ fuel →
    regenVal ((buildExpr fc e st).2.pop ++ ext) fuel (buildExpr fc e st).1 = genExpr e

theorem ExprSpec.symOK {fc : FCtx} {e : Expr} {st : St} (h : ExprSpec fc e st) (hs : SymOK st) :
    SymOK (buildExpr fc e st).2 := by
  obtain ⟨d, hd, _⟩ := h.grows
  exact hs.mono h.scopes hd

theorem TSv.append2 {p : FlatPop} (hts : TSv p) (b : Nat) (sub : Row) (hsub : sub.valOf = some p.length) :
    TSv (p ++ [.val b, sub]) := by
  apply hts.append
  intro j r k hj hr
  match j, hj with
  | 0, hj => simp at hj; subst hj; simp [Row.valOf] at hr
  | 1, hj => simp at hj; subst hj; rw [hsub] at hr; simp at hr; omega
  | j + 2, hj => simp at hj

/-- a leaf value: `v_val(node)` then the subtype row -/
theorem leaf_spec {p : FlatPop} (hts : TSv p) (b : Nat) (sub : Row) (hsub : sub.valOf = some p.length)
    (ext : List Row) : valSub (p ++ [.val b, sub] ++ ext) p.length = some sub := by
  apply valSub_at (p := p ++ [.val b, sub])
  · exact hts.append2 b sub hsub
  · simp
  · exact hsub

/-- `v_val(node)` followed by the instantiation of the R801 subtype -/
def mkLeaf (st0 : St) (sub : Nat → Row) : Nat × St := let r := newVal st0; (r.1, (r.2.new (sub r.1)).2)

theorem mkLeaf_spec {fc : FCtx} {e : Expr} {st st0 : St} {sub : Nat → Row}
    (hbuild : buildExpr fc e st = mkLeaf st0 sub) (hp : st0.pop = st.pop) (hs : st0.scopes = st.scopes)
    (hok0 : st0.ok = true → st.ok = true) (hsz : szV e = 1) (hsubv : ∀ i, (sub i).valOf = some i)
    (hsubo : ∀ i, (sub i).smtOf = none ∧ (sub i).varOf = none ∧ (∀ b q, sub i ≠ .smt b q) ∧ (∀ o, sub i ≠ .blk o))
    (hts : TSv st.pop) (hok : (buildExpr fc e st).2.ok = true)
    (hregen : ∀ (q : FlatPop) (f : Nat), (∀ i x, i < st.pop.length → st.pop[i]? = some x → q[i]? = some x) →
      valSub q st.pop.length = some (sub st.pop.length) → regenVal q (f + 1) st.pop.length = genExpr e) :
    ExprSpec fc e st := by
  rw [hbuild] at hok
  simp only [mkLeaf, newVal_fst, new_pop, newVal_pop, new_scopes, newVal_scopes, new_ok, newVal_ok, hp, hs,
    Bool.and_eq_true] at hok
  have hpop : st.pop ++ [Row.val (curBlkD st.scopes)] ++ [sub st.pop.length] =
      st.pop ++ [Row.val (curBlkD st.scopes), sub st.pop.length] := by simp
  refine ⟨hok0 hok.1, hok.2, ?_, ⟨[.val (curBlkD st.scopes), sub st.pop.length], ?_, ?_, ?_, ?_⟩, ?_, ?_, ?_, ?_⟩
  all_goals (try rw [hbuild])
  · simp [mkLeaf, hs]
  · simp [mkLeaf, hp, hs]
  · simp [hsz]
  · intro r hr k hk
    simp at hr
    rcases hr with rfl | rfl
    · simp [Row.valOf] at hk
    · rw [hsubv] at hk; simp at hk; omega
  · intro r hr
    simp at hr
    rcases hr with rfl | rfl
    · simp [Row.smtOf, Row.varOf]
    · exact hsubo _
  · simp only [mkLeaf, newVal_fst, new_pop, newVal_pop, hp, hs]
    rw [hpop]
    exact hts.append2 _ _ (hsubv _)
  · exact ⟨curBlkD st.scopes, by simp [mkLeaf, hp, hs]⟩
  · simp [mkLeaf, hp]
  · intro ext fuel hf
    have hsz : 1 ≤ szV e := by cases e <;> simp [szV]
    obtain ⟨f, rfl⟩ : ∃ f, fuel = f + 1 := ⟨fuel - 1, by omega⟩
    simp only [mkLeaf, newVal_fst, new_pop, newVal_pop, hp, hs]
    rw [hpop]
    apply hregen
    · intro i x hi hx
      rw [List.append_assoc, List.getElem?_append_left hi]; exact hx
    · exact leaf_spec hts _ _ (hsubv _) ext

theorem needVar_ok {fc : FCtx} {n : String} {st : St} (h : (needVar fc n st).2.ok = true) (hn : n ≠ "self") :
    ∃ v, findSym st.scopes n = some v ∧ needVar fc n st = (v, st) := by
  unfold needVar at *
  by_cases hc : (canonName n != n || lowerStr n == "sender") = true
  · simp [lookupVar, hc] at h
  · cases hf : findSym st.scopes n with
    | some v => exact ⟨v, rfl, by simp [lookupVar, hc, hf]⟩
    | none => simp [lookupVar, hc, hf, hn] at h

theorem newVar_ok (n : String) (sub : Nat → Row) (st : St) : (newVar n sub st).2.ok = (st.ok && (curBlk st.scopes).isSome) := by
  simp [newVar]

theorem lookupVar_eq {fc : FCtx} {n : String} {st : St}
    (hc : (canonName n != n || lowerStr n == "sender") = false) :
    lookupVar fc n st = match findSym st.scopes n with
      | some v => (some v, st)
      | none =>
        if n == "self" then
          match fc.selfKl with
          | some kl => let r := newVar "self" (fun v => .vint v kl) st; (some r.1, r.2)
          | none => (none, st)
        else (none, st) := by
  unfold lookupVar
  rw [hc]; rfl

theorem needVar_ok_mono {fc : FCtx} {n : String} {st : St} (h : (needVar fc n st).2.ok = true) : st.ok = true := by
  unfold needVar at h
  cases hc : (canonName n != n || lowerStr n == "sender") with
  | true => simp [lookupVar, hc] at h
  | false =>
    rw [lookupVar_eq hc] at h
    cases hf : findSym st.scopes n with
    | some v => simpa [hf] using h
    | none =>
      cases hs : n == "self" with
      | false => simp [hf, hs] at h
      | true =>
        cases hk : fc.selfKl with
        | none => simp [hf, hs, hk] at h
        | some kl =>
          simp [hf, hs, hk, newVar_ok] at h
          exact h.1

theorem bool_regen (v : String) (h : v = "true" ∨ v = "false") : boolTok (lowerStr (boolValue v)) = boolTok v := by
  rcases h with rfl | rfl <;> decide

/-- a failure is never undone: if the state after an expression is `ok`, the state before was -/
theorem buildExpr_ok_mono (fc : FCtx) : ∀ (e : Expr) (st : St), (buildExpr fc e st).2.ok = true → st.ok = true
  | .int _, st, h | .real _, st, h | .str _, st, h | .selected, st, h | .param _, st, h => by
    simp [buildExpr] at h; exact h.1
  | .bool _, st, h => by simp [buildExpr] at h; exact h.1.1
  | .enum nsp n, st, h => by
    simp only [buildExpr] at h
    split at h
    · split at h <;> (simp at h; exact h.1)
    · simp at h; exact h.1
  | .var n, st, h => by
    simp only [buildExpr] at h
    have : (needVar fc n (st.guard (n != "self"))).2.ok = true := by
      split at h <;> simp at h <;> simp [h]
    have := needVar_ok_mono this
    simp at this; exact this.1
  | .self, st, h => by
    simp [buildExpr] at h
    exact needVar_ok_mono h.1
  | .field e a, st, h => by
    simp [buildExpr] at h
    exact buildExpr_ok_mono fc e st h.1.1
  | .un op e, st, h => by
    simp [buildExpr] at h
    exact buildExpr_ok_mono fc e st h.1
  | .bin l op r, st, h => by
    simp [buildExpr] at h
    exact buildExpr_ok_mono fc l st (buildExpr_ok_mono fc r _ h.1)
  | .index _ _, st, h | .call _ _ _ _, st, h | .icall _ _ _, st, h => by simp [buildExpr] at h

theorem regenVar_of {q : FlatPop} {v : Nat} {n : String} {b : Nat} (h : q[v]? = some (.var n b)) (hn : n ≠ "self") :
    regenVar q v = [Tok.ident n] := by
  simp [regenVar, h, nameTok, hn]

/-- `regenVal` on the population `buildExpr` leaves (extended by anything) prints `genExpr e`; and what the
    builder does to the state on the way -/
theorem buildExpr_spec (fc : FCtx) : ∀ (e : Expr) (st : St), coreE e = true → SymOK st → TSv st.pop →
    (buildExpr fc e st).2.ok = true → ExprSpec fc e st
  | .int v, st, _, _, hts, hok =>
    mkLeaf_spec (hsz := rfl) (st0 := st) (sub := fun i => .lin i v) (by simp [buildExpr, mkLeaf]) rfl rfl id (fun _ => rfl)
      (fun _ => by simp [Row.smtOf, Row.varOf]) hts hok (fun q f _ hv => by simp [regenVal, hv, genExpr])
  | .real v, st, _, _, hts, hok =>
    mkLeaf_spec (hsz := rfl) (st0 := st) (sub := fun i => .lrl i v) (by simp [buildExpr, mkLeaf]) rfl rfl id (fun _ => rfl)
      (fun _ => by simp [Row.smtOf, Row.varOf]) hts hok (fun q f _ hv => by simp [regenVal, hv, genExpr])
  | .str v, st, _, _, hts, hok =>
    mkLeaf_spec (hsz := rfl) (st0 := st) (sub := fun i => .lst i (unquote v)) (by simp [buildExpr, mkLeaf]) rfl rfl id
      (fun _ => rfl) (fun _ => by simp [Row.smtOf, Row.varOf]) hts hok
      (fun q f _ hv => by simp [regenVal, hv, genExpr, requote, unquote])
  | .bool v, st, _, _, hts, hok => by
    have hv : v = "true" ∨ v = "false" := by
      simp [buildExpr] at hok
      exact hok.1.2
    exact mkLeaf_spec (hsz := rfl) (st0 := st.guard (v == "true" || v == "false")) (sub := fun i => .lbo i (boolValue v))
      (by simp [buildExpr, mkLeaf]) (by simp) (by simp) (by simp; intro h _; exact h) (fun _ => rfl)
      (fun _ => by simp [Row.smtOf, Row.varOf]) hts hok
      (fun q f _ hq => by simp [regenVal, hq, genExpr, bool_regen v hv])
  | .selected, st, _, _, hts, hok =>
    mkLeaf_spec (hsz := rfl) (st0 := st) (sub := fun i => .slr i) (by simp [buildExpr, mkLeaf]) rfl rfl id (fun _ => rfl)
      (fun _ => by simp [Row.smtOf, Row.varOf]) hts hok (fun q f _ hv => by simp [regenVal, hv, genExpr])
  | .param n, st, _, _, hts, hok =>
    mkLeaf_spec (hsz := rfl) (st0 := st) (sub := fun i => .pvl i n) (by simp [buildExpr, mkLeaf]) rfl rfl id (fun _ => rfl)
      (fun _ => by simp [Row.smtOf, Row.varOf]) hts hok (fun q f _ hv => by simp [regenVal, hv, genExpr])
  | .enum nsp n, st, _, _, hts, hok => by
    by_cases hen : ∃ es, fc.enums.lookup nsp = some es ∧ es.contains n = true
    · obtain ⟨es, h1, h2⟩ := hen
      have h2' : n ∈ es := by simpa using h2
      exact mkLeaf_spec (hsz := rfl) (st0 := st) (sub := fun i => .len i nsp n) (by simp [buildExpr, mkLeaf, h1, h2']) rfl rfl id
        (fun _ => rfl) (fun _ => by simp [Row.smtOf, Row.varOf]) hts hok
        (fun q f _ hv => by simp [regenVal, hv, genExpr])
    · have hb : buildExpr fc (.enum nsp n) st = mkLeaf st (fun i => .scv i nsp n) := by
        simp only [buildExpr, mkLeaf]
        cases h1 : fc.enums.lookup nsp with
        | none => rfl
        | some es =>
          have : es.contains n = false := by
            cases h2 : es.contains n with
            | false => rfl
            | true => exact absurd ⟨es, h1, h2⟩ hen
          have h2' : ¬ n ∈ es := by simpa using this
          simp [h2']
      exact mkLeaf_spec (hsz := rfl) (st0 := st) (sub := fun i => .scv i nsp n) hb rfl rfl id
        (fun _ => rfl) (fun _ => by simp [Row.smtOf, Row.varOf]) hts hok
        (fun q f _ hv => by simp [regenVal, hv, genExpr])
  | .var n, st, _, hsym, hts, hok => by
    have hl : (needVar fc n (st.guard (n != "self"))).2.ok = true := by
      simp only [buildExpr] at hok
      split at hok <;> simp at hok <;> simp [hok]
    have hn : n ≠ "self" := by
      have := needVar_ok_mono hl
      simp at this
      exact this.2
    obtain ⟨v, hf, hnv⟩ := needVar_ok hl hn
    simp at hf
    obtain ⟨b, hb⟩ := hsym n v hf
    have hreg : ∀ (q : FlatPop) (f : Nat) (sub : Row), (sub = .irf st.pop.length v ∨ sub = .isr st.pop.length v ∨
        sub = .tvl st.pop.length v) →
        (∀ i x, i < st.pop.length → st.pop[i]? = some x → q[i]? = some x) →
        valSub q st.pop.length = some sub → regenVal q (f + 1) st.pop.length = genExpr (.var n) := by
      intro q f sub hsub hq hv
      have hlt : v < st.pop.length := by
        rcases Nat.lt_or_ge v st.pop.length with h' | h'
        · exact h'
        · simp [List.getElem?_eq_none h'] at hb
      have := regenVar_of (hq v _ hlt hb) hn
      rcases hsub with rfl | rfl | rfl <;> simp [regenVal, hv, genExpr, this]
    have hg : st.guard (n != "self") = st := by simp [St.guard, hn]
    rw [hg] at hnv
    cases hvs : varSub st.pop v with
    | none => simp [buildExpr, hg, hnv, hvs] at hok
    | some row =>
      cases row with
      | vint v' kl =>
        exact mkLeaf_spec (hsz := rfl) (st0 := st) (sub := fun i => .irf i v) (by simp [buildExpr, mkLeaf, hg, hnv, hvs]) rfl rfl id
          (fun _ => rfl) (fun _ => by simp [Row.smtOf, Row.varOf]) hts hok (fun q f hq hv => hreg q f _ (.inl rfl) hq hv)
      | vins v' kl =>
        exact mkLeaf_spec (hsz := rfl) (st0 := st) (sub := fun i => .isr i v) (by simp [buildExpr, mkLeaf, hg, hnv, hvs]) rfl rfl id
          (fun _ => rfl) (fun _ => by simp [Row.smtOf, Row.varOf]) hts hok
          (fun q f hq hv => hreg q f _ (.inr (.inl rfl)) hq hv)
      | vtrn v' =>
        exact mkLeaf_spec (hsz := rfl) (st0 := st) (sub := fun i => .tvl i v) (by simp [buildExpr, mkLeaf, hg, hnv, hvs]) rfl rfl id
          (fun _ => rfl) (fun _ => by simp [Row.smtOf, Row.varOf]) hts hok
          (fun q f hq hv => hreg q f _ (.inr (.inr rfl)) hq hv)
      | _ => simp [buildExpr, hg, hnv, hvs] at hok
  | .un op e, st, hc, hsym, hts, hok => by
    simp only [coreE, Bool.and_eq_true, beq_iff_eq] at hc
    have hoke : (buildExpr fc e st).2.ok = true := by
      simp [buildExpr] at hok; exact hok.1
    have ih := buildExpr_spec fc e st hc.2 hsym hts hoke
    obtain ⟨d, hd, hlen, hkeys, hoth⟩ := ih.grows
    have hb : buildExpr fc (.un op e) st = mkLeaf (buildExpr fc e st).2 (fun i => .uny i (lowerStr op) (buildExpr fc e st).1) := by
      simp [buildExpr, mkLeaf]
    have hblk : (curBlk st.scopes).isSome = true := ih.blk
    have hpop : (buildExpr fc (.un op e) st).2.pop = (buildExpr fc e st).2.pop ++
        [.val (curBlkD st.scopes), .uny (buildExpr fc e st).2.pop.length (lowerStr op) (buildExpr fc e st).1] := by
      rw [hb]; simp [mkLeaf, ih.scopes]
    refine ⟨ih.ok0, hblk, ?_, ⟨d ++ [.val (curBlkD st.scopes), .uny (buildExpr fc e st).2.pop.length (lowerStr op) (buildExpr fc e st).1], ?_, ?_, ?_, ?_⟩, ?_, ?_, ?_, ?_⟩
    · rw [hb]; simp [mkLeaf, ih.scopes]
    · rw [hpop, hd]; simp
    · simp [szV]; omega
    · intro r hr k hk
      rcases List.mem_append.1 hr with h | h
      · exact hkeys r h k hk
      · simp at h
        rcases h with rfl | rfl
        · simp [Row.valOf] at hk
        · simp only [Row.valOf, Option.some.injEq] at hk; subst hk; rw [hd]; simp
    · intro r hr
      rcases List.mem_append.1 hr with h | h
      · exact hoth r h
      · simp at h
        rcases h with rfl | rfl <;> simp [Row.smtOf, Row.varOf]
    · rw [hpop]; exact ih.tsv.append2 _ _ rfl
    · refine ⟨curBlkD st.scopes, ?_⟩
      rw [hpop, hb]; simp [mkLeaf]
    · rw [hb]; simp [mkLeaf]; rw [hd]; simp
    · intro ext fuel hf
      simp only [szV] at hf
      obtain ⟨f, rfl⟩ : ∃ f, fuel = f + 1 := ⟨fuel - 1, by omega⟩
      have hv : (buildExpr fc (.un op e) st).1 = (buildExpr fc e st).2.pop.length := by rw [hb]; simp [mkLeaf]
      rw [hv, hpop]
      have hsub := leaf_spec ih.tsv (curBlkD st.scopes)
        (.uny (buildExpr fc e st).2.pop.length (lowerStr op) (buildExpr fc e st).1) rfl ext
      have hrec := ih.regen ([.val (curBlkD st.scopes), .uny (buildExpr fc e st).2.pop.length (lowerStr op) (buildExpr fc e st).1] ++ ext) f (by omega)
      rw [← List.append_assoc] at hrec
      simp only [regenVal, hsub, hrec, genExpr]
      rw [hc.1]
  | .field h a, st, hc, hsym, hts, hok => by
    simp only [coreE] at hc
    have hoke : (buildExpr fc h st).2.ok = true := by
      simp [buildExpr] at hok; exact hok.1.1
    have ih := buildExpr_spec fc h st hc hsym hts hoke
    obtain ⟨d, hd, hlen, hkeys, hoth⟩ := ih.grows
    have hb : ∃ g : Bool, buildExpr fc (.field h a) st =
        mkLeaf ((buildExpr fc h st).2.guard g) (fun i => .avl i (buildExpr fc h st).1 a) := by
      simp only [buildExpr, mkLeaf]
      exact ⟨_, rfl⟩
    obtain ⟨g, hb⟩ := hb
    have hblk : (curBlk st.scopes).isSome = true := ih.blk
    have hpop : (buildExpr fc (.field h a) st).2.pop = (buildExpr fc h st).2.pop ++
        [.val (curBlkD st.scopes), .avl (buildExpr fc h st).2.pop.length (buildExpr fc h st).1 a] := by
      rw [hb]; simp [mkLeaf, ih.scopes]
    refine ⟨ih.ok0, hblk, ?_, ⟨d ++ [.val (curBlkD st.scopes), .avl (buildExpr fc h st).2.pop.length (buildExpr fc h st).1 a], ?_, ?_, ?_, ?_⟩, ?_, ?_, ?_, ?_⟩
    · rw [hb]; simp [mkLeaf, ih.scopes]
    · rw [hpop, hd]; simp
    · simp [szV]; omega
    · intro r hr k hk
      rcases List.mem_append.1 hr with h' | h'
      · exact hkeys r h' k hk
      · simp at h'
        rcases h' with rfl | rfl
        · simp [Row.valOf] at hk
        · simp only [Row.valOf, Option.some.injEq] at hk; subst hk; rw [hd]; simp
    · intro r hr
      rcases List.mem_append.1 hr with h' | h'
      · exact hoth r h'
      · simp at h'
        rcases h' with rfl | rfl <;> simp [Row.smtOf, Row.varOf]
    · rw [hpop]; exact ih.tsv.append2 _ _ rfl
    · refine ⟨curBlkD st.scopes, ?_⟩
      rw [hpop, hb]; simp [mkLeaf]
    · rw [hb]; simp [mkLeaf]; rw [hd]; simp
    · intro ext fuel hf
      simp only [szV] at hf
      obtain ⟨f, rfl⟩ : ∃ f, fuel = f + 1 := ⟨fuel - 1, by omega⟩
      have hv : (buildExpr fc (.field h a) st).1 = (buildExpr fc h st).2.pop.length := by rw [hb]; simp [mkLeaf]
      rw [hv, hpop]
      have hsub := leaf_spec ih.tsv (curBlkD st.scopes)
        (.avl (buildExpr fc h st).2.pop.length (buildExpr fc h st).1 a) rfl ext
      have hrec := ih.regen ([.val (curBlkD st.scopes), .avl (buildExpr fc h st).2.pop.length (buildExpr fc h st).1 a] ++ ext) f (by omega)
      rw [← List.append_assoc] at hrec
      simp only [regenVal, hsub, hrec, genExpr]
  | .bin l op rr, st, hc, hsym, hts, hok => by
    simp only [coreE, Bool.and_eq_true, beq_iff_eq] at hc
    have hokB : (buildExpr fc rr (buildExpr fc l st).2).2.ok = true := by
      simp [buildExpr] at hok; exact hok.1
    have ihB0 : ∀ hA : ExprSpec fc l st, ExprSpec fc rr (buildExpr fc l st).2 := fun hA =>
      buildExpr_spec fc rr (buildExpr fc l st).2 hc.2 (hA.symOK hsym) hA.tsv hokB
    have hokA : (buildExpr fc l st).2.ok = true := buildExpr_ok_mono fc rr _ hokB
    have ihA := buildExpr_spec fc l st hc.1.2 hsym hts hokA
    have ihB := ihB0 ihA
    obtain ⟨dA, hdA, hlA, hkA, hoA⟩ := ihA.grows
    obtain ⟨dB, hdB, hlB, hkB, hoB⟩ := ihB.grows
    have hb : buildExpr fc (.bin l op rr) st = mkLeaf (buildExpr fc rr (buildExpr fc l st).2).2
        (fun i => .bin i (lowerStr op) (buildExpr fc l st).1 (buildExpr fc rr (buildExpr fc l st).2).1) := by
      simp [buildExpr, mkLeaf]
    have hsc : (buildExpr fc rr (buildExpr fc l st).2).2.scopes = st.scopes := by rw [ihB.scopes, ihA.scopes]
    have hpop : (buildExpr fc (.bin l op rr) st).2.pop = (buildExpr fc rr (buildExpr fc l st).2).2.pop ++
        [.val (curBlkD st.scopes), .bin (buildExpr fc rr (buildExpr fc l st).2).2.pop.length (lowerStr op)
          (buildExpr fc l st).1 (buildExpr fc rr (buildExpr fc l st).2).1] := by
      rw [hb]; simp [mkLeaf, hsc]
    refine ⟨ihA.ok0, ihA.blk, ?_, ⟨dA ++ dB ++ [.val (curBlkD st.scopes), .bin (buildExpr fc rr (buildExpr fc l st).2).2.pop.length (lowerStr op)
          (buildExpr fc l st).1 (buildExpr fc rr (buildExpr fc l st).2).1], ?_, ?_, ?_, ?_⟩, ?_, ?_, ?_, ?_⟩
    · rw [hb]; simp [mkLeaf, hsc]
    · rw [hpop, hdB, hdA]; simp
    · simp [szV]; omega
    · intro r hr k hk
      rcases List.mem_append.1 hr with h' | h'
      · rcases List.mem_append.1 h' with h'' | h''
        · exact hkA r h'' k hk
        · have := hkB r h'' k hk; rw [hdA] at this; simp at this; omega
      · simp at h'
        rcases h' with rfl | rfl
        · simp [Row.valOf] at hk
        · simp only [Row.valOf, Option.some.injEq] at hk; subst hk; rw [hdB, hdA]; simp
    · intro r hr
      rcases List.mem_append.1 hr with h' | h'
      · rcases List.mem_append.1 h' with h'' | h''
        · exact hoA r h''
        · exact hoB r h''
      · simp at h'
        rcases h' with rfl | rfl <;> simp [Row.smtOf, Row.varOf]
    · rw [hpop]; exact ihB.tsv.append2 _ _ rfl
    · refine ⟨curBlkD st.scopes, ?_⟩
      rw [hpop, hb]; simp [mkLeaf]
    · rw [hb]; simp [mkLeaf]; rw [hdB, hdA]; simp
    · intro ext fuel hf
      simp only [szV] at hf
      obtain ⟨f, rfl⟩ : ∃ f, fuel = f + 1 := ⟨fuel - 1, by omega⟩
      have hv : (buildExpr fc (.bin l op rr) st).1 = (buildExpr fc rr (buildExpr fc l st).2).2.pop.length := by
        rw [hb]; simp [mkLeaf]
      rw [hv, hpop]
      have hsub := leaf_spec ihB.tsv (curBlkD st.scopes)
        (.bin (buildExpr fc rr (buildExpr fc l st).2).2.pop.length (lowerStr op)
          (buildExpr fc l st).1 (buildExpr fc rr (buildExpr fc l st).2).1) rfl ext
      have hrecB := ihB.regen ([.val (curBlkD st.scopes), .bin (buildExpr fc rr (buildExpr fc l st).2).2.pop.length (lowerStr op)
          (buildExpr fc l st).1 (buildExpr fc rr (buildExpr fc l st).2).1] ++ ext) f (by omega)
      have hrecA := ihA.regen (dB ++ [.val (curBlkD st.scopes), .bin (buildExpr fc rr (buildExpr fc l st).2).2.pop.length (lowerStr op)
          (buildExpr fc l st).1 (buildExpr fc rr (buildExpr fc l st).2).1] ++ ext) f (by omega)
      rw [← List.append_assoc] at hrecB
      rw [← List.append_assoc, ← List.append_assoc, ← hdB] at hrecA
      simp only [regenVal, hsub, hrecA, hrecB, genExpr]
      rw [hc.1.1]
  | .self, _, hc, _, _, _ => by simp [coreE] at hc
  | .index _ _, _, hc, _, _, _ => by simp [coreE] at hc
  | .call _ _ _ _, _, hc, _, _, _ => by simp [coreE] at hc
  | .icall _ _ _, _, hc, _, _, _ => by simp [coreE] at hc

end Pyx.Prebuild.Flat
