import Proofs.LoadFuel
import Proofs.LoadApiRun

/-! C03: every metamodel the loader builds has well-formed links, so `fuelOf` suffices on it. -/

namespace Pyx.Load

theorem linksWf_buildCore (ss : List Stmt) (hacc : accepted ss = true) (hk : ∀ a ∈ popAssocs ss, KeysOk a) :
    LinksWf (buildCore ss) := by
  intro p hp i j hhead
  rw [buildCore_assocs ss hk] at hp
  obtain ⟨a, ha, rfl⟩ := List.mem_map.mp hp
  simp only at hhead ⊢
  have hj := List.mem_of_mem_head? hhead
  obtain ⟨_, t, _, ht, _⟩ := (mem_nestedJoin_tgt a _ _ i j).mp hj
  have hjlt := (List.getElem?_eq_some_iff.mp ht).1
  unfold rowsOf at hjlt
  cases hc : findCls (buildCore ss).classes a.tgtKind with
  | none => rw [hc] at hjlt; simp at hjlt
  | some c =>
    rw [hc] at hjlt
    refine ⟨c, List.mem_of_find?_eq_some hc, findCls_some_kind hc, hjlt, ?_⟩
    intro tk htk
    have hdecl := tgtKeys_declared ss hacc a ha tk htk
    rw [findCls_buildCore] at hc
    unfold clsSpec at hc
    unfold attrsOf at hdecl
    cases h0 : findCls (popClasses ss) a.tgtKind with
    | none => rw [h0] at hdecl; simp at hdecl
    | some c0 =>
      rw [h0] at hc hdecl
      simp only [Option.some.injEq] at hc
      subst hc
      exact hdecl

/-- **fuel_sufficient_built**: on every metamodel the loader builds (accepted statements, no repeated attribute
    name inside a key list), an attribute read that ends with some fuel ends with `fuelOf` -/
theorem fuelOf_sufficient_built (ss : List Stmt) (hacc : accepted ss = true) (hk : ∀ a ∈ popAssocs ss, KeysOk a)
    (n : Nat) (k : String) (i : Nat) (x : String) (v : Val)
    (h : readAttr (buildCore ss) n k i x = some v) :
    readAttr (buildCore ss) (fuelOf (buildCore ss)) k i x = some v :=
  fuelOf_sufficient _ (linksWf_buildCore ss hacc hk) n k i x v h

end Pyx.Load
