import Proofs.MetaDelete

/-! The seven association shapes of the C02 quantifier (the same descriptions the harness builds real
    metamodels from, harness/meta_common.py `SHAPES`) satisfy `SchemaOk`, the hypothesis of the delete /
    liveness theorems — so those theorems are not vacuous on any shape the property names. -/
namespace Pyx.Meta

/-- decidable form of `SchemaOk` -/
def schemaOkB (sch : Schema) : Bool :=
  (List.range sch.length).all fun i =>
    match sch[i]? with
    | none => true
    | some a =>
      findLink sch a.tgtKind a.srcKind a.rel a.tgtPhrase == some (i, .fwd) &&
      findLink sch a.srcKind a.tgtKind a.rel a.srcPhrase == some (i, .rev)

theorem schemaOk_of_check {sch : Schema} (h : schemaOkB sch = true) : SchemaOk sch := by
  intro i a ha
  have hi : i < sch.length := by
    rcases Nat.lt_or_ge i sch.length with h' | h'
    · exact h'
    · rw [List.getElem?_eq_none h'] at ha; cases ha
  have := (List.all_eq_true.mp h) i (List.mem_range.mpr hi)
  simp only [ha, Bool.and_eq_true, beq_iff_eq] at this
  exact this

private def mk (rel : String) (src : Kind) (sk : List String) (sm sc : Bool) (sp : String)
    (tgt : Kind) (tk : List String) (tm tc : Bool) (tp : String) : AssocSpec :=
  { rel := rel, srcKind := src, srcKeys := sk, srcMany := sm, srcCond := sc, srcPhrase := sp,
    tgtKind := tgt, tgtKeys := tk, tgtMany := tm, tgtCond := tc, tgtPhrase := tp }

def shapeOneOne : Schema := [mk "R1" 0 ["B_Id"] false true "" 1 ["Id"] false true ""]
def shapeOneMany : Schema := [mk "R1" 0 ["B_Id"] true true "" 1 ["Id"] false true ""]
def shapeManyOneUncond : Schema := [mk "R1" 0 ["B_Id"] true false "" 1 ["Id"] false false ""]
def shapeReflexive : Schema := [mk "R2" 0 ["Next_Id"] false true "precedes" 0 ["Id"] false true "succeeds"]
def shapeAssocClass : Schema :=
  [mk "R3" 2 ["A_Id"] true true "" 0 ["Id"] false false "", mk "R3" 2 ["B_Id"] true true "" 1 ["Id"] false false ""]
def shapeSubsuper : Schema :=
  [mk "R4" 1 ["Id"] false true "" 0 ["Id"] false false "", mk "R4" 2 ["Id"] false true "" 0 ["Id"] false false ""]
def shapeSharedRef : Schema :=
  [mk "R5" 0 ["X_Id"] true true "" 1 ["Id"] false true "", mk "R6" 0 ["X_Id"] false true "" 2 ["Id"] true true ""]
/-- a non-reflexive association whose ends carry phrases -/
def shapePhrased : Schema := [mk "R1" 0 ["B_Id"] true true "is owned by" 1 ["Id"] false true "owns"]
/-- A.B_Id → B.Id → C.Id: a referential attribute that is the identifying attribute another class refers to -/
def shapeRefIdChain : Schema :=
  [mk "R8" 0 ["B_Id"] true true "" 1 ["Id"] false true "", mk "R9" 1 ["Id"] false true "" 2 ["Id"] false true ""]
/-- a class with two reflexive associations carrying the same phrases (used by the C16 harness) -/
def shapeTwoReflexive : Schema :=
  [mk "R2" 0 ["Next_Id"] false true "precedes" 0 ["Id"] false true "succeeds",
   mk "R7" 0 ["Other_Id"] false true "precedes" 0 ["Id"] false true "succeeds"]

theorem shapes_schemaOk :
    SchemaOk shapeOneOne ∧ SchemaOk shapeOneMany ∧ SchemaOk shapeManyOneUncond ∧ SchemaOk shapeReflexive ∧
    SchemaOk shapeAssocClass ∧ SchemaOk shapeSubsuper ∧ SchemaOk shapeSharedRef ∧ SchemaOk shapeTwoReflexive ∧
    SchemaOk shapePhrased ∧ SchemaOk shapeRefIdChain :=
  ⟨schemaOk_of_check (by decide), schemaOk_of_check (by decide), schemaOk_of_check (by decide),
   schemaOk_of_check (by decide), schemaOk_of_check (by decide), schemaOk_of_check (by decide),
   schemaOk_of_check (by decide), schemaOk_of_check (by decide), schemaOk_of_check (by decide),
   schemaOk_of_check (by decide)⟩

/-- a reflexive association whose two phrases are EQUAL is not `SchemaOk` (the link dict of the real code is
    keyed by (kind, rel, phrase): the two directions would collide) — the hypothesis is a real restriction -/
example : ¬ SchemaOk [mk "R2" 0 ["Next_Id"] false true "" 0 ["Id"] false true ""] := by
  intro h
  have := (h 0 _ rfl).2
  revert this
  decide


/-- two associations whose numbers share a prefix (R1 / R12), both formalised in class 0 (harness shape `prefix_rels`) -/
def shapePrefixRels : Schema :=
  [mk "R1" 0 ["B_Id"] true true "" 1 ["Id"] false false "", mk "R12" 0 ["D_Id"] true true "" 2 ["Id"] false false ""]

/-- every shape of the harness (meta_common.SHAPES) -/
def allShapes : List Schema :=
  [shapeOneOne, shapeOneMany, shapeManyOneUncond, shapeReflexive, shapeAssocClass, shapeSubsuper, shapeSharedRef,
   shapeTwoReflexive, shapePhrased, shapeRefIdChain, shapePrefixRels]

/-- a rank on the attributes of a shape: an own id that no association formalises ranks 0, an `Id` that is itself
    referential (subtype ids, the middle of the A.B_Id → B.Id → C.Id chain) 1, every other referential attribute 2 -/
def shapeRank (sch : Schema) (k : Kind) (name : String) : Nat :=
  if name = "Id" then (if sch.any (fun a => a.srcKind == k && a.srcKeys.contains "Id") then 1 else 0) else 2

theorem shapeRank_le (sch : Schema) (k : Kind) (name : String) : shapeRank sch k name ≤ 2 := by
  unfold shapeRank
  split
  · split <;> omega
  · omega

/-- Boolean form of `AttrRank sch (shapeRank sch)` -/
def attrRankCheck (sch : Schema) : Bool :=
  sch.all (fun a => (keyPairs a).all (fun p => decide (shapeRank sch a.tgtKind p.2 < shapeRank sch a.srcKind p.1)))

theorem attrRank_of_check {sch : Schema} (h : attrRankCheck sch = true) : AttrRank sch (shapeRank sch) := by
  intro a ha p hp
  have := List.all_eq_true.mp h a ha
  have := List.all_eq_true.mp this p hp
  simpa using this

/-- the referential keys of no harness shape refer to one another in a cycle: `shapeRank` drops along every key pair, it never
    exceeds 2, every shape has at least one referential key — so with one instance or more the driver's fuel bound
    `rank ≤ count + layerBound` holds for every read (docs/audit-round4.md, finding 10) -/
theorem shapes_attrRank : ∀ sch ∈ allShapes, AttrRank sch (shapeRank sch) ∧ 1 ≤ layerBound sch := by
  intro sch h
  simp only [allShapes, List.mem_cons, List.not_mem_nil, or_false] at h
  rcases h with rfl | rfl | rfl | rfl | rfl | rfl | rfl | rfl | rfl | rfl | rfl <;>
    exact ⟨attrRank_of_check (by decide), by decide⟩

theorem shapes_all_schemaOk : ∀ sch ∈ allShapes, SchemaOk sch := by
  intro sch h
  simp only [allShapes, List.mem_cons, List.not_mem_nil, or_false] at h
  rcases h with rfl | rfl | rfl | rfl | rfl | rfl | rfl | rfl | rfl | rfl | rfl <;> exact schemaOk_of_check (by decide)

end Pyx.Meta
