import Proofs.OalLayout

/-!
  Tight layout (for property C07, re-exported there): lexemes written WITHOUT a separator where the pairwise,
  decidable test `tightOk u v` (PyxModel/Oal/LexClass.lean) allows it - `a+b`, `f(x)`, `x.y[1]`, `->B[R1]`,
  `self.A=1;`, `f(p:1)` - and with any non-empty layout elsewhere, are returned by the lexer of the generated
  rule table exactly: no token is split, merged or swallowed.

    layout_irrelevant_sem    every unit is followed by a text its follow condition `Fol.ok` accepts
    layout_irrelevant_tight  pairwise form: between two units either a non-empty layout string or nothing,
                             nothing only where `tightOk u v`

  `tightOk` is sufficient, not necessary.  Refused although the real lexer splits them correctly (measured by
  the C13 harness on every pair of 62 representative units: 247 of 3844 pairs, all with a numeric literal on the
  left): NUMBER or FRACTION directly followed by a letter / `end if` / another numeric literal (`0x`, `1.5x`), and
  FRACTION directly followed by `+ - . -> ::` (the FRACTION regex has a sign and a dot class; `1.5+x` lexes fine).
  Every other refused pair really merges or splits differently (`a b`, `- >`, `= =`, `: :`, `1 .5`, `/ /`, `/ *`).
-/
namespace Pyx.OalLex
open Pat

/-! ## what a following character cannot change -/

theorem rejectsB_namespace (c : Char) (h : rejectsB .namespace_ c = true) : Rejects c patNamespace := by
  simp only [rejectsB, Bool.and_eq_true, Bool.not_eq_true', beq_eq_false_iff_ne, ne_eq] at h
  simp only [patNamespace, many1, Rejects]
  refine ⟨⟨h.1, h.1⟩, ?_⟩
  intro hm
  simp only [List.mem_cons, List.not_mem_nil, or_false, or_self] at hm
  exact h.2 hm

theorem not_idStart_of_not_word (c : Char) (h : isWord c = false) : isIdStart c = false := by
  cases hi : isIdStart c with
  | false => rfl
  | true => rw [isIdStart_isWord c hi] at h; simp at h

theorem rejectsB_id (c : Char) (h : rejectsB .id c = true) : Rejects c patId := by
  simp only [rejectsB, Bool.not_eq_true'] at h
  simp only [patId, Rejects]
  exact ⟨not_idStart_of_not_word c h, h⟩

theorem rejectsB_number (c : Char) (h : rejectsB .number c = true) : Rejects c patNumber := by
  simp only [rejectsB, Bool.not_eq_true'] at h
  simp only [patNumber, many1, Rejects]
  exact ⟨h, h⟩

theorem rejectsB_fraction (c : Char) (h : rejectsB .fraction c = true) : Rejects c patFraction := by
  simp only [rejectsB, Bool.and_eq_true, Bool.not_eq_true'] at h
  obtain ⟨⟨⟨⟨⟨⟨hd, hdot⟩, he⟩, hm⟩, hp⟩, hf⟩, hl⟩ := h
  simp only [patFraction, patExp, seqs, many1, opt, lit, ci, Rejects]
  simp [hd, hdot, he, hm, hp, hf, hl]

theorem hasPrefix_append_nth (l : List Char) : ∀ (lx : List Char) (c : Char) (rest : List Char),
    (l.drop lx.length).head? ≠ some c → hasPrefix l (lx ++ c :: rest) = hasPrefix l lx := by
  induction l with
  | nil => intro lx c rest _; simp [hasPrefix]
  | cons a l ih =>
    intro lx c rest h
    cases lx with
    | nil =>
      simp only [List.length_nil, List.drop_zero, List.head?_cons, ne_eq, Option.some.injEq] at h
      have : (c == a) = false := by
        rw [beq_eq_false_iff_ne]; intro e; exact h e.symm
      simp [hasPrefix, this]
    | cons y lx =>
      simp only [List.length_cons, List.drop_succ_cons] at h
      simp only [List.cons_append, hasPrefix, ih lx c rest h]

/-- right after a lone `.` the FRACTION rule needs a digit -/
theorem fraction_dot_fails (t : List Char) (h : ∀ c rest, t = c :: rest → isDigit c = false) :
    patFraction.run ('.' :: t) = none := by
  have hd : isDigit '.' = false := by decide
  have hm1 : Pat.run (many1 isDigit) t = none := by
    cases t with
    | nil => simp [many1, Pat.run]
    | cons c rest => unfold many1; exact run_seq_ch_none _ _ _ _ (h c rest rfl)
  have hm1' : ∀ b, Pat.run (.seq (many1 isDigit) b) ('.' :: t) = none := by
    intro b; apply run_seq_none; unfold many1; exact run_seq_ch_none _ _ _ _ hd
  have hA1 : Pat.run (seqs [.many isDigit, lit '.', many1 isDigit]) ('.' :: t) = none := by
    simp only [seqs]
    rw [run_seq_of _ _ _ 0 (by simp [Pat.run, spanLen, hd])]
    simp only [List.drop_zero]
    rw [run_seq_of _ _ _ 1 (by simp [Pat.run, lit])]
    simp [hm1]
  have hA2 : Pat.run (seqs [many1 isDigit, lit '.', opt patExp]) ('.' :: t) = none := by
    simp only [seqs]; exact hm1' _
  unfold patFraction
  apply run_seq_none
  exact run_alt_none _ _ _ hA1 (run_alt_none _ _ _ hA2 (hm1' _))

theorem stable_sound' (r : Rule) (x : Char) (s' : List Char) (c : Char) (rest : List Char)
    (h : stableL r (x :: s') c = true) :
    scanOf r ((x :: s') ++ c :: rest) = scanOf r (x :: s') := by
  unfold stableL at h
  simp only [List.headD_cons] at h
  cases hso : startOk r (charClass x) with
  | false => rw [List.cons_append, startOk_sound r x _ hso, startOk_sound r x _ hso]
  | true =>
    simp only [hso, Bool.not_true, Bool.false_or] at h
    unfold scanOf
    cases hl : r.lit with
    | some l =>
      simp only [hl, bne_iff_ne, ne_eq] at h ⊢
      simp only [scanLit, hasPrefix_append_nth l _ c rest h]
    | none =>
      simp only [hl, Bool.or_eq_true, Bool.and_eq_true, beq_iff_eq, Bool.not_eq_true'] at h ⊢
      rcases h with h | ⟨⟨hid, hlx⟩, hdig⟩
      · cases hid : regexId r.regex <;> simp only [hid] at h <;>
          first
            | (simp only [rejectsB, Bool.false_eq_true] at h)
            | skip
        · simp only [scanById]; exact Pat.run_extend c rest _ _ (rejectsB_namespace c h)
        · simp only [scanById]; exact Pat.run_extend c rest _ _ (rejectsB_id c h)
        · simp only [scanById]; exact Pat.run_extend c rest _ _ (rejectsB_fraction c h)
        · simp only [scanById]; exact Pat.run_extend c rest _ _ (rejectsB_number c h)
      · simp only [hid, scanById]
        simp only [List.cons.injEq] at hlx
        obtain ⟨rfl, rfl⟩ := hlx
        rw [List.cons_append, List.nil_append,
          fraction_dot_fails (c :: rest) (fun c' r' he => by simp only [List.cons.injEq] at he; rw [← he.1]; exact hdig),
          fraction_dot_fails [] (fun c' r' he => by simp at he)]

/-! ## generalised token steps: the next character is any character the follow condition accepts -/

theorem nonword_not_end_letter (c : Char) (h : isWord c = false) :
    (lowerAscii c == 'e') = false ∧ (lowerAscii c == 'n') = false ∧ (lowerAscii c == 'd') = false := by
  have hw : isWord (lowerAscii c) = false := by rw [caseBlind_isWord c]; exact h
  refine ⟨?_, ?_, ?_⟩ <;>
    (rw [beq_eq_false_iff_ne]; intro e; rw [e] at hw; revert hw; decide)

/-- the NAMESPACE rule fails when the text up to the first non-word character has no colon and is not followed
    by `::` -/
theorem namespace_fails' (s t : List Char) (h : ':' ∉ s)
    (hh : ∀ c rest, t = c :: rest → isWord c = false) (hdc : dblColon t = false) :
    patNamespace.run (s ++ t) = none := by
  have hspan : spanLen isWord (s ++ t) = spanLen isWord s := by
    cases t with
    | nil => simp
    | cons c rest => exact spanLen_append_reject isWord s c rest (hh c rest rfl)
  simp only [patNamespace, many1, Pat.run]
  cases s with
  | nil =>
    cases t with
    | nil => rfl
    | cons c rest => simp [hh c rest rfl]
  | cons x s' =>
    simp only [List.cons_append]
    by_cases hx : isWord x = true
    · have hsp : spanLen isWord (s' ++ t) = spanLen isWord s' := by
        cases t with
        | nil => simp
        | cons c rest => exact spanLen_append_reject isWord s' c rest (hh c rest rfl)
      have hle := spanLen_le isWord s'
      have hdrop : List.drop (1 + spanLen isWord s') (x :: (s' ++ t)) = List.drop (spanLen isWord s') s' ++ t := by
        rw [Nat.add_comm, List.drop_succ_cons, List.drop_append_of_le_length hle]
      have hlook : hasPrefix [':', ':'] (List.drop (spanLen isWord s') s' ++ t) = false := by
        cases hd : List.drop (spanLen isWord s') s' with
        | nil => simpa [dblColon] using hdc
        | cons y ys =>
          have hy : y ∈ s' := List.mem_of_mem_drop (by rw [hd]; simp)
          have : (y == ':') = false := by
            rw [beq_eq_false_iff_ne]; intro e; exact h (List.mem_cons_of_mem _ (e ▸ hy))
          simp [hasPrefix, this]
      simp [hx, hsp, hdrop, hlook]
    · have hx' : isWord x = false := by simpa using hx
      simp [hx']

/-- an identifier-like word other than `end` is not the beginning of an END_* token, whatever non-word
    character follows -/
theorem end_fails_word' (w0 : Char) (w : List Char) (s t : List Char) (hs : ∀ y ∈ s, isWord y = true)
    (hne : s.map lowerAscii ≠ ['e', 'n', 'd']) (hh : ∀ c rest, t = c :: rest → isWord c = false) :
    (patEnd (w0 :: w)).run (s ++ t) = none := by
  cases hr : (patEnd (w0 :: w)).run (s ++ t) with
  | none => rfl
  | some n =>
    exfalso
    obtain ⟨a, b, c, y, rest, hu, ha, hb, hc, hy⟩ := end_needs w0 w _ n hr
    match s, hs, hne, hu with
    | [], _, _, hu =>
      have := nonword_not_end_letter a (hh a _ hu)
      simp [this.1] at ha
    | [s1], _, _, hu =>
      simp only [List.cons_append, List.nil_append, List.cons.injEq] at hu
      have := nonword_not_end_letter b (hh b _ hu.2)
      simp [this.2.1] at hb
    | [s1, s2], _, _, hu =>
      simp only [List.cons_append, List.nil_append, List.cons.injEq] at hu
      have := nonword_not_end_letter c (hh c _ hu.2.2)
      simp [this.2.2] at hc
    | [s1, s2, s3], _, hne, hu =>
      simp only [List.cons_append, List.nil_append, List.cons.injEq] at hu
      obtain ⟨rfl, rfl, rfl, _⟩ := hu
      apply hne
      simp only [List.map_cons, List.map_nil]
      rw [beq_iff_eq.mp ha, beq_iff_eq.mp hb, beq_iff_eq.mp hc]
    | s1 :: s2 :: s3 :: s4 :: s', hs, _, hu =>
      simp only [List.cons_append, List.cons.injEq] at hu
      obtain ⟨_, _, _, rfl, _⟩ := hu
      have := isWord_not_space s4 (hs s4 (by simp))
      rw [this] at hy; simp at hy

theorem run_ext (p : Pat) (s t : List Char) (h : ∀ c rest, t = c :: rest → Rejects c p) :
    Pat.run p (s ++ t) = Pat.run p s := by
  cases t with
  | nil => simp
  | cons c rest => exact Pat.run_extend c rest p s (h c rest rfl)

theorem word_ok_split (t : List Char) (h : Fol.word.ok t = true) :
    (∀ c rest, t = c :: rest → isWord c = false) ∧ dblColon t = false := by
  cases t with
  | nil => exact ⟨by intro c rest h; simp at h, rfl⟩
  | cons c rest =>
    simp only [Fol.ok, Bool.and_eq_true, Bool.not_eq_true'] at h
    refine ⟨?_, h.2⟩
    intro c' rest' he
    simp only [List.cons.injEq] at he
    rw [← he.1]; exact h.1

theorem step_word' (s : List Char) (h : WellWord s) (t : List Char) (ht : Fol.word.ok t = true) :
    firstMatch Gen.OalLex.rules (s ++ t) = some (R 8, s.length) := by
  obtain ⟨hh, hdc⟩ := word_ok_split t ht
  obtain ⟨⟨x, s', rfl, hx, hs'⟩, hne⟩ := h
  have hall : ∀ y ∈ x :: s', isWord y = true := by
    intro y hy
    rcases List.mem_cons.mp hy with rfl | hy
    · exact isIdStart_isWord _ hx
    · exact hs' y hy
  have hns : patNamespace.run ((x :: s') ++ t) = none :=
    namespace_fails' _ t (word_no_colon _ hall) hh hdc
  have hid : patId.run ((x :: s') ++ t) = some (x :: s').length := by
    rw [run_ext patId _ t (fun c rest he => rejectsB_id c (by simp [rejectsB, hh c rest he]))]
    simp [patId, Pat.run, hx, spanLen_all isWord s' hs', Nat.add_comm]
  have hE := fun w0 w => end_fails_word' w0 w (x :: s') t hall hne hh
  rw [List.cons_append] at hns hid hE ⊢
  rw [firstMatch_cands]
  rcases charClass_idStart x hx with hc | hc <;> rw [hc]
  · rw [cands_E]
    simp [firstMatch, scan_R4, scan_R5, scan_R6, scan_R7, scan_R8, hE, hns, hid]
  · rw [cands_L]
    simp [firstMatch, scan_R7, scan_R8, hns, hid]

/-- the FRACTION rule fails on digits followed by a character that is no digit, no '.', no 'e' -/
theorem fraction_fails_digits' (x : Char) (s' : List Char) (hx : isDigit x = true)
    (hs : ∀ y ∈ s', isDigit y = true) (t : List Char)
    (hh : ∀ c rest, t = c :: rest → isDigit c = false ∧ (c == '.') = false ∧ (lowerAscii c == 'e') = false) :
    patFraction.run ((x :: s') ++ t) = none := by
  have hall : ∀ y ∈ x :: s', isDigit y = true := by
    intro y hy; rcases List.mem_cons.mp hy with rfl | hy
    · exact hx
    · exact hs y hy
  have hspan : spanLen isDigit ((x :: s') ++ t) = (x :: s').length := by
    cases t with
    | nil => rw [List.append_nil]; exact spanLen_all isDigit _ hall
    | cons c rest => exact spanLen_append_stop isDigit _ c rest hall (hh c rest rfl).1
  have hm : Pat.run (.many isDigit) ((x :: s') ++ t) = some (x :: s').length := by
    simp only [Pat.run, hspan]
  have hm1 : Pat.run (many1 isDigit) ((x :: s') ++ t) = some (x :: s').length := by
    have hsp' : spanLen isDigit (s' ++ t) = s'.length := by
      cases t with
      | nil => rw [List.append_nil]; exact spanLen_all isDigit _ hs
      | cons c rest => exact spanLen_append_stop isDigit _ c rest hs (hh c rest rfl).1
    simp [many1, Pat.run, hx, hsp', Nat.add_comm]
  have hdrop : List.drop (x :: s').length ((x :: s') ++ t) = t := List.drop_left' rfl
  have hdot : ∀ b, Pat.run (.seq (lit '.') b) t = none := by
    intro b
    cases t with
    | nil => simp [Pat.run, lit]
    | cons c rest => exact run_seq_ch_none _ _ _ _ (hh c rest rfl).2.1
  have hexp : Pat.run patExp t = none := by
    cases t with
    | nil => simp [Pat.run, patExp, ci]
    | cons c rest => unfold patExp; exact run_seq_ch_none _ _ _ _ (hh c rest rfl).2.2
  have hA1 : Pat.run (seqs [.many isDigit, lit '.', many1 isDigit]) ((x :: s') ++ t) = none := by
    simp only [seqs]; rw [run_seq_of _ _ _ _ hm, hdrop, hdot]; rfl
  have hA2 : Pat.run (seqs [many1 isDigit, lit '.', opt patExp]) ((x :: s') ++ t) = none := by
    simp only [seqs]; rw [run_seq_of _ _ _ _ hm1, hdrop, hdot]; rfl
  have hA3 : Pat.run (.seq (many1 isDigit) patExp) ((x :: s') ++ t) = none := by
    rw [run_seq_of _ _ _ _ hm1, hdrop, hexp]; rfl
  unfold patFraction
  apply run_seq_none
  exact run_alt_none _ _ _ hA1 (run_alt_none _ _ _ hA2 hA3)

theorem number_ok_split (t : List Char) (h : Fol.number.ok t = true) :
    (∀ c rest, t = c :: rest → isWord c = false ∧ isDigit c = false ∧ (c == '.') = false) ∧ dblColon t = false := by
  cases t with
  | nil => exact ⟨by intro c rest h; simp at h, rfl⟩
  | cons c rest =>
    simp only [Fol.ok, Bool.and_eq_true, Bool.not_eq_true'] at h
    refine ⟨?_, h.2⟩
    intro c' rest' he
    simp only [List.cons.injEq] at he
    rw [← he.1]; exact ⟨h.1.1.1, h.1.1.2, h.1.2⟩

theorem step_number' (s : List Char) (h : WellNumber s) (t : List Char) (ht : Fol.number.ok t = true) :
    firstMatch Gen.OalLex.rules (s ++ t) = some (R 10, s.length) := by
  obtain ⟨hh, hdc⟩ := number_ok_split t ht
  obtain ⟨hne, hd⟩ := h
  cases s with
  | nil => exact absurd rfl hne
  | cons x s' =>
    have hx := hd x (by simp)
    have hs' : ∀ y ∈ s', isDigit y = true := fun y hy => hd y (by simp [hy])
    have hns : patNamespace.run ((x :: s') ++ t) = none :=
      namespace_fails' _ t (digits_no_colon _ hd) (fun c rest he => (hh c rest he).1) hdc
    have hfr : patFraction.run ((x :: s') ++ t) = none :=
      fraction_fails_digits' x s' hx hs' t (fun c rest he =>
        ⟨(hh c rest he).2.1, (hh c rest he).2.2, (nonword_not_end_letter c (hh c rest he).1).1⟩)
    have hnum : patNumber.run ((x :: s') ++ t) = some (x :: s').length := by
      rw [run_ext patNumber _ t (fun c rest he => rejectsB_number c (by simp [rejectsB, (hh c rest he).2.1]))]
      simp [patNumber, many1, Pat.run, hx, spanLen_all isDigit s' hs', Nat.add_comm]
    rw [List.cons_append] at hns hfr hnum ⊢
    rw [firstMatch_cands]
    rcases charClass_digit x hx with hc | hc <;> rw [hc]
    · rw [cands_D]; simp [firstMatch, scan_R7, scan_R9, scan_R10, hns, hfr, hnum]
    · rw [cands_U]; simp [firstMatch, scan_R9, scan_R10, hfr, hnum]

theorem fraction_ok_split (t : List Char) (h : Fol.fraction.ok t = true) :
    (∀ c rest, t = c :: rest → rejectsB .fraction c = true ∧ isWord c = false) ∧ dblColon t = false := by
  cases t with
  | nil => exact ⟨by intro c rest h; simp at h, rfl⟩
  | cons c rest =>
    simp only [Fol.ok, Bool.and_eq_true, Bool.not_eq_true'] at h
    refine ⟨?_, h.2⟩
    intro c' rest' he
    simp only [List.cons.injEq] at he
    rw [← he.1]; exact ⟨h.1.1, h.1.2⟩

theorem step_fraction' (s : List Char) (h : WellFraction s) (t : List Char) (ht : Fol.fraction.ok t = true) :
    firstMatch Gen.OalLex.rules (s ++ t) = some (R 9, s.length) := by
  obtain ⟨hh, hdc⟩ := fraction_ok_split t ht
  obtain ⟨hne, hw⟩ := h
  cases s with
  | nil => exact absurd rfl hne
  | cons x s' =>
    have hfr : patFraction.run ((x :: s') ++ t) = some (x :: s').length := by
      rw [run_ext patFraction _ t (fun c rest he => rejectsB_fraction c (hh c rest he).1)]; exact hw
    have hcol : ':' ∉ x :: s' := by
      have := fraction_no_colon _ _ hw
      rwa [List.take_length] at this
    have hns : patNamespace.run ((x :: s') ++ t) = none :=
      namespace_fails' _ t hcol (fun c rest he => (hh c rest he).2) hdc
    have hstart : startOk (R 9) (charClass x) = true := by
      cases hso : startOk (R 9) (charClass x) with
      | true => rfl
      | false =>
        have := startOk_sound (R 9) x s' hso
        rw [scan_R9, hw] at this; simp at this
    have hcls : (charClass x = .D ∨ charClass x = .U) ∨ charClass x = .other '.' := by
      have h9 : startOk (R 9) (charClass x) = idStart .fraction (charClass x) := by
        simp only [startOk, show (R 9).lit = none from by decide,
          show regexId (R 9).regex = RegexId.fraction from by decide]
      rw [h9] at hstart
      simpa [idStart] using hstart
    rw [List.cons_append] at hns hfr ⊢
    rw [firstMatch_cands]
    rcases hcls with (hc | hc) | hc <;> rw [hc]
    · rw [cands_D]; simp [firstMatch, scan_R7, scan_R9, hns, hfr]
    · rw [cands_U]; simp [firstMatch, scan_R9, hfr]
    · rw [cands_dot]; simp [firstMatch, scan_R9, hfr]

theorem step_lit' (i : Nat) (hi : litGood i = true) (x : Char) (l' : List Char) (hl : (R i).lit = some (x :: l'))
    (t : List Char) (ht : (Fol.lit (x :: l')).ok t = true) :
    firstMatch Gen.OalLex.rules ((x :: l') ++ t) = some (R i, (x :: l').length) := by
  unfold litGood at hi
  rw [hl] at hi
  simp only [Bool.and_eq_true, decide_eq_true_eq] at hi
  obtain ⟨⟨⟨⟨_, hfm⟩, _⟩, _⟩, _⟩ := hi
  cases t with
  | nil => rw [List.append_nil]; exact hfm
  | cons c rest =>
    simp only [Fol.ok, List.all_eq_true] at ht
    rw [← hfm]
    exact firstMatch_congr (fun r hr => stable_sound' r x l' c rest (ht r hr))

theorem step_div' (t : List Char) (ht : Fol.div.ok t = true) :
    firstMatch Gen.OalLex.rules (['/'] ++ t) = some (R 33, 1) := by
  have h33 : scanOf (R 33) = scanLit ['/'] := by
    funext cs; simp only [scanOf, show (R 33).lit = some ['/'] from by decide]
  rw [List.singleton_append, firstMatch_cands, show charClass '/' = .other '/' from by decide, cands_slash]
  cases t with
  | nil => simp [firstMatch, scan_R0, scan_R1, h33, scanComment, patSlString, seqs, lit, Pat.run, scanLit, hasPrefix]
  | cons c rest =>
    simp only [Fol.ok, Bool.and_eq_true, Bool.not_eq_true'] at ht
    simp [firstMatch, scan_R0, scan_R1, h33, scanComment, patSlString, seqs, lit, Pat.run, scanLit, hasPrefix,
      ht.1, ht.2]


/-! ## units -/

/-- the unit's lexeme is well-formed for its class -/
def LexUnit.Well : LexUnit → Prop
  | .word s => WellWord s
  | .number s => WellNumber s
  | .fraction s => WellFraction s
  | .string s => WellString s
  | .ticked s => WellTicked s
  | .endFor s => WellEnd ['f', 'o', 'r'] s
  | .endIf s => WellEnd ['i', 'f'] s
  | .endWhile s => WellEnd ['w', 'h', 'i', 'l', 'e'] s
  | .lit i => i ∈ litIndexes
  | .div => True
  | .ns n => WellNs n

theorem lexAll_of_step (k : List Char) (x : Char) (s' t : List Char) (r : Rule)
    (hig : Gen.OalLex.cfg.ignore.contains x = false)
    (hfm : firstMatch Gen.OalLex.cfg.rules ((x :: s') ++ t) = some (r, (x :: s').length))
    (hret : r.returnsTok = true) (hk : kindOf Gen.OalLex.cfg r (x :: s') = k) :
    lexAll Gen.OalLex.cfg ((x :: s') ++ t) = (k, x :: s') :: lexAll Gen.OalLex.cfg t := by
  rw [List.cons_append] at hfm ⊢
  rw [lexAll_match _ x (s' ++ t) r _ hig hfm, hret]
  simp only [if_true, ← List.cons_append, List.take_left', List.drop_left', hk]

theorem lit_text (i : Nat) (hi : i ∈ litIndexes) :
    ∃ x l', (R i).lit = some (x :: l') ∧ litGood i = true ∧ (R i).returnsTok = true ∧ (R i).name ≠ idName ∧
      Gen.OalLex.cfg.ignore.contains x = false := by
  have hg : litGood i = true := List.all_eq_true.mp litIndexes_good i hi
  have hg' := hg
  unfold litGood at hg'
  cases hl : (R i).lit with
  | none => rw [hl] at hg'; simp at hg'
  | some l =>
    cases l with
    | nil => rw [hl] at hg'; simp at hg'
    | cons x l' =>
      rw [hl] at hg'
      simp only [Bool.and_eq_true, decide_eq_true_eq, Bool.not_eq_true'] at hg'
      exact ⟨x, l', rfl, hg, hg'.1.1.2, hg'.1.2, hg'.2⟩

/-- the lexer step at a unit followed by any text its follow condition accepts -/
theorem lexAll_unit (u : LexUnit) (hw : u.Well) (t : List Char) (ht : u.fol.ok t = true) :
    lexAll Gen.OalLex.cfg (u.text ++ t) = u.toks ++ lexAll Gen.OalLex.cfg t := by
  cases u with
  | word s =>
    obtain ⟨x, s', rfl, hx, _⟩ := hw.shape
    exact lexAll_of_step _ x s' t (R 8) (not_ignored isIdStart (by decide) x hx) (step_word' _ hw t ht)
      (by decide) (kindOf_R8 _)
  | number s =>
    cases s with
    | nil => exact absurd rfl hw.nonempty
    | cons x s' =>
      exact lexAll_of_step _ x s' t (R 10) (not_ignored isDigit (by decide) x (hw.digits x (by simp)))
        (step_number' _ hw t ht) (by decide) (kindOf_other _ (by decide) _)
  | fraction s =>
    have hw' : WellLexeme (R 9).name s := WellLexeme.fraction s hw
    obtain ⟨r, x, s', rfl, hig, _, _, _⟩ := tok_step _ _ hw' [] TailOk.nil (fun _ rest h => by simp at h)
    exact lexAll_of_step _ x s' t (R 9) hig (step_fraction' _ hw t ht) (by decide) (kindOf_other _ (by decide) _)
  | string s =>
    obtain ⟨body, rfl, _⟩ := hw.shape
    exact lexAll_of_step _ '"' (body ++ ['"']) t (R 3) (by decide) (step_string _ hw t) (by decide)
      (kindOf_other _ (by decide) _)
  | ticked s =>
    obtain ⟨body, rfl, _⟩ := hw.shape
    exact lexAll_of_step _ '\'' (body ++ ['\'']) t (R 2) (by decide) (step_ticked _ hw t) (by decide)
      (kindOf_other _ (by decide) _)
  | endFor s =>
    obtain ⟨a, s', rfl, ha⟩ := wellEnd_length _ _ hw
    exact lexAll_of_step _ a s' t (R 4) (not_ignored (fun c => lowerAscii c == 'e') (by decide) a ha)
      (step_end_for _ hw t) (by decide) (kindOf_other _ (by decide) _)
  | endIf s =>
    obtain ⟨a, s', rfl, ha⟩ := wellEnd_length _ _ hw
    exact lexAll_of_step _ a s' t (R 5) (not_ignored (fun c => lowerAscii c == 'e') (by decide) a ha)
      (step_end_if _ hw t) (by decide) (kindOf_other _ (by decide) _)
  | endWhile s =>
    obtain ⟨a, s', rfl, ha⟩ := wellEnd_length _ _ hw
    exact lexAll_of_step _ a s' t (R 6) (not_ignored (fun c => lowerAscii c == 'e') (by decide) a ha)
      (step_end_while _ hw t) (by decide) (kindOf_other _ (by decide) _)
  | lit i =>
    obtain ⟨x, l', hl, hg, hret, hname, hig⟩ := lit_text i hw
    have ht' : (Fol.lit (x :: l')).ok t = true := by simpa [LexUnit.fol, hl] using ht
    simp only [LexUnit.text, LexUnit.toks, hl, Option.getD_some]
    exact lexAll_of_step _ x l' t (R i) hig (step_lit' i hg x l' hl t ht') hret (kindOf_other _ hname _)
  | div =>
    exact lexAll_of_step _ '/' [] t (R 33) (by decide) (step_div' t ht) (by decide) (kindOf_other _ (by decide) _)
  | ns n =>
    have hfm := step_ns n hw (t)
    cases n with
    | nil => exact absurd rfl hw.nonempty
    | cons x n' =>
      simp only [LexUnit.text, LexUnit.toks, List.append_assoc, List.cons_append, List.nil_append]
      rw [List.cons_append] at hfm
      rw [lexAll_match _ x _ (R 7) _ (not_ignored isWord (by decide) x (hw.word x (by simp))) hfm,
        show (R 7).returnsTok = true from by decide]
      simp only [if_true, ← List.cons_append, List.take_left', List.drop_left',
        kindOf_other (R 7) (by decide)]
      have hl : (R 11).lit = some [':', ':'] := by decide
      have h2 := lexAll_of_step (R 11).name ':' [':'] t (R 11) (by decide)
        (step_lit' 11 (by decide) ':' [':'] hl t ht) (by decide) (kindOf_other _ (by decide) _)
      rw [show ':' :: ':' :: t = (':' :: [':']) ++ t from rfl, h2]

/-! ## sequences of units -/

def renderT : List (LexUnit × List Char) → List Char
  | [] => []
  | (u, sep) :: rest => u.text ++ sep ++ renderT rest

/-- semantic form: every separator is a (possibly empty) layout string and every unit is followed by a text its
    follow condition accepts -/
inductive SemOk : List (LexUnit × List Char) → Prop
  | nil : SemOk []
  | cons (u : LexUnit) (sep : List Char) (rest : List (LexUnit × List Char)) :
      u.Well → Layout0 sep → u.fol.ok (sep ++ renderT rest) = true → SemOk rest → SemOk ((u, sep) :: rest)

theorem lexAll_sem (units : List (LexUnit × List Char)) (h : SemOk units) :
    lexAll Gen.OalLex.cfg (renderT units) = (units.map (fun p => p.1.toks)).flatten := by
  induction h with
  | nil => rfl
  | cons u sep rest hw hsep hfol _ ih =>
    simp only [renderT, List.map_cons, List.flatten_cons, List.append_assoc]
    rw [lexAll_unit u hw _ hfol, lexAll_skip sep hsep, ih]

theorem layout_irrelevant_sem (sep0 : List Char) (units : List (LexUnit × List Char))
    (h0 : Layout0 sep0) (h : SemOk units) :
    (lex (sep0 ++ renderT units)).map (fun t => (t.kind, t.lexeme)) = (units.map (fun p => p.1.toks)).flatten := by
  unfold lex
  rw [lexWith_kl, lexAll_skip sep0 h0, lexAll_sem units h]


/-! ## the pairwise form -/

theorem fol_ok_nil (f : Fol) : f.ok [] = true := by cases f <;> rfl

theorem layout_char_facts (c : Char) (hc : LayoutStart c) :
    isWord c = false ∧ isDigit c = false ∧ (c == '.') = false ∧ (c == ':') = false ∧ (c == '*') = false ∧
      rejectsB .fraction c = true := by
  layout_cases hc <;> decide

theorem litLayoutOk :
    (litIndexes.all fun i => layoutStarts.all fun c => (LexUnit.lit i).fol.ok [c]) = true := by decide

/-- any unit may be followed by layout (a `/` token not by a comment) -/
theorem fol_layout (u : LexUnit) (hw : u.Well) (c : Char) (rest : List Char) (hc : LayoutStart c)
    (hd : u.text = ['/'] → c ≠ '/') : u.fol.ok (c :: rest) = true := by
  obtain ⟨h1, h2, h3, h4, h5, h6⟩ := layout_char_facts c hc
  cases u with
  | word s => simp [LexUnit.fol, Fol.ok, dblColon, hasPrefix, h1, h4]
  | number s => simp [LexUnit.fol, Fol.ok, dblColon, hasPrefix, h1, h2, h3, h4]
  | fraction s => simp [LexUnit.fol, Fol.ok, dblColon, hasPrefix, h1, h4, h6]
  | string s => simp [LexUnit.fol, Fol.ok]
  | ticked s => simp [LexUnit.fol, Fol.ok]
  | endFor s => simp [LexUnit.fol, Fol.ok]
  | endIf s => simp [LexUnit.fol, Fol.ok]
  | endWhile s => simp [LexUnit.fol, Fol.ok]
  | lit i =>
    have := List.all_eq_true.mp (List.all_eq_true.mp litLayoutOk i hw) c (layoutStart_mem c hc)
    exact this
  | div =>
    have hne : c ≠ '/' := hd rfl
    have : (c == '/') = false := by simpa using hne
    simp [LexUnit.fol, Fol.ok, h5, this]
  | ns n =>
    have := List.all_eq_true.mp (List.all_eq_true.mp litLayoutOk 11 (by decide)) c (layoutStart_mem c hc)
    exact this

theorem text_cons (u : LexUnit) (hw : u.Well) : ∃ c vr, u.text = c :: vr := by
  cases u with
  | word s => obtain ⟨x, s', rfl, _⟩ := hw.shape; exact ⟨x, s', rfl⟩
  | number s =>
    cases s with
    | nil => exact absurd rfl hw.nonempty
    | cons x s' => exact ⟨x, s', rfl⟩
  | fraction s =>
    cases s with
    | nil => exact absurd rfl hw.nonempty
    | cons x s' => exact ⟨x, s', rfl⟩
  | string s => obtain ⟨body, rfl, _⟩ := hw.shape; exact ⟨'"', body ++ ['"'], rfl⟩
  | ticked s => obtain ⟨body, rfl, _⟩ := hw.shape; exact ⟨'\'', body ++ ['\''], rfl⟩
  | endFor s => obtain ⟨a, s', rfl, _⟩ := wellEnd_length _ _ hw; exact ⟨a, s', rfl⟩
  | endIf s => obtain ⟨a, s', rfl, _⟩ := wellEnd_length _ _ hw; exact ⟨a, s', rfl⟩
  | endWhile s => obtain ⟨a, s', rfl, _⟩ := wellEnd_length _ _ hw; exact ⟨a, s', rfl⟩
  | lit i =>
    obtain ⟨x, l', hl, _⟩ := lit_text i hw
    exact ⟨x, l', by simp [LexUnit.text, hl]⟩
  | div => exact ⟨'/', [], rfl⟩
  | ns n =>
    cases n with
    | nil => exact absurd rfl hw.nonempty
    | cons x n' => exact ⟨x, n' ++ [':', ':'], rfl⟩

/-- after the one-character lexeme `:` no colon can follow (it would have been the token `::`) -/
theorem colon_unit_follow (v : LexUnit) (hv : v.Well) (hvt : v.text = [':']) (t' : List Char)
    (ht' : v.fol.ok t' = true) : hasPrefix [':'] t' = false := by
  cases v with
  | word s =>
    obtain ⟨x, s', hs, hx, _⟩ := hv.shape
    simp only [LexUnit.text] at hvt
    rw [hvt] at hs
    simp only [List.cons.injEq] at hs
    rw [← hs.1] at hx; exact absurd hx (by decide)
  | number s =>
    simp only [LexUnit.text] at hvt
    have := hv.digits ':' (by rw [hvt]; simp)
    exact absurd this (by decide)
  | fraction s =>
    simp only [LexUnit.text] at hvt
    have := hv.whole
    rw [hvt] at this
    exact absurd this (by decide)
  | string s =>
    obtain ⟨body, hs, _⟩ := hv.shape
    simp only [LexUnit.text] at hvt
    rw [hvt] at hs; simp at hs
  | ticked s =>
    obtain ⟨body, hs, _⟩ := hv.shape
    simp only [LexUnit.text] at hvt
    rw [hvt] at hs; simp at hs
  | endFor s =>
    obtain ⟨a, s', hs, ha⟩ := wellEnd_length _ _ hv
    simp only [LexUnit.text] at hvt
    rw [hvt] at hs; simp only [List.cons.injEq] at hs; rw [← hs.1] at ha; exact absurd ha (by decide)
  | endIf s =>
    obtain ⟨a, s', hs, ha⟩ := wellEnd_length _ _ hv
    simp only [LexUnit.text] at hvt
    rw [hvt] at hs; simp only [List.cons.injEq] at hs; rw [← hs.1] at ha; exact absurd ha (by decide)
  | endWhile s =>
    obtain ⟨a, s', hs, ha⟩ := wellEnd_length _ _ hv
    simp only [LexUnit.text] at hvt
    rw [hvt] at hs; simp only [List.cons.injEq] at hs; rw [← hs.1] at ha; exact absurd ha (by decide)
  | lit i =>
    simp only [LexUnit.text] at hvt
    simp only [LexUnit.fol, hvt] at ht'
    cases t' with
    | nil => rfl
    | cons d rest =>
      simp only [Fol.ok, List.all_eq_true] at ht'
      have h11 := ht' (R 11) (by decide)
      have hso : startOk (R 11) (charClass ':') = true := by decide
      have hl : (R 11).lit = some [':', ':'] := by decide
      simp only [stableL, List.headD_cons, hso, Bool.not_true, Bool.false_or, hl, List.length_cons,
        List.length_nil, List.drop_succ_cons, List.drop_zero, List.head?_cons, bne_iff_ne, ne_eq,
        Option.some.injEq] at h11
      have : (d == ':') = false := by
        rw [beq_eq_false_iff_ne]; intro e; exact h11 e.symm
      simp [hasPrefix, this]
  | div => simp [LexUnit.text] at hvt
  | ns n =>
    simp only [LexUnit.text] at hvt
    have := congrArg List.length hvt
    simp at this

theorem dbl_combine (c : Char) (vr t' : List Char) (h : dblColon (c :: vr) = false)
    (hc : vr = [] → hasPrefix [':'] t' = false) : dblColon (c :: (vr ++ t')) = false := by
  simp only [dblColon, hasPrefix, Bool.and_eq_false_iff] at h ⊢
  rcases h with h | h
  · exact Or.inl h
  · cases vr with
    | nil => exact Or.inr (by simpa using hc rfl)
    | cons y ys =>
      simp only [hasPrefix, Bool.and_true] at h
      right
      simp [hasPrefix, h]

/-- a follow condition that accepts the next unit's lexeme accepts it together with whatever that unit accepts -/
theorem fol_combine (f : Fol) (v : LexUnit) (hv : v.Well) (h : f.ok v.text = true) (t' : List Char)
    (ht' : v.fol.ok t' = true) : f.ok (v.text ++ t') = true := by
  obtain ⟨c, vr, hvt⟩ := text_cons v hv
  have hcol : vr = [] → c = ':' → hasPrefix [':'] t' = false := by
    intro h1 h2
    exact colon_unit_follow v hv (by rw [hvt, h1, h2]) t' ht'
  have hc' : vr = [] → dblColon (c :: vr) = false → hasPrefix [':'] t' = false ∨ (c == ':') = false := by
    intro h1 _
    by_cases hcc : c = ':'
    · exact Or.inl (hcol h1 hcc)
    · exact Or.inr (by simpa using hcc)
  rw [hvt] at h ⊢
  rw [List.cons_append]
  have key : dblColon (c :: vr) = false → dblColon (c :: (vr ++ t')) = false := by
    intro hd
    by_cases hcc : c = ':'
    · exact dbl_combine c vr t' hd (fun h1 => hcol h1 hcc)
    · have : (c == ':') = false := by simpa using hcc
      simp [dblColon, hasPrefix, this]
  cases f with
  | word =>
    simp only [Fol.ok, Bool.and_eq_true, Bool.not_eq_true'] at h ⊢
    exact ⟨h.1, key h.2⟩
  | number =>
    simp only [Fol.ok, Bool.and_eq_true, Bool.not_eq_true'] at h ⊢
    exact ⟨h.1, key h.2⟩
  | fraction =>
    simp only [Fol.ok, Bool.and_eq_true, Bool.not_eq_true'] at h ⊢
    exact ⟨h.1, key h.2⟩
  | any => simp [Fol.ok]
  | div => simpa [Fol.ok] using h
  | lit x => simpa [Fol.ok] using h

/-- pairwise form: between two units a layout string; where it is empty the pair must satisfy `tightOk`;
    a `/` token is not directly followed by a comment -/
inductive PairOk : List (LexUnit × List Char) → Prop
  | nil : PairOk []
  | single (u : LexUnit) (sep : List Char) :
      u.Well → Layout0 sep → (u.text = ['/'] → ∀ r, sep ≠ '/' :: r) → PairOk [(u, sep)]
  | cons (u : LexUnit) (sep : List Char) (v : LexUnit) (sepv : List Char) (rest : List (LexUnit × List Char)) :
      u.Well → Layout0 sep → (sep = [] → tightOk u v = true) → (u.text = ['/'] → ∀ r, sep ≠ '/' :: r) →
      PairOk ((v, sepv) :: rest) → PairOk ((u, sep) :: (v, sepv) :: rest)

theorem fol_sep (u : LexUnit) (hw : u.Well) (sep more : List Char) (hsep : Layout0 sep) (hne : sep ≠ [])
    (hd : u.text = ['/'] → ∀ r, sep ≠ '/' :: r) : u.fol.ok (sep ++ more) = true := by
  cases sep with
  | nil => exact absurd rfl hne
  | cons c sep' =>
    rw [List.cons_append]
    exact fol_layout u hw c _ (layout0_head c sep' hsep) (fun ht e => hd ht sep' (by rw [e]))

theorem pair_sem (units : List (LexUnit × List Char)) (h : PairOk units) : SemOk units := by
  induction h with
  | nil => exact .nil
  | single u sep hw hsep hd =>
    refine .cons u sep [] hw hsep ?_ .nil
    by_cases he : sep = []
    · rw [he]; exact fol_ok_nil _
    · exact fol_sep u hw sep _ hsep he hd
  | cons u sep v sepv rest hw hsep ht hd _ ih =>
    refine .cons u sep _ hw hsep ?_ ih
    by_cases he : sep = []
    · cases ih with
      | cons _ _ _ hvw _ hvf _ =>
        rw [he, List.nil_append]
        simp only [renderT, List.append_assoc]
        exact fol_combine u.fol v hvw (ht he) _ hvf
    · exact fol_sep u hw sep _ hsep he hd

/-- layout_irrelevant_tight: units written with a non-empty layout string or - where `tightOk` allows it - with
    nothing between them are returned by the lexer of the generated rule table exactly, in order -/
theorem layout_irrelevant_tight (sep0 : List Char) (units : List (LexUnit × List Char))
    (h0 : Layout0 sep0) (h : PairOk units) :
    (lex (sep0 ++ renderT units)).map (fun t => (t.kind, t.lexeme)) = (units.map (fun p => p.1.toks)).flatten :=
  layout_irrelevant_sem sep0 units h0 (pair_sem units h)

/-! ## non-vacuity: `x.y[1]=f(p:1)+2;` written without a single separator -/

def sampleTight : List (LexUnit × List Char) :=
  [(.word ['x'], []),
   (.lit 19, []),
   (.word ['y'], []),
   (.lit 25, []),
   (.number ['1'], []),
   (.lit 26, []),
   (.lit 18, []),
   (.word ['f'], []),
   (.lit 20, []),
   (.word ['p'], []),
   (.lit 23, []),
   (.number ['1'], []),
   (.lit 21, []),
   (.lit 30, []),
   (.number ['2'], []),
   (.lit 17, [])]

theorem sampleTight_ok : PairOk sampleTight := by
  refine .cons _ _ _ _ _ (show WellWord _ from ⟨⟨'x', [], rfl, by decide, by decide⟩, by decide⟩) .nil (fun _ => by decide) (fun h => absurd h (by decide)) ?_
  refine .cons _ _ _ _ _ (show 19 ∈ litIndexes from by decide) .nil (fun _ => by decide) (fun h => absurd h (by decide)) ?_
  refine .cons _ _ _ _ _ (show WellWord _ from ⟨⟨'y', [], rfl, by decide, by decide⟩, by decide⟩) .nil (fun _ => by decide) (fun h => absurd h (by decide)) ?_
  refine .cons _ _ _ _ _ (show 25 ∈ litIndexes from by decide) .nil (fun _ => by decide) (fun h => absurd h (by decide)) ?_
  refine .cons _ _ _ _ _ (show WellNumber _ from ⟨by decide, by decide⟩) .nil (fun _ => by decide) (fun h => absurd h (by decide)) ?_
  refine .cons _ _ _ _ _ (show 26 ∈ litIndexes from by decide) .nil (fun _ => by decide) (fun h => absurd h (by decide)) ?_
  refine .cons _ _ _ _ _ (show 18 ∈ litIndexes from by decide) .nil (fun _ => by decide) (fun h => absurd h (by decide)) ?_
  refine .cons _ _ _ _ _ (show WellWord _ from ⟨⟨'f', [], rfl, by decide, by decide⟩, by decide⟩) .nil (fun _ => by decide) (fun h => absurd h (by decide)) ?_
  refine .cons _ _ _ _ _ (show 20 ∈ litIndexes from by decide) .nil (fun _ => by decide) (fun h => absurd h (by decide)) ?_
  refine .cons _ _ _ _ _ (show WellWord _ from ⟨⟨'p', [], rfl, by decide, by decide⟩, by decide⟩) .nil (fun _ => by decide) (fun h => absurd h (by decide)) ?_
  refine .cons _ _ _ _ _ (show 23 ∈ litIndexes from by decide) .nil (fun _ => by decide) (fun h => absurd h (by decide)) ?_
  refine .cons _ _ _ _ _ (show WellNumber _ from ⟨by decide, by decide⟩) .nil (fun _ => by decide) (fun h => absurd h (by decide)) ?_
  refine .cons _ _ _ _ _ (show 21 ∈ litIndexes from by decide) .nil (fun _ => by decide) (fun h => absurd h (by decide)) ?_
  refine .cons _ _ _ _ _ (show 30 ∈ litIndexes from by decide) .nil (fun _ => by decide) (fun h => absurd h (by decide)) ?_
  refine .cons _ _ _ _ _ (show WellNumber _ from ⟨by decide, by decide⟩) .nil (fun _ => by decide) (fun h => absurd h (by decide)) ?_
  exact .single _ _ (show 17 ∈ litIndexes from by decide) .nil (fun h => absurd h (by decide))

example : (lex "x.y[1]=f(p:1)+2;".toList).map (fun t => (String.ofList t.kind, String.ofList t.lexeme)) =
    [("ID", "x"), ("DOT", "."), ("ID", "y"), ("LSQBR", "["), ("NUMBER", "1"), ("RSQBR", "]"), ("EQUAL", "="),
     ("ID", "f"), ("LPAREN", "("), ("ID", "p"), ("COLON", ":"), ("NUMBER", "1"), ("RPAREN", ")"), ("PLUS", "+"),
     ("NUMBER", "2"), ("SEMICOLON", ";")] := by
  have h := layout_irrelevant_tight [] sampleTight .nil sampleTight_ok
  have ht : ([] : List Char) ++ renderT sampleTight = "x.y[1]=f(p:1)+2;".toList := by decide
  rw [ht] at h
  have := congrArg (List.map fun p : List Char × List Char => (String.ofList p.1, String.ofList p.2)) h
  simp only [List.map_map] at this
  rw [show ((fun p : List Char × List Char => (String.ofList p.1, String.ofList p.2)) ∘
    fun t : Tok => (t.kind, t.lexeme)) = fun t => (String.ofList t.kind, String.ofList t.lexeme) from rfl] at this
  rw [this]; decide

/-- pairs that `tightOk` refuses because they would merge or split differently -/
example : tightOk (.word ['a']) (.word ['b']) = false ∧ tightOk (.lit 31) (.lit 29) = false ∧
    tightOk (.lit 18) (.lit 18) = false ∧ tightOk (.lit 23) (.lit 23) = false ∧
    tightOk (.number ['1']) (.lit 19) = false ∧ tightOk .div (.lit 22) = false ∧ tightOk .div .div = false ∧
    tightOk (.word ['x']) (.lit 11) = false ∧ tightOk (.lit 28) (.lit 18) = false := by decide

end Pyx.OalLex
