import PyxModel.OSetPtr

/-! helper lemmas for C17 (pointer level): iteration that discards the visited element -/
namespace Pyx.OSetPtr

/-- following `next` from address `a` visits exactly the addresses `as`, then the sentinel -/
def NextChain (s : Store) : Nat → List Nat → Prop
  | a, [] => a = 0
  | a, b :: bs => a = b ∧ NextChain s (s.next b) bs

def PrevChain (s : Store) : List Nat → Prop
  | b :: c :: cs => s.prev c = b ∧ PrevChain s (c :: cs)
  | _ => True

theorem nextChain_congr {s s' : Store} : ∀ (as : List Nat) (a : Nat),
    (∀ z ∈ as, s'.next z = s.next z) → NextChain s a as → NextChain s' a as
  | [], _, _, h => h
  | b :: bs, a, hz, h => by
    obtain ⟨h1, h2⟩ := h
    refine ⟨h1, ?_⟩
    rw [hz b (by simp)]
    exact nextChain_congr bs _ (fun z hz' => hz z (by simp [hz'])) h2

theorem prevChain_congr {s s' : Store} : ∀ (as : List Nat),
    (∀ z ∈ as.tail, s'.prev z = s.prev z) → PrevChain s as → PrevChain s' as
  | [], _, _ => trivial
  | [_], _, _ => trivial
  | b :: c :: cs, hz, h => by
    obtain ⟨h1, h2⟩ := h
    refine ⟨?_, ?_⟩
    · rw [hz c (by simp)]; exact h1
    · exact prevChain_congr (c :: cs) (fun z hz' => hz z (by simp at hz' ⊢; exact Or.inr hz')) h2

/-- the map finds the cell of every key in the remaining part of the ring -/
def MapOk (s : Store) (as : List Nat) : Prop := ∀ a ∈ as, s.map (s.key a) = some a

theorem discard_key (s : Store) (k : Nat) : (discard k s).key = s.key := by
  unfold discard; split <;> rfl

theorem iterRem_spec (p : Nat → Bool) : ∀ (as : List Nat) (s : Store) (a : Nat),
    NextChain s a as → PrevChain s as → as.Nodup → 0 ∉ as → (as.map s.key).Nodup → MapOk s as →
    (∀ b bs, as = b :: bs → s.prev b ∉ bs) →
    (iterRem p (as.length + 1) s a).1 = as.map s.key
  | [], s, a, hn, _, _, _, _, _, _ => by
    simp only [NextChain] at hn
    simp [iterRem, hn]
  | b :: bs, s, a, hn, hp, hnd, h0, hkn, hmap, hpb => by
    obtain ⟨rfl, hn'⟩ := hn
    have hb0 : a ≠ 0 := by intro h; apply h0; simp [h]
    have hnd' : bs.Nodup := (List.nodup_cons.mp hnd).2
    have hab : a ∉ bs := (List.nodup_cons.mp hnd).1
    have h0' : 0 ∉ bs := fun h => h0 (by simp [h])
    have hpa : s.prev a ∉ bs := hpb a bs rfl
    have hkn' : (bs.map s.key).Nodup := by
      simp only [List.map_cons, List.nodup_cons] at hkn; exact hkn.2
    have hka : ∀ z ∈ bs, s.key z ≠ s.key a := by
      intro z hz h
      simp only [List.map_cons, List.nodup_cons, List.mem_map, not_exists, not_and] at hkn
      exact hkn.1 z hz h
    simp only [List.length_cons, iterRem, hb0, ↓reduceIte, List.map_cons, List.cons.injEq, true_and]
    by_cases hk : p (s.key a) = true
    · -- the consumer discards the element being visited
      simp only [hk, ↓reduceIte]
      have hma : s.map (s.key a) = some a := hmap a (by simp)
      have hdis : discard (s.key a) s = { unlink s a with map := upd s.map (s.key a) none } := by
        unfold discard; rw [hma]
      have hnext : ∀ z ∈ bs, (discard (s.key a) s).next z = s.next z := by
        intro z hz
        have : z ≠ s.prev a := fun h => hpa (h ▸ hz)
        rw [hdis]; simp [unlink, this]
      have hnx : (discard (s.key a) s).next a = s.next a := by
        rw [hdis]; simp only [unlink]; split <;> rfl
      have hkey : (discard (s.key a) s).key = s.key := discard_key s _
      rw [hnx]
      have ih := iterRem_spec p bs (discard (s.key a) s) (s.next a)
        (nextChain_congr bs _ hnext hn')
        (by
          match bs, hp, hnd', hn' with
          | [], _, _, _ => trivial
          | [c], _, _, _ => trivial
          | c :: d :: ds, hp, hnd', hn' =>
            have hp' : PrevChain s (c :: d :: ds) := hp.2
            apply prevChain_congr (c :: d :: ds) _ hp'
            intro z hz
            have hc : s.next a = c := hn'.1
            have : z ≠ c := by
              intro h; subst h
              exact (List.nodup_cons.mp hnd').1 hz
            rw [hdis]; simp [unlink, hc, this])
        hnd' h0' (by rw [hkey]; exact hkn')
        (by
          intro z hz
          rw [hkey, hdis]
          simp only [upd, hka z hz, ↓reduceIte]
          exact hmap z (by simp [hz]))
        (by
          intro c cs hbs
          subst hbs
          have hc : s.next a = c := hn'.1
          have : (discard (s.key a) s).prev c = s.prev a := by rw [hdis]; simp [unlink, hc]
          rw [this]
          exact fun h => hpa (by simp [h]))
      rw [hkey] at ih
      exact ih
    · simp only [hk, Bool.false_eq_true, ↓reduceIte]
      have ih := iterRem_spec p bs s (s.next a) hn'
        (by
          match bs, hp with
          | [], _ => trivial
          | c :: cs, hp => exact hp.2)
        hnd' h0' hkn' (fun z hz => hmap z (by simp [hz]))
        (by
          intro c cs hbs
          subst hbs
          have : s.prev c = a := hp.1
          rw [this]
          exact fun h => hab (by simp [h]))
      exact ih

end Pyx.OSetPtr
