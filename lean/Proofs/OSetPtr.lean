import PyxModel.OSetPtr

/-! helper lemmas for C17 (pointer level): iteration that discards the visited element -/
namespace Pyx.OSetPtr

/-- following `next` from address `a` visits exactly the addresses `as`, then the sentinel -/
def NextChain (s : Store) : Nat → List Nat → Prop
  | a, [] => a = 0
  | a, b :: bs => a = b ∧ NextChain s (s.next b) bs

def PrevChain (s : Store) : List Nat → Prop
  | b :: c :: cs => s.prev c = b ∧ PrevChain s (c :: cs)
  | _ => True

theorem nextChain_congr {s s' : Store} : ∀ (as : List Nat) (a : Nat),
    (∀ z ∈ as, s'.next z = s.next z) → NextChain s a as → NextChain s' a as
  | [], _, _, h => h
  | b :: bs, a, hz, h => by
    obtain ⟨h1, h2⟩ := h
    refine ⟨h1, ?_⟩
    rw [hz b (by simp)]
    exact nextChain_congr bs _ (fun z hz' => hz z (by simp [hz'])) h2

theorem prevChain_congr {s s' : Store} : ∀ (as : List Nat),
    (∀ z ∈ as.tail, s'.prev z = s.prev z) → PrevChain s as → PrevChain s' as
  | [], _, _ => trivial
  | [_], _, _ => trivial
  | b :: c :: cs, hz, h => by
    obtain ⟨h1, h2⟩ := h
    refine ⟨?_, ?_⟩
    · rw [hz c (by simp)]; exact h1
    · exact prevChain_congr (c :: cs) (fun z hz' => hz z (by simp at hz' ⊢; exact Or.inr hz')) h2

/-- the map finds the cell of every key in the remaining part of the ring -/
def MapOk (s : Store) (as : List Nat) : Prop := ∀ a ∈ as, s.map (s.key a) = some a

theorem discard_key (s : Store) (k : Nat) : (discard k s).key = s.key := by
  unfold discard; split <;> rfl

theorem iterRem_spec_fuel (p : Nat → Bool) : ∀ (as : List Nat) (s : Store) (a : Nat) (f : Nat),
    NextChain s a as → PrevChain s as → as.Nodup → 0 ∉ as → (as.map s.key).Nodup → MapOk s as →
    (∀ b bs, as = b :: bs → s.prev b ∉ bs) → as.length < f →
    (iterRem p f s a).1 = as.map s.key
  | [], s, a, f, hn, _, _, _, _, _, _, hf => by
    simp only [NextChain] at hn
    obtain ⟨f', rfl⟩ : ∃ f', f = f' + 1 := ⟨f - 1, by simp at hf; omega⟩
    simp [iterRem, hn]
  | b :: bs, s, a, f, hn, hp, hnd, h0, hkn, hmap, hpb, hf => by
    obtain ⟨f', rfl⟩ : ∃ f', f = f' + 1 := ⟨f - 1, by simp at hf; omega⟩
    have hf' : bs.length < f' := by simp at hf; omega
    obtain ⟨rfl, hn'⟩ := hn
    have hb0 : a ≠ 0 := by intro h; apply h0; simp [h]
    have hnd' : bs.Nodup := (List.nodup_cons.mp hnd).2
    have hab : a ∉ bs := (List.nodup_cons.mp hnd).1
    have h0' : 0 ∉ bs := fun h => h0 (by simp [h])
    have hpa : s.prev a ∉ bs := hpb a bs rfl
    have hkn' : (bs.map s.key).Nodup := by
      simp only [List.map_cons, List.nodup_cons] at hkn; exact hkn.2
    have hka : ∀ z ∈ bs, s.key z ≠ s.key a := by
      intro z hz h
      simp only [List.map_cons, List.nodup_cons, List.mem_map, not_exists, not_and] at hkn
      exact hkn.1 z hz h
    simp only [iterRem, hb0, ↓reduceIte, List.map_cons, List.cons.injEq, true_and]
    by_cases hk : p (s.key a) = true
    · -- the consumer discards the element being visited
      simp only [hk, ↓reduceIte]
      have hma : s.map (s.key a) = some a := hmap a (by simp)
      have hdis : discard (s.key a) s = { unlink s a with map := upd s.map (s.key a) none } := by
        unfold discard; rw [hma]
      have hnext : ∀ z ∈ bs, (discard (s.key a) s).next z = s.next z := by
        intro z hz
        have : z ≠ s.prev a := fun h => hpa (h ▸ hz)
        rw [hdis]; simp [unlink, this]
      have hnx : (discard (s.key a) s).next a = s.next a := by
        rw [hdis]; simp only [unlink]; split <;> rfl
      have hkey : (discard (s.key a) s).key = s.key := discard_key s _
      rw [hnx]
      have ih := iterRem_spec_fuel p bs (discard (s.key a) s) (s.next a) f'
        (nextChain_congr bs _ hnext hn')
        (by
          match bs, hp, hnd', hn' with
          | [], _, _, _ => trivial
          | [c], _, _, _ => trivial
          | c :: d :: ds, hp, hnd', hn' =>
            have hp' : PrevChain s (c :: d :: ds) := hp.2
            apply prevChain_congr (c :: d :: ds) _ hp'
            intro z hz
            have hc : s.next a = c := hn'.1
            have : z ≠ c := by
              intro h; subst h
              exact (List.nodup_cons.mp hnd').1 hz
            rw [hdis]; simp [unlink, hc, this])
        hnd' h0' (by rw [hkey]; exact hkn')
        (by
          intro z hz
          rw [hkey, hdis]
          simp only [upd, hka z hz, ↓reduceIte]
          exact hmap z (by simp [hz]))
        (by
          intro c cs hbs
          subst hbs
          have hc : s.next a = c := hn'.1
          have : (discard (s.key a) s).prev c = s.prev a := by rw [hdis]; simp [unlink, hc]
          rw [this]
          exact fun h => hpa (by simp [h]))
        hf'
      rw [hkey] at ih
      exact ih
    · simp only [hk, Bool.false_eq_true, ↓reduceIte]
      have ih := iterRem_spec_fuel p bs s (s.next a) f' hn'
        (by
          match bs, hp with
          | [], _ => trivial
          | c :: cs, hp => exact hp.2)
        hnd' h0' hkn' (fun z hz => hmap z (by simp [hz]))
        (by
          intro c cs hbs
          subst hbs
          have : s.prev c = a := hp.1
          rw [this]
          exact fun h => hab (by simp [h]))
        hf'
      exact ih

theorem iterRem_spec (p : Nat → Bool) (as : List Nat) (s : Store) (a : Nat)
    (hn : NextChain s a as) (hp : PrevChain s as) (hnd : as.Nodup) (h0 : 0 ∉ as) (hk : (as.map s.key).Nodup)
    (hm : MapOk s as) (hb : ∀ b bs, as = b :: bs → s.prev b ∉ bs) :
    (iterRem p (as.length + 1) s a).1 = as.map s.key :=
  iterRem_spec_fuel p as s a (as.length + 1) hn hp hnd h0 hk hm hb (Nat.lt_succ_self _)

/-- the visit list AND the store the iteration leaves behind: the store is the original one with the visited keys
    satisfying `p` discarded, in visiting order -/
theorem iterRem_both_fuel (p : Nat → Bool) : ∀ (as : List Nat) (s : Store) (a : Nat) (f : Nat),
    NextChain s a as → PrevChain s as → as.Nodup → 0 ∉ as → (as.map s.key).Nodup → MapOk s as →
    (∀ b bs, as = b :: bs → s.prev b ∉ bs) → as.length < f →
    (iterRem p f s a).1 = as.map s.key ∧
    (iterRem p f s a).2 = ((as.map s.key).filter p).foldl (fun st k => discard k st) s
  | [], s, a, f, hn, _, _, _, _, _, _, hf => by
    simp only [NextChain] at hn
    obtain ⟨f', rfl⟩ : ∃ f', f = f' + 1 := ⟨f - 1, by simp at hf; omega⟩
    simp [iterRem, hn]
  | b :: bs, s, a, f, hn, hp, hnd, h0, hkn, hmap, hpb, hf => by
    obtain ⟨f', rfl⟩ : ∃ f', f = f' + 1 := ⟨f - 1, by simp at hf; omega⟩
    have hf' : bs.length < f' := by simp at hf; omega
    obtain ⟨rfl, hn'⟩ := hn
    have hb0 : a ≠ 0 := by intro h; apply h0; simp [h]
    have hnd' : bs.Nodup := (List.nodup_cons.mp hnd).2
    have hab : a ∉ bs := (List.nodup_cons.mp hnd).1
    have h0' : 0 ∉ bs := fun h => h0 (by simp [h])
    have hpa : s.prev a ∉ bs := hpb a bs rfl
    have hkn' : (bs.map s.key).Nodup := by
      simp only [List.map_cons, List.nodup_cons] at hkn; exact hkn.2
    have hka : ∀ z ∈ bs, s.key z ≠ s.key a := by
      intro z hz h
      simp only [List.map_cons, List.nodup_cons, List.mem_map, not_exists, not_and] at hkn
      exact hkn.1 z hz h
    simp only [iterRem, hb0, ↓reduceIte, List.map_cons, List.cons.injEq, true_and]
    by_cases hk : p (s.key a) = true
    · -- the consumer discards the element being visited
      simp only [hk, ↓reduceIte]
      have hma : s.map (s.key a) = some a := hmap a (by simp)
      have hdis : discard (s.key a) s = { unlink s a with map := upd s.map (s.key a) none } := by
        unfold discard; rw [hma]
      have hnext : ∀ z ∈ bs, (discard (s.key a) s).next z = s.next z := by
        intro z hz
        have : z ≠ s.prev a := fun h => hpa (h ▸ hz)
        rw [hdis]; simp [unlink, this]
      have hnx : (discard (s.key a) s).next a = s.next a := by
        rw [hdis]; simp only [unlink]; split <;> rfl
      have hkey : (discard (s.key a) s).key = s.key := discard_key s _
      rw [hnx]
      have ih := iterRem_both_fuel p bs (discard (s.key a) s) (s.next a) f'
        (nextChain_congr bs _ hnext hn')
        (by
          match bs, hp, hnd', hn' with
          | [], _, _, _ => trivial
          | [c], _, _, _ => trivial
          | c :: d :: ds, hp, hnd', hn' =>
            have hp' : PrevChain s (c :: d :: ds) := hp.2
            apply prevChain_congr (c :: d :: ds) _ hp'
            intro z hz
            have hc : s.next a = c := hn'.1
            have : z ≠ c := by
              intro h; subst h
              exact (List.nodup_cons.mp hnd').1 hz
            rw [hdis]; simp [unlink, hc, this])
        hnd' h0' (by rw [hkey]; exact hkn')
        (by
          intro z hz
          rw [hkey, hdis]
          simp only [upd, hka z hz, ↓reduceIte]
          exact hmap z (by simp [hz]))
        (by
          intro c cs hbs
          subst hbs
          have hc : s.next a = c := hn'.1
          have : (discard (s.key a) s).prev c = s.prev a := by rw [hdis]; simp [unlink, hc]
          rw [this]
          exact fun h => hpa (by simp [h]))
        hf'
      rw [hkey] at ih
      simp only [List.filter_cons, hk, ↓reduceIte, List.foldl_cons]
      exact ih
    · simp only [hk, Bool.false_eq_true, ↓reduceIte]
      have ih := iterRem_both_fuel p bs s (s.next a) f' hn'
        (by
          match bs, hp with
          | [], _ => trivial
          | c :: cs, hp => exact hp.2)
        hnd' h0' hkn' (fun z hz => hmap z (by simp [hz]))
        (by
          intro c cs hbs
          subst hbs
          have : s.prev c = a := hp.1
          rw [this]
          exact fun h => hab (by simp [h]))
        hf'
      simp only [List.filter_cons, hk, Bool.false_eq_true, ↓reduceIte]
      exact ih


/-! ### representation invariant: the pointer structure denotes a list (theorem `ptr_refines`) -/

/-- consecutive cells of the ring are linked in both directions -/
def Linked (s : Store) : List Nat → Prop
  | x :: y :: r => s.next x = y ∧ s.prev y = x ∧ Linked s (y :: r)
  | _ => True

/-- `as` are the addresses of the cells in ring order; the ring is `0 (sentinel), as…, 0` -/
structure ReprA (s : Store) (as : List Nat) (L : List Nat) : Prop where
  linked : Linked s (0 :: as ++ [0])
  keys : as.map s.key = L
  nodup : as.Nodup
  nz : 0 ∉ as
  bound : ∀ a ∈ as, a < s.fresh
  len : as.length < s.fresh
  knodup : L.Nodup
  mapIn : ∀ a ∈ as, s.map (s.key a) = some a
  mapOut : ∀ k, k ∉ L → s.map k = none

/-- walking `next` from the sentinel yields cells whose keys are `L`, `prev` is the mirror, `map` maps exactly
    the keys of `L` to their cells, addresses are distinct, non-sentinel and below the allocator -/
def Repr (s : Store) (L : List Nat) : Prop := ∃ as, ReprA s as L

theorem linked_split (s : Store) : ∀ (P0 : List Nat) (p n : Nat) (N0 : List Nat),
    Linked s (P0 ++ p :: n :: N0) ↔ Linked s (P0 ++ [p]) ∧ s.next p = n ∧ s.prev n = p ∧ Linked s (n :: N0)
  | [], p, n, N0 => by simp [Linked]
  | [x], p, n, N0 => by
    simp only [List.cons_append, List.nil_append, Linked, and_true]
    constructor
    · rintro ⟨h1, h2, h3, h4, h5⟩; exact ⟨⟨h1, h2⟩, h3, h4, h5⟩
    · rintro ⟨⟨h1, h2⟩, h3, h4, h5⟩; exact ⟨h1, h2, h3, h4, h5⟩
  | x :: y :: r, p, n, N0 => by
    have ih := linked_split s (y :: r) p n N0
    simp only [List.cons_append, Linked] at ih ⊢
    rw [ih]
    constructor
    · rintro ⟨h1, h2, h3, h4, h5, h6⟩; exact ⟨⟨h1, h2, h3⟩, h4, h5, h6⟩
    · rintro ⟨⟨h1, h2, h3⟩, h4, h5, h6⟩; exact ⟨h1, h2, h3, h4, h5, h6⟩

/-- `Linked` only looks at `next` of the non-last and `prev` of the non-first cells -/
theorem linked_congr {s s' : Store} : ∀ (l : List Nat),
    (∀ x ∈ l.dropLast, s'.next x = s.next x) → (∀ y ∈ l.tail, s'.prev y = s.prev y) → Linked s l → Linked s' l
  | [], _, _, _ => trivial
  | [_], _, _, _ => trivial
  | x :: y :: r, hn, hp, h => by
    obtain ⟨h1, h2, h3⟩ := h
    refine ⟨?_, ?_, ?_⟩
    · rw [hn x (by simp [List.dropLast])]; exact h1
    · rw [hp y (by simp)]; exact h2
    · apply linked_congr (y :: r) _ _ h3
      · intro z hz; apply hn
        simp only [List.dropLast_cons_cons, List.mem_cons] at hz ⊢
        exact Or.inr hz
      · intro z hz; apply hp
        simp only [List.tail_cons, List.mem_cons] at hz ⊢
        exact Or.inr hz

theorem nextChain_of_linked (s : Store) : ∀ (as : List Nat) (x : Nat),
    Linked s (x :: as ++ [0]) → NextChain s (s.next x) as
  | [], x, h => by simp only [List.cons_append, List.nil_append, Linked] at h; exact h.1
  | b :: bs, x, h => by
    simp only [List.cons_append, Linked] at h
    exact ⟨h.1, nextChain_of_linked s bs b (by simpa using h.2.2)⟩

theorem prevChain_of_linked (s : Store) : ∀ (as : List Nat) (x : Nat),
    Linked s (x :: as ++ [0]) → PrevChain s as
  | [], _, _ => trivial
  | [_], _, _ => trivial
  | b :: c :: cs, x, h => by
    simp only [List.cons_append, Linked] at h
    refine ⟨h.2.2.2.1, ?_⟩
    apply prevChain_of_linked s (c :: cs) b
    simp only [List.cons_append, Linked]
    exact h.2.2

/-- walking `prev` : start, the cells visited, the cell reached after them -/
def PrevWalk (s : Store) : Nat → List Nat → Nat → Prop
  | a, [], e => a = e
  | a, b :: bs, e => a = b ∧ PrevWalk s (s.prev b) bs e

theorem prevWalk_snoc (s : Store) : ∀ (l : List Nat) (a b e : Nat),
    PrevWalk s a l b → s.prev b = e → PrevWalk s a (l ++ [b]) e
  | [], a, b, e, h, he => by simp only [PrevWalk] at h; subst h; exact ⟨rfl, he⟩
  | c :: cs, a, b, e, h, he => ⟨h.1, prevWalk_snoc s cs _ b e h.2 he⟩

theorem prevWalk_of_linked (s : Store) : ∀ (as : List Nat) (x e : Nat),
    Linked s (x :: as ++ [e]) → PrevWalk s (s.prev e) as.reverse x
  | [], x, e, h => by simp only [List.cons_append, List.nil_append, Linked] at h; exact h.2.1
  | b :: bs, x, e, h => by
    simp only [List.cons_append, Linked] at h
    have ih := prevWalk_of_linked s bs b e (by simpa using h.2.2)
    rw [List.reverse_cons]
    exact prevWalk_snoc s _ _ b x ih h.2.1

theorem iter_of_chain (s : Store) : ∀ (as : List Nat) (a f : Nat),
    NextChain s a as → 0 ∉ as → as.length ≤ f → iter f s a = as.map s.key
  | [], a, f, h, _, _ => by
    simp only [NextChain] at h; subst h
    cases f <;> simp [iter]
  | b :: bs, a, f, h, h0, hf => by
    obtain ⟨rfl, h'⟩ := h
    obtain ⟨f', rfl⟩ : ∃ f', f = f' + 1 := ⟨f - 1, by simp at hf; omega⟩
    have hb : a ≠ 0 := fun e => h0 (by simp [e])
    simp only [iter, hb, ↓reduceIte, List.map_cons, List.cons.injEq, true_and]
    exact iter_of_chain s bs _ f' h' (fun h => h0 (by simp [h])) (by simp at hf; omega)

theorem reversed_of_walk (s : Store) : ∀ (l : List Nat) (a f : Nat),
    PrevWalk s a l 0 → 0 ∉ l → l.length ≤ f → reversed f s a = l.map s.key
  | [], a, f, h, _, _ => by
    simp only [PrevWalk] at h; subst h
    cases f <;> simp [reversed]
  | b :: bs, a, f, h, h0, hf => by
    obtain ⟨rfl, h'⟩ := h
    obtain ⟨f', rfl⟩ : ∃ f', f = f' + 1 := ⟨f - 1, by simp at hf; omega⟩
    have hb : a ≠ 0 := fun e => h0 (by simp [e])
    simp only [reversed, hb, ↓reduceIte, List.map_cons, List.cons.injEq, true_and]
    exact reversed_of_walk s bs _ f' h' (fun h => h0 (by simp [h])) (by simp at hf; omega)

theorem reprA_toList {s : Store} {as L : List Nat} (h : ReprA s as L) :
    toList s = L ∧ toListRev s = L.reverse := by
  constructor
  · unfold toList
    rw [iter_of_chain s as _ _ (nextChain_of_linked s as 0 h.linked) h.nz (Nat.le_of_lt h.len), h.keys]
  · unfold toListRev
    have hw := prevWalk_of_linked s as 0 0 h.linked
    rw [reversed_of_walk s as.reverse _ _ hw (by simpa using h.nz) (by simpa using Nat.le_of_lt h.len),
      ← h.keys, List.map_reverse]

theorem reprA_empty : ReprA empty [] [] where
  linked := by simp [Linked, empty]
  keys := rfl
  nodup := List.nodup_nil
  nz := by simp
  bound := by simp
  len := by simp [empty]
  knodup := List.nodup_nil
  mapIn := by simp
  mapOut := by simp [empty]

/-- in a represented store the map tells membership -/
theorem reprA_map_some {s : Store} {as L : List Nat} (h : ReprA s as L) (k : Nat) :
    (k ∈ L → ∃ a ∈ as, s.key a = k ∧ s.map k = some a) ∧ (k ∉ L → s.map k = none) := by
  refine ⟨?_, h.mapOut k⟩
  intro hk
  rw [← h.keys] at hk
  obtain ⟨a, ha, rfl⟩ := List.mem_map.mp hk
  exact ⟨a, ha, rfl, h.mapIn a ha⟩

theorem reprA_add {s : Store} {as L : List Nat} (h : ReprA s as L) (k : Nat) :
    (k ∈ L → add k s = s) ∧ (k ∉ L → ReprA (add k s) (as ++ [s.fresh]) (L ++ [k])) := by
  constructor
  · intro hk
    obtain ⟨a, _, _, hm⟩ := (reprA_map_some h k).1 hk
    unfold add; rw [hm]
  · intro hk
    have hm : s.map k = none := h.mapOut k hk
    have hfresh_pos : 0 < s.fresh := Nat.lt_of_le_of_lt (Nat.zero_le _) h.len
    have hfa : s.fresh ∉ as := fun hm' => Nat.lt_irrefl _ (h.bound _ hm')
    have hf0 : s.fresh ≠ 0 := Nat.ne_of_gt hfresh_pos
    -- the ring before: P0 ++ [p] ++ [0] with p = the last cell (the sentinel itself when empty)
    obtain ⟨P0, p, hP⟩ : ∃ P0 p, 0 :: as = P0 ++ [p] := by
      rcases List.eq_nil_or_concat (0 :: as) with h' | ⟨P0, p, h'⟩
      · simp at h'
      · exact ⟨P0, p, by simpa using h'⟩
    have hlinked := h.linked
    have hring : 0 :: as ++ [0] = P0 ++ p :: 0 :: [] := by
      rw [show 0 :: as ++ [0] = (0 :: as) ++ [0] by rfl, hP]; simp
    rw [hring, linked_split] at hlinked
    obtain ⟨hL1, hnp, hp0, _⟩ := hlinked
    have hPnd : (P0 ++ [p]).Nodup := by
      rw [← hP]; exact List.nodup_cons.mpr ⟨h.nz, h.nodup⟩
    have hpP0 : p ∉ P0 := by
      have := List.nodup_append.mp hPnd
      intro hm'; exact this.2.2 p hm' p (by simp) rfl
    have hpmem : p ∈ 0 :: as := by rw [hP]; simp
    have hpf : p ≠ s.fresh := by
      intro e
      rcases List.mem_cons.mp hpmem with h0 | h1
      · exact hf0 (e ▸ h0)
      · exact hfa (e ▸ h1)
    have hadd : add k s = { key := upd s.key s.fresh k
                            prev := upd (upd s.prev s.fresh p) 0 s.fresh
                            next := upd (upd s.next s.fresh 0) p s.fresh
                            map := upd s.map k (some s.fresh)
                            fresh := s.fresh + 1 } := by
      unfold add; rw [hm]; simp only [hp0]
    rw [hadd]
    refine { linked := ?_, keys := ?_, nodup := ?_, nz := ?_, bound := ?_, len := ?_, knodup := ?_,
             mapIn := ?_, mapOut := ?_ }
    · -- the new ring: P0 ++ [p] ++ [fresh, 0]
      have hring' : 0 :: (as ++ [s.fresh]) ++ [0] = P0 ++ p :: s.fresh :: [0] := by
        rw [show 0 :: (as ++ [s.fresh]) ++ [0] = (0 :: as) ++ [s.fresh, 0] by simp, hP]; simp
      rw [hring', linked_split]
      refine ⟨?_, ?_, ?_, ?_⟩
      · apply linked_congr (P0 ++ [p]) _ _ hL1
        · intro x hx
          simp only [List.dropLast_concat] at hx
          have hxp : x ≠ p := fun e => hpP0 (e ▸ hx)
          have hxf : x ≠ s.fresh := by
            intro e
            have : x ∈ 0 :: as := by rw [hP]; simp [hx]
            rcases List.mem_cons.mp this with h0 | h1
            · exact hf0 (e ▸ h0)
            · exact hfa (e ▸ h1)
          simp [upd, hxp, hxf]
        · intro y hy
          have hyas : y ∈ as := by
            have : (P0 ++ [p]).tail = as := by rw [← hP]; rfl
            rw [this] at hy; exact hy
          have hy0 : y ≠ 0 := fun e => h.nz (e ▸ hyas)
          have hyf : y ≠ s.fresh := fun e => hfa (e ▸ hyas)
          simp [upd, hy0, hyf]
      · simp [upd]
      · simp [upd, hf0]
      · simp only [Linked, and_true]
        refine ⟨?_, by simp [upd]⟩
        have : s.fresh ≠ p := fun e => hpf e.symm
        simp [upd, this]
    · simp only [List.map_append, List.map_cons, List.map_nil, upd, ↓reduceIte]
      rw [← h.keys]
      congr 1
      apply List.map_congr_left
      intro a ha
      have : a ≠ s.fresh := fun e => hfa (e ▸ ha)
      simp [upd, this]
    · exact List.nodup_append.mpr ⟨h.nodup, by simp, by
        intro a ha b hb
        simp only [List.mem_singleton] at hb
        subst hb
        exact fun e => hfa (e ▸ ha)⟩
    · simp only [List.mem_append, List.mem_singleton, not_or]
      exact ⟨h.nz, fun e => hf0 e.symm⟩
    · intro a ha
      simp only [List.mem_append, List.mem_singleton] at ha
      rcases ha with ha | rfl
      · exact Nat.lt_succ_of_lt (h.bound a ha)
      · exact Nat.lt_succ_self _
    · simp only [List.length_append, List.length_singleton]
      exact Nat.succ_lt_succ h.len
    · exact List.nodup_append.mpr ⟨h.knodup, by simp, by
        intro a ha b hb
        simp only [List.mem_singleton] at hb
        subst hb
        exact fun e => hk (e ▸ ha)⟩
    · intro a ha
      simp only [List.mem_append, List.mem_singleton] at ha
      rcases ha with ha | rfl
      · have haf : a ≠ s.fresh := fun e => hfa (e ▸ ha)
        have hka : s.key a ≠ k := by
          intro e
          apply hk
          rw [← h.keys, ← e]
          exact List.mem_map.mpr ⟨a, ha, rfl⟩
        simp only [upd, haf, ↓reduceIte, hka]
        exact h.mapIn a ha
      · simp [upd]
    · intro k' hk'
      simp only [List.mem_append, List.mem_singleton, not_or] at hk'
      simp only [upd, hk'.2, ↓reduceIte]
      exact h.mapOut k' hk'.1

theorem reprA_discard {s : Store} {as L : List Nat} (h : ReprA s as L) (k : Nat) :
    (k ∉ L → discard k s = s) ∧
    (k ∈ L → ∃ as1 a as2, as = as1 ++ a :: as2 ∧ s.key a = k ∧ ReprA (discard k s) (as1 ++ as2) (L.erase k)) := by
  constructor
  · intro hk
    unfold discard; rw [h.mapOut k hk]
  · intro hk
    obtain ⟨a, ha, hka, hm⟩ := (reprA_map_some h k).1 hk
    obtain ⟨as1, as2, has⟩ := List.append_of_mem ha
    refine ⟨as1, a, as2, has, hka, ?_⟩
    subst has
    have hnd := h.nodup
    have ha1 : a ∉ as1 := by
      have := List.nodup_append.mp hnd
      intro hm'; exact this.2.2 a hm' a (by simp) rfl
    have hnd2 : (a :: as2).Nodup := (List.nodup_append.mp hnd).2.1
    have ha2 : a ∉ as2 := (List.nodup_cons.mp hnd2).1
    have h12 : ∀ x ∈ as1, x ∉ as2 := by
      intro x hx hx2
      exact (List.nodup_append.mp hnd).2.2 x hx x (by simp [hx2]) rfl
    have hz1 : 0 ∉ as1 := fun hm' => h.nz (by simp [hm'])
    have hz2 : 0 ∉ as2 := fun hm' => h.nz (by simp [hm'])
    have ha0 : a ≠ 0 := fun e => h.nz (by simp [e])
    -- P = 0 :: as1 = P0 ++ [p]; N = as2 ++ [0] = n :: N0
    obtain ⟨P0, p, hP⟩ : ∃ P0 p, 0 :: as1 = P0 ++ [p] := by
      rcases List.eq_nil_or_concat (0 :: as1) with h' | ⟨P0, p, h'⟩
      · simp at h'
      · exact ⟨P0, p, by simpa using h'⟩
    obtain ⟨n, N0, hN⟩ : ∃ n N0, as2 ++ [0] = n :: N0 := by
      cases as2 with
      | nil => exact ⟨0, [], rfl⟩
      | cons b bs => exact ⟨b, bs ++ [0], rfl⟩
    have hring : 0 :: (as1 ++ a :: as2) ++ [0] = P0 ++ p :: a :: (n :: N0) := by
      rw [show 0 :: (as1 ++ a :: as2) ++ [0] = (0 :: as1) ++ a :: (as2 ++ [0]) by simp, hP, hN]; simp
    have hlinked := h.linked
    rw [hring, linked_split] at hlinked
    obtain ⟨hL1, hnp, hpa, hL2⟩ := hlinked
    simp only [Linked] at hL2
    obtain ⟨hna, hpn, hL3⟩ := hL2
    have hdis : discard k s = { unlink s a with map := upd s.map k none } := by
      unfold discard; rw [hm]
    have hPnd : (P0 ++ [p]).Nodup := by
      rw [← hP]; exact List.nodup_cons.mpr ⟨hz1, (List.nodup_append.mp hnd).1⟩
    have hpP0 : p ∉ P0 := by
      have := List.nodup_append.mp hPnd
      intro hm'; exact this.2.2 p hm' p (by simp) rfl
    have hNnd : (n :: N0).Nodup := by
      rw [← hN]
      exact List.nodup_append.mpr ⟨(List.nodup_cons.mp hnd2).2, by simp, by
        intro x hx y hy
        simp only [List.mem_singleton] at hy
        subst hy
        exact fun e => hz2 (e ▸ hx)⟩
    have hpmem : p ∈ 0 :: as1 := by rw [hP]; simp
    have hnmem : n ∈ as2 ++ [0] := by rw [hN]; simp
    rw [hdis]
    refine { linked := ?_, keys := ?_, nodup := ?_, nz := ?_, bound := ?_, len := ?_, knodup := ?_,
             mapIn := ?_, mapOut := ?_ }
    · have hring' : 0 :: (as1 ++ as2) ++ [0] = P0 ++ p :: n :: N0 := by
        rw [show 0 :: (as1 ++ as2) ++ [0] = (0 :: as1) ++ (as2 ++ [0]) by simp, hP, hN]; simp
      rw [hring', linked_split]
      refine ⟨?_, ?_, ?_, ?_⟩
      · apply linked_congr (P0 ++ [p]) _ _ hL1
        · intro x hx
          simp only [List.dropLast_concat] at hx
          have hxp : x ≠ p := fun e => hpP0 (e ▸ hx)
          simp [unlink, hpa, hxp]
        · intro y hy
          have hyas : y ∈ as1 := by
            have : (P0 ++ [p]).tail = as1 := by rw [← hP]; rfl
            rw [this] at hy; exact hy
          have hyn : y ≠ n := by
            intro e
            rw [e] at hyas
            rcases List.mem_append.mp hnmem with h2 | h0
            · exact h12 n hyas h2
            · simp only [List.mem_singleton] at h0; exact hz1 (h0 ▸ hyas)
          simp [unlink, hna, hyn]
      · simp [unlink, hpa, hna]
      · simp [unlink, hpa, hna]
      · apply linked_congr (n :: N0) _ _ hL3
        · intro x hx
          have hx2 : x ∈ as2 := by
            have : (n :: N0).dropLast = as2 := by rw [← hN]; simp
            rw [this] at hx; exact hx
          have hxp : x ≠ p := by
            intro e
            rw [e] at hx2
            rcases List.mem_cons.mp hpmem with h0 | h1
            · exact hz2 (h0 ▸ hx2)
            · exact h12 p h1 hx2
          simp [unlink, hpa, hxp]
        · intro y hy
          simp only [List.tail_cons] at hy
          have hyn : y ≠ n := fun e => (List.nodup_cons.mp hNnd).1 (e ▸ hy)
          simp [unlink, hna, hyn]
    · simp only [unlink]
      rw [← h.keys, ← hka]
      simp only [List.map_append, List.map_cons]
      have hk1 : s.key a ∉ as1.map s.key := by
        intro hm'
        have hkn := h.knodup
        rw [← h.keys] at hkn
        simp only [List.map_append, List.map_cons] at hkn
        exact (List.nodup_append.mp hkn).2.2 _ hm' _ (by simp) rfl
      rw [List.erase_append_right _ hk1, List.erase_cons_head]
    · exact List.nodup_append.mpr ⟨(List.nodup_append.mp hnd).1, (List.nodup_cons.mp hnd2).2,
        fun x hx y hy e => h12 x hx (e ▸ hy)⟩
    · simp only [List.mem_append, not_or]; exact ⟨hz1, hz2⟩
    · intro x hx
      simp only [unlink]
      apply h.bound
      simp only [List.mem_append, List.mem_cons] at hx ⊢
      rcases hx with hx | hx
      · exact Or.inl hx
      · exact Or.inr (Or.inr hx)
    · simp only [unlink]
      have := h.len
      simp only [List.length_append, List.length_cons] at this ⊢
      omega
    · exact (List.erase_sublist).nodup h.knodup
    · intro x hx
      have hxa : x ∈ as1 ++ a :: as2 := by
        simp only [List.mem_append, List.mem_cons] at hx ⊢
        rcases hx with hx | hx
        · exact Or.inl hx
        · exact Or.inr (Or.inr hx)
      have hxne : x ≠ a := by
        intro e
        simp only [List.mem_append] at hx
        rcases hx with hx | hx
        · exact ha1 (e ▸ hx)
        · exact ha2 (e ▸ hx)
      have hkx : s.key x ≠ k := by
        intro e
        have h1 := h.mapIn x hxa
        rw [e, hm] at h1
        exact hxne (Option.some.inj h1).symm
      simp only [unlink, upd, hkx, ↓reduceIte]
      exact h.mapIn x hxa
    · intro k' hk'
      simp only [upd]
      by_cases e : k' = k
      · simp [e]
      · simp only [e, ↓reduceIte]
        apply h.mapOut
        intro hm'
        exact hk' ((List.mem_erase_of_ne e).mpr hm')

theorem repr_discard {s : Store} {L : List Nat} (h : Repr s L) (k : Nat) : Repr (discard k s) (L.erase k) := by
  obtain ⟨as, ha⟩ := h
  by_cases hk : k ∈ L
  · obtain ⟨as1, a, as2, _, _, h'⟩ := (reprA_discard ha k).2 hk
    exact ⟨_, h'⟩
  · rw [(reprA_discard ha k).1 hk, List.erase_of_not_mem hk]; exact ⟨as, ha⟩

theorem repr_foldl_discard : ∀ (ks : List Nat) (s : Store) (L : List Nat), Repr s L →
    Repr (ks.foldl (fun st k => discard k st) s) (ks.foldl (fun l k => l.erase k) L)
  | [], _, _, h => h
  | k :: ks, s, L, h => repr_foldl_discard ks _ _ (repr_discard h k)

theorem foldl_erase_filter : ∀ (ks L : List Nat), L.Nodup →
    ks.foldl (fun l k => l.erase k) L = L.filter (fun x => !(decide (x ∈ ks)))
  | [], L, _ => by
    simp only [List.foldl_nil, List.not_mem_nil, decide_false, Bool.not_false]
    exact (List.filter_eq_self.mpr (fun _ _ => rfl)).symm
  | k :: ks, L, h => by
    have hnd : (L.filter (fun x => x != k)).Nodup := List.Sublist.nodup List.filter_sublist h
    simp only [List.foldl_cons]
    rw [h.erase_eq_filter k, foldl_erase_filter ks _ hnd, List.filter_filter]
    apply List.filter_congr
    intro x _
    by_cases hx : x = k <;> simp [hx]

/-- C17 audit #1: under `Repr`, iteration with removal of the visited elements visits exactly `L` AND leaves a store that
    again satisfies `Repr`, denoting `L` without the removed elements -/
theorem reprA_iterRem (p : Nat → Bool) {s : Store} {as L : List Nat} (h : ReprA s as L) :
    (iterRem p s.fresh s (s.next 0)).1 = L ∧
    Repr (iterRem p s.fresh s (s.next 0)).2 (L.filter (fun k => !p k)) := by
  have hboth := iterRem_both_fuel p as s (s.next 0) s.fresh (nextChain_of_linked s as 0 h.linked)
    (prevChain_of_linked s as 0 h.linked) h.nodup h.nz (by rw [h.keys]; exact h.knodup) h.mapIn
    (by
      intro b bs hbs
      subst hbs
      have hl := h.linked
      simp only [List.cons_append, Linked] at hl
      rw [hl.2.1]
      exact fun hm => h.nz (by simp [hm]))
    h.len
  rw [h.keys] at hboth
  refine ⟨hboth.1, ?_⟩
  rw [hboth.2]
  have hr := repr_foldl_discard (L.filter p) s L ⟨as, h⟩
  rw [foldl_erase_filter _ _ h.knodup] at hr
  have hf : L.filter (fun x => !(decide (x ∈ L.filter p))) = L.filter (fun k => !p k) := by
    apply List.filter_congr
    intro x hx
    simp [List.mem_filter, hx]
  rw [hf] at hr
  exact hr

/-! ### reverse iteration with removal: the ring read backwards is a ring (prev and next swapped) -/

/-- the same cells with the two pointer fields swapped -/
def flip (s : Store) : Store := { s with prev := s.next, next := s.prev }

theorem flip_flip (s : Store) : flip (flip s) = s := rfl

theorem discard_flip (k : Nat) (s : Store) : discard k (flip s) = flip (discard k s) := by
  unfold discard
  show (match s.map k with | none => flip s | some a => _) = _
  cases s.map k <;> rfl

/-- walking `prev` with removal is walking `next` with removal on the flipped ring -/
theorem reversedRem_flip (p : Nat → Bool) : ∀ (f : Nat) (s : Store) (a : Nat),
    reversedRem p f s a = ((iterRem p f (flip s) a).1, flip (iterRem p f (flip s) a).2)
  | 0, _, _ => rfl
  | f + 1, s, a => by
    unfold reversedRem iterRem
    by_cases h0 : a = 0
    · simp [h0]; rfl
    · simp only [h0, ↓reduceIte]
      have hkey : (flip s).key = s.key := rfl
      by_cases hp : p (s.key a) = true
      · simp only [hkey, hp, ↓reduceIte]
        rw [reversedRem_flip p f (discard (s.key a) s) ((discard (s.key a) s).prev a), discard_flip]
        rfl
      · simp only [hkey, hp, Bool.false_eq_true, ↓reduceIte]
        rw [reversedRem_flip p f s (s.prev a)]
        rfl

theorem linked_snoc (t : Store) : ∀ (m : List Nat) (y x : Nat), Linked t (m ++ [y]) → t.next y = x → t.prev x = y →
    Linked t (m ++ [y] ++ [x])
  | [], _, _, _, h1, h2 => ⟨h1, h2, trivial⟩
  | [_], _, _, h, h1, h2 => by
    obtain ⟨ha, hb, _⟩ := h
    exact ⟨ha, hb, h1, h2, trivial⟩
  | a :: b :: m, y, x, h, h1, h2 => by
    obtain ⟨ha, hb, hr⟩ := h
    exact ⟨ha, hb, linked_snoc t (b :: m) y x hr h1 h2⟩

theorem linked_reverse (s : Store) : ∀ (l : List Nat), Linked s l → Linked (flip s) l.reverse
  | [], _ => trivial
  | [_], _ => trivial
  | x :: y :: r, h => by
    obtain ⟨h1, h2, hr⟩ := h
    have ih := linked_reverse s (y :: r) hr
    simp only [List.reverse_cons] at ih ⊢
    exact linked_snoc (flip s) r.reverse y x ih h2 h1

/-- the flipped ring denotes the reversed list -/
theorem reprA_flip {s : Store} {as L : List Nat} (h : ReprA s as L) : ReprA (flip s) as.reverse L.reverse where
  linked := by
    have := linked_reverse s (0 :: as ++ [0]) h.linked
    simpa using this
  keys := by rw [List.map_reverse]; exact congrArg List.reverse h.keys
  nodup := (List.reverse_perm as).nodup_iff.mpr h.nodup
  nz := fun hm => h.nz (List.mem_reverse.mp hm)
  bound := fun a ha => h.bound a (List.mem_reverse.mp ha)
  len := by rw [List.length_reverse]; exact h.len
  knodup := (List.reverse_perm L).nodup_iff.mpr h.knodup
  mapIn := fun a ha => h.mapIn a (List.mem_reverse.mp ha)
  mapOut := fun k hk => h.mapOut k (fun hm => hk (List.mem_reverse.mpr hm))

theorem repr_flip {s : Store} {L : List Nat} (h : Repr s L) : Repr (flip s) L.reverse :=
  let ⟨_, ha⟩ := h
  ⟨_, reprA_flip ha⟩

/-- REVERSE iteration with removal of the visited elements, under `Repr`: it visits exactly `L` backwards AND leaves a store
    that again satisfies `Repr`, denoting `L` without the removed elements -/
theorem reprA_reversedRem (p : Nat → Bool) {s : Store} {as L : List Nat} (h : ReprA s as L) :
    (reversedRem p s.fresh s (s.prev 0)).1 = L.reverse ∧
    Repr (reversedRem p s.fresh s (s.prev 0)).2 (L.filter (fun k => !p k)) := by
  rw [reversedRem_flip]
  have hf := reprA_iterRem p (reprA_flip h)
  refine ⟨hf.1, ?_⟩
  have := repr_flip hf.2
  rw [List.filter_reverse, List.reverse_reverse] at this
  exact this

/-- C17 audit #2: the observers read off the pointers agree with the list -/
theorem reprA_observers {s : Store} {as L : List Nat} (h : ReprA s as L) :
    ptrFirst s = L.head? ∧ ptrLast s = L.getLast? ∧ (∀ k, ptrMem k s = true ↔ k ∈ L) ∧ len s = L.length := by
  refine ⟨?_, ?_, ?_, ?_⟩
  · unfold ptrFirst
    cases has : as with
    | nil =>
      have hl := h.linked
      simp only [has, List.cons_append, List.nil_append, Linked] at hl
      rw [← h.keys, has]; simp [hl.1]
    | cons a r =>
      have hl := h.linked
      simp only [has, List.cons_append, Linked] at hl
      have ha0 : a ≠ 0 := fun e => h.nz (by rw [has]; simp [e])
      rw [← h.keys, has, hl.1]; simp [ha0]
  · unfold ptrLast
    have hw := prevWalk_of_linked s as 0 0 h.linked
    rw [← h.keys, List.getLast?_map, ← List.head?_reverse]
    cases hr : as.reverse with
    | nil =>
      rw [hr] at hw
      simp only [PrevWalk] at hw
      simp [hw]
    | cons b bs =>
      rw [hr] at hw
      obtain ⟨hb, _⟩ := hw
      have hbm : b ∈ as := by
        have : b ∈ as.reverse := by rw [hr]; simp
        simpa using this
      have hb0 : b ≠ 0 := fun e => h.nz (e ▸ hbm)
      rw [hb]; simp [hb0]
  · intro k
    unfold ptrMem
    constructor
    · intro hk
      apply Classical.byContradiction
      intro hn
      rw [h.mapOut k hn] at hk
      simp at hk
    · intro hk
      obtain ⟨a, _, _, hm⟩ := (reprA_map_some h k).1 hk
      simp [hm]
  · unfold len; rw [(reprA_toList h).1]

/-- every state reachable by add / discard from the empty set is represented, and denotes the list the
    abstract operations compute -/
theorem repr_runP_from : ∀ (ops : List POp) (s : Store) (L : List Nat), Repr s L →
    Repr (ops.foldl (fun s op => applyP op s) s) (ops.foldl (fun l op => absP op l) L)
  | [], _, _, h => h
  | op :: r, s, L, ⟨as, h⟩ => by
    apply repr_runP_from r
    cases op with
    | add k =>
      simp only [applyP, absP]
      by_cases hk : k ∈ L
      · rw [(reprA_add h k).1 hk, if_pos hk]; exact ⟨as, h⟩
      · rw [if_neg hk]; exact ⟨_, (reprA_add h k).2 hk⟩
    | discard k =>
      simp only [applyP, absP]
      by_cases hk : k ∈ L
      · obtain ⟨as1, a, as2, _, _, h'⟩ := (reprA_discard h k).2 hk
        exact ⟨_, h'⟩
      · rw [(reprA_discard h k).1 hk, List.erase_of_not_mem hk]; exact ⟨as, h⟩
    | iterRm ks =>
      simp only [applyP, absP]
      exact (reprA_iterRem (fun k => decide (k ∈ ks)) h).2
    | riterRm ks =>
      simp only [applyP, absP]
      exact (reprA_reversedRem (fun k => decide (k ∈ ks)) h).2

/-- `Repr` gives the hypotheses of the iteration theorem (with the fuel the driver uses) -/
theorem iterRem_of_reprA (p : Nat → Bool) {s : Store} {as L : List Nat} (h : ReprA s as L) :
    (iterRem p s.fresh s (s.next 0)).1 = L := by
  rw [← h.keys]
  apply iterRem_spec_fuel p as s (s.next 0) s.fresh (nextChain_of_linked s as 0 h.linked)
    (prevChain_of_linked s as 0 h.linked) h.nodup h.nz (by rw [h.keys]; exact h.knodup) h.mapIn _ h.len
  intro b bs hbs
  subst hbs
  have hl := h.linked
  simp only [List.cons_append, Linked] at hl
  rw [hl.2.1]
  exact fun hm => h.nz (by simp [hm])

end Pyx.OSetPtr
