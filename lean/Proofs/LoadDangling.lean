import Proofs.LoadChain

/-! C03: what an identifying attribute that is itself referential reads (open findings `api-dangling-chained-key`
    and `api-cardinality-rejected` as statements about the model). -/

namespace Pyx.Load

/-- the metamodel carries, for every association, the join of its classes' rows (as every loaded metamodel does:
    `buildCore_assocs`) -/
def Joined (m : Model) (as : List AssocStmt) : Prop :=
  m.assocs = as.map (fun a => (a, nestedJoin a (rowsOf m.classes a.srcKind) (rowsOf m.classes a.tgtKind)))

theorem joined_fst {m : Model} {as : List AssocStmt} (h : Joined m as) : m.assocs.map (·.1) = as := by
  rw [h, List.map_map]
  exact List.map_id' _ |>.symm ▸ (by
    induction as with
    | nil => rfl
    | cons a as ih => simp)

/-- a referential attribute of a row that NO association using it links reads `None` — whatever value the row
    was created with (the code deletes the stored value and reads through the link) -/
theorem unlinked_reads_none (m : Model) (as : List AssocStmt) (hj : Joined m as) (K : String) (j : Nat) (x : String)
    (hx : x ∈ referential as K)
    (hun : ∀ b ∈ as, b.srcKind = K → x ∈ (keyPairs b).map (·.1) →
      (nestedJoin b (rowsOf m.classes b.srcKind) (rowsOf m.classes b.tgtKind)).tgt j = []) (n : Nat) :
    readAttr m (n + 1) K j x = some .none := by
  have hr : (referential (m.assocs.map (·.1)) K).contains x = true := by
    rw [joined_fst hj]; simpa using hx
  simp only [readAttr, hr, if_true]
  rcases readChain_cases (readAttr m n) K j x m.assocs.reverse with ⟨h1, _⟩ | ⟨p, hp, hpk, tk, u, hmem, hhead, _⟩
  · exact h1
  · exfalso
    rw [List.mem_reverse, hj] at hp
    obtain ⟨b, hb, rfl⟩ := List.mem_map.mp hp
    simp only at hpk hmem hhead
    have := hun b hb hpk (List.mem_map.mpr ⟨(x, tk), hmem, rfl⟩)
    rw [this] at hhead
    cases hhead

/-- ... and, when the identifying attributes it is read through are stored ones (a chain of depth one), a row that
    SOME association using the attribute links reads the value it was created with -/
theorem linked_reads_value (m : Model) (as : List AssocStmt) (hj : Joined m as) (K : String) (j : Nat) (r : Row)
    (hr : (rowsOf m.classes K)[j]? = some r) (x : String) (hx : x ∈ referential as K)
    (hdepth : ∀ b ∈ as, b.srcKind = K → ∀ tk, (x, tk) ∈ keyPairs b → tk ∉ referential as b.tgtKind)
    (hlinked : ∃ b ∈ as, b.srcKind = K ∧ x ∈ (keyPairs b).map (·.1) ∧
      (nestedJoin b (rowsOf m.classes b.srcKind) (rowsOf m.classes b.tgtKind)).tgt j ≠ []) (n : Nat) :
    readAttr m (n + 2) K j x = some (r.get x) := by
  have hrf : (referential (m.assocs.map (·.1)) K).contains x = true := by
    rw [joined_fst hj]; simpa using hx
  rw [readAttr]
  simp only [hrf, if_true]
  rcases readChain_cases (readAttr m (n + 1)) K j x m.assocs.reverse with ⟨_, hall⟩ | ⟨p, hp, hpk, tk, u, hmem, hhead, hval⟩
  · exfalso
    obtain ⟨b, hb, hbk, hbx, hne⟩ := hlinked
    apply hne
    have hmemb : (b, nestedJoin b (rowsOf m.classes b.srcKind) (rowsOf m.classes b.tgtKind)) ∈ m.assocs.reverse := by
      rw [List.mem_reverse, hj]; exact List.mem_map.mpr ⟨b, hb, rfl⟩
    exact hall _ hmemb hbk hbx
  · rw [List.mem_reverse, hj] at hp
    obtain ⟨b, hb, rfl⟩ := List.mem_map.mp hp
    simp only at hpk hmem hhead hval
    rw [hval, readAttr_stored m n b.tgtKind u tk (by rw [joined_fst hj]; exact hdepth b hb hpk tk hmem)]
    have hu := List.mem_of_mem_head? hhead
    obtain ⟨s, t, hs, ht, hm⟩ := (mem_nestedJoin_tgt b _ _ j u).mp hu
    rw [hpk, hr] at hs
    cases hs
    rw [ht]
    simp only [Option.getD_some]
    exact congrArg some (((matchesB_iff b r t).mp hm (x, tk) hmem).2).symm

/-- **exactly when**: for a chain of depth one, a non-null identifying value that is itself referential can be read
    back from the row if and only if some association using it links the row -/
theorem chained_key_read_iff (m : Model) (as : List AssocStmt) (hj : Joined m as) (K : String) (j : Nat) (r : Row)
    (hr : (rowsOf m.classes K)[j]? = some r) (x : String) (hx : x ∈ referential as K)
    (hdepth : ∀ b ∈ as, b.srcKind = K → ∀ tk, (x, tk) ∈ keyPairs b → tk ∉ referential as b.tgtKind)
    (hnn : isNull (r.get x) = false) (n : Nat) :
    readAttr m (n + 2) K j x = some (r.get x) ↔
      ∃ b ∈ as, b.srcKind = K ∧ x ∈ (keyPairs b).map (·.1) ∧
        (nestedJoin b (rowsOf m.classes b.srcKind) (rowsOf m.classes b.tgtKind)).tgt j ≠ [] := by
  constructor
  · intro h
    apply Classical.byContradiction
    intro hno
    have hun : ∀ b ∈ as, b.srcKind = K → x ∈ (keyPairs b).map (·.1) →
        (nestedJoin b (rowsOf m.classes b.srcKind) (rowsOf m.classes b.tgtKind)).tgt j = [] := by
      intro b hb hk hxb
      apply Classical.byContradiction
      intro hne
      exact hno ⟨b, hb, hk, hxb, hne⟩
    rw [unlinked_reads_none m as hj K j x hx hun (n + 1)] at h
    simp only [Option.some.injEq] at h
    rw [← h] at hnn
    simp [isNull] at hnn
  · exact fun h => linked_reads_value m as hj K j r hr x hx hdepth h n

/-- the query of `new` over the referred class skips a row one of whose identifying attributes reads `None`:
    a referring row created with the (non-null) value is not related to it -/
theorem rowMatches_none_false (m : Model) (fuel : Nat) (kind : String) (j : Nat) (kwargs : List (String × Val))
    (hreads : ∀ kv ∈ kwargs, (readAttr m fuel kind j kv.1).isSome = true)
    (kv : String × Val) (hkv : kv ∈ kwargs) (hnone : readAttr m fuel kind j kv.1 = some .none)
    (hv : kv.2 ≠ .none) : rowMatches m fuel kind j kwargs = some false := by
  induction kwargs with
  | nil => cases hkv
  | cons q rest ih =>
    obtain ⟨qn, qv⟩ := q
    simp only [rowMatches]
    obtain ⟨w, hw⟩ := Option.isSome_iff_exists.mp (hreads (qn, qv) List.mem_cons_self)
    simp only at hw
    rw [hw]
    simp only
    by_cases he : (w == qv) = true
    · rw [if_pos he]
      rcases List.mem_cons.mp hkv with rfl | hin
      · exfalso
        simp only at hnone hv
        rw [hnone] at hw
        simp only [Option.some.injEq] at hw
        subst hw
        have hq : Val.none = qv := by simpa using he
        exact hv hq.symm
      · exact ih (fun kv' hkv' => hreads kv' (List.mem_cons_of_mem _ hkv')) hin
    · rw [if_neg he]

/-! ### cardinality -/

/-- **exactly when `relate` refuses**: the referred instance `t` already has a referring partner other than `s` and
    the source end is single-valued, or `s` already has a referred partner other than `t` and the target end is
    single-valued.  (The loader connects with `check=False`: `connect` always adds the pair.) -/
theorem relateAt_refuses_iff (a : AssocStmt) (L : Links) (t s : Nat) :
    (relateAt a L t s).2 = false ↔
      (s ∉ L.src t ∧ L.src t ≠ [] ∧ a.srcMany = false) ∨ (t ∉ L.tgt s ∧ L.tgt s ≠ [] ∧ a.tgtMany = false) := by
  unfold relateAt connectChecked
  by_cases h1 : s ∈ L.src t <;> by_cases h2 : t ∈ L.tgt s <;> by_cases h0 : L.src t ≠ [] ∧ a.srcMany = false <;>
    by_cases h3 : L.tgt s ≠ [] ∧ a.tgtMany = false <;> simp [h1, h2, h0, h3]

end Pyx.Load
