import PyxModel.Prebuild.Typing
import PyxModel.Prebuild.Supported

/-
  C06 helper lemmas: environment facts behind "a variable has the type first assigned to it", and the
  subtype lists of the tree model.
-/
namespace Pyx.Prebuild

theorem Env.find_declare_same (env : Env) (n : String) (v : VarInfo) : (env.declare n v).find n = some v := by
  cases env with
  | nil => simp [Env.declare, Env.find, List.lookup]
  | cons s rest => simp [Env.declare, Env.find, List.lookup]

theorem findVar_declare_same (c : TCtx) (env : Env) (n : String) (v : VarInfo) :
    findVar c (env.declare n v) n = some v := by
  simp [findVar, Env.find_declare_same]

theorem Env.find_declare_other (env : Env) (n m : String) (v : VarInfo) (h : n ≠ m) :
    (env.declare m v).find n = env.find n := by
  have hb : (n == m) = false := beq_false_of_ne h
  cases env with
  | nil => simp [Env.declare, Env.find, List.lookup, hb]
  | cons s rest => simp [Env.declare, Env.find, List.lookup, hb]

theorem findVar_declare_other (c : TCtx) (env : Env) (n m : String) (v : VarInfo) (h : n ≠ m) :
    findVar c (env.declare m v) n = findVar c env n := by
  simp [findVar, Env.find_declare_other env n m v h]

/-- one statement changes the environment by at most ONE declaration, of a name that was not visible, placed in
    the innermost scope; whatever its nested blocks declare is dropped when they end -/
def EnvStep (c : TCtx) (env env' : Env) : Prop :=
  env' = env ∨ ∃ m info, findVar c env m = none ∧ env' = env.declare m info

theorem declareIfNew_step (c : TCtx) (env : Env) (n : String) (many : Bool) (kl : String) :
    EnvStep c env (declareIfNew c env n many kl) := by
  unfold declareIfNew
  cases h : findVar c env n with
  | some v => exact Or.inl rfl
  | none =>
    simp only
    split
    · exact Or.inr ⟨n, _, h, rfl⟩
    · exact Or.inr ⟨n, _, h, rfl⟩

theorem declareEvent_step (c : TCtx) (env : Env) (v : String) : EnvStep c env (declareEvent c env v) := by
  unfold declareEvent
  cases h : findVar c env v with
  | some _ => exact Or.inl rfl
  | none => exact Or.inr ⟨v, _, h, rfl⟩

theorem walkStmt_step (c : TCtx) (env : Env) (s : Stmt) : EnvStep c env (walkStmt c env s).1 := by
  cases s with
  | assign l r =>
    simp only [walkStmt]
    cases hl : lvalueRoot l with
    | none => exact Or.inl rfl
    | some n =>
      simp only
      cases hf : findVar c env n with
      | some v => exact Or.inl rfl
      | none => exact Or.inr ⟨n, _, hf, rfl⟩
  | ret e => cases e <;> exact Or.inl rfl
  | create v kl => simpa [walkStmt] using declareIfNew_step c env v false kl
  | selFrom card v kl => simpa [walkStmt] using declareIfNew_step c env v (isMany card) kl
  | selFromW card v kl w => simpa [walkStmt] using declareIfNew_step c env v (isMany card) kl
  | selRel card v h chain => simpa [walkStmt] using declareIfNew_step c env v (isMany card) (lastKl chain)
  | selRelW card v h chain w => simpa [walkStmt] using declareIfNew_step c env v (isMany card) (lastKl chain)
  | forEach v s b => simpa [walkStmt] using declareIfNew_step c env v false _
  | createEvt v l m d tgt => simpa [walkStmt] using declareEvent_step c env v
  | _ => exact Or.inl rfl

theorem declare_shape (env : Env) (hne : env ≠ []) (m : String) (info : VarInfo) :
    ∃ top, env.declare m info = top :: env.tail := by
  cases env with
  | nil => exact absurd rfl hne
  | cons s rest => exact ⟨(m, info) :: s, rfl⟩

end Pyx.Prebuild
