import PyxModel.Prebuild.Typing
import PyxModel.Prebuild.Supported

/-
  C06 helper lemmas: environment facts behind "a variable has the type first assigned to it", and the
  subtype lists of the tree model.
-/
namespace Pyx.Prebuild

theorem Env.find_declare_same (env : Env) (n : String) (v : VarInfo) : (env.declare n v).find n = some v := by
  cases env with
  | nil => simp [Env.declare, Env.find, List.lookup]
  | cons s rest => simp [Env.declare, Env.find, List.lookup]

theorem findVar_declare_same (c : TCtx) (env : Env) (n : String) (v : VarInfo) :
    findVar c (env.declare n v) n = some v := by
  simp [findVar, Env.find_declare_same]

/-- the R603 subtype instances `accept_<Statement>Node` leaves related to the statement's ACT_SMT -/
def stmtSubtypes : Stmt → List String
  | .assign _ _ => ["ACT_AI"]
  | .ret _ => ["ACT_RET"]
  | .brk => ["ACT_BRK"]
  | .cont => ["ACT_CON"]
  | .ctl => ["ACT_CTL"]
  | .create _ _ => ["ACT_CR"]
  | .createNV _ => ["ACT_CNV"]
  | .delete _ => ["ACT_DEL"]
  | .relate _ _ _ _ => ["ACT_REL"]
  | .relateU _ _ _ _ _ => ["ACT_RU"]
  | .unrelate _ _ _ _ => ["ACT_UNR"]
  | .unrelateU _ _ _ _ _ => ["ACT_URU"]
  | .selFrom _ _ _ => ["ACT_FIO"]
  | .selFromW _ _ _ _ => ["ACT_FIW"]
  | .selRel _ _ _ _ => ["ACT_SEL"]
  | .selRelW _ _ _ _ _ => ["ACT_SEL"]
  | .forEach _ _ _ => ["ACT_FOR"]
  | .while_ _ _ => ["ACT_WHL"]
  | .if_ _ _ _ _ => ["ACT_IF"]
  | .invoke (.call .func _ _ _) => ["ACT_FNC"]
  | .invoke (.call .bridge _ _ _) => ["ACT_BRG"]
  | .invoke (.call .classop _ _ _) => ["ACT_TFM"]
  | .invoke (.icall _ _ _) => ["ACT_TFM"]
  | .invoke _ => []          -- `accept_InvocationStatementNode` of anything else relates no subtype

/-- R801 subtype instances created for the value of an expression, and those deleted again
    (`migrate_instance` / `migrate_instance_set` replace the V_TVL of a first-assigned instance variable) -/
def valCreated (c : TCtx) (env : Env) (migrates : Bool) (e : Expr) : List String :=
  if migrates then ["V_TVL", kindOf c env e] else [kindOf c env e]

def valDeleted (migrates : Bool) : List String := if migrates then ["V_TVL"] else []

def valSubtypes (c : TCtx) (env : Env) (migrates : Bool) (e : Expr) : List String :=
  (valDeleted migrates).foldl (fun acc d => acc.erase d) (valCreated c env migrates e)

theorem stmtSubtypes_one (ctx : Ctx) (s : Stmt) (h : wfStmt ctx s = true) : (stmtSubtypes s).length = 1 := by
  cases s with
  | invoke e =>
    have hw : isInvocation e = true ∧ wfExpr ctx e = true := by simpa [wfStmt] using h
    cases e with
    | call k a b ps => cases k <;> simp [isInvocation] at hw <;> simp [stmtSubtypes]
    | icall hh n ps => simp [stmtSubtypes]
    | _ => simp [isInvocation] at hw
  | _ => simp [stmtSubtypes]

theorem valSubtypes_one (c : TCtx) (env : Env) (migrates : Bool) (e : Expr) :
    (valSubtypes c env migrates e).length = 1 := by
  cases migrates <;> simp [valSubtypes, valCreated, valDeleted]

end Pyx.Prebuild
