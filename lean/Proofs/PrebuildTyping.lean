import PyxModel.Prebuild.Typing
import PyxModel.Prebuild.Supported

/-
  C06 helper lemmas: environment facts behind "a variable has the type first assigned to it", and the
  subtype lists of the tree model.
-/
namespace Pyx.Prebuild

theorem Env.find_declare_same (env : Env) (n : String) (v : VarInfo) : (env.declare n v).find n = some v := by
  cases env with
  | nil => simp [Env.declare, Env.find, List.lookup]
  | cons s rest => simp [Env.declare, Env.find, List.lookup]

theorem findVar_declare_same (c : TCtx) (env : Env) (n : String) (v : VarInfo) :
    findVar c (env.declare n v) n = some v := by
  simp [findVar, Env.find_declare_same]

theorem Env.find_declare_other (env : Env) (n m : String) (v : VarInfo) (h : n ≠ m) :
    (env.declare m v).find n = env.find n := by
  have hb : (n == m) = false := beq_false_of_ne h
  cases env with
  | nil => simp [Env.declare, Env.find, List.lookup, hb]
  | cons s rest => simp [Env.declare, Env.find, List.lookup, hb]

theorem findVar_declare_other (c : TCtx) (env : Env) (n m : String) (v : VarInfo) (h : n ≠ m) :
    findVar c (env.declare m v) n = findVar c env n := by
  simp [findVar, Env.find_declare_other env n m v h]

/-- one statement changes the environment by at most ONE declaration, of a name that was not visible, placed in
    the innermost scope; whatever its nested blocks declare is dropped when they end -/
def EnvStep (c : TCtx) (env env' : Env) : Prop :=
  env' = env ∨ ∃ m info, findVar c env m = none ∧ env' = env.declare m info

theorem declareIfNew_step (c : TCtx) (env : Env) (n : String) (many : Bool) (kl : String) :
    EnvStep c env (declareIfNew c env n many kl) := by
  unfold declareIfNew
  cases h : findVar c env n with
  | some v => exact Or.inl rfl
  | none =>
    simp only
    split
    · exact Or.inr ⟨n, _, h, rfl⟩
    · exact Or.inr ⟨n, _, h, rfl⟩

theorem declareEvent_step (c : TCtx) (env : Env) (v : String) : EnvStep c env (declareEvent c env v) := by
  unfold declareEvent
  cases h : findVar c env v with
  | some _ => exact Or.inl rfl
  | none => exact Or.inr ⟨v, _, h, rfl⟩

theorem walkStmt_step (c : TCtx) (env : Env) (s : Stmt) : EnvStep c env (walkStmt c env s).1 := by
  cases s with
  | assign l r =>
    simp only [walkStmt]
    cases hl : lvalueRoot l with
    | none => exact Or.inl rfl
    | some n =>
      simp only
      cases hf : findVar c env n with
      | some v => exact Or.inl rfl
      | none => exact Or.inr ⟨n, _, hf, rfl⟩
  | ret e => cases e <;> exact Or.inl rfl
  | create v kl => simpa [walkStmt] using declareIfNew_step c env v false kl
  | selFrom card v kl => simpa [walkStmt] using declareIfNew_step c env v (isMany card) kl
  | selFromW card v kl w => simpa [walkStmt] using declareIfNew_step c env v (isMany card) kl
  | selRel card v h chain => simpa [walkStmt] using declareIfNew_step c env v (isMany card) (lastKl chain)
  | selRelW card v h chain w => simpa [walkStmt] using declareIfNew_step c env v (isMany card) (lastKl chain)
  | forEach v s b => simpa [walkStmt] using declareIfNew_step c env v false _
  | createEvt v l m d tgt => simpa [walkStmt] using declareEvent_step c env v
  | _ => exact Or.inl rfl

theorem declare_shape (env : Env) (hne : env ≠ []) (m : String) (info : VarInfo) :
    ∃ top, env.declare m info = top :: env.tail := by
  cases env with
  | nil => exact absurd rfl hne
  | cons s rest => exact ⟨(m, info) :: s, rfl⟩

/-- the R603 subtype instances `accept_<Statement>Node` leaves related to the statement's ACT_SMT -/
def stmtSubtypes : Stmt → List String
  | .assign _ _ => ["ACT_AI"]
  | .ret _ => ["ACT_RET"]
  | .brk => ["ACT_BRK"]
  | .cont => ["ACT_CON"]
  | .ctl => ["ACT_CTL"]
  | .create _ _ => ["ACT_CR"]
  | .createNV _ => ["ACT_CNV"]
  | .delete _ => ["ACT_DEL"]
  | .relate _ _ _ _ => ["ACT_REL"]
  | .relateU _ _ _ _ _ => ["ACT_RU"]
  | .unrelate _ _ _ _ => ["ACT_UNR"]
  | .unrelateU _ _ _ _ _ => ["ACT_URU"]
  | .selFrom _ _ _ => ["ACT_FIO"]
  | .selFromW _ _ _ _ => ["ACT_FIW"]
  | .selRel _ _ _ _ => ["ACT_SEL"]
  | .selRelW _ _ _ _ _ => ["ACT_SEL"]
  | .forEach _ _ _ => ["ACT_FOR"]
  | .while_ _ _ => ["ACT_WHL"]
  | .if_ _ _ _ _ => ["ACT_IF"]
  | .invoke (.call .func _ _ _) => ["ACT_FNC"]
  | .invoke (.call .bridge _ _ _) => ["ACT_BRG"]
  | .invoke (.call .classop _ _ _) => ["ACT_TFM"]
  | .invoke (.icall _ _ _) => ["ACT_TFM"]
  | .invoke _ => []          -- `accept_InvocationStatementNode` of anything else relates no subtype
  | .genEvt _ _ _ _ => ["E_ESS"]
  | .createEvt _ _ _ _ _ => ["E_ESS"]
  | .genPre _ => ["E_GPR"]

/-- R801 subtype instances created for the value of an expression, and those deleted again
    (`migrate_instance` / `migrate_instance_set` replace the V_TVL of a first-assigned instance variable) -/
def valCreated (c : TCtx) (env : Env) (migrates : Bool) (e : Expr) : List String :=
  if migrates then ["V_TVL", kindOf c env e] else [kindOf c env e]

def valDeleted (migrates : Bool) : List String := if migrates then ["V_TVL"] else []

def valSubtypes (c : TCtx) (env : Env) (migrates : Bool) (e : Expr) : List String :=
  (valDeleted migrates).foldl (fun acc d => acc.erase d) (valCreated c env migrates e)

theorem stmtSubtypes_one (ctx : Ctx) (s : Stmt) (h : wfStmt ctx s = true) : (stmtSubtypes s).length = 1 := by
  cases s with
  | invoke e =>
    have hw : isInvocation e = true ∧ wfExpr ctx e = true := by simpa [wfStmt] using h
    cases e with
    | call k a b ps => cases k <;> simp [isInvocation] at hw <;> simp [stmtSubtypes]
    | icall hh n ps => simp [stmtSubtypes]
    | _ => simp [isInvocation] at hw
  | _ => simp [stmtSubtypes]

theorem valSubtypes_one (c : TCtx) (env : Env) (migrates : Bool) (e : Expr) :
    (valSubtypes c env migrates e).length = 1 := by
  cases migrates <;> simp [valSubtypes, valCreated, valDeleted]

end Pyx.Prebuild
