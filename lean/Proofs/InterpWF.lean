import PyxModel.Interp.Spec
import Proofs.InterpPres

/-!
  Well-formedness of the relational state and its preservation by every program.
-/
set_option linter.unusedSectionVars false
namespace Pyx.Interp
open M

/-- links only between live instances, no duplicate pairs; the live lists are duplicate-free and
    below the creation counter (so a new instance is new) -/
structure WF (st : State) : Prop where
  links_live : ∀ k s t, (s, t) ∈ st.links k → st.isLive s = true ∧ st.isLive t = true
  links_nodup : ∀ k, (st.links k).Nodup
  live_nodup : ∀ c, (st.live c).Nodup
  live_lt : ∀ c n, n ∈ st.live c → n < st.next c

theorem isLive_iff (st : State) (i : Inst) : st.isLive i = true ↔ i.idx ∈ st.live i.cls := by
  simp [State.isLive]

/-! ### the state operations -/

theorem newInst_wf {C : Ctx} {cls : String} {st st' : State} {i : Inst}
    (h : newInst C cls st = .ok (i, st')) (wf : WF st) : WF st' := by
  unfold newInst at h
  split at h
  · cases h
  · rename_i c hc
    simp only [Except.ok.injEq, Prod.mk.injEq] at h
    obtain ⟨hi, hst⟩ := h
    subst hst
    have live_eq : ∀ j : Inst, (j.idx ∈ upd st.live cls (st.live cls ++ [st.next cls]) j.cls) ↔
        (j.idx ∈ st.live j.cls ∨ (j.cls = cls ∧ j.idx = st.next cls)) := by
      intro j
      unfold upd
      by_cases hj : j.cls = cls
      · simp [hj]
      · simp [hj]
    constructor
    · intro k s t hmem
      have := wf.links_live k s t hmem
      rw [isLive_iff, isLive_iff] at this
      rw [isLive_iff, isLive_iff]
      exact ⟨(live_eq s).2 (Or.inl this.1), (live_eq t).2 (Or.inl this.2)⟩
    · exact wf.links_nodup
    · intro c'
      show (upd st.live cls (st.live cls ++ [st.next cls]) c').Nodup
      unfold upd
      by_cases hc' : c' = cls
      · simp only [hc', if_true]
        rw [List.nodup_append]
        refine ⟨wf.live_nodup cls, by simp, ?_⟩
        intro a ha b hb
        simp at hb
        subst hb
        intro hab
        subst hab
        exact Nat.lt_irrefl _ (wf.live_lt cls _ ha)
      · simp only [hc', if_false]; exact wf.live_nodup c'
    · intro c' n hn
      show n < upd st.next cls (st.next cls + 1) c'
      have hn' : n ∈ upd st.live cls (st.live cls ++ [st.next cls]) c' := hn
      unfold upd at hn' ⊢
      by_cases hc' : c' = cls
      · simp only [hc', if_true] at hn' ⊢
        rw [List.mem_append] at hn'
        rcases hn' with hn' | hn'
        · exact Nat.lt_succ_of_lt (wf.live_lt cls n hn')
        · simp at hn'; omega
      · simp only [hc', if_false] at hn' ⊢
        exact wf.live_lt c' n hn'

theorem deleteInst_wf {i : Inst} {st st' : State} (h : deleteInst i st = .ok st') (wf : WF st) : WF st' := by
  unfold deleteInst at h
  split at h
  · simp only [Except.ok.injEq] at h
    subst h
    have keep : ∀ j : Inst, j ≠ i → j.idx ∈ st.live j.cls → j.idx ∈ upd st.live i.cls ((st.live i.cls).erase i.idx) j.cls := by
      intro j hne hj
      unfold upd
      by_cases hc : j.cls = i.cls
      · simp only [hc, if_true]
        rw [hc] at hj
        refine (List.mem_erase_of_ne ?_).2 hj
        intro hidx
        apply hne
        cases j; cases i; simp_all
      · simp only [hc, if_false]; exact hj
    constructor
    · intro k s t hmem
      have hmem' : (s, t) ∈ (st.links k).filter (fun p => decide (p.1 ≠ i ∧ p.2 ≠ i)) := hmem
      rw [List.mem_filter] at hmem'
      obtain ⟨hm, hp⟩ := hmem'
      simp only [decide_eq_true_eq] at hp
      have := wf.links_live k s t hm
      rw [isLive_iff, isLive_iff] at this
      rw [isLive_iff, isLive_iff]
      exact ⟨keep s hp.1 this.1, keep t hp.2 this.2⟩
    · intro k
      exact List.Nodup.sublist List.filter_sublist (wf.links_nodup k)
    · intro c
      show (upd st.live i.cls ((st.live i.cls).erase i.idx) c).Nodup
      unfold upd
      by_cases hc : c = i.cls
      · simp only [hc, if_true]; exact List.Nodup.erase _ (wf.live_nodup _)
      · simp only [hc, if_false]; exact wf.live_nodup c
    · intro c n hn
      have hn' : n ∈ upd st.live i.cls ((st.live i.cls).erase i.idx) c := hn
      show n < st.next c
      unfold upd at hn'
      by_cases hc : c = i.cls
      · simp only [hc, if_true] at hn'
        rw [hc]; exact wf.live_lt _ n (List.mem_of_mem_erase hn')
      · simp only [hc, if_false] at hn'
        exact wf.live_lt c n hn'
  · cases h

theorem findLinkFrom_ends {rel phrase : String} {x y : Inst} :
    ∀ (k : Nat) (l : List Assoc) {k' : Nat} {a : Assoc} {s t : Inst},
      findLinkFrom rel phrase x y k l = some (k', a, s, t) → (s = y ∧ t = x) ∨ (s = x ∧ t = y)
  | _, [], _, _, _, _, h => by simp [findLinkFrom] at h
  | k, a0 :: rest, k', a, s, t, h => by
    unfold findLinkFrom at h
    split at h
    · split at h
      · simp only [Option.some.injEq, Prod.mk.injEq] at h
        exact Or.inl ⟨h.2.2.1.symm, h.2.2.2.symm⟩
      · split at h
        · simp only [Option.some.injEq, Prod.mk.injEq] at h
          exact Or.inr ⟨h.2.2.1.symm, h.2.2.2.symm⟩
        · exact findLinkFrom_ends (k + 1) rest h
    · exact findLinkFrom_ends (k + 1) rest h

theorem relate_wf {C : Ctx} {x y : Inst} {rel phrase : String} {st st' : State}
    (h : relate C x y rel phrase st = .ok st') (wf : WF st) : WF st' := by
  unfold relate at h
  split at h
  · rename_i hlive
    rw [Bool.and_eq_true] at hlive
    split at h
    · cases h
    · rename_i k a s t hfl
      have ends := findLinkFrom_ends 0 C.assocs hfl
      have hs : st.isLive s = true ∧ st.isLive t = true := by
        rcases ends with ⟨rfl, rfl⟩ | ⟨rfl, rfl⟩
        · exact ⟨hlive.2, hlive.1⟩
        · exact hlive
      simp only at h
      split at h
      · simp only [Except.ok.injEq] at h; subst h; exact wf
      · rename_i hnot
        split at h
        · cases h
        · simp only [Except.ok.injEq] at h
          subst h
          constructor
          · intro k2 s2 t2 hmem
            have hmem' : (s2, t2) ∈ upd st.links k (st.links k ++ [(s, t)]) k2 := hmem
            show st.isLive s2 = true ∧ st.isLive t2 = true
            unfold upd at hmem'
            by_cases hk : k2 = k
            · simp only [hk, if_true] at hmem'
              rw [List.mem_append] at hmem'
              rcases hmem' with hm | hm
              · exact wf.links_live k s2 t2 hm
              · simp only [List.mem_singleton, Prod.mk.injEq] at hm
                rw [hm.1, hm.2]; exact hs
            · simp only [hk, if_false] at hmem'
              exact wf.links_live k2 s2 t2 hmem'
          · intro k2
            show (upd st.links k (st.links k ++ [(s, t)]) k2).Nodup
            unfold upd
            by_cases hk : k2 = k
            · simp only [hk, if_true]
              rw [List.nodup_append]
              refine ⟨wf.links_nodup k, by simp, ?_⟩
              intro p hp q hq
              simp only [List.mem_singleton] at hq
              subst hq
              intro hpq
              subst hpq
              exact hnot hp
            · simp only [hk, if_false]; exact wf.links_nodup k2
          · exact wf.live_nodup
          · exact wf.live_lt
  · cases h

theorem unrelate_wf {C : Ctx} {x y : Inst} {rel phrase : String} {st st' : State}
    (h : unrelate C x y rel phrase st = .ok st') (wf : WF st) : WF st' := by
  unfold unrelate at h
  split at h
  · split at h
    · cases h
    · rename_i k a s t hfl
      simp only at h
      split at h
      · simp only [Except.ok.injEq] at h
        subst h
        constructor
        · intro k2 s2 t2 hmem
          have hmem' : (s2, t2) ∈ upd st.links k ((st.links k).erase (s, t)) k2 := hmem
          show st.isLive s2 = true ∧ st.isLive t2 = true
          unfold upd at hmem'
          by_cases hk : k2 = k
          · simp only [hk, if_true] at hmem'
            exact wf.links_live k s2 t2 (List.mem_of_mem_erase hmem')
          · simp only [hk, if_false] at hmem'
            exact wf.links_live k2 s2 t2 hmem'
        · intro k2
          show (upd st.links k ((st.links k).erase (s, t)) k2).Nodup
          unfold upd
          by_cases hk : k2 = k
          · simp only [hk, if_true]; exact List.Nodup.erase _ (wf.links_nodup k)
          · simp only [hk, if_false]; exact wf.links_nodup k2
        · exact wf.live_nodup
        · exact wf.live_lt
      · cases h
  · cases h

theorem relateUsing_wf {C : Ctx} {x y w : Inst} {rel phrase : String} {st st' : State}
    (h : relateUsing C x y w rel phrase st = .ok st') (wf : WF st) : WF st' := by
  unfold relateUsing at h
  split at h
  · cases h
  · rename_i st1 h1
    exact relate_wf h (relate_wf h1 wf)

theorem unrelateUsing_wf {C : Ctx} {x y w : Inst} {rel phrase : String} {st st' : State}
    (h : unrelateUsing C x y w rel phrase st = .ok st') (wf : WF st) : WF st' := by
  unfold unrelateUsing at h
  split at h
  · cases h
  · rename_i st1 h1
    exact unrelate_wf h (unrelate_wf h1 wf)

theorem setAttr_wf {C : Ctx} {i : Inst} {name : String} {v : Val} {st st' : State}
    (h : setAttr C i name v st = .ok st') (wf : WF st) : WF st' := by
  unfold setAttr at h
  split at h
  · split at h
    · split at h
      · cases h
      · split at h
        · simp only [Except.ok.injEq] at h
          subst h
          exact ⟨wf.links_live, wf.links_nodup, wf.live_nodup, wf.live_lt⟩
        · cases h
    · cases h
  · cases h

end Pyx.Interp

namespace Pyx.Interp
open M

/-! ### preservation of well-formedness -/

def Rwf (c c' : Cfg) : Prop := WF c.st → WF c'.st

theorem Rwf_po : PreOrder Rwf := ⟨fun _ h => h, fun _ _ _ h1 h2 h => h2 (h1 h)⟩

/-- an action that changes the frame only -/
def FrameOnly {α : Type} (m : M α) : Prop := ∀ c a c', m c = some (.ok (a, c')) → c'.st = c.st

theorem rwf_of_frameOnly {α : Type} {m : M α} (h : FrameOnly m) : Pres Rwf m := by
  intro c a c' hc wf
  rw [h c a c' hc]; exact wf

theorem frameOnly_setEnv (env : Env) : FrameOnly (setEnv env) := by
  intro c a c' h; simp [setEnv] at h; rw [← h]

theorem frameOnly_setRet (v : Val) : FrameOnly (setRet v) := by
  intro c a c' h; simp [setRet] at h; rw [← h]

theorem rwf_install (x : String) (v : Val) : Pres Rwf (install x v) := by
  unfold install
  apply pres_bind Rwf_po (pres_of_neutral Rwf_po neutral_getFr); intro fr
  exact rwf_of_frameOnly (frameOnly_setEnv _)

theorem rwf_pushBlock : Pres Rwf pushBlock := by
  unfold pushBlock
  apply pres_bind Rwf_po (pres_of_neutral Rwf_po neutral_getFr); intro fr
  exact rwf_of_frameOnly (frameOnly_setEnv _)

theorem rwf_popBlock : Pres Rwf popBlock := by
  unfold popBlock
  apply pres_bind Rwf_po (pres_of_neutral Rwf_po neutral_getFr); intro fr
  exact rwf_of_frameOnly (frameOnly_setEnv _)

theorem rwf_modifySt {f : State → Except Err State}
    (hf : ∀ st st', f st = .ok st' → WF st → WF st') : Pres Rwf (modifySt f) := by
  intro c a c' h wf
  unfold modifySt at h
  split at h
  · rename_i st' hst
    simp at h
    rw [← h]
    exact hf _ _ hst wf
  · simp at h

theorem rwf_modifyGet {α : Type} {f : State → Except Err (α × State)}
    (hf : ∀ st a st', f st = .ok (a, st') → WF st → WF st') : Pres Rwf (M.modifyGet f) := by
  intro c a c' h wf
  unfold M.modifyGet at h
  split at h
  · rename_i a' st' hst
    simp at h
    rw [← h.2]
    exact hf _ _ _ hst wf
  · simp at h

abbrev N {α : Type} {m : M α} (h : Neutral m) : Pres Rwf m := pres_of_neutral Rwf_po h

section
variable {r : Oracle} (he : ∀ e, Pres Rwf (r.eval e)) (hs : ∀ s, Pres Rwf (r.exec s))
include he hs

theorem rwf_execList : ∀ l, Pres Rwf (execList r l)
  | [] => N (neutral_pure _)
  | s :: rest => by
    unfold execList
    apply pres_bind Rwf_po (hs s); intro o
    cases o <;> first | exact rwf_execList rest | exact N (neutral_pure _)

theorem rwf_execBlock (b : Block) : Pres Rwf (execBlock r b) := by
  unfold execBlock
  apply pres_bind Rwf_po rwf_pushBlock; intro _
  apply pres_bind Rwf_po (rwf_execList he hs b); intro _
  apply pres_bind Rwf_po rwf_popBlock; intro _
  exact N (neutral_pure _)

theorem rwf_execElifs : ∀ l els, Pres Rwf (execElifs r l els)
  | [], none => N (neutral_pure _)
  | [], some b => rwf_execBlock he hs b
  | (c, b) :: rest, els => by
    unfold execElifs
    apply pres_bind Rwf_po (he c); intro v
    apply pres_bind Rwf_po (N (neutral_asBool v)); intro t
    cases t
    · exact rwf_execElifs rest els
    · exact rwf_execBlock he hs b

theorem rwf_forItems (v : String) (body : Block) : ∀ l, Pres Rwf (forItems r v body l)
  | [] => N (neutral_pure _)
  | i :: rest => by
    unfold forItems
    apply pres_bind Rwf_po (rwf_install _ _); intro _
    apply pres_bind Rwf_po (rwf_execBlock he hs body); intro o
    cases o <;> first | exact rwf_forItems v body rest | exact N (neutral_pure _)

theorem rwf_evalWhere (wh : Expr) (c : Inst) : Pres Rwf (evalWhere r wh c) := by
  unfold evalWhere
  apply pres_bind Rwf_po rwf_pushBlock; intro _
  apply pres_bind Rwf_po (rwf_install _ _); intro _
  apply pres_bind Rwf_po (he wh); intro v
  apply pres_bind Rwf_po rwf_popBlock; intro _
  exact N (neutral_asBool v)

theorem rwf_filterAll (wh : Expr) : ∀ l, Pres Rwf (filterAll r wh l)
  | [] => N (neutral_pure _)
  | c :: rest => by
    unfold filterAll
    apply pres_bind Rwf_po (rwf_evalWhere he hs wh c); intro t
    apply pres_bind Rwf_po (rwf_filterAll wh rest); intro _
    exact N (neutral_pure _)

theorem rwf_filterFirst (wh : Expr) : ∀ l, Pres Rwf (filterFirst r wh l)
  | [] => N (neutral_pure _)
  | c :: rest => by
    unfold filterFirst
    apply pres_bind Rwf_po (rwf_evalWhere he hs wh c); intro t
    cases t
    · exact rwf_filterFirst wh rest
    · exact N (neutral_pure _)

theorem rwf_selectResult (many : Bool) (cands : List Inst) (wh : Option Expr) :
    Pres Rwf (selectResult r many cands wh) := by
  unfold selectResult
  cases many <;> cases wh <;> simp only
  · exact N (neutral_pure _)
  · apply pres_bind Rwf_po (rwf_filterFirst he hs _ _); intro _; exact N (neutral_pure _)
  · exact N (neutral_pure _)
  · apply pres_bind Rwf_po (rwf_filterAll he hs _ _); intro _; exact N (neutral_pure _)

theorem rwf_evalArgs : ∀ l, Pres Rwf (evalArgs r l)
  | [] => N (neutral_pure _)
  | (n, e) :: rest => by
    unfold evalArgs
    apply pres_bind Rwf_po (he e); intro _
    apply pres_bind Rwf_po (rwf_evalArgs rest); intro _
    exact N (neutral_pure _)

theorem rwf_runBody (body : Block) : Pres Rwf (runBody r body) := by
  unfold runBody
  apply pres_bind Rwf_po (rwf_execBlock he hs body); intro o
  cases o <;> first | exact N (neutral_pure _) | exact N (neutral_fail _)

theorem rwf_invoke (kind : WalkerKind) (body : Block) (kw : List (String × Val)) (self : Val) :
    Pres Rwf (invoke r kind body kw self) := by
  intro c a c' h wf
  unfold invoke at h
  split at h
  · cases h
  · cases h
  · rename_i u c1 hb
    simp at h
    rw [← h.2]
    exact rwf_runBody he hs body { fr := mkFrame kind kw self, st := c.st } u c1 hb wf

theorem rwf_readField (C : Ctx) (i : Inst) (name : String) : Pres Rwf (readField C r i name) := by
  unfold readField
  apply pres_bind Rwf_po (N neutral_getFr); intro fr
  cases regHit fr i name
  · simp only [Bool.false_eq_true, if_false]
    split
    · exact rwf_invoke he hs _ _ _ _
    · exact N (neutral_querySt _)
  · exact N (neutral_pure _)

theorem rwf_writeField (C : Ctx) (i : Inst) (name : String) (v : Val) : Pres Rwf (writeField C i name v) := by
  unfold writeField
  apply pres_bind Rwf_po (N neutral_getFr); intro fr
  cases regHit fr i name
  · simp only [Bool.false_eq_true, if_false]
    split
    · exact N (neutral_fail _)
    · exact rwf_modifySt (fun _ _ h wf => setAttr_wf h wf)
  · exact rwf_of_frameOnly (frameOnly_setRet _)

theorem rwf_evalStep (C : Ctx) (e : Expr) : Pres Rwf (evalStep C r e) := by
  cases e with
  | int i => exact N (neutral_pure _)
  | str s => exact N (neutral_pure _)
  | bool b => exact N (neutral_pure _)
  | var x => exact N (neutral_lookupVar C x)
  | selected => exact N (neutral_lookupVar C _)
  | self =>
    unfold evalStep
    apply pres_bind Rwf_po (N neutral_getFr); intro fr
    split <;> first | exact N (neutral_pure _) | exact N (neutral_fail _)
  | param x =>
    unfold evalStep
    apply pres_bind Rwf_po (N neutral_getFr); intro fr
    split
    · exact N (neutral_fail _)
    · split <;> first | exact N (neutral_pure _) | exact N (neutral_fail _)
  | field hx name =>
    unfold evalStep
    apply pres_bind Rwf_po (he hx); intro v
    apply pres_bind Rwf_po (N (neutral_asInst v)); intro _
    exact rwf_readField he hs C _ _
  | bin op l rr =>
    unfold evalStep
    apply pres_bind Rwf_po (he l); intro _
    apply pres_bind Rwf_po (he rr); intro _
    exact N (neutral_liftE _)
  | un op e =>
    unfold evalStep
    apply pres_bind Rwf_po (he e); intro _
    exact N (neutral_liftE _)
  | enumOrConst ns name =>
    simp only [evalStep]
    split
    · split <;> first | exact N (neutral_pure _) | exact N (neutral_fail _)
    · exact N (neutral_fail _)
  | call k name args =>
    cases k with
    | function =>
      simp only [evalStep]
      apply pres_bind Rwf_po (rwf_evalArgs he hs args); intro kw
      split
      · exact rwf_invoke he hs _ _ _ _
      · exact N (neutral_fail _)
    | implicit ns =>
      simp only [evalStep]
      apply pres_bind Rwf_po (rwf_evalArgs he hs args); intro kw
      split
      · split <;> exact rwf_invoke he hs _ _ _ _
      · exact N (neutral_fail _)
    | classOp ns =>
      simp only [evalStep]
      split
      · apply pres_bind Rwf_po (rwf_evalArgs he hs args); intro kw
        exact rwf_invoke he hs _ _ _ _
      · exact N (neutral_fail _)
    | bridge ns =>
      simp only [evalStep]
      apply pres_bind Rwf_po (rwf_evalArgs he hs args); intro kw
      split
      · split <;> exact rwf_invoke he hs _ _ _ _
      · exact N (neutral_fail _)
  | callInst hx name args =>
    unfold evalStep
    apply pres_bind Rwf_po (he hx); intro v
    apply pres_bind Rwf_po (N (neutral_asInst v)); intro i
    split
    · apply pres_bind Rwf_po (rwf_evalArgs he hs args); intro _
      exact rwf_invoke he hs _ _ _ _
    · exact N (neutral_fail _)

theorem rwf_execStep (C : Ctx) (s : Stmt) : Pres Rwf (execStep C r s) := by
  cases s with
  | assignVar x e =>
    unfold execStep
    apply pres_bind Rwf_po (he e); intro _
    apply pres_bind Rwf_po (rwf_install _ _); intro _
    exact N (neutral_pure _)
  | assignField hx name e =>
    unfold execStep
    apply pres_bind Rwf_po (he e); intro _
    apply pres_bind Rwf_po (he hx); intro v
    apply pres_bind Rwf_po (N (neutral_asInst v)); intro _
    apply pres_bind Rwf_po (rwf_writeField he hs C _ _ _); intro _
    exact N (neutral_pure _)
  | ifS c thn elifs els =>
    unfold execStep
    apply pres_bind Rwf_po (he c); intro v
    apply pres_bind Rwf_po (N (neutral_asBool v)); intro t
    cases t
    · exact rwf_execElifs he hs _ _
    · exact rwf_execBlock he hs _
  | whileS c body =>
    unfold execStep
    apply pres_bind Rwf_po (he c); intro v
    apply pres_bind Rwf_po (N (neutral_asBool v)); intro t
    cases t
    · exact N (neutral_pure _)
    · simp only [if_true]
      apply pres_bind Rwf_po (rwf_execBlock he hs body); intro o
      cases o <;> first | exact hs _ | exact N (neutral_pure _)
  | forEach v setv body =>
    unfold execStep
    apply pres_bind Rwf_po (N (neutral_lookupVar C _)); intro s
    cases s <;> first | exact rwf_forItems he hs _ _ _ | exact N (neutral_fail _)
  | brk => exact N (neutral_pure _)
  | cont => exact N (neutral_pure _)
  | stop => exact N (neutral_pure _)
  | ret e =>
    cases e with
    | none => exact N (neutral_pure _)
    | some e =>
      unfold execStep
      apply pres_bind Rwf_po (he e); intro _
      apply pres_bind Rwf_po (rwf_of_frameOnly (frameOnly_setRet _)); intro _
      exact N (neutral_pure _)
  | create v cls =>
    unfold execStep
    apply pres_bind Rwf_po (rwf_modifyGet (fun _ _ _ h wf => newInst_wf h wf)); intro i
    cases v with
    | none =>
      simp only
      first
        | exact N (neutral_pure _)
        | (apply pres_bind Rwf_po (N (neutral_pure _)); intro _; exact N (neutral_pure _))
    | some x => simp only; apply pres_bind Rwf_po (rwf_install _ _); intro _; exact N (neutral_pure _)
  | delete v =>
    unfold execStep
    apply pres_bind Rwf_po (N (neutral_lookupVar C _)); intro x
    apply pres_bind Rwf_po (N (neutral_asInst x)); intro i
    apply pres_bind Rwf_po (rwf_modifySt (fun _ _ h wf => deleteInst_wf h wf)); intro _
    exact N (neutral_pure _)
  | relate a b rel phrase =>
    unfold execStep
    apply pres_bind Rwf_po (N (neutral_lookupVar C _)); intro x
    apply pres_bind Rwf_po (N (neutral_asInst x)); intro _
    apply pres_bind Rwf_po (N (neutral_lookupVar C _)); intro y
    apply pres_bind Rwf_po (N (neutral_asInst y)); intro _
    apply pres_bind Rwf_po (rwf_modifySt (fun _ _ h wf => relate_wf h wf)); intro _
    exact N (neutral_pure _)
  | relateUsing a b rel phrase u =>
    unfold execStep
    apply pres_bind Rwf_po (N (neutral_lookupVar C _)); intro x
    apply pres_bind Rwf_po (N (neutral_asInst x)); intro _
    apply pres_bind Rwf_po (N (neutral_lookupVar C _)); intro y
    apply pres_bind Rwf_po (N (neutral_asInst y)); intro _
    apply pres_bind Rwf_po (N (neutral_lookupVar C _)); intro w
    apply pres_bind Rwf_po (N (neutral_asInst w)); intro _
    apply pres_bind Rwf_po (rwf_modifySt (fun _ _ h wf => relateUsing_wf h wf)); intro _
    exact N (neutral_pure _)
  | unrelate a b rel phrase =>
    unfold execStep
    apply pres_bind Rwf_po (N (neutral_lookupVar C _)); intro x
    apply pres_bind Rwf_po (N (neutral_asInst x)); intro _
    apply pres_bind Rwf_po (N (neutral_lookupVar C _)); intro y
    apply pres_bind Rwf_po (N (neutral_asInst y)); intro _
    apply pres_bind Rwf_po (rwf_modifySt (fun _ _ h wf => unrelate_wf h wf)); intro _
    exact N (neutral_pure _)
  | unrelateUsing a b rel phrase u =>
    unfold execStep
    apply pres_bind Rwf_po (N (neutral_lookupVar C _)); intro x
    apply pres_bind Rwf_po (N (neutral_asInst x)); intro _
    apply pres_bind Rwf_po (N (neutral_lookupVar C _)); intro y
    apply pres_bind Rwf_po (N (neutral_asInst y)); intro _
    apply pres_bind Rwf_po (N (neutral_lookupVar C _)); intro w
    apply pres_bind Rwf_po (N (neutral_asInst w)); intro _
    apply pres_bind Rwf_po (rwf_modifySt (fun _ _ h wf => unrelateUsing_wf h wf)); intro _
    exact N (neutral_pure _)
  | selectFrom many v cls wh =>
    unfold execStep
    apply pres_bind Rwf_po (N (neutral_querySt _)); intro _
    apply pres_bind Rwf_po (rwf_selectResult he hs _ _ _); intro _
    apply pres_bind Rwf_po (rwf_install _ _); intro _
    exact N (neutral_pure _)
  | selectRelated many v hx chain wh =>
    unfold execStep
    apply pres_bind Rwf_po (he hx); intro hv
    apply pres_bind Rwf_po (N (neutral_startOf hv)); intro _
    apply pres_bind Rwf_po (N (neutral_querySt _)); intro _
    apply pres_bind Rwf_po (rwf_selectResult he hs _ _ _); intro _
    apply pres_bind Rwf_po (rwf_install _ _); intro _
    exact N (neutral_pure _)
  | invoke e =>
    unfold execStep
    apply pres_bind Rwf_po (he e); intro _
    exact N (neutral_pure _)

end

theorem rwf_run (C : Ctx) : ∀ n, (∀ e, Pres Rwf ((run C n).eval e)) ∧ (∀ s, Pres Rwf ((run C n).exec s))
  | 0 => ⟨fun _ _ _ _ h => by simp [run] at h, fun _ _ _ _ h => by simp [run] at h⟩
  | n + 1 =>
    have ih := rwf_run C n
    ⟨fun e => rwf_evalStep ih.1 ih.2 C e, fun s => rwf_execStep ih.1 ih.2 C s⟩

/-- any program run from a well-formed state ends in a well-formed state -/
theorem runFunction_wf (C : Ctx) (fuel : Nat) (body : Block) (kw : List (String × Val)) (st st' : State) (v : Val)
    (h : runFunction C fuel body kw st = some (.ok (v, st'))) (wf : WF st) : WF st' := by
  unfold runFunction at h
  split at h
  · cases h
  · cases h
  · rename_i u c hb
    simp at h
    rw [← h.2]
    have ih := rwf_run C fuel
    exact rwf_runBody ih.1 ih.2 body _ _ _ hb wf

end Pyx.Interp
