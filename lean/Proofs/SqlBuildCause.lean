import Proofs.SqlBuildFail

set_option linter.unusedSimpArgs false

/-!
  WHY a build fails, stated against the state actually reached: for every phase an `iff` between "the phase ends in
  exception `e`" and the documented cause, evaluated in the state the earlier phases / statements left; then the
  same for the whole build (`Failure`), and the consequence that no built-in exception is reachable.
-/
namespace Pyx.Sql

/-! ### one INSERT -/

theorem ensureClass_finds (u : UC) (s : BState) (kind : Name) (named : Bool) (ns : List Name) (values : List Text) :
    ∃ c, (ensureClass u s kind named ns values).find? u kind = some c := by
  unfold ensureClass
  cases hs : s.find? u kind with
  | some c => exact ⟨c, hs⟩
  | none =>
    simp only [BState.find?, List.find?_append]
    simp only [BState.find?] at hs
    simp [hs]

/-- the cells of an INSERT (whose numbers of names and values agree, if named) cannot be computed exactly when some
    value cannot be read for the type of its column, and then the parsing exception is raised -/
theorem cellsOf_error (u : UC) (c : ClassB) (names : Option (List Name)) (values : List Text) (e : BuildErr)
    (ha : (isNamed names && (names.getD []).length != values.length) = false)
    (h : cellsOf u c (isNamed names) (names.getD []) values = .error e) :
    e = .parseErr ∧ ∃ a ∈ c.attrs, ∃ v ∈ values, deserialize u a.2 v = none := by
  unfold cellsOf at h
  by_cases hnamed : isNamed names = true
  · simp only [hnamed, if_true] at h
    have hlen : (names.getD []).length = values.length := by
      simp only [hnamed, Bool.true_and, bne_eq_false_iff_eq] at ha; exact ha
    exact namedCells_error u _ values hlen c.attrs e h
  · simp only [hnamed, Bool.false_eq_true, if_false] at h
    exact positionalCells_error u c c.attrs values e h

/-- WHY one INSERT fails, in the state `s` the earlier statements left; `c` is the class of the statement's kind in
    that state, declared, inferred by an earlier INSERT, or inferred from this one:
    * a named INSERT with different numbers of names and values                       -> parsing exception
    * else the class is inferred from a named INSERT with two names equal after upper-casing (`inferOk`) -> metamodel exception
    * else the class is inferred and `guess_type_name` knows no type for a value (`guessOk`)  -> built-in (AttributeError)
    * else `c` has a non-referential attribute whose type `default_value` does not know        -> metamodel exception
    * else a value cannot be read for the type of its column                                   -> parsing exception -/
inductive InsertFails (u : UC) (s : BState) (kind : Name) (values : List Text) (names : Option (List Name)) : BuildErr → Prop
  | arity : (isNamed names && (names.getD []).length != values.length) = true → InsertFails u s kind values names .parseErr
  | nameClash : (isNamed names && (names.getD []).length != values.length) = false →
      inferOk u s kind (isNamed names) (names.getD []) values = false → InsertFails u s kind values names .metaErr
  | unguessable : (isNamed names && (names.getD []).length != values.length) = false →
      inferOk u s kind (isNamed names) (names.getD []) values = true → guessOk u s kind values = false →
      InsertFails u s kind values names .builtinErr
  | unknownType (c : ClassB) : (isNamed names && (names.getD []).length != values.length) = false →
      inferOk u s kind (isNamed names) (names.getD []) values = true → guessOk u s kind values = true →
      (ensureClass u s kind (isNamed names) (names.getD []) values).find? u kind = some c →
      (∃ a ∈ c.attrs, c.referential.contains a.1 = false ∧ tyOfName u a.2 = none) → InsertFails u s kind values names .metaErr
  | badValue (c : ClassB) : (isNamed names && (names.getD []).length != values.length) = false →
      inferOk u s kind (isNamed names) (names.getD []) values = true → guessOk u s kind values = true →
      (ensureClass u s kind (isNamed names) (names.getD []) values).find? u kind = some c → newRowOk u c = true →
      (∃ e, cellsOf u c (isNamed names) (names.getD []) values = .error e) →
      (∃ a ∈ c.attrs, ∃ v ∈ values, deserialize u a.2 v = none) → InsertFails u s kind values names .parseErr

theorem newRowOk_false_iff (u : UC) (c : ClassB) :
    newRowOk u c = false ↔ ∃ a ∈ c.attrs, c.referential.contains a.1 = false ∧ tyOfName u a.2 = none := by
  constructor
  · exact newRowOk_false u c
  · intro ⟨a, ha, h1, h2⟩
    unfold newRowOk
    rw [List.all_eq_false]
    refine ⟨a, ha, ?_⟩
    rw [h1, h2]; simp

theorem popInstance_error_iff (u : UC) (s : BState) (kind : Name) (values : List Text) (names : Option (List Name)) (e : BuildErr) :
    popInstance u s kind values names = .error e ↔ InsertFails u s kind values names e := by
  obtain ⟨c, hc⟩ := ensureClass_finds u s kind (isNamed names) (names.getD []) values
  constructor
  · intro h
    unfold popInstance at h
    by_cases ha : (isNamed names && (names.getD []).length != values.length) = true
    · simp only [ha, if_true, Except.error.injEq] at h; subst h; exact .arity ha
    have ha' : (isNamed names && (names.getD []).length != values.length) = false := by simpa using ha
    simp only [ha', Bool.false_eq_true, if_false] at h
    by_cases hi : inferOk u s kind (isNamed names) (names.getD []) values = true
    case neg =>
      simp only [hi, Bool.not_false, if_true, Except.error.injEq] at h; subst h
      exact .nameClash ha' (by simpa using hi)
    simp only [hi, Bool.not_true, Bool.false_eq_true, if_false] at h
    by_cases hg : guessOk u s kind values = true
    case neg =>
      simp only [hg, Bool.not_false, if_true, Except.error.injEq] at h; subst h
      exact .unguessable ha' hi (by simpa using hg)
    simp only [hg, Bool.not_true, Bool.false_eq_true, if_false, hc] at h
    by_cases hr : newRowOk u c = true
    case neg =>
      simp only [hr, Bool.not_false, if_true, Except.error.injEq] at h; subst h
      exact .unknownType c ha' hi hg hc ((newRowOk_false_iff u c).mp (by simpa using hr))
    simp only [hr, Bool.not_true, Bool.false_eq_true, if_false] at h
    cases hcells : cellsOf u c (isNamed names) (names.getD []) values with
    | ok cells => rw [hcells] at h; cases h
    | error e' =>
      rw [hcells] at h; simp only [Except.error.injEq] at h; subst h
      obtain ⟨he, hcause⟩ := cellsOf_error u c names values e' ha' hcells
      subst he
      exact .badValue c ha' hi hg hc hr ⟨_, hcells⟩ hcause
  · intro h
    unfold popInstance
    cases h with
    | arity ha => simp only [ha, if_true]
    | nameClash ha hi => simp only [ha, Bool.false_eq_true, if_false, hi, Bool.not_false, if_true]
    | unguessable ha hi hg =>
      simp only [ha, Bool.false_eq_true, if_false, hi, Bool.not_true, hg, Bool.not_false, if_true]
    | unknownType c' ha hi hg hc' hr =>
      have hr' := (newRowOk_false_iff u c').mpr hr
      simp only [ha, Bool.false_eq_true, if_false, hi, Bool.not_true, hg, hc', hr', Bool.not_false, if_true]
    | badValue c' ha hi hg hc' hr hcells _ =>
      obtain ⟨e', he'⟩ := hcells
      obtain ⟨he, _⟩ := cellsOf_error u c' names values e' ha he'
      subst he
      simp only [ha, Bool.false_eq_true, if_false, hi, Bool.not_true, hg, hc', hr, he']

/-- the arity test in words -/
theorem arity_iff (names : Option (List Name)) (values : List Text) :
    (isNamed names && (names.getD []).length != values.length) = true ↔
      ∃ n ns, names = some (n :: ns) ∧ (n :: ns).length ≠ values.length := by
  cases names with
  | none => simp [isNamed]
  | some l =>
    cases l with
    | nil => simp [isNamed]
    | cons n ns =>
      simp only [isNamed, Bool.true_and, Option.getD_some, bne_iff_ne, ne_eq]
      constructor
      · intro h; exact ⟨n, ns, rfl, h⟩
      · intro ⟨n', ns', he, h⟩
        simp only [Option.some.injEq, List.cons.injEq] at he
        obtain ⟨rfl, rfl⟩ := he; exact h

/-- `define_class` rejects an inferred class exactly when the class is undeclared so far and the INSERT is a named one
    with two names that coincide after upper-casing -/
theorem inferOk_false_iff (u : UC) (s : BState) (kind : Name) (values : List Text) (names : Option (List Name)) :
    inferOk u s kind (isNamed names) (names.getD []) values = false ↔
      s.find? u kind = none ∧ ∃ n ns, names = some (n :: ns) ∧ attrNamesOk u (inferredAttrs u (n :: ns) values) = false := by
  unfold inferOk
  cases hs : s.find? u kind with
  | some c => simp
  | none =>
    simp only [true_and]
    cases names with
    | none => simp [isNamed, inferredFor, attrNamesOk_positional]
    | some l =>
      cases l with
      | nil => simp [isNamed, inferredFor, attrNamesOk_positional]
      | cons n ns =>
        simp only [isNamed, inferredFor, if_true, Option.getD_some]
        constructor
        · intro h; exact ⟨n, ns, rfl, h⟩
        · intro ⟨n', ns', he, h⟩
          simp only [Option.some.injEq, List.cons.injEq] at he
          obtain ⟨rfl, rfl⟩ := he; exact h

/-- `guess_type_name` gives `None` for a value of an INSERT that creates its class -/
theorem guessOk_false_iff (u : UC) (s : BState) (kind : Name) (values : List Text) :
    guessOk u s kind values = false ↔ s.find? u kind = none ∧ ∃ v ∈ values, guessType u v = none := by
  unfold guessOk
  cases hs : s.find? u kind with
  | some c => simp
  | none => simp [List.all_eq_false]

/-! ### phases 2 and 3 -/

def IndexBad (u : UC) (classes : List ClassB) (stmts : List Stmt) : Prop :=
  ∃ kind name attrs, Stmt.createIndex kind name attrs ∈ stmts ∧ attrs ≠ [] ∧ ∀ c ∈ classes, sameKind u c.kind kind = false

theorem popIdents_error (u : UC) : ∀ (stmts : List Stmt) (s : BState) (e : BuildErr),
    popIdents u stmts s = .error e → e = .metaErr ∧ IndexBad u s.classes stmts := by
  intro stmts
  induction stmts with
  | nil => intro s e h; simp [popIdents] at h
  | cons st rest ih =>
    intro s e h
    have lift : ∀ s', popIdents u rest s' = .error e → (∀ c ∈ s.classes, ∃ c' ∈ s'.classes, c'.kind = c.kind) →
        e = .metaErr ∧ IndexBad u s.classes (st :: rest) := by
      intro s' h' hk
      obtain ⟨he, kind, name, attrs, hm, hne, hno⟩ := ih s' e h'
      refine ⟨he, kind, name, attrs, by simp [hm], hne, ?_⟩
      intro c hc
      obtain ⟨c', hc', hkk⟩ := hk c hc
      rw [← hkk]; exact hno c' hc'
    cases st with
    | createIndex kind name attrs =>
      simp only [popIdents] at h
      by_cases hem : attrs.isEmpty = true
      · simp only [hem, if_true] at h
        exact lift s h (fun c hc => ⟨c, hc, rfl⟩)
      · simp only [hem, Bool.false_eq_true, if_false] at h
        cases hf : s.find? u kind with
        | none =>
          rw [hf] at h; simp only [Except.error.injEq] at h; subst h
          refine ⟨rfl, kind, name, attrs, by simp, by intro ha; subst ha; simp at hem, ?_⟩
          intro c hc
          simp only [BState.find?, List.find?_eq_none] at hf
          have := hf c hc
          simpa [sameKind] using this
        | some c0 =>
          rw [hf] at h; simp only at h
          apply lift _ h
          intro c hc
          refine ⟨(if sameKind u c.kind kind then { c with indices := dictSet name attrs c.indices } else c), ?_, ?_⟩
          · rw [update_eq_map]; exact List.mem_map.mpr ⟨c, hc, rfl⟩
          · split <;> rfl
    | createTable _ _ => exact lift s (by simpa [popIdents] using h) (fun c hc => ⟨c, hc, rfl⟩)
    | createRop _ _ _ _ _ _ _ _ _ => exact lift s (by simpa [popIdents] using h) (fun c hc => ⟨c, hc, rfl⟩)
    | insert _ _ _ => exact lift s (by simpa [popIdents] using h) (fun c hc => ⟨c, hc, rfl⟩)

/-- phase 2 fails exactly when some identifier with attributes names a class that does not exist; then with the
    metamodel exception -/
theorem popIdents_error_iff (u : UC) (stmts : List Stmt) (s : BState) (e : BuildErr) :
    popIdents u stmts s = .error e ↔ (e = .metaErr ∧ IndexBad u s.classes stmts) := by
  constructor
  · exact popIdents_error u stmts s e
  · intro ⟨he, hb⟩; subst he; exact popIdents_unknown u stmts s hb

def SomeRopBad (u : UC) (classes : List ClassB) (stmts : List Stmt) : Prop :=
  ∃ rel sk sc skeys sp tk tc tkeys tp, Stmt.createRop rel sk sc skeys sp tk tc tkeys tp ∈ stmts ∧
    RopBad u classes sk skeys tk tkeys

theorem RopBad.unmap (u : UC) (g : ClassB → ClassB) (hk : ∀ c, (g c).kind = c.kind) (ha : ∀ c, (g c).attrs = c.attrs)
    {classes : List ClassB} {sk tk : Name} {skeys tkeys : List Name} (h : RopBad u (classes.map g) sk skeys tk tkeys) :
    RopBad u classes sk skeys tk tkeys := by
  rcases h with h | h | h | h | h
  · left; intro c hc; rw [← hk]; exact h (g c) (List.mem_map.mpr ⟨c, hc, rfl⟩)
  · right; left; intro c hc; rw [← hk]; exact h (g c) (List.mem_map.mpr ⟨c, hc, rfl⟩)
  · right; right; left; exact h
  · right; right; right; left; exact h
  · right; right; right; right
    intro c hc hs
    have := h (g c) (List.mem_map.mpr ⟨c, hc, rfl⟩) (by rw [hk]; exact hs)
    rw [ha] at this; exact this

theorem popAssocs_error (u : UC) : ∀ (stmts : List Stmt) (s : BState) (e : BuildErr), KindsDistinct u s.classes →
    popAssocs u stmts s = .error e → e = .metaErr ∧ SomeRopBad u s.classes stmts := by
  intro stmts
  induction stmts with
  | nil => intro s e _ h; simp [popAssocs] at h
  | cons st rest ih =>
    intro s e hd h
    have skip : popAssocs u rest s = .error e → e = .metaErr ∧ SomeRopBad u s.classes (st :: rest) := by
      intro h'
      obtain ⟨he, a, b, c, d, e', f, g, i, j, hm, hb⟩ := ih s e hd h'
      exact ⟨he, a, b, c, d, e', f, g, i, j, by simp [hm], hb⟩
    cases st with
    | createRop rel sk sc skeys sp tk tc tkeys tp =>
      have here : RopBad u s.classes sk skeys tk tkeys → e = .metaErr → e = .metaErr ∧ SomeRopBad u s.classes
          (.createRop rel sk sc skeys sp tk tc tkeys tp :: rest) :=
        fun hb he => ⟨he, rel, sk, sc, skeys, sp, tk, tc, tkeys, tp, by simp, hb⟩
      have none_of : ∀ k, s.find? u k = none → ∀ c ∈ s.classes, sameKind u c.kind k = false := by
        intro k hf c hc
        simp only [BState.find?, List.find?_eq_none] at hf
        have := hf c hc
        simpa [sameKind] using this
      simp only [popAssocs] at h
      cases h1 : s.find? u sk with
      | none =>
        rw [h1] at h; simp only [Except.error.injEq] at h
        exact here (Or.inl (none_of sk h1)) h.symm
      | some c1 =>
        cases h2 : s.find? u tk with
        | none =>
          rw [h1, h2] at h; simp only [Except.error.injEq] at h
          exact here (Or.inr (Or.inl (none_of tk h2))) h.symm
        | some c2 =>
          rw [h1, h2] at h; simp only at h
          by_cases hdu : skeys.any isDunder = true
          · simp only [hdu, if_true, Except.error.injEq] at h
            exact here (Or.inr (Or.inr (Or.inl hdu))) h.symm
          simp only [hdu, Bool.false_eq_true, if_false] at h
          by_cases hl : (skeys.length != tkeys.length) = true
          · simp only [hl, if_true, Except.error.injEq] at h
            exact here (Or.inr (Or.inr (Or.inr (Or.inl (by simpa using hl))))) h.symm
          · simp only [hl, Bool.false_eq_true, if_false] at h
            by_cases hk : tkeys.all (fun k => (c2.attrs.map (fun a => u.upper a.1)).contains (u.upper k)) = true
            · simp only [hk, if_true] at h
              -- the statement is accepted; a later one fails, and its cause holds for the classes before the update
              have hstep : (s.update u sk (fun c => { c with referential := c.referential ++ skeys })).classes =
                  s.classes.map (fun c => if sameKind u c.kind sk then { c with referential := c.referential ++ skeys } else c) :=
                update_eq_map u s sk _
              have hd' : KindsDistinct u (s.update u sk (fun c => { c with referential := c.referential ++ skeys })).classes := by
                rw [hstep]
                unfold KindsDistinct at hd ⊢
                rw [List.map_map]
                have e1 : (fun c => u.upper c.kind) ∘ (fun c : ClassB => if sameKind u c.kind sk then { c with referential := c.referential ++ skeys } else c) =
                    fun c : ClassB => u.upper c.kind := by
                  funext d; simp only [Function.comp]; split <;> rfl
                rw [e1]; exact hd
              obtain ⟨he, a, b, c, d, e', f, g, i, j, hm, hb⟩ := ih _ e (by exact hd') h
              refine ⟨he, a, b, c, d, e', f, g, i, j, by simp [hm], ?_⟩
              have hb' : RopBad u (s.update u sk (fun c => { c with referential := c.referential ++ skeys })).classes b d f i := hb
              rw [hstep] at hb'
              exact RopBad.unmap u _ (fun c => by split <;> rfl) (fun c => by split <;> rfl) hb'
            · simp only [hk, Bool.false_eq_true, if_false, Except.error.injEq] at h
              refine here (Or.inr (Or.inr (Or.inr (Or.inr ?_)))) h.symm
              intro c hc hs
              have hm2 : c2 ∈ s.classes := List.mem_of_find?_eq_some h2
              have hk2 : sameKind u c2.kind tk = true := by
                have := List.find?_some (show s.classes.find? (fun c => u.upper c.kind == u.upper tk) = some c2 from h2)
                exact this
              have : c = c2 := eq_of_sameKind u hd hc hm2 hs hk2
              subst this
              have hk' : tkeys.all (fun k => (c.attrs.map (fun a => u.upper a.1)).contains (u.upper k)) = false := by
                simpa using hk
              rw [List.all_eq_false] at hk'
              obtain ⟨k, hkm, hkc⟩ := hk'
              exact ⟨k, hkm, by simpa using hkc⟩
    | createTable _ _ => exact skip (by simpa [popAssocs] using h)
    | createIndex _ _ _ => exact skip (by simpa [popAssocs] using h)
    | insert _ _ _ => exact skip (by simpa [popAssocs] using h)

/-- phase 3 fails exactly when `define_association` rejects some CREATE ROP statement (`RopBad`, against the classes of
    the state); then with the metamodel exception -/
theorem popAssocs_error_iff (u : UC) (stmts : List Stmt) (s : BState) (e : BuildErr) (hd : KindsDistinct u s.classes) :
    popAssocs u stmts s = .error e ↔ (e = .metaErr ∧ SomeRopBad u s.classes stmts) := by
  constructor
  · exact popAssocs_error u stmts s e hd
  · intro ⟨he, hb⟩; subst he; exact popAssocs_bad u stmts s hb

/-! ### phase 4: the first INSERT that fails -/

/-- the statements before the first failing INSERT succeed, and it fails in the state they leave -/
def FirstInsertFails (u : UC) (stmts : List Stmt) (s : BState) (e : BuildErr) : Prop :=
  ∃ pre kind values names post s', stmts = pre ++ Stmt.insert kind values names :: post ∧
    popInstances u pre s = .ok s' ∧ InsertFails u s' kind values names e

theorem popInstances_error_iff (u : UC) : ∀ (stmts : List Stmt) (s : BState) (e : BuildErr),
    popInstances u stmts s = .error e ↔ FirstInsertFails u stmts s e := by
  intro stmts s e
  constructor
  · revert s
    induction stmts with
    | nil => intro s h; simp [popInstances] at h
    | cons st rest ih =>
      intro s h
      cases st with
      | insert kind values names =>
        simp only [popInstances] at h
        cases hp : popInstance u s kind values names with
        | error e' =>
          rw [hp] at h; simp only [Except.error.injEq] at h; subst h
          exact ⟨[], kind, values, names, rest, s, rfl, rfl, (popInstance_error_iff u s kind values names e').mp hp⟩
        | ok s1 =>
          rw [hp] at h
          obtain ⟨pre, k, v, n, post, s', hs, hpre, hf⟩ := ih s1 h
          exact ⟨.insert kind values names :: pre, k, v, n, post, s', by simp [hs], by simp [popInstances, hp, hpre], hf⟩
      | createTable a b =>
        obtain ⟨pre, k, v, n, post, s', hs, hp, hf⟩ := ih s (by simpa [popInstances] using h)
        exact ⟨.createTable a b :: pre, k, v, n, post, s', by simp [hs], by simpa [popInstances] using hp, hf⟩
      | createIndex a b c =>
        obtain ⟨pre, k, v, n, post, s', hs, hp, hf⟩ := ih s (by simpa [popInstances] using h)
        exact ⟨.createIndex a b c :: pre, k, v, n, post, s', by simp [hs], by simpa [popInstances] using hp, hf⟩
      | createRop a b c d e' f g i j =>
        obtain ⟨pre, k, v, n, post, s', hs, hp, hf⟩ := ih s (by simpa [popInstances] using h)
        exact ⟨.createRop a b c d e' f g i j :: pre, k, v, n, post, s', by simp [hs], by simpa [popInstances] using hp, hf⟩
  · intro ⟨pre, k, v, n, post, s', hs, hpre, hf⟩
    subst hs
    exact popInstances_first_failure u pre s s' k v n post e hpre ((popInstance_error_iff u s' k v n e).mpr hf)

/-! ### the whole build -/

/-- WHY a build fails: the phase, the statement and the state reached before it -/
inductive Failure (u : UC) (stmts : List Stmt) : BuildErr → Prop
  | tables : ¬ (KindsDistinct u (newTables stmts) ∧ ∀ c ∈ newTables stmts, attrNamesOk u c.attrs = true) →
      Failure u stmts .metaErr
  | index (s1 : BState) : popClasses u stmts BState.empty = .ok s1 → IndexBad u s1.classes stmts → Failure u stmts .metaErr
  | rop (s1 s2 : BState) : popClasses u stmts BState.empty = .ok s1 → popIdents u stmts s1 = .ok s2 →
      SomeRopBad u s2.classes stmts → Failure u stmts .metaErr
  | insert (s1 s2 s3 : BState) (e : BuildErr) : popClasses u stmts BState.empty = .ok s1 → popIdents u stmts s1 = .ok s2 →
      popAssocs u stmts s2 = .ok s3 → FirstInsertFails u stmts s3 e → Failure u stmts e

theorem buildCore_error_iff (u : UC) (stmts : List Stmt) (e : BuildErr) :
    buildCore u stmts = .error e ↔ Failure u stmts e := by
  constructor
  · intro h
    unfold buildCore at h
    cases h1 : popClasses u stmts BState.empty with
    | error e1 =>
      rw [h1] at h; simp only [Except.error.injEq] at h; subst h
      have hno : ¬ (KindsDistinct u (newTables stmts) ∧ ∀ c ∈ newTables stmts, attrNamesOk u c.attrs = true) := by
        intro hok
        obtain ⟨s, hs⟩ := (popClasses_ok_iff u stmts).mpr hok
        rw [hs] at h1; cases h1
      have : e1 = .metaErr := by
        have := popClasses_dup u stmts BState.empty (by simp [KindsDistinct, BState.empty])
          (by intro ht; exact hno ⟨by simpa [BState.empty] using ht.1, ht.2⟩)
        rw [this] at h1; simp only [Except.error.injEq] at h1; exact h1.symm
      subst this; exact .tables hno
    | ok s1 =>
      rw [h1] at h; simp only at h
      have i1 := popClasses_inv u stmts _ s1 (inv_empty u) h1
      cases h2 : popIdents u stmts s1 with
      | error e2 =>
        rw [h2] at h; simp only [Except.error.injEq] at h; subst h
        obtain ⟨he, hb⟩ := popIdents_error u stmts s1 e2 h2
        subst he; exact .index s1 h1 hb
      | ok s2 =>
        rw [h2] at h; simp only at h
        have i2 := popIdents_inv u stmts s1 s2 i1 h2
        cases h3 : popAssocs u stmts s2 with
        | error e3 =>
          rw [h3] at h; simp only [Except.error.injEq] at h; subst h
          obtain ⟨he, hb⟩ := popAssocs_error u stmts s2 e3 i2.distinct h3
          subst he; exact .rop s1 s2 h1 h2 hb
        | ok s3 =>
          rw [h3] at h; simp only at h
          exact .insert s1 s2 s3 e h1 h2 h3 ((popInstances_error_iff u stmts s3 e).mp h)
  · intro h
    cases h with
    | tables hno =>
      exact buildCore_fails_tables u stmts (fun ht => hno ⟨by simpa using ht.1, ht.2⟩)
    | index s1 h1 hb =>
      unfold buildCore; simp only [h1, popIdents_unknown u stmts s1 hb]
    | rop s1 s2 h1 h2 hb =>
      unfold buildCore; simp only [h1, h2, popAssocs_bad u stmts s2 hb]
    | insert s1 s2 s3 e h1 h2 h3 hf =>
      unfold buildCore; simp only [h1, h2, h3]
      exact (popInstances_error_iff u stmts s3 e).mpr hf

/-- THE CAUSES OF A FAILING BUILD, exactly -/
theorem build_error_iff (u : UC) (stmts : List Stmt) (e : BuildErr) :
    build u stmts = .error e ↔ Failure u stmts e := by
  rw [build_eq_core u stmts]; exact buildCore_error_iff u stmts e

/-! ### no built-in exception -/

/-- every value of every INSERT has one of the lexical forms `guess_type_name` knows (true of every value the parser
    produces: Proofs/SqlValueForms.lean) -/
def ValuesGuessable (u : UC) (stmts : List Stmt) : Prop :=
  ∀ kind values names, Stmt.insert kind values names ∈ stmts → ∀ v ∈ values, (guessType u v).isSome = true

theorem failure_documented (u : UC) (stmts : List Stmt) (e : BuildErr) (hg : ValuesGuessable u stmts) (h : Failure u stmts e) :
    e = .metaErr ∨ e = .parseErr := by
  cases h with
  | tables _ => exact Or.inl rfl
  | index _ _ _ => exact Or.inl rfl
  | rop _ _ _ _ _ => exact Or.inl rfl
  | insert s1 s2 s3 e _ _ _ hf =>
    obtain ⟨pre, k, v, n, post, s', hs, _, hi⟩ := hf
    cases hi with
    | arity _ => exact Or.inr rfl
    | nameClash _ _ => exact Or.inl rfl
    | unguessable _ _ hgs =>
      exfalso
      obtain ⟨_, x, hx, hn⟩ := (guessOk_false_iff u s' k v).mp hgs
      have := hg k v n (by rw [hs]; simp) x hx
      rw [hn] at this; cases this
    | unknownType _ _ _ _ _ _ => exact Or.inl rfl
    | badValue _ _ _ _ _ _ _ _ => exact Or.inr rfl

/-- NO BUILT-IN EXCEPTION: a build of statements whose values have the lexical forms of the dialect returns a metamodel or
    raises the metamodel exception or the parsing exception; the three places where Python could raise a built-in
    (`stmt.values[idx]`, `None.upper()`, `len(value)`) are not reached -/
theorem build_documented (u : UC) (stmts : List Stmt) (hg : ValuesGuessable u stmts) :
    (∃ s, build u stmts = .ok s) ∨ build u stmts = .error .metaErr ∨ build u stmts = .error .parseErr := by
  cases h : build u stmts with
  | ok s => exact Or.inl ⟨s, rfl⟩
  | error e =>
    rcases failure_documented u stmts e hg ((build_error_iff u stmts e).mp h) with rfl | rfl
    · exact Or.inr (Or.inl rfl)
    · exact Or.inr (Or.inr rfl)

end Pyx.Sql
