import Proofs.OalLex
import Proofs.OalParseCase
import PyxModel.Oal.LexGen

/-!
  Bridge between the two halves of the OAL front end (for C08 `text_case`, C07 text -> tree):
    the character-level lexer model  `Pyx.OalLex.lex : List Char → List Pyx.OalLex.Tok`  (kind = token type as the
        characters of its PLY name, tables generated from oal.py)
    the token-level parser model     `Pyx.Oal.parseStmts : Tbl → List Pyx.Oal.Tok → Option Block`  (kind : Pyx.Oal.Kind)

  `toParserTok` converts a lexer token; `kindNames` is the name table of `Pyx.Oal.Kind`;
  `kw_tables_agree`: the hand-written `Kind.isKeyword` and the keyword table generated from the source
  (`isKwKind Gen.OalLex.cfg`) say the same about every kind; `lexer_kinds_covered`: every token type the generated
  lexer table can return has a `Kind`.
-/
namespace Pyx.OalLex
open Pyx.Oal (Kind)

/-- the PLY name of every parser token kind -/
def kindNames : List (Kind × List Char) := [
  (.ASSIGN, ['A', 'S', 'S', 'I', 'G', 'N']),
  (.ASSIGNER, ['A', 'S', 'S', 'I', 'G', 'N', 'E', 'R']),
  (.BREAK, ['B', 'R', 'E', 'A', 'K']),
  (.BRIDGE, ['B', 'R', 'I', 'D', 'G', 'E']),
  (.SEND, ['S', 'E', 'N', 'D']),
  (.CONTROL, ['C', 'O', 'N', 'T', 'R', 'O', 'L']),
  (.STOP, ['S', 'T', 'O', 'P']),
  (.CONTINUE, ['C', 'O', 'N', 'T', 'I', 'N', 'U', 'E']),
  (.CREATE, ['C', 'R', 'E', 'A', 'T', 'E']),
  (.EVENT, ['E', 'V', 'E', 'N', 'T']),
  (.INSTANCE, ['I', 'N', 'S', 'T', 'A', 'N', 'C', 'E']),
  (.OF, ['O', 'F']),
  (.OBJECT, ['O', 'B', 'J', 'E', 'C', 'T']),
  (.DELETE, ['D', 'E', 'L', 'E', 'T', 'E']),
  (.FOR, ['F', 'O', 'R']),
  (.EACH, ['E', 'A', 'C', 'H']),
  (.IN, ['I', 'N']),
  (.GENERATE, ['G', 'E', 'N', 'E', 'R', 'A', 'T', 'E']),
  (.IF, ['I', 'F']),
  (.ELIF, ['E', 'L', 'I', 'F']),
  (.ELSE, ['E', 'L', 'S', 'E']),
  (.RELATE, ['R', 'E', 'L', 'A', 'T', 'E']),
  (.TO, ['T', 'O']),
  (.ACROSS, ['A', 'C', 'R', 'O', 'S', 'S']),
  (.USING, ['U', 'S', 'I', 'N', 'G']),
  (.RETURN, ['R', 'E', 'T', 'U', 'R', 'N']),
  (.SELECT, ['S', 'E', 'L', 'E', 'C', 'T']),
  (.ONE, ['O', 'N', 'E']),
  (.ANY, ['A', 'N', 'Y']),
  (.MANY, ['M', 'A', 'N', 'Y']),
  (.TRANSFORM, ['T', 'R', 'A', 'N', 'S', 'F', 'O', 'R', 'M']),
  (.UNRELATE, ['U', 'N', 'R', 'E', 'L', 'A', 'T', 'E']),
  (.FROM, ['F', 'R', 'O', 'M']),
  (.WHILE, ['W', 'H', 'I', 'L', 'E']),
  (.CLASS, ['C', 'L', 'A', 'S', 'S']),
  (.CREATOR, ['C', 'R', 'E', 'A', 'T', 'O', 'R']),
  (.RELATED, ['R', 'E', 'L', 'A', 'T', 'E', 'D']),
  (.BY, ['B', 'Y']),
  (.INSTANCES, ['I', 'N', 'S', 'T', 'A', 'N', 'C', 'E', 'S']),
  (.WHERE, ['W', 'H', 'E', 'R', 'E']),
  (.CARDINALITY, ['C', 'A', 'R', 'D', 'I', 'N', 'A', 'L', 'I', 'T', 'Y']),
  (.EMPTY, ['E', 'M', 'P', 'T', 'Y']),
  (.FALSE, ['F', 'A', 'L', 'S', 'E']),
  (.NOT, ['N', 'O', 'T']),
  (.NOT_EMPTY, ['N', 'O', 'T', '_', 'E', 'M', 'P', 'T', 'Y']),
  (.TRUE, ['T', 'R', 'U', 'E']),
  (.AND, ['A', 'N', 'D']),
  (.OR, ['O', 'R']),
  (.PARAM, ['P', 'A', 'R', 'A', 'M']),
  (.RCVD_EVT, ['R', 'C', 'V', 'D', '_', 'E', 'V', 'T']),
  (.SELF, ['S', 'E', 'L', 'F']),
  (.SELECTED, ['S', 'E', 'L', 'E', 'C', 'T', 'E', 'D']),
  (.LOOP, ['L', 'O', 'O', 'P']),
  (.THEN, ['T', 'H', 'E', 'N']),
  (.SEMICOLON, ['S', 'E', 'M', 'I', 'C', 'O', 'L', 'O', 'N']),
  (.EQUAL, ['E', 'Q', 'U', 'A', 'L']),
  (.DOT, ['D', 'O', 'T']),
  (.DOUBLECOLON, ['D', 'O', 'U', 'B', 'L', 'E', 'C', 'O', 'L', 'O', 'N']),
  (.LPAREN, ['L', 'P', 'A', 'R', 'E', 'N']),
  (.RPAREN, ['R', 'P', 'A', 'R', 'E', 'N']),
  (.TIMES, ['T', 'I', 'M', 'E', 'S']),
  (.COLON, ['C', 'O', 'L', 'O', 'N']),
  (.COMMA, ['C', 'O', 'M', 'M', 'A']),
  (.ARROW, ['A', 'R', 'R', 'O', 'W']),
  (.LSQBR, ['L', 'S', 'Q', 'B', 'R']),
  (.RSQBR, ['R', 'S', 'Q', 'B', 'R']),
  (.ID, ['I', 'D']),
  (.NAMESPACE, ['N', 'A', 'M', 'E', 'S', 'P', 'A', 'C', 'E']),
  (.END_FOR, ['E', 'N', 'D', '_', 'F', 'O', 'R']),
  (.END_IF, ['E', 'N', 'D', '_', 'I', 'F']),
  (.END_WHILE, ['E', 'N', 'D', '_', 'W', 'H', 'I', 'L', 'E']),
  (.TICKED_PHRASE, ['T', 'I', 'C', 'K', 'E', 'D', '_', 'P', 'H', 'R', 'A', 'S', 'E']),
  (.QMARK, ['Q', 'M', 'A', 'R', 'K']),
  (.FRACTION, ['F', 'R', 'A', 'C', 'T', 'I', 'O', 'N']),
  (.NUMBER, ['N', 'U', 'M', 'B', 'E', 'R']),
  (.STRING, ['S', 'T', 'R', 'I', 'N', 'G']),
  (.DOUBLEEQUAL, ['D', 'O', 'U', 'B', 'L', 'E', 'E', 'Q', 'U', 'A', 'L']),
  (.NOTEQUAL, ['N', 'O', 'T', 'E', 'Q', 'U', 'A', 'L']),
  (.LESSTHAN, ['L', 'E', 'S', 'S', 'T', 'H', 'A', 'N']),
  (.LE, ['L', 'E']),
  (.GT, ['G', 'T']),
  (.GE, ['G', 'E']),
  (.PLUS, ['P', 'L', 'U', 'S']),
  (.MINUS, ['M', 'I', 'N', 'U', 'S']),
  (.PIPE, ['P', 'I', 'P', 'E']),
  (.DIV, ['D', 'I', 'V']),
  (.MOD, ['M', 'O', 'D']),
  (.AMP, ['A', 'M', 'P']),
  (.CARET, ['C', 'A', 'R', 'E', 'T'])
]

def kindOfChars (k : List Char) : Option Kind := (kindNames.find? (fun p => p.2 == k)).map (·.1)

/-- a lexer token as the parser sees it; a token type without a `Kind` (there is none, `lexer_kinds_covered`)
    would become an ID -/
def toParserTok (t : Tok) : Pyx.Oal.Tok := ⟨(kindOfChars t.kind).getD .ID, String.ofList t.lexeme⟩

def toParserToks (ts : List Tok) : List Pyx.Oal.Tok := ts.map toParserTok

/-- every `Kind` has exactly one entry in the name table -/
theorem kindNames_complete (k : Kind) : kindOfChars ((kindNames.find? (fun p => p.1 == k)).map (·.2) |>.getD []) = some k := by
  cases k <;> decide

/-- kw_tables_agree: for every token kind, `Kind.isKeyword` (hand-written in the parser model) equals membership
    in the keyword table generated from oal.py (keywords ∪ END_FOR / END_IF / END_WHILE) -/
theorem kw_tables_agree : (kindNames.all fun p => p.1.isKeyword == isKwKind Gen.OalLex.cfg p.2) = true := by
  decide +kernel

/-- every token type the generated lexer table can return (rule names of token-returning rules, keywords) has a
    parser kind -/
theorem lexer_kinds_covered :
    ((Gen.OalLex.rules.filter (·.returnsTok)).all fun r => (kindOfChars r.name).isSome) = true ∧
    (Gen.OalLex.keywords.all fun k => (kindOfChars k).isSome) = true := by
  constructor <;> decide +kernel

theorem kwKinds_covered :
    ((Gen.OalLex.keywords ++ endKinds).all fun k => (kindOfChars k).isSome) = true := by decide +kernel

theorem kindOfChars_kw (k : List Char) (kd : Kind) (h : kindOfChars k = some kd) :
    kd.isKeyword = isKwKind Gen.OalLex.cfg k := by
  unfold kindOfChars at h
  cases hf : kindNames.find? (fun p => p.2 == k) with
  | none => rw [hf] at h; simp at h
  | some p =>
    rw [hf] at h
    simp only [Option.map_some, Option.some.injEq] at h
    have hm := List.mem_of_find?_eq_some hf
    have hp := List.find?_some hf
    simp only [beq_iff_eq] at hp
    have := List.all_eq_true.mp kw_tables_agree p hm
    simp only [beq_iff_eq] at this
    rw [← h, ← hp]; exact this


/-! ## from equal normalised lexer streams to a re-spelling of parser tokens -/

theorem toLower_eq_lowerAscii (c : Char) : c.toLower = lowerAscii c := by
  apply Char.toNat_inj.mp
  rw [toNat_lower]
  unfold Char.toLower
  by_cases h : c.val ≥ 'A'.val ∧ c.val ≤ 'Z'.val
  · rw [dif_pos h]
    have h1 : 65 ≤ c.toNat ∧ c.toNat ≤ 90 := by
      obtain ⟨ha, hb⟩ := h
      rw [ge_iff_le, UInt32.le_iff_toNat_le] at ha
      rw [UInt32.le_iff_toNat_le] at hb
      exact ⟨ha, hb⟩
    have hu : isUpperA c = true := by
      simp only [isUpperA, Bool.and_eq_true, decide_eq_true_eq]; exact h1
    rw [if_pos hu]
    show (c.val + ('a'.val - 'A'.val)).toNat = c.toNat + 32
    rw [UInt32.toNat_add]
    have : ('a'.val - 'A'.val).toNat = 32 := by decide
    rw [this, Char.toNat_val, Nat.mod_eq_of_lt (by omega)]
  · rw [dif_neg h]
    have hu : isUpperA c = false := by
      simp only [isUpperA, Bool.and_eq_false_iff, decide_eq_false_iff_not]
      by_cases ha : 65 ≤ c.toNat
      · right
        intro hb
        apply h
        refine ⟨?_, ?_⟩
        · rw [ge_iff_le, UInt32.le_iff_toNat_le]; exact ha
        · rw [UInt32.le_iff_toNat_le]; exact hb
      · exact Or.inl ha
    simp [hu]

theorem lowerStr_ofList (l : List Char) : Pyx.Oal.lowerStr (String.ofList l) = String.ofList (l.map lowerAscii) := by
  unfold Pyx.Oal.lowerStr
  rw [String.toList_ofList]
  congr 1
  exact List.map_congr_left (fun c _ => toLower_eq_lowerAscii c)

theorem isKwKind_mapped (k : List Char) (h : isKwKind Gen.OalLex.cfg k = true) : ∃ kd, kindOfChars k = some kd := by
  have hm : k ∈ Gen.OalLex.keywords ++ endKinds := by
    simp only [isKwKind, Bool.or_eq_true, List.contains_iff_mem] at h
    exact List.mem_append.mpr h
  have := List.all_eq_true.mp kwKinds_covered k hm
  exact Option.isSome_iff_exists.mp this

/-- keyword kinds of the two models coincide on converted tokens -/
theorem toParserTok_isKeyword (t : Tok) : (toParserTok t).kind.isKeyword = isKwKind Gen.OalLex.cfg t.kind := by
  unfold toParserTok
  cases h : kindOfChars t.kind with
  | some kd => simp only [Option.getD_some]; exact kindOfChars_kw _ _ h
  | none =>
    simp only [Option.getD_none]
    cases hk : isKwKind Gen.OalLex.cfg t.kind with
    | false => rfl
    | true => obtain ⟨kd, hkd⟩ := isKwKind_mapped _ hk; rw [h] at hkd; simp at hkd

theorem respells_of_norm (t t' : Tok) (h : normTok Gen.OalLex.cfg t' = normTok Gen.OalLex.cfg t) :
    Pyx.Oal.Tok.Respells (toParserTok t) (toParserTok t') := by
  have hk : t'.kind = t.kind := by
    have := congrArg Tok.kind h
    unfold normTok at this
    split at this <;> split at this <;> simpa using this
  refine ⟨by simp [toParserTok, hk], ?_⟩
  rw [toParserTok_isKeyword]
  unfold normTok at h
  rw [hk] at h
  cases hkw : isKwKind Gen.OalLex.cfg t.kind with
  | true =>
    simp only [hkw, if_true] at h ⊢
    have hl : t'.lexeme.map lowerAscii = t.lexeme.map lowerAscii := by
      have := congrArg Tok.lexeme h; simpa using this
    simp only [toParserTok, lowerStr_ofList, hl]
  | false =>
    simp only [hkw, Bool.false_eq_true, if_false] at h ⊢
    simp [toParserTok, h]

theorem respelling_of_norm : ∀ (l l' : List Tok),
    l'.map (normTok Gen.OalLex.cfg) = l.map (normTok Gen.OalLex.cfg) →
    Pyx.Oal.Respelling (toParserToks l) (toParserToks l') := by
  intro l
  induction l with
  | nil =>
    intro l' h
    cases l' with
    | nil => exact .nil
    | cons _ _ => simp at h
  | cons t l ih =>
    intro l' h
    cases l' with
    | nil => simp at h
    | cons t' l' =>
      simp only [List.map_cons, List.cons.injEq] at h
      exact .cons (respells_of_norm t t' h.1) (ih l' h.2)

/-- text_case, given the lexical half: two texts whose normalised token streams agree (C08 `lex_case`: they differ
    only in the letter case of keyword occurrences) parse - lexer model, conversion, parser model, any precedence
    table - to trees that are equal after lower-casing the spelling-carrying fields; one is rejected iff the other is -/
theorem text_case_of_lex (tbl : Pyx.Oal.Tbl) (text text' : List Char)
    (hlex : (lex text').map (normTok Gen.OalLex.cfg) = (lex text).map (normTok Gen.OalLex.cfg)) :
    (Pyx.Oal.parseStmts tbl (toParserToks (lex text'))).map Pyx.Oal.normCase =
      (Pyx.Oal.parseStmts tbl (toParserToks (lex text))).map Pyx.Oal.normCase ∧
    (Pyx.Oal.parseStmts tbl (toParserToks (lex text')) = none ↔
      Pyx.Oal.parseStmts tbl (toParserToks (lex text)) = none) := by
  have hr := respelling_of_norm (lex text) (lex text') hlex
  exact ⟨Pyx.Oal.parseStmts_respelling tbl hr, Pyx.Oal.parseStmts_reject_iff tbl hr.sameButKeywords⟩

end Pyx.OalLex
