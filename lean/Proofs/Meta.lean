import PyxModel.Meta

/-! helper lemmas for C02: one association (two directed link maps) -/
namespace Pyx.Meta

@[simp] theorem upd_same {α : Type} (f : Nat → α) (a : Nat) (v : α) : upd f a v a = v := by simp [upd]
theorem upd_other {α : Type} (f : Nat → α) {a z : Nat} (v : α) (h : z ≠ a) : upd f a v z = f z := by simp [upd, h]

/-- symmetric navigation: `y` is reached from `x` over the source link iff `x` is reached from `y`
    over the target link -/
def Sym (l : ALinks) : Prop := ∀ x y, y ∈ l.src x ↔ x ∈ l.tgt y
def NoDup (l : ALinks) : Prop := (∀ x, (l.src x).Nodup) ∧ (∀ y, (l.tgt y).Nodup)
def Bounded (a : AssocSpec) (l : ALinks) : Prop :=
  (a.srcMany = false → ∀ x, (l.src x).length ≤ 1) ∧ (a.tgtMany = false → ∀ y, (l.tgt y).length ≤ 1)
def AInv (a : AssocSpec) (l : ALinks) : Prop := Sym l ∧ NoDup l ∧ Bounded a l

theorem connect_mem {many : Bool} {m m' : Inst → List Inst} {x y : Inst} (h : connect many m x y = some m') :
    ∀ z w, w ∈ m' z ↔ (w ∈ m z ∨ (z = x ∧ w = y)) := by
  intro z w
  unfold connect at h
  split at h
  · cases h; constructor
    · exact Or.inl
    · rintro (hw | ⟨rfl, rfl⟩) <;> assumption
  · split at h
    · cases h
    · cases h
      by_cases hz : z = x
      · subst hz; simp [upd]
      · simp [upd, hz]

theorem connect_nodup {many : Bool} {m m' : Inst → List Inst} {x y : Inst} (h : connect many m x y = some m')
    (hn : ∀ z, (m z).Nodup) : ∀ z, (m' z).Nodup := by
  intro z
  unfold connect at h
  split at h
  · cases h; exact hn z
  · rename_i hy
    split at h
    · cases h
    · cases h
      by_cases hz : z = x
      · subst hz
        simp only [upd, ↓reduceIte]
        rw [List.nodup_append]
        refine ⟨hn z, by simp, ?_⟩
        intro a ha b hb
        simp at hb; subst hb
        intro hab; subst hab; exact hy ha
      · simp [upd, hz, hn z]

theorem connect_len {many : Bool} {m m' : Inst → List Inst} {x y : Inst} (h : connect many m x y = some m')
    (hm : many = false) (hb : ∀ z, (m z).length ≤ 1) : ∀ z, (m' z).length ≤ 1 := by
  intro z
  unfold connect at h
  split at h
  · cases h; exact hb z
  · split at h
    · cases h
    · rename_i hcond
      cases h
      by_cases hz : z = x
      · subst hz
        have : m z = [] := by
          apply Classical.byContradiction
          intro hne; exact hcond ⟨hne, hm⟩
        simp [upd, this]
      · simp [upd, hz, hb z]

theorem connect_none {many : Bool} {m : Inst → List Inst} {x y : Inst} (h : connect many m x y = none) :
    y ∉ m x ∧ m x ≠ [] ∧ many = false := by
  unfold connect at h
  split at h
  · cases h
  · rename_i hy
    split at h
    · rename_i hc; exact ⟨hy, hc.1, hc.2⟩
    · cases h

theorem connect_of_mem {many : Bool} {m : Inst → List Inst} {x y : Inst} (h : y ∈ m x) :
    connect many m x y = some m := by simp [connect, h]

theorem disconnect_mem {m m' : Inst → List Inst} {x y : Inst} (h : disconnect m x y = some m')
    (hn : ∀ z, (m z).Nodup) : ∀ z w, w ∈ m' z ↔ (w ∈ m z ∧ ¬ (z = x ∧ w = y)) := by
  intro z w
  unfold disconnect at h
  split at h
  · cases h
    by_cases hz : z = x
    · subst hz
      simp only [upd, ↓reduceIte, true_and]
      rw [(hn z).mem_erase_iff]
      exact And.comm
    · simp [upd, hz]
  · cases h

theorem disconnect_nodup {m m' : Inst → List Inst} {x y : Inst} (h : disconnect m x y = some m')
    (hn : ∀ z, (m z).Nodup) : ∀ z, (m' z).Nodup := by
  intro z
  unfold disconnect at h
  split at h
  · cases h
    by_cases hz : z = x
    · subst hz; simp only [upd, ↓reduceIte]; exact (hn z).erase y
    · simp [upd, hz, hn z]
  · cases h

theorem disconnect_len {m m' : Inst → List Inst} {x y : Inst} (h : disconnect m x y = some m')
    (hb : ∀ z, (m z).length ≤ 1) : ∀ z, (m' z).length ≤ 1 := by
  intro z
  unfold disconnect at h
  split at h
  · cases h
    by_cases hz : z = x
    · subst hz
      simp only [upd, ↓reduceIte]
      have := List.length_erase_le (a := y) (l := m z)
      have := hb z
      omega
    · simp [upd, hz, hb z]
  · cases h

theorem disconnect_some_iff {m : Inst → List Inst} {x y : Inst} :
    (∃ m', disconnect m x y = some m') ↔ y ∈ m x := by
  unfold disconnect
  constructor
  · rintro ⟨m', h⟩; split at h
    · assumption
    · cases h
  · intro h; exact ⟨upd m x ((m x).erase y), by simp [h]⟩

/-- appending a new element and erasing it again restores the list -/
theorem erase_append_new {l : List Inst} {y : Inst} (h : y ∉ l) : (l ++ [y]).erase y = l := by
  rw [List.erase_append_right _ h]; simp

theorem upd_upd_self {α : Type} (f : Nat → α) (a : Nat) (v : α) : upd (upd f a v) a (f a) = f := by
  funext z; by_cases h : z = a <;> simp [upd, h]

/-! relateOn -/

theorem relateOn_ok {a : AssocSpec} {l l' : ALinks} {x y : Inst} (h : relateOn a l x y = (l', .ok)) :
    ∃ s' t', connect a.srcMany l.src x y = some s' ∧ connect a.tgtMany l.tgt y x = some t' ∧
      l' = { src := s', tgt := t' } := by
  unfold relateOn at h
  split at h
  · cases h
  · rename_i s' hs
    split at h
    · split at h <;> cases h
    · rename_i t' ht
      cases h; exact ⟨s', t', hs, ht, rfl⟩

theorem relateOn_out (a : AssocSpec) (l : ALinks) (x y : Inst) :
    (relateOn a l x y).2 = .ok ∨ (relateOn a l x y).2 = .relateExc := by
  unfold relateOn
  split
  · exact Or.inr rfl
  · split
    · split <;> exact Or.inr rfl
    · exact Or.inl rfl

/-- a rejected relate leaves a symmetric association exactly as it was (uses the undo) -/
theorem relateOn_reject_atomic {a : AssocSpec} {l : ALinks} {x y : Inst} (hsym : Sym l)
    (h : (relateOn a l x y).2 = .relateExc) : (relateOn a l x y).1 = l := by
  unfold relateOn at h ⊢
  split
  · rfl
  · rename_i s' hs
    split
    · rename_i ht
      -- second connect refused: then (x,y) was not related, so the first connect appended y
      have hnot := connect_none ht
      have hy : y ∉ l.src x := fun hy => hnot.1 ((hsym x y).1 hy)
      have hs' : s' = upd l.src x (l.src x ++ [y]) := by
        unfold connect at hs
        simp only [hy, ↓reduceIte] at hs
        split at hs
        · cases hs
        · cases hs; rfl
      subst hs'
      have hd : disconnect (upd l.src x (l.src x ++ [y])) x y = some l.src := by
        unfold disconnect
        simp only [upd_same, List.mem_append, List.mem_singleton, or_true, ↓reduceIte, erase_append_new hy]
        congr 1
        exact upd_upd_self l.src x _
      simp only [hd]
    · rename_i t' ht
      simp [relateOn, hs, ht] at h

theorem relateOn_sym {a : AssocSpec} {l : ALinks} {x y : Inst} (hsym : Sym l) : Sym (relateOn a l x y).1 := by
  rcases relateOn_out a l x y with h | h
  · obtain ⟨s', t', hs, ht, hl⟩ := relateOn_ok (l' := (relateOn a l x y).1) (by rw [← h])
    rw [hl]
    intro z w
    show w ∈ s' z ↔ z ∈ t' w
    rw [connect_mem hs z w, connect_mem ht w z, hsym z w]
    constructor
    · rintro (hh | ⟨rfl, rfl⟩)
      · exact Or.inl hh
      · exact Or.inr ⟨rfl, rfl⟩
    · rintro (hh | ⟨rfl, rfl⟩)
      · exact Or.inl hh
      · exact Or.inr ⟨rfl, rfl⟩
  · rw [relateOn_reject_atomic hsym h]; exact hsym

theorem relateOn_inv {a : AssocSpec} {l : ALinks} {x y : Inst} (hinv : AInv a l) : AInv a (relateOn a l x y).1 := by
  obtain ⟨hsym, hnd, hb⟩ := hinv
  rcases relateOn_out a l x y with h | h
  · obtain ⟨s', t', hs, ht, hl⟩ := relateOn_ok (l' := (relateOn a l x y).1) (by rw [← h])
    refine ⟨relateOn_sym hsym, ?_, ?_⟩
    · rw [hl]; exact ⟨connect_nodup hs hnd.1, connect_nodup ht hnd.2⟩
    · rw [hl]
      exact ⟨fun hm => connect_len hs hm (hb.1 hm), fun hm => connect_len ht hm (hb.2 hm)⟩
  · rw [relateOn_reject_atomic hsym h]; exact ⟨hsym, hnd, hb⟩

/-- relating an already related pair is a no-op -/
theorem relateOn_idempotent {a : AssocSpec} {l : ALinks} {x y : Inst} (hsym : Sym l) (hr : y ∈ l.src x) :
    relateOn a l x y = (l, .ok) := by
  have hr' : x ∈ l.tgt y := (hsym x y).1 hr
  simp [relateOn, connect_of_mem hr, connect_of_mem hr']

theorem connect_some_new {many : Bool} {m m' : Inst → List Inst} {x y : Inst} (hy : y ∉ m x)
    (h : connect many m x y = some m') : ¬ (m x ≠ [] ∧ many = false) := by
  unfold connect at h
  simp only [hy, ↓reduceIte] at h
  split at h
  · cases h
  · assumption

/-- a relate is rejected exactly when the pair is new and a single-valued end is occupied -/
theorem relateOn_reject_iff {a : AssocSpec} {l : ALinks} {x y : Inst} (hsym : Sym l) :
    (relateOn a l x y).2 = .relateExc ↔
      (y ∉ l.src x ∧ ((l.src x ≠ [] ∧ a.srcMany = false) ∨ (l.tgt y ≠ [] ∧ a.tgtMany = false))) := by
  by_cases h1 : y ∈ l.src x
  · rw [relateOn_idempotent hsym h1]
    constructor
    · intro h; cases h
    · rintro ⟨h, _⟩; exact absurd h1 h
  · have h2 : x ∉ l.tgt y := fun h => h1 ((hsym x y).2 h)
    cases hs : connect a.srcMany l.src x y with
    | none =>
      have := connect_none hs
      simp only [relateOn, hs, true_iff]
      exact ⟨h1, Or.inl ⟨this.2.1, this.2.2⟩⟩
    | some s' =>
      have c1 := connect_some_new h1 hs
      cases ht : connect a.tgtMany l.tgt y x with
      | none =>
        have := connect_none ht
        have hout : (relateOn a l x y).2 = .relateExc := by
          simp only [relateOn, hs, ht]; split <;> rfl
        simp only [hout, true_iff]
        exact ⟨h1, Or.inr ⟨this.2.1, this.2.2⟩⟩
      | some t' =>
        have c2 := connect_some_new h2 ht
        simp only [relateOn, hs, ht]
        constructor
        · intro h; cases h
        · rintro ⟨_, h | h⟩
          · exact absurd h c1
          · exact absurd h c2

/-! unrelateOn -/

theorem unrelateOn_out (l : ALinks) (x y : Inst) :
    (unrelateOn l x y).2 = .ok ∨ (unrelateOn l x y).2 = .unrelateExc := by
  unfold unrelateOn
  split
  · exact Or.inr rfl
  · split
    · exact Or.inr rfl
    · exact Or.inl rfl

theorem unrelateOn_ok {l l' : ALinks} {x y : Inst} (h : unrelateOn l x y = (l', .ok)) :
    ∃ s' t', disconnect l.src x y = some s' ∧ disconnect l.tgt y x = some t' ∧ l' = { src := s', tgt := t' } := by
  unfold unrelateOn at h
  split at h
  · cases h
  · rename_i s' hs
    split at h
    · cases h
    · rename_i t' ht
      cases h; exact ⟨s', t', hs, ht, rfl⟩

theorem unrelateOn_reject_atomic {l : ALinks} {x y : Inst} (hsym : Sym l)
    (h : (unrelateOn l x y).2 = .unrelateExc) : (unrelateOn l x y).1 = l := by
  unfold unrelateOn at h ⊢
  split
  · rfl
  · rename_i s' hs
    split
    · rename_i ht
      have hy : y ∈ l.src x := disconnect_some_iff.1 ⟨s', hs⟩
      have hx : x ∈ l.tgt y := (hsym x y).1 hy
      obtain ⟨t', ht'⟩ := disconnect_some_iff.2 hx
      rw [ht'] at ht; cases ht
    · rename_i t' ht
      simp [unrelateOn, hs, ht] at h

theorem unrelateOn_reject_iff {l : ALinks} {x y : Inst} (hsym : Sym l) :
    (unrelateOn l x y).2 = .unrelateExc ↔ y ∉ l.src x := by
  have hyx : y ∈ l.src x ↔ x ∈ l.tgt y := hsym x y
  unfold unrelateOn disconnect
  by_cases h1 : y ∈ l.src x
  · have h2 : x ∈ l.tgt y := hyx.1 h1
    simp [h1, h2]
  · simp [h1]

theorem unrelateOn_inv {a : AssocSpec} {l : ALinks} {x y : Inst} (hinv : AInv a l) : AInv a (unrelateOn l x y).1 := by
  obtain ⟨hsym, hnd, hb⟩ := hinv
  rcases unrelateOn_out l x y with h | h
  · obtain ⟨s', t', hs, ht, hl⟩ := unrelateOn_ok (l' := (unrelateOn l x y).1) (by rw [← h])
    rw [hl]
    refine ⟨?_, ⟨disconnect_nodup hs hnd.1, disconnect_nodup ht hnd.2⟩,
      ⟨fun hm => disconnect_len hs (hb.1 hm), fun hm => disconnect_len ht (hb.2 hm)⟩⟩
    intro z w
    show w ∈ s' z ↔ z ∈ t' w
    rw [disconnect_mem hs hnd.1 z w, disconnect_mem ht hnd.2 w z, hsym z w]
    constructor
    · rintro ⟨h1, h2⟩; exact ⟨h1, fun ⟨a, b⟩ => h2 ⟨b, a⟩⟩
    · rintro ⟨h1, h2⟩; exact ⟨h1, fun ⟨a, b⟩ => h2 ⟨b, a⟩⟩
  · rw [unrelateOn_reject_atomic hsym h]; exact ⟨hsym, hnd, hb⟩

/-- a successful unrelate exactly undoes a successful relate of a previously unrelated pair -/
theorem unrelateOn_undoes_relateOn {a : AssocSpec} {l l' : ALinks} {x y : Inst} (hsym : Sym l)
    (hnew : y ∉ l.src x) (hr : relateOn a l x y = (l', .ok)) : unrelateOn l' x y = (l, .ok) := by
  obtain ⟨s', t', hs, ht, hl⟩ := relateOn_ok hr
  have hx : x ∉ l.tgt y := fun h => hnew ((hsym x y).2 h)
  have hs' : s' = upd l.src x (l.src x ++ [y]) := by
    unfold connect at hs
    simp only [hnew, ↓reduceIte] at hs
    split at hs
    · cases hs
    · cases hs; rfl
  have ht' : t' = upd l.tgt y (l.tgt y ++ [x]) := by
    unfold connect at ht
    simp only [hx, ↓reduceIte] at ht
    split at ht
    · cases ht
    · cases ht; rfl
  subst hl hs' ht'
  unfold unrelateOn disconnect
  simp only [upd_same, List.mem_append, List.mem_singleton, or_true, ↓reduceIte, erase_append_new hnew,
    erase_append_new hx, upd_upd_self]

end Pyx.Meta
