import Proofs.SqlReload

set_option linter.unusedSimpArgs false

/-! the stable insertion sort of PyxModel/Sql/Chars.lean: its output is sorted, and sorting a sorted list changes nothing -/
namespace Pyx.Sql

/-- a comparison that is total and transitive -/
structure TotalPreorder {α : Type} (le : α → α → Bool) : Prop where
  total : ∀ a b, le a b = true ∨ le b a = true
  trans : ∀ a b c, le a b = true → le b c = true → le a c = true

theorem textLe_total : ∀ (a b : Text), textLe a b = true ∨ textLe b a = true := by
  intro a
  induction a with
  | nil => intro b; left; cases b <;> rfl
  | cons x xs ih =>
    intro b
    cases b with
    | nil => right; rfl
    | cons y ys =>
      simp only [textLe]
      by_cases h1 : x.toNat < y.toNat
      · left; simp [h1]
      · by_cases h2 : y.toNat < x.toNat
        · right; simp [h2]
        · simp only [h1, h2, if_false]; exact ih ys

theorem textLe_trans : ∀ (a b c : Text), textLe a b = true → textLe b c = true → textLe a c = true := by
  intro a
  induction a with
  | nil => intro b c _ _; cases c <;> rfl
  | cons x xs ih =>
    intro b c hab hbc
    cases b with
    | nil => simp [textLe] at hab
    | cons y ys =>
      cases c with
      | nil => simp [textLe] at hbc
      | cons z zs =>
        simp only [textLe] at hab hbc ⊢
        by_cases h1 : x.toNat < y.toNat
        · by_cases h2 : y.toNat < z.toNat
          · have : x.toNat < z.toNat := by omega
            simp [this]
          · by_cases h3 : z.toNat < y.toNat
            · simp [h2, h3] at hbc
            · have : x.toNat < z.toNat := by omega
              simp [this]
        · by_cases h1' : y.toNat < x.toNat
          · simp [h1, h1'] at hab
          · simp only [h1, h1', if_false] at hab
            by_cases h2 : y.toNat < z.toNat
            · have : x.toNat < z.toNat := by omega
              simp [this]
            · by_cases h3 : z.toNat < y.toNat
              · simp [h2, h3] at hbc
              · simp only [h2, h3, if_false] at hbc
                have e1 : ¬ x.toNat < z.toNat := by omega
                have e2 : ¬ z.toNat < x.toNat := by omega
                simp only [e1, e2, if_false]
                exact ih ys zs hab hbc

theorem textLe_preorder : TotalPreorder textLe := ⟨textLe_total, textLe_trans⟩

theorem textLe_refl (a : Text) : textLe a a = true := by
  rcases textLe_total a a with h | h <;> exact h

theorem preorder_comap {α β : Type} (le : β → β → Bool) (h : TotalPreorder le) (f : α → β) :
    TotalPreorder (fun a b => le (f a) (f b)) :=
  ⟨fun a b => h.total (f a) (f b), fun a b c => h.trans (f a) (f b) (f c)⟩

theorem textLe_antisymm : ∀ (a b : Text), textLe a b = true → textLe b a = true → a.map Char.toNat = b.map Char.toNat := by
  intro a
  induction a with
  | nil => intro b _ h; cases b with
    | nil => rfl
    | cons _ _ => simp [textLe] at h
  | cons x xs ih =>
    intro b hab hba
    cases b with
    | nil => simp [textLe] at hab
    | cons y ys =>
      simp only [textLe] at hab hba
      by_cases h1 : x.toNat < y.toNat
      · have : ¬ y.toNat < x.toNat := by omega
        simp [h1, this] at hba
      · by_cases h2 : y.toNat < x.toNat
        · simp [h1, h2] at hab
        · simp only [h1, h2, if_false] at hab hba
          simp only [List.map_cons, ih ys hab hba]
          congr 1; omega

theorem pairLe_preorder : TotalPreorder pairLe := by
  constructor
  · intro a b
    simp only [pairLe]
    by_cases h : a.1 = b.1
    · simp only [h, if_true]; exact textLe_total a.2 b.2
    · have h' : ¬ b.1 = a.1 := fun e => h e.symm
      simp only [h, h', if_false]; exact textLe_total a.1 b.1
  · intro a b c hab hbc
    simp only [pairLe] at hab hbc ⊢
    by_cases h1 : a.1 = b.1
    · by_cases h2 : b.1 = c.1
      · simp only [h1, h2, if_true] at hab hbc ⊢
        exact textLe_trans _ _ _ hab hbc
      · simp only [h1, if_true] at hab
        simp only [h2, if_false] at hbc
        have : ¬ a.1 = c.1 := by rw [h1]; exact h2
        simp only [this, if_false]; rw [h1]; exact hbc
    · simp only [h1, if_false] at hab
      by_cases h2 : b.1 = c.1
      · simp only [h2, if_true] at hbc
        have : ¬ a.1 = c.1 := by rw [← h2]; exact h1
        simp only [this, if_false]; rw [← h2]; exact hab
      · simp only [h2, if_false] at hbc
        have hac := textLe_trans _ _ _ hab hbc
        by_cases h3 : a.1 = c.1
        · -- a.1 ≤ b.1 ≤ c.1 = a.1 forces equal code points, hence b.1 = a.1
          exfalso
          rw [← h3] at hbc
          have e := textLe_antisymm _ _ hab hbc
          apply h1
          have inj : ∀ (p q : Text), p.map Char.toNat = q.map Char.toNat → p = q := by
            intro p
            induction p with
            | nil => intro q hq; cases q with
              | nil => rfl
              | cons _ _ => simp at hq
            | cons x xs ihp =>
              intro q hq
              cases q with
              | nil => simp at hq
              | cons y ys =>
                simp only [List.map_cons, List.cons.injEq] at hq
                have : x = y := Char.ext (by
                  have := hq.1; simp only [Char.toNat] at this; exact UInt32.toNat_inj.mp this)
                rw [this, ihp ys hq.2]
          exact inj _ _ e
        · simp only [h3, if_false]; exact hac

/-! ### sorted lists -/

def SortedBy {α : Type} (le : α → α → Bool) (l : List α) : Prop := l.Pairwise (fun a b => le a b = true)

theorem insertBy_of_all_le {α : Type} (le : α → α → Bool) (x : α) : ∀ (l : List α), (∀ y ∈ l, le y x = true) →
    insertBy le x l = l ++ [x] := by
  intro l
  induction l with
  | nil => intro _; rfl
  | cons y ys ih => intro h; simp only [insertBy, h y (by simp), if_true, ih (fun z hz => h z (by simp [hz])), List.cons_append]

theorem foldl_insertBy_sorted {α : Type} (le : α → α → Bool) : ∀ (xs acc : List α), SortedBy le (acc ++ xs) →
    xs.foldl (fun acc x => insertBy le x acc) acc = acc ++ xs := by
  intro xs
  induction xs with
  | nil => intro acc _; simp
  | cons x xs ih =>
    intro acc h
    have hall : ∀ y ∈ acc, le y x = true := by
      intro y hy
      have := List.pairwise_append.mp h
      exact this.2.2 y hy x (by simp)
    rw [List.foldl_cons, insertBy_of_all_le le x acc hall, ih (acc ++ [x]) (by simpa [List.append_assoc] using h)]
    simp [List.append_assoc]

/-- sorting a sorted list changes nothing -/
theorem sortBy_of_sorted {α : Type} (le : α → α → Bool) (l : List α) (h : SortedBy le l) : sortBy le l = l := by
  have := foldl_insertBy_sorted le l [] (by simpa using h)
  simpa [sortBy] using this

theorem insertBy_sorted {α : Type} (le : α → α → Bool) (hp : TotalPreorder le) (x : α) : ∀ (l : List α), SortedBy le l →
    SortedBy le (insertBy le x l) := by
  intro l
  induction l with
  | nil => intro _; simp [insertBy, SortedBy]
  | cons y ys ih =>
    intro h
    simp only [SortedBy, List.pairwise_cons] at h
    simp only [insertBy]
    by_cases hyx : le y x = true
    · simp only [hyx, if_true, SortedBy, List.pairwise_cons]
      refine ⟨?_, ih h.2⟩
      intro z hz
      rcases (mem_insertBy le x z ys).mp hz with rfl | hz'
      · exact hyx
      · exact h.1 z hz'
    · have hyx' := Bool.eq_false_iff.mpr hyx
      simp only [hyx', Bool.false_eq_true, if_false, SortedBy, List.pairwise_cons]
      have hxy : le x y = true := by rcases hp.total x y with h' | h'; exact h'; exact absurd h' hyx
      refine ⟨?_, h.1, h.2⟩
      intro z hz
      simp only [List.mem_cons] at hz
      rcases hz with rfl | hz
      · exact hxy
      · exact hp.trans x y z hxy (h.1 z hz)

theorem sortBy_sorted {α : Type} (le : α → α → Bool) (hp : TotalPreorder le) (l : List α) : SortedBy le (sortBy le l) := by
  unfold sortBy
  have : ∀ (xs acc : List α), SortedBy le acc → SortedBy le (xs.foldl (fun acc x => insertBy le x acc) acc) := by
    intro xs
    induction xs with
    | nil => intro acc h; exact h
    | cons x xs ih => intro acc h; exact ih _ (insertBy_sorted le hp x acc h)
  exact this l [] (by simp [SortedBy])

/-- sorting is idempotent -/
theorem sortBy_idem {α : Type} (le : α → α → Bool) (hp : TotalPreorder le) (l : List α) : sortBy le (sortBy le l) = sortBy le l :=
  sortBy_of_sorted le _ (sortBy_sorted le hp l)

theorem sorted_map {α β : Type} (le : α → α → Bool) (le' : β → β → Bool) (f : α → β)
    (h : ∀ a b, le' (f a) (f b) = le a b) (l : List α) (hs : SortedBy le l) : SortedBy le' (l.map f) := by
  unfold SortedBy at *
  rw [List.pairwise_map]
  exact hs.imp (fun hab => by rw [h]; exact hab)

end Pyx.Sql
