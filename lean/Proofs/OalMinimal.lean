import Proofs.OalExpr

/-!
  Minimality of `render` (C07, audit item 3): NO opening parenthesis of the rendering is redundant.

  `render_minimal`: for an ARBITRARY token list `ts` (not only printer output) and a well-formed table, if the
  parser reads the tree `e` from `ts` (at minimal level `m ≤ ulevel`, leaving `rest`), then `ts` contains at
  least as many `(` tokens as `render t e m` does (plus those of `rest`).  Hence a token list with fewer `(`
  than `render t e 0` — in particular the rendering with any one `(` erased, and anything else erased as well
  (its `)`, say) — is rejected or parses to a DIFFERENT tree (`render_erase_paren`).

  The proof follows the parser (induction on the fuel); the operator loop carries the invariant that the
  left operand built so far, rendered at any level up to `cap`, costs at most the `(` consumed so far, and that
  the next operator the loop can accept asks its left operand for a level ≤ `cap`.
-/
set_option linter.unusedSimpArgs false
set_option linter.unusedVariables false

namespace Pyx.Oal

/-- 1 for an opening parenthesis -/
def lp1 (a : Tok) : Nat := if a.kind = .LPAREN then 1 else 0

/-- the number of `(` tokens -/
def lp : List Tok → Nat
  | [] => 0
  | a :: ts => lp1 a + lp ts

@[simp] theorem lp_nil : lp [] = 0 := rfl
@[simp] theorem lp_cons (a : Tok) (ts : List Tok) : lp (a :: ts) = lp1 a + lp ts := rfl

theorem lp_append (a b : List Tok) : lp (a ++ b) = lp a + lp b := by
  induction a with
  | nil => simp
  | cons x xs ih => simp only [List.cons_append, lp_cons, ih]; omega

theorem lp1_of_kind {a : Tok} (h : a.kind = .LPAREN) : lp1 a = 1 := by simp [lp1, h]
theorem lp1_of_ne {a : Tok} (h : a.kind ≠ .LPAREN) : lp1 a = 0 := by simp [lp1, h]
@[simp] theorem lp1_LP : lp1 LP = 1 := rfl
@[simp] theorem lp1_RP : lp1 RP = 0 := rfl
theorem lp1_tk (k : Kind) (s : String) : lp1 (tk k s) = if k = .LPAREN then 1 else 0 := rfl

theorem lp_drop1_le (ts : List Tok) : lp (ts.drop 1) ≤ lp ts := by
  cases ts with
  | nil => simp
  | cons a ts => simp only [List.drop_succ_cons, List.drop_zero, lp_cons]; omega

theorem lp_drop1_lparen {ts : List Tok} (h : hk ts = some .LPAREN) : lp ts = 1 + lp (ts.drop 1) := by
  cases ts with
  | nil => simp at h
  | cons a ts =>
    simp only [hk_cons, Option.some.injEq] at h
    simp only [List.drop_succ_cons, List.drop_zero, lp_cons, lp1_of_kind h]

theorem lp_wrap (b : Bool) (ts : List Tok) : lp (wrap b ts) = (if b then 1 else 0) + lp ts := by
  cases b
  · simp [wrap]
  · simp only [wrap, ↓reduceIte, lp_cons, lp_append, lp1_LP, lp1_RP, lp_nil]; omega

theorem lp_render (t : Tbl) (e : Expr) (n : Nat) :
    lp (render t e n) = (if e.level t < n then 1 else 0) + lp (renderRaw t e) := by
  simp only [render, lp_wrap, decide_eq_true_eq]

theorem lp_render_le (t : Tbl) (e : Expr) (n : Nat) : lp (render t e n) ≤ 1 + lp (render t e 0) := by
  simp only [lp_render, Nat.not_lt_zero, ↓reduceIte]
  split <;> omega

theorem level_of_not_op (t : Tbl) {e : Expr} (h : e.isOp = false) : e.level t = t.ulevel + 1 := by
  cases e <;> first | rfl | simp [Expr.isOp] at h

theorem lp_render_atom (t : Tbl) {e : Expr} (h : e.isOp = false) {n : Nat} (hn : n ≤ t.ulevel) :
    lp (render t e n) = lp (renderRaw t e) := by
  have := level_of_not_op t h
  simp only [lp_render]
  rw [if_neg (by omega)]
  omega

theorem lp_renderParams_cons (t : Tbl) (n : Tok) (e : Expr) (ps : Params) :
    lp (renderParams t (.cons n e ps)) = lp1 n + lp (render t e 0) + lp (renderParams t ps) := by
  cases ps with
  | nil => simp only [renderParams_one, renderParams_nil, lp_cons, lp_nil, lp1_tk]; simp
  | cons n' e' ps' =>
    simp only [renderParams_more, lp_cons, lp_append, lp1_tk]
    try simp only [reduceCtorEq, ↓reduceIte, Nat.zero_add, Nat.add_zero]
    omega

section
variable {t : Tbl}

/-- the statements proved together, at fuel `f` -/
structure MinE (t : Tbl) (f : Nat) : Prop where
  params : ∀ ts ps rest, parseParams t f ts = some (ps, rest) → lp (renderParams t ps) + lp rest ≤ lp ts
  suffix : ∀ h ts e rest, parseSuffix t f h ts = some (e, rest) → h.isOp = false →
    e.isOp = false ∧ lp (renderRaw t e) + lp rest ≤ lp (renderRaw t h) + lp ts
  pre : ∀ ts e rest, parsePrefix t f ts = some (e, rest) → ∀ n, n ≤ t.ulevel → lp (render t e n) + lp rest ≤ lp ts
  expr : ∀ m ts e rest, parseExpr t f m ts = some (e, rest) → m ≤ t.ulevel →
    lp (render t e m) + lp rest ≤ lp ts ∧ OpsBelow t m rest
  loop : ∀ m na lhs ts e rest, parseLoop t f m na lhs ts = some (e, rest) → ∀ c cap, m ≤ cap →
    (∀ n, n ≤ cap → lp (render t lhs n) ≤ c) →
    (∀ k l a, hk ts = some k → t.bin k = some (l, a) → na ≠ some l → lmin l a ≤ cap) →
    lp (render t e m) + lp rest ≤ c + lp ts ∧ OpsBelow t m rest

/-- `h : some (a, b) = some (x, rest)`: substitute -/
local macro "fin_inj " h:ident : tactic =>
  `(tactic| (simp only [Option.some.injEq, Prod.mk.injEq] at $h:ident; obtain ⟨rfl, rfl⟩ := $h:ident))

theorem minE_params (wf : t.WF) {f : Nat} (ih : MinE t f) : ∀ ts ps rest,
    parseParams t (f + 1) ts = some (ps, rest) → lp (renderParams t ps) + lp rest ≤ lp ts := by
  intro ts ps rest h
  rcases ts with _ | ⟨nm, _ | ⟨col, ts⟩⟩
  · simp only [parseParams] at h
    fin_inj h
    simp [renderParams_nil]
  · simp only [parseParams] at h
    fin_inj h
    simp [renderParams_nil]
  · simp only [parseParams] at h
    split at h
    · rename_i hc
      split at h <;> try contradiction
      rename_i e ts' h1
      obtain ⟨hl1, _⟩ := ih.expr _ _ _ _ h1 (Nat.zero_le _)
      split at h
      · rename_i hcomma
        split at h <;> try contradiction
        rename_i ps' ts'' h2
        fin_inj h
        have hl2 := ih.params _ _ _ h2
        have := lp_drop1_le ts'
        simp only [lp_renderParams_cons, lp_cons]
        omega
      · fin_inj h
        simp only [lp_renderParams_cons, lp_cons, renderParams_nil, lp_nil]
        omega
    · fin_inj h
      simp [renderParams_nil]

theorem minE_suffix (wf : t.WF) {f : Nat} (ih : MinE t f) : ∀ h ts e rest,
    parseSuffix t (f + 1) h ts = some (e, rest) → h.isOp = false →
    e.isOp = false ∧ lp (renderRaw t e) + lp rest ≤ lp (renderRaw t h) + lp ts := by
  intro h ts e rest hp hop
  cases ts with
  | nil =>
    simp only [parseSuffix] at hp
    fin_inj hp
    exact ⟨hop, Nat.le_refl _⟩
  | cons tok ts =>
    simp only [parseSuffix] at hp
    split at hp
    · -- DOT
      split at hp <;> try contradiction
      rename_i nm ts1
      split at hp <;> try contradiction
      rename_i hid
      split at hp
      · rename_i hlp
        split at hp <;> try contradiction
        rename_i hst
        split at hp <;> try contradiction
        rename_i ps ts2 h1
        split at hp <;> try contradiction
        rename_i hrp
        fin_inj hp
        have hl1 := ih.params _ _ _ h1
        have := lp_drop1_lparen hlp
        have := lp_drop1_le ts2
        refine ⟨rfl, ?_⟩
        simp only [renderRaw_ocall, lp_append, lp_cons, lp1_LP, lp1_RP, lp_nil, lp1_tk]
        try simp only [reduceCtorEq, ↓reduceIte, Nat.zero_add, Nat.add_zero]
        omega
      · split at hp <;> try contradiction
        rename_i hch
        obtain ⟨ho, hl⟩ := ih.suffix _ _ _ _ hp rfl
        refine ⟨ho, ?_⟩
        simp only [renderRaw_field, lp_append, lp_cons, lp_nil, lp1_tk] at hl
        try simp only [reduceCtorEq, ↓reduceIte, Nat.zero_add, Nat.add_zero] at hl
        simp only [lp_cons]
        omega
    · -- LSQBR
      split at hp <;> try contradiction
      rename_i hix
      split at hp <;> try contradiction
      rename_i i ts1 h1
      split at hp <;> try contradiction
      rename_i hr
      obtain ⟨hl1, _⟩ := ih.expr _ _ _ _ h1 (Nat.zero_le _)
      obtain ⟨ho, hl⟩ := ih.suffix _ _ _ _ hp rfl
      have := lp_drop1_le ts1
      refine ⟨ho, ?_⟩
      simp only [renderRaw_index, lp_append, lp_cons, lp_nil, lp1_tk] at hl
      try simp only [reduceCtorEq, ↓reduceIte, Nat.zero_add, Nat.add_zero] at hl
      simp only [lp_cons]
      omega
    · fin_inj hp
      exact ⟨hop, Nat.le_refl _⟩

theorem minE_pre (wf : t.WF) {f : Nat} (ih : MinE t f) : ∀ ts e rest,
    parsePrefix t (f + 1) ts = some (e, rest) → ∀ n, n ≤ t.ulevel → lp (render t e n) + lp rest ≤ lp ts := by
  intro ts e rest hp n hn
  cases ts with
  | nil => simp [parsePrefix] at hp
  | cons tok ts =>
    simp only [parsePrefix] at hp
    split at hp
    · -- a unary operator
      rename_i hu
      split at hp <;> try contradiction
      rename_i e1 ts' h1
      fin_inj hp
      obtain ⟨hl1, _⟩ := ih.expr _ _ _ _ h1 (Nat.le_refl _)
      have hlev : ¬ (Expr.un tok e1).level t < n := by simp only [Expr.level]; omega
      rw [render_raw t hlev, renderRaw_un]
      simp only [lp_cons]
      omega
    · split at hp
      · -- a name: an access chain
        obtain ⟨ho, hl⟩ := ih.suffix _ _ _ _ hp rfl
        rw [lp_render_atom t ho hn]
        simp only [renderRaw, lp_cons, lp_nil] at hl
        simp only [lp_cons]
        omega
      · -- by the kind of the first token
        have atom : ∀ {e : Expr}, e.isOp = false → lp (renderRaw t e) = 0 → lp (render t e n) + lp ts ≤ lp (tok :: ts) := by
          intro e ho h0
          rw [lp_render_atom t ho hn, h0]
          simp only [lp_cons]
          omega
        split at hp
        · fin_inj hp; exact atom rfl (by simp [renderRaw, lp1_tk])
        · fin_inj hp; exact atom rfl (by simp [renderRaw, lp1_tk])
        · fin_inj hp; exact atom rfl (by simp [renderRaw, lp1_tk])
        · fin_inj hp; exact atom rfl (by simp [renderRaw, lp1_tk])
        · fin_inj hp; exact atom rfl (by simp [renderRaw, lp1_tk])
        · -- SELF
          obtain ⟨ho, hl⟩ := ih.suffix _ _ _ _ hp rfl
          rw [lp_render_atom t ho hn]
          simp only [renderRaw, lp_cons, lp_nil, lp1_tk] at hl
          try simp only [reduceCtorEq, ↓reduceIte, Nat.zero_add, Nat.add_zero] at hl
          simp only [lp_cons]
          omega
        · -- SELECTED
          obtain ⟨ho, hl⟩ := ih.suffix _ _ _ _ hp rfl
          rw [lp_render_atom t ho hn]
          simp only [renderRaw, lp_cons, lp_nil, lp1_tk] at hl
          try simp only [reduceCtorEq, ↓reduceIte, Nat.zero_add, Nat.add_zero] at hl
          simp only [lp_cons]
          omega
        · -- PARAM
          clear atom
          split at hp <;> try contradiction
          rename_i d nm ts'
          split at hp <;> try contradiction
          obtain ⟨ho, hl⟩ := ih.suffix _ _ _ _ hp rfl
          rw [lp_render_atom t ho hn]
          simp only [renderRaw, lp_cons, lp_nil, lp1_tk] at hl
          try simp only [reduceCtorEq, ↓reduceIte, Nat.zero_add, Nat.add_zero] at hl
          simp only [lp_cons]
          omega
        · -- RCVD_EVT
          clear atom
          split at hp <;> try contradiction
          rename_i d nm ts'
          split at hp <;> try contradiction
          obtain ⟨ho, hl⟩ := ih.suffix _ _ _ _ hp rfl
          rw [lp_render_atom t ho hn]
          simp only [renderRaw, lp_cons, lp_nil, lp1_tk] at hl
          try simp only [reduceCtorEq, ↓reduceIte, Nat.zero_add, Nat.add_zero] at hl
          simp only [lp_cons]
          omega
        · -- NAMESPACE
          clear atom
          split at hp <;> try contradiction
          rename_i dc nm ts'
          split at hp <;> try contradiction
          split at hp
          · rename_i hlp
            split at hp <;> try contradiction
            rename_i ps ts2 h1
            split at hp <;> try contradiction
            fin_inj hp
            have hl1 := ih.params _ _ _ h1
            have := lp_drop1_lparen hlp
            have := lp_drop1_le ts2
            rw [lp_render_atom t rfl hn]
            simp only [renderRaw_icall, lp_append, lp_cons, lp1_LP, lp1_RP, lp_nil, lp1_tk]
            try simp only [reduceCtorEq, ↓reduceIte, Nat.zero_add, Nat.add_zero]
            omega
          · fin_inj hp
            rw [lp_render_atom t rfl hn]
            simp only [renderRaw, lp_cons, lp_nil, lp1_tk]
            try simp only [reduceCtorEq, ↓reduceIte, Nat.zero_add, Nat.add_zero]
            omega
        · -- DOUBLECOLON
          clear atom
          split at hp <;> try contradiction
          rename_i nm lpt ts'
          split at hp <;> try contradiction
          rename_i hc
          split at hp <;> try contradiction
          rename_i ps ts2 h1
          split at hp <;> try contradiction
          fin_inj hp
          have hl1 := ih.params _ _ _ h1
          have := lp1_of_kind hc.2
          have := lp_drop1_le ts2
          rw [lp_render_atom t rfl hn]
          simp only [renderRaw_fcall, lp_append, lp_cons, lp1_LP, lp1_RP, lp_nil, lp1_tk]
          try simp only [reduceCtorEq, ↓reduceIte, Nat.zero_add, Nat.add_zero]
          omega
        · -- LPAREN: the parentheses of the input pay for the parentheses `render` may need
          rename_i hk'
          split at hp <;> try contradiction
          rename_i e1 ts' h1
          split at hp <;> try contradiction
          fin_inj hp
          obtain ⟨hl1, _⟩ := ih.expr _ _ _ _ h1 (Nat.zero_le _)
          have := lp_render_le t e n
          have := lp_drop1_le ts'
          have := lp1_of_kind hk'
          simp only [lp_cons]
          omega
        · contradiction

theorem minE_expr (wf : t.WF) {f : Nat} (ih : MinE t f) : ∀ m ts e rest,
    parseExpr t (f + 1) m ts = some (e, rest) → m ≤ t.ulevel →
    lp (render t e m) + lp rest ≤ lp ts ∧ OpsBelow t m rest := by
  intro m ts e rest h hm
  simp only [parseExpr] at h
  split at h <;> try contradiction
  rename_i lhs ts' h1
  have hpre := ih.pre _ _ _ h1
  have h0 := hpre 0 (Nat.zero_le _)
  obtain ⟨hl, hob⟩ := ih.loop _ _ _ _ _ _ h (lp ts - lp ts') t.ulevel hm
    (fun n hn => by have := hpre n hn; omega)
    (fun k l a _ hb _ => by
      have := wf.binLt k l a hb
      cases a <;> simp only [lmin] <;> omega)
  exact ⟨by omega, hob⟩

theorem minE_loop (wf : t.WF) {f : Nat} (ih : MinE t f) : ∀ m na lhs ts e rest,
    parseLoop t (f + 1) m na lhs ts = some (e, rest) → ∀ c cap, m ≤ cap →
    (∀ n, n ≤ cap → lp (render t lhs n) ≤ c) →
    (∀ k l a, hk ts = some k → t.bin k = some (l, a) → na ≠ some l → lmin l a ≤ cap) →
    lp (render t e m) + lp rest ≤ c + lp ts ∧ OpsBelow t m rest := by
  intro m na lhs ts e rest h c cap hmc hcov hnext
  cases ts with
  | nil =>
    simp only [parseLoop] at h
    fin_inj h
    exact ⟨by have := hcov m hmc; simp only [lp_nil]; omega, fun k l a hk' => by simp at hk'⟩
  | cons tok ts =>
    simp only [parseLoop] at h
    split at h
    · rename_i l a hb
      split at h
      · -- an operator below the minimal level: stop
        rename_i hlt
        fin_inj h
        refine ⟨by have := hcov m hmc; omega, ?_⟩
        intro k l2 a2 hk' hb2
        simp only [hk_cons, Option.some.injEq] at hk'
        subst hk'
        rw [hb] at hb2
        cases hb2
        exact hlt
      · rename_i hge
        split at h <;> try contradiction
        rename_i hna
        split at h <;> try contradiction
        rename_i rhs ts' h1
        have hul := wf.binLt _ _ _ hb
        obtain ⟨hl1, hob1⟩ := ih.expr _ _ _ _ h1 (by cases a <;> simp only [rmin] <;> omega)
        have hlm : lmin l a ≤ cap := hnext tok.kind l a rfl hb hna
        have hcl := hcov _ hlm
        -- the new left operand, rendered at any level up to its own, costs what its parts cost
        have hcov' : ∀ n, n ≤ l → lp (render t (.bin lhs tok rhs) n) ≤
            lp (render t lhs (lmin l a)) + lp1 tok + lp (render t rhs (rmin l a)) := by
          intro n hn
          have hlev : ¬ (Expr.bin lhs tok rhs).level t < n := by simp only [Expr.level, hb]; omega
          rw [render_raw t hlev, renderRaw_bin t lhs tok rhs hb]
          simp only [lp_append, lp_cons]
          omega
        -- the next operator the loop can accept asks for a left operand of level ≤ `l`
        have hnext' : ∀ k l2 a2, hk ts' = some k → t.bin k = some (l2, a2) →
            (if a = .nonassoc then some l else none) ≠ some l2 → lmin l2 a2 ≤ l := by
          intro k l2 a2 hk' hb2 hna2
          have hlt := hob1 k l2 a2 hk' hb2
          by_cases heq : l2 = l
          · subst heq
            have hsame : a2 = a := wf.sameAssoc _ _ _ _ _ hb2 hb
            subst hsame
            cases a2 with
            | left => simp [lmin]
            | right => simp only [rmin] at hlt; omega
            | nonassoc => simp at hna2
          · have : l2 < l := by cases a <;> simp only [rmin] at hlt <;> omega
            cases a2 <;> simp only [lmin] <;> omega
        obtain ⟨hl, hob⟩ := ih.loop _ _ _ _ _ _ h _ l (by omega) hcov' hnext'
        refine ⟨?_, hob⟩
        simp only [lp_cons]
        omega
    · fin_inj h
      rename_i hb
      refine ⟨by have := hcov m hmc; omega, ?_⟩
      intro k l2 a2 hk' hb2
      simp only [hk_cons, Option.some.injEq] at hk'
      subst hk'
      rw [hb] at hb2
      cases hb2

theorem minE (wf : t.WF) : ∀ f, MinE t f
  | 0 => ⟨by intro ts ps rest h; simp [parseParams] at h, by intro h ts e rest hp; simp [parseSuffix] at hp,
      by intro ts e rest h; simp [parsePrefix] at h, by intro m ts e rest h; simp [parseExpr] at h,
      by intro m na lhs ts e rest h; simp [parseLoop] at h⟩
  | f + 1 =>
    have ih := minE wf f
    ⟨minE_params wf ih, minE_suffix wf ih, minE_pre wf ih, minE_expr wf ih, minE_loop wf ih⟩

/-- **minimality of `render`** — whatever token list the parser reads `e` from has at least as many opening
    parentheses as the rendering of `e` -/
theorem render_minimal (wf : t.WF) {f m : Nat} {ts : List Tok} {e : Expr} {rest : List Tok}
    (h : parseExpr t f m ts = some (e, rest)) (hm : m ≤ t.ulevel) : lp (render t e m) + lp rest ≤ lp ts :=
  ((minE wf f).expr m ts e rest h hm).1

theorem render_minimal_top (wf : t.WF) {ts : List Tok} {e : Expr} {rest : List Tok}
    (h : parseExprTop t ts = some (e, rest)) : lp (render t e 0) + lp rest ≤ lp ts :=
  render_minimal wf h (Nat.zero_le _)

/-- a token list with fewer `(` than the rendering of `e` is rejected or read as a different tree -/
theorem fewer_parens_differ (wf : t.WF) {ts : List Tok} {e : Expr} (hlt : lp ts < lp (render t e 0))
    (f : Nat) (rest : List Tok) : parseExpr t f 0 ts ≠ some (e, rest) := by
  intro h
  have := render_minimal wf h (Nat.zero_le _)
  omega

theorem lp_sublist {a b : List Tok} (h : a.Sublist b) : lp a ≤ lp b := by
  induction h with
  | slnil => exact Nat.le_refl _
  | cons x _ ih => simp only [lp_cons]; omega
  | cons_cons x _ ih => simp only [lp_cons]; omega

theorem lp_eraseIdx {ts : List Tok} {i : Nat} {a : Tok} (h : ts[i]? = some a) (ha : a.kind = .LPAREN) :
    lp (ts.eraseIdx i) + 1 = lp ts := by
  induction ts generalizing i with
  | nil => simp at h
  | cons x xs ih =>
    cases i with
    | zero =>
      simp only [List.getElem?_cons_zero, Option.some.injEq] at h
      subst h
      simp only [List.eraseIdx_zero, List.tail_cons, lp_cons, lp1_of_kind ha]
      omega
    | succ j =>
      simp only [List.getElem?_cons_succ] at h
      simp only [List.eraseIdx_cons_succ, lp_cons]
      have := ih h
      omega

/-- **no parenthesis of the rendering is redundant**: erase any one `(` of `render t e 0` — and, with it, any
    other tokens (its `)`, for instance): what remains is rejected or parses to a different tree, whatever the
    fuel and the remainder -/
theorem render_erase_paren (wf : t.WF) (e : Expr) (i : Nat) (a : Tok) (hi : (render t e 0)[i]? = some a)
    (ha : a.kind = .LPAREN) (ts : List Tok) (hsub : ts.Sublist ((render t e 0).eraseIdx i)) (f : Nat)
    (rest : List Tok) : parseExpr t f 0 ts ≠ some (e, rest) := by
  apply fewer_parens_differ wf
  have := lp_sublist hsub
  have := lp_eraseIdx hi ha
  omega

/-- the parentheses `render` emits around an operand are exactly those the operand's level calls for -/
theorem render_parens_iff (t : Tbl) (e : Expr) (need : Nat) :
    (render t e need = LP :: (renderRaw t e ++ [RP]) ∧ e.level t < need) ∨
    (render t e need = renderRaw t e ∧ need ≤ e.level t) := by
  by_cases h : e.level t < need
  · exact Or.inl ⟨render_paren t h, h⟩
  · exact Or.inr ⟨render_raw t h, by omega⟩

end
end Pyx.Oal
