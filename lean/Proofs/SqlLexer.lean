import PyxModel.Sql.Lexer
import Proofs.SqlChars

/-! the lexer of PyxModel/Sql/Lexer.lean: every match is a non-empty prefix, fuel `length + 1` suffices,
    unfolding equations of `lex` -/
namespace Pyx.Sql
open Gen.SqlLex (Rule Kw)

/-! ### every matcher returns a non-empty prefix and the remaining suffix -/

theorem scanStr_split : ∀ (cs b rest : Text), scanStr cs = some (b, rest) → cs = b ++ '\'' :: rest := by
  intro cs
  induction cs using scanStr.induct <;> intro b rest h
  · simp [scanStr] at h
  · simp [scanStr] at h; obtain ⟨rfl, rfl⟩ := h; rfl
  · rename_i r' b' rr hs ih
    simp [scanStr, hs] at h; obtain ⟨rfl, rfl⟩ := h
    rw [ih b' rr hs]; simp
  · rename_i r' hs ih
    simp [scanStr, hs] at h; obtain ⟨rfl, rfl⟩ := h; rfl
  · rename_i e r' he
    simp [scanStr, he] at h; obtain ⟨rfl, rfl⟩ := h; rfl
  · rename_i c r' hc b' rr hs ih
    unfold scanStr at h
    simp [hc, hs] at h; obtain ⟨rfl, rfl⟩ := h
    rw [ih b' rr hs]; simp
  · rename_i c r' hc hs ih
    unfold scanStr at h
    simp [hc, hs] at h

theorem scanGuid_split : ∀ (cs b rest : Text), scanGuid cs = some (b, rest) → cs = b ++ '"' :: rest := by
  intro cs
  induction cs using scanGuid.induct <;> intro b rest h
  · simp [scanGuid] at h
  · unfold scanGuid at h; simp at h; obtain ⟨rfl, rfl⟩ := h; rfl
  · unfold scanGuid at h; simp at h
  · unfold scanGuid at h; simp at h
  · unfold scanGuid at h; simp at h
  · rename_i e r' he b' rr hs _ _ ih
    simp [scanGuid, he, hs] at h; obtain ⟨rfl, rfl⟩ := h
    rw [ih b' rr hs]; simp
  · rename_i e r' he hs _ _ ih
    unfold scanGuid at h; simp [he, hs] at h
  · rename_i c r' h1 h2 h3 b' rr hs ih
    unfold scanGuid at h
    simp [h1, h2, h3, hs] at h; obtain ⟨rfl, rfl⟩ := h
    rw [ih b' rr hs]; simp
  · rename_i c r' h1 h2 h3 hs ih
    unfold scanGuid at h
    simp [h1, h2, h3, hs] at h

theorem ne_nil_of_isEmpty_false {α : Type} {l : List α} (h : l.isEmpty = false) : l ≠ [] := by
  intro e; subst e; simp at h

theorem mComment_split (cs l rest : Text) (h : mComment cs = some (l, rest)) : cs = l ++ rest ∧ l ≠ [] := by
  unfold mComment at h
  split at h
  · rename_i c cs'
    split at h
    · rename_i hc; subst hc
      split at h
      · rename_i d r
        split at h
        · rename_i hd; subst hd
          have key := @List.takeWhile_append_dropWhile _ (fun c => c != '\n') r
          split at h
          · rename_i hdrop
            simp only [Option.some.injEq, Prod.mk.injEq] at h
            obtain ⟨rfl, rfl⟩ := h
            rw [hdrop] at key; simp at key
            exact ⟨by simp [key], by simp⟩
          · rename_i e r' hdrop
            rw [hdrop] at key
            split at h
            · rename_i he; subst he
              simp only [Option.some.injEq, Prod.mk.injEq] at h
              obtain ⟨rfl, rfl⟩ := h
              exact ⟨by simp only [List.cons_append, List.append_assoc, List.nil_append]; rw [key], by simp⟩
            · simp only [Option.some.injEq, Prod.mk.injEq] at h
              obtain ⟨rfl, rfl⟩ := h
              exact ⟨by simp only [List.cons_append]; rw [key], by simp⟩
        · simp at h
      · simp at h
    · simp at h
  · simp at h

theorem mChar_split (x : Char) (cs l rest : Text) (h : mChar x cs = some (l, rest)) : cs = l ++ rest ∧ l ≠ [] := by
  unfold mChar at h
  split at h
  · split at h
    · simp only [Option.some.injEq, Prod.mk.injEq] at h; obtain ⟨rfl, rfl⟩ := h; exact ⟨rfl, by simp⟩
    · simp at h
  · simp at h

theorem mFraction_split (u : UC) (cs l rest : Text) (h : mFraction u cs = some (l, rest)) : cs = l ++ rest ∧ l ≠ [] := by
  unfold mFraction at h
  simp only at h
  split at h
  · simp at h
  · have k1 := @List.takeWhile_append_dropWhile _ u.isDigit cs
    split at h
    · simp at h
    · rename_i e r hdrop
      split at h
      · rename_i he; subst he
        split at h
        · simp at h
        · simp only [Option.some.injEq, Prod.mk.injEq] at h
          obtain ⟨rfl, rfl⟩ := h
          have k2 := @List.takeWhile_append_dropWhile _ u.isDigit r
          refine ⟨?_, by simp⟩
          rw [hdrop] at k1
          simp only [List.append_assoc, List.cons_append]
          rw [k2]; exact k1.symm
      · simp at h

theorem mRelid_split (cs l rest : Text) (h : mRelid cs = some (l, rest)) : cs = l ++ rest ∧ l ≠ [] := by
  unfold mRelid at h
  split at h
  · rename_i c r
    split at h
    · rename_i hc; subst hc
      simp only at h
      split at h
      · simp at h
      · simp only [Option.some.injEq, Prod.mk.injEq] at h
        obtain ⟨rfl, rfl⟩ := h
        exact ⟨by simp only [List.cons_append]; rw [List.takeWhile_append_dropWhile], by simp⟩
    · simp at h
  · simp at h

theorem mCardinality_split (cs l rest : Text) (h : mCardinality cs = some (l, rest)) : cs = l ++ rest ∧ l ≠ [] := by
  unfold mCardinality at h
  split at h
  · split at h
    · rename_i hc; subst hc
      split at h
      · split at h
        · rename_i hd; subst hd
          simp only [Option.some.injEq, Prod.mk.injEq] at h; obtain ⟨rfl, rfl⟩ := h; exact ⟨rfl, by simp⟩
        · simp at h
      · simp at h
    · simp at h
  · simp at h

theorem mId_split (u : UC) (cs l rest : Text) (h : mId u cs = some (l, rest)) : cs = l ++ rest ∧ l ≠ [] := by
  unfold mId at h
  split at h
  · split at h
    · simp only [Option.some.injEq, Prod.mk.injEq] at h; obtain ⟨rfl, rfl⟩ := h
      exact ⟨by simp only [List.cons_append]; rw [List.takeWhile_append_dropWhile], by simp⟩
    · simp at h
  · simp at h

theorem mNumber_split (cs l rest : Text) (h : mNumber cs = some (l, rest)) : cs = l ++ rest ∧ l ≠ [] := by
  unfold mNumber at h
  simp only at h
  split at h
  · simp at h
  · rename_i hne
    simp only [Option.some.injEq, Prod.mk.injEq] at h; obtain ⟨rfl, rfl⟩ := h
    exact ⟨(List.takeWhile_append_dropWhile).symm, ne_nil_of_isEmpty_false (by simpa using hne)⟩

theorem mNewline_split (cs l rest : Text) (h : mNewline cs = some (l, rest)) : cs = l ++ rest ∧ l ≠ [] := by
  unfold mNewline at h
  simp only at h
  split at h
  · simp at h
  · rename_i hne
    simp only [Option.some.injEq, Prod.mk.injEq] at h; obtain ⟨rfl, rfl⟩ := h
    exact ⟨(List.takeWhile_append_dropWhile).symm, ne_nil_of_isEmpty_false (by simpa using hne)⟩

theorem mString_split (cs l rest : Text) (h : mString cs = some (l, rest)) : cs = l ++ rest ∧ l ≠ [] := by
  unfold mString at h
  split at h
  · rename_i c r
    split at h
    · rename_i hc; subst hc
      split at h
      · rename_i b rest' hs
        simp only [Option.some.injEq, Prod.mk.injEq] at h; obtain ⟨rfl, rfl⟩ := h
        exact ⟨by rw [scanStr_split r _ _ hs]; simp, by simp⟩
      · simp at h
    · simp at h
  · simp at h

theorem mGuid_split (cs l rest : Text) (h : mGuid cs = some (l, rest)) : cs = l ++ rest ∧ l ≠ [] := by
  unfold mGuid at h
  split at h
  · rename_i c r
    split at h
    · rename_i hc; subst hc
      split at h
      · rename_i b rest' hs
        simp only [Option.some.injEq, Prod.mk.injEq] at h; obtain ⟨rfl, rfl⟩ := h
        exact ⟨by rw [scanGuid_split r _ _ hs]; simp, by simp⟩
      · simp at h
    · simp at h
  · simp at h

theorem matchRule_split (u : UC) (r : Rule) (cs l rest : Text) (h : matchRule u r cs = some (l, rest)) :
    cs = l ++ rest ∧ l ≠ [] := by
  cases r <;> simp only [matchRule] at h <;>
    first
    | exact mComment_split _ _ _ h
    | exact mChar_split _ _ _ _ h
    | exact mFraction_split _ _ _ _ h
    | exact mRelid_split _ _ _ h
    | exact mCardinality_split _ _ _ h
    | exact mId_split _ _ _ _ h
    | exact mNumber_split _ _ _ h
    | exact mString_split _ _ _ h
    | exact mGuid_split _ _ _ h
    | exact mNewline_split _ _ _ h

theorem matchRule_shorter (u : UC) (r : Rule) (cs l rest : Text) (h : matchRule u r cs = some (l, rest)) :
    rest.length < cs.length := by
  obtain ⟨h1, h2⟩ := matchRule_split u r cs l rest h
  subst h1
  have : 0 < l.length := List.length_pos_iff.mpr h2
  simp; omega

theorem findSome_shorter (u : UC) (cs : Text) (rules : List Rule) (r : Rule) (l rest : Text)
    (h : rules.findSome? (fun r => (matchRule u r cs).map (fun p => (r, p.1, p.2))) = some (r, l, rest)) :
    rest.length < cs.length := by
  induction rules with
  | nil => simp at h
  | cons x xs ih =>
    rw [List.findSome?_cons] at h
    cases hm : matchRule u x cs with
    | none => simp [hm] at h; exact ih h
    | some p =>
      simp [hm] at h
      obtain ⟨rfl, rfl, rfl⟩ := h
      exact matchRule_shorter u x cs p.1 p.2 (by rw [hm])

theorem firstMatch_shorter (u : UC) (cs : Text) (r : Rule) (l rest : Text)
    (h : firstMatch u cs = some (r, l, rest)) : rest.length < cs.length :=
  findSome_shorter u cs _ r l rest h

/-! ### every round of `token()` consumes at least one character -/

theorem step_skip_shorter (u : UC) (cs rest : Text) (h : step u cs = .skip rest) : rest.length < cs.length := by
  unfold step at h
  split at h
  · simp at h
  · rename_i c r
    split at h
    · simp only [Step.skip.injEq] at h; subst h; simp
    · split at h
      · simp at h
      · rename_i rule lexeme rest' hm
        split at h
        · simp at h
        · simp only [Step.skip.injEq] at h; subst h
          exact firstMatch_shorter u _ rule lexeme _ hm

theorem step_emit_shorter (u : UC) (cs rest : Text) (t : Tok) (h : step u cs = .emit t rest) : rest.length < cs.length := by
  unfold step at h
  split at h
  · simp at h
  · rename_i c r
    split at h
    · simp at h
    · split at h
      · simp at h
      · rename_i rule lexeme rest' hm
        split at h
        · simp only [Step.emit.injEq] at h; obtain ⟨_, rfl⟩ := h
          exact firstMatch_shorter u _ rule lexeme _ hm
        · simp at h

/-! ### fuel -/

theorem lexFuel_eq (u : UC) : ∀ (n m : Nat) (cs : Text), cs.length < n → cs.length < m → lexFuel u n cs = lexFuel u m cs := by
  intro n
  induction n with
  | zero => intro m cs h; omega
  | succ n ih =>
    intro m cs hn hm
    cases m with
    | zero => omega
    | succ m =>
      simp only [lexFuel]
      cases hs : step u cs with
      | eof => rfl
      | illegal => rfl
      | skip rest =>
        have := step_skip_shorter u cs rest hs
        exact ih m rest (by omega) (by omega)
      | emit t rest =>
        have := step_emit_shorter u cs rest t hs
        simp only [ih m rest (by omega) (by omega)]

/-- fuel `length + 1` is always enough: more fuel never changes the result -/
theorem lexFuel_stable (u : UC) (cs : Text) (n : Nat) (h : cs.length + 1 ≤ n) : lexFuel u n cs = lex u cs :=
  lexFuel_eq u n (cs.length + 1) cs (by omega) (by omega)

/-! ### unfolding equations of `lex` -/

theorem lex_nil (u : UC) : lex u [] = some [] := rfl

theorem lex_of_eof (u : UC) (cs : Text) (h : step u cs = .eof) : lex u cs = some [] := by
  simp [lex, lexFuel, h]

theorem lex_of_illegal (u : UC) (cs : Text) (h : step u cs = .illegal) : lex u cs = none := by
  simp [lex, lexFuel, h]

theorem lex_of_skip (u : UC) (cs rest : Text) (h : step u cs = .skip rest) : lex u cs = lex u rest := by
  have := step_skip_shorter u cs rest h
  unfold lex
  rw [show lexFuel u (cs.length + 1) cs = lexFuel u cs.length rest by simp only [lexFuel, h]]
  exact lexFuel_eq u _ _ rest (by omega) (by omega)

theorem lex_of_emit (u : UC) (cs rest : Text) (t : Tok) (h : step u cs = .emit t rest) :
    lex u cs = (lex u rest).map (fun ts => t :: ts) := by
  have := step_emit_shorter u cs rest t h
  unfold lex
  rw [show lexFuel u (cs.length + 1) cs = (lexFuel u cs.length rest).map (fun ts => t :: ts) by simp only [lexFuel, h]]
  rw [lexFuel_eq u _ (rest.length + 1) rest (by omega) (by omega)]

end Pyx.Sql
