import Proofs.OalExpr
import PyxModel.Oal.Text
import Gen.OalPrec

/-!
  The operator table the parser model runs with (`Gen.OalPrec.table`, built from `binOps`) IS the generic reading of
  `OALParser.precedence` as written (`Gen.OalPrec.precRows`): yacc gives a token the 1-based index of the row that
  names it and that row's associativity; the production `expression : expression TOK expression` has the precedence
  of TOK.  `rowOf` / `precInterp` are that reading for ANY rows and ANY list of alternatives.
-/
namespace Pyx.Oal

/-- yacc's precedence of a token name: level = 1-based index of the first row that lists it -/
def rowOf : List (Assoc × List String) → String → Nat → Option (Nat × Assoc)
  | [], _, _ => none
  | (a, names) :: rest, n, lvl => if names.contains n then some (lvl, a) else rowOf rest n (lvl + 1)

/-- the binary-operator table yacc derives from the rows for the alternatives `expression TOK expression` -/
def precInterp (rows : List (Assoc × List String)) (alts : List Kind) : List (Kind × Nat × Assoc) :=
  alts.filterMap fun k => (rowOf rows k.name 1).map fun r => (k, r)

/-- for ANY rows, alternatives and token kind: the model table built from the interpretation answers with the row
    of the token's name when the token is an alternative, and with "no binary operator" otherwise -/
theorem ofLists_precInterp (rows : List (Assoc × List String)) (uns : List Kind) (ul : Nat) (k : Kind) :
    ∀ alts : List Kind, (Tbl.ofLists (precInterp rows alts) uns ul).bin k =
      if k ∈ alts then rowOf rows k.name 1 else none
  | [] => by simp [Tbl.ofLists, precInterp]
  | a :: alts => by
    have ih := ofLists_precInterp rows uns ul k alts
    simp only [Tbl.ofLists, precInterp] at ih ⊢
    by_cases hka : k = a
    · subst hka
      cases hr : rowOf rows k.name 1 with
      | none =>
        simp only [List.filterMap_cons, hr, Option.map_none, List.mem_cons, true_or, if_true]
        rw [ih, hr]; simp
      | some r =>
        simp [hr]
    · have hne : (k == a) = false := by simpa using hka
      cases hr : rowOf rows a.name 1 with
      | none =>
        simp only [List.filterMap_cons, hr, Option.map_none, List.mem_cons, hka, false_or]
        exact ih
      | some r =>
        simp only [List.filterMap_cons, hr, Option.map_some, List.lookup_cons, hne, List.mem_cons, hka, false_or]
        exact ih

end Pyx.Oal
