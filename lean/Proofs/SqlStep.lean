import Proofs.SqlLexer
import PyxModel.Sql.Value

set_option linter.unusedSimpArgs false

/-! which rule of the ordered alternation fires on a text, by its first character(s) -/
namespace Pyx.Sql
open Gen.SqlLex (Rule Kw)

/-! ### when a matcher cannot match -/

theorem mComment_none (c : Char) (r : Text) (h : c ≠ '-') : mComment (c :: r) = none := by
  simp [mComment, h]

theorem mChar_none (x c : Char) (r : Text) (h : c ≠ x) : mChar x (c :: r) = none := by
  simp [mChar, h]

theorem mFraction_none (u : UC) (c : Char) (r : Text) (h : u.isDigit c = false) : mFraction u (c :: r) = none := by
  simp [mFraction, List.takeWhile_cons, h]

theorem mRelid_none (c : Char) (r : Text) (h : c ≠ 'R') : mRelid (c :: r) = none := by
  simp [mRelid, h]

theorem mCardinality_none (c : Char) (r : Text) (h : c ≠ '1') : mCardinality (c :: r) = none := by
  simp [mCardinality, h]

theorem mId_none (u : UC) (c : Char) (r : Text) (h : isIdStart c = false) : mId u (c :: r) = none := by
  simp [mId, h]

theorem mNumber_none (c : Char) (r : Text) (h : isAsciiDigit c = false) : mNumber (c :: r) = none := by
  simp [mNumber, List.takeWhile_cons, h]

theorem mString_none (c : Char) (r : Text) (h : c ≠ '\'') : mString (c :: r) = none := by
  simp [mString, h]

theorem mGuid_none (c : Char) (r : Text) (h : c ≠ '"') : mGuid (c :: r) = none := by
  simp [mGuid, h]

theorem mNewline_none (c : Char) (r : Text) (h : c ≠ '\n') : mNewline (c :: r) = none := by
  simp [mNewline, List.takeWhile_cons, h]

/-! ### from `firstMatch` to `step` -/

theorem step_of_firstMatch (u : UC) (c : Char) (r : Text) (rule : Rule) (l rest : Text)
    (hi : Gen.SqlLex.ignore.contains c = false) (hm : firstMatch u (c :: r) = some (rule, l, rest)) :
    step u (c :: r) = if rule.returnsToken then .emit (mkTok u rule l) rest else .skip rest := by
  simp only [step, hi, hm]; rfl

theorem step_of_firstMatch_none (u : UC) (c : Char) (r : Text)
    (hi : Gen.SqlLex.ignore.contains c = false) (hm : firstMatch u (c :: r) = none) :
    step u (c :: r) = .illegal := by
  simp only [step, hi, hm]; rfl

/-! ### layout -/

theorem step_space (u : UC) (r : Text) : step u (' ' :: r) = .skip r := by
  simp [step, Gen.SqlLex.ignore]

theorem lex_space (u : UC) (r : Text) : lex u (' ' :: r) = lex u r := lex_of_skip u _ _ (step_space u r)

theorem firstMatch_newline (u : UC) (r : Text) :
    firstMatch u ('\n' :: r) = some (.newline, '\n' :: r.takeWhile (fun c => c == '\n'), r.dropWhile (fun c => c == '\n')) := by
  unfold firstMatch
  simp only [Gen.SqlLex.ruleOrder, List.findSome?_cons, matchRule]
  rw [mComment_none _ _ (by decide), mChar_none _ _ _ (by decide), mFraction_none _ _ _ (by simp [UC.isDigit, isAsciiDigit]),
    mRelid_none _ _ (by decide), mCardinality_none _ _ (by decide), mId_none _ _ _ (by decide), mChar_none _ _ _ (by decide),
    mChar_none _ _ _ (by decide), mNumber_none _ _ (by decide), mChar_none _ _ _ (by decide), mChar_none _ _ _ (by decide),
    mString_none _ _ (by decide), mGuid_none _ _ (by decide)]
  simp [mNewline, List.takeWhile_cons, List.dropWhile_cons]

theorem step_newline (u : UC) (r : Text) : step u ('\n' :: r) = .skip (r.dropWhile (fun c => c == '\n')) := by
  rw [step_of_firstMatch u _ _ _ _ _ (by decide) (firstMatch_newline u r)]; rfl

/-- newlines are skipped -/
theorem lex_newline (u : UC) (r : Text) : lex u ('\n' :: r) = lex u r := by
  rw [lex_of_skip u _ _ (step_newline u r)]
  cases r with
  | nil => rfl
  | cons c r' =>
    by_cases hc : c = '\n'
    · subst hc
      rw [lex_of_skip u _ _ (step_newline u r')]
      simp [List.dropWhile_cons]
    · simp [List.dropWhile_cons, hc]

/-! ### punctuation -/

theorem firstMatch_comma (u : UC) (r : Text) : firstMatch u (',' :: r) = some (.COMMA, [','], r) := by
  unfold firstMatch
  simp only [Gen.SqlLex.ruleOrder, List.findSome?_cons, matchRule]
  rw [mComment_none _ _ (by decide)]
  simp [mChar]

theorem step_comma (u : UC) (r : Text) : step u (',' :: r) = .emit ⟨.COMMA, [',']⟩ r := by
  rw [step_of_firstMatch u _ _ _ _ _ (by decide) (firstMatch_comma u r)]; rfl

theorem firstMatch_lparen (u : UC) (r : Text) : firstMatch u ('(' :: r) = some (.LPAREN, ['('], r) := by
  unfold firstMatch
  simp only [Gen.SqlLex.ruleOrder, List.findSome?_cons, matchRule]
  rw [mComment_none _ _ (by decide), mChar_none _ _ _ (by decide), mFraction_none _ _ _ (by simp [UC.isDigit, isAsciiDigit]),
    mRelid_none _ _ (by decide), mCardinality_none _ _ (by decide), mId_none _ _ _ (by decide)]
  simp [mChar]

theorem step_lparen (u : UC) (r : Text) : step u ('(' :: r) = .emit ⟨.LPAREN, ['(']⟩ r := by
  rw [step_of_firstMatch u _ _ _ _ _ (by decide) (firstMatch_lparen u r)]; rfl

theorem firstMatch_rparen (u : UC) (r : Text) : firstMatch u (')' :: r) = some (.RPAREN, [')'], r) := by
  unfold firstMatch
  simp only [Gen.SqlLex.ruleOrder, List.findSome?_cons, matchRule]
  rw [mComment_none _ _ (by decide), mChar_none _ _ _ (by decide), mFraction_none _ _ _ (by simp [UC.isDigit, isAsciiDigit]),
    mRelid_none _ _ (by decide), mCardinality_none _ _ (by decide), mId_none _ _ _ (by decide), mChar_none _ _ _ (by decide),
    mChar_none _ _ _ (by decide), mNumber_none _ _ (by decide)]
  simp [mChar]

theorem step_rparen (u : UC) (r : Text) : step u (')' :: r) = .emit ⟨.RPAREN, [')']⟩ r := by
  rw [step_of_firstMatch u _ _ _ _ _ (by decide) (firstMatch_rparen u r)]; rfl

theorem firstMatch_semicolon (u : UC) (r : Text) : firstMatch u (';' :: r) = some (.SEMICOLON, [';'], r) := by
  unfold firstMatch
  simp only [Gen.SqlLex.ruleOrder, List.findSome?_cons, matchRule]
  rw [mComment_none _ _ (by decide), mChar_none _ _ _ (by decide), mFraction_none _ _ _ (by simp [UC.isDigit, isAsciiDigit]),
    mRelid_none _ _ (by decide), mCardinality_none _ _ (by decide), mId_none _ _ _ (by decide), mChar_none _ _ _ (by decide),
    mChar_none _ _ _ (by decide), mNumber_none _ _ (by decide), mChar_none _ _ _ (by decide)]
  simp [mChar]

theorem step_semicolon (u : UC) (r : Text) : step u (';' :: r) = .emit ⟨.SEMICOLON, [';']⟩ r := by
  rw [step_of_firstMatch u _ _ _ _ _ (by decide) (firstMatch_semicolon u r)]; rfl

/-! ### minus and comment -/

theorem mComment_dash_none (r : Text) (h : ∀ c, r.head? = some c → c ≠ '-') : mComment ('-' :: r) = none := by
  cases r with
  | nil => simp [mComment]
  | cons d r => simp [mComment, h d rfl]

/-- a minus sign that does not start a comment -/
theorem firstMatch_minus (u : UC) (r : Text) (h : ∀ c, r.head? = some c → c ≠ '-') :
    firstMatch u ('-' :: r) = some (.MINUS, ['-'], r) := by
  unfold firstMatch
  simp only [Gen.SqlLex.ruleOrder, List.findSome?_cons, matchRule]
  rw [mComment_dash_none r h, mChar_none _ _ _ (by decide), mFraction_none _ _ _ (by simp [UC.isDigit, isAsciiDigit]),
    mRelid_none _ _ (by decide), mCardinality_none _ _ (by decide), mId_none _ _ _ (by decide), mChar_none _ _ _ (by decide)]
  simp [mChar]

theorem step_minus (u : UC) (r : Text) (h : ∀ c, r.head? = some c → c ≠ '-') :
    step u ('-' :: r) = .emit ⟨.MINUS, ['-']⟩ r := by
  rw [step_of_firstMatch u _ _ _ _ _ (by decide) (firstMatch_minus u r h)]; rfl

theorem mComment_line (body r : Text) (h : ∀ c ∈ body, c ≠ '\n') :
    mComment ('-' :: '-' :: (body ++ '\n' :: r)) = some ('-' :: '-' :: (body ++ ['\n']), r) := by
  have hall : ∀ c ∈ body, (fun c => c != '\n') c = true := by intro c hc; simp [h c hc]
  have hhead : ∀ y, ('\n' :: r).head? = some y → (fun c => c != '\n') y = false := by
    intro y hy; simp at hy; simp [← hy]
  have ht := takeWhile_run (fun c => c != '\n') body ('\n' :: r) hall hhead
  have hd := dropWhile_run (fun c => c != '\n') body ('\n' :: r) hall hhead
  simp only [mComment, if_true, ht, hd]

/-- `-- text without newline \n` is discarded up to and including the newline -/
theorem step_comment (u : UC) (body r : Text) (h : ∀ c ∈ body, c ≠ '\n') :
    step u ('-' :: '-' :: (body ++ '\n' :: r)) = .skip r := by
  have hm : firstMatch u ('-' :: '-' :: (body ++ '\n' :: r)) = some (.comment, '-' :: '-' :: (body ++ ['\n']), r) := by
    unfold firstMatch
    simp only [Gen.SqlLex.ruleOrder, List.findSome?_cons, matchRule]
    rw [mComment_line body r h]; rfl
  rw [step_of_firstMatch u _ _ _ _ _ (by decide) hm]; rfl

/-- the same at the end of the text (no newline follows) -/
theorem step_comment_eof (u : UC) (body : Text) (h : ∀ c ∈ body, c ≠ '\n') :
    step u ('-' :: '-' :: body) = .skip [] := by
  have hall : ∀ c ∈ body, (fun c => c != '\n') c = true := by intro c hc; simp [h c hc]
  have ht : body.takeWhile (fun c => c != '\n') = body := by
    have := takeWhile_run (fun c => c != '\n') body [] hall (by simp); simpa using this
  have hd : body.dropWhile (fun c => c != '\n') = [] := by
    have := dropWhile_run (fun c => c != '\n') body [] hall (by simp); simpa using this
  have hm : firstMatch u ('-' :: '-' :: body) = some (.comment, '-' :: '-' :: body, []) := by
    unfold firstMatch
    simp only [Gen.SqlLex.ruleOrder, List.findSome?_cons, matchRule]
    simp only [mComment, if_true, ht, hd]; rfl
  rw [step_of_firstMatch u _ _ _ _ _ (by decide) hm]; rfl

/-! ### strings -/

/-- the string rule reads an escaped text up to its closing quote, whatever the text contains -/
theorem scanStr_escapeQ (s rest : Text) (h : ∀ c, rest.head? = some c → c ≠ '\'') :
    scanStr (escapeQ s ++ '\'' :: rest) = some (escapeQ s, rest) := by
  induction s with
  | nil =>
    cases rest with
    | nil => simp [escapeQ, scanStr]
    | cons d r => have := h d rfl; simp [escapeQ, scanStr, this]
  | cons c s ih =>
    have hcons : escapeQ (c :: s) = (if c = '\'' then ['\'', '\''] else [c]) ++ escapeQ s := by
      simp [escapeQ, List.flatMap_cons]
    rw [hcons]
    by_cases hc : c = '\''
    · subst hc
      simp only [if_true, List.cons_append, List.nil_append]
      have ih' : scanStr (escapeQ s ++ '\'' :: rest) = some (escapeQ s, rest) := ih
      rw [scanStr]; simp only [if_true]; rw [ih']
    · simp only [hc, if_false, List.cons_append, List.nil_append]
      have ih' : scanStr (escapeQ s ++ '\'' :: rest) = some (escapeQ s, rest) := ih
      rw [scanStr.eq_def]; simp only [hc, if_false]; rw [ih']

theorem firstMatch_quote (u : UC) (r : Text) :
    firstMatch u ('\'' :: r) = (mString ('\'' :: r)).map (fun p => (Rule.STRING, p.1, p.2)) := by
  unfold firstMatch
  simp only [Gen.SqlLex.ruleOrder, List.findSome?_cons, matchRule]
  rw [mComment_none _ _ (by decide), mChar_none _ _ _ (by decide), mFraction_none _ _ _ (by simp [UC.isDigit, isAsciiDigit]),
    mRelid_none _ _ (by decide), mCardinality_none _ _ (by decide), mId_none _ _ _ (by decide), mChar_none _ _ _ (by decide),
    mChar_none _ _ _ (by decide), mNumber_none _ _ (by decide), mChar_none _ _ _ (by decide), mChar_none _ _ _ (by decide),
    mGuid_none _ _ (by decide), mNewline_none _ _ (by decide)]
  cases mString ('\'' :: r) <;> simp

theorem step_string (u : UC) (s rest : Text) (h : ∀ c, rest.head? = some c → c ≠ '\'') :
    step u (strText s ++ rest) = .emit ⟨.STRING, strText s⟩ rest := by
  have hm : firstMatch u ('\'' :: (escapeQ s ++ '\'' :: rest)) = some (.STRING, strText s, rest) := by
    rw [firstMatch_quote]
    simp only [mString, if_true, scanStr_escapeQ s rest h, strText]; rfl
  have : strText s ++ rest = '\'' :: (escapeQ s ++ '\'' :: rest) := by simp [strText]
  rw [this, step_of_firstMatch u _ _ _ _ _ (by decide) hm]; rfl

/-! ### guids -/

theorem scanGuid_plain (body rest : Text) (h : ∀ c ∈ body, c ≠ '"' ∧ c ≠ '\n' ∧ c ≠ '\\') :
    scanGuid (body ++ '"' :: rest) = some (body, rest) := by
  induction body with
  | nil => rw [scanGuid.eq_def]; simp
  | cons c b ih =>
    obtain ⟨h1, h2, h3⟩ := h c (by simp)
    have ih' := ih (fun x hx => h x (by simp [hx]))
    simp only [List.cons_append]
    rw [scanGuid.eq_def]; simp only [h1, h2, h3, if_false]; rw [ih']

theorem firstMatch_dquote (u : UC) (r : Text) :
    firstMatch u ('"' :: r) = (mGuid ('"' :: r)).map (fun p => (Rule.GUID, p.1, p.2)) := by
  unfold firstMatch
  simp only [Gen.SqlLex.ruleOrder, List.findSome?_cons, matchRule]
  rw [mComment_none _ _ (by decide), mChar_none _ _ _ (by decide), mFraction_none _ _ _ (by simp [UC.isDigit, isAsciiDigit]),
    mRelid_none _ _ (by decide), mCardinality_none _ _ (by decide), mId_none _ _ _ (by decide), mChar_none _ _ _ (by decide),
    mChar_none _ _ _ (by decide), mNumber_none _ _ (by decide), mChar_none _ _ _ (by decide), mChar_none _ _ _ (by decide),
    mString_none _ _ (by decide), mNewline_none _ _ (by decide)]
  cases mGuid ('"' :: r) <;> simp

theorem step_guid_plain (u : UC) (body rest : Text) (h : ∀ c ∈ body, c ≠ '"' ∧ c ≠ '\n' ∧ c ≠ '\\') :
    step u ('"' :: (body ++ '"' :: rest)) = .emit ⟨.GUID, '"' :: (body ++ ['"'])⟩ rest := by
  have hm : firstMatch u ('"' :: (body ++ '"' :: rest)) = some (.GUID, '"' :: (body ++ ['"']), rest) := by
    rw [firstMatch_dquote]
    simp only [mGuid, if_true, scanGuid_plain body rest h]; rfl
  rw [step_of_firstMatch u _ _ _ _ _ (by decide) hm]; rfl

/-! ### numbers -/

/-- what may follow a printed number: not a digit (of any script), not `.`, not `C` -/
def NumFollow (u : UC) (rest : Text) : Prop :=
  ∀ c, rest.head? = some c → u.isDigit c = false ∧ c ≠ '.' ∧ c ≠ 'C'

theorem takeWhile_digits_run (u : UC) (ds rest : Text) (hd : ∀ c ∈ ds, isAsciiDigit c = true)
    (hr : ∀ c, rest.head? = some c → u.isDigit c = false) :
    (ds ++ rest).takeWhile u.isDigit = ds ∧ (ds ++ rest).dropWhile u.isDigit = rest :=
  ⟨takeWhile_run _ ds rest (fun c hc => u.isDigit_of_ascii (hd c hc)) hr,
   dropWhile_run _ ds rest (fun c hc => u.isDigit_of_ascii (hd c hc)) hr⟩

theorem takeWhile_asciiDigits_run (u : UC) (ds rest : Text) (hd : ∀ c ∈ ds, isAsciiDigit c = true)
    (hr : ∀ c, rest.head? = some c → u.isDigit c = false) :
    (ds ++ rest).takeWhile isAsciiDigit = ds ∧ (ds ++ rest).dropWhile isAsciiDigit = rest := by
  have hr' : ∀ c, rest.head? = some c → isAsciiDigit c = false := by
    intro c hc
    have := hr c hc
    cases hd' : isAsciiDigit c with
    | false => rfl
    | true => rw [u.isDigit_of_ascii hd'] at this; exact this
  exact ⟨takeWhile_run _ ds rest hd hr', dropWhile_run _ ds rest hd hr'⟩

theorem firstMatch_number (u : UC) (d : Char) (ds rest : Text) (hd : ∀ c ∈ d :: ds, isAsciiDigit c = true)
    (hr : NumFollow u rest) : firstMatch u (d :: ds ++ rest) = some (.NUMBER, d :: ds, rest) := by
  have hd0 : isAsciiDigit d = true := hd d (by simp)
  have hrd : ∀ c, rest.head? = some c → u.isDigit c = false := fun c hc => (hr c hc).1
  obtain ⟨t1, t2⟩ := takeWhile_digits_run u (d :: ds) rest hd hrd
  obtain ⟨a1, a2⟩ := takeWhile_asciiDigits_run u (d :: ds) rest hd hrd
  have hfrac : mFraction u (d :: ds ++ rest) = none := by
    unfold mFraction
    simp only [t1, t2]
    cases rest with
    | nil => simp
    | cons e r => have := (hr e rfl).2.1; simp [this]
  have hcard : mCardinality (d :: ds ++ rest) = none := by
    by_cases h1 : d = '1'
    · subst h1
      cases ds with
      | nil =>
        cases rest with
        | nil => simp [mCardinality]
        | cons e r => have := (hr e rfl).2.2; simp [mCardinality, this]
      | cons e es =>
        have he : isAsciiDigit e = true := hd e (by simp)
        have : e ≠ 'C' := ne_of_isAsciiDigit he (by decide)
        simp [mCardinality, this]
    · simp [mCardinality, h1]
  have hnum : mNumber (d :: ds ++ rest) = some (d :: ds, rest) := by
    unfold mNumber
    simp only [a1, a2]; simp
  unfold firstMatch
  simp only [Gen.SqlLex.ruleOrder, List.findSome?_cons, matchRule]
  simp only [List.cons_append] at hfrac hcard hnum ⊢
  rw [mComment_none _ _ (ne_of_isAsciiDigit hd0 (by decide)), mChar_none _ _ _ (ne_of_isAsciiDigit hd0 (by decide)), hfrac,
    mRelid_none _ _ (ne_of_isAsciiDigit hd0 (by decide)), hcard]
  rw [mId_none _ _ _ (by
    simp only [isAsciiDigit, Bool.and_eq_true, decide_eq_true_eq] at hd0
    simp only [isIdStart, isAsciiAlpha, isAsciiUpper, isAsciiLower, Bool.or_eq_false_iff, Bool.and_eq_false_iff,
      decide_eq_false_iff_not, beq_eq_false_iff_ne]
    refine ⟨⟨by omega, by omega⟩, ?_⟩
    intro h; subst h; simp at hd0)]
  rw [mChar_none _ _ _ (ne_of_isAsciiDigit hd0 (by decide)), mChar_none _ _ _ (ne_of_isAsciiDigit hd0 (by decide)), hnum]
  rfl

theorem isAsciiDigit_not_ignore {c : Char} (h : isAsciiDigit c = true) : Gen.SqlLex.ignore.contains c = false := by
  simp only [Gen.SqlLex.ignore, List.contains_cons, List.contains_nil, Bool.or_false, Bool.or_eq_false_iff, beq_eq_false_iff_ne]
  exact ⟨ne_of_isAsciiDigit h (by decide), ne_of_isAsciiDigit h (by decide), ne_of_isAsciiDigit h (by decide),
    ne_of_isAsciiDigit h (by decide)⟩

theorem step_number (u : UC) (d : Char) (ds rest : Text) (hd : ∀ c ∈ d :: ds, isAsciiDigit c = true)
    (hr : NumFollow u rest) : step u (d :: ds ++ rest) = .emit ⟨.NUMBER, d :: ds⟩ rest := by
  have hm := firstMatch_number u d ds rest hd hr
  simp only [List.cons_append] at hm ⊢
  rw [step_of_firstMatch u _ _ _ _ _ (isAsciiDigit_not_ignore (hd d (by simp))) hm]; rfl

/-- digits `.` digits followed by something that is not a digit -/
theorem firstMatch_fraction (u : UC) (d : Char) (ds : Text) (e : Char) (es rest : Text)
    (hd : ∀ c ∈ d :: ds, isAsciiDigit c = true) (he : ∀ c ∈ e :: es, isAsciiDigit c = true)
    (hr : ∀ c, rest.head? = some c → u.isDigit c = false) :
    firstMatch u (d :: ds ++ '.' :: (e :: es ++ rest)) = some (.FRACTION, d :: ds ++ '.' :: e :: es, rest) := by
  have hd0 : isAsciiDigit d = true := hd d (by simp)
  have hdot : ∀ c, ('.' :: (e :: es ++ rest)).head? = some c → u.isDigit c = false := by
    intro c hc; simp at hc; subst hc; simp [UC.isDigit, isAsciiDigit]
  obtain ⟨t1, t2⟩ := takeWhile_digits_run u (d :: ds) ('.' :: (e :: es ++ rest)) hd hdot
  obtain ⟨s1, s2⟩ := takeWhile_digits_run u (e :: es) rest he hr
  have hfrac : mFraction u (d :: ds ++ '.' :: (e :: es ++ rest)) = some (d :: ds ++ '.' :: e :: es, rest) := by
    unfold mFraction
    simp only [t1, t2, s1, s2]; simp
  unfold firstMatch
  simp only [Gen.SqlLex.ruleOrder, List.findSome?_cons, matchRule]
  simp only [List.cons_append] at hfrac ⊢
  rw [mComment_none _ _ (ne_of_isAsciiDigit hd0 (by decide)), mChar_none _ _ _ (ne_of_isAsciiDigit hd0 (by decide)), hfrac]
  rfl

theorem step_fraction (u : UC) (d : Char) (ds : Text) (e : Char) (es rest : Text)
    (hd : ∀ c ∈ d :: ds, isAsciiDigit c = true) (he : ∀ c ∈ e :: es, isAsciiDigit c = true)
    (hr : ∀ c, rest.head? = some c → u.isDigit c = false) :
    step u (d :: ds ++ '.' :: (e :: es ++ rest)) = .emit ⟨.FRACTION, d :: ds ++ '.' :: e :: es⟩ rest := by
  have hm := firstMatch_fraction u d ds e es rest hd he hr
  simp only [List.cons_append] at hm ⊢
  rw [step_of_firstMatch u _ _ _ _ _ (isAsciiDigit_not_ignore (hd d (by simp))) hm]; rfl

/-! ### words: identifiers, keywords, `M` / `MC` -/

theorem ne_of_isIdStart {c x : Char} (hc : isIdStart c = true) (hx : isIdStart x = false) : c ≠ x := by
  intro h; subst h; rw [hc] at hx; exact Bool.noConfusion hx

theorem isIdStart_lt_128 {c : Char} (hc : isIdStart c = true) : c.toNat < 128 := by
  simp only [isIdStart, isAsciiAlpha, isAsciiUpper, isAsciiLower, Bool.or_eq_true, Bool.and_eq_true,
    decide_eq_true_eq, beq_iff_eq] at hc
  rcases hc with (⟨_, _⟩ | ⟨_, _⟩) | h
  · omega
  · omega
  · subst h; decide

theorem isIdStart_not_digit {c : Char} (hc : isIdStart c = true) : isAsciiDigit c = false := by
  simp only [isIdStart, isAsciiAlpha, isAsciiUpper, isAsciiLower, Bool.or_eq_true, Bool.and_eq_true,
    decide_eq_true_eq, beq_iff_eq] at hc
  simp only [isAsciiDigit, Bool.and_eq_false_iff, decide_eq_false_iff_not]
  rcases hc with (⟨_, _⟩ | ⟨_, _⟩) | h
  · omega
  · omega
  · subst h; decide

theorem isIdStart_not_ignore {c : Char} (h : isIdStart c = true) : Gen.SqlLex.ignore.contains c = false := by
  simp only [Gen.SqlLex.ignore, List.contains_cons, List.contains_nil, Bool.or_false, Bool.or_eq_false_iff, beq_eq_false_iff_ne]
  exact ⟨ne_of_isIdStart h (by decide), ne_of_isIdStart h (by decide), ne_of_isIdStart h (by decide),
    ne_of_isIdStart h (by decide)⟩

/-- the characters after the first one do not make the word a rel id: `R` is not followed by a digit -/
def NotRelid (c : Char) (tail : Text) : Prop :=
  c = 'R' → ∀ d, tail.head? = some d → isAsciiDigit d = false

theorem firstMatch_word (u : UC) (c : Char) (cs rest : Text) (hc : isIdStart c = true)
    (hcs : ∀ x ∈ cs, isAsciiWord x = true) (hr : ∀ x, rest.head? = some x → u.isWord x = false)
    (hrel : NotRelid c (cs ++ rest)) :
    firstMatch u (c :: cs ++ rest) = some (.ID, c :: cs, rest) := by
  have hdig : u.isDigit c = false := by
    rw [u.isDigit_ascii_eq (isIdStart_lt_128 hc)]; exact isIdStart_not_digit hc
  have hrelid : mRelid (c :: (cs ++ rest)) = none := by
    by_cases hR : c = 'R'
    · have h0 := hrel hR
      subst hR
      have : (cs ++ rest).takeWhile isAsciiDigit = [] := takeWhile_of_head_false _ _ h0
      simp [mRelid, this]
    · exact mRelid_none _ _ hR
  have hid : mId u (c :: (cs ++ rest)) = some (c :: cs, rest) := by
    have t1 := takeWhile_run u.isWord cs rest (fun x hx => u.isWord_of_ascii (hcs x hx)) hr
    have t2 := dropWhile_run u.isWord cs rest (fun x hx => u.isWord_of_ascii (hcs x hx)) hr
    simp only [mId, hc, if_true, t1, t2]
  unfold firstMatch
  simp only [Gen.SqlLex.ruleOrder, List.findSome?_cons, matchRule, List.cons_append]
  rw [mComment_none _ _ (ne_of_isIdStart hc (by decide)), mChar_none _ _ _ (ne_of_isIdStart hc (by decide)),
    mFraction_none _ _ _ hdig, hrelid, mCardinality_none _ _ (ne_of_isIdStart hc (by decide)), hid]
  rfl

/-- an identifier lexes to ONE token carrying exactly its text: a reserved-word token if its upper-case
    form is a reserved word, an ID token otherwise -/
theorem step_word (u : UC) (c : Char) (cs rest : Text) (hc : isIdStart c = true)
    (hcs : ∀ x ∈ cs, isAsciiWord x = true) (hr : ∀ x, rest.head? = some x → u.isWord x = false)
    (hrel : NotRelid c (cs ++ rest)) :
    step u (c :: cs ++ rest) = .emit (mkTok u .ID (c :: cs)) rest := by
  have hm := firstMatch_word u c cs rest hc hcs hr hrel
  simp only [List.cons_append] at hm ⊢
  rw [step_of_firstMatch u _ _ _ _ _ (isIdStart_not_ignore hc) hm]; rfl

theorem mkTok_ID_text (u : UC) (w : Text) : (mkTok u .ID w).text = w := by
  unfold mkTok; split
  · split <;> rfl
  · rfl

theorem mkTok_ID_kind (u : UC) (w : Text) : (mkTok u .ID w).kind = .ID ∨ ∃ k, (mkTok u .ID w).kind = .kw k := by
  unfold mkTok; split
  · split
    · right; exact ⟨_, rfl⟩
    · left; rfl
  · left; rfl

/-! ### rel ids and the `1C` cardinality -/

theorem firstMatch_relid (u : UC) (d : Char) (ds rest : Text) (hd : ∀ c ∈ d :: ds, isAsciiDigit c = true)
    (hr : ∀ c, rest.head? = some c → isAsciiDigit c = false) :
    firstMatch u ('R' :: (d :: ds ++ rest)) = some (.RELID, 'R' :: d :: ds, rest) := by
  have t1 := takeWhile_run isAsciiDigit (d :: ds) rest hd hr
  have t2 := dropWhile_run isAsciiDigit (d :: ds) rest hd hr
  have hrel : mRelid ('R' :: (d :: ds ++ rest)) = some ('R' :: d :: ds, rest) := by
    simp only [mRelid, if_true, t1, t2]; simp
  unfold firstMatch
  simp only [Gen.SqlLex.ruleOrder, List.findSome?_cons, matchRule]
  rw [mComment_none _ _ (by decide), mChar_none _ _ _ (by decide), mFraction_none _ _ _ (by simp [UC.isDigit, isAsciiDigit]), hrel]
  rfl

theorem step_relid (u : UC) (d : Char) (ds rest : Text) (hd : ∀ c ∈ d :: ds, isAsciiDigit c = true)
    (hr : ∀ c, rest.head? = some c → isAsciiDigit c = false) :
    step u ('R' :: (d :: ds ++ rest)) = .emit ⟨.RELID, 'R' :: d :: ds⟩ rest := by
  rw [step_of_firstMatch u _ _ _ _ _ (by decide) (firstMatch_relid u d ds rest hd hr)]; rfl

theorem firstMatch_1C (u : UC) (rest : Text) : firstMatch u ('1' :: 'C' :: rest) = some (.CARDINALITY, ['1', 'C'], rest) := by
  have hfrac : mFraction u ('1' :: 'C' :: rest) = none := by
    simp [mFraction, List.takeWhile_cons, List.dropWhile_cons, UC.isDigit, isAsciiDigit]
  unfold firstMatch
  simp only [Gen.SqlLex.ruleOrder, List.findSome?_cons, matchRule]
  rw [mComment_none _ _ (by decide), mChar_none _ _ _ (by decide), hfrac, mRelid_none _ _ (by decide)]
  simp [mCardinality]

theorem step_1C (u : UC) (rest : Text) : step u ('1' :: 'C' :: rest) = .emit ⟨.CARDINALITY, ['1', 'C']⟩ rest := by
  rw [step_of_firstMatch u _ _ _ _ _ (by decide) (firstMatch_1C u rest)]; rfl

end Pyx.Sql
