import Proofs.SqlCharLex

set_option linter.unusedSimpArgs false

/-! character level: the text of every printed item lexes to the token list `Item.toks` -/
namespace Pyx.Sql
open Gen.SqlLex (Rule Kw)
open Gen.Persist (Ty)

/-- `lex (text ++ rest) = toks ++ lex rest` -/
def LexTo (u : UC) (text : Text) (toks : List Tok) (rest : Text) : Prop :=
  lex u (text ++ rest) = (lex u rest).map (fun more => toks ++ more)

theorem LexTo.nil (u : UC) (rest : Text) : LexTo u [] [] rest := by
  unfold LexTo; cases h : lex u rest <;> simp [h]

/-- chaining: first `a`, then `b` -/
theorem LexTo.append (u : UC) {a b : Text} {ta tb : List Tok} {rest : Text}
    (ha : LexTo u a ta (b ++ rest)) (hb : LexTo u b tb rest) : LexTo u (a ++ b) (ta ++ tb) rest := by
  unfold LexTo at *
  rw [List.append_assoc, ha, hb]
  cases lex u rest <;> simp

theorem LexTo.of_eq (u : UC) {a : Text} {ta : List Tok} {rest : Text}
    (h : lex u (a ++ rest) = (lex u rest).map (fun more => ta ++ more)) : LexTo u a ta rest := h

theorem LexTo.space (u : UC) (rest : Text) : LexTo u [' '] [] rest := by
  unfold LexTo; simp only [List.cons_append, List.nil_append, lex_space]; cases lex u rest <;> simp

theorem LexTo.newline (u : UC) (rest : Text) : LexTo u ['\n'] [] rest := by
  unfold LexTo; simp only [List.cons_append, List.nil_append, lex_newline]; cases lex u rest <;> simp

theorem LexTo.sp4 (u : UC) (rest : Text) : LexTo u [' ', ' ', ' ', ' '] [] rest := by
  unfold LexTo; simp only [List.cons_append, List.nil_append, lex_space]; cases lex u rest <;> simp

theorem LexTo.lparen (u : UC) (rest : Text) : LexTo u ['('] [lparenTok] rest := by
  unfold LexTo; simp only [List.cons_append, List.nil_append, lex_lparen]
theorem LexTo.rparen (u : UC) (rest : Text) : LexTo u [')'] [rparenTok] rest := by
  unfold LexTo; simp only [List.cons_append, List.nil_append, lex_rparen]
theorem LexTo.comma (u : UC) (rest : Text) : LexTo u [','] [commaTok] rest := by
  unfold LexTo; simp only [List.cons_append, List.nil_append, lex_comma]
theorem LexTo.semi (u : UC) (rest : Text) : LexTo u [';'] [semiTok] rest := by
  unfold LexTo; simp only [List.cons_append, List.nil_append, lex_semi]

theorem LexTo.word (u : UC) (w : Text) (hw : IdentOk w) (rest : Text) (hs : Safe rest) : LexTo u w [wordTok u w] rest := by
  unfold LexTo; rw [lex_word u w hw rest hs]; rfl

/-- a reserved word followed by a blank (the blank is part of the fragment) -/
theorem LexTo.kwSp (u : UC) (k : Kw) (rest : Text) : LexTo u (k.chars ++ [' ']) [kwTok k] rest := by
  unfold LexTo
  rw [List.append_assoc]
  simp only [List.cons_append, List.nil_append, lex_kw]

theorem LexTo.value (u : UC) (t : Ty) (v : Val) (txt : Text) (ts : List Tok) (hf : fmtValue t v = some txt)
    (hv : valueToks t v = some ts) (rest : Text) (hs : Safe rest) : LexTo u txt ts rest :=
  lex_value u t v txt ts hf hv rest hs

/-- a comment up to the end of its line; the newline is part of the fragment -/
theorem LexTo.comment (u : UC) (body rest : Text) (h : ∀ c ∈ body, c ≠ '\n') :
    LexTo u ('-' :: '-' :: (body ++ ['\n'])) [] rest := by
  unfold LexTo
  have : '-' :: '-' :: (body ++ ['\n']) ++ rest = '-' :: '-' :: (body ++ '\n' :: rest) := by simp
  rw [this, lex_comment u body rest h]; cases lex u rest <;> simp

/-! ### comma separated sequences -/

/-- `a<sep>b<sep>c` with a separator that starts with a comma and lexes to one COMMA token -/
theorem LexTo.joined {α : Type} (u : UC) (sep : Text) (enc : α → Text) (encToks : α → List Tok) (P : α → Prop)
    (hsepSafe : ∀ r, Safe (sep ++ r))
    (hsep : ∀ r, LexTo u sep [commaTok] r)
    (helem : ∀ x, P x → ∀ r, Safe r → LexTo u (enc x) (encToks x) r) :
    ∀ (xs : List α), (∀ x ∈ xs, P x) → ∀ (rest : Text), Safe rest →
      LexTo u (joinWith sep (xs.map enc)) (sepToks (xs.map encToks)) rest := by
  intro xs
  induction xs with
  | nil => intro _ rest _; exact LexTo.nil u rest
  | cons x xs ih =>
    intro hP rest hrest
    cases xs with
    | nil => simpa [joinWith, sepToks] using helem x (hP x (by simp)) rest hrest
    | cons y ys =>
      have ih' := ih (fun a ha => hP a (by simp [ha])) rest hrest
      simp only [List.map_cons, joinWith, sepToks] at ih' ⊢
      have h1 : LexTo u (enc x) (encToks x) ((sep ++ joinWith sep (enc y :: ys.map enc)) ++ rest) :=
        helem x (hP x (by simp)) _ (by rw [List.append_assoc]; exact hsepSafe _)
      have h2 : LexTo u sep [commaTok] (joinWith sep (enc y :: ys.map enc) ++ rest) := hsep _
      have h4 := LexTo.append u h1 (LexTo.append u h2 ih')
      simpa [List.append_assoc] using h4

/-! ### `serialize_class` -/

theorem safe_app_space (a r : Text) : Safe ([' '] ++ a ++ r) := Safe.cons_space _
theorem safe_app_comma (a r : Text) : Safe (',' :: a ++ r) := Safe.cons_comma _
theorem safe_app_newline (a r : Text) : Safe ('\n' :: a ++ r) := Safe.cons_newline _

/-- the explicit text of a printed class -/
def clsText (u : UC) (kind : Name) (attrs : List (Name × Name)) : Text :=
  (Kw.CREATE.chars ++ [' ']) ++ ((Kw.TABLE.chars ++ [' ']) ++ (kind ++ ([' '] ++ (['('] ++ (['\n'] ++ ([' ', ' ', ' ', ' '] ++
    (joinWith [',', '\n', ' ', ' ', ' ', ' '] (attrs.map fun a => a.1 ++ ([' '] ++ u.upper a.2)) ++
      (['\n'] ++ ([')'] ++ ([';'] ++ ['\n']))))))))))

theorem print_cls (u : UC) (kind : Name) (attrs : List (Name × Name)) :
    Item.print u (.cls kind attrs) = some (clsText u kind attrs) := by
  have e1 : "CREATE TABLE ".toList = (Kw.CREATE.chars ++ [' ']) ++ (Kw.TABLE.chars ++ [' ']) := by decide
  have e2 : " (\n    ".toList = [' '] ++ (['('] ++ (['\n'] ++ [' ', ' ', ' ', ' '])) := by decide
  have e3 : ",\n    ".toList = [',', '\n', ' ', ' ', ' ', ' '] := by decide
  have e4 : "\n);\n".toList = ['\n'] ++ ([')'] ++ ([';'] ++ ['\n'])) := by decide
  simp only [Item.print, clsText, e1, e2, e3, e4, List.append_assoc, List.cons_append, List.nil_append]

theorem lexTo_attr (u : UC) (a : Name × Name) (h1 : IdentOk a.1) (h2 : IdentOk (u.upper a.2)) (r : Text) (hr : Safe r) :
    LexTo u (a.1 ++ ([' '] ++ u.upper a.2)) [wordTok u a.1, wordTok u (u.upper a.2)] r := by
  have w1 : LexTo u a.1 [wordTok u a.1] (([' '] ++ u.upper a.2) ++ r) :=
    LexTo.word u a.1 h1 _ (by rw [List.append_assoc]; exact Safe.cons_space _)
  have w2 : LexTo u [' '] [] (u.upper a.2 ++ r) := LexTo.space u _
  have w3 : LexTo u (u.upper a.2) [wordTok u (u.upper a.2)] r := LexTo.word u _ h2 r hr
  exact LexTo.append u w1 (LexTo.append u w2 w3)

theorem lexTo_sepNl (u : UC) (r : Text) : LexTo u [',', '\n', ' ', ' ', ' ', ' '] [commaTok] r := by
  have h := LexTo.append u (LexTo.comma u (['\n', ' ', ' ', ' ', ' '] ++ r))
    (LexTo.append u (LexTo.newline u ([' ', ' ', ' ', ' '] ++ r)) (LexTo.sp4 u r))
  simpa using h

/-- CHARACTER LEVEL, `CREATE TABLE` -/
theorem lexTo_cls (u : UC) (kind : Name) (attrs : List (Name × Name)) (hk : IdentOk kind)
    (ha : ∀ a ∈ attrs, IdentOk a.1 ∧ IdentOk (u.upper a.2)) (rest : Text) :
    LexTo u (clsText u kind attrs)
      (kwTok .CREATE :: kwTok .TABLE :: wordTok u kind :: lparenTok ::
        (sepToks (attrs.map fun a => [wordTok u a.1, wordTok u (u.upper a.2)]) ++ [rparenTok, semiTok])) rest := by
  unfold clsText
  -- the attribute list, followed by the closing line
  have hjoin : ∀ r, Safe r → LexTo u (joinWith [',', '\n', ' ', ' ', ' ', ' '] (attrs.map fun a => a.1 ++ ([' '] ++ u.upper a.2)))
      (sepToks (attrs.map fun a => [wordTok u a.1, wordTok u (u.upper a.2)])) r :=
    fun r hr => LexTo.joined u _ (fun a : Name × Name => a.1 ++ ([' '] ++ u.upper a.2))
      (fun a => [wordTok u a.1, wordTok u (u.upper a.2)]) (fun a => IdentOk a.1 ∧ IdentOk (u.upper a.2))
      (fun r => Safe.cons_comma _) (lexTo_sepNl u) (fun a h r hr => lexTo_attr u a h.1 h.2 r hr) attrs ha r hr
  have tail : LexTo u (['\n'] ++ ([')'] ++ ([';'] ++ ['\n']))) [rparenTok, semiTok] rest :=
    LexTo.append u (LexTo.newline u _) (LexTo.append u (LexTo.rparen u _) (LexTo.append u (LexTo.semi u _) (LexTo.newline u rest)))
  have body := LexTo.append u (hjoin _ (Safe.cons_newline _)) tail
  have h := LexTo.append u (LexTo.kwSp u .CREATE _) (LexTo.append u (LexTo.kwSp u .TABLE _)
    (LexTo.append u (LexTo.word u kind hk _ (Safe.cons_space _)) (LexTo.append u (LexTo.space u _)
      (LexTo.append u (LexTo.lparen u _) (LexTo.append u (LexTo.newline u _) (LexTo.append u (LexTo.sp4 u _) body))))))
  simpa using h

/-! ### `CREATE UNIQUE INDEX` -/

theorem lexTo_sepSp (u : UC) (r : Text) : LexTo u [',', ' '] [commaTok] r := by
  have h := LexTo.append u (LexTo.comma u ([' '] ++ r)) (LexTo.space u r)
  simpa using h

/-- `a, b, c` of identifiers -/
theorem lexTo_idents (u : UC) (names : List Name) (h : ∀ n ∈ names, IdentOk n) (r : Text) (hr : Safe r) :
    LexTo u (joinWith [',', ' '] names) (sepToks (names.map fun n => [wordTok u n])) r := by
  have := LexTo.joined u [',', ' '] (fun n : Name => n) (fun n => [wordTok u n]) IdentOk
    (fun r => Safe.cons_comma _) (lexTo_sepSp u) (fun n hn r hr => LexTo.word u n hn r hr) names h r hr
  simpa using this

def indexText (name kind : Name) (attrs : List Name) : Text :=
  (Kw.CREATE.chars ++ [' ']) ++ ((Kw.UNIQUE.chars ++ [' ']) ++ ((Kw.INDEX.chars ++ [' ']) ++ (name ++ ([' '] ++
    ((Kw.ON.chars ++ [' ']) ++ (kind ++ ([' '] ++ (['('] ++ (joinWith [',', ' '] attrs ++ ([')'] ++ ([';'] ++ ['\n'])))))))))))

theorem print_index (u : UC) (name kind : Name) (attrs : List Name) :
    Item.print u (.index name kind attrs) = some (indexText name kind attrs) := by
  have e1 : "CREATE UNIQUE INDEX ".toList = (Kw.CREATE.chars ++ [' ']) ++ ((Kw.UNIQUE.chars ++ [' ']) ++ (Kw.INDEX.chars ++ [' '])) := by
    decide
  have e2 : " ON ".toList = [' '] ++ (Kw.ON.chars ++ [' ']) := by decide
  have e3 : " (".toList = [' '] ++ ['('] := by decide
  have e4 : ");\n".toList = [')'] ++ ([';'] ++ ['\n']) := by decide
  simp only [Item.print, indexText, e1, e2, e3, e4, List.append_assoc, List.cons_append, List.nil_append]

/-- CHARACTER LEVEL, `CREATE UNIQUE INDEX` -/
theorem lexTo_index (u : UC) (name kind : Name) (attrs : List Name) (hn : IdentOk name) (hk : IdentOk kind)
    (ha : ∀ a ∈ attrs, IdentOk a) (rest : Text) :
    LexTo u (indexText name kind attrs)
      (kwTok .CREATE :: kwTok .UNIQUE :: kwTok .INDEX :: wordTok u name :: kwTok .ON :: wordTok u kind :: lparenTok ::
        (sepToks (attrs.map fun n => [wordTok u n]) ++ [rparenTok, semiTok])) rest := by
  unfold indexText
  have tail : LexTo u ([')'] ++ ([';'] ++ ['\n'])) [rparenTok, semiTok] rest :=
    LexTo.append u (LexTo.rparen u _) (LexTo.append u (LexTo.semi u _) (LexTo.newline u rest))
  have body := LexTo.append u (lexTo_idents u attrs ha _ (Safe.cons_rparen _)) tail
  have h := LexTo.append u (LexTo.kwSp u .CREATE _) (LexTo.append u (LexTo.kwSp u .UNIQUE _) (LexTo.append u (LexTo.kwSp u .INDEX _)
    (LexTo.append u (LexTo.word u name hn _ (Safe.cons_space _)) (LexTo.append u (LexTo.space u _)
      (LexTo.append u (LexTo.kwSp u .ON _) (LexTo.append u (LexTo.word u kind hk _ (Safe.cons_space _))
        (LexTo.append u (LexTo.space u _) (LexTo.append u (LexTo.lparen u _) body))))))))
  simpa using h

/-! ### `serialize_association` -/

theorem identOk_M : IdentOk ['M'] := ⟨by decide, by decide, by decide, by decide⟩
theorem identOk_MC : IdentOk ['M', 'C'] := ⟨by decide, by decide, by decide, by decide⟩

theorem lexTo_card (u : UC) (many cond : Bool) (r : Text) (hr : Safe r) :
    LexTo u (cardText many cond) (cardToks u many cond) r := by
  cases many <;> cases cond
  · -- "1"
    have := lex_of_emit u _ _ _ (step_number u '1' [] r (by decide) (hr.numFollow u))
    simpa [LexTo, cardText, cardToks] using this
  · -- "1C"
    have := lex_of_emit u _ _ _ (step_1C u r)
    simpa [LexTo, cardText, cardToks] using this
  · simpa [cardText, cardToks] using LexTo.word u ['M'] identOk_M r hr
  · simpa [cardText, cardToks] using LexTo.word u ['M', 'C'] identOk_MC r hr

/-- `R<digits>` -/
def RelOk (rel : Name) : Prop := ∃ d ds, rel = 'R' :: d :: ds ∧ ∀ c ∈ d :: ds, isAsciiDigit c = true

theorem lexTo_rel (u : UC) (rel : Name) (h : RelOk rel) (r : Text) (hr : Safe r) : LexTo u rel [⟨.RELID, rel⟩] r := by
  obtain ⟨d, ds, rfl, hd⟩ := h
  have := lex_of_emit u _ _ _ (step_relid u d ds r hd hr.not_asciiDigit)
  simpa [LexTo] using this

def phraseText (phrase : Text) : Text :=
  if phrase.isEmpty then [] else [' '] ++ ((Kw.PHRASE.chars ++ [' ']) ++ strText phrase)

/-- the phrase codec is the string codec -/
theorem lexTo_phrase (u : UC) (phrase : Text) (r : Text) (hr : Safe r) :
    LexTo u (phraseText phrase) (phraseToks phrase) r := by
  unfold phraseText phraseToks
  by_cases hp : phrase.isEmpty
  · simp only [hp, if_true]; exact LexTo.nil u r
  · simp only [hp, Bool.false_eq_true, if_false]
    have hs : LexTo u (strText phrase) [⟨.STRING, strText phrase⟩] r := by
      have := lex_of_emit u _ _ _ (step_string u phrase r hr.not_quote)
      simpa [LexTo] using this
    exact LexTo.append u (LexTo.space u _) (LexTo.append u (LexTo.kwSp u .PHRASE _) hs)

structure EndOk (e : EndM) : Prop where
  kind : IdentOk e.kind
  keys : ∀ k ∈ e.keys, IdentOk k

def endText' (e : EndM) : Text :=
  cardText e.many e.cond ++ ([' '] ++ (e.kind ++ ([' '] ++ (['('] ++ (joinWith [',', ' '] e.keys ++ ([')'] ++ phraseText e.phrase))))))

theorem endText_eq (e : EndM) : endText e = endText' e := by
  have e1 : " PHRASE '".toList = [' '] ++ ((Kw.PHRASE.chars ++ [' ']) ++ ['\'']) := by decide
  unfold endText endText' phraseText
  by_cases hp : e.phrase.isEmpty <;> simp [hp, e1, strText, List.append_assoc]

theorem lexTo_end (u : UC) (e : EndM) (h : EndOk e) (r : Text) (hr : Safe r) : LexTo u (endText' e) (endToks u e) r := by
  unfold endText' endToks
  have hph := lexTo_phrase u e.phrase r hr
  have hsafe : Safe (phraseText e.phrase ++ r) := by
    unfold phraseText
    by_cases hp : e.phrase.isEmpty
    · simpa [hp] using hr
    · simp only [hp, Bool.false_eq_true, if_false]; exact Safe.cons_space _
  have tail := LexTo.append u (LexTo.rparen u (phraseText e.phrase ++ r)) hph
  have keys := LexTo.append u (lexTo_idents u e.keys h.keys _ (Safe.cons_rparen _)) tail
  have hfull := LexTo.append u (lexTo_card u e.many e.cond _ (Safe.cons_space _)) (LexTo.append u (LexTo.space u _)
    (LexTo.append u (LexTo.word u e.kind h.kind _ (Safe.cons_space _)) (LexTo.append u (LexTo.space u _)
      (LexTo.append u (LexTo.lparen u _) keys))))
  simpa using hfull

def assocText (rel : Name) (s t : EndM) : Text :=
  (Kw.CREATE.chars ++ [' ']) ++ ((Kw.ROP.chars ++ [' ']) ++ ((Kw.REF_ID.chars ++ [' ']) ++ (rel ++ ([' '] ++
    ((Kw.FROM.chars ++ [' ']) ++ (endText' s ++ ([' '] ++ ((Kw.TO.chars ++ [' ']) ++ (endText' t ++ ([';'] ++ ['\n']))))))))))

theorem print_assoc (u : UC) (rel : Name) (s t : EndM) : Item.print u (.assoc rel s t) = some (assocText rel s t) := by
  have e1 : "CREATE ROP REF_ID ".toList = (Kw.CREATE.chars ++ [' ']) ++ ((Kw.ROP.chars ++ [' ']) ++ (Kw.REF_ID.chars ++ [' '])) := by
    decide
  have e2 : " FROM ".toList = [' '] ++ (Kw.FROM.chars ++ [' ']) := by decide
  have e3 : " TO ".toList = [' '] ++ (Kw.TO.chars ++ [' ']) := by decide
  have e4 : ";\n".toList = [';'] ++ ['\n'] := by decide
  simp only [Item.print, assocText, endText_eq, e1, e2, e3, e4, List.append_assoc, List.cons_append, List.nil_append]

/-- CHARACTER LEVEL, `CREATE ROP` -/
theorem lexTo_assoc (u : UC) (rel : Name) (s t : EndM) (hr : RelOk rel) (hs : EndOk s) (ht : EndOk t) (rest : Text) :
    LexTo u (assocText rel s t)
      (kwTok .CREATE :: kwTok .ROP :: kwTok .REF_ID :: ⟨.RELID, rel⟩ :: kwTok .FROM ::
        (endToks u s ++ kwTok .TO :: (endToks u t ++ [semiTok]))) rest := by
  unfold assocText
  have tail : LexTo u ([';'] ++ ['\n']) [semiTok] rest := LexTo.append u (LexTo.semi u _) (LexTo.newline u rest)
  have e2 := LexTo.append u (lexTo_end u t ht _ (Safe.cons_semi _)) tail
  have mid := LexTo.append u (LexTo.space u _) (LexTo.append u (LexTo.kwSp u .TO _) e2)
  have e1 := LexTo.append u (lexTo_end u s hs _ (Safe.cons_space _)) mid
  have h := LexTo.append u (LexTo.kwSp u .CREATE _) (LexTo.append u (LexTo.kwSp u .ROP _) (LexTo.append u (LexTo.kwSp u .REF_ID _)
    (LexTo.append u (lexTo_rel u rel hr _ (Safe.cons_space _)) (LexTo.append u (LexTo.space u _)
      (LexTo.append u (LexTo.kwSp u .FROM _) e1)))))
  simpa using h

/-! ### `serialize_instance` -/

def NoNewline (t : Text) : Prop := ∀ c ∈ t, c ≠ '\n'

/-- the lines of a row after the first newline: every line ends with its comment and the newline -/
def rowBody (u : UC) : List (Name × Name) → List (Option Val) → Option Text
  | [], _ => some []
  | _ :: _, [] => none
  | (name, ty) :: attrs, v :: vs =>
    match cellText u ty v, rowBody u attrs vs with
    | some txt, some b =>
      some ([' ', ' ', ' ', ' '] ++ (txt ++ ((if attrs.isEmpty then [' '] else [',', ' ']) ++
        (('-' :: '-' :: ((' ' :: (name ++ ([' ', ':', ' '] ++ ty))) ++ ['\n'])) ++ b))))
    | _, _ => none

theorem valueLines_rowBody (u : UC) : ∀ (attrs : List (Name × Name)) (vals : List (Option Val)) (ls : Text),
    valueLines u attrs vals = some ls → ∃ b, rowBody u attrs vals = some b ∧ ls ++ ['\n'] = '\n' :: b := by
  intro attrs
  induction attrs with
  | nil => intro vals ls h; simp only [valueLines, Option.some.injEq] at h; subst h; exact ⟨[], rfl, rfl⟩
  | cons a attrs ih =>
    intro vals ls h
    obtain ⟨name, ty⟩ := a
    cases vals with
    | nil => simp [valueLines] at h
    | cons v vs =>
      simp only [valueLines] at h
      cases hc : cellText u ty v with
      | none => simp [hc] at h
      | some txt =>
        cases hr : valueLines u attrs vs with
        | none => simp [hc, hr] at h
        | some rest =>
          obtain ⟨b, hb, heq⟩ := ih vs rest hr
          simp only [hc, hr, Option.some.injEq] at h; subst h
          refine ⟨[' ', ' ', ' ', ' '] ++ (txt ++ ((if attrs.isEmpty then [' '] else [',', ' ']) ++
            (('-' :: '-' :: ((' ' :: (name ++ ([' ', ':', ' '] ++ ty))) ++ ['\n'])) ++ b))), by simp only [rowBody, hc, hb], ?_⟩
          have e1 : "\n    ".toList = '\n' :: [' ', ' ', ' ', ' '] := by decide
          have e2 : " -- ".toList = [' '] ++ ['-', '-', ' '] := by decide
          have e3 : ", -- ".toList = [',', ' '] ++ ['-', '-', ' '] := by decide
          have e4 : " : ".toList = [' ', ':', ' '] := by decide
          rw [e1, e2, e3, e4]
          by_cases hemp : attrs.isEmpty <;>
            simp only [hemp, if_true, if_false, Bool.false_eq_true, List.append_assoc, List.cons_append, List.nil_append, heq]

theorem lexTo_cell (u : UC) (ty : Name) (v : Option Val) (c : Text × List Tok) (h : cellToks u ty v = some c)
    (r : Text) (hr : Safe r) : LexTo u c.1 c.2 r := by
  unfold cellToks at h
  split at h
  · simp at h
  · rename_i t ht
    split at h
    · simp at h
    · rename_i x hx
      split at h
      · rename_i txt ts hf hv
        simp only [Option.some.injEq] at h; subst h
        exact LexTo.value u t x txt ts hf hv r hr
      · simp at h

theorem lexTo_rowBody (u : UC) : ∀ (attrs : List (Name × Name)) (vals : List (Option Val)) (b : Text)
    (cells : List (Text × List Tok)), rowBody u attrs vals = some b → rowCells u attrs vals = some cells →
    (∀ a ∈ attrs, NoNewline a.1 ∧ NoNewline a.2) → ∀ rest, LexTo u b (sepToks (cells.map fun c => c.2)) rest := by
  intro attrs
  induction attrs with
  | nil =>
    intro vals b cells hb hc _ rest
    simp only [rowBody, Option.some.injEq] at hb; subst hb
    simp only [rowCells, Option.some.injEq] at hc; subst hc
    exact LexTo.nil u rest
  | cons a attrs ih =>
    intro vals b cells hb hc hnn rest
    obtain ⟨name, ty⟩ := a
    cases vals with
    | nil => simp [rowBody] at hb
    | cons v vs =>
      simp only [rowBody] at hb
      simp only [rowCells] at hc
      cases hct : cellToks u ty v with
      | none => simp [hct] at hc
      | some c =>
        cases hcs : rowCells u attrs vs with
        | none => simp [hct, hcs] at hc
        | some cs =>
          simp only [hct, hcs, Option.some.injEq] at hc; subst hc
          have htxt := cellToks_text u ty v c hct
          cases hb' : rowBody u attrs vs with
          | none => simp [htxt, hb'] at hb
          | some b' =>
            simp only [htxt, hb', Option.some.injEq] at hb; subst hb
            have ih' := ih vs b' cs hb' hcs (fun a ha => hnn a (by simp [ha])) rest
            have hbody : ∀ x ∈ (' ' :: (name ++ ([' ', ':', ' '] ++ ty))), x ≠ '\n' := by
              intro x hx
              simp only [List.mem_cons, List.mem_append] at hx
              rcases hx with rfl | hx | (rfl | rfl | rfl | hx) | hx
              · decide
              · exact (hnn (name, ty) (by simp)).1 x hx
              · decide
              · decide
              · decide
              · simp at hx
              · exact (hnn (name, ty) (by simp)).2 x hx
            have hcomment := LexTo.comment u (' ' :: (name ++ ([' ', ':', ' '] ++ ty))) (b' ++ rest) hbody
            have hlen := rowCells_length u attrs vs cs hcs
            by_cases hemp : attrs.isEmpty
            · -- last line
              have hnil : attrs = [] := by simpa using hemp
              have hcs0 : cs = [] := by
                rw [hnil] at hlen; exact List.length_eq_zero_iff.mp hlen
              subst hcs0
              simp only [hemp, if_true, List.map_cons, List.map_nil, sepToks] at ih' ⊢
              have hv := lexTo_cell u ty v c hct (([' '] ++ ((('-' :: '-' :: ((' ' :: (name ++ ([' ', ':', ' '] ++ ty))) ++ ['\n'])) ++ b'))) ++ rest)
                (Safe.cons_space _)
              have h := LexTo.append u (LexTo.sp4 u _) (LexTo.append u hv (LexTo.append u (LexTo.space u _)
                (LexTo.append u hcomment ih')))
              simpa using h
            · -- a further line follows
              simp only [hemp, Bool.false_eq_true, if_false]
              cases cs with
              | nil =>
                exfalso
                have : attrs.length = 0 := by simpa using hlen.symm
                exact hemp (by simpa using List.length_eq_zero_iff.mp this)
              | cons d ds =>
                simp only [List.map_cons, sepToks] at ih' ⊢
                have hv := lexTo_cell u ty v c hct (([',', ' '] ++ ((('-' :: '-' :: ((' ' :: (name ++ ([' ', ':', ' '] ++ ty))) ++ ['\n'])) ++ b'))) ++ rest)
                  (Safe.cons_comma _)
                have h := LexTo.append u (LexTo.sp4 u _) (LexTo.append u hv (LexTo.append u (lexTo_sepSp u _)
                  (LexTo.append u hcomment ih')))
                simpa using h

def instText (kind : Name) (b : Text) : Text :=
  (Kw.INSERT.chars ++ [' ']) ++ ((Kw.INTO.chars ++ [' ']) ++ (kind ++ ([' '] ++ ((Kw.VALUES.chars ++ [' ']) ++
    (['('] ++ (['\n'] ++ (b ++ ([')'] ++ ([';'] ++ ['\n'])))))))))

theorem print_inst (u : UC) (kind : Name) (attrs : List (Name × Name)) (vals : List (Option Val)) (txt : Text)
    (h : Item.print u (.inst kind attrs vals) = some txt) :
    ∃ b, rowBody u attrs vals = some b ∧ txt = instText kind b := by
  simp only [Item.print] at h
  cases hl : valueLines u attrs vals with
  | none => simp [hl] at h
  | some ls =>
    obtain ⟨b, hb, heq⟩ := valueLines_rowBody u attrs vals ls hl
    simp only [hl, Option.some.injEq] at h; subst h
    refine ⟨b, hb, ?_⟩
    have e1 : "INSERT INTO ".toList = (Kw.INSERT.chars ++ [' ']) ++ (Kw.INTO.chars ++ [' ']) := by decide
    have e2 : " VALUES (".toList = [' '] ++ ((Kw.VALUES.chars ++ [' ']) ++ ['(']) := by decide
    have e3 : "\n);\n".toList = ['\n'] ++ ([')'] ++ ([';'] ++ ['\n'])) := by decide
    have heq' : ls ++ (['\n'] ++ ([')'] ++ ([';'] ++ ['\n']))) = ['\n'] ++ (b ++ ([')'] ++ ([';'] ++ ['\n']))) := by
      rw [← List.append_assoc, heq]; rfl
    simp only [instText, e1, e2, e3, List.append_assoc]
    rw [heq']

/-- CHARACTER LEVEL, `INSERT INTO … VALUES (…)` with its per-value comments -/
theorem lexTo_inst (u : UC) (kind : Name) (attrs : List (Name × Name)) (vals : List (Option Val)) (b : Text)
    (cells : List (Text × List Tok)) (hk : IdentOk kind) (hb : rowBody u attrs vals = some b)
    (hc : rowCells u attrs vals = some cells) (hnn : ∀ a ∈ attrs, NoNewline a.1 ∧ NoNewline a.2) (rest : Text) :
    LexTo u (instText kind b)
      (kwTok .INSERT :: kwTok .INTO :: wordTok u kind :: kwTok .VALUES :: lparenTok ::
        (sepToks (cells.map fun c => c.2) ++ [rparenTok, semiTok])) rest := by
  unfold instText
  have tail : LexTo u ([')'] ++ ([';'] ++ ['\n'])) [rparenTok, semiTok] rest :=
    LexTo.append u (LexTo.rparen u _) (LexTo.append u (LexTo.semi u _) (LexTo.newline u rest))
  have body := LexTo.append u (lexTo_rowBody u attrs vals b cells hb hc hnn _) tail
  have h := LexTo.append u (LexTo.kwSp u .INSERT _) (LexTo.append u (LexTo.kwSp u .INTO _)
    (LexTo.append u (LexTo.word u kind hk _ (Safe.cons_space _)) (LexTo.append u (LexTo.space u _)
      (LexTo.append u (LexTo.kwSp u .VALUES _) (LexTo.append u (LexTo.lparen u _) (LexTo.append u (LexTo.newline u _) body))))))
  simpa using h

/-! ### items and item lists -/

/-- the persistable domain, per printed item -/
def Item.WF (u : UC) : Item → Prop
  | .cls kind attrs => IdentOk kind ∧ ∀ a ∈ attrs, IdentOk a.1 ∧ IdentOk (u.upper a.2)
  | .assoc rel s t => RelOk rel ∧ EndOk s ∧ EndOk t
  | .inst kind attrs _ => IdentOk kind ∧ ∀ a ∈ attrs, NoNewline a.1 ∧ NoNewline a.2
  | .index name kind attrs => IdentOk name ∧ IdentOk kind ∧ ∀ a ∈ attrs, IdentOk a

theorem cellToks_of_text (u : UC) (ty : Name) (v : Option Val) (txt : Text) (h : cellText u ty v = some txt) :
    ∃ ts, cellToks u ty v = some (txt, ts) := by
  unfold cellText at h
  unfold cellToks
  split at h
  · simp at h
  · rename_i t ht
    rw [ht]
    rw [printValue_eq] at h
    cases hx : resolveVal t v with
    | none => simp [hx] at h
    | some x =>
      simp only [hx, Option.bind_some] at h
      obtain ⟨ts, hts, _⟩ := valueToks_of_fmt t x txt h
      exact ⟨ts, by simp only [hx, h, hts]⟩

theorem rowCells_of_rowBody (u : UC) : ∀ (attrs : List (Name × Name)) (vals : List (Option Val)) (b : Text),
    rowBody u attrs vals = some b → ∃ cells, rowCells u attrs vals = some cells := by
  intro attrs
  induction attrs with
  | nil => intro vals b _; exact ⟨[], rfl⟩
  | cons a attrs ih =>
    intro vals b hb
    obtain ⟨name, ty⟩ := a
    cases vals with
    | nil => simp [rowBody] at hb
    | cons v vs =>
      simp only [rowBody] at hb
      cases hc : cellText u ty v with
      | none => simp [hc] at hb
      | some txt =>
        cases hr : rowBody u attrs vs with
        | none => simp [hc, hr] at hb
        | some b' =>
          obtain ⟨ts, hts⟩ := cellToks_of_text u ty v txt hc
          obtain ⟨cs, hcs⟩ := ih vs b' hr
          exact ⟨(txt, ts) :: cs, by simp only [rowCells, hts, hcs]⟩

/-- CHARACTER LEVEL, one item: the printed text lexes to the item's token list, whatever follows -/
theorem lexTo_item (u : UC) (it : Item) (hw : it.WF u) (txt : Text) (hp : it.print u = some txt) :
    ∃ toks, it.toks u = some toks ∧ ∀ rest, LexTo u txt toks rest := by
  cases it with
  | cls kind attrs =>
    rw [print_cls] at hp; simp only [Option.some.injEq] at hp; subst hp
    exact ⟨_, rfl, fun rest => lexTo_cls u kind attrs hw.1 hw.2 rest⟩
  | assoc rel s t =>
    rw [print_assoc] at hp; simp only [Option.some.injEq] at hp; subst hp
    exact ⟨_, rfl, fun rest => lexTo_assoc u rel s t hw.1 hw.2.1 hw.2.2 rest⟩
  | inst kind attrs vals =>
    obtain ⟨b, hb, rfl⟩ := print_inst u kind attrs vals txt hp
    obtain ⟨cells, hc⟩ := rowCells_of_rowBody u attrs vals b hb
    exact ⟨_, by simp only [Item.toks, hc], fun rest => lexTo_inst u kind attrs vals b cells hw.1 hb hc hw.2 rest⟩
  | index name kind attrs =>
    rw [print_index] at hp; simp only [Option.some.injEq] at hp; subst hp
    exact ⟨_, rfl, fun rest => lexTo_index u name kind attrs hw.1 hw.2.1 hw.2.2 rest⟩

/-- CHARACTER LEVEL, any list of items (every writer route is one) -/
theorem lex_items (u : UC) : ∀ (items : List Item) (text : Text), (∀ it ∈ items, it.WF u) → printItems u items = some text →
    ∃ toks, itemsToks u items = some toks ∧ lex u text = some toks := by
  intro items
  induction items with
  | nil =>
    intro text _ h
    simp only [printItems, Option.some.injEq] at h; subst h
    exact ⟨[], rfl, lex_nil u⟩
  | cons it items ih =>
    intro text hw h
    simp only [printItems] at h
    cases hp : it.print u with
    | none => simp [hp] at h
    | some a =>
      cases hr : printItems u items with
      | none => simp [hp, hr] at h
      | some b =>
        simp only [hp, hr, Option.some.injEq] at h; subst h
        obtain ⟨ta, hta, hlex⟩ := lexTo_item u it (hw it (by simp)) a hp
        obtain ⟨tb, htb, hlb⟩ := ih b (fun x hx => hw x (by simp [hx])) hr
        refine ⟨ta ++ tb, by simp only [itemsToks, hta, htb], ?_⟩
        have := hlex b
        unfold LexTo at this
        rw [this, hlb]; rfl

/-- ROUND TRIP: the text of every list of well-formed items is accepted by the loader and its statements are exactly
    the statements of the items -/
theorem classify_items (u : UC) (items : List Item) (text : Text) (hw : ∀ it ∈ items, it.WF u)
    (hp : printItems u items = some text) :
    ∃ stmts, itemsStmts u items = some stmts ∧ classify u text = .accepted stmts := by
  obtain ⟨toks, ht, hl⟩ := lex_items u items text hw hp
  obtain ⟨stmts, hs, hparse⟩ := parse_items u items toks ht
  exact ⟨stmts, hs, by simp only [classify, hl, hparse]⟩

end Pyx.Sql
