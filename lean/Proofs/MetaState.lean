import Proofs.Meta

/-! helper lemmas for C02: lifting the per-association facts to whole states and histories -/
namespace Pyx.Meta

theorem upd_id {α : Type} (f : Nat → α) (i : Nat) : upd f i (f i) = f := by
  funext z; by_cases h : z = i <;> simp [upd, h]

theorem state_links_id (s : State) (i : Nat) : { s with links := upd s.links i (s.links i) } = s := by
  cases s; simp [upd_id]

/-- every association of the state satisfies symmetry, duplicate-freedom and the cardinality bound -/
def Inv (sch : Schema) (s : State) : Prop := ∀ i, AInv (specAt sch i) (s.links i)

theorem ainv_empty (a : AssocSpec) : AInv a emptyLinks := by
  refine ⟨fun x y => by simp [emptyLinks], ⟨fun _ => by simp [emptyLinks], fun _ => by simp [emptyLinks]⟩,
    ⟨fun _ _ => by simp [emptyLinks], fun _ _ => by simp [emptyLinks]⟩⟩

theorem inv_init (sch : Schema) : Inv sch init := fun i => ainv_empty _

theorem inv_upd {sch : Schema} {s : State} {i : Nat} {l : ALinks} (h : Inv sch s) (hl : AInv (specAt sch i) l) :
    Inv sch { s with links := upd s.links i l } := by
  intro j
  by_cases hj : j = i
  · subst hj; simpa [upd] using hl
  · simpa [upd, hj] using h j

/-- for two live instances `relate` is `relateCore` -/
theorem relate_of_live {sch : Schema} {s : State} {x y : Inst} (hx : live s x) (hy : live s y) (r p : String) :
    relate sch s x y r p = relateCore sch s x y r p := by
  unfold relate relateCore
  split
  · rfl
  · rw [if_pos ⟨hx, hy⟩]

/-- with an argument that is not in its instance pool: UnknownLinkException as before when there is no such
    association, RelateException otherwise — and nothing changes -/
theorem relate_of_not_live {sch : Schema} {s : State} {x y : Inst} (h : ¬ (live s x ∧ live s y)) (r p : String) :
    (findLink sch (s.kindOf x) (s.kindOf y) r p = none ∧ relate sch s x y r p = (s, .unknownLink)) ∨
    ((findLink sch (s.kindOf x) (s.kindOf y) r p).isSome = true ∧ relate sch s x y r p = (s, .relateExc)) := by
  unfold relate
  split
  · rename_i heq; exact Or.inl ⟨heq, rfl⟩
  · rename_i i d heq; rw [if_neg h]; exact Or.inr ⟨by rw [heq]; rfl, rfl⟩

theorem relate_not_live_fst {sch : Schema} {s : State} {x y : Inst} (h : ¬ (live s x ∧ live s y)) (r p : String) :
    (relate sch s x y r p).1 = s ∧ (relate sch s x y r p).2 ≠ .ok := by
  rcases relate_of_not_live (sch := sch) h r p with ⟨_, h'⟩ | ⟨_, h'⟩ <;> rw [h'] <;> exact ⟨rfl, fun e => by cases e⟩

theorem relateCore_inv {sch : Schema} {s : State} (h : Inv sch s) (x y : Inst) (r p : String) :
    Inv sch (relateCore sch s x y r p).1 := by
  unfold relateCore
  split
  · exact h
  · rename_i i d _
    exact inv_upd h (relateOn_inv (h i))

theorem relate_inv {sch : Schema} {s : State} (h : Inv sch s) (x y : Inst) (r p : String) :
    Inv sch (relate sch s x y r p).1 := by
  by_cases hl : live s x ∧ live s y
  · rw [relate_of_live hl.1 hl.2]; exact relateCore_inv h x y r p
  · rw [(relate_not_live_fst hl r p).1]; exact h

theorem unrelate_inv {sch : Schema} {s : State} (h : Inv sch s) (x y : Inst) (r p : String) :
    Inv sch (unrelate sch s x y r p).1 := by
  unfold unrelate
  split
  · exact h
  · rename_i i d _
    exact inv_upd h (unrelateOn_inv (h i))

theorem unrelateAll_inv {sch : Schema} (x : Inst) (r p : String) : ∀ (ys : List Inst) (s : State),
    Inv sch s → Inv sch (unrelateAll sch x r p ys s).1
  | [], s, h => h
  | y :: ys, s, h => by
    have h1 := unrelate_inv h x y r p
    unfold unrelateAll
    simp only
    split
    · exact unrelateAll_inv x r p ys _ h1
    · exact h1

theorem deleteLinks_inv {sch : Schema} (x : Inst) : ∀ (ls : List (Nat × Bool × String)) (s : State),
    Inv sch s → Inv sch (deleteLinks sch x ls s).1
  | [], s, h => h
  | (i, isSrc, ph) :: rest, s, h => by
    have h1 := unrelateAll_inv (sch := sch) x (specAt sch i).rel ph
      (if isSrc then (s.links i).src x else (s.links i).tgt x) s h
    rw [deleteLinks]
    by_cases hc : (unrelateAll sch x (specAt sch i).rel ph
        (if isSrc then (s.links i).src x else (s.links i).tgt x) s).2 = .ok
    · simp only [hc, ↓reduceIte]
      exact deleteLinks_inv x rest _ h1
    · simp only [hc, ↓reduceIte]
      exact h1

theorem delete_inv {sch : Schema} {s : State} (h : Inv sch s) (x : Inst) : Inv sch (delete sch s x).1 := by
  unfold delete
  split
  · exact deleteLinks_inv x _ _ (fun i => h i)
  · exact h

theorem step_inv {sch : Schema} {s : State} (h : Inv sch s) (op : Op) : Inv sch (step sch s op).1 := by
  cases op with
  | new k hid => exact fun i => h i
  | relate x y r p => exact relate_inv h x y r p
  | unrelate x y r p => exact unrelate_inv h x y r p
  | delete x => exact delete_inv h x

theorem run_inv_from (sch : Schema) : ∀ (ops : List Op) (s : State), Inv sch s →
    Inv sch (ops.foldl (fun s op => (step sch s op).1) s)
  | [], s, h => h
  | op :: ops, s, h => run_inv_from sch ops _ (step_inv h op)

/-! rejected calls leave the state exactly as it was -/

theorem relate_reject_atomic {sch : Schema} {s : State} (h : Inv sch s) {x y : Inst} {r p : String}
    (hr : (relate sch s x y r p).2 ≠ .ok) : (relate sch s x y r p).1 = s := by
  by_cases hl : live s x ∧ live s y
  case neg => exact (relate_not_live_fst hl r p).1
  rw [relate_of_live hl.1 hl.2] at hr ⊢
  unfold relateCore at hr ⊢
  split
  · rfl
  · rename_i i d heq
    simp only [heq] at hr
    have hexc : (relateOn (specAt sch i) (s.links i) (orient d x y).1 (orient d x y).2).2 = .relateExc := by
      rcases relateOn_out (specAt sch i) (s.links i) (orient d x y).1 (orient d x y).2 with h' | h'
      · exact absurd h' hr
      · exact h'
    simp only [relateOn_reject_atomic (h i).1 hexc]
    exact state_links_id s i

theorem unrelate_reject_atomic {sch : Schema} {s : State} (h : Inv sch s) {x y : Inst} {r p : String}
    (hr : (unrelate sch s x y r p).2 ≠ .ok) : (unrelate sch s x y r p).1 = s := by
  unfold unrelate at hr ⊢
  split
  · rfl
  · rename_i i d heq
    simp only [heq] at hr
    have hexc : (unrelateOn (s.links i) (orient d x y).1 (orient d x y).2).2 = .unrelateExc := by
      rcases unrelateOn_out (s.links i) (orient d x y).1 (orient d x y).2 with h' | h'
      · exact absurd h' hr
      · exact h'
    simp only [unrelateOn_reject_atomic (h i).1 hexc]
    exact state_links_id s i

end Pyx.Meta

namespace Pyx.Meta

/-! idempotence and undo at state level -/

theorem state_links_upd_upd (s : State) (i : Nat) (l : ALinks) :
    { ({ s with links := upd s.links i l } : State) with
        links := upd (upd s.links i l) i (s.links i) } = s := by
  cases s
  simp only [State.mk.injEq, true_and, and_true]
  funext z; by_cases h : z = i <;> simp [upd, h]

/-- relating an already related pair returns ok and changes nothing -/
theorem relate_idempotent {sch : Schema} {s : State} (h : Inv sch s) {x y : Inst} {r p : String} {i : Nat} {d : Dir}
    (hf : findLink sch (s.kindOf x) (s.kindOf y) r p = some (i, d))
    (hrel : (orient d x y).2 ∈ (s.links i).src (orient d x y).1) (hx : live s x) (hy : live s y) :
    relate sch s x y r p = (s, .ok) := by
  rw [relate_of_live hx hy]
  unfold relateCore
  simp only [hf, relateOn_idempotent (h i).1 hrel]
  rw [state_links_id]

/-- a successful unrelate exactly undoes a successful relate of a previously unrelated pair -/
theorem unrelate_undoes_relate {sch : Schema} {s s' : State} (h : Inv sch s) {x y : Inst} {r p : String}
    {i : Nat} {d : Dir}
    (hf : findLink sch (s.kindOf x) (s.kindOf y) r p = some (i, d))
    (hnew : (orient d x y).2 ∉ (s.links i).src (orient d x y).1)
    (hr : relate sch s x y r p = (s', .ok)) : unrelate sch s' x y r p = (s, .ok) := by
  have hl : live s x ∧ live s y := by
    apply Classical.byContradiction
    intro hn
    have := (relate_not_live_fst (sch := sch) hn r p).2
    rw [hr] at this; exact this rfl
  rw [relate_of_live hl.1 hl.2] at hr
  unfold relateCore at hr
  simp only [hf] at hr
  have hr2 : (relateOn (specAt sch i) (s.links i) (orient d x y).1 (orient d x y).2).2 = .ok := by
    have := congrArg Prod.snd hr; simpa using this
  have hs' : s' = { s with links := upd s.links i (relateOn (specAt sch i) (s.links i) (orient d x y).1 (orient d x y).2).1 } := by
    have := congrArg Prod.fst hr; simpa using this.symm
  have hpair : relateOn (specAt sch i) (s.links i) (orient d x y).1 (orient d x y).2 =
      ((relateOn (specAt sch i) (s.links i) (orient d x y).1 (orient d x y).2).1, .ok) := by
    rw [← hr2]
  have hun := unrelateOn_undoes_relateOn (h i).1 hnew hpair
  subst hs'
  unfold unrelate
  simp only [hf, upd_same, hun]
  rw [state_links_upd_upd]

/-! instance pools: liveness, delete rejection -/

def PoolInv (s : State) : Prop :=
  ∀ k, (s.pool k).Nodup ∧ ∀ x ∈ s.pool k, x < s.count ∧ s.kindOf x = k

theorem poolInv_init : PoolInv init := fun _ => ⟨List.nodup_nil, fun _ h => by simp [init] at h⟩

theorem relate_frame (sch : Schema) (s : State) (x y : Inst) (r p : String) :
    (relate sch s x y r p).1.pool = s.pool ∧ (relate sch s x y r p).1.kindOf = s.kindOf ∧
    (relate sch s x y r p).1.count = s.count ∧ (relate sch s x y r p).1.idOf = s.idOf := by
  unfold relate; split
  · simp
  · split <;> simp

theorem unrelate_frame (sch : Schema) (s : State) (x y : Inst) (r p : String) :
    (unrelate sch s x y r p).1.pool = s.pool ∧ (unrelate sch s x y r p).1.kindOf = s.kindOf ∧
    (unrelate sch s x y r p).1.count = s.count ∧ (unrelate sch s x y r p).1.idOf = s.idOf := by
  unfold unrelate; split <;> simp

theorem unrelateAll_frame (sch : Schema) (x : Inst) (r p : String) : ∀ (ys : List Inst) (s : State),
    (unrelateAll sch x r p ys s).1.pool = s.pool ∧ (unrelateAll sch x r p ys s).1.kindOf = s.kindOf ∧
    (unrelateAll sch x r p ys s).1.count = s.count ∧ (unrelateAll sch x r p ys s).1.idOf = s.idOf
  | [], s => ⟨rfl, rfl, rfl, rfl⟩
  | y :: ys, s => by
    have h1 := unrelate_frame sch s x y r p
    rw [unrelateAll]
    by_cases hc : (unrelate sch s x y r p).2 = .ok
    · simp only [hc, ↓reduceIte]
      have h2 := unrelateAll_frame sch x r p ys (unrelate sch s x y r p).1
      exact ⟨h2.1.trans h1.1, h2.2.1.trans h1.2.1, h2.2.2.1.trans h1.2.2.1, h2.2.2.2.trans h1.2.2.2⟩
    · simp only [hc, ↓reduceIte]; exact h1

theorem deleteLinks_frame (sch : Schema) (x : Inst) : ∀ (ls : List (Nat × Bool × String)) (s : State),
    (deleteLinks sch x ls s).1.pool = s.pool ∧ (deleteLinks sch x ls s).1.kindOf = s.kindOf ∧
    (deleteLinks sch x ls s).1.count = s.count ∧ (deleteLinks sch x ls s).1.idOf = s.idOf
  | [], s => ⟨rfl, rfl, rfl, rfl⟩
  | (i, isSrc, ph) :: rest, s => by
    have h1 := unrelateAll_frame sch x (specAt sch i).rel ph
      (if isSrc then (s.links i).src x else (s.links i).tgt x) s
    rw [deleteLinks]
    by_cases hc : (unrelateAll sch x (specAt sch i).rel ph
        (if isSrc then (s.links i).src x else (s.links i).tgt x) s).2 = .ok
    · simp only [hc, ↓reduceIte]
      have h2 := deleteLinks_frame sch x rest (unrelateAll sch x (specAt sch i).rel ph
        (if isSrc then (s.links i).src x else (s.links i).tgt x) s).1
      exact ⟨h2.1.trans h1.1, h2.2.1.trans h1.2.1, h2.2.2.1.trans h1.2.2.1, h2.2.2.2.trans h1.2.2.2⟩
    · simp only [hc, ↓reduceIte]; exact h1

/-- deleting an instance that is not in its pool (never created, or already deleted) is rejected
    with DeleteException and changes nothing -/
theorem delete_dead_rejected (sch : Schema) (s : State) (x : Inst) (h : ¬ live s x) :
    delete sch s x = (s, .deleteExc) := by
  unfold delete
  have : ¬ (x ∈ s.pool (s.kindOf x) ∧ x < s.count) := fun hc => h ⟨hc.2, hc.1⟩
  simp [this]

/-- after an accepted delete the instance is dead: a repeated delete is rejected -/
theorem delete_makes_dead {sch : Schema} {s : State} (hp : PoolInv s) {x : Inst} (hl : live s x) :
    ¬ live (delete sch s x).1 x := by
  unfold delete
  have hc : x ∈ s.pool (s.kindOf x) ∧ x < s.count := ⟨hl.2, hl.1⟩
  simp only [hc, and_self, ↓reduceIte]
  have hf := deleteLinks_frame sch x (linksOf sch (s.kindOf x))
    { s with pool := upd s.pool (s.kindOf x) ((s.pool (s.kindOf x)).erase x) }
  intro hlive
  have h2 := hlive.2
  rw [hf.1, hf.2.1] at h2
  simp only [upd_same] at h2
  exact ((hp (s.kindOf x)).1.mem_erase_iff.1 h2).1 rfl

theorem delete_twice_rejected {sch : Schema} {s : State} (hp : PoolInv s) (x : Inst) :
    delete sch (delete sch s x).1 x = ((delete sch s x).1, .deleteExc) := by
  by_cases hl : live s x
  · exact delete_dead_rejected sch _ x (delete_makes_dead hp hl)
  · rw [delete_dead_rejected sch s x hl]
    exact delete_dead_rejected sch s x hl

theorem new_poolInv {s : State} (hp : PoolInv s) (k : Kind) (hid : Bool) : PoolInv (new s k hid).1 := by
  intro k'
  have hfresh : ∀ k'', s.count ∉ s.pool k'' := fun k'' hm => by
    exact absurd ((hp k'').2 _ hm).1 (Nat.lt_irrefl _)
  unfold new
  simp only
  by_cases hk : k' = k
  · subst hk
    simp only [upd_same]
    refine ⟨?_, ?_⟩
    · rw [List.nodup_append]
      refine ⟨(hp k').1, by simp, ?_⟩
      intro a ha b hb
      simp at hb; subst hb
      intro hab; subst hab; exact hfresh k' ha
    · intro x hx
      simp only [List.mem_append, List.mem_singleton] at hx
      rcases hx with hx | hx
      · have := (hp k').2 x hx
        refine ⟨Nat.lt_succ_of_lt this.1, ?_⟩
        have hne : x ≠ s.count := Nat.ne_of_lt this.1
        simp [upd, hne, this.2]
      · subst hx; simp [upd]
  · simp only [upd, hk, ↓reduceIte]
    refine ⟨(hp k').1, ?_⟩
    intro x hx
    have := (hp k').2 x hx
    refine ⟨Nat.lt_succ_of_lt this.1, ?_⟩
    have hne : x ≠ s.count := Nat.ne_of_lt this.1
    simp [hne, this.2]

theorem delete_poolInv {sch : Schema} {s : State} (hp : PoolInv s) (x : Inst) : PoolInv (delete sch s x).1 := by
  unfold delete
  split
  · have hf := deleteLinks_frame sch x (linksOf sch (s.kindOf x))
      { s with pool := upd s.pool (s.kindOf x) ((s.pool (s.kindOf x)).erase x) }
    intro k
    rw [hf.1, hf.2.1, hf.2.2.1]
    by_cases hk : k = s.kindOf x
    · subst hk
      simp only [upd_same]
      exact ⟨(hp _).1.erase x, fun z hz => (hp _).2 z (List.mem_of_mem_erase hz)⟩
    · simp only [upd, hk, ↓reduceIte]; exact hp k
  · exact hp

theorem step_poolInv {sch : Schema} {s : State} (hp : PoolInv s) (op : Op) : PoolInv (step sch s op).1 := by
  cases op with
  | new k hid => exact new_poolInv hp k hid
  | relate x y r p =>
    have hf := relate_frame sch s x y r p
    intro k; simp only [step]; rw [hf.1, hf.2.1, hf.2.2.1]; exact hp k
  | unrelate x y r p =>
    have hf := unrelate_frame sch s x y r p
    intro k; simp only [step]; rw [hf.1, hf.2.1, hf.2.2.1]; exact hp k
  | delete x => exact delete_poolInv hp x

theorem run_poolInv_from (sch : Schema) : ∀ (ops : List Op) (s : State), PoolInv s →
    PoolInv (ops.foldl (fun s op => (step sch s op).1) s)
  | [], s, h => h
  | op :: ops, s, h => run_poolInv_from sch ops _ (step_poolInv h op)

end Pyx.Meta

namespace Pyx.Meta

/-! `_find_link` is sound: the association it returns has the requested number, connects the two
    kinds in the direction that makes the pair well-typed, and carries the phrase -/

theorem findLinkFrom_sound {k1 k2 : Kind} {rel phrase : String} : ∀ (sch : Schema) (n i : Nat) (d : Dir),
    findLinkFrom k1 k2 rel phrase n sch = some (i, d) →
    ∃ a, sch[i - n]? = some a ∧ n ≤ i ∧ a.rel = rel ∧
      (d = .fwd → a.tgtKind = k1 ∧ a.srcKind = k2 ∧ a.tgtPhrase = phrase) ∧
      (d = .rev → a.srcKind = k1 ∧ a.tgtKind = k2 ∧ a.srcPhrase = phrase)
  | [], n, i, d, h => by simp [findLinkFrom] at h
  | a :: rest, n, i, d, h => by
    unfold findLinkFrom at h
    split at h
    · obtain ⟨b, hb, hn, hrest⟩ := findLinkFrom_sound rest (n + 1) i d h
      refine ⟨b, ?_, by omega, hrest⟩
      have : i - n = (i - (n + 1)) + 1 := by omega
      rw [this]; simpa using hb
    · rename_i hrel
      have hrel' : a.rel = rel := by
        apply Classical.byContradiction; intro hc; exact hrel hc
      split at h
      · rename_i hc
        cases h
        exact ⟨a, by simp, Nat.le_refl _, hrel', fun _ => hc, fun hd => nomatch hd⟩
      · split at h
        · rename_i hc
          cases h
          exact ⟨a, by simp, Nat.le_refl _, hrel', (fun hd => nomatch hd), fun _ => hc⟩
        · obtain ⟨b, hb, hn, hrest⟩ := findLinkFrom_sound rest (n + 1) i d h
          refine ⟨b, ?_, by omega, hrest⟩
          have : i - n = (i - (n + 1)) + 1 := by omega
          rw [this]; simpa using hb

/-! only live instances are reachable -/

def LiveOnly (s : State) : Prop := ∀ i x y, y ∈ (s.links i).src x → live s x ∧ live s y

theorem liveOnly_init : LiveOnly init := fun i x y h => by simp [init, emptyLinks] at h

theorem live_congr {s s' : State} (h1 : s'.pool = s.pool) (h2 : s'.kindOf = s.kindOf) (h3 : s'.count = s.count)
    (x : Inst) : live s' x ↔ live s x := by
  unfold live; rw [h1, h2, h3]

theorem relate_liveOnly {sch : Schema} {s : State} (hl : LiveOnly s) {x y : Inst} {r p : String} :
    LiveOnly (relate sch s x y r p).1 := by
  by_cases hlv : live s x ∧ live s y
  case neg => rw [(relate_not_live_fst hlv r p).1]; exact hl
  obtain ⟨hx, hy⟩ := hlv
  have hf := relate_frame sch s x y r p
  intro j z w hm
  rw [live_congr hf.1 hf.2.1 hf.2.2.1, live_congr hf.1 hf.2.1 hf.2.2.1]
  rw [relate_of_live hx hy] at hm
  unfold relateCore at hm
  split at hm
  · exact hl j z w hm
  · rename_i i d _
    simp only at hm
    by_cases hj : j = i
    · subst hj
      simp only [upd_same] at hm
      rcases relateOn_out (specAt sch j) (s.links j) (orient d x y).1 (orient d x y).2 with ho | ho
      · obtain ⟨s', t', hs, _, hl'⟩ := relateOn_ok
          (l' := (relateOn (specAt sch j) (s.links j) (orient d x y).1 (orient d x y).2).1) (by rw [← ho])
        rw [hl'] at hm
        rcases (connect_mem hs z w).1 hm with hold | ⟨hz, hw⟩
        · exact hl j z w hold
        · subst hz hw
          cases d <;> simp only [orient] <;> exact ⟨by assumption, by assumption⟩
      · by_cases hsym : Sym (s.links j)
        · rw [relateOn_reject_atomic hsym ho] at hm; exact hl j z w hm
        · -- without symmetry the rejected relate may keep the first half; both ends are live anyway
          unfold relateOn at hm
          split at hm
          · exact hl j z w hm
          · rename_i s' hs
            split at hm
            · split at hm
              · rename_i s'' hd
                simp only at hm
                have hsub : ∀ a b, b ∈ s'' a → b ∈ s' a := by
                  intro a b hb
                  unfold disconnect at hd
                  split at hd
                  · cases hd
                    by_cases ha : a = (orient d x y).1
                    · subst ha; simp only [upd_same] at hb; exact List.mem_of_mem_erase hb
                    · simpa [upd, ha] using hb
                  · cases hd
                rcases (connect_mem hs z w).1 (hsub z w hm) with hold | ⟨hz, hw⟩
                · exact hl j z w hold
                · subst hz hw
                  cases d <;> simp only [orient] <;> exact ⟨by assumption, by assumption⟩
              · simp only at hm
                rcases (connect_mem hs z w).1 hm with hold | ⟨hz, hw⟩
                · exact hl j z w hold
                · subst hz hw
                  cases d <;> simp only [orient] <;> exact ⟨by assumption, by assumption⟩
            · rename_i t' ht
              simp only at hm
              rcases (connect_mem hs z w).1 hm with hold | ⟨hz, hw⟩
              · exact hl j z w hold
              · subst hz hw
                cases d <;> simp only [orient] <;> exact ⟨by assumption, by assumption⟩
    · simp only [upd, hj, ↓reduceIte] at hm; exact hl j z w hm

theorem unrelate_liveOnly {sch : Schema} {s : State} (hl : LiveOnly s) (x y : Inst) (r p : String) :
    LiveOnly (unrelate sch s x y r p).1 := by
  have hf := unrelate_frame sch s x y r p
  intro j z w hm
  rw [live_congr hf.1 hf.2.1 hf.2.2.1, live_congr hf.1 hf.2.1 hf.2.2.1]
  unfold unrelate at hm
  split at hm
  · exact hl j z w hm
  · rename_i i d _
    simp only at hm
    by_cases hj : j = i
    · subst hj
      simp only [upd_same] at hm
      apply hl j z w
      unfold unrelateOn at hm
      have hsub : ∀ (m m' : Inst → List Inst) (a b : Inst), disconnect m a b = some m' →
          ∀ u v, v ∈ m' u → v ∈ m u := by
        intro m m' a b hd u v hv
        unfold disconnect at hd
        split at hd
        · cases hd
          by_cases ha : u = a
          · subst ha; simp only [upd_same] at hv; exact List.mem_of_mem_erase hv
          · simpa [upd, ha] using hv
        · cases hd
      split at hm
      · exact hm
      · rename_i s' hs
        split at hm
        · exact hsub _ _ _ _ hs z w hm
        · exact hsub _ _ _ _ hs z w hm
    · simp only [upd, hj, ↓reduceIte] at hm; exact hl j z w hm

theorem new_liveOnly {s : State} (hp : PoolInv s) (hl : LiveOnly s) (k : Kind) (hid : Bool) :
    LiveOnly (new s k hid).1 := by
  intro j z w hm
  have hmono : ∀ u, live s u → live (new s k hid).1 u := by
    intro u hu
    have hne : u ≠ s.count := Nat.ne_of_lt hu.1
    unfold live new
    simp only [upd, hne, ↓reduceIte]
    refine ⟨Nat.lt_succ_of_lt hu.1, ?_⟩
    by_cases hk : s.kindOf u = k
    · subst hk; simp [hu.2]
    · simp [hk, hu.2]
  have := hl j z w (by simpa [new] using hm)
  exact ⟨hmono _ this.1, hmono _ this.2⟩

end Pyx.Meta

namespace Pyx.Meta

/-- reading the class's own id attribute (no association formalises it) -/
theorem getAttr_own (sch : Schema) (at_ : Attrs) (s : State) (f : Nat) (x : Inst) (name : String)
    (h : formalFrom (s.kindOf x) name 0 sch = []) :
    getAttr sch at_ s (f + 1) x name = if at_.idName (s.kindOf x) = some name then some (s.idOf x) else none := by
  simp [getAttr, h]

/-- a referential attribute formalised by exactly one association reads as the identifying attribute of
    the linked instance, and as unset when unlinked -/
theorem getAttr_single (sch : Schema) (at_ : Attrs) (s : State) (f : Nat) (x : Inst) (name pk : String) (i : Nat)
    (h : formalFrom (s.kindOf x) name 0 sch = [(i, pk)]) :
    getAttr sch at_ s (f + 2) x name =
      match ((s.links i).tgt x).head? with
      | some other => getAttr sch at_ s f other pk
      | none => none := by
  simp only [getAttr, h, List.reverse_cons, List.reverse_nil, List.nil_append, readLayers]
  cases ((s.links i).tgt x).head? <;> rfl

/-- a referential attribute shared by two associations (the later definition is consulted first): the
    value comes from the later one when linked across it, else from the earlier one -/
theorem getAttr_shared (sch : Schema) (at_ : Attrs) (s : State) (f : Nat) (x : Inst) (name pk1 pk2 : String) (i1 i2 : Nat)
    (h : formalFrom (s.kindOf x) name 0 sch = [(i1, pk1), (i2, pk2)]) :
    getAttr sch at_ s (f + 3) x name =
      match ((s.links i2).tgt x).head? with
      | some other => getAttr sch at_ s (f + 1) other pk2
      | none =>
        match ((s.links i1).tgt x).head? with
        | some other => getAttr sch at_ s f other pk1
        | none => none := by
  simp only [getAttr, h, List.reverse_cons, List.reverse_nil, List.nil_append, List.cons_append, readLayers]
  cases ((s.links i2).tgt x).head? with
  | some o => rfl
  | none =>
    simp only
    cases ((s.links i1).tgt x).head? <;> rfl

end Pyx.Meta

/-! ### audit round 1 (C02#2, #3): referential reads for every sufficient fuel -/
namespace Pyx.Meta

/-- an upper bound for the number of property layers of any attribute: the number of referential keys in the schema -/
def layerBound (sch : Schema) : Nat := (sch.map (fun a => a.srcKeys.length)).sum

/-- `bnd K r = (r + 1) * K`, written additively -/
def bnd (K : Nat) : Nat → Nat
  | 0 => K
  | r + 1 => bnd K r + K

theorem bnd_eq (K : Nat) : ∀ r, bnd K r = (r + 1) * K
  | 0 => by simp [bnd]
  | r + 1 => by
    show bnd K r + K = (r + 1 + 1) * K
    rw [bnd_eq K r, Nat.succ_mul (r + 1) K]

theorem bnd_mono (K : Nat) : ∀ {a b : Nat}, a ≤ b → bnd K a ≤ bnd K b := by
  intro a b h
  induction h with
  | refl => exact Nat.le_refl _
  | step _ ih => exact Nat.le_trans ih (Nat.le_add_right _ _)

theorem formalFrom_length_le (k : Kind) (attr : String) : ∀ (sch : Schema) (i : Nat),
    (formalFrom k attr i sch).length ≤ layerBound sch
  | [], _ => by simp [formalFrom, layerBound]
  | a :: rest, i => by
    have ih := formalFrom_length_le k attr rest (i + 1)
    have hz : (keyPairs a).length ≤ a.srcKeys.length := by
      unfold keyPairs; rw [List.length_zip]; exact Nat.min_le_left _ _
    have hf : ((keyPairs a).filter (fun p => decide (p.1 = attr))).length ≤ (keyPairs a).length := List.length_filter_le _ _
    have ih' : (formalFrom k attr (i + 1) rest).length ≤ (rest.map (fun a => a.srcKeys.length)).sum := ih
    show (formalFrom k attr i (a :: rest)).length ≤ ((a :: rest).map (fun a => a.srcKeys.length)).sum
    simp only [formalFrom, List.map_cons, List.sum_cons, List.length_append]
    split
    · simp only [List.length_map]; omega
    · simp only [List.length_nil]; omega

/-- the value a chain of property layers yields, given the (converged) values `V` of the partners' attributes: the
    first layer across which the instance has a partner decides; unset when there is none -/
def readSpec (V : Inst → String → Option Nat) (s : State) (x : Inst) : List (Nat × String) → Option Nat
  | [] => none
  | (i, pk) :: rest =>
    match ((s.links i).tgt x).head? with
    | some o => V o pk
    | none => readSpec V s x rest

/-- ACYCLICITY of the referential reads, as first stated: a rank on INSTANCES that decreases along every target link.  It is
    stronger than needed (a ring of instances whose referential attribute reads the partner's OWN id has no such rank although
    every read ends after one step); the theorems below use `ReadRank`, which this implies (`readRank_of_rankDecreases`) -/
def RankDecreases (s : State) (rk : Inst → Nat) : Prop :=
  ∀ i x o, ((s.links i).tgt x).head? = some o → rk o < rk x

/-- ACYCLICITY of the referential reads on READ STATES (instance, attribute): the rank drops from the read of `x.name` to the
    read it continues with — `o.pk`, for a layer `(i, pk)` of `name` on the class of `x` across which `x` has the partner `o`.
    Links that the read of no attribute follows, and partners whose `pk` is not referential (the read ends there), put no
    constraint on the rank. -/
def ReadRank (sch : Schema) (s : State) (rk : Inst → String → Nat) : Prop :=
  ∀ x name i pk o, (i, pk) ∈ formalFrom (s.kindOf x) name 0 sch → ((s.links i).tgt x).head? = some o → rk o pk < rk x name

theorem readRank_of_rankDecreases (sch : Schema) (s : State) (rk : Inst → Nat) (h : RankDecreases s rk) :
    ReadRank sch s (fun x _ => rk x) :=
  fun x _ i _ o _ ho => h i x o ho

/-- the layers of one read, for every sufficient fuel, given stability for all reads of smaller rank -/
theorem readLayers_stable_step (sch : Schema) (at_ : Attrs) (s : State) (rk : Inst → String → Nat) (K : Nat)
    (hdec : ReadRank sch s rk) (x : Inst) (name : String)
    (ih : ∀ o pk, rk o pk < rk x name → ∀ f1 f2, bnd K (rk o pk) ≤ f1 → bnd K (rk o pk) ≤ f2 →
      getAttr sch at_ s f1 o pk = getAttr sch at_ s f2 o pk)
    (Bo : Nat) (hBo : ∀ o pk, rk o pk < rk x name → bnd K (rk o pk) ≤ Bo) :
    ∀ (layers : List (Nat × String)), (∀ q ∈ layers, q ∈ formalFrom (s.kindOf x) name 0 sch) →
      ∀ (g1 g2 : Nat), layers.length + Bo ≤ g1 → layers.length + Bo ≤ g2 →
      readLayers sch at_ s g1 x layers = readLayers sch at_ s g2 x layers
  | [], _, g1, g2, _, _ => by
    cases g1 <;> cases g2 <;> simp [readLayers]
  | (i, pk) :: rest, hsub, g1, g2, h1, h2 => by
    obtain ⟨g1', rfl⟩ : ∃ g, g1 = g + 1 := ⟨g1 - 1, by simp at h1; omega⟩
    obtain ⟨g2', rfl⟩ : ∃ g, g2 = g + 1 := ⟨g2 - 1, by simp at h2; omega⟩
    simp only [List.length_cons] at h1 h2
    unfold readLayers
    cases ho : ((s.links i).tgt x).head? with
    | some o =>
      have hr := hdec x name i pk o (hsub (i, pk) (List.mem_cons_self ..)) ho
      exact ih o pk hr g1' g2' (by have := hBo o pk hr; omega) (by have := hBo o pk hr; omega)
    | none =>
      cases rest with
      | nil => rfl
      | cons q qs =>
        exact readLayers_stable_step sch at_ s rk K hdec x name ih Bo hBo (q :: qs)
          (fun q' hq' => hsub q' (List.mem_cons_of_mem _ hq')) g1' g2' (by simp at h1 ⊢; omega) (by simp at h2 ⊢; omega)

/-- fuel independence: above `bnd (layerBound sch + 2) (rk x name)` the result of a read no longer depends on the fuel -/
theorem getAttr_stable (sch : Schema) (at_ : Attrs) (s : State) (rk : Inst → String → Nat) (hdec : ReadRank sch s rk) :
    ∀ (n : Nat) (x : Inst) (name : String), rk x name = n → ∀ f1 f2, bnd (layerBound sch + 2) n ≤ f1 →
      bnd (layerBound sch + 2) n ≤ f2 → getAttr sch at_ s f1 x name = getAttr sch at_ s f2 x name := by
  intro n
  induction n using Nat.strongRecOn with
  | _ n IH =>
    intro x name hx f1 f2 h1 h2
    have hK : 2 ≤ bnd (layerBound sch + 2) n := by
      cases n with
      | zero => simp [bnd]
      | succ m => simp only [bnd]; omega
    obtain ⟨g1, rfl⟩ : ∃ g, f1 = g + 1 := ⟨f1 - 1, by omega⟩
    obtain ⟨g2, rfl⟩ : ∃ g, f2 = g + 1 := ⟨f2 - 1, by omega⟩
    unfold getAttr
    have hlen : ((formalFrom (s.kindOf x) name 0 sch).reverse).length ≤ layerBound sch := by
      rw [List.length_reverse]; exact formalFrom_length_le _ _ _ _
    have hsub : ∀ q ∈ (formalFrom (s.kindOf x) name 0 sch).reverse, q ∈ formalFrom (s.kindOf x) name 0 sch :=
      fun q hq => List.mem_reverse.mp hq
    cases hl : (formalFrom (s.kindOf x) name 0 sch).reverse with
    | nil => rfl
    | cons p ps =>
      simp only
      rw [hl] at hlen hsub
      have ih' : ∀ o pk, rk o pk < rk x name → ∀ a b, bnd (layerBound sch + 2) (rk o pk) ≤ a →
          bnd (layerBound sch + 2) (rk o pk) ≤ b → getAttr sch at_ s a o pk = getAttr sch at_ s b o pk :=
        fun o pk ho a b ha hb => IH (rk o pk) (hx ▸ ho) o pk rfl a b ha hb
      cases n with
      | zero =>
        apply readLayers_stable_step sch at_ s rk _ hdec x name ih' 0 (fun o pk ho => by omega) _ hsub
        · simp only [bnd] at h1; omega
        · simp only [bnd] at h2; omega
      | succ m =>
        apply readLayers_stable_step sch at_ s rk _ hdec x name ih' (bnd (layerBound sch + 2) m)
          (fun o pk ho => bnd_mono _ (by omega)) _ hsub
        · simp only [bnd] at h1; omega
        · simp only [bnd] at h2; omega

/-- the converged value of an attribute -/
def readValue (sch : Schema) (at_ : Attrs) (s : State) (rk : Inst → String → Nat) (x : Inst) (name : String) : Option Nat :=
  getAttr sch at_ s (bnd (layerBound sch + 2) (rk x name)) x name

theorem readLayers_spec (sch : Schema) (at_ : Attrs) (s : State) (rk : Inst → String → Nat) (hdec : ReadRank sch s rk)
    (x : Inst) (name : String)
    (Bo : Nat) (hBo : ∀ o pk, rk o pk < rk x name → bnd (layerBound sch + 2) (rk o pk) ≤ Bo) :
    ∀ (layers : List (Nat × String)), (∀ q ∈ layers, q ∈ formalFrom (s.kindOf x) name 0 sch) →
      ∀ (g : Nat), layers.length + Bo ≤ g →
      readLayers sch at_ s g x layers = readSpec (readValue sch at_ s rk) s x layers
  | [], _, g, _ => by cases g <;> simp [readLayers, readSpec]
  | (i, pk) :: rest, hsub, g, h => by
    obtain ⟨g', rfl⟩ : ∃ k, g = k + 1 := ⟨g - 1, by simp at h; omega⟩
    simp only [List.length_cons] at h
    unfold readLayers readSpec
    cases ho : ((s.links i).tgt x).head? with
    | some o =>
      have hr := hdec x name i pk o (hsub (i, pk) (List.mem_cons_self ..)) ho
      simp only
      unfold readValue
      exact getAttr_stable sch at_ s rk hdec (rk o pk) o pk rfl g' _ (by have := hBo o pk hr; omega) (Nat.le_refl _)
    | none =>
      cases rest with
      | nil => simp [readSpec]
      | cons q qs =>
        simp only
        exact readLayers_spec sch at_ s rk hdec x name Bo hBo (q :: qs)
          (fun q' hq' => hsub q' (List.mem_cons_of_mem _ hq')) g' (by simp at h ⊢; omega)

/-- THE referential-read clause, for a general layer list and EVERY sufficient fuel: an attribute that no association
    formalises reads the instance's own id (or is unset); a referential attribute reads the (converged) identifying value
    of the partner across the outermost layer that has a partner, and is unset when no layer has one -/
theorem getAttr_spec (sch : Schema) (at_ : Attrs) (s : State) (rk : Inst → String → Nat) (hdec : ReadRank sch s rk)
    (x : Inst) (name : String) (fuel : Nat) (hf : bnd (layerBound sch + 2) (rk x name) ≤ fuel) :
    getAttr sch at_ s fuel x name =
      match (formalFrom (s.kindOf x) name 0 sch).reverse with
      | [] => if at_.idName (s.kindOf x) = some name then some (s.idOf x) else none
      | layers => readSpec (readValue sch at_ s rk) s x layers := by
  have hK : 2 ≤ bnd (layerBound sch + 2) (rk x name) := by
    cases rk x name with
    | zero => simp [bnd]
    | succ m => simp only [bnd]; omega
  obtain ⟨g, rfl⟩ : ∃ g, fuel = g + 1 := ⟨fuel - 1, by omega⟩
  unfold getAttr
  have hlen : ((formalFrom (s.kindOf x) name 0 sch).reverse).length ≤ layerBound sch := by
    rw [List.length_reverse]; exact formalFrom_length_le _ _ _ _
  have hsub : ∀ q ∈ (formalFrom (s.kindOf x) name 0 sch).reverse, q ∈ formalFrom (s.kindOf x) name 0 sch :=
    fun q hq => List.mem_reverse.mp hq
  cases hl : (formalFrom (s.kindOf x) name 0 sch).reverse with
  | nil => rfl
  | cons p ps =>
    simp only
    rw [hl] at hlen hsub
    cases hr : rk x name with
    | zero =>
      apply readLayers_spec sch at_ s rk hdec x name 0 (fun o pk ho => by omega) _ hsub
      rw [hr] at hf; simp only [bnd] at hf; omega
    | succ m =>
      apply readLayers_spec sch at_ s rk hdec x name (bnd (layerBound sch + 2) m) (fun o pk ho => bnd_mono _ (by omega)) _ hsub
      rw [hr] at hf; simp only [bnd] at hf; omega

/-! ### the driver's fuel, and ranks that come from the SCHEMA alone -/

/-- THE fuel the drivers give a referential read (one definition, used by Driver/C02.lean and by `driver_fuel_sufficient`):
    enough for every read whose rank is at most `s.count + layerBound sch` — instance ranks (at most the number of instances)
    and attribute ranks (at most the number of referential keys) both are -/
def driverFuel (sch : Schema) (s : State) : Nat := (s.count + layerBound sch + 1) * (layerBound sch + 2)

/-- a rank on the ATTRIBUTES of the schema that drops along every key pair: the referential keys do not refer to one another
    in a cycle (`A.B_Id → B.Id → C.Id` is fine, `N.Next_Id → N.Next_Id` is not) -/
def AttrRank (sch : Schema) (ar : Kind → String → Nat) : Prop :=
  ∀ a ∈ sch, ∀ p ∈ keyPairs a, ar a.tgtKind p.2 < ar a.srcKind p.1

/-- partners across association `i` are of its target kind (what `relate` establishes: it finds the association from the
    kinds of its two arguments) -/
def KindsOk (sch : Schema) (s : State) : Prop :=
  ∀ i a x o, sch[i]? = some a → ((s.links i).tgt x).head? = some o → s.kindOf o = a.tgtKind

theorem mem_formalFrom (k : Kind) (attr : String) : ∀ (sch : Schema) (j i : Nat) (pk : String),
    (i, pk) ∈ formalFrom k attr j sch → ∃ a, sch[i - j]? = some a ∧ j ≤ i ∧ a.srcKind = k ∧ (attr, pk) ∈ keyPairs a
  | [], _, _, _, h => by simp [formalFrom] at h
  | a :: rest, j, i, pk, h => by
    simp only [formalFrom, List.mem_append] at h
    rcases h with h | h
    · by_cases hk : a.srcKind = k
      · simp only [hk, ↓reduceIte, List.mem_map, List.mem_filter, decide_eq_true_eq, Prod.mk.injEq] at h
        obtain ⟨p, ⟨hp, hpa⟩, hi, hpk⟩ := h
        subst hi
        refine ⟨a, by simp, Nat.le_refl _, hk, ?_⟩
        rw [← hpa, ← hpk]
        exact hp
      · simp [hk] at h
    · obtain ⟨b, hb, hj, hk, hp⟩ := mem_formalFrom k attr rest (j + 1) i pk h
      refine ⟨b, ?_, by omega, hk, hp⟩
      have : i - j = (i - (j + 1)) + 1 := by omega
      rw [this, List.getElem?_cons_succ]
      exact hb

/-- in a well-kinded state a schema-level attribute rank is a read rank: the acyclicity hypothesis then is a property of the
    SCHEMA, the same for every state (rings and self-links of instances included) -/
theorem readRank_of_attrRank (sch : Schema) (s : State) (ar : Kind → String → Nat) (har : AttrRank sch ar)
    (hk : KindsOk sch s) : ReadRank sch s (fun x name => ar (s.kindOf x) name) := by
  intro x name i pk o hmem ho
  obtain ⟨a, ha, _, hsrc, hp⟩ := mem_formalFrom (s.kindOf x) name sch 0 i pk hmem
  simp only [Nat.sub_zero] at ha
  have hko := hk i a x o ha ho
  have := har a (List.mem_of_getElem? ha) (name, pk) hp
  show ar (s.kindOf o) pk < ar (s.kindOf x) name
  rw [hko, ← hsrc]
  exact this

end Pyx.Meta
