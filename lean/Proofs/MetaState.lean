import Proofs.Meta

/-! helper lemmas for C02: lifting the per-association facts to whole states and histories -/
namespace Pyx.Meta

theorem upd_id {α : Type} (f : Nat → α) (i : Nat) : upd f i (f i) = f := by
  funext z; by_cases h : z = i <;> simp [upd, h]

theorem state_links_id (s : State) (i : Nat) : { s with links := upd s.links i (s.links i) } = s := by
  cases s; simp [upd_id]

/-- every association of the state satisfies symmetry, duplicate-freedom and the cardinality bound -/
def Inv (sch : Schema) (s : State) : Prop := ∀ i, AInv (specAt sch i) (s.links i)

theorem ainv_empty (a : AssocSpec) : AInv a emptyLinks := by
  refine ⟨fun x y => by simp [emptyLinks], ⟨fun _ => by simp [emptyLinks], fun _ => by simp [emptyLinks]⟩,
    ⟨fun _ _ => by simp [emptyLinks], fun _ _ => by simp [emptyLinks]⟩⟩

theorem inv_init (sch : Schema) : Inv sch init := fun i => ainv_empty _

theorem inv_upd {sch : Schema} {s : State} {i : Nat} {l : ALinks} (h : Inv sch s) (hl : AInv (specAt sch i) l) :
    Inv sch { s with links := upd s.links i l } := by
  intro j
  by_cases hj : j = i
  · subst hj; simpa [upd] using hl
  · simpa [upd, hj] using h j

theorem relate_inv {sch : Schema} {s : State} (h : Inv sch s) (x y : Inst) (r p : String) :
    Inv sch (relate sch s x y r p).1 := by
  unfold relate
  split
  · exact h
  · rename_i i d _
    exact inv_upd h (relateOn_inv (h i))

theorem unrelate_inv {sch : Schema} {s : State} (h : Inv sch s) (x y : Inst) (r p : String) :
    Inv sch (unrelate sch s x y r p).1 := by
  unfold unrelate
  split
  · exact h
  · rename_i i d _
    exact inv_upd h (unrelateOn_inv (h i))

theorem unrelateAll_inv {sch : Schema} (x : Inst) (r p : String) : ∀ (ys : List Inst) (s : State),
    Inv sch s → Inv sch (unrelateAll sch x r p ys s).1
  | [], s, h => h
  | y :: ys, s, h => by
    have h1 := unrelate_inv h x y r p
    unfold unrelateAll
    simp only
    split
    · exact unrelateAll_inv x r p ys _ h1
    · exact h1

theorem deleteLinks_inv {sch : Schema} (x : Inst) : ∀ (ls : List (Nat × Bool × String)) (s : State),
    Inv sch s → Inv sch (deleteLinks sch x ls s).1
  | [], s, h => h
  | (i, isSrc, ph) :: rest, s, h => by
    have h1 := unrelateAll_inv (sch := sch) x (specAt sch i).rel ph
      (if isSrc then (s.links i).src x else (s.links i).tgt x) s h
    unfold deleteLinks
    simp only
    split
    · exact deleteLinks_inv x rest _ h1
    · exact h1

theorem delete_inv {sch : Schema} {s : State} (h : Inv sch s) (x : Inst) : Inv sch (delete sch s x).1 := by
  unfold delete
  split
  · exact deleteLinks_inv x _ _ (fun i => h i)
  · exact h

theorem step_inv {sch : Schema} {s : State} (h : Inv sch s) (op : Op) : Inv sch (step sch s op).1 := by
  cases op with
  | new k hid => exact fun i => h i
  | relate x y r p => exact relate_inv h x y r p
  | unrelate x y r p => exact unrelate_inv h x y r p
  | delete x => exact delete_inv h x

theorem run_inv_from (sch : Schema) : ∀ (ops : List Op) (s : State), Inv sch s →
    Inv sch (ops.foldl (fun s op => (step sch s op).1) s)
  | [], s, h => h
  | op :: ops, s, h => run_inv_from sch ops _ (step_inv h op)

/-! rejected calls leave the state exactly as it was -/

theorem relate_reject_atomic {sch : Schema} {s : State} (h : Inv sch s) {x y : Inst} {r p : String}
    (hr : (relate sch s x y r p).2 ≠ .ok) : (relate sch s x y r p).1 = s := by
  unfold relate at hr ⊢
  split
  · rfl
  · rename_i i d heq
    simp only [heq] at hr
    have hexc : (relateOn (specAt sch i) (s.links i) (orient d x y).1 (orient d x y).2).2 = .relateExc := by
      rcases relateOn_out (specAt sch i) (s.links i) (orient d x y).1 (orient d x y).2 with h' | h'
      · exact absurd h' hr
      · exact h'
    simp only [relateOn_reject_atomic (h i).1 hexc]
    exact state_links_id s i

theorem unrelate_reject_atomic {sch : Schema} {s : State} (h : Inv sch s) {x y : Inst} {r p : String}
    (hr : (unrelate sch s x y r p).2 ≠ .ok) : (unrelate sch s x y r p).1 = s := by
  unfold unrelate at hr ⊢
  split
  · rfl
  · rename_i i d heq
    simp only [heq] at hr
    have hexc : (unrelateOn (s.links i) (orient d x y).1 (orient d x y).2).2 = .unrelateExc := by
      rcases unrelateOn_out (s.links i) (orient d x y).1 (orient d x y).2 with h' | h'
      · exact absurd h' hr
      · exact h'
    simp only [unrelateOn_reject_atomic (h i).1 hexc]
    exact state_links_id s i

end Pyx.Meta
