import Proofs.ExtractShapeAssoc

/-!
  C14 — the identifier loop of `mk_class` of the generated IR (Gen/ExtractShape.lean) against `identOf` (PyxModel/Extract/Schema.lean).
  Population (`classWorld`): the O_ID rows of a class (R104) in modeled order, their O_OIDA rows (R105) in modeled order, each
  leading (R105) to the attribute of the class with that id if there is one, O_BATTR (R106) for base and derived attributes,
  O_DBATTR (R107) for derived ones.  Hand-written like the other worlds.
-/

namespace Pyx.XShape
open Pyx.Extract Pyx.Gen.ExtractShape

inductive CI where
  | obj
  | oid (i : Ident)
  | oida (n : Nat)
  | attr (a : Attr)
  | battr (a : Attr)
  | dbattr (a : Attr)
  deriving DecidableEq

def classHop (c : Class) (x : CI) (h : Hop) : List CI :=
  match x with
  | .obj => if h = hp "O_ID" 104 then c.idents.map CI.oid else []
  | .oid i => if h = hp "O_OIDA" 105 then i.attrs.map CI.oida else []
  | .oida n => if h = hp "O_ATTR" 105 then ((c.findAttr n).map CI.attr).toList else []
  | .attr a =>
    if h = hp "O_BATTR" 106 then (match a.kind with | .ref _ _ => [] | _ => [.battr a]) else []
  | .battr a => if h = hp "O_DBATTR" 107 then (if a.isDerived then [.dbattr a] else []) else []
  | .dbattr _ => []

def classAttr (c : Class) (x : CI) (f : String) : Val CI :=
  match x with
  | .obj => if f = "Key_Lett" then .str c.kl else .unset
  | .oid i => if f = "Oid_ID" then .nat i.num else .unset
  | .attr a => if f = "Name" then .str a.name else .unset
  | _ => .unset

def classWorld (c : Class) : World CI :=
  { hop := classHop c, attr := classAttr c, kind := fun _ => "", subtype := fun _ _ => none, select := fun _ => [] }

@[simp] theorem classWorld_hop (c : Class) : (classWorld c).hop = classHop c := rfl
@[simp] theorem classWorld_attr (c : Class) : (classWorld c).attr = classAttr c := rfl

/-- the body of `for o_id in many(o_obj).O_ID[104]():` -/
def idBody : List Stmt :=
  [ .assign "o_oida" (.nav { card := .many, start := "o_id", hops := [{ cls := "O_OIDA", rel := 105, phrase := "" }], filter := .all }),
    .assign "o_attrs" (.nav { card := .many, start := "o_oida", hops := [{ cls := "O_ATTR", rel := 105, phrase := "" }], filter := .all }),
    .ite (.and (.not (.truthy (.var "derived_attributes"))) (.truthy (.nav { card := .one, start := "o_attrs", hops := [{ cls := "O_BATTR", rel := 106, phrase := "" }, { cls := "O_DBATTR", rel := 107, phrase := "" }], filter := .all }))) [
      .log,
      .continue ] [],
    .assign "names" (.namesOf "Name" "o_attrs"),
    .define "define_unique_identifier" [("0", (.attr "o_obj" "Key_Lett")), ("1", (.attrSucc "o_id" "Oid_ID"))] (some "names") none ]

def idNav : Nav := { card := .many, start := "o_obj", hops := [{ cls := "O_ID", rel := 104, phrase := "" }], filter := .all }

/-- the identifier loop of the generated `mk_class` IS this (breaks when the source changes) -/
theorem mk_class_idLoop : (match mk_class.body with
    | [_, _, _, _, s, _, _, _] => s
    | _ => .pass) = .forNav "o_id" idNav idBody := rfl

/-- the attributes an identifier names, as far as the class has them (O_OIDA order) -/
def idAttrs (c : Class) (i : Ident) : List Attr := i.attrs.filterMap c.findAttr

theorem hops_oida (c : Class) (ns : List Nat) :
    evalHops (classWorld c) (ns.map CI.oida) [{ cls := "O_ATTR", rel := 105, phrase := "" }] =
      (ns.filterMap c.findAttr).map CI.attr := by
  simp only [evalHops, classWorld_hop]
  induction ns with
  | nil => rfl
  | cons n ns ih => cases h : c.findAttr n <;> simp_all [classHop, hp]

theorem hops_derived (c : Class) (as : List Attr) :
    evalHops (classWorld c) (as.map CI.attr) [{ cls := "O_BATTR", rel := 106, phrase := "" }, { cls := "O_DBATTR", rel := 107, phrase := "" }] =
      (as.filter Attr.isDerived).map CI.dbattr := by
  simp only [evalHops, classWorld_hop]
  induction as with
  | nil => rfl
  | cons a as ih =>
    cases hk : a.kind <;> simp_all [classHop, hp, Attr.isDerived, List.filter_cons]

theorem names_attrs (c : Class) (as : List Attr) : namesE (classWorld c) "Name" (as.map CI.attr) = .ok (as.map (·.name)) := by
  induction as with
  | nil => rfl
  | cons a as ih => simp [namesE, classAttr, ih]

theorem head_filter_isSome (as : List Attr) : ((as.filter Attr.isDerived).map CI.dbattr).head?.isSome = as.any Attr.isDerived := by
  induction as with
  | nil => rfl
  | cons a as ih => cases h : a.isDerived <;> simp_all [List.filter_cons]

theorem head_cases (as : List Attr) :
    (as.any Attr.isDerived = true → ∃ a, ((as.filter Attr.isDerived).map CI.dbattr).head? = some (CI.dbattr a)) ∧
    (as.any Attr.isDerived = false → ((as.filter Attr.isDerived).map CI.dbattr).head? = none) := by
  constructor
  · intro h
    have hs : (as.find? Attr.isDerived).isSome = true := by
      rw [List.find?_isSome]; simpa [List.any_eq_true] using h
    obtain ⟨a, ha⟩ := Option.isSome_iff_exists.mp hs
    exact ⟨a, by simp [List.head?_filter, ha]⟩
  · intro h
    have hn : as.find? Attr.isDerived = none := by
      rw [List.find?_eq_none]
      intro x hx hd
      have : as.any Attr.isDerived = true := List.any_eq_true.mpr ⟨x, hx, hd⟩
      rw [h] at this; cases this
    simp [List.head?_filter, hn]

/-- the `define_unique_identifier` call `mk_class` makes for an identifier, if any -/
def idCall (drv : Bool) (c : Class) (i : Ident) : Option (Call CI) :=
  if !drv && (idAttrs c i).any Attr.isDerived then none
  else some { fn := "define_unique_identifier", args := [("0", .str c.kl), ("1", .nat (i.num + 1))],
              star := (idAttrs c i).map (·.name) }


theorem eNav_oida (c : Class) (L : Loc CI) (i : Ident) (h : L "o_id" = .inst (some (CI.oid i))) :
    eNav (classWorld c) L { card := .many, start := "o_id", hops := [{ cls := "O_OIDA", rel := 105, phrase := "" }], filter := .all } =
      .ok (.insts (i.attrs.map CI.oida)) := by
  simp [eNav, h, startSet, evalHops, classHop, hp]

theorem eNav_attrs (c : Class) (L : Loc CI) (ns : List Nat) (h : L "o_oida" = .insts (ns.map CI.oida)) :
    eNav (classWorld c) L { card := .many, start := "o_oida", hops := [{ cls := "O_ATTR", rel := 105, phrase := "" }], filter := .all } =
      .ok (.insts ((ns.filterMap c.findAttr).map CI.attr)) := by
  simp only [eNav, h, startSet, hops_oida, filterE_passes_all]

theorem eNav_derived (c : Class) (L : Loc CI) (as : List Attr) (h : L "o_attrs" = .insts (as.map CI.attr)) :
    eNav (classWorld c) L { card := .one, start := "o_attrs", hops := [{ cls := "O_BATTR", rel := 106, phrase := "" }, { cls := "O_DBATTR", rel := 107, phrase := "" }], filter := .all } =
      .ok (.inst ((as.filter Attr.isDerived).map CI.dbattr).head?) := by
  simp only [eNav, h, startSet, hops_derived, filterE_passes_all]

def idL1 (c : Class) (L : Loc CI) (i : Ident) : Loc CI :=
  ((L.set "o_id" (.inst (some (CI.oid i)))).set "o_oida" (.insts (i.attrs.map CI.oida))).set "o_attrs"
      (.insts ((i.attrs.filterMap c.findAttr).map CI.attr))
def idL2 (c : Class) (L : Loc CI) (i : Ident) : Loc CI :=
  (idL1 c L i).set "names" (.strs ((i.attrs.filterMap c.findAttr).map (·.name)))

/-- one pass through the body of the identifier loop -/
theorem idStep (c : Class) (cf : CallF CI) (fuel : Nat) (drv : Bool) (i : Ident) (L : Loc CI) (C : Calls CI)
    (h1 : L "o_obj" = .inst (some CI.obj)) (h2 : L "derived_attributes" = .bool drv) :
    ∃ L' s, iStmts (classWorld c) cf fuel idBody (L.set "o_id" (.inst (some (CI.oid i)))) C =
        .ok (L', C ++ (idCall drv c i).toList, s) ∧ (∀ r, s ≠ .ret r) ∧
      L' "o_obj" = .inst (some CI.obj) ∧ L' "derived_attributes" = .bool drv := by
  have e1 := eNav_oida c (L.set "o_id" (.inst (some (CI.oid i)))) i (by simp [Loc.set])
  have e2 := eNav_attrs c ((L.set "o_id" (.inst (some (CI.oid i)))).set "o_oida" (.insts (i.attrs.map CI.oida))) i.attrs
    (by simp [Loc.set])
  have e3 := eNav_derived c (idL1 c L i) (i.attrs.filterMap c.findAttr) (by simp [idL1, Loc.set])
  simp only [idL1] at e3
  have e4 := names_attrs c (i.attrs.filterMap c.findAttr)
  cases drv with
  | true =>
    refine ⟨idL2 c L i, .next, ?_, ?_, ?_, ?_⟩
    · simp only [idBody, iStmts, iStmt, eExpr, e1, e2, Except.map, thenStep, eCond]
      simp [Loc.set, h1, h2, truthy, e4, evalArgs, eExpr, classAttr, idCall, idAttrs, thenStep, idL2, idL1]
    · intro r h; cases h
    · simp [idL2, idL1, Loc.set, h1]
    · simp [idL2, idL1, Loc.set, h2]
  | false =>
    cases hd : (idAttrs c i).any Attr.isDerived with
    | true =>
      have hd' : (i.attrs.filterMap c.findAttr).any Attr.isDerived = true := hd
      obtain ⟨a, ha⟩ := (head_cases _).1 hd'
      rw [ha] at e3
      refine ⟨idL1 c L i, .cont, ?_, ?_, ?_, ?_⟩
      · simp only [idBody, iStmts, iStmt, eExpr, e1, e2, e3, Except.map, thenStep, eCond]
        simp [Loc.set, idL1, h2, truthy, idCall, hd, thenStep, iStmts, iStmt]
      · intro r h; cases h
      · simp [idL1, Loc.set, h1]
      · simp [idL1, Loc.set, h2]
    | false =>
      have hd' : (i.attrs.filterMap c.findAttr).any Attr.isDerived = false := hd
      have ha := (head_cases _).2 hd'
      rw [ha] at e3
      refine ⟨idL2 c L i, .next, ?_, ?_, ?_, ?_⟩
      · simp only [idBody, iStmts, iStmt, eExpr, e1, e2, e3, Except.map, thenStep, eCond]
        simp [Loc.set, idL1, idL2, h1, h2, truthy, e4, evalArgs, eExpr, classAttr, idCall, hd, thenStep, iStmts, iStmt]
        rfl
      · intro r h; cases h
      · simp [idL2, idL1, Loc.set, h1]
      · simp [idL2, idL1, Loc.set, h2]


/-- the identifier loop of `mk_class` over any list of O_ID rows: one `define_unique_identifier` call per identifier that holds no
    left-out derived attribute, in row order, nothing else -/
theorem idLoop (c : Class) (cf : CallF CI) (fuel : Nat) (drv : Bool) :
    ∀ (ids : List Ident) (L : Loc CI) (C : Calls CI), L "o_obj" = .inst (some CI.obj) → L "derived_attributes" = .bool drv →
      ∃ L', forLoop (fun x L' C' => iStmts (classWorld c) cf fuel idBody (L'.set "o_id" (.inst (some x))) C')
          (ids.map CI.oid) L C = .ok (L', C ++ ids.filterMap (idCall drv c), .next) ∧
        L' "o_obj" = .inst (some CI.obj) ∧ L' "derived_attributes" = .bool drv := by
  intro ids
  induction ids with
  | nil => intro L C h1 h2; exact ⟨L, by simp [forLoop], h1, h2⟩
  | cons i ids ih =>
    intro L C h1 h2
    obtain ⟨L1, s, hrun, hs, g1, g2⟩ := idStep c cf fuel drv i L C h1 h2
    obtain ⟨L', hL, k1, k2⟩ := ih L1 (C ++ (idCall drv c i).toList) g1 g2
    refine ⟨L', ?_, k1, k2⟩
    simp only [List.map_cons, forLoop, hrun]
    have hC : C ++ (idCall drv c i).toList ++ ids.filterMap (idCall drv c) = C ++ (i :: ids).filterMap (idCall drv c) := by
      cases h : idCall drv c i <;> simp [List.filterMap_cons, h]
    rw [← hC, ← hL]

/-- a recorded `define_unique_identifier(kl, n, *names)` as the identifier the metamodel keeps: one without attributes is ignored
    by `define_unique_identifier` itself (xtuml/meta.py) -/
def decodeIdent (k : Call CI) : Option SIdent :=
  match k.args.lookup "1" with
  | some (.nat n) => if k.star = [] then none else some { num := n, names := k.star }
  | _ => none

theorem idCall_identOf (drv : Bool) (c : Class) (i : Ident) : (idCall drv c i).bind decodeIdent = identOf drv c i := by
  unfold idCall identOf idAttrs
  generalize i.attrs.filterMap c.findAttr = as
  cases drv <;> cases hd : as.any Attr.isDerived <;> cases as <;> simp_all [decodeIdent, List.lookup]

theorem idCalls_identOf (drv : Bool) (c : Class) (ids : List Ident) :
    (ids.filterMap (idCall drv c)).filterMap decodeIdent = ids.filterMap (identOf drv c) := by
  rw [List.filterMap_filterMap]
  congr 1
  funext i
  exact idCall_identOf drv c i

end Pyx.XShape
