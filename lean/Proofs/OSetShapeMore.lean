import Proofs.OSetShape
import Proofs.OSetPtr
import PyxModel.OSet

/-!
  C17 source tie, second part: the observers `first` / `last`, the whole op language `applyP` / `runP` of the pointer-level
  model, and `pop(last)` are the generic interpretation (Proofs/OSetShape.lean) of the IR generated from `OrderedSet`.
-/
namespace Pyx.OShape
open Pyx.OSetPtr Pyx.Gen.OSetShape

/-- `next(<generator of shape w>, None)`: the first key the walk yields -/
def iFirst (w : WalkShape) (s : Store) : Option Nat := (iToList w s).head?

theorem iFirst_eq (w : WalkShape) (s : Store) (h : 0 < s.fresh) :
    iFirst w s = if fieldOf s w.startField 0 = 0 then none else some (s.key (fieldOf s w.startField 0)) := by
  unfold iFirst iToList
  obtain ⟨f, hf⟩ : ∃ f, s.fresh = f + 1 := ⟨s.fresh - 1, by omega⟩
  rw [hf]
  unfold iWalkCells
  by_cases hc : fieldOf s w.startField 0 = 0 <;> simp [hc]

theorem ptrFirst_eq (s : Store) (h : 0 < s.fresh) : ptrFirst s = iFirst iterShape s := by
  rw [iFirst_eq _ _ h]; simp [ptrFirst, iterShape, fieldOf]

theorem ptrLast_eq (s : Store) (h : 0 < s.fresh) : ptrLast s = iFirst reversedShape s := by
  rw [iFirst_eq _ _ h]; simp [ptrLast, reversedShape, fieldOf]

/-- the op language of the pointer-level model over ANY add / discard programs and walk shapes -/
def iApplyP (addP dis : Guarded) (it rev : WalkShape) : POp → Store → Store
  | .add k, s => iGuarded addP k s
  | .discard k, s => iGuarded dis k s
  | .iterRm ks, s => (iIterRem it dis (fun k => decide (k ∈ ks)) s.fresh s (fieldOf s it.startField 0)).2
  | .riterRm ks, s => (iIterRem rev dis (fun k => decide (k ∈ ks)) s.fresh s (fieldOf s rev.startField 0)).2

def iRunP (addP dis : Guarded) (it rev : WalkShape) (ops : List POp) : Store :=
  ops.foldl (fun s op => iApplyP addP dis it rev op s) empty

theorem applyP_eq (op : POp) (s : Store) : applyP op s = iApplyP addProg discardProg iterShape reversedShape op s := by
  cases op with
  | add k => exact add_eq k s
  | discard k => exact discard_eq k s
  | iterRm ks => simp only [applyP, iApplyP, iterRem_eq]; simp [iterShape, fieldOf]
  | riterRm ks => simp only [applyP, iApplyP, reversedRem_eq]; simp [reversedShape, fieldOf]

theorem runP_eq (ops : List POp) : runP ops = iRunP addProg discardProg iterShape reversedShape ops := by
  unfold runP iRunP
  congr 1
  funext s op
  exact applyP_eq op s

/-- `pop(last)`: `if not self: raise KeyError`; `key = self.end[1][0]` (last) / `self.end[2][0]` (first);
    `self.discard(key)`; `return key`.  `none` = KeyError.  The body of `pop` is compared verbatim by the translator (it is not
    part of the IR); `discard` is the generated program, the emptiness test is the model's `len`. -/
def iPop (dis : Guarded) (last : Bool) (s : Store) : Option (Nat × Store) :=
  if len s = 0 then none
  else
    let key := s.key (fieldOf s (if last then 1 else 2) 0)
    some (key, iGuarded dis key s)

theorem iPop_refines (s : Store) (L : List Nat) (h : Repr s L) (last : Bool) :
    (L = [] → iPop discardProg last s = none) ∧
    (∀ k, (if last then L.getLast? else L.head?) = some k →
      iPop discardProg last s = some (k, OSetPtr.discard k s) ∧ Repr (OSetPtr.discard k s) (L.erase k)) := by
  obtain ⟨as, ha⟩ := h
  obtain ⟨h1, h2, _, h4⟩ := reprA_observers ha
  refine ⟨fun hL => by simp [iPop, h4, hL], fun k hk => ?_⟩
  have hne : L.length ≠ 0 := by
    intro h0
    have : L = [] := List.eq_nil_of_length_eq_zero h0
    subst this
    cases last <;> simp at hk
  have hkey : s.key (fieldOf s (if last = true then 1 else 2) 0) = k := by
    cases last with
    | true =>
      simp only [↓reduceIte] at hk
      rw [← h2] at hk
      unfold ptrLast at hk
      by_cases hz : s.prev 0 = 0
      · simp [hz] at hk
      · simp only [hz, ↓reduceIte, Option.some.injEq] at hk
        simpa [fieldOf] using hk
    | false =>
      simp only [Bool.false_eq_true, ↓reduceIte] at hk
      rw [← h1] at hk
      unfold ptrFirst at hk
      by_cases hz : s.next 0 = 0
      · simp [hz] at hk
      · simp only [hz, ↓reduceIte, Option.some.injEq] at hk
        simpa [fieldOf] using hk
  refine ⟨?_, repr_discard ⟨as, ha⟩ k⟩
  unfold iPop
  rw [h4, if_neg hne]
  simp only [hkey, ← discard_eq]

end Pyx.OShape
