import Proofs.SqlReloadRoutes
import Proofs.ExtractSql

/-!
  C14, last clause at build level — the metamodel of an extracted component satisfies `Pyx.Sql.MM.Closed`, hence
  (builder-B's `reload_persistDatabase`) the text gen_sql_schema writes is accepted, builds, and the built
  metamodel is the extracted schema in canonical form.
-/

namespace Pyx.Extract
open Pyx.Sql

/-- the two classes of one referential relation (referring `rgo`, referred `rto`) are in scope, every O_REF names
    an attribute of the referring class and a KEPT attribute of the referred class -/
def EndPairOk (d : ClassDiagram) (comp : Option Nat) (drv : Bool) (rgo rto : Nat) (refs : List Ref) : Prop :=
  ∃ rc tc, findClass d rgo = some rc ∧ findClass d rto = some tc ∧
    inScope d.containers d.pkgrefs comp rc.parent = true ∧ inScope d.containers d.pkgrefs comp tc.parent = true ∧
    ∀ ref ∈ refs, (rc.findAttr ref.rattr).isSome = true ∧ ∃ x, tc.findAttr ref.iattr = some x ∧ x.kept d drv = true

/-- what `define_association` checks for the association(s) of one relationship -/
def RelClosed (d : ClassDiagram) (comp : Option Nat) (drv : Bool) (r : Rel) : Prop :=
  match r.kind with
  | .simple form part refs => EndPairOk d comp drv form.cls part.cls refs
  | .linked one oth link r1 r2 => EndPairOk d comp drv link one.cls r1 ∧ EndPairOk d comp drv link oth.cls r2
  | .subsup sup subs => ∀ s ∈ subs, EndPairOk d comp drv s.1 sup s.2
  | .derived => True

/-- the conditions under which the written schema BUILDS again (all of them are checked by `define_class` /
    `define_association` when the component itself is built, or are conventions of BridgePoint):
    * key letters stay distinct when upper-cased (`define_class` keys its dict by `kind.upper()`)
    * the names of the core types 1..5 are pyxtuml type names
    * the identifiers of a class have different numbers
    * the kept attributes of a class have names that stay distinct when upper-cased (`define_class` raises
      MetaModelException otherwise)
    * no attribute name and no association key of the extracted metamodel has the form `__x__` (outside the SQL build
      model: open finding build-builtin:dunder-identifier)
    * every relationship in scope has its classes in scope, its O_REFs resolve, and the referred attributes
      are kept attributes (`define_association` raises otherwise) -/
structure ReloadOk (u : UC) (d : ClassDiagram) (comp : Option Nat) (drv : Bool) : Prop where
  upperKls : (d.classes.map (fun c => u.upper c.kl.toList)).Nodup
  coreTypes : ∀ t ∈ d.dts, ∀ n, t.kind = .core n → 1 ≤ n → n ≤ 5 → (tyOfName u (upper t.name).toList).isSome = true
  identNums : ∀ c ∈ d.classes, (c.idents.map (·.num)).Nodup
  rels : ∀ r ∈ d.rels, inScope d.containers d.pkgrefs comp r.parent = true → RelClosed d comp drv r
  attrNames : ∀ c ∈ d.classes, attrNamesOk u ((classOf d drv c).toM.attrs) = true
  plainAttrs : ∀ c ∈ ((extract d comp drv).toMM).classes, ∀ a ∈ c.attrs, isDunder a.1 = false
  plainKeys : ∀ a ∈ ((extract d comp drv).toMM).assocs, ∀ k ∈ a.src.keys ++ a.tgt.keys, isDunder k = false

theorem natText_inj {a b : Nat} (h : natText a = natText b) : a = b := by
  have := congrArg natOfText h
  rwa [natOfText_natText, natOfText_natText] at this

theorem tyOfName_INTEGER (u : UC) : (tyOfName u "INTEGER".toList).isSome = true := by
  have : "INTEGER".toList = Gen.Persist.Ty.INTEGER.chars := by decide
  rw [this, tyOfName_chars]; rfl

theorem typeKnown_of_attrTy {u : UC} {d : ClassDiagram} {comp : Option Nat} {drv : Bool} (ok : ReloadOk u d comp drv)
    {a : Attr} {ty : String} (h : attrTy d a = some ty) : (tyOfName u ty.toList).isSome = true := by
  unfold attrTy at h
  cases hd : attrDt d a with
  | none => simp [hd] at h
  | some dt =>
    rw [hd] at h
    simp only [Option.bind_some] at h
    rcases dtTypeFuel_origin d.dts _ dt ty h with rfl | ⟨t, ht, n, hk, h1, h5, rfl⟩
    · exact tyOfName_INTEGER u
    · exact ok.coreTypes t ht n hk h1 h5

theorem mem_toMM_classes {d : ClassDiagram} {comp : Option Nat} {drv : Bool} {cm : ClassM}
    (h : cm ∈ ((extract d comp drv).toMM).classes) :
    ∃ c ∈ d.classes, inScope d.containers d.pkgrefs comp c.parent = true ∧ cm = (classOf d drv c).toM := by
  simp only [Schema.toMM, extract, List.mem_map] at h
  obtain ⟨s, ⟨c, hc, rfl⟩, rfl⟩ := h
  exact ⟨c, (List.mem_filter.mp hc).1, (List.mem_filter.mp hc).2, rfl⟩

theorem toMM_class_mem {d : ClassDiagram} {comp : Option Nat} {drv : Bool} {c : Class} (hc : c ∈ d.classes)
    (hs : inScope d.containers d.pkgrefs comp c.parent = true) : (classOf d drv c).toM ∈ ((extract d comp drv).toMM).classes := by
  simp only [Schema.toMM, extract, List.mem_map]
  exact ⟨classOf d drv c, ⟨c, List.mem_filter.mpr ⟨hc, hs⟩, rfl⟩, rfl⟩

theorem keyNames_length {c : Class} {ids : List Nat} (h : ∀ i ∈ ids, (c.findAttr i).isSome = true) :
    (keyNames c ids).length = ids.length := by
  unfold keyNames
  induction ids with
  | nil => rfl
  | cons i t ih =>
    obtain ⟨a, ha⟩ := Option.isSome_iff_exists.mp (h i (by simp))
    simp only [List.filterMap_cons, ha, Option.map_some, List.length_cons]
    rw [ih (fun j hj => h j (by simp [hj]))]

/-- one association built from an `EndPairOk` pair satisfies the `ends` clause of `MM.Closed` -/
theorem endPair_closed {u : UC} {d : ClassDiagram} {comp : Option Nat} {drv : Bool} {rgo rto : Nat} {refs : List Ref}
    {rc tc : Class} (hrc : findClass d rgo = some rc) (htc : findClass d rto = some tc)
    (h : EndPairOk d comp drv rgo rto refs) (rel : Name) (m1 c1 m2 c2 : Bool) (p1 p2 : String) :
    let a : AssocM := ⟨rel,
      SEnd.toM { kind := rc.kl, keys := keyNames rc (refs.map (·.rattr)), many := m1, cond := c1, phrase := p1 },
      SEnd.toM { kind := tc.kl, keys := keyNames tc (refs.map (·.iattr)), many := m2, cond := c2, phrase := p2 }⟩
    (∃ c ∈ ((extract d comp drv).toMM).classes, c.kind = a.src.kind) ∧ a.src.keys.length = a.tgt.keys.length ∧
    ∃ c ∈ ((extract d comp drv).toMM).classes, c.kind = a.tgt.kind ∧
      ∀ k ∈ a.tgt.keys, (c.attrs.map fun x => u.upper x.1).contains (u.upper k) = true := by
  obtain ⟨rc', tc', h1, h2, hs1, hs2, hrefs⟩ := h
  rw [hrc] at h1; rw [htc] at h2
  cases h1; cases h2
  intro a
  refine ⟨⟨_, toMM_class_mem (findClass_mem hrc) hs1, rfl⟩, ?_, ⟨_, toMM_class_mem (findClass_mem htc) hs2, rfl, ?_⟩⟩
  · show ((keyNames rc (refs.map (·.rattr))).map String.toList).length = ((keyNames tc (refs.map (·.iattr))).map String.toList).length
    rw [List.length_map, List.length_map, keyNames_length, keyNames_length, List.length_map, List.length_map]
    · intro i hi
      obtain ⟨ref, hr, rfl⟩ := List.mem_map.mp hi
      obtain ⟨x, hx, _⟩ := (hrefs ref hr).2
      rw [hx]; rfl
    · intro i hi
      obtain ⟨ref, hr, rfl⟩ := List.mem_map.mp hi
      exact (hrefs ref hr).1
  · intro k hk
    have hk' : k ∈ (keyNames tc (refs.map (·.iattr))).map String.toList := hk
    obtain ⟨nm, hnm, rfl⟩ := List.mem_map.mp hk'
    simp only [keyNames] at hnm
    obtain ⟨i, hi, hfi⟩ := List.mem_filterMap.mp hnm
    obtain ⟨ref, hr, rfl⟩ := List.mem_map.mp hi
    obtain ⟨x, hx, hkept⟩ := (hrefs ref hr).2
    rw [hx] at hfi
    simp only [Option.map_some, Option.some.injEq] at hfi
    subst hfi
    have hname : x.name ∈ (classOf d drv tc).attrs.map (·.name) := by
      rw [classOf_attr_names]
      exact List.mem_map.mpr ⟨x, List.mem_filter.mpr ⟨findAttr_mem hx, hkept⟩, rfl⟩
    obtain ⟨sa, hsa, hsn⟩ := List.mem_map.mp hname
    simp only [List.contains_eq_mem, decide_eq_true_eq]
    apply List.mem_map.mpr
    refine ⟨(sa.name.toList, sa.ty.toList), ?_, by simp only [hsn]⟩
    simp only [SClass.toM]
    exact List.mem_map.mpr ⟨sa, hsa, rfl⟩

theorem toMM_closed {u : UC} {d : ClassDiagram} {comp : Option Nat} {drv : Bool} (ok : ReloadOk u d comp drv) :
    ((extract d comp drv).toMM).Closed u := by
  refine ⟨?_, ?_, ?_, ?_, ?_, ?_, ok.plainAttrs, ok.plainKeys⟩
  · -- distinct upper-cased kinds: a sublist of the diagram's
    have : ((extract d comp drv).toMM).classes.map (fun c => u.upper c.kind) =
        (d.classes.filter (fun c => inScope d.containers d.pkgrefs comp c.parent)).map (fun c => u.upper c.kl.toList) := by
      simp only [Schema.toMM, extract, List.map_map]
      rfl
    rw [this]
    exact List.Nodup.sublist (List.Sublist.map _ List.filter_sublist) ok.upperKls
  · intro cm hcm p hp
    obtain ⟨c, _, _, rfl⟩ := mem_toMM_classes hcm
    simp only [SClass.toM, List.mem_map] at hp
    obtain ⟨s, hs, rfl⟩ := hp
    obtain ⟨a, _, _, _, hty⟩ := classOf_attr_mem.mp hs
    exact typeKnown_of_attrTy ok hty
  · intro cm hcm
    obtain ⟨c, hc, _, rfl⟩ := mem_toMM_classes hcm
    constructor
    · simp only [SClass.toM, List.map_map]
      have hsub : ((classOf d drv c).idents.map (·.num)).Sublist (c.idents.map (fun i => i.num + 1)) := by
        simp only [classOf]
        have : ∀ l : List Ident, ((l.filterMap (identOf drv c)).map (·.num)).Sublist (l.map (fun i => i.num + 1)) := by
          intro l
          induction l with
          | nil => exact List.Sublist.slnil
          | cons i t ih =>
            simp only [List.filterMap_cons, List.map_cons]
            cases hi : identOf drv c i with
            | none => exact List.Sublist.cons _ ih
            | some si =>
              have hn : si.num = i.num + 1 := by
                unfold identOf at hi
                simp only at hi
                split at hi
                · cases hi
                · cases hi; rfl
              simp only [List.map_cons, hn]
              exact List.Sublist.cons₂ _ ih
        exact this c.idents
      have hnd : (c.idents.map (fun i => i.num + 1)).Nodup := by
        have := ok.identNums c hc
        have h2 : c.idents.map (fun i => i.num + 1) = (c.idents.map (·.num)).map (· + 1) := by
          simp [List.map_map, Function.comp]
        rw [h2]
        exact nodup_map_of_inj_on this (fun x _ y _ h => by omega)
      have hnd2 := List.Nodup.sublist hsub hnd
      have : ((classOf d drv c).idents.map ((fun (e : Name × List Name) => e.1) ∘ fun i => (indexName i.num, i.names.map String.toList))) =
          ((classOf d drv c).idents.map (·.num)).map indexName := by
        simp [List.map_map, Function.comp]
      rw [this]
      exact nodup_map_of_inj_on hnd2 (fun x _ y _ h => by
        simp only [indexName, List.cons.injEq, true_and] at h
        exact natText_inj h)
    · intro e he
      simp only [SClass.toM, List.mem_map] at he
      obtain ⟨si, hsi, rfl⟩ := he
      obtain ⟨i, _, _, hnames, hne, _⟩ := classOf_ident_mem.mp hsi
      simp only
      rw [hnames]
      intro hnil
      apply hne
      simpa using hnil
  · intro am ham
    simp only [Schema.toMM, extract, List.mem_flatMap] at ham
    obtain ⟨g, hg, hag⟩ := ham
    obtain ⟨r, hr, hgr⟩ := List.mem_filterMap.mp hg
    have hrm := (List.mem_filter.mp hr).1
    have hclosed := ok.rels r hrm (List.mem_filter.mp hr).2
    simp only [SGroup.toM, List.mem_map] at hag
    obtain ⟨a, ha, rfl⟩ := hag
    unfold RelClosed at hclosed
    unfold groupOf at hgr
    cases hk : r.kind with
    | simple form part refs =>
      rw [hk] at hclosed hgr
      simp only at hclosed hgr
      cases hf : findClass d form.cls <;> cases hp : findClass d part.cls <;> simp [hf, hp] at hgr
      subst hgr
      simp only [List.mem_singleton] at ha
      subst ha
      exact endPair_closed hf hp hclosed _ _ _ _ _ _ _
    | linked one oth link r1 r2 =>
      rw [hk] at hclosed hgr
      simp only at hclosed hgr
      cases hl : findClass d link <;> cases ho : findClass d one.cls <;> cases ht : findClass d oth.cls <;>
        simp [hl, ho, ht] at hgr
      subst hgr
      simp only [List.mem_cons, List.not_mem_nil, or_false] at ha
      rcases ha with rfl | rfl
      · exact endPair_closed hl ho hclosed.1 _ _ _ _ _ _ _
      · exact endPair_closed hl ht hclosed.2 _ _ _ _ _ _ _
    | subsup sup subs =>
      rw [hk] at hclosed hgr
      simp only at hclosed hgr
      cases hs : findClass d sup <;> simp [hs] at hgr
      subst hgr
      simp only at ha
      obtain ⟨s, hsm, hsa⟩ := List.mem_filterMap.mp ha
      cases hb : findClass d s.1 with
      | none => simp [hb] at hsa
      | some sc =>
        simp only [hb, Option.map_some, Option.some.injEq] at hsa
        subst hsa
        exact endPair_closed hb hs (hclosed s hsm) _ _ _ _ _ _ _
    | derived =>
      rw [hk] at hgr
      simp at hgr
      subst hgr
      cases ha
  · intro cm hcm r hr
    obtain ⟨c, _, _, rfl⟩ := mem_toMM_classes hcm
    simp [SClass.toM] at hr
  · intro cm hcm
    obtain ⟨c, hc, _, rfl⟩ := mem_toMM_classes hcm
    exact ok.attrNames c hc

/-- THE RELOAD THEOREM at build level -/
theorem reload_build {u : UC} {d : ClassDiagram} {comp : Option Nat} {drv : Bool} (names : NamesOk u d)
    (ok : ReloadOk u d comp drv) :
    ∃ text stmts bs,
      printItems u (((extract d comp drv).toMM).persistDatabase u) = some text ∧
      classify u text = .accepted stmts ∧ build u stmts = .ok bs ∧
      bs.toMM u = ((extract d comp drv).toMM).reloaded u ((extract d comp drv).toMM).assocsById := by
  have hr : ((extract d comp drv).toMM).persistDatabase u ∈ ((extract d comp drv).toMM).routes u := by
    simp [MM.routes]
  obtain ⟨text, ht⟩ := printItems_defs u _ (toMM_routes_defs u _ _ hr)
  obtain ⟨stmts, bs, hc, hb, he⟩ := reload_persistDatabase u _ (toMM_wf names comp drv) (toMM_closed ok) text ht
  exact ⟨text, stmts, bs, ht, hc, hb, he⟩

end Pyx.Extract

namespace Pyx.Extract
open Pyx.Sql

theorem toMM_no_rows (s : Schema) : (s.toMM).classes.flatMap ClassM.instItems = [] := by
  simp only [Schema.toMM, List.flatMap_map]
  induction s.classes with
  | nil => rfl
  | cons c t ih => simp [List.flatMap_cons, ClassM.instItems, SClass.toM, ih]

/-- what the file written by `gen_sql_schema.main` consists of: for every class its CREATE TABLE item and one CREATE
    UNIQUE INDEX item per kept identifier, and one CREATE ROP item per association — nothing else (the route only
    sorts them) -/
theorem persistDatabase_contents (u : UC) (s : Schema) :
    ((s.toMM).persistDatabase u).Perm
      ((s.toMM).classes.flatMap (fun c => c.item :: c.indexItems) ++ (s.toMM).assocs.map AssocM.item) := by
  unfold MM.persistDatabase
  rw [toMM_no_rows, List.append_nil]
  apply List.Perm.append
  · exact List.Perm.flatMap_right _ (sortBy_perm _ _)
  · exact List.Perm.map _ (sortBy_perm _ _)

end Pyx.Extract
