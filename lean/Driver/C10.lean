import PyxModel.Sexp
import PyxModel.Attr

/-! driver for `(attr op…)` command lines (C10): a history on the small world of PyxModel/Attr.lean.
    Answer: one result per op, then `(state (dict-of-instance-0) … )` and the link list. -/
namespace Pyx.Driver.C10
open Pyx Pyx.Sexp Pyx.Attr

def name? : Sexp → Option Name
  | str s => some s.toList
  | _ => none

def val? : Sexp → Option Val
  | int i => some (.int i)
  | str s => some (.str s.toList)
  | sym "none" => some .none
  | sym "T" => some (.bool true)
  | sym "F" => some (.bool false)
  | list [sym "real", str r] => some (.real r.toList)
  | _ => none

def ofName (n : Name) : Sexp := str (String.ofList n)

def ofVal : Val → Sexp
  | .int i => int i
  | .str s => str (String.ofList s)
  | .none => sym "none"
  | .bool b => ofBool b
  | .real r => list [sym "real", str (String.ofList r)]

def ofExc : Exc → Sexp
  | .attributeError => sym "AttributeError"
  | .metaE => sym "Meta"
  | .metaModelE => sym "MetaModel"
  | .unknownClass => sym "UnknownClass"
  | .relateE => sym "Relate"
  | .unrelateE => sym "Unrelate"
  | .unknownLink => sym "UnknownLink"

def ofOptExc : Option Exc → Sexp
  | none => sym "ok"
  | some e => ofExc e

def pair? : Sexp → Option (Name × Val)
  | list [n, v] => do pure ((← name? n), (← val? v))
  | _ => none

def pairs (xs : List Sexp) : List (Name × Val) := xs.filterMap pair?

def attrPair? : Sexp → Option (Name × Name)
  | list [n, t] => do pure ((← name? n), (← name? t))
  | _ => none

def ofDict (d : Dict) : Sexp := list (d.map fun kv => list [ofName kv.1, ofVal kv.2])

def step (w : World) : Sexp → World × Sexp
  | list (sym "define" :: k :: attrs) =>
    match name? k with
    | some kind =>
      match defineClass w.classes kind (attrs.filterMap attrPair?) with
      | some cs => ({ w with classes := cs }, sym "ok")
      | none => (w, sym "MetaModel")
    | none => (w, sym "bad-op")
  | list [sym "assoc", sk, skey, tk, tkey] =>
    match name? sk, name? skey, name? tk, name? tkey with
    | some a, some b, some c, some d =>
      let (w', e) := defineAssoc w a b c d
      (w', ofOptExc e)
    | _, _, _, _ => (w, sym "bad-op")
  | list [sym "find", k] =>
    match name? k with
    | some kind =>
      match findMetaclass w.classes kind with
      | some c => (w, ofName c.kind)
      | none => (w, sym "UnknownClass")
    | none => (w, sym "bad-op")
  | list [sym "new", k, list (sym "args" :: args), list (sym "kw" :: kws)] =>
    match name? k with
    | some kind =>
      let (w', e) := newInst w kind (args.filterMap val?) (pairs kws)
      (w', ofOptExc e)
    | none => (w, sym "bad-op")
  | list [sym "set", int i, n, v] =>
    match name? n, val? v with
    | some sp, some x =>
      let (w', e) := writeVal w i.toNat sp x
      (w', ofOptExc e)
    | _, _ => (w, sym "bad-op")
  | list [sym "del", int i, n] =>
    match name? n with
    | some sp =>
      let (w', e) := deleteVal w i.toNat sp
      (w', ofOptExc e)
    | none => (w, sym "bad-op")
  | list (sym "reads" :: int i :: ns) =>
    (w, list ((ns.filterMap name?).map fun sp =>
      match readVal w i.toNat sp with
      | .ok v => ofVal v
      | .error e => ofExc e))
  | list (sym "sel" :: k :: filt) =>
    match name? k with
    | some kind =>
      match selectMany w kind (pairs filt) with
      | .ok l => (w, ofNats l)
      | .error e => (w, ofExc e)
    | none => (w, sym "bad-op")
  | list [sym "rel", int i, int j] =>
    let (w', e) := relate w i.toNat j.toNat
    (w', ofOptExc e)
  | list [sym "unrel", int i, int j] =>
    let (w', e) := unrelate w i.toNat j.toNat
    (w', ofOptExc e)
  | list [sym "ser", int i] =>
    match serialize w i.toNat with
    | .ok l => (w, list (l.map ofVal))
    | .error e => (w, ofExc e)
  | list [sym "dict", int i] =>
    match w.insts[i.toNat]? with
    | some inst => (w, ofDict inst.dict)
    | none => (w, sym "bad-op")
  | _ => (w, sym "bad-op")

def run (ops : List Sexp) : Sexp :=
  let (w, outs) := ops.foldl (fun (acc : World × List Sexp) op =>
    let (w', r) := step acc.1 op
    (w', r :: acc.2)) (World.empty, [])
  list (outs.reverse ++
    [list (sym "state" :: w.insts.map fun inst => ofDict inst.dict),
     list (sym "links" :: w.links.map fun p => list [ofNat p.1, ofNat p.2])])

def handle : List Sexp → Option Sexp
  | sym "attr" :: ops => some (run ops)
  | _ => none

end Pyx.Driver.C10
