import PyxModel.Sexp

/-! driver commands of property C10 (stub: no command yet) -/
namespace Pyx.Driver.C10
open Pyx Pyx.Sexp

def handle : List Sexp → Option Sexp
  | _ => none

end Pyx.Driver.C10
