import PyxModel.Sexp

/-! driver commands of property C09 (stub: no command yet) -/
namespace Pyx.Driver.C09
open Pyx Pyx.Sexp

def handle : List Sexp → Option Sexp
  | _ => none

end Pyx.Driver.C09
