import PyxModel.Sexp
import PyxModel.Meta
import PyxModel.Query
import Driver.C02

/-!
  driver commands of property C09:

  (query <schema> (ops <history ops>…) (attrs (inst ("P" 3) ("Q" 1) …) …)
         (queries (select-many k <qops>) (select-one k <qops>)
                  (nav-many (handle…) (steps (toKind "R1" "phrase")…) <qops>) (nav-one …) (subtype x "R4") …))
  qops ::= (qops (where ("P" 3) ("Q" none) …) (order ("P" "Q") T|F) (pred lt "P" 3) (pred ge "P" 3) (pred sum "P" "Q" 4) (pred tt) …)
  answer: one entry per query: a list of instance indices, `none`/index for the single forms,
  `UnknownLinkException` when navigation raises.
-/
namespace Pyx.Driver.C09
open Pyx Pyx.Sexp Pyx.Meta Pyx.Query Pyx.Driver.C02

def optInt : Sexp → Option Int
  | int i => some i
  | _ => none

def decodePair : Sexp → Option (String × Option Int)
  | list [a, v] => (asStr? a).map fun a => (a, optInt v)
  | _ => none

def decodeQOp : Sexp → Option QOp
  | list (sym "where" :: ps) => some (.whereEq (ps.filterMap decodePair))
  | list [sym "order", list as, rev] => some (.orderBy (as.filterMap asStr?) ((asBool? rev).getD false))
  | list [sym "pred", sym "lt", a, int c] => (asStr? a).map fun a => .pred (.ltC a c)
  | list [sym "pred", sym "ge", a, int c] => (asStr? a).map fun a => .pred (.geC a c)
  | list [sym "pred", sym "sum", a, b, int c] => do pure (.pred (.sumEq (← asStr? a) (← asStr? b) c))
  | list [sym "pred", sym "tt"] => some (.pred .tt)
  | _ => none

def decodeQOps : Sexp → List QOp
  | list (sym "qops" :: xs) => xs.filterMap decodeQOp
  | _ => []

def decodeStep : Sexp → Option Step
  | list [int k, r, p] => do pure { toKind := k.toNat, rel := (← asStr? r), phrase := (← asStr? p) }
  | _ => none

def decodeSteps : Sexp → List Step
  | list (sym "steps" :: xs) => xs.filterMap decodeStep
  | _ => []

def decodeAttrs (x : Sexp) : List (Nat × List (String × Int)) :=
  match x with
  | list (sym "attrs" :: es) => es.filterMap fun e =>
    match e with
    | list (int i :: ps) => some (i.toNat, ps.filterMap fun p =>
        match p with
        | list [a, int v] => (asStr? a).map fun a => (a, v)
        | _ => none)
    | _ => none
  | _ => []

def mkVal (sc : Sch) (s : State) (plain : List (Nat × List (String × Int))) : Valuation := fun x name =>
  match (plain.lookup x).bind (fun ps => ps.lookup name) with
  | some v => some v
  | none => (getAttr sc.assocs sc.attrs s (driverFuel sc.assocs s) x name).map Int.ofNat

def optInst : Option Inst → Sexp
  | some x => int x
  | none => sym "none"

def runQuery (sc : Sch) (val : Valuation) (s : State) : Sexp → Sexp
  | list [sym "select-many", int k, q] => ofNats (selectMany val s k.toNat (decodeQOps q))
  | list [sym "select-one", int k, q] => optInst (selectOne val s k.toNat (decodeQOps q))
  | list [sym "nav-many", list h, st, q] =>
    match navMany sc.assocs val s (h.filterMap asNat?) (decodeSteps st) (decodeQOps q) with
    | some l => ofNats l
    | none => sym "UnknownLinkException"
  | list [sym "nav-one", list h, st, q] =>
    match navOne sc.assocs val s (h.filterMap asNat?) (decodeSteps st) (decodeQOps q) with
    | some r => optInst r
    | none => sym "UnknownLinkException"
  | list [sym "subtype", int x, r] =>
    match navSubtype sc.assocs s x.toNat ((asStr? r).getD "") with
    | some r => optInst r
    | none => sym "UnknownLinkException"
  | _ => sym "bad-query"

def finalState (sc : Sch) (ops : List Sexp) : State :=
  ops.foldl (fun s o => match decodeOp sc o with
    | some op => (step sc.assocs s op).1
    | none => s) init

def handle : List Sexp → Option Sexp
  | [sym "query", sch, list (sym "ops" :: ops), attrs, list (sym "queries" :: qs)] =>
    match decodeSchema sch with
    | some sc =>
      let s := finalState sc ops
      let val := mkVal sc s (decodeAttrs attrs)
      some (list (qs.map (runQuery sc val s)))
    | none => some (sym "bad-schema")
  | _ => none

end Pyx.Driver.C09
