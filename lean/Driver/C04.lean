import PyxModel.Sexp

/-! driver commands of property C04 (stub: no command yet) -/
namespace Pyx.Driver.C04
open Pyx Pyx.Sexp

def handle : List Sexp → Option Sexp
  | _ => none

end Pyx.Driver.C04
