import PyxModel.Sexp
import PyxModel.Interp.Decode

/-! driver commands of property C04:
    `(interp <fuel> <ctx> <state> <BodyNode tree> <kwargs>)` → `(ok <return value> <state>)`,
    `(error "why the program is outside the domain")` or `(timeout)`;
    `(interp-seq <fuel> <ctx> <state> (<BodyNode tree> <kwargs>)…)`: the programs run one after the other, each from
    the state the previous one left (a fresh frame per program, as `run_function` creates a fresh walker) →
    `(ok (seq <return value>…) <final state>)`, or the first error / timeout -/
namespace Pyx.Driver.C04
open Pyx Pyx.Sexp Pyx.Interp

/-- run the decoded programs in sequence -/
def runSeq (C : Ctx) (fuel : Nat) : List (Block × List (String × Val)) → State → List Val →
    Option (Except Err (List Val × State))
  | [], st, acc => some (.ok (acc.reverse, st))
  | (body, kw) :: rest, st, acc =>
    match runFunction C fuel body kw st with
    | none => none
    | some (.error e) => some (.error e)
    | some (.ok (v, st')) => runSeq C fuel rest st' (v :: acc)

def decodeStep : Sexp → Option (Block × List (String × Val))
  | list [prog, kwargs] => do
    let b ← decodeBody prog
    let kw ← decodeKwargs kwargs
    pure (b, kw)
  | _ => none

def handle : List Sexp → Option Sexp
  | sym "interp-seq" :: int fuel :: ctx :: state :: steps =>
    match decodeCtx ctx with
    | none => some (list [sym "bad", str "ctx"])
    | some C =>
      match decodeState C state, steps.mapM decodeStep with
      | some st, some ps =>
        match runSeq C fuel.toNat ps st [] with
        | none => some (list [sym "timeout"])
        | some (.error e) => some (list [sym "error", str e.msg])
        | some (.ok (vs, st')) => some (list [sym "ok", list (sym "seq" :: vs.map encodeVal), encodeState C st'])
      | none, _ => some (list [sym "bad", str "state"])
      | _, none => some (list [sym "bad", str "program"])
  | [sym "interp", int fuel, ctx, state, prog, kwargs] =>
    match decodeCtx ctx with
    | none => some (list [sym "bad", str "ctx"])
    | some C =>
      match decodeState C state, decodeBody prog, decodeKwargs kwargs with
      | some st, some body, some kw => some (encodeResult C (runFunction C fuel.toNat body kw st))
      | none, _, _ => some (list [sym "bad", str "state"])
      | _, none, _ => some (list [sym "bad", str "program"])
      | _, _, none => some (list [sym "bad", str "kwargs"])
  | _ => none

end Pyx.Driver.C04
