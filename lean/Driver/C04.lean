import PyxModel.Sexp
import PyxModel.Interp.Decode

/-! driver commands of property C04:
    `(interp <fuel> <ctx> <state> <BodyNode tree> <kwargs>)` → `(ok <return value> <state>)`,
    `(error "why the program is outside the domain")` or `(timeout)` -/
namespace Pyx.Driver.C04
open Pyx Pyx.Sexp Pyx.Interp

def handle : List Sexp → Option Sexp
  | [sym "interp", int fuel, ctx, state, prog, kwargs] =>
    match decodeCtx ctx with
    | none => some (list [sym "bad", str "ctx"])
    | some C =>
      match decodeState C state, decodeBody prog, decodeKwargs kwargs with
      | some st, some body, some kw => some (encodeResult C (runFunction C fuel.toNat body kw st))
      | none, _, _ => some (list [sym "bad", str "state"])
      | _, none, _ => some (list [sym "bad", str "program"])
      | _, _, none => some (list [sym "bad", str "kwargs"])
  | _ => none

end Pyx.Driver.C04
