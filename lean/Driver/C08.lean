import PyxModel.Sexp
import PyxModel.Oal.LexGen

/-! driver commands of property C08

    (c08-kinds "lexdata 1" "lexdata 2" ...)
      -> for each text the list of (KIND "lexeme with keyword spellings lower-cased") of the lexer model,
         i.e. the token stream modulo `normTok`
-/
namespace Pyx.Driver.C08
open Pyx Pyx.Sexp Pyx.OalLex

def one (text : String) : Sexp :=
  list ((lex text.toList).map fun t =>
    let n := normTok Gen.OalLex.cfg t
    list [sym (String.ofList n.kind), str (String.ofList n.lexeme)])

def handle : List Sexp → Option Sexp
  | sym "c08-kinds" :: texts => some (list (texts.filterMap fun | str s => some (one s) | _ => none))
  | _ => none

end Pyx.Driver.C08
