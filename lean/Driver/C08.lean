import PyxModel.Sexp

/-! driver commands of property C08 (stub: no command yet) -/
namespace Pyx.Driver.C08
open Pyx Pyx.Sexp

def handle : List Sexp → Option Sexp
  | _ => none

end Pyx.Driver.C08
