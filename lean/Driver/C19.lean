import PyxModel.Sexp
import PyxModel.NewInst
import Driver.C10

/-! driver for `(newinst (gen …) op…)` command lines (C19): constructor calls with typed defaults and an id
    generator given by its stream — `(gen lin START STEP)`: the k-th value is START + STEP·k
    (`IntegerGenerator` = `lin 1 1`).  Ops: define / assoc as in C10, `(new kind (args …) (kw …))`,
    `(peek)`, `(next)`.  Answer per op; for `new`: `(result dict-of-the-created-instance)`. -/
namespace Pyx.Driver.C19
open Pyx Pyx.Sexp Pyx.Attr Pyx.NewInst
open Pyx.Driver.C10 (name? val? ofVal ofExc ofOptExc pairs attrPair? ofDict)

def step (stream : Nat → Int) (w : World) : Sexp → World × Sexp
  | list [sym "new", k, list (sym "args" :: args), list (sym "kw" :: kws)] =>
    match name? k with
    | some kind =>
      let n0 := w.insts.length
      let (w', e) := NewInst.newInst stream w kind (args.filterMap val?) (pairs kws)
      match w'.insts[n0]? with
      | some inst => (w', list [ofOptExc e, ofDict inst.dict])
      | none => (w', list [ofOptExc e])
    | none => (w, sym "bad-op")
  | list [sym "peek"] => (w, int (stream w.nextId))
  | list [sym "next"] => ({ w with nextId := w.nextId + 1 }, int (stream w.nextId))
  | op@(list (sym "define" :: _)) => Pyx.Driver.C10.step w op
  | op@(list (sym "assoc" :: _)) => Pyx.Driver.C10.step w op
  | _ => (w, sym "bad-op")

def run (stream : Nat → Int) (ops : List Sexp) : Sexp :=
  let (_, outs) := ops.foldl (fun (acc : World × List Sexp) op =>
    let (w', r) := step stream acc.1 op
    (w', r :: acc.2)) ({ World.empty with nextId := 0 }, [])
  list outs.reverse

def handle : List Sexp → Option Sexp
  | sym "newinst" :: list [sym "gen", sym "lin", int start, int stp] :: ops =>
    some (run (linStream start stp) ops)
  | _ => none

end Pyx.Driver.C19
