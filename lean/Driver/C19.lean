import PyxModel.Sexp

/-! driver commands of property C19 (stub: no command yet) -/
namespace Pyx.Driver.C19
open Pyx Pyx.Sexp

def handle : List Sexp → Option Sexp
  | _ => none

end Pyx.Driver.C19
