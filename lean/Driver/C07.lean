import PyxModel.Sexp

/-! driver commands of property C07 (stub: no command yet) -/
namespace Pyx.Driver.C07
open Pyx Pyx.Sexp

def handle : List Sexp → Option Sexp
  | _ => none

end Pyx.Driver.C07
