import PyxModel.Sexp
import PyxModel.Oal.Expr
import PyxModel.Oal.Stmt
import Gen.OalPrec
import PyxModel.Oal.Text

/-!
  driver commands of property C07

    (c07 <tree | none> (KIND "lexeme") (KIND "lexeme") …)
      -> ((printed (KIND "lexeme") … | none | bad-tree) (parsed <tree> | error))

    (c07 <tree | none> (lay "sep0" "gap1" … "gapN") (KIND "lexeme") …)      TEXT level, N tokens
      -> (printed parsed (lexed (KIND "lexeme") …) (parsed <tree> | error) (dom LEX LAY SAME))
         the text is  sep0 ++ lexeme1 ++ gap1 ++ … ++ lexemeN ++ gapN ++ "\n";  `lexed` = the lexer model on it
         (converted to parser tokens), the fourth answer = `parseText` (PyxModel/Oal/Text.lean: the composition that
         `text_roundtrip` is about) on it;  `dom`: `inDomain` of the theorems (lexemes lexable; layout accepted) and
         whether the lexer model returned exactly the written tokens (must be T when LEX and LAY are: `driver_domain_sound`);
         when SAME is T the third and fourth answers are abbreviated to `=` (they equal the written tokens and the second
         answer)

    (c07t "text" "text" …)
      -> (((lexed …) (parsed <tree> | error)) …)        the same two answers for each bare text (+ "\n")

  `printed`: the model's `printStmts` of the given tree (compared with the token stream of the text the
  harness wrote); `parsed`: the model's `parseStmts` of the given PLY token stream, as a tree in the same
  format (the harness converts it to the oal.py node encoding and compares it with PLY's tree).
  Both run with the GENERATED precedence table.  Tree format = the constructors of PyxModel/Oal.
-/
namespace Pyx.Driver.C07
open Pyx Pyx.Sexp Pyx.Oal

def kindName (k : Kind) : String := k.name

def kindOf : String → Option Kind
  | "ASSIGN" => some .ASSIGN
  | "ASSIGNER" => some .ASSIGNER
  | "BREAK" => some .BREAK
  | "BRIDGE" => some .BRIDGE
  | "SEND" => some .SEND
  | "CONTROL" => some .CONTROL
  | "STOP" => some .STOP
  | "CONTINUE" => some .CONTINUE
  | "CREATE" => some .CREATE
  | "EVENT" => some .EVENT
  | "INSTANCE" => some .INSTANCE
  | "OF" => some .OF
  | "OBJECT" => some .OBJECT
  | "DELETE" => some .DELETE
  | "FOR" => some .FOR
  | "EACH" => some .EACH
  | "IN" => some .IN
  | "GENERATE" => some .GENERATE
  | "IF" => some .IF
  | "ELIF" => some .ELIF
  | "ELSE" => some .ELSE
  | "RELATE" => some .RELATE
  | "TO" => some .TO
  | "ACROSS" => some .ACROSS
  | "USING" => some .USING
  | "RETURN" => some .RETURN
  | "SELECT" => some .SELECT
  | "ONE" => some .ONE
  | "ANY" => some .ANY
  | "MANY" => some .MANY
  | "TRANSFORM" => some .TRANSFORM
  | "UNRELATE" => some .UNRELATE
  | "FROM" => some .FROM
  | "WHILE" => some .WHILE
  | "CLASS" => some .CLASS
  | "CREATOR" => some .CREATOR
  | "RELATED" => some .RELATED
  | "BY" => some .BY
  | "INSTANCES" => some .INSTANCES
  | "WHERE" => some .WHERE
  | "CARDINALITY" => some .CARDINALITY
  | "EMPTY" => some .EMPTY
  | "FALSE" => some .FALSE
  | "NOT" => some .NOT
  | "NOT_EMPTY" => some .NOT_EMPTY
  | "TRUE" => some .TRUE
  | "AND" => some .AND
  | "OR" => some .OR
  | "PARAM" => some .PARAM
  | "RCVD_EVT" => some .RCVD_EVT
  | "SELF" => some .SELF
  | "SELECTED" => some .SELECTED
  | "LOOP" => some .LOOP
  | "THEN" => some .THEN
  | "SEMICOLON" => some .SEMICOLON
  | "EQUAL" => some .EQUAL
  | "DOT" => some .DOT
  | "DOUBLECOLON" => some .DOUBLECOLON
  | "LPAREN" => some .LPAREN
  | "RPAREN" => some .RPAREN
  | "TIMES" => some .TIMES
  | "COLON" => some .COLON
  | "COMMA" => some .COMMA
  | "ARROW" => some .ARROW
  | "LSQBR" => some .LSQBR
  | "RSQBR" => some .RSQBR
  | "ID" => some .ID
  | "NAMESPACE" => some .NAMESPACE
  | "END_FOR" => some .END_FOR
  | "END_IF" => some .END_IF
  | "END_WHILE" => some .END_WHILE
  | "TICKED_PHRASE" => some .TICKED_PHRASE
  | "QMARK" => some .QMARK
  | "FRACTION" => some .FRACTION
  | "NUMBER" => some .NUMBER
  | "STRING" => some .STRING
  | "DOUBLEEQUAL" => some .DOUBLEEQUAL
  | "NOTEQUAL" => some .NOTEQUAL
  | "LESSTHAN" => some .LESSTHAN
  | "LE" => some .LE
  | "GT" => some .GT
  | "GE" => some .GE
  | "PLUS" => some .PLUS
  | "MINUS" => some .MINUS
  | "PIPE" => some .PIPE
  | "DIV" => some .DIV
  | "MOD" => some .MOD
  | "AMP" => some .AMP
  | "CARET" => some .CARET
  | _ => none

def tbl : Tbl := Pyx.Gen.OalPrec.table

def encTok (t : Tok) : Sexp := list [sym (kindName t.kind), str t.lex]

def decTok : Sexp → Option Tok
  | list [sym k, str s] => (kindOf k).map fun kk => ⟨kk, s⟩
  | _ => none

def decToks : List Sexp → Option (List Tok)
  | [] => some []
  | x :: xs => do
    let t ← decTok x
    let ts ← decToks xs
    pure (t :: ts)

/-- a name in the wire format is its lexeme; its token kind is what the lexer's keyword test gives
    (`t_ID`: the upper-cased lexeme is a keyword) — untrusted glue, validated by the printed-token comparison -/
def nameTok (s : String) : Tok :=
  match kindOf s.toUpper with
  | some k =>
    if k.isKeyword && k != .END_FOR && k != .END_IF && k != .END_WHILE then ⟨k, s⟩ else ⟨.ID, s⟩
  | none => ⟨.ID, s⟩

def encPhrase : Phrase → Sexp
  | .ticked lex => str lex
  | .ident n => list [sym "ident", str n.lex]
def decPhrase : Sexp → Option Phrase
  | str s => some (.ticked s)
  | list [sym "ident", str s] => some (.ident (nameTok s))
  | _ => none
def encOptPhrase : Option Phrase → Sexp
  | some p => encPhrase p
  | none => sym "none"
def decOptPhrase : Sexp → Option (Option Phrase)
  | sym "none" => some none
  | x => (decPhrase x).map some

def encBool (b : Bool) : Sexp := ofBool b
def decBool : Sexp → Option Bool
  | sym "T" => some true
  | sym "F" => some false
  | _ => none

def encOptStr : Option String → Sexp
  | some s => str s
  | none => sym "none"
def decOptStr : Sexp → Option (Option String)
  | str s => some (some s)
  | sym "none" => some none
  | _ => none

mutual
def encExpr : Expr → Sexp
  | .int v => list [sym "int", str v]
  | .real v => list [sym "real", str v]
  | .str v => list [sym "str", str v]
  | .bool b v => list [sym "bool", encBool b, str v]
  | .enumc ns n => list [sym "enumc", str ns, str n.lex]
  | .var n => list [sym "var", str n.lex]
  | .self => list [sym "self"]
  | .selected => list [sym "selected"]
  | .param n => list [sym "param", str n.lex]
  | .field h n => list [sym "field", encExpr h, str n.lex]
  | .index h i => list [sym "index", encExpr h, encExpr i]
  | .fcall n ps => list [sym "fcall", str n.lex, list (encParams ps)]
  | .icall ns n ps => list [sym "icall", str ns, str n.lex, list (encParams ps)]
  | .ocall h n ps => list [sym "ocall", encExpr h, str n.lex, list (encParams ps)]
  | .un op e => list [sym "un", sym (kindName op.kind), str op.lex, encExpr e]
  | .bin l op r => list [sym "bin", encExpr l, sym (kindName op.kind), str op.lex, encExpr r]
def encParams : Params → List Sexp
  | .nil => []
  | .cons n e ps => list [str n.lex, encExpr e] :: encParams ps
end

mutual
partial def decExpr : Sexp → Option Expr
  | list [sym "int", str v] => some (.int v)
  | list [sym "real", str v] => some (.real v)
  | list [sym "str", str v] => some (.str v)
  | list [sym "bool", b, str v] => (decBool b).map fun bb => .bool bb v
  | list [sym "enumc", str ns, str n] => some (.enumc ns (nameTok n))
  | list [sym "var", str n] => some (.var (nameTok n))
  | list [sym "self"] => some .self
  | list [sym "selected"] => some .selected
  | list [sym "param", str n] => some (.param (nameTok n))
  | list [sym "field", h, str n] => (decExpr h).map fun hh => .field hh (nameTok n)
  | list [sym "index", h, i] => do
    let hh ← decExpr h
    let ii ← decExpr i
    pure (.index hh ii)
  | list [sym "fcall", str n, list ps] => (decParams ps).map fun pp => .fcall (nameTok n) pp
  | list [sym "icall", str ns, str n, list ps] => (decParams ps).map fun pp => .icall ns (nameTok n) pp
  | list [sym "ocall", h, str n, list ps] => do
    let hh ← decExpr h
    let pp ← decParams ps
    pure (.ocall hh (nameTok n) pp)
  | list [sym "un", sym k, str s, e] => do
    let kk ← kindOf k
    let ee ← decExpr e
    pure (.un ⟨kk, s⟩ ee)
  | list [sym "bin", l, sym k, str s, r] => do
    let ll ← decExpr l
    let kk ← kindOf k
    let rr ← decExpr r
    pure (.bin ll ⟨kk, s⟩ rr)
  | _ => none
partial def decParams : List Sexp → Option Params
  | [] => some .nil
  | list [str n, e] :: rest => do
    let ee ← decExpr e
    let pp ← decParams rest
    pure (.cons (nameTok n) ee pp)
  | _ => none
end

def encOptExpr : Option Expr → Sexp
  | some e => encExpr e
  | none => sym "none"
def decOptExpr : Sexp → Option (Option Expr)
  | sym "none" => some none
  | x => (decExpr x).map some

def encCard (c : CardTok) : Sexp :=
  list [sym (match c.c with | .one => "one" | .any => "any" | .many => "many"), str c.lex]
def decCard : Sexp → Option CardTok
  | list [sym "one", str s] => some ⟨.one, s⟩
  | list [sym "any", str s] => some ⟨.any, s⟩
  | list [sym "many", str s] => some ⟨.many, s⟩
  | _ => none

def encInst : InstName → Sexp
  | .var n => list [sym "var", str n.lex]
  | .self s => list [sym "self", str s]
def decInst : Sexp → Option InstName
  | list [sym "var", str n] => some (.var (nameTok n))
  | list [sym "self", str s] => some (.self s)
  | _ => none
def encOptInst : Option InstName → Sexp
  | some i => encInst i
  | none => sym "none"
def decOptInst : Sexp → Option (Option InstName)
  | sym "none" => some none
  | x => (decInst x).map some

def encStep (s : NavStep) : Sexp := list [str s.kl.lex, str s.rel.lex, encOptPhrase s.phrase]
def decStep : Sexp → Option NavStep
  | list [str kl, str r, p] => (decOptPhrase p).map fun pp => ⟨nameTok kl, nameTok r, pp⟩
  | _ => none
def decSteps : List Sexp → Option (List NavStep)
  | [] => some []
  | x :: xs => do
    let s ← decStep x
    let ss ← decSteps xs
    pure (s :: ss)

def encEv (es : EvSpec) : Sexp :=
  list [str es.id.lex, encBool es.star, encOptPhrase es.meaning, encBool es.parens, list (encParams es.data)]
def decEv : Sexp → Option EvSpec
  | list [str id, st, m, pa, list ps] => do
    let s ← decBool st
    let mm ← decOptPhrase m
    let p ← decBool pa
    let pp ← decParams ps
    pure ⟨nameTok id, s, mm, p, pp⟩
  | _ => none

def encTarget : EvTarget → Sexp
  | .cls kl a => list [sym "cls", str kl.lex, encBool a]
  | .creator kl => list [sym "creator", str kl.lex]
  | .inst e => list [sym "inst", encExpr e]
def decTarget : Sexp → Option EvTarget
  | list [sym "cls", str kl, a] => (decBool a).map fun aa => .cls (nameTok kl) aa
  | list [sym "creator", str kl] => some (.creator (nameTok kl))
  | list [sym "inst", e] => (decExpr e).map .inst
  | _ => none

def encIKind : IKind → Sexp
  | .bridge => sym "bridge"
  | .cls => sym "cls"
  | .port => sym "port"
def decIKind : Sexp → Option IKind
  | sym "bridge" => some .bridge
  | sym "cls" => some .cls
  | sym "port" => some .port
  | _ => none

mutual
def encStmt : Stmt → Sexp
  | .brk => list [sym "brk"]
  | .cont => list [sym "cont"]
  | .ctrl => list [sym "ctrl"]
  | .ret e => list [sym "ret", encOptExpr e]
  | .assign kw va e => list [sym "assign", encBool kw, encExpr va, encExpr e]
  | .invoke inv => list [sym "invoke", encExpr inv]
  | .kwCall k va ns n ps => list [sym "kwCall", encIKind k, encOptExpr va, str ns, str n.lex, list (encParams ps)]
  | .trCall va h n ps => list [sym "trCall", encOptExpr va, encExpr h, str n.lex, list (encParams ps)]
  | .sendEvent p n ps to => list [sym "sendEvent", str p, str n.lex, list (encParams ps), encExpr to]
  | .gen es tg => list [sym "gen", encEv es, encTarget tg]
  | .genPre va => list [sym "genPre", encExpr va]
  | .crtEv v es tg => list [sym "crtEv", str v.lex, encEv es, encTarget tg]
  | .createObj v kl => list [sym "createObj", str v.lex, str kl.lex]
  | .createObjNoVar kl => list [sym "createObjNoVar", str kl.lex]
  | .delete i => list [sym "delete", encInst i]
  | .forEach v s lp b => list [sym "forEach", str v.lex, str s.lex, encBool lp, list (encBlock b)]
  | .while_ c lp b => list [sym "while", encExpr c, encBool lp, list (encBlock b)]
  | .if_ c th b el e => list [sym "if", encExpr c, encBool th, list (encBlock b), list (encElifs el), encElse e]
  | .rel un a b r ph u => list [sym "rel", encBool un, encInst a, encInst b, str r.lex, encOptPhrase ph, encOptInst u]
  | .selFrom card v io kl w => list [sym "selFrom", encCard card, str v.lex, encBool io, str kl.lex, encOptExpr w]
  | .selRel card v hook chain w =>
    list [sym "selRel", encCard card, str v.lex, encExpr hook, list (chain.map encStep), encOptExpr w]
def encBlock : Block → List Sexp
  | .nil => []
  | .cons s b => encStmt s :: encBlock b
def encElifs : Elifs → List Sexp
  | .nil => []
  | .cons c th b more => list [encExpr c, encBool th, list (encBlock b)] :: encElifs more
def encElse : Else → Sexp
  | .none => sym "none"
  | .some b => list [sym "else", list (encBlock b)]
end

mutual
partial def decStmt : Sexp → Option Stmt
  | list [sym "brk"] => some .brk
  | list [sym "cont"] => some .cont
  | list [sym "ctrl"] => some .ctrl
  | list [sym "ret", e] => (decOptExpr e).map .ret
  | list [sym "assign", kw, va, e] => do
    let k ← decBool kw
    let v ← decExpr va
    let ee ← decExpr e
    pure (.assign k v ee)
  | list [sym "invoke", inv] => (decExpr inv).map .invoke
  | list [sym "kwCall", k, va, str ns, str n, list ps] => do
    let kk ← decIKind k
    let v ← decOptExpr va
    let pp ← decParams ps
    pure (.kwCall kk v ns (nameTok n) pp)
  | list [sym "trCall", va, h, str n, list ps] => do
    let v ← decOptExpr va
    let hh ← decExpr h
    let pp ← decParams ps
    pure (.trCall v hh (nameTok n) pp)
  | list [sym "sendEvent", str p, str n, list ps, to] => do
    let pp ← decParams ps
    let tt ← decExpr to
    pure (.sendEvent p (nameTok n) pp tt)
  | list [sym "gen", es, tg] => do
    let e ← decEv es
    let t ← decTarget tg
    pure (.gen e t)
  | list [sym "genPre", va] => (decExpr va).map .genPre
  | list [sym "crtEv", str v, es, tg] => do
    let e ← decEv es
    let t ← decTarget tg
    pure (.crtEv (nameTok v) e t)
  | list [sym "createObj", str v, str kl] => some (.createObj (nameTok v) (nameTok kl))
  | list [sym "createObjNoVar", str kl] => some (.createObjNoVar (nameTok kl))
  | list [sym "delete", i] => (decInst i).map .delete
  | list [sym "forEach", str v, str s, lp, list b] => do
    let l ← decBool lp
    let bb ← decBlock b
    pure (.forEach (nameTok v) (nameTok s) l bb)
  | list [sym "while", c, lp, list b] => do
    let cc ← decExpr c
    let l ← decBool lp
    let bb ← decBlock b
    pure (.while_ cc l bb)
  | list [sym "if", c, th, list b, list el, e] => do
    let cc ← decExpr c
    let t ← decBool th
    let bb ← decBlock b
    let ee ← decElifs el
    let es ← decElse e
    pure (.if_ cc t bb ee es)
  | list [sym "rel", un, a, b, str r, ph, u] => do
    let uu ← decBool un
    let aa ← decInst a
    let bb ← decInst b
    let pp ← decOptPhrase ph
    let us ← decOptInst u
    pure (.rel uu aa bb (nameTok r) pp us)
  | list [sym "selFrom", card, str v, io, str kl, w] => do
    let c ← decCard card
    let i ← decBool io
    let ww ← decOptExpr w
    pure (.selFrom c (nameTok v) i (nameTok kl) ww)
  | list [sym "selRel", card, str v, hook, list chain, w] => do
    let c ← decCard card
    let h ← decExpr hook
    let ch ← decSteps chain
    let ww ← decOptExpr w
    pure (.selRel c (nameTok v) h ch ww)
  | _ => none
partial def decBlock : List Sexp → Option Block
  | [] => some .nil
  | x :: xs => do
    let s ← decStmt x
    let b ← decBlock xs
    pure (.cons s b)
partial def decElifs : List Sexp → Option Elifs
  | [] => some .nil
  | list [c, th, list b] :: xs => do
    let cc ← decExpr c
    let t ← decBool th
    let bb ← decBlock b
    let more ← decElifs xs
    pure (.cons cc t bb more)
  | _ => none
partial def decElse : Sexp → Option Else
  | sym "none" => some .none
  | list [sym "else", list b] => (decBlock b).map .some
  | _ => none
end

def printed : Sexp → Sexp
  | sym "none" => sym "none"
  | list b =>
    match decBlock b with
    | some blk => list (sym "printed" :: (printStmts tbl blk).map encTok)
    | none => sym "bad-tree"
  | _ => sym "bad-tree"

def parsed (toks : List Sexp) : Sexp :=
  match decToks toks with
  | some ts =>
    match parseStmts tbl ts with
    | some b => list [sym "parsed", list (encBlock b)]
    | none => sym "error"
  | none => sym "bad-tokens"

def strs : List Sexp → Option (List String)
  | [] => some []
  | str s :: xs => (strs xs).map (s :: ·)
  | _ => none

def lexedToks (text : List Char) : List Tok := (Pyx.OalLex.lex text).map Pyx.OalText.ofLexTok

def answersOf (toks : List Tok) : Sexp × Sexp :=
  (list (sym "lexed" :: toks.map encTok),
   match parseStmts tbl toks with          -- on `lexedToks text` this is `Pyx.OalText.parseText text`
   | some b => list [sym "parsed", list (encBlock b)]
   | none => sym "error")

def textAnswers (text : List Char) : Sexp × Sexp := answersOf (lexedToks text)

def textOf : List Tok → List String → List Char
  | t :: ts, g :: gs => t.lex.toList ++ g.toList ++ textOf ts gs
  | _, _ => []

def atText (tree : Sexp) (lay toks : List Sexp) : Sexp :=
  match strs lay, decToks toks with
  | some (sep0 :: gaps), some ts =>
    if gaps.length != ts.length then sym "bad-layout" else
    let text := sep0.toList ++ textOf ts gaps ++ ['\n']
    let lexed := lexedToks text
    let same := lexed == ts
    -- when the lexer model returns exactly the written tokens, `parseText text` is `parseStmts` of those tokens:
    -- the second answer; both are then abbreviated to `=`
    let (lx, pt) := if same then (sym "=", sym "=") else answersOf lexed
    let dom := Pyx.OalText.inDomain ts sep0.toList (gaps.map String.toList)
    list [printed tree, parsed toks, lx, pt, list [sym "dom", ofBool dom.1, ofBool dom.2, ofBool same]]
  | _, _ => sym "bad-layout"

def handle : List Sexp → Option Sexp
  | sym "c07" :: tree :: list (sym "lay" :: lay) :: toks => some (atText tree lay toks)
  | sym "c07" :: tree :: toks => some (list [printed tree, parsed toks])
  | sym "c07t" :: texts =>
    match strs texts with
    | some ts => some (list (ts.map fun t => let (a, b) := textAnswers (t.toList ++ ['\n']); list [a, b]))
    | none => some (sym "bad-texts")
  | _ => none

end Pyx.Driver.C07
