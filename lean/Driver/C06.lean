import PyxModel.Sexp

/-! driver commands of property C06 (stub: no command yet) -/
namespace Pyx.Driver.C06
open Pyx Pyx.Sexp

def handle : List Sexp → Option Sexp
  | _ => none

end Pyx.Driver.C06
