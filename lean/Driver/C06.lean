import PyxModel.Sexp
import PyxModel.Prebuild.Decode
import PyxModel.Prebuild.Canon
import PyxModel.Prebuild.Typing
import PyxModel.Prebuild.Chain
import PyxModel.Prebuild.Recipe
import Driver.C06Flat   -- FLAT: dump of the flat population model

/-! driver commands of property C06:
      (c06 (ctx classes funcs ees enums consts params self) <BodyNode tree> ((event-label "'meaning'")…))
    answer: (((subtype "type")…)  statement-chains  parameter-chains  link-chains  event-data-chains
             (("variable" "type")…))
    where a chain row lists, per element in source order, the index of the element its referential attribute
    designates (or none); rows are sorted (the harness sorts its rows the same way).
      (c06-recipes)  →  the recipe table ((class ((rel partner)…) method)…) -/
namespace Pyx.Driver.C06
open Pyx Pyx.Sexp Pyx.Prebuild

def pairs : Sexp → List (String × String)
  | list xs => xs.filterMap fun
    | list [a, b] => match asStr? a, asStr? b with
      | some x, some y => some (x, y)
      | _, _ => none
    | _ => none
  | _ => []

def strs : Sexp → List String
  | list xs => xs.filterMap asStr?
  | _ => []

def decClass : Sexp → Option ClassInfo
  | list [kl, ir, irs, attrs, ops] => do
    let a ← asStr? kl; let b ← asStr? ir; let c ← asStr? irs
    some ⟨a, b, c, pairs attrs, pairs ops⟩
  | _ => none

def decTCtx : Sexp → Option TCtx
  | list [sym "ctx", list classes, funcs, list ees, list enums, list consts, params, self] =>
    some {
      classes := classes.filterMap decClass
      funcs := pairs funcs
      ees := ees.filterMap fun
        | list [k, bs] => (asStr? k).map fun kk => (kk, pairs bs)
        | _ => none
      enums := enums.filterMap fun
        | list [n, es] => (asStr? n).map fun nn => (nn, strs es)
        | _ => none
      consts := consts.filterMap fun
        | list [g, cs] => (asStr? g).map fun gg => (gg, pairs cs)
        | _ => none
      params := pairs params
      selfKl := match self with
        | str s => some s
        | _ => none }
  | _ => none

def encRow (r : Row) : Sexp :=
  list [sym r.1, match r.2 with | some t => str t | none => sym "none"]

def encRef (ids : List Nat) (r : Option Nat) : Sexp :=
  match r with
  | none => sym "none"
  | some v => match ids.idxOf? v with
    | some i => int i
    | none => sym "other"

def rowPrev (n : Nat) : List Sexp :=
  let ids := List.range n
  ids.map fun x => encRef ids (prevStatement ids x)

def rowNext (n : Nat) : List Sexp :=
  let ids := List.range n
  ids.map fun x => encRef ids (nextInChain ids x)

def rowNextEvt (n : Nat) : List Sexp :=
  let ids := List.range n
  ids.map fun x => encRef ids (nextEventDatum ids x)

def Params.len : Params → Nat
  | .nil => 0
  | .cons _ _ r => Params.len r + 1

mutual
  partial def exprParamLens : Expr → List Nat
    | .field h _ => exprParamLens h
    | .index h i => exprParamLens h ++ exprParamLens i
    | .un _ e => exprParamLens e
    | .bin l _ r => exprParamLens l ++ exprParamLens r
    | .call _ _ _ ps => Params.len ps :: paramsParamLens ps
    | .icall h _ ps => exprParamLens h ++ (Params.len ps :: paramsParamLens ps)
    | _ => []
  partial def paramsParamLens : Params → List Nat
    | .nil => []
    | .cons _ e r => exprParamLens e ++ paramsParamLens r
end

structure Acc where
  blocks : List Nat := []
  pars : List Nat := []
  links : List Nat := []
  evts : List Nat := []

def Block.len : Block → Nat
  | .nil => 0
  | .cons _ r => Block.len r + 1

mutual
  partial def accStmt (a : Acc) : Stmt → Acc
    | .assign l r => { a with pars := a.pars ++ exprParamLens r ++ exprParamLens l }
    | .ret (some e) => { a with pars := a.pars ++ exprParamLens e }
    | .selFromW _ _ _ w => { a with pars := a.pars ++ exprParamLens w }
    | .selRel _ _ h ch => { a with pars := a.pars ++ exprParamLens h, links := a.links ++ [ch.length] }
    | .selRelW _ _ h ch w =>
      { a with pars := a.pars ++ exprParamLens h ++ exprParamLens w, links := a.links ++ [ch.length] }
    | .forEach _ _ b => accBlock a b
    | .while_ e b => accBlock { a with pars := a.pars ++ exprParamLens e } b
    | .if_ e b el els => accElse (accElifs (accBlock { a with pars := a.pars ++ exprParamLens e } b) el) els
    | .invoke e => { a with pars := a.pars ++ exprParamLens e }
    | .genEvt _ _ d _ => { a with pars := a.pars ++ paramsParamLens d, evts := a.evts ++ [Params.len d] }
    | .createEvt _ _ _ d _ => { a with pars := a.pars ++ paramsParamLens d, evts := a.evts ++ [Params.len d] }
    | _ => a
  partial def accStmts (a : Acc) : Block → Acc
    | .nil => a
    | .cons s r => accStmts (accStmt a s) r
  partial def accBlock (a : Acc) (b : Block) : Acc :=
    accStmts { a with blocks := a.blocks ++ [Block.len b] } b
  partial def accElifs (a : Acc) : Elifs → Acc
    | .nil => a
    | .cons e b r => accElifs (accBlock { a with pars := a.pars ++ exprParamLens e } b) r
  partial def accElse (a : Acc) : Else → Acc
    | .none => a
    | .some b => accBlock a b
end

def sortNat (xs : List Nat) : List Nat := (xs.toArray.qsort (· < ·)).toList

def handle : List Sexp → Option Sexp
  | [sym "c06", ctx, body, evs] =>
    match decTCtx ctx, decBody body with
    | some c, some b =>
      let cc : Ctx := ⟨c.ees.map (·.1), c.classes.map (·.kl), pairs evs⟩
      let cb := canon cc b
      let acc := accBlock {} cb
      some (list [list ((typeWalk c cb).map encRow),
                  list ((sortNat acc.blocks).map fun n => list (rowPrev n)),
                  list ((sortNat acc.pars).map fun n => list (rowNext n)),
                  list ((sortNat acc.links).map fun n => list (rowNext n)),
                  list ((sortNat acc.evts).map fun n => list (rowNextEvt n)),
                  list ((varWalk c cb).map fun r => list [str r.1, match r.2 with | some t => str t | none => sym "none"]),
                  -- FLAT: last element = canonical dump of the flat population model, or (not-compared)
                  Pyx.Driver.C06Flat.dump { cc with selfKl := c.selfKl, enums := c.enums } cb])
    | _, _ => some (list [sym "error", sym "undecodable"])
  | [sym "c06-schema"] =>
    -- what the GENERATED schema table demands of an instance of each created class, and of each supertype
    let ends (xs : List (Nat × String)) : Sexp := list (xs.map fun l => list [int l.1, str l.2])
    some (list [
      list (createdClasses.map fun cls =>
        list [str cls, ends (required cls), ends (singleEnds cls),
              list ((identifiers cls).map fun ks => list (ks.map str))]),
      list ((supertypes.filter fun s => createdClasses.contains s.1).map fun s =>
        list [str s.1, int s.2.1, list (s.2.2.map str)])])
  | [sym "c06-recipes"] =>
    some (list (recipes.map fun r =>
      list [str r.cls, list (r.links.map fun l => list [int l.1, str l.2]), str r.name]))
  | _ => none

end Pyx.Driver.C06
