import PyxModel.Sexp
import PyxModel.Load

/-! s-expression codec for the statement-level loader model (shared by Driver/C03 and Driver/C18)

    types   boolean integer real string unique_id, or the spelled name as a string ("Unique_Id")
    values  (i 5) (s "x") (b T) (u 7) (r 1500000) none
    stmts   (cls "K" (("a" integer) …))
            (assoc "R1" "A" T F ("k" …) "phrase" "B" F T ("id" …) "phrase")      booleans: many, conditional
            (uniq "K" "I1" ("a" …))
            (insert "K" none (val …))   (insert "K" ("n" …) (val …))
-/
namespace Pyx.Driver.LoadCodec
open Pyx Pyx.Sexp Pyx.Load

def decTy : Sexp → Option Ty
  | sym "boolean" => some .boolean
  | sym "integer" => some .integer
  | sym "real" => some .real
  | sym "string" => some .string
  | sym "unique_id" => some .uniqueId
  | str s => Ty.ofName s           -- the type name as spelled in the statement, any letter case
  | _ => none

def encTy : Ty → Sexp
  | .boolean => sym "boolean"
  | .integer => sym "integer"
  | .real => sym "real"
  | .string => sym "string"
  | .uniqueId => sym "unique_id"

def decBool : Sexp → Option Bool
  | sym "T" => some true
  | sym "F" => some false
  | _ => none

def decVal : Sexp → Option Val
  | list [sym "i", int i] => some (.int i)
  | list [sym "s", str s] => some (.str s)
  | list [sym "b", b] => (decBool b).map .bool
  | list [sym "u", int i] => if i ≥ 0 then some (.id i.toNat) else none
  | list [sym "r", int i] => some (.real i)
  | sym "none" => some .none
  | _ => none

def encVal : Val → Sexp
  | .int i => list [sym "i", int i]
  | .str s => list [sym "s", str s]
  | .bool b => list [sym "b", ofBool b]
  | .id n => list [sym "u", int n]
  | .real i => list [sym "r", int i]
  | .none => sym "none"

def decStr : Sexp → Option String
  | str s => some s
  | _ => none

def decStrs : Sexp → Option (List String)
  | list xs => xs.mapM decStr
  | _ => none

def encStrs (xs : List String) : Sexp := list (xs.map str)

def decAttr : Sexp → Option (String × Ty)
  | list [str n, t] => (decTy t).map (fun ty => (n, ty))
  | _ => none

def decAttrs : Sexp → Option (List (String × Ty))
  | list xs => xs.mapM decAttr
  | _ => none

def decVals : Sexp → Option (List Val)
  | list xs => xs.mapM decVal
  | _ => none

def decStmt : Sexp → Option Stmt
  | list [sym "cls", str k, as] => (decAttrs as).map (Stmt.cls k)
  | list [sym "assoc", str rel, str sk, sm, sc, sks, str sp, str tk, tm, tc, tks, str tp] => do
    let sm ← decBool sm
    let sc ← decBool sc
    let sks ← decStrs sks
    let tm ← decBool tm
    let tc ← decBool tc
    let tks ← decStrs tks
    pure (Stmt.assoc ⟨rel, sk, sm, sc, sks, sp, tk, tm, tc, tks, tp⟩)
  | list [sym "uniq", str k, str n, as] => (decStrs as).map (Stmt.uniq k n)
  | list [sym "insert", str k, sym "none", vs] => (decVals vs).map (Stmt.insert k none)
  | list [sym "insert", str k, ns, vs] => do
    let ns ← decStrs ns
    let vs ← decVals vs
    pure (Stmt.insert k (some ns) vs)
  | _ => none

def decStmts : Sexp → Option (List Stmt)
  | list xs => xs.mapM decStmt
  | _ => none

def encRow (r : Row) : Sexp := list (r.map (fun p => list [str p.1, encVal p.2]))

def encCls (m : Model) (c : Cls) : Sexp :=
  list [str c.kind,
        list (c.attrs.map (fun p => list [str p.1, encTy p.2])),
        list (c.indices.map (fun p => list [str p.1, encStrs p.2])),
        list ((strippedRows m c).map encRow)]

def encClasses (m : Model) : Sexp := list (m.classes.map (encCls m))

def encLinks (m : Model) (a : AssocStmt) (L : Links) : Sexp :=
  let nS := (rowsOf m.classes a.srcKind).length
  let nT := (rowsOf m.classes a.tgtKind).length
  list [str a.rel,
        list ((List.range nS).map (fun i => ofNats (L.tgt i))),
        list ((List.range nT).map (fun j => ofNats (L.src j)))]

def encAssocs (m : Model) : Sexp := list (m.assocs.map (fun p => encLinks m p.1 p.2))

end Pyx.Driver.LoadCodec
