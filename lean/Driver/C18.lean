import PyxModel.Sexp
import PyxModel.Load
import PyxModel.LoadHeap
import PyxModel.LoadSharing
import Driver.LoadCodec
import Gen.Sharing

/-! driver commands of property C18

    (c18 op…)   op ::= (input stmt…) | (build) | (mut k m) | (clone k j "K" id)
                m  ::= (append-attr "K" "n" ty) | (insert-attr "K" pos "n" ty) | (delete-attr "K" "n")
                     | (define-unique "K" "I" ("a"…)) | (new "K") | (new-args "K" (val…)) | (delete "K" id)
                     | (set-attr "K" id "a" val)
                     | (relate n s t) | (unrelate n s t)
    answer: per step (result dump…) — the result of the step and the dump of every metamodel built so far.
    The sharing parameters of the heap model are read from the generated table Gen/Sharing.lean.
-/
namespace Pyx.Driver.C18
open Pyx Pyx.Sexp Pyx.Load Pyx.Heap Pyx.Driver.LoadCodec

def decMut : Sexp → Option Mut
  | list [sym "append-attr", str k, str n, ty] => (decTy ty).map (Mut.appendAttr k n)
  | list [sym "insert-attr", str k, int p, str n, ty] => (decTy ty).map (Mut.insertAttr k p.toNat n)
  | list [sym "delete-attr", str k, str n] => some (.deleteAttr k n)
  | list [sym "define-unique", str k, str n, as] => (decStrs as).map (Mut.defineUnique k n)
  | list [sym "new", str k] => some (.new k)
  | list [sym "new-args", str k, vs] => (decVals vs).map (Mut.newArgs k)
  | list [sym "delete", str k, int i] => some (.delete k i.toNat)
  | list [sym "set-attr", str k, int i, str a, v] => (decVal v).map (Mut.setAttr k i.toNat a)
  | list [sym "relate", int n, int s, int t] => some (.relate n.toNat s.toNat t.toNat)
  | list [sym "unrelate", int n, int s, int t] => some (.unrelate n.toNat s.toNat t.toNat)
  | _ => none

def decOp : Sexp → Option OpC
  | list (sym "input" :: ss) => (ss.mapM decStmt).map (fun x => OpC.op (Op.input x))
  | list [sym "build"] => some (.op .build)
  -- an `input` call that raised ParsingException: no statement was accepted
  | list [sym "rejected"] => some (.op (Op.input []))
  | list [sym "mut", int k, m] => (decMut m).map (fun μ => OpC.op (Op.mutate k.toNat μ))
  | list [sym "clone", int k, int j, str kind, int id] => some (.cloneInto k.toNat j.toNat kind id.toNat)
  | _ => none

def encRes : Res → Sexp
  | .ok => sym "ok"
  | .deleteError => sym "DeleteException"
  | .relateError => sym "RelateException"
  | .unrelateError => sym "UnrelateException"
  | .unknownClass => sym "UnknownClassException"
  | .metaError => sym "no-assoc"
  | .unknownLink => sym "UnknownLinkException"
  | .unmodelled => sym "unmodelled"

def rowsOfKind (o : Obs) (kind : String) : List (Nat × Row) :=
  match o.classes.find? (fun c => c.kind = kind) with
  | some c => c.rows
  | none => []

def encObs (o : Obs) : Sexp :=
  list [list (o.classes.map (fun c =>
          list [str c.kind,
                list (c.attrs.map (fun p => list [str p.1, encTy p.2])),
                list (c.indices.map (fun p => list [str p.1, encStrs p.2])),
                list (c.rows.map (fun r => list [ofNat r.1,
                  encRow (r.2.filter (fun p => (c.attrs.map (·.1)).contains p.1))]))])),
        list (o.assocs.map (fun a =>
          list [str a.stmt.rel, encStrs a.srcKeys, encStrs a.tgtKeys,
                list ((rowsOfKind o a.stmt.srcKind).map (fun r => list [ofNat r.1, ofNats (a.links.tgt r.1)])),
                list ((rowsOfKind o a.stmt.tgtKind).map (fun r => list [ofNat r.1, ofNats (a.links.src r.1)]))])),
        ofNat o.idNext]

def encWorld (w : World) : List Sexp :=
  (List.range w.metas.length).map (fun k => match observe w k with
    | some o => encObs o
    | none => sym "failed")

/-- the mutation addresses an instance (by creation index) that was never created in the metamodel: the harness
    has no object to hand to the library ("nothing to call": its answer is `no-such-instance`, the metamodel stays as
    it is), while `applyOwn` is total on indices (delete: `deleteError`, set-attr: no row changes, relate / unrelate:
    refused).  The driver answers as the harness does; the model's state is unchanged in all four cases.  (A generated
    history reaches this only when it counts on a clone whose source metamodel failed to build.) -/
def neverCreated (o : HMeta) (kind : String) (id : Nat) : Bool :=
  match findHCls o.classes kind with
  | some c => decide (c.created ≤ id)
  | none => false

def addressesMissing (o : HMeta) : Mut → Bool
  | .delete k i => neverCreated o k i
  | .setAttr k i _ _ => neverCreated o k i
  | .relate n s t => match o.assocs[n]? with
    | some a => neverCreated o a.stmt.srcKind s || neverCreated o a.stmt.tgtKind t
    | none => false
  | .unrelate n s t => match o.assocs[n]? with
    | some a => neverCreated o a.stmt.srcKind s || neverCreated o a.stmt.tgtKind t
    | none => false
  | _ => false

def stepRes (sh : Sharing) (w : World) : Op → Sexp
  | .input _ => sym "ok"
  | .build => match hbuild sh w.stmts with
    | some _ => sym "ok"
    | none => sym "error"
  | .mutate k μ => match w.metas[k]? with
    | some (some o) =>
      if addressesMissing o μ then sym "no-such-instance" else encRes (applyMut w.stmts o μ).2.2
    | _ => sym "no-target"

def live (w : World) (k : Nat) : Bool :=
  match w.metas[k]? with
  | some (some _) => true
  | _ => false

def stepResC (sh : Sharing) (w : World) : OpC → Sexp
  | .op o => stepRes sh w o
  | .cloneInto k j kind id =>
    if !live w k then sym "no-target"
    else if !live w j then sym "no-source"
    else match resolveOp w (.cloneInto k j kind id) with
      | .mutate k' μ => stepRes sh w (.mutate k' μ)
      | _ => sym "unmodelled"

def runAll (sh : Sharing) : World → List OpC → List Sexp
  | _, [] => []
  | w, op :: rest =>
    let w' := stepC sh w op
    list (stepResC sh w op :: encWorld w') :: runAll sh w' rest

def handle : List Sexp → Option Sexp
  | sym "c18" :: ops =>
    match ops.mapM decOp with
    | some ops => some (list (runAll genSharing World.init ops))
    | none => some (sym "bad-ops")
  | _ => none

end Pyx.Driver.C18
