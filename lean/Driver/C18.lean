import PyxModel.Sexp

/-! driver commands of property C18 (stub: no command yet) -/
namespace Pyx.Driver.C18
open Pyx Pyx.Sexp

def handle : List Sexp → Option Sexp
  | _ => none

end Pyx.Driver.C18
