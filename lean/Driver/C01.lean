import PyxModel.Sexp
import PyxModel.Sql.Wire
import PyxModel.Sql.Links

/-! driver for `(c01 <mm> "extra text" …)`:
    answer `((texts t1 … t8) (loads L1 … L8 Lextra …) (links Lm Lr) (round2 text₂ itext₂) (tokens T1 T5))` — the eight writer routes of xtuml/persist.py on the
    model, and for each of those texts and each extra text what the loader makes of it:
    `(accepted (stmt …) <built model | parsing | meta>)` or `(parsing)`. -/
namespace Pyx.Driver.C01
open Pyx Pyx.Sexp Pyx.Sql Pyx.Sql.Wire

def u0 : UC := UC.ascii

def routes (m : MM) : List (List Item) :=
  [m.serializeDatabase u0, m.serializeSchema u0, m.serializeInstances, m.serializeUniqueIdentifiers u0,
   m.persistDatabase u0, m.persistSchema u0, m.persistInstances, m.persistUniqueIdentifiers]

def loadSexp (t : Text) : Sexp :=
  match classify u0 t with
  | .parsing => list [sym "parsing"]
  | .accepted stmts => list [sym "accepted", list (stmts.map stmtSexp), buildSexp u0 (build u0 stmts)]

def pairsSexp (ps : List (Nat × Nat)) : Sexp := list (ps.map fun p => list [ofNat p.1, ofNat p.2])

/-- per association (in the order of the metamodel's association list) the link pairs its keys denote -/
def linksSexp (m : MM) : Sexp := list ((linksOf u0 m).map fun x => pairsSexp x.2)

/-- the links of the metamodel built from the `serialize_database` text -/
def reloadedLinks (m : MM) : Sexp :=
  match printItems u0 (m.serializeDatabase u0) with
  | none => sym "none"
  | some t =>
    match classify u0 t with
    | .parsing => sym "none"
    | .accepted stmts =>
      match build u0 stmts with
      | .ok bs => linksSexp (bs.toMM u0)
      | .error _ => sym "none"

/-- the metamodel built from a text, as the writers see it -/
def rebuilt (t : Option Text) : Option MM :=
  match t with
  | none => none
  | some t =>
    match classify u0 t with
    | .parsing => none
    | .accepted stmts =>
      match build u0 stmts with
      | .ok bs => some (bs.toMM u0)
      | .error _ => none

/-- second round: the `serialize_database` text of the metamodel rebuilt from the `serialize_database` text, and the
    `serialize_instances` text of the metamodel rebuilt from the instance text alone -/
def round2 (m : MM) : Sexp :=
  let r1 := rebuilt (printItems u0 (m.serializeDatabase u0))
  let r2 := rebuilt (printItems u0 m.serializeInstances)
  list [sym "round2",
        optText (r1.bind fun r => printItems u0 (r.serializeDatabase u0)),
        optText (r2.bind fun r => printItems u0 r.serializeInstances)]

def run (m : MM) (extra : List Text) : Sexp :=
  let texts := (routes m).map (printItems u0)
  let loads := texts.map (fun t => match t with | some t => loadSexp t | none => sym "error") ++ extra.map loadSexp
  -- the token streams (hand scanners, regex engine on the generated parse trees) of the two database texts
  let toks := [texts[0]?, texts[4]?].map fun t => match t with
    | some (some t) => lexBoth u0 t
    | _ => sym "error"
  list [list (sym "texts" :: texts.map optText), list (sym "loads" :: loads),
        list [sym "links", linksSexp m, reloadedLinks m], round2 m, list (sym "tokens" :: toks)]

def handle : List Sexp → Option Sexp
  | sym "c01" :: m :: extra =>
    match mmOf m with
    | some mm => some (run mm (asTexts extra))
    | none => some (list [sym "error", sym "bad-mm"])
  | _ => none

end Pyx.Driver.C01
