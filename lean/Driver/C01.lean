import PyxModel.Sexp

/-! driver commands of property C01 (stub: no command yet) -/
namespace Pyx.Driver.C01
open Pyx Pyx.Sexp

def handle : List Sexp → Option Sexp
  | _ => none

end Pyx.Driver.C01
