import PyxModel.Sexp

/-! driver commands of property C11 (stub: no command yet) -/
namespace Pyx.Driver.C11
open Pyx Pyx.Sexp

def handle : List Sexp → Option Sexp
  | _ => none

end Pyx.Driver.C11
