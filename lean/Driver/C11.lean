import PyxModel.Sexp
import PyxModel.Check
import Driver.C02

/-!
  driver command of property C11 (explicit state):
  (check <schema> (kinds k…per instance index) (pools (idx…)…per class)
         (links ((src entries) (tgt entries))…per association)   -- entry = (x partner…)
         (attrs (inst ("name" v|none)…)…)
         (classes ((attrs ("name" T|F)…) (idents ("I1" ("a" "b"))…) (identifying "a" …))…)
         (queries (assoc none|"R1") (uniq none|k) (subtype k "R4") (consistent) (main ("R1"…) (k…)) …))
-/
namespace Pyx.Driver.C11
open Pyx Pyx.Sexp Pyx.Meta Pyx.Check Pyx.Driver.C02

def entriesToMap (x : Sexp) : Inst → List Inst :=
  match x with
  | list es =>
    let tbl := es.filterMap fun e =>
      match e with
      | list (int k :: ps) => some (k.toNat, ps.filterMap asNat?)
      | _ => none
    fun z => (tbl.lookup z).getD []
  | _ => fun _ => []

def decodeLinks (x : Sexp) : Nat → ALinks :=
  match x with
  | list (sym "links" :: ls) =>
    let arr := ls.map fun l =>
      match l with
      | list [s, t] => ({ src := entriesToMap s, tgt := entriesToMap t } : ALinks)
      | _ => emptyLinks
    fun i => arr.getD i emptyLinks
  | _ => fun _ => emptyLinks

def decodeVal (x : Sexp) : Inst → String → Option Int :=
  match x with
  | list (sym "attrs" :: es) =>
    let tbl := es.filterMap fun e =>
      match e with
      | list (int i :: ps) => some (i.toNat, ps.filterMap fun p =>
          match p with
          | list [a, int v] => (asStr? a).map fun a => (a, some v)
          | list [a, sym "none"] => (asStr? a).map fun a => (a, none)
          | _ => none)
      | _ => none
    fun i name => ((tbl.lookup i).bind (fun ps => ps.lookup name)).getD none
  | _ => fun _ _ => none

def decodeClass : Sexp → ClassInfo
  | list [list (sym "attrs" :: as), list (sym "idents" :: ids), list (sym "identifying" :: idn)] =>
    { attrs := as.filterMap fun a => match a with
        | list [n, b] => (asStr? n).map fun n => (n, (asBool? b).getD false)
        | _ => none,
      idents := ids.filterMap fun d => match d with
        | list [n, list xs] => (asStr? n).map fun n => (n, xs.filterMap asStr?)
        | _ => none,
      identifying := idn.filterMap asStr? }
  | _ => { attrs := [], idents := [], identifying := [] }

def runQ (w : World) : Sexp → Sexp
  | list [sym "assoc", sym "none"] => ofNat (checkAssoc w none)
  | list [sym "assoc", r] => ofNat (checkAssoc w (asStr? r))
  | list [sym "uniq", sym "none"] => ofNat (checkUniq w none)
  | list [sym "uniq", int k] => ofNat (checkUniq w (some k.toNat))
  | list [sym "subtype", int k, r] => ofNat (checkSubtype w k.toNat ((asStr? r).getD ""))
  | list [sym "consistent"] => ofBool (isConsistent w)
  | list [sym "main", list rs, list ks] =>
    list [ofNat (mainErrors w (rs.filterMap asStr?) (ks.filterMap asNat?)),
          ofNat (exitStatus w (rs.filterMap asStr?) (ks.filterMap asNat?))]
  | _ => sym "bad-query"

def handle : List Sexp → Option Sexp
  | [sym "check", sch, list (sym "kinds" :: ks), list (sym "pools" :: ps), links, attrs,
     list (sym "classes" :: cs), list (sym "queries" :: qs)] =>
    match decodeSchema sch with
    | some sc =>
      let kinds := ks.filterMap asNat?
      let pools := ps.map fun p => match p with | list xs => xs.filterMap asNat? | _ => []
      let w : World := { sch := sc.assocs, classes := cs.map decodeClass, pool := fun k => pools.getD k [],
                         links := decodeLinks links, val := decodeVal attrs,
                         kindOf := fun x => kinds.getD x 0, count := kinds.length }
      some (list (qs.map (runQ w)))
    | none => some (sym "bad-schema")
  | _ => none

end Pyx.Driver.C11
