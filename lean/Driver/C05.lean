import PyxModel.Sexp
import PyxModel.Prebuild.Decode
import PyxModel.Prebuild.Parse
import PyxModel.Prebuild.Supported
import PyxModel.Prebuild.Lexical

/-! driver commands of property C05:
      (c05 (<ee key letters>) (<class key letters>)) <BodyNode tree>)
    answer: ((tokens of genTokens (canon tree)) <parseGen of those tokens, as a tree | none> <canon tree>
             <T|F: the normal form lies in the statement set the theorems cover AND satisfies the lexical side conditions>) -/
namespace Pyx.Driver.C05
open Pyx Pyx.Sexp Pyx.Prebuild

def handle : List Sexp → Option Sexp
  | [sym "c05", ctx, body] =>
    match decCtx ctx, decBody body with
    | some c, some b =>
      let cb := canon c b
      let ts := genTokens cb
      let back := match parseGen c ts with
        | some b' => encBody b'
        | none => sym "none"
      some (list [list (ts.map encTok), back, encBody cb, ofBool (supported c cb && lexical cb)])
    | _, _ => some (list [sym "error", sym "undecodable"])
  | _ => none

end Pyx.Driver.C05
