import PyxModel.Sexp

/-! driver commands of property C05 (stub: no command yet) -/
namespace Pyx.Driver.C05
open Pyx Pyx.Sexp

def handle : List Sexp → Option Sexp
  | _ => none

end Pyx.Driver.C05
