import PyxModel.Sexp
import PyxModel.Extract.XsdWire

/-! driver commands of property C20

    (c20 <diagram> "component name" (<xedit>…))
        -> (ok <xsd d comp> <xsd (applyXEdits es d) comp> <render (specEdits (xresolveAll d comp es) (xsdSpec d comp))>)
         | (error no-component)
    (c20-session <diagram> (("component name" (<xedit>…))…))
        -> ((ok <xsd>) | (error no-component) …)   one answer per step: the schema of the component generated from
           `applyXEdits es d` (nothing that happened before matters)
    (c20-text <diagram> "component name")  -> (ok "<the text of the written file>") | (error no-component)
-/
namespace Pyx.Driver.C20
open Pyx Pyx.Sexp Pyx.Extract Pyx.Extract.Wire

def handle : List Sexp → Option Sexp
  | [sym "c20", d, str name, es] =>
    some (match dDiagram d, dList dXEdit es with
      | some d, some es =>
        match d.containers.find? (fun k => k.isComp && k.name == name) with
        | some k =>
          list [sym "ok", eXml (xsd d k.id), eXml (xsd (applyXEdits es d) k.id),
                eXml (render (specEdits (xresolveAll d k.id es) (xsdSpec d k.id)))]
        | none => list [sym "error", sym "no-component"]
      | _, _ => list [sym "error", sym "bad-command"])
  | [sym "c20-session", d, steps] =>
    some (match dDiagram d, steps with
      | some d, list steps =>
        list (steps.map (fun st =>
          match st with
          | list [str name, es] =>
            match dList dXEdit es with
            | some es =>
              let d' := applyXEdits es d
              match d'.containers.find? (fun k => k.isComp && k.name == name) with
              | some k => list [sym "ok", eXml (xsd d' k.id)]
              | none => list [sym "error", sym "no-component"]
            | none => list [sym "error", sym "bad-command"]
          | _ => list [sym "error", sym "bad-command"]))
      | _, _ => list [sym "error", sym "bad-command"])
  | [sym "c20-text", d, str name] =>
    some (match dDiagram d with
      | some d =>
        match xsdByName d name with
        | some t => list [sym "ok", str (String.ofList (fileText t))]
        | none => list [sym "error", sym "no-component"]
      | none => list [sym "error", sym "bad-command"])
  | _ => none

end Pyx.Driver.C20
