import PyxModel.Sexp

/-! driver commands of property C20 (stub: no command yet) -/
namespace Pyx.Driver.C20
open Pyx Pyx.Sexp

def handle : List Sexp → Option Sexp
  | _ => none

end Pyx.Driver.C20
