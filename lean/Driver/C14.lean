import PyxModel.Sexp

/-! driver commands of property C14 (stub: no command yet) -/
namespace Pyx.Driver.C14
open Pyx Pyx.Sexp

def handle : List Sexp → Option Sexp
  | _ => none

end Pyx.Driver.C14
