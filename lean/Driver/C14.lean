import PyxModel.Sexp
import PyxModel.Extract.Wire
import PyxModel.Extract.ToSql
import PyxModel.Extract.Rows

/-! driver commands of property C14

    (c14 <diagram> <name|none> <T|F>)                 -> (ok <schema>) | (error OoaOfOoaException)
    (c14-sql <diagram> <name|none> <T|F>)             -> (ok "<text written by gen_sql_schema.main>") | (error …)
    (c14-edit <diagram> <name|none> <T|F> (<edit>…))  -> (ok <extract d> <extract (applyEdits es d)>
                                                             <schemaEdits (resolveAll d es) (extract d)>)
                                                        | (error MetaModelException | AttributeError)   buildOutcome d
                                                        | (ok-error <extract d> MetaModelException)
                                                                                buildOutcome (applyEdits es d)
    (c14-session <diagram> ((<name|none> <T|F> (<edit>…))…))
                                                      -> ((ok <schema>) | (error …) …)   one answer per step: the build of
                                                         component <name> from `applyEdits es d` (a build depends on the
                                                         population it is given and on nothing that happened before)
    (c14-rows <diagram> <name|none> <T|F>)            -> (ok <schema>) | (error MetaModelException | AttributeError |
                                                          TypeError | OoaOfOoaException)      buildAll d
-/
namespace Pyx.Driver.C14
open Pyx Pyx.Sexp Pyx.Extract Pyx.Extract.Wire

def bad : Sexp := list [sym "error", sym "bad-command"]

def handle : List Sexp → Option Sexp
  | [sym "c14", d, n, v] =>
    some (match dDiagram d, dName n, dBool v with
      | some d, some n, some v =>
        match extractByName d n v with
        | some s => list [sym "ok", eSchema s]
        | none => list [sym "error", sym "OoaOfOoaException"]
      | _, _, _ => bad)
  | [sym "c14-edit", d, n, v, es] =>
    some (match dDiagram d, dName n, dBool v, dList dEdit es with
      | some d, some n, some v, some es =>
        match selectComp d.containers n with
        | some comp =>
          match buildOutcome d comp v, buildOutcome (applyEdits es d) comp v with
          | .metaModelException, _ => list [sym "error", sym "MetaModelException"]
          | .attributeError, _ => list [sym "error", sym "AttributeError"]
          | .ok s0, .metaModelException => list [sym "ok-error", eSchema s0, sym "MetaModelException"]
          | .ok s0, .attributeError => list [sym "ok-error", eSchema s0, sym "AttributeError"]
          | .ok s0, .ok s1 => list [sym "ok", eSchema s0, eSchema s1, eSchema (schemaEdits (resolveAll d comp v es) s0)]
        | none => list [sym "error", sym "OoaOfOoaException"]
      | _, _, _, _ => bad)
  | [sym "c14-session", d, steps] =>
    some (match dDiagram d, steps with
      | some d, list steps =>
        list (steps.map (fun st =>
          match st with
          | list [n, v, es] =>
            match dName n, dBool v, dList dEdit es with
            | some n, some v, some es =>
              let d' := applyEdits es d
              match selectComp d'.containers n with
              | some comp =>
                match buildOutcome d' comp v with
                | .ok s => list [sym "ok", eSchema s]
                | .metaModelException => list [sym "error", sym "MetaModelException"]
                | .attributeError => list [sym "error", sym "AttributeError"]
              | none => list [sym "error", sym "OoaOfOoaException"]
            | _, _, _ => bad
          | _ => bad))
      | _, _ => bad)
  | [sym "c14-rows", d, n, v] =>
    -- `mk_component` over the relationships of the diagram AND the relationships given row by row
    some (match dDiagram d, dName n, dBool v with
      | some d, some n, some v =>
        match selectComp d.containers n with
        | some comp =>
          match buildAll d comp v with
          | .ok s => list [sym "ok", eSchema s]
          | .metaModelException => list [sym "error", sym "MetaModelException"]
          | .attributeError => list [sym "error", sym "AttributeError"]
          | .typeError => list [sym "error", sym "TypeError"]
        | none => list [sym "error", sym "OoaOfOoaException"]
      | _, _, _ => bad)
  | [sym "c14-sql", d, n, v] =>
    -- the text `gen_sql_schema.main` writes: `persist_database` of the built component (ASCII names)
    some (match dDiagram d, dName n, dBool v with
      | some d, some n, some v =>
        match selectComp d.containers n with
        | some comp =>
          match buildOutcome d comp v with
          | .ok s =>
            match Pyx.Sql.printItems Pyx.Sql.UC.ascii (s.toMM.persistDatabase Pyx.Sql.UC.ascii) with
            | some text => list [sym "ok", str (String.ofList text)]
            | none => list [sym "error", sym "unprintable"]
          | .attributeError => list [sym "error", sym "AttributeError"]
          | .metaModelException => list [sym "error", sym "MetaModelException"]
        | none => list [sym "error", sym "OoaOfOoaException"]
      | _, _, _ => bad)
  | _ => none

end Pyx.Driver.C14
