import PyxModel.Sexp
import PyxModel.Meta
import Proofs.MetaState

/-!
  driver commands of property C02 (also used by C09/C11/C16 through `decodeSchema`/`runOps`):

  (meta (schema (ids "Id" none …)                                   -- own id attribute name per class index
                (assoc "R1" srcKind ("k"…) srcMany srcCond "srcPhrase" tgtKind ("k"…) tgtMany tgtCond "tgtPhrase") …)
        (refattrs (kind "attr") …)                                  -- referential attributes to read after each step
        (ops (new k) (relate x y "R1" "phrase") (unrelate x y "R1" "") (delete x) …))
  answer: one entry per op:
    (outcome (pool…per class) ((assoc-src-entries) (assoc-tgt-entries))…per association (refvalues…))
-/
namespace Pyx.Driver.C02
open Pyx Pyx.Sexp Pyx.Meta

def asBool? : Sexp → Option Bool
  | sym "T" => some true
  | sym "F" => some false
  | _ => none

def strs (x : Sexp) : List String :=
  match x with
  | list xs => xs.filterMap asStr?
  | _ => []

def decodeAssoc : Sexp → Option AssocSpec
  | list [sym "assoc", rel, sk, skeys, sm, sc, sp, tk, tkeys, tm, tc, tp] => do
    let rel ← asStr? rel
    let sk ← asNat? sk
    let sm ← asBool? sm
    let sc ← asBool? sc
    let sp ← asStr? sp
    let tk ← asNat? tk
    let tm ← asBool? tm
    let tc ← asBool? tc
    let tp ← asStr? tp
    pure { rel := rel, srcKind := sk, srcKeys := strs skeys, srcMany := sm, srcCond := sc, srcPhrase := sp,
           tgtKind := tk, tgtKeys := strs tkeys, tgtMany := tm, tgtCond := tc, tgtPhrase := tp }
  | _ => none

structure Sch where
  ids : List (Option String)
  assocs : Schema

def decodeSchema : Sexp → Option Sch
  | list (sym "schema" :: list (sym "ids" :: ids) :: assocs) =>
    some { ids := ids.map (fun x => match x with | str s => some s | _ => none),
           assocs := assocs.filterMap decodeAssoc }
  | _ => none

def Sch.attrs (sc : Sch) : Attrs := { idName := fun k => (sc.ids.getD k none) }
def Sch.hasId (sc : Sch) (k : Kind) : Bool := (sc.ids.getD k none).isSome

def decodeOp (sc : Sch) : Sexp → Option Op
  | list [sym "new", int k] => some (.new k.toNat (sc.hasId k.toNat))
  | list [sym "relate", int x, int y, rel, ph] => do
    pure (.relate x.toNat y.toNat (← asStr? rel) (← asStr? ph))
  | list [sym "unrelate", int x, int y, rel, ph] => do
    pure (.unrelate x.toNat y.toNat (← asStr? rel) (← asStr? ph))
  | list [sym "delete", int x] => some (.delete x.toNat)
  | _ => none

def outSexp : Out → Sexp
  | .ok => sym "ok"
  | .relateExc => sym "RelateException"
  | .unrelateExc => sym "UnrelateException"
  | .unknownLink => sym "UnknownLinkException"
  | .deleteExc => sym "DeleteException"

def entries (n : Nat) (m : Inst → List Inst) : Sexp :=
  list ((List.range n).filterMap fun x => if m x = [] then none else some (ofNats (x :: m x)))

def optNat : Option Nat → Sexp
  | some n => int n
  | none => sym "none"

def observe (sc : Sch) (refattrs : List (Kind × String)) (s : State) : List Sexp :=
  let nk := sc.ids.length
  let pools := list ((List.range nk).map fun k => ofNats (s.pool k))
  let links := list ((List.range sc.assocs.length).map fun i =>
    list [entries s.count (s.links i).src, entries s.count (s.links i).tgt])
  let refs := list (refattrs.map fun (k, a) =>
    list ((s.pool k).map fun x => optNat (getAttr sc.assocs sc.attrs s (driverFuel sc.assocs s) x a)))
  [pools, links, refs]

def runOps (sc : Sch) (refattrs : List (Kind × String)) (ops : List Sexp) : Sexp :=
  let (_, outs) := ops.foldl (fun (acc : State × List Sexp) o =>
    match decodeOp sc o with
    | none => (acc.1, sym "bad-op" :: acc.2)
    | some op =>
      let r := step sc.assocs acc.1 op
      (r.1, list (outSexp r.2 :: observe sc refattrs r.1) :: acc.2)) (init, [])
  list outs.reverse

def decodeRefattrs : Sexp → List (Kind × String)
  | list (sym "refattrs" :: xs) => xs.filterMap fun x =>
    match x with
    | list [int k, a] => (asStr? a).map fun a => (k.toNat, a)
    | _ => none
  | _ => []

def handle : List Sexp → Option Sexp
  | [sym "meta", sch, refs, list (sym "ops" :: ops)] =>
    match decodeSchema sch with
    | some sc => some (runOps sc (decodeRefattrs refs) ops)
    | none => some (sym "bad-schema")
  | _ => none

end Pyx.Driver.C02
