import PyxModel.Sexp

/-! driver commands of property C02 (stub: no command yet) -/
namespace Pyx.Driver.C02
open Pyx Pyx.Sexp

def handle : List Sexp → Option Sexp
  | _ => none

end Pyx.Driver.C02
