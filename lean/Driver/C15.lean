import PyxModel.Sexp

/-! driver commands of property C15 (stub: no command yet) -/
namespace Pyx.Driver.C15
open Pyx Pyx.Sexp

def handle : List Sexp → Option Sexp
  | _ => none

end Pyx.Driver.C15
