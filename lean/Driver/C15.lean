import PyxModel.Sexp
import PyxModel.Interp.Decode
import PyxModel.Interp.Model

/-! driver commands of property C15:
    `(calls <fuel> <ctx> (enums (NAME (id "enumerator" prev)…)…) (consts (NAME TYPE "text")…) <state> <entry>…)`
    with entries `(fn NAME kwargs)`, `(brg EE NAME kwargs)`, `(cop CLS NAME kwargs)`, `(iop (i CLS idx) NAME kwargs)`,
    `(dattr (i CLS idx) NAME)`, `(set (i CLS idx) ATTR value)` (an attribute written from Python), `(relate (i…) (i…) REL PHRASE)` / `(unrelate …)`
    (xtuml.relate / xtuml.unrelate called from Python), `(enum NAME ENUMERATOR)`, `(const NAME)` — the invocations the harness makes from
    Python, in order, on one evolving population.
    → `(ok (<value>…) <state>)`, `(error "…")` or `(timeout)`.
    Enumerations are given as their S_ENUM rows in ROW order and numbered by the model of `mk_enum`; constants as
    their CNST rows in row order, converted by the model of `mk_constant`. -/
namespace Pyx.Driver.C15
open Pyx Pyx.Sexp Pyx.Interp

def decodeEnum : Sexp → Option EnumDecl
  | .list (.str n :: rows) => do
    let rs ← rows.mapM (fun r => match r with
      | .list [.int i, .str nm, .int p] => some (⟨i.toNat, nm, p.toNat⟩ : EnumRow)
      | _ => none)
    pure ⟨n, enumOrder rs⟩
  | _ => none

def decodeConst : Sexp → Option ConstRow
  | .list [.str n, .str ty, .str text] => some ⟨n, ty, text⟩
  | _ => none

def runEntry (C : Ctx) (rec : Oracle) : Sexp → Option (M Val)
  | .list [.sym "fn", .str n, kw] => do
    let kw' ← decodeKwargs kw
    pure (match findCallable C (fun f => f.kind = .function ∧ f.name = n) with
      | some f => invoke rec .function f.body kw' .none
      | none => M.fail ("unknown function " ++ n))
  | .list [.sym "brg", .str ee, .str n, kw] => do
    let kw' ← decodeKwargs kw
    pure (match findCallable C (fun f => f.kind = .bridge ee ∧ f.name = n) with
      | some f => invoke rec .function f.body kw' .none
      | none => M.fail ("unknown bridge " ++ n))
  | .list [.sym "cop", .str c, .str n, kw] => do
    let kw' ← decodeKwargs kw
    pure (match findCallable C (fun f => f.kind = .classOp c ∧ f.name = n) with
      | some f => invoke rec .operation f.body kw' .none
      | none => M.fail ("unknown operation " ++ n))
  | .list [.sym "iop", i, .str n, kw] => do
    let kw' ← decodeKwargs kw
    let i' ← decodeInst i
    pure (match findCallable C (fun f => f.kind = .instOp i'.cls ∧ f.name = n) with
      | some f => invoke rec .operation f.body kw' (.inst i')
      | none => M.fail ("unknown operation " ++ n))
  | .list [.sym "dattr", i, .str n] => do
    let i' ← decodeInst i
    pure (readField C rec i' n)
  | .list [.sym "set", i, .str a, v] => do
    let i' ← decodeInst i
    let v' ← decodeVal v
    pure (do M.modifySt (setAttr C i' a v'); pure Val.none)
  | .list [.sym "relate", x, y, .str rel, .str ph] => do
    let x' ← decodeInst x
    let y' ← decodeInst y
    pure (do M.modifySt (relate C x' y' rel ph); pure Val.none)
  | .list [.sym "unrelate", x, y, .str rel, .str ph] => do
    let x' ← decodeInst x
    let y' ← decodeInst y
    pure (do M.modifySt (unrelate C x' y' rel ph); pure Val.none)
  | .list [.sym "enum", .str ns, .str n] => some (evalStep C rec (.enumOrConst ns n))
  | .list [.sym "const", .str n] => some (lookupVar C n)
  | _ => none

def runEntries (C : Ctx) (rec : Oracle) : List Sexp → Cfg → List Val → Option (Option (Except Err (List Val × State)))
  | [], c, acc => some (some (.ok (acc.reverse, c.st)))
  | e :: rest, c, acc =>
    match runEntry C rec e with
    | none => none
    | some m =>
      match m c with
      | none => some none
      | some (.error err) => some (some (.error err))
      | some (.ok (v, c')) => runEntries C rec rest c' (v :: acc)

def handle : List Sexp → Option Sexp
  | sym "calls" :: int fuel :: ctx :: list (sym "enums" :: enums) :: list (sym "consts" :: consts) :: state :: entries =>
    match decodeCtx ctx, enums.mapM decodeEnum, consts.mapM decodeConst with
    | some C0, some es, some cs =>
      let C : Ctx := { C0 with enums := es, consts := constTable cs }
      match decodeState C state with
      | none => some (list [sym "bad", str "state"])
      | some st =>
        match runEntries C (run C fuel.toNat) entries { fr := mkFrame .function [] .none, st := st } [] with
        | none => some (list [sym "bad", str "entry"])
        | some none => some (list [sym "timeout"])
        | some (some (.error e)) => some (list [sym "error", str e.msg])
        | some (some (.ok (vs, st'))) => some (list [sym "ok", list (vs.map encodeVal), encodeState C st'])
    | none, _, _ => some (list [sym "bad", str "ctx"])
    | _, none, _ => some (list [sym "bad", str "enums"])
    | _, _, none => some (list [sym "bad", str "consts"])
  | _ => none

end Pyx.Driver.C15
