import PyxModel.Sexp
import PyxModel.OSet
import PyxModel.OSetPtr

/-! driver for `(oset op…)` and `(osetp op…)` command lines (C17) -/
namespace Pyx.Driver.C17
open Pyx Pyx.Sexp

def nats (xs : List Sexp) : List Nat := xs.filterMap asNat?

def obs (l : OSet.T) : List Sexp :=
  [ofNats l, ofNats l.reverse, ofNat l.length, ofOptNat (OSet.first l), ofOptNat (OSet.last l)]

/-- one op on the abstract model: (new state, result) -/
def step (l : OSet.T) : Sexp → OSet.T × Sexp
  | list [sym "add", int k] => (OSet.add k.toNat l, sym "ok")
  | list [sym "discard", int k] => (OSet.discard k.toNat l, sym "ok")
  | list [sym "remove", int k] =>
    match OSet.remove k.toNat l with
    | some l' => (l', sym "ok")
    | none => (l, sym "KeyError")
  | list [sym "pop-last"] =>
    match OSet.popLast l with
    | some (k, l') => (l', ofNat k)
    | none => (l, sym "KeyError")
  | list [sym "pop-first"] =>
    match OSet.popFirst l with
    | some (k, l') => (l', ofNat k)
    | none => (l, sym "KeyError")
  | list [sym "clear"] => (OSet.clear l, sym "ok")
  | list (sym "ior" :: xs) => (OSet.ior l (nats xs), sym "ok")
  | list (sym "iand" :: xs) => (OSet.iand l (OSet.fromIter (nats xs)), sym "ok")
  | list (sym "isub" :: xs) => (OSet.isub l (nats xs), sym "ok")
  | list (sym "ixor" :: xs) => (OSet.ixor l (nats xs), sym "ok")
  | list [sym "isub-self"] => (OSet.clear l, sym "ok")
  | list [sym "ixor-self"] => (OSet.clear l, sym "ok")
  | list (sym "or" :: xs) => (l, ofNats (OSet.or l (OSet.fromIter (nats xs))))
  | list (sym "and" :: xs) => (l, ofNats (OSet.and l (OSet.fromIter (nats xs))))
  | list (sym "sub" :: xs) => (l, ofNats (OSet.sub l (OSet.fromIter (nats xs))))
  | list (sym "xor" :: xs) => (l, ofNats (OSet.xor l (OSet.fromIter (nats xs))))
  | list (sym "eq" :: xs) => (l, ofBool (OSet.eqIter l (nats xs)))
  | list (sym "in" :: xs) => (l, list ((nats xs).map fun k => ofBool (decide (k ∈ l))))
  | list (sym "iter-rm" :: xs) =>
    let r := OSet.iterRemove (fun k => decide (k ∈ nats xs)) l
    (r.2, ofNats r.1)
  | _ => (l, sym "bad-op")

def run (ops : List Sexp) : Sexp :=
  let (_, outs) := ops.foldl (fun (acc : OSet.T × List Sexp) op =>
    let (l', r) := step acc.1 op
    (l', list (r :: obs l') :: acc.2)) ([], [])
  list outs.reverse

/-! pointer level -/

def pobs (s : OSetPtr.Store) : List Sexp :=
  [ofNats (OSetPtr.toList s), ofNats (OSetPtr.toListRev s)]

def pstep (s : OSetPtr.Store) : Sexp → OSetPtr.Store × Sexp
  | list [sym "add", int k] => (OSetPtr.add k.toNat s, sym "ok")
  | list [sym "discard", int k] => (OSetPtr.discard k.toNat s, sym "ok")
  | list (sym "iter-rm" :: xs) =>
    let r := OSetPtr.iterRem (fun k => decide (k ∈ nats xs)) s.fresh s (s.next 0)
    (r.2, ofNats r.1)
  | _ => (s, sym "bad-op")

def prun (ops : List Sexp) : Sexp :=
  let (_, outs) := ops.foldl (fun (acc : OSetPtr.Store × List Sexp) op =>
    let (s', r) := pstep acc.1 op
    (s', list (r :: pobs s') :: acc.2)) (OSetPtr.empty, [])
  list outs.reverse

def handle : List Sexp → Option Sexp
  | sym "oset" :: ops => some (run ops)
  | sym "osetp" :: ops => some (prun ops)
  | _ => none

end Pyx.Driver.C17
