import PyxModel.Sexp
import PyxModel.OSet
import PyxModel.OSetPtr

/-! driver for `(oset op…)` and `(osetp op…)` command lines (C17) -/
namespace Pyx.Driver.C17
open Pyx Pyx.Sexp

def nats (xs : List Sexp) : List Nat := xs.filterMap asNat?

def obs (l : OSet.T) : List Sexp :=
  [ofNats l, ofNats l.reverse, ofNat l.length, ofOptNat (OSet.first l), ofOptNat (OSet.last l)]

/-- the state-changing operations, as the `Op` values the theorems quantify over -/
def opOf : Sexp → Option OSet.Op
  | list [sym "add", int k] => some (.add k.toNat)
  | list [sym "discard", int k] => some (.discard k.toNat)
  | list [sym "remove", int k] => some (.remove k.toNat)
  | list [sym "pop-last"] => some .popLast
  | list [sym "pop-first"] => some .popFirst
  | list [sym "clear"] => some .clear
  | list (sym "ior" :: xs) => some (.ior (nats xs))
  | list (sym "iand" :: xs) => some (.iand (nats xs))
  | list (sym "isub" :: xs) => some (.isub (nats xs))
  | list (sym "ixor" :: xs) => some (.ixor (nats xs))
  | list [sym "isub-self"] => some .clear
  | list [sym "ixor-self"] => some .clear
  | list (sym "iter-rm" :: xs) => some (.iterRm (nats xs))
  | _ => none

/-- what the operation returns (the state is computed by `OSet.apply`) -/
def resultOf (l : OSet.T) : Sexp → Sexp
  | list [sym "remove", int k] => if k.toNat ∈ l then sym "ok" else sym "KeyError"
  | list [sym "pop-last"] => match OSet.popLast l with | some (k, _) => ofNat k | none => sym "KeyError"
  | list [sym "pop-first"] => match OSet.popFirst l with | some (k, _) => ofNat k | none => sym "KeyError"
  | list (sym "or" :: xs) => ofNats (OSet.or l (OSet.fromIter (nats xs)))
  | list (sym "and" :: xs) => ofNats (OSet.and l (OSet.fromIter (nats xs)))
  | list (sym "sub" :: xs) => ofNats (OSet.sub l (OSet.fromIter (nats xs)))
  | list (sym "xor" :: xs) => ofNats (OSet.xor l (OSet.fromIter (nats xs)))
  | list (sym "eq" :: xs) => ofBool (OSet.eqIter l (nats xs))
  | list (sym "in" :: xs) => list ((nats xs).map fun k => ofBool (decide (k ∈ l)))
  | list (sym "iter-rm" :: xs) => ofNats (OSet.iterRemove (fun k => decide (k ∈ nats xs)) l).1
  | _ => sym "ok"

def known : Sexp → Bool
  | list (sym "or" :: _) | list (sym "and" :: _) | list (sym "sub" :: _) | list (sym "xor" :: _)
  | list (sym "eq" :: _) | list (sym "in" :: _) => true
  | _ => false

/-- one op on the abstract model: (new state, result); every state change goes through `OSet.apply` -/
def step (l : OSet.T) (op : Sexp) : OSet.T × Sexp :=
  match opOf op with
  | some o => (OSet.apply o l, resultOf l op)
  | none => if known op then (l, resultOf l op) else (l, sym "bad-op")

def run (ops : List Sexp) : Sexp :=
  let (_, outs) := ops.foldl (fun (acc : OSet.T × List Sexp) op =>
    let (l', r) := step acc.1 op
    (l', list (r :: obs l') :: acc.2)) ([], [])
  list outs.reverse

/-! pointer level: every state change goes through `OSetPtr.applyP`; the observers are read off the pointers -/

def pobs (s : OSetPtr.Store) : List Sexp :=
  [ofNats (OSetPtr.toList s), ofNats (OSetPtr.toListRev s), ofNat (OSetPtr.len s),
   ofOptNat (OSetPtr.ptrFirst s), ofOptNat (OSetPtr.ptrLast s)]

def popOf : Sexp → Option OSetPtr.POp
  | list [sym "add", int k] => some (.add k.toNat)
  | list [sym "discard", int k] => some (.discard k.toNat)
  | list (sym "iter-rm" :: xs) => some (.iterRm (nats xs))
  | list (sym "riter-rm" :: xs) => some (.riterRm (nats xs))
  | _ => none

def pstep (s : OSetPtr.Store) (op : Sexp) : OSetPtr.Store × Sexp :=
  match popOf op with
  | some (.iterRm ks) =>
    (OSetPtr.applyP (.iterRm ks) s, ofNats (OSetPtr.iterRem (fun k => decide (k ∈ ks)) s.fresh s (s.next 0)).1)
  | some (.riterRm ks) =>
    -- the visit list of the BACKWARD walk, in visiting order
    (OSetPtr.applyP (.riterRm ks) s, ofNats (OSetPtr.reversedRem (fun k => decide (k ∈ ks)) s.fresh s (s.prev 0)).1)
  | some o => (OSetPtr.applyP o s, sym "ok")
  | none =>
    match op with
    | list (sym "in" :: xs) => (s, list ((nats xs).map fun k => ofBool (OSetPtr.ptrMem k s)))
    | list [sym "pop-first"] =>
      match OSetPtr.ptrFirst s with
      | some k => (OSetPtr.discard k s, ofNat k)
      | none => (s, sym "KeyError")
    | list (sym "iter-rm-add" :: int fr :: xs) =>
      -- "replace the visited element": the body discards the visited element when it is in `xs` and below 1000 and fewer
      -- than 4 were replaced, and adds fr, fr+1, …; the fuel is the one of `iter_replace_current` (> 2·|L|)
      let ks := nats xs
      let r := OSetPtr.iterReplace (fun k => decide (k ∈ ks) && decide (k < 1000)) fr.toNat 4 (2 * s.fresh + 1) s (s.next 0) 0
      (r.2, ofNats r.1)
    | list (sym "riter-rm-add" :: int fr :: xs) =>
      let ks := nats xs
      let r := OSetPtr.reversedReplace (fun k => decide (k ∈ ks) && decide (k < 1000)) fr.toNat 4 s.fresh s (s.prev 0) 0
      (r.2, ofNats r.1)
    | _ => (s, sym "bad-op")

def prun (ops : List Sexp) : Sexp :=
  let (_, outs) := ops.foldl (fun (acc : OSetPtr.Store × List Sexp) op =>
    let (s', r) := pstep acc.1 op
    (s', list (r :: pobs s') :: acc.2)) (OSetPtr.empty, [])
  list outs.reverse

def handle : List Sexp → Option Sexp
  | sym "oset" :: ops => some (run ops)
  | sym "osetp" :: ops => some (prun ops)
  | _ => none

end Pyx.Driver.C17
