import PyxModel.Sexp

/-! driver commands of property C03 (stub: no command yet) -/
namespace Pyx.Driver.C03
open Pyx Pyx.Sexp

def handle : List Sexp → Option Sexp
  | _ => none

end Pyx.Driver.C03
