import PyxModel.Sexp
import PyxModel.Load
import PyxModel.LoadApi
import Driver.LoadCodec

/-! driver commands of property C03

    (c03-load (stmt…) (stmt…) …)      one answer per statement list (variant):
         (error)                                   the build raises
         (ok D ((kind attrs indices rows)…) ((rel tgt-lists src-lists)…))
                                                   D = T/F, the list is inside the model's domain
    (c03-case ((stmt…) (stmt…) …) none)             = ((answer…) none)
    (c03-case ((stmt…) …) ((kind pos val…)…))       additionally, on the FIRST statement list: the rows created
         through `new` in the given order, and the loaded instances (kind, position) cloned in that order:
         = ((answer…) ((outcomes classes assocs) (outcomes classes assocs)))
-/
namespace Pyx.Driver.C03
open Pyx Pyx.Sexp Pyx.Load Pyx.Driver.LoadCodec

def loadAnswer (x : Sexp) : Sexp :=
  match decStmts x with
  | none => sym "bad-statements"
  | some ss =>
    match build ss with
    | none => list [sym "error"]
    | some m => list [sym "ok", ofBool (inDomain ss), encClasses m, encAssocs m]

def encOutcome : Outcome → Sexp
  | .ok => sym "ok"
  | .relateError => sym "RelateException"
  | .unknownLink => sym "UnknownLinkException"
  | .recursionError => sym "RecursionError"
  | .unmodelled => sym "unmodelled"

/-- rows of an API-built metamodel are stored without their referential values already -/
def encApiCls (c : Cls) : Sexp :=
  list [str c.kind,
        list (c.attrs.map (fun p => list [str p.1, encTy p.2])),
        list (c.indices.map (fun p => list [str p.1, encStrs p.2])),
        list (c.rows.map encRow)]

def encApi (r : Model × List Outcome) : Sexp :=
  list [list (r.2.map encOutcome), list (r.1.classes.map encApiCls), encAssocs r.1]

def decOrder : Sexp → Option (List (String × Nat × List Val))
  | list xs => xs.mapM (fun x => match x with
      | list (str k :: int p :: vs) => (vs.mapM decVal).map (fun vs => (k, p.toNat, vs))
      | _ => none)
  | _ => none

def caseAnswer (vs : List Sexp) (api : Sexp) : Sexp :=
  let answers := list (vs.map loadAnswer)
  match api with
  | sym "none" => list [answers, sym "none"]
  | _ =>
    match vs.head? >>= decStmts, decOrder api with
    | some ss, some order =>
      list [answers, list [encApi (apiBuild ss (order.map (fun o => (o.1, o.2.2)))),
                           encApi (cloneBuild ss (order.map (fun o => (o.1, o.2.1))))]]
    | _, _ => list [answers, sym "bad-api"]

def handle : List Sexp → Option Sexp
  | sym "c03-load" :: vs => some (list (vs.map loadAnswer))
  | [sym "c03-case", list vs, api] => some (caseAnswer vs api)
  | _ => none

end Pyx.Driver.C03
