import PyxModel.Sexp
import PyxModel.Load
import Driver.LoadCodec

/-! driver commands of property C03

    (c03-load (stmt…) (stmt…) …)      one answer per statement list (variant):
         (error)                                   the build raises
         (ok D ((kind attrs indices rows)…) ((rel tgt-lists src-lists)…))
                                                   D = T/F, the list is inside the model's domain
    (c03-api (stmt…) ((kind val…)…))   schema statements + rows created through `new`
    (c03-clone (stmt…) ((kind idx)…))  load, then clone the instances in the given order
-/
namespace Pyx.Driver.C03
open Pyx Pyx.Sexp Pyx.Load Pyx.Driver.LoadCodec

def loadAnswer (x : Sexp) : Sexp :=
  match decStmts x with
  | none => sym "bad-statements"
  | some ss =>
    match build ss with
    | none => list [sym "error"]
    | some m => list [sym "ok", ofBool (inDomain ss), encClasses m, encAssocs m]

def handle : List Sexp → Option Sexp
  | sym "c03-load" :: vs => some (list (vs.map loadAnswer))
  | _ => none

end Pyx.Driver.C03
