import PyxModel.Sexp
import PyxModel.Sql.Wire

/-! driver for `(c12 (uc …) "text" …)`: a sequence of `input` calls on one loader, then a build.
    answer: `((accepted|parsing …) (stmt …) build-outcome (reals (text neg micro) …))`; the last part lists what
    `float()` reads from every INSERT value that has the form of a number (in statement order, duplicates kept);
    then `(tokens (hand rx) …)`: per text the token stream of the hand scanners and that of the generic regex engine on the
    parse trees generated from the `t_*` regexes (`illegal` = `t_error`; `unknown-regex` when the generated trees are not
    the modelled ones, `skipped` beyond `rxLimit` characters) -/
namespace Pyx.Driver.C12
open Pyx Pyx.Sexp Pyx.Sql Pyx.Sql.Wire

def run (u : UC) (texts : List Text) : Sexp :=
  let (l, outs) := texts.foldl (fun (acc : Loader × List Sexp) t =>
    let (l', o) := acc.1.input u t
    (l', (match o with | .accepted => sym "accepted" | .parsing => sym "parsing") :: acc.2)) (Loader.fresh, [])
  let reals : List Sexp := l.statements.flatMap fun st =>
    match st with
    | .insert _ vals _ => vals.filterMap fun v =>
        match parseReal u v with
        | some (.real neg micro) => some (list [txt v, sym (if neg then "T" else "F"), ofNat micro])
        | _ => none
    | _ => []
  list [list outs.reverse, list (l.statements.map stmtSexp), outcomeSexp (l.build u), list (sym "reals" :: reals),
    list (sym "tokens" :: texts.map (lexBoth u))]

def handle : List Sexp → Option Sexp
  | sym "c12" :: list (sym "uc" :: rows) :: texts => (ucOf? rows).map (fun u => run u (asTexts texts))
  | _ => none

end Pyx.Driver.C12
