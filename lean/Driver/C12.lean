import PyxModel.Sexp

/-! driver commands of property C12 (stub: no command yet) -/
namespace Pyx.Driver.C12
open Pyx Pyx.Sexp

def handle : List Sexp → Option Sexp
  | _ => none

end Pyx.Driver.C12
