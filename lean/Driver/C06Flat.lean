import PyxModel.Sexp
import PyxModel.Prebuild.Flat

/-! canonical dump of the flat population model (`Pyx.Prebuild.Flat.prebuildFlat`) for the correspondence with
    `harness/flat_pop.py`: per class (fixed class order, empty classes left out) the rows in creation order,
    a link as `(CLASS index)` where index is the partner's creation index WITHIN its class, `none` for an
    absent conditional link; `(not-compared)` when the body lies outside the modelled subset (`ok = false`). -/
namespace Pyx.Driver.C06Flat
open Pyx Pyx.Sexp Pyx.Prebuild Pyx.Prebuild.Flat

def classOrder : List String :=
  ["ACT_BLK", "ACT_SMT", "ACT_AI", "ACT_RET", "ACT_BRK", "ACT_CON", "ACT_CTL", "ACT_CR", "ACT_CNV", "ACT_DEL",
   "ACT_REL", "ACT_RU", "ACT_UNR", "ACT_URU", "ACT_FIO", "ACT_FIW", "ACT_FOR", "ACT_WHL", "ACT_IF", "ACT_EL",
   "ACT_E", "V_VAL", "V_LIN", "V_LRL", "V_LST", "V_LBO", "V_TVL", "V_IRF", "V_ISR", "V_UNY", "V_BIN", "V_SLR",
   "V_AVL", "V_PVL", "V_LEN", "V_SCV", "V_VAR", "V_INT", "V_INS", "V_TRN"]

/-- (class, creation index within the class) of every row, in one pass -/
def names (p : FlatPop) : Array (String × Nat) := Id.run do
  let mut out : Array (String × Nat) := #[]
  let mut counts : List (String × Nat) := []
  for r in p do
    let c := r.cls
    let n := (counts.lookup c).getD 0
    out := out.push (c, n)
    counts := (c, n + 1) :: counts.filter (·.1 != c)
  return out

def lnk (nm : Array (String × Nat)) (i : Nat) : Sexp :=
  match nm[i]? with
  | some (c, k) => list [sym c, int k]
  | none => sym "dangling"

def olnk (nm : Array (String × Nat)) : Option Nat → Sexp
  | some i => lnk nm i
  | none => sym "none"

def encRow (nm : Array (String × Nat)) : Row → List Sexp
  | .blk o => [ofBool o]
  | .smt b pr => [lnk nm b, olnk nm pr]
  | .ai s r l => [lnk nm s, lnk nm r, lnk nm l]
  | .ret s v => [lnk nm s, olnk nm v]
  | .brk s | .con s | .ctl s => [lnk nm s]
  | .cr s v kl => [lnk nm s, lnk nm v, str kl]
  | .cnv s kl => [lnk nm s, str kl]
  | .del s v => [lnk nm s, lnk nm v]
  | .rel s a b r ph | .unr s a b r ph => [lnk nm s, lnk nm a, lnk nm b, str r, str ph]
  | .ru s a b u r ph | .uru s a b u r ph => [lnk nm s, lnk nm a, lnk nm b, lnk nm u, str r, str ph]
  | .fio s v kl c => [lnk nm s, lnk nm v, str kl, str c]
  | .fiw s v kl c w => [lnk nm s, lnk nm v, str kl, str c, lnk nm w]
  | .for_ s b v sv kl => [lnk nm s, lnk nm b, lnk nm v, lnk nm sv, str kl]
  | .whl s b v | .if_ s b v => [lnk nm s, lnk nm b, lnk nm v]
  | .el s b v i => [lnk nm s, lnk nm b, lnk nm v, lnk nm i]
  | .e s b i => [lnk nm s, lnk nm b, lnk nm i]
  | .val b => [lnk nm b]
  | .lin v x | .lrl v x | .lst v x | .lbo v x => [lnk nm v, str x]
  | .tvl v x | .irf v x | .isr v x => [lnk nm v, lnk nm x]
  | .uny v op o => [lnk nm v, str op, lnk nm o]
  | .bin v op l r => [lnk nm v, str op, lnk nm l, lnk nm r]
  | .slr v => [lnk nm v]
  | .avl v r a => [lnk nm v, lnk nm r, str a]
  | .pvl v n => [lnk nm v, str n]
  | .len v a b | .scv v a b => [lnk nm v, str a, str b]
  | .var n b => [str n, lnk nm b]
  | .vint v kl | .vins v kl => [lnk nm v, str kl]
  | .vtrn v => [lnk nm v]

def dumpPop (p : FlatPop) : Sexp :=
  let nm := names p
  list (classOrder.filterMap fun c =>
    let rows := p.filter (·.cls == c)
    if rows.isEmpty then none else some (list (sym c :: rows.map fun r => list (encRow nm r))))

def dump (fc : FCtx) (a : Block) : Sexp :=
  let st := prebuildSt fc a
  if !st.ok then list [sym "not-compared"]
  -- the full statement of C05 `regen_of_prebuild`, evaluated on this body: reading the population back prints genTokens
  else if regenFlat st.pop != genTokens a then list [sym "regen-differs"]
  else dumpPop st.pop

end Pyx.Driver.C06Flat
