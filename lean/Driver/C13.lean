import PyxModel.Sexp

/-! driver commands of property C13 (stub: no command yet) -/
namespace Pyx.Driver.C13
open Pyx Pyx.Sexp

def handle : List Sexp → Option Sexp
  | _ => none

end Pyx.Driver.C13
