import PyxModel.Sexp
import PyxModel.Oal.LexGen
import PyxModel.Oal.LexClass
import PyxModel.Oal.LexRx
import PyxModel.RegexSexp
import Gen.OalTrack

/-! driver commands of property C13

    (c13-lex "lexdata" (i j) (i j) ...)
      -> ((tokens) (spans) (tokens-rx))       tokens-rx: the token stream of `lexRx` (generic regex engine on the
         regex ASTs generated from the rule docstrings), same format as tokens; `skipped` for a text longer than
         rxLimit, `unknown-regex` when the table has a regex the model does not know (see rxKnown)
         tokens: (KIND "lexeme" start stop line endLine) for every token the lexer model returns
         spans : for each pair (i j) of token indexes, what `set_positional_info` records for a node whose
                 first token is token i and whose last token is token j:
                 (start_stream start_line start_column end_stream end_line end_column "character_stream"),
                 or `none` when an index is out of range

    (c13-tight (u v) (u v) ...)
      -> for each pair of lexical units `tightOk u v` as T / F (`bad` for an undecodable unit); units are written
         (word "s") (number "s") (fraction "s") (string "s") (ticked "s") (endfor "s") (endif "s") (endwhile "s")
         (lit i) (div) (ns "n"), together with the unit's text and tokens:  (T "text u" "text v" ((KIND "lexeme") ...))

    (c13-regex ast "text" "text" ...)
      -> for each text the length of the prefix the generic regex matcher (PyxModel/Regex.lean) matches for the AST
         (format: PyxModel/RegexSexp.lean), or `none`; `bad-ast` for an undecodable AST.  Compared with Python's
         `re.match(source, text)` for random regex sources whose AST translator/regex_ast.py computed.

    (c13-grammar)
      -> the production table generated from the p_* functions (Gen/OalTrack.lean), one entry per production:
         ("function" "lhs" length "rhs symbols separated by blanks" tracked), to be compared with PLY's own
         `parser.productions`
-/
namespace Pyx.Driver.C13
open Pyx Pyx.Sexp Pyx.OalLex

def tokSexp (t : Tok) : Sexp :=
  list [sym (String.ofList t.kind), str (String.ofList t.lexeme), ofNat t.start, ofNat t.stop, ofNat t.line,
        ofNat t.endLine]

def spanSexp (text : List Char) (toks : Array Tok) : Sexp → Sexp
  | list [int i, int j] =>
    match toks[i.toNat]?, toks[j.toNat]? with
    | some a, some b =>
      let p := spanOf text a b
      list [ofNat p.startStream, ofNat p.startLine, int p.startColumn, ofNat p.endStream, ofNat p.endLine,
            int p.endColumn, str (String.ofList (streamOf text a b))]
    | _, _ => sym "none"
  | _ => sym "bad-span"

def unitOf : Sexp → Option LexUnit
  | list [sym "word", str s] => some (.word s.toList)
  | list [sym "number", str s] => some (.number s.toList)
  | list [sym "fraction", str s] => some (.fraction s.toList)
  | list [sym "string", str s] => some (.string s.toList)
  | list [sym "ticked", str s] => some (.ticked s.toList)
  | list [sym "endfor", str s] => some (.endFor s.toList)
  | list [sym "endif", str s] => some (.endIf s.toList)
  | list [sym "endwhile", str s] => some (.endWhile s.toList)
  | list [sym "lit", int i] => some (.lit i.toNat)
  | list [sym "div"] => some .div
  | list [sym "ns", str s] => some (.ns s.toList)
  | _ => none

def tightSexp : Sexp → Sexp
  | list [a, b] =>
    match unitOf a, unitOf b with
    | some u, some v =>
      list [ofBool (tightOk u v), str (String.ofList u.text), str (String.ofList v.text),
            list ((u.toks ++ v.toks).map fun p => list [sym (String.ofList p.1), str (String.ofList p.2)])]
    | _, _ => sym "bad"
  | _ => sym "bad"

def prodSexp (p : Pyx.OalTrack.Prod) : Sexp :=
  list [str p.fn, str p.lhsName, ofNat p.rhs.length, str (" ".intercalate p.rhsNames), ofBool p.tracked]

/-- the generic regex engine is run on texts up to this length (its cost on unterminated-comment families is
    quadratic with a large constant; longer texts are timing cases of the real lexer) -/
def rxLimit : Nat := 1200

/-- the generic engine is run on the rule table only while every regex of the table is one of the modelled ones: on
    another regex it may - faithfully, like `re` - backtrack exponentially (nested repetitions, overlapping
    alternatives in a repetition), which would hang the driver instead of reporting.  A table with an unknown regex
    already breaks `rules_known` and `scanner_is_regex`; the token-rx answer is then `unknown-regex`, which disagrees
    with the implementation's stream on every case. -/
def rxKnown : Bool := rulesKnown Gen.OalLex.rules

def handle : List Sexp → Option Sexp
  | [sym "c13-grammar"] => some (list (Gen.OalTrack.prods.map prodSexp))
  | sym "c13-tight" :: pairs => some (list (pairs.map tightSexp))
  | sym "c13-lex" :: str text :: spans =>
    let cs := text.toList
    let toks := lex cs
    let arr := toks.toArray
    some (list [list (toks.map tokSexp), list (spans.map (spanSexp cs arr)), (if !rxKnown then sym "unknown-regex" else if cs.length ≤ rxLimit then list ((lexRx cs).map tokSexp) else sym "skipped")])
  | sym "c13-regex" :: ast :: texts =>
    match Pyx.Regex.Regex.ofSexp ast with
    | some r => some (list (texts.map fun t => match t with
        | str s => ofOptNat (Pyx.Regex.Regex.matchPrefix r s.toList)
        | _ => sym "bad-text"))
    | none => some (sym "bad-ast")
  | _ => none

end Pyx.Driver.C13
