import PyxModel.Sexp
import PyxModel.Oal.LexGen

/-! driver commands of property C13

    (c13-lex "lexdata" (i j) (i j) ...)
      -> ((tokens) (spans))
         tokens: (KIND "lexeme" start stop line endLine) for every token the lexer model returns
         spans : for each pair (i j) of token indexes, what `set_positional_info` records for a node whose
                 first token is token i and whose last token is token j:
                 (start_stream start_line start_column end_stream end_line end_column "character_stream"),
                 or `none` when an index is out of range
-/
namespace Pyx.Driver.C13
open Pyx Pyx.Sexp Pyx.OalLex

def tokSexp (t : Tok) : Sexp :=
  list [sym (String.ofList t.kind), str (String.ofList t.lexeme), ofNat t.start, ofNat t.stop, ofNat t.line,
        ofNat t.endLine]

def spanSexp (text : List Char) (toks : Array Tok) : Sexp → Sexp
  | list [int i, int j] =>
    match toks[i.toNat]?, toks[j.toNat]? with
    | some a, some b =>
      let p := spanOf text a b
      list [ofNat p.startStream, ofNat p.startLine, int p.startColumn, ofNat p.endStream, ofNat p.endLine,
            int p.endColumn, str (String.ofList (streamOf text a b))]
    | _, _ => sym "none"
  | _ => sym "bad-span"

def handle : List Sexp → Option Sexp
  | sym "c13-lex" :: str text :: spans =>
    let cs := text.toList
    let toks := lex cs
    let arr := toks.toArray
    some (list [list (toks.map tokSexp), list (spans.map (spanSexp cs arr))])
  | _ => none

end Pyx.Driver.C13
