import PyxModel.Sexp
import PyxModel.Reflexive
import Driver.C02

/-!
  driver command of property C16:
  (sortrefl <schema> (ops …) (sorts ((set idx…) "R2" "phrase") …))   → one result per sort:
  a list of instance indices or `UnknownLinkException`
-/
namespace Pyx.Driver.C16
open Pyx Pyx.Sexp Pyx.Meta Pyx.Reflexive Pyx.Driver.C02

def finalState (sc : Sch) (ops : List Sexp) : State :=
  ops.foldl (fun s o => match decodeOp sc o with
    | some op => (step sc.assocs s op).1
    | none => s) init

def runSort (sc : Sch) (s : State) : Sexp → Sexp
  | list [list (sym "set" :: xs), r, p] =>
    match sortReflexiveSt sc.assocs s (xs.filterMap asNat?) ((asStr? r).getD "") ((asStr? p).getD "") with
    | some l => ofNats l
    | none => sym "UnknownLinkException"
  | _ => sym "bad-sort"

def handle : List Sexp → Option Sexp
  | [sym "sortrefl", sch, list (sym "ops" :: ops), list (sym "sorts" :: ss)] =>
    match decodeSchema sch with
    | some sc =>
      let s := finalState sc ops
      some (list (ss.map (runSort sc s)))
    | none => some (sym "bad-schema")
  | _ => none

end Pyx.Driver.C16
