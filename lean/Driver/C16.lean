import PyxModel.Sexp
import PyxModel.Reflexive
import Driver.C02

/-!
  driver command of property C16:
  (sortrefl <schema> (ops …) (sorts ((set idx…) "R2" "phrase") …))   → one result per sort:
  a list of instance indices or `UnknownLinkException`; the ops are C02's plus `(ghost x)`
-/
namespace Pyx.Driver.C16
open Pyx Pyx.Sexp Pyx.Meta Pyx.Reflexive Pyx.Driver.C02

/-- `(ghost x)` = `xtuml.delete(inst, disconnect=False)`: `MetaClass.delete` removes the instance from `storage` (and adds it
    to `deleted`, which the model reads as "not in the pool") and returns before the disconnect loop: every link stays.
    Such a state lies outside `LiveOnly` (the state-level theorems do not speak about it); `sortReflexiveSt` reads the
    links alone, as `xtuml.sort_reflexive` does. A ghost that is not in its pool is the refused delete: state unchanged. -/
def ghost (s : State) (x : Inst) : State :=
  if x < s.count ∧ x ∈ s.pool (s.kindOf x) then
    { s with pool := fun k => if k = s.kindOf x then (s.pool k).erase x else s.pool k }
  else s

def finalState (sc : Sch) (ops : List Sexp) : State :=
  ops.foldl (fun s o => match o with
    | list [sym "ghost", int x] => ghost s x.toNat
    | _ => match decodeOp sc o with
      | some op => (step sc.assocs s op).1
      | none => s) init

def runSort (sc : Sch) (s : State) : Sexp → Sexp
  | list [list (sym "set" :: xs), r, p] =>
    match sortReflexiveSt sc.assocs s (xs.filterMap asNat?) ((asStr? r).getD "") ((asStr? p).getD "") with
    | some l => ofNats l
    | none => sym "UnknownLinkException"
  | _ => sym "bad-sort"

def handle : List Sexp → Option Sexp
  | [sym "sortrefl", sch, list (sym "ops" :: ops), list (sym "sorts" :: ss)] =>
    match decodeSchema sch with
    | some sc =>
      let s := finalState sc ops
      some (list (ss.map (runSort sc s)))
    | none => some (sym "bad-schema")
  | _ => none

end Pyx.Driver.C16
