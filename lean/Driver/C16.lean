import PyxModel.Sexp

/-! driver commands of property C16 (stub: no command yet) -/
namespace Pyx.Driver.C16
open Pyx Pyx.Sexp

def handle : List Sexp → Option Sexp
  | _ => none

end Pyx.Driver.C16
