import PyxModel.Sexp
import Driver.OSet

/-! line-protocol driver: one s-expression command per line, one answer per line -/
open Pyx Pyx.Sexp

def handlers : List (List Sexp → Option Sexp) :=
  [ Pyx.Driver.OSetD.handle ]

def answer (line : String) : String :=
  match Sexp.parse line with
  | some (Sexp.list xs) =>
    match handlers.findSome? (fun h => h xs) with
    | some r => r.render
    | none => "(error unknown-command)"
  | _ => "(error parse)"

partial def loop (h : IO.FS.Stream) (out : IO.FS.Stream) : IO Unit := do
  let line ← h.getLine
  if line.isEmpty then return ()
  out.putStrLn (answer line)
  loop h out

def main : IO Unit := do
  let stdin ← IO.getStdin
  let stdout ← IO.getStdout
  loop stdin stdout
  stdout.flush
