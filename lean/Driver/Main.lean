import PyxModel.Sexp
import Driver.C01
import Driver.C02
import Driver.C03
import Driver.C04
import Driver.C05
import Driver.C06
import Driver.C07
import Driver.C08
import Driver.C09
import Driver.C10
import Driver.C11
import Driver.C12
import Driver.C13
import Driver.C14
import Driver.C15
import Driver.C16
import Driver.C17
import Driver.C18
import Driver.C19
import Driver.C20

/-! line-protocol driver: one s-expression command per line, one answer per line.
    Each property owns Driver/Cxx.lean and its command heads; `handle` returns `none`
    for commands that are not its own. -/
open Pyx Pyx.Sexp

def handlers : List (List Sexp → Option Sexp) :=
  [ Pyx.Driver.C01.handle,
    Pyx.Driver.C02.handle,
    Pyx.Driver.C03.handle,
    Pyx.Driver.C04.handle,
    Pyx.Driver.C05.handle,
    Pyx.Driver.C06.handle,
    Pyx.Driver.C07.handle,
    Pyx.Driver.C08.handle,
    Pyx.Driver.C09.handle,
    Pyx.Driver.C10.handle,
    Pyx.Driver.C11.handle,
    Pyx.Driver.C12.handle,
    Pyx.Driver.C13.handle,
    Pyx.Driver.C14.handle,
    Pyx.Driver.C15.handle,
    Pyx.Driver.C16.handle,
    Pyx.Driver.C17.handle,
    Pyx.Driver.C18.handle,
    Pyx.Driver.C19.handle,
    Pyx.Driver.C20.handle ]

def answer (line : String) : String :=
  match Sexp.parse line with
  | some (Sexp.list xs) =>
    match handlers.findSome? (fun h => h xs) with
    | some r => r.render
    | none => "(error unknown-command)"
  | _ => "(error parse)"

partial def loop (h : IO.FS.Stream) (out : IO.FS.Stream) : IO Unit := do
  let line ← h.getLine
  if line.isEmpty then return ()
  out.putStrLn (answer line)
  loop h out

def main : IO Unit := do
  let stdin ← IO.getStdin
  let stdout ← IO.getStdout
  loop stdin stdout
  stdout.flush
