import Props.C17
