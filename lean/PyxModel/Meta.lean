/-
  L2 — the metamodel core of xtuml/meta.py: instances, instance pools, associations as two
  directed links, `relate` / `unrelate` / `delete` / `new`, referential attribute reads.

  Written from the code as it is now:

  * `define_association` creates `source_link` (FROM the target class TO the source class,
    phrase = target_phrase, many/conditional = source_*) and `target_link` (FROM the source class
    TO the target class, phrase = source_phrase, many/conditional = target_*).
  * `_find_link(inst1, inst2, rel, phrase)` scans `metamodel.associations` in definition order and
    returns the first association with that rel id whose source_link (resp. target_link) goes from
    inst1's kind to inst2's kind with that phrase; the returned pair is always
    (target-class instance, source-class instance).
  * `relate` = `source_link.connect(i1, i2)` then `target_link.connect(i2, i1)`; when the second
    refuses, the first is undone (`source_link.disconnect(i1, i2)`) before `RelateException`.
  * `Link.connect` is idempotent and checks cardinality only on its own side;
    `Link.disconnect` deletes the dict entry when its set becomes empty (so the dict's key set is
    `{x | m x ≠ []}` and the dict is modelled as a function `Inst → List Inst`).
  * `MetaClass.delete` removes the instance from `storage`, then for every link of its class (dict
    order = definition order) unrelates every partner while iterating the partner set.

  Instances are natural numbers (global creation index).  All mutators return
  `(new state, outcome)`, so that an exception after a partial mutation is representable.
-/

namespace Pyx
namespace Meta

abbrev Inst := Nat
abbrev Kind := Nat

/-- one `define_association` call -/
structure AssocSpec where
  rel : String
  srcKind : Kind
  srcKeys : List String
  srcMany : Bool
  srcCond : Bool
  srcPhrase : String
  tgtKind : Kind
  tgtKeys : List String
  tgtMany : Bool
  tgtCond : Bool
  tgtPhrase : String
  deriving Repr, DecidableEq

abbrev Schema := List AssocSpec

/-- the two directed link dicts of one association:
    `src x` = `ass.source_link[x]` for a target-class instance `x` (yields source-class instances),
    `tgt y` = `ass.target_link[y]` for a source-class instance `y` -/
structure ALinks where
  src : Inst → List Inst
  tgt : Inst → List Inst

structure State where
  kindOf : Inst → Kind            -- class of each created instance
  count  : Nat                    -- number of instances created so far (next instance = count)
  pool   : Kind → List Inst       -- `MetaClass.storage`
  links  : Nat → ALinks           -- per association index
  idOf   : Inst → Nat             -- value of the instance's own (non-referential) id attribute
  nextId : Nat                    -- IntegerGenerator: next value handed out

def emptyLinks : ALinks := { src := fun _ => [], tgt := fun _ => [] }

def init : State :=
  { kindOf := fun _ => 0, count := 0, pool := fun _ => [], links := fun _ => emptyLinks,
    idOf := fun _ => 0, nextId := 1 }

inductive Out where
  | ok | relateExc | unrelateExc | unknownLink | deleteExc
  deriving Repr, DecidableEq

def upd {α : Type} (f : Nat → α) (a : Nat) (v : α) : Nat → α := fun z => if z = a then v else f z

/-- `Link.connect(instance, another, check=True)`; `none` = refused (returns False) -/
def connect (many : Bool) (m : Inst → List Inst) (x y : Inst) : Option (Inst → List Inst) :=
  if y ∈ m x then some m
  else if m x ≠ [] ∧ many = false then none
  else some (upd m x (m x ++ [y]))

/-- `Link.disconnect`; `none` = returns False -/
def disconnect (m : Inst → List Inst) (x y : Inst) : Option (Inst → List Inst) :=
  if y ∈ m x then some (upd m x ((m x).erase y)) else none

/-- direction found by `_find_link`: `fwd` = the arguments are (target-class, source-class)
    already, `rev` = they are swapped -/
inductive Dir where | fwd | rev
  deriving Repr, DecidableEq

/-- `_find_link` over the association list with indices -/
def findLinkFrom (k1 k2 : Kind) (rel phrase : String) : Nat → Schema → Option (Nat × Dir)
  | _, [] => none
  | i, a :: rest =>
    if a.rel ≠ rel then findLinkFrom k1 k2 rel phrase (i + 1) rest
    else if a.tgtKind = k1 ∧ a.srcKind = k2 ∧ a.tgtPhrase = phrase then some (i, .fwd)
    else if a.srcKind = k1 ∧ a.tgtKind = k2 ∧ a.srcPhrase = phrase then some (i, .rev)
    else findLinkFrom k1 k2 rel phrase (i + 1) rest

def findLink (sch : Schema) (k1 k2 : Kind) (rel phrase : String) : Option (Nat × Dir) :=
  findLinkFrom k1 k2 rel phrase 0 sch

def specAt (sch : Schema) (i : Nat) : AssocSpec :=
  sch.getD i { rel := "", srcKind := 0, srcKeys := [], srcMany := false, srcCond := false, srcPhrase := "",
               tgtKind := 0, tgtKeys := [], tgtMany := false, tgtCond := false, tgtPhrase := "" }

/-- the two connects of `relate` on one association, `x` of the target class, `y` of the source class -/
def relateOn (a : AssocSpec) (l : ALinks) (x y : Inst) : ALinks × Out :=
  match connect a.srcMany l.src x y with
  | none => (l, .relateExc)
  | some s' =>
    match connect a.tgtMany l.tgt y x with
    | none =>
      -- undo of the first connect: `ass.source_link.disconnect(inst1, inst2)`
      match disconnect s' x y with
      | some s'' => ({ l with src := s'' }, .relateExc)
      | none => ({ l with src := s' }, .relateExc)
    | some t' => ({ src := s', tgt := t' }, .ok)

def unrelateOn (l : ALinks) (x y : Inst) : ALinks × Out :=
  match disconnect l.src x y with
  | none => (l, .unrelateExc)
  | some s' =>
    match disconnect l.tgt y x with
    | none => ({ l with src := s' }, .unrelateExc)
    | some t' => ({ src := s', tgt := t' }, .ok)

/-- `_find_link` returns the pair as (target-class instance, source-class instance) -/
def orient (d : Dir) (i1 i2 : Inst) : Inst × Inst :=
  match d with
  | .fwd => (i1, i2)
  | .rev => (i2, i1)

/-- in the instance pool of its class (created and not deleted): for a created instance, NOT live = it is in its
    metaclass's `deleted` set -/
def live (s : State) (x : Inst) : Prop := x < s.count ∧ x ∈ s.pool (s.kindOf x)

instance (s : State) (x : Inst) : Decidable (live s x) := by unfold live; exact inferInstance

/-- `relate`: `_find_link` (UnknownLinkException first), then the guard
    `for inst in (inst1, inst2): if inst in get_metaclass(inst).deleted: raise RelateException` — a deleted instance
    must not become reachable again —, then the two connects -/
def relate (sch : Schema) (s : State) (i1 i2 : Inst) (rel phrase : String) : State × Out :=
  match findLink sch (s.kindOf i1) (s.kindOf i2) rel phrase with
  | none => (s, .unknownLink)
  | some (i, d) =>
    if live s i1 ∧ live s i2 then
      let r := relateOn (specAt sch i) (s.links i) (orient d i1 i2).1 (orient d i1 i2).2
      ({ s with links := upd s.links i r.1 }, r.2)
    else (s, .relateExc)

/-- `relate` without the liveness guard (what `relate` does for two live instances; a device of the proofs) -/
def relateCore (sch : Schema) (s : State) (i1 i2 : Inst) (rel phrase : String) : State × Out :=
  match findLink sch (s.kindOf i1) (s.kindOf i2) rel phrase with
  | none => (s, .unknownLink)
  | some (i, d) =>
    let r := relateOn (specAt sch i) (s.links i) (orient d i1 i2).1 (orient d i1 i2).2
    ({ s with links := upd s.links i r.1 }, r.2)

def unrelate (sch : Schema) (s : State) (i1 i2 : Inst) (rel phrase : String) : State × Out :=
  match findLink sch (s.kindOf i1) (s.kindOf i2) rel phrase with
  | none => (s, .unknownLink)
  | some (i, d) =>
    let r := unrelateOn (s.links i) (orient d i1 i2).1 (orient d i1 i2).2
    ({ s with links := upd s.links i r.1 }, r.2)

/-- `MetaClass.new` for the part C02 needs: allocate, append to the pool, hand out an id -/
def new (s : State) (k : Kind) (hasId : Bool) : State × Inst :=
  let x := s.count
  ({ s with kindOf := upd s.kindOf x k, count := x + 1, pool := upd s.pool k (s.pool k ++ [x]),
            idOf := upd s.idOf x (if hasId then s.nextId else 0),
            nextId := if hasId then s.nextId + 1 else s.nextId }, x)

/-- the links of a class in `metaclass.links.values()` order: association `i` contributes its
    source_link to the links of `tgtKind` and then its target_link to the links of `srcKind`.
    Each entry: (association index, is it the source_link?, phrase of that link) -/
def linksOfFrom (k : Kind) : Nat → Schema → List (Nat × Bool × String)
  | _, [] => []
  | i, a :: rest =>
    (if a.tgtKind = k then [(i, true, a.tgtPhrase)] else []) ++
    (if a.srcKind = k then [(i, false, a.srcPhrase)] else []) ++
    linksOfFrom k (i + 1) rest

def linksOf (sch : Schema) (k : Kind) : List (Nat × Bool × String) := linksOfFrom k 0 sch

/-- inner loop of delete: `for other in link[instance]: unrelate(instance, other, rel, phrase)`;
    the partner list is the snapshot taken when the loop starts (iteration visits exactly the
    original elements although each is removed while visited — C17 `iter_remove_current`);
    stops at the first exception -/
def unrelateAll (sch : Schema) (x : Inst) (rel phrase : String) : List Inst → State → State × Out
  | [], s => (s, .ok)
  | y :: ys, s =>
    let r := unrelate sch s x y rel phrase
    if r.2 = .ok then unrelateAll sch x rel phrase ys r.1 else r

def deleteLinks (sch : Schema) (x : Inst) : List (Nat × Bool × String) → State → State × Out
  | [], s => (s, .ok)
  | (i, isSrc, phrase) :: rest, s =>
    let r := unrelateAll sch x (specAt sch i).rel phrase (if isSrc then (s.links i).src x else (s.links i).tgt x) s
    if r.2 = .ok then deleteLinks sch x rest r.1 else r

def delete (sch : Schema) (s : State) (x : Inst) : State × Out :=
  if x ∈ s.pool (s.kindOf x) ∧ x < s.count then
    deleteLinks sch x (linksOf sch (s.kindOf x))
      { s with pool := upd s.pool (s.kindOf x) ((s.pool (s.kindOf x)).erase x) }
  else (s, .deleteExc)

/-! operations as data, so that "any history" is a fold -/

inductive Op where
  | new (k : Kind) (hasId : Bool)
  | relate (x y : Inst) (rel phrase : String)
  | unrelate (x y : Inst) (rel phrase : String)
  | delete (x : Inst)
  deriving Repr

def step (sch : Schema) (s : State) : Op → State × Out
  | .new k h => ((new s k h).1, .ok)
  | .relate x y r p => relate sch s x y r p
  | .unrelate x y r p => unrelate sch s x y r p
  | .delete x => delete sch s x

def run (sch : Schema) (ops : List Op) : State := ops.foldl (fun s op => (step sch s op).1) init

/-! referential attribute reads (`Association.formalize`): the property installed by the LAST
    formalised association that declares `attr` as a source key is consulted first; when the
    instance has no partner across it the previously installed property (`alt_prop`) is used;
    the value is `getattr(other, primary_key, None)`, which may itself be referential. -/

/-- own (non-referential) attributes of an instance: here only the generated id, named `idName k` -/
structure Attrs where
  idName : Kind → Option String         -- name of the class's own id attribute, if any

def keyPairs (a : AssocSpec) : List (String × String) := a.srcKeys.zip a.tgtKeys

/-- formalisations declaring `attr` on class `k`, innermost (first defined) first:
    (association index, primary key name) -/
def formalFrom (k : Kind) (attr : String) : Nat → Schema → List (Nat × String)
  | _, [] => []
  | i, a :: rest =>
    (if a.srcKind = k then
      -- `for ref_key, primary_key in zip(...)`: a repeated ref_key re-wraps; each wrap is one layer
      ((keyPairs a).filter (fun p => p.1 = attr)).map (fun p => (i, p.2))
     else []) ++ formalFrom k attr (i + 1) rest

mutual
  /-- `getattr(inst, name, None)` for an id-or-referential attribute -/
  def getAttr (sch : Schema) (at_ : Attrs) (s : State) : Nat → Inst → String → Option Nat
    | 0, _, _ => none
    | fuel + 1, x, name =>
      let layers := (formalFrom (s.kindOf x) name 0 sch).reverse     -- outermost (last defined) first
      match layers with
      | [] => if at_.idName (s.kindOf x) = some name then some (s.idOf x) else none
      | _ => readLayers sch at_ s fuel x layers
  /-- the chain `fget → alt_prop.fget → …` -/
  def readLayers (sch : Schema) (at_ : Attrs) (s : State) : Nat → Inst → List (Nat × String) → Option Nat
    | 0, _, _ => none
    | _, _, [] => none
    | fuel + 1, x, (i, pk) :: rest =>
      match ((s.links i).tgt x).head? with
      | some other => getAttr sch at_ s fuel other pk
      | none =>
        match rest with
        | [] => none                       -- `getattr(None, ref_name, None)`
        | _ => readLayers sch at_ s fuel x rest
end

end Meta
end Pyx
