import PyxModel.Load
import PyxModel.LoadApi

/-
  C18 — one loader builds independent metamodels: a model that makes SHARING explicit.

  In a pure model two builds are independent by construction; in Python the risk is aliasing of
  the loader's mutable objects (the statements' attribute lists and key lists) with objects
  inside the built metamodels.  Here the loader's statement list *is* the heap of loader-owned
  cells: a list-valued field of a built metamodel is either the metamodel's own copy (`Ref.own`,
  a fresh object allocated by the build — nobody else can reach it) or a pointer to the list of
  the statement it came from (`Ref.stmt idx`, the very object held in `loader.statements[idx]`).
  Which fields are stored by reference is a parameter (`Sharing`); the value describing the code
  is generated from the source (`Gen/Sharing.lean`).  A mutator of a built metamodel that writes
  through a `Ref.stmt` pointer changes the loader's statement — visible to every other metamodel
  that points at it and to every later build.

  Instances are named by (class, creation index); links are functions on creation indices.
-/

namespace Pyx.Heap
open Pyx.Load

/-- which statement-owned lists `build_metamodel` stores by reference -/
structure Sharing where
  /-- `define_class` keeps the statement's attribute list instead of copying it -/
  classAttrsByRef : Bool
  /-- `define_association` keeps the statement's two key lists (`Association.source_keys/target_keys`) -/
  assocKeysByRef : Bool
  deriving DecidableEq, Repr

inductive Ref (α : Type) where
  | own (v : α)
  | stmt (idx : Nat)
  deriving Repr

/-- a metaclass of a built metamodel -/
structure HCls where
  kind : String
  attrs : Ref (List (String × Ty))
  indices : List (String × List String)
  /-- `storage`: (creation index, `__dict__`) -/
  rows : List (Nat × Row)
  /-- number of instances ever created in this class -/
  created : Nat

structure HAssoc where
  stmt : AssocStmt
  /-- `some idx`: `source_keys` / `target_keys` are the lists of `loader.statements[idx]` -/
  keysRef : Option Nat
  links : Links

/-- a built metamodel -/
structure HMeta where
  classes : List HCls
  assocs : List HAssoc
  /-- state of the metamodel's own `IntegerGenerator` (next value) -/
  idNext : Nat

/-- the loader and everything built from it so far (`none` = that build raised) -/
structure World where
  stmts : List Stmt
  metas : List (Option HMeta)

def World.init : World := ⟨[], []⟩

/-! ### dereferencing -/

def stmtAttrs (stmts : List Stmt) (idx : Nat) : List (String × Ty) :=
  match stmts[idx]? with
  | some (.cls _ as) => as
  | _ => []

def getAttrs (stmts : List Stmt) : Ref (List (String × Ty)) → List (String × Ty)
  | .own v => v
  | .stmt idx => stmtAttrs stmts idx

def setStmtAttrs (stmts : List Stmt) (idx : Nat) (as : List (String × Ty)) : List Stmt :=
  match stmts[idx]? with
  | some (.cls k _) => stmts.set idx (.cls k as)
  | _ => stmts

/-- write an attribute list: into the metamodel's own object, or through the pointer into the loader's statement -/
def setAttrs (stmts : List Stmt) (r : Ref (List (String × Ty))) (as : List (String × Ty)) :
    Ref (List (String × Ty)) × List Stmt :=
  match r with
  | .own _ => (.own as, stmts)
  | .stmt idx => (.stmt idx, setStmtAttrs stmts idx as)

def assocKeys (stmts : List Stmt) (a : HAssoc) : List String × List String :=
  match a.keysRef with
  | none => (a.stmt.srcKeys, a.stmt.tgtKeys)
  | some idx =>
    match stmts[idx]? with
    | some (.assoc b) => (b.srcKeys, b.tgtKeys)
    | _ => ([], [])

/-! ### build -/

/-- position of the CREATE TABLE statement that defined the kind -/
def clsStmtIdx (stmts : List Stmt) (kind : String) : Option Nat :=
  (enumFrom 0 stmts).findSome? (fun p => match p.2 with
    | .cls k _ => if k = kind then some p.1 else none
    | _ => none)

/-- positions of the CREATE ROP statements, in order -/
def assocStmtIdxs (stmts : List Stmt) : List Nat :=
  (enumFrom 0 stmts).filterMap (fun p => match p.2 with
    | .assoc _ => some p.1
    | _ => none)

def wrapCls (sh : Sharing) (stmts : List Stmt) (m : Model) (c : Cls) : HCls :=
  { kind := c.kind,
    attrs := (match sh.classAttrsByRef, clsStmtIdx stmts c.kind with
      | true, some idx => .stmt idx
      | _, _ => .own c.attrs),
    indices := c.indices,
    rows := enumFrom 0 (strippedRows m c),
    created := c.rows.length }

def wrapAssoc (sh : Sharing) (p : (AssocStmt × Links) × Nat) : HAssoc :=
  { stmt := p.1.1, keysRef := if sh.assocKeysByRef then some p.2 else none, links := p.1.2 }

/-- the identifiers `populate_instances` draws: `metamodel.new(kind)` takes a default for every non-referential
    UNIQUE_ID attribute of every row before the INSERT's values overwrite it -/
def idsDrawn (m : Model) : Nat :=
  (m.classes.map (fun c =>
    c.rows.length * (c.attrs.filter (fun p =>
      p.2 = .uniqueId && !(referential (m.assocs.map (·.1)) c.kind).contains p.1)).length)).sum

/-- `build_metamodel(IntegerGenerator())` -/
def hbuild (sh : Sharing) (stmts : List Stmt) : Option HMeta :=
  match build stmts with
  | none => none
  | some m => some ⟨m.classes.map (wrapCls sh stmts m), (m.assocs.zip (assocStmtIdxs stmts)).map (wrapAssoc sh),
                    1 + idsDrawn m⟩

/-! ### mutators of a built metamodel -/

inductive Mut where
  | appendAttr (kind name : String) (ty : Ty)
  | insertAttr (kind : String) (pos : Nat) (name : String) (ty : Ty)
  | deleteAttr (kind name : String)
  | defineUnique (kind name : String) (attrs : List String)
  /-- `metamodel.new(kind)` (default values) -/
  | new (kind : String)
  /-- `metamodel.new(kind, *args)`: positional arguments, referential ones trigger the batch relate -/
  | newArgs (kind : String) (args : List Val)
  /-- `xtuml.delete(inst)` -/
  | delete (kind : String) (id : Nat)
  /-- `setattr(inst, attr, value)` on a non-referential attribute -/
  | setAttr (kind : String) (id : Nat) (attr : String) (v : Val)
  /-- `relate(source inst, target inst, rel, source phrase)` over the n-th association -/
  | relate (n : Nat) (s t : Nat)
  | unrelate (n : Nat) (s t : Nat)
  deriving Repr

/-- the mutable Python objects of a built metamodel, grouped as the model represents them -/
inductive Field where
  /-- the list `MetaClass.attributes` -/
  | clsAttributes
  /-- the dict `MetaClass.indices` and the set `MetaClass.identifying_attributes` -/
  | clsIndices
  /-- the list `MetaClass.storage` and the instances' `__dict__` -/
  | instances
  /-- the `Link` dicts and the `OrderedSet`s they hold -/
  | linkItems
  /-- the metamodel's id generator -/
  | idGenerator
  /-- the lists `Association.source_keys` / `target_keys` -/
  | assocKeys
  deriving DecidableEq, Repr

/-- the names under which translator/gen_sharing.py reports these objects -/
def Field.names : Field → List String
  | .clsAttributes => ["MetaClass.attributes"]
  | .clsIndices => ["MetaClass.indices", "MetaClass.identifying_attributes"]
  | .instances => ["MetaClass.storage", "MetaClass.deleted", "Class.__dict__"]
  | .linkItems => ["Link.items"]
  | .idGenerator => ["IdGenerator._current"]
  | .assocKeys => ["Association.source_keys", "Association.target_keys"]

def Mut.name : Mut → String
  | .appendAttr .. => "append_attribute"
  | .insertAttr .. => "insert_attribute"
  | .deleteAttr .. => "delete_attribute"
  | .defineUnique .. => "define_unique_identifier"
  | .new .. => "new"
  | .newArgs .. => "new"
  | .delete .. => "delete"
  | .setAttr .. => "setattr"
  | .relate .. => "relate"
  | .unrelate .. => "unrelate"

/-- the objects a mutator may write (proved for the model below: `mutators_footprint`; compared with the write
    sets read off the source: `Gen/Sharing.lean`) -/
def Mut.writes : Mut → List Field
  | .appendAttr .. => [.clsAttributes]
  | .insertAttr .. => [.clsAttributes]
  | .deleteAttr .. => [.clsAttributes]
  | .defineUnique .. => [.clsIndices]
  | .new .. => [.instances, .idGenerator, .linkItems]
  | .newArgs .. => [.instances, .idGenerator, .linkItems]
  | .delete .. => [.linkItems, .instances]
  | .setAttr .. => [.instances]
  | .relate .. => [.linkItems]
  | .unrelate .. => [.linkItems]

/-- the objects through which a built metamodel reaches a loader-owned list -/
def Sharing.sharedFields (sh : Sharing) : List Field :=
  (if sh.classAttrsByRef then [.clsAttributes] else [])
  ++ (if sh.assocKeysByRef then [.assocKeys] else [])

inductive Res where
  | ok | deleteError | relateError | unrelateError | unknownClass | metaError
  | unknownLink      -- UnknownLinkException out of the batch relate
  | unmodelled       -- an identifying attribute that is itself referential would be read through a link
  deriving DecidableEq, Repr

def modifyCls (cs : List HCls) (kind : String) (f : HCls → HCls) : List HCls :=
  cs.map (fun c => if c.kind = kind then f c else c)

def findHCls (cs : List HCls) (kind : String) : Option HCls := cs.find? (fun c => c.kind = kind)

/-- the three attribute-list mutators: the new list as a function of the old one -/
def editAttrs : Mut → List (String × Ty) → List (String × Ty)
  | .appendAttr _ n ty, as => as ++ [(n, ty)]
  | .insertAttr _ pos n ty, as => as.take pos ++ (n, ty) :: as.drop pos
  | .deleteAttr _ n, as =>
    match as.findIdx? (fun p => p.1 = n) with
    | some i => as.eraseIdx i
    | none => as
  | _, as => as

/-- `MetaClass.default_value` -/
def defaultVal (idNext : Nat) : Ty → Val
  | .boolean => .bool false
  | .integer => .int 0
  | .real => .real 0
  | .string => .str ""
  | .uniqueId => .id idNext

/-- the `__dict__` of a fresh instance: `setattr(inst, name, default)` for the non-referential attributes in
    order, identifiers drawn from the metamodel's generator as they are needed -/
def defaultRow (refs : List String) (attrs : List (String × Ty)) (idNext : Nat) : Row × Nat :=
  attrs.foldl (fun (st : Row × Nat) p =>
    if refs.contains p.1 then st
    else (dictSet st.1 p.1 (defaultVal st.2 p.2), if p.2 = .uniqueId then st.2 + 1 else st.2)) ([], idNext)

/-- `__dict__[attr] = v` (an existing entry keeps its position) -/
def rowSet (r : Row) (attr : String) (v : Val) : Row := dictSet r attr v

/-- the net effect on one association of `MetaClass.delete` unrelating the instance `id` of class `kind`
    from all its partners (both roles when the association is reflexive) -/
def unlinkId (a : AssocStmt) (kind : String) (id : Nat) (L : Links) : Links :=
  let src1 := if a.tgtKind = kind then (fun z => if z = id then [] else L.src z) else L.src
  let tgt1 := if a.srcKind = kind then (fun z => if z = id then [] else L.tgt z) else L.tgt
  ⟨if a.srcKind = kind then (fun z => (src1 z).filter (· ≠ id)) else src1,
   if a.tgtKind = kind then (fun z => (tgt1 z).filter (· ≠ id)) else tgt1⟩

/-- `Link.connect` with the cardinality check (`none` = `False`) -/
def connectChecked (m : Nat → List Nat) (many : Bool) (x y : Nat) : Option (Nat → List Nat) :=
  if y ∈ m x then some m
  else if (m x) ≠ [] ∧ many = false then none
  else some (fun z => if z = x then m x ++ [y] else m z)

def disconnect (m : Nat → List Nat) (x y : Nat) : Option (Nat → List Nat) :=
  if y ∈ m x then some (fun z => if z = x then (m x).filter (· ≠ y) else m z) else none

def updateAt {α : Type} : List α → Nat → (α → α) → List α
  | [], _, _ => []
  | x :: xs, 0, f => f x :: xs
  | x :: xs, n + 1, f => x :: updateAt xs n f

/-! #### `new` with arguments: the batch relate on creation indices (as `Pyx.Load.apiNew`, PyxModel/LoadApi.lean) -/

def rowsOfH (cs : List HCls) (kind : String) : List (Nat × Row) :=
  match findHCls cs kind with
  | some c => c.rows
  | none => []

/-- `to_metaclass.query(kwargs)`: creation indices of the stored rows whose values equal the wanted ones -/
def queryRowsH (rows : List (Nat × Row)) (kwargs : List (String × Val)) : List Nat :=
  rows.filterMap (fun p => if kwargs.all (fun kv => p.2.get kv.1 == kv.2) then some p.1 else none)

/-- `relate(from_instance, to_instance, rel_id, phrase)` with `_find_link` as the code has it -/
def relateH (o : HMeta) (k1 : String) (i1 : Nat) (k2 : String) (i2 : Nat) (rel phrase : String) : HMeta × Res :=
  match findLink (o.assocs.map (·.stmt)) k1 k2 rel phrase with
  | none => (o, .unknownLink)
  | some (n, swapped) =>
    match o.assocs[n]? with
    | none => (o, .unknownLink)
    | some a =>
      let r := if swapped then relateAt a.stmt a.links i2 i1 else relateAt a.stmt a.links i1 i2
      ({ o with assocs := Pyx.Heap.updateAt o.assocs n (fun x => { x with links := r.1 }) },
       if r.2 then .ok else .relateError)

def relateHitsH (okind kind : String) (i : Nat) (rel phrase : String) : List Nat → HMeta → HMeta × Res
  | [], o => (o, .ok)
  | j :: js, o =>
    match relateH o okind j kind i rel phrase with
    | (o', .ok) => relateHitsH okind kind i rel phrase js o'
    | r => r

def relateLinkH (refs : List (String × Val)) (km : List (String × String)) (okind kind : String) (i : Nat)
    (rel phrase : String) (o : HMeta) : HMeta × Res :=
  if !(km.all (fun p => (refs.map (·.1)).contains p.2)) then (o, .ok)
  else if km.any (fun p => isNull ((refs.lookup p.2).getD .none)) then (o, .ok)
  else if km.isEmpty then (o, .ok)
  else if km.any (fun p => (referential (o.assocs.map (·.stmt)) okind).contains p.1) then (o, .unmodelled)
  else
    relateHitsH okind kind i rel phrase
      (queryRowsH (rowsOfH o.classes okind) (km.map (fun p => (p.1, (refs.lookup p.2).getD .none)))) o

def relateLinksH (refs : List (String × Val)) (kind : String) (i : Nat) :
    List (List (String × String) × String × String × String) → HMeta → HMeta × Res
  | [], o => (o, .ok)
  | (km, okind, rel, phrase) :: rest, o =>
    match relateLinkH refs km okind kind i rel phrase o with
    | (o', .ok) => relateLinksH refs kind i rest o'
    | r => r

/-- the two loops of `new` over `zip(attributes, args)`: non-referential values are stored, referential ones
    collected in a dict -/
def splitArgs (refNames : List String) : List ((String × Ty) × Val) → Row → List (String × Val) → Row × List (String × Val)
  | [], row, refs => (row, refs)
  | ((n, _), v) :: rest, row, refs =>
    if refNames.contains n then splitArgs refNames rest row (dictSet refs n v)
    else splitArgs refNames rest (dictSet row n v) refs

def Mut.isAttrEdit : Mut → Bool
  | .appendAttr .. => true
  | .insertAttr .. => true
  | .deleteAttr .. => true
  | _ => false

def Mut.attrKind : Mut → String
  | .appendAttr k _ _ => k
  | .insertAttr k _ _ _ => k
  | .deleteAttr k _ => k
  | _ => ""

/-- the instance with creation index `id` is still in the storage of its class -/
def aliveH (o : HMeta) (kind : String) (id : Nat) : Bool :=
  match findHCls o.classes kind with
  | some c => c.rows.any (fun p => p.1 = id)
  | none => false

/-- the mutators that touch only objects the build allocated for this metamodel (`attrsOf` reads a class's
    attribute list, needed by `new`) -/
def applyOwn (attrsOf : Ref (List (String × Ty)) → List (String × Ty)) (o : HMeta) : Mut → HMeta × Res
  | .defineUnique kind name attrs =>
    if attrs.isEmpty then (o, .ok)
    else match findHCls o.classes kind with
      | none => (o, .unknownClass)
      | some _ =>
        ({ o with classes := modifyCls o.classes kind (fun c => { c with indices := dictSet c.indices name attrs }) }, .ok)
  | .new kind =>
    match findHCls o.classes kind with
    | none => (o, .unknownClass)
    | some c =>
      let refs := referential (o.assocs.map (·.stmt)) kind
      let r := defaultRow refs (attrsOf c.attrs) o.idNext
      ({ o with
          classes := modifyCls o.classes kind (fun c => { c with rows := c.rows ++ [(c.created, r.1)], created := c.created + 1 }),
          idNext := r.2 }, .ok)
  | .newArgs kind args =>
    match findHCls o.classes kind with
    | none => (o, .unknownClass)
    | some c =>
      let all := o.assocs.map (·.stmt)
      let refNames := referential all kind
      let d := defaultRow refNames (attrsOf c.attrs) o.idNext
      let sp := splitArgs refNames ((attrsOf c.attrs).zip args) d.1 []
      let o1 : HMeta := { o with
        classes := modifyCls o.classes kind (fun c => { c with rows := c.rows ++ [(c.created, sp.1)], created := c.created + 1 }),
        idNext := d.2 }
      if sp.2.isEmpty then (o1, .ok)
      else relateLinksH sp.2 kind c.created (linksOfKind all kind) o1
  | .delete kind id =>
    match findHCls o.classes kind with
    | none => (o, .unknownClass)
    | some c =>
      if c.rows.any (fun p => p.1 = id) then
        ({ o with
            classes := modifyCls o.classes kind (fun c => { c with rows := c.rows.filter (fun p => p.1 ≠ id) }),
            assocs := o.assocs.map (fun a => { a with links := unlinkId a.stmt kind id a.links }) }, .ok)
      else (o, .deleteError)
  | .setAttr kind id attr v =>
    match findHCls o.classes kind with
    | none => (o, .unknownClass)
    | some _ =>
      ({ o with classes := modifyCls o.classes kind (fun c =>
          { c with rows := c.rows.map (fun p => if p.1 = id then (p.1, rowSet p.2 attr v) else p) }) }, .ok)
  | .relate n s t =>
    match o.assocs[n]? with
    | none => (o, .metaError)
    | some a =>
      -- `relate` refuses an instance that has been deleted (it is in its metaclass's `deleted` set: created once,
      -- no longer in the storage)
      if !(aliveH o a.stmt.srcKind s && aliveH o a.stmt.tgtKind t) then (o, .relateError) else
      match connectChecked a.links.src a.stmt.srcMany t s with
      | none => (o, .relateError)
      | some src' =>
        match connectChecked a.links.tgt a.stmt.tgtMany s t with
        | none => (o, .relateError)
        | some tgt' => ({ o with assocs := updateAt o.assocs n (fun a => { a with links := ⟨src', tgt'⟩ }) }, .ok)
  | .unrelate n s t =>
    match o.assocs[n]? with
    | none => (o, .metaError)
    | some a =>
      match disconnect a.links.src t s, disconnect a.links.tgt s t with
      | some src', some tgt' =>
        ({ o with assocs := updateAt o.assocs n (fun a => { a with links := ⟨src', tgt'⟩ }) }, .ok)
      | _, _ => (o, .unrelateError)
  | _ => (o, .ok)

/-- `append_attribute` / `insert_attribute` / `delete_attribute`: the list object that `metaclass.attributes`
    points to is edited in place — the metamodel's own list, or (by-reference pointer) the loader's statement's -/
def applyAttrEdit (stmts : List Stmt) (o : HMeta) (μ : Mut) : HMeta × List Stmt × Res :=
  match findHCls o.classes μ.attrKind with
  | none => (o, stmts, .unknownClass)
  | some c =>
    let w := setAttrs stmts c.attrs (editAttrs μ (getAttrs stmts c.attrs))
    ({ o with classes := modifyCls o.classes μ.attrKind (fun c => { c with attrs := w.1 }) }, w.2, .ok)

/-- a mutator applied to one built metamodel; the statement list is threaded because an attribute-list
    mutator may write through a by-reference pointer into it -/
def applyMut (stmts : List Stmt) (o : HMeta) (μ : Mut) : HMeta × List Stmt × Res :=
  if μ.isAttrEdit then applyAttrEdit stmts o μ
  else
    let r := applyOwn (getAttrs stmts) o μ
    (r.1, stmts, r.2)

/-! ### histories -/

inductive Op where
  /-- `loader.input(text)`: the parsed statements are appended -/
  | input (ss : List Stmt)
  /-- `loader.build_metamodel(IntegerGenerator())` -/
  | build
  /-- a mutation of the k-th built metamodel -/
  | mutate (k : Nat) (μ : Mut)

def step (sh : Sharing) (w : World) : Op → World
  | .input ss => { w with stmts := w.stmts ++ ss }
  | .build => { w with metas := w.metas ++ [hbuild sh w.stmts] }
  | .mutate k μ =>
    match w.metas[k]? with
    | some (some o) =>
      let r := applyMut w.stmts o μ
      { stmts := r.2.1, metas := w.metas.set k (some r.1) }
    | _ => w

def run (sh : Sharing) (ops : List Op) : World := ops.foldl (step sh) World.init

/-! ### clone: `m_k.clone(instance of m_j)` reads the instance, then is `new` with the values read -/

def rowOfId (rows : List (Nat × Row)) (id : Nat) : Row :=
  match rows.find? (fun p => p.1 = id) with
  | some p => p.2
  | none => []

/-- `getattr(instance, x)` for a referential attribute: the chain of properties installed by
    `Association.formalize`, the association formalised last first (list in REVERSE definition order) -/
def readRefH (o : HMeta) (kind : String) (id : Nat) (x : String) : List HAssoc → Option Val
  | [] => some .none
  | a :: earlier =>
    match (if a.stmt.srcKind = kind then (a.stmt.srcKeys.zip a.stmt.tgtKeys).lookup x else none) with
    | none => readRefH o kind id x earlier
    | some tkey =>
      match (a.links.tgt id).head? with
      | none => readRefH o kind id x earlier
      | some j =>
        if (referential (o.assocs.map (·.stmt)) a.stmt.tgtKind).contains tkey then none     -- chained key: not modelled
        else some ((rowOfId (rowsOfH o.classes a.stmt.tgtKind) j).get tkey)

/-- `[getattr(instance, name) for name, _ in get_metaclass(instance).attributes]` -/
def readAllH (stmts : List Stmt) (o : HMeta) (c : HCls) (id : Nat) : Option (List Val) :=
  let refNames := referential (o.assocs.map (·.stmt)) c.kind
  (getAttrs stmts c.attrs).mapM (fun p =>
    if refNames.contains p.1 then readRefH o c.kind id p.1 o.assocs.reverse
    else some ((rowOfId c.rows id).get p.1))

/-- histories that also clone instances of one built metamodel into another (or the same) -/
inductive OpC where
  | op (o : Op)
  /-- `metas[k].clone(instance (kind, id) of metas[j])` -/
  | cloneInto (k j : Nat) (kind : String) (id : Nat)

/-- a clone is `new` on the target with the values read from the source instance at that moment; reading writes
    nothing.  (`Op.input []` = nothing happens: no such source, or a chained key that the model does not read.) -/
def resolveOp (w : World) : OpC → Op
  | .op o => o
  | .cloneInto k j kind id =>
    match w.metas[j]? with
    | some (some src) =>
      match findHCls src.classes kind with
      | some c =>
        match readAllH w.stmts src c id with
        | some args => .mutate k (.newArgs kind args)
        | none => .input []
      | none => .input []
    | _ => .input []

def stepC (sh : Sharing) (w : World) (oc : OpC) : World := step sh w (resolveOp w oc)

def runC (sh : Sharing) (ops : List OpC) : World := ops.foldl (stepC sh) World.init

/-- the same history with every clone replaced by the `new` it amounts to -/
def resolveAll (sh : Sharing) : World → List OpC → List Op
  | _, [] => []
  | w, oc :: rest => resolveOp w oc :: resolveAll sh (stepC sh w oc) rest

/-! ### what is observable of a built metamodel (everything, with the pointers followed) -/

structure OCls where
  kind : String
  attrs : List (String × Ty)
  indices : List (String × List String)
  rows : List (Nat × Row)
  created : Nat

structure OAssoc where
  stmt : AssocStmt
  srcKeys : List String
  tgtKeys : List String
  links : Links

structure Obs where
  classes : List OCls
  assocs : List OAssoc
  idNext : Nat

def observeMeta (stmts : List Stmt) (o : HMeta) : Obs :=
  ⟨o.classes.map (fun c => ⟨c.kind, getAttrs stmts c.attrs, c.indices, c.rows, c.created⟩),
   o.assocs.map (fun a => ⟨a.stmt, (assocKeys stmts a).1, (assocKeys stmts a).2, a.links⟩),
   o.idNext⟩

/-- the k-th built metamodel as seen now (`none`: not built yet, or that build raised) -/
def observe (w : World) (k : Nat) : Option Obs :=
  match w.metas[k]? with
  | some (some o) => some (observeMeta w.stmts o)
  | _ => none

end Pyx.Heap
