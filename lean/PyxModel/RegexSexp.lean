import PyxModel.Sexp
import PyxModel.Regex

/-!
  Wire format of a regex AST (PyxModel/Regex.lean) on the line protocol, so that a driver command can run the generic
  matcher on an AST the harness sends (harness/gen_regex.py writes this format from the tree of
  translator/regex_ast.py):

    (eps) | (cls T|F item ...) | (seq a b) | (alt a b) | (star T|F r) | (group r) | (look r) | (nlook r)
    item: (ch "c") | (range "a" "z") | (cat digit|space|word) | (ncat digit|space|word)
-/
namespace Pyx.Regex
open Pyx Pyx.Sexp

def catOfSexp : Sexp → Option Cat
  | sym "digit" => some .digit
  | sym "space" => some .space
  | sym "word" => some .word
  | _ => none

def charOfSexp : Sexp → Option Char
  | str s => match s.toList with
    | [c] => some c
    | _ => none
  | _ => none

def itemOfSexp : Sexp → Option CItem
  | list [sym "ch", c] => (charOfSexp c).map .ch
  | list [sym "range", a, b] => do some (.range (← charOfSexp a) (← charOfSexp b))
  | list [sym "cat", k] => (catOfSexp k).map .cat
  | list [sym "ncat", k] => (catOfSexp k).map .ncat
  | _ => none

def boolOfSexp : Sexp → Option Bool
  | sym "T" => some true
  | sym "F" => some false
  | _ => none

/-- decoder with a nesting bound (total: no theorem is about it, but nothing opaque either) -/
def Regex.ofSexpF : Nat → Sexp → Option Regex
  | 0, _ => none
  | fuel + 1, s =>
    match s with
    | list [sym "eps"] => some .eps
    | list (sym "cls" :: neg :: items) => do
      some (.cls { neg := (← boolOfSexp neg), items := (← items.mapM itemOfSexp) })
    | list [sym "seq", a, b] => do some (.seq (← Regex.ofSexpF fuel a) (← Regex.ofSexpF fuel b))
    | list [sym "alt", a, b] => do some (.alt (← Regex.ofSexpF fuel a) (← Regex.ofSexpF fuel b))
    | list [sym "star", g, r] => do some (.star (← boolOfSexp g) (← Regex.ofSexpF fuel r))
    | list [sym "group", r] => (Regex.ofSexpF fuel r).map .group
    | list [sym "look", r] => (Regex.ofSexpF fuel r).map .look
    | list [sym "nlook", r] => (Regex.ofSexpF fuel r).map .nlook
    | _ => none

/-- ASTs nested deeper than 4096 are refused -/
def Regex.ofSexp (s : Sexp) : Option Regex := Regex.ofSexpF 4096 s

end Pyx.Regex
