import PyxModel.Sexp
import PyxModel.Sql.Loader
import PyxModel.Sql.LexRx

/-! s-expression encoding of the SQL-dialect model (shared by Driver/C01.lean and Driver/C12.lean) -/
namespace Pyx.Sql.Wire
open Pyx Pyx.Sexp Pyx.Sql

def txt (t : Text) : Sexp := .str (String.ofList t)
def txts (ts : List Text) : Sexp := .list (ts.map txt)

def asText? : Sexp → Option Text
  | .str s => some s.toList
  | _ => none

def asTexts (xs : List Sexp) : List Text := xs.filterMap asText?

def asBool : Sexp → Bool
  | .sym "T" => true
  | _ => false

/-- one row of the Unicode table: `(code isDigit isWord (upper code…) digitValue)`; anything else is an ERROR (a driver and
    a harness of different versions must not agree by accident) -/
def ucRow? : Sexp → Option (Nat × Bool × Bool × List Char × Nat)
  | .list [.int c, d, w, .list up, .int dv] =>
    if (up.all fun x => (asNat? x).isSome) then some (c.toNat, asBool d, asBool w, (up.filterMap asNat?).map Char.ofNat, dv.toNat)
    else none
  | _ => none

/-- `(uc row …)`; `none` when a row is malformed -/
def ucOf? (rows : List Sexp) : Option UC :=
  if rows.all (fun r => (ucRow? r).isSome) then
    let tbl := rows.filterMap ucRow?
    let look (c : Char) := tbl.find? (fun e => e.1 == c.toNat)
    some { digit := fun c => match look c with | some e => e.2.1 | none => false
           word := fun c => match look c with | some e => e.2.2.1 | none => false
           upperOf := fun c => match look c with | some e => e.2.2.2.1 | none => [c]
           digitOf := fun c => match look c with | some e => e.2.2.2.2 | none => 0 }
  else none

/-- PLY's token type -/
def kindName : Kind → String
  | .kw k => k.name
  | .CARDINALITY => "CARDINALITY" | .COMMA => "COMMA" | .FRACTION => "FRACTION" | .GUID => "GUID" | .ID => "ID"
  | .LPAREN => "LPAREN" | .MINUS => "MINUS" | .NUMBER => "NUMBER" | .RPAREN => "RPAREN" | .RELID => "RELID"
  | .SEMICOLON => "SEMICOLON" | .STRING => "STRING"

/-- a polynomial digest of the lexemes of a token stream (each lexeme followed by a separator), in 64-bit arithmetic -/
def lexemeDigest (ts : List Tok) : Nat :=
  (ts.foldl (fun (h : UInt64) t => (t.text.foldl (fun (h : UInt64) c => h * 1000003 + c.toNat.toUInt64 + 1) h) * 1000003) 7).toNat

/-- a token stream in compact form: the token types in one string and the digest of the lexemes; `illegal` when `t_error`
    raised -/
def toksSexp : Option (List Tok) → Sexp
  | some ts => .list [.str (" ".intercalate (ts.map fun t => kindName t.kind)), Sexp.ofNat (lexemeDigest ts)]
  | none => .sym "illegal"

/-- the regex engine is run on texts up to this length -/
def rxLimit : Nat := 20000

/-- the token stream of the hand scanners, and how the stream of the regex engine on the generated parse trees compares with
    it: `same`, or the stream itself when it differs -/
def lexBoth (u : UC) (t : Text) : Sexp :=
  let hand := lex u t
  .list [toksSexp hand,
    if !rxKnown then .sym "unknown-regex"
    else if t.length ≤ rxLimit then (let rx := lexRx u t; if rx == hand then .sym "same" else toksSexp rx)
    else .sym "skipped"]

def stmtSexp : Stmt → Sexp
  | .createTable k attrs => .list [.sym "table", txt k, .list (attrs.map fun a => .list [txt a.1, txt a.2])]
  | .createRop rel sk sc skeys sp tk tc tkeys tp =>
    .list [.sym "rop", txt rel, txt sk, txt sc, txts skeys, txt sp, txt tk, txt tc, txts tkeys, txt tp]
  | .createIndex k n attrs => .list [.sym "index", txt k, txt n, txts attrs]
  | .insert k vals names =>
    .list [.sym "insert", txt k, txts vals, match names with | some ns => txts ns | none => .sym "none"]

def valOf : Sexp → Option (Option Val)
  | .sym "none" => some none
  | .list [.sym "b", b] => some (some (.bool (asBool b)))
  | .list [.sym "i", .int z] => some (some (.int z))
  | .list [.sym "r", neg, .int m] => some (some (.real (asBool neg) m.toNat))
  | .list [.sym "s", .str s] => some (some (.str s.toList))
  | .list [.sym "u", .int n] => some (some (.id n.toNat))
  | _ => none

def pairsOf (xs : List Sexp) : List (Name × Name) := xs.filterMap fun x =>
  match x with
  | .list [.str a, .str b] => some (a.toList, b.toList)
  | _ => none

def endOf : Sexp → Option EndM
  | .list [.sym "end", many, cond, .str kind, .list keys, .str phrase] =>
    some ⟨asBool many, asBool cond, kind.toList, asTexts keys, phrase.toList⟩
  | _ => none

def classOf : Sexp → Option ClassM
  | .list (.sym "cls" :: .str kind :: .list attrs :: .list idx :: rows) =>
    some ⟨kind.toList, pairsOf attrs,
      idx.filterMap (fun x => match x with
        | .list [.str n, .list as] => some (n.toList, asTexts as)
        | _ => none),
      rows.filterMap (fun r => match r with
        | .list (.sym "row" :: vs) => some (vs.filterMap valOf)
        | _ => none)⟩
  | _ => none

def assocOf : Sexp → Option AssocM
  | .list [.sym "assoc", .str rel, s, t] =>
    match endOf s, endOf t with
    | some s, some t => some ⟨rel.toList, s, t⟩
    | _, _ => none
  | _ => none

/-- `(mm (classes cls…) (assocs assoc…))` -/
def mmOf : Sexp → Option MM
  | .list [.sym "mm", .list (.sym "classes" :: cs), .list (.sym "assocs" :: as)] =>
    some ⟨cs.filterMap classOf, as.filterMap assocOf⟩
  | _ => none

def optText : Option Text → Sexp
  | some t => txt t
  | none => .sym "error"

def cellSexp (u : UC) (ty : Name) : Cell → Sexp
  | .val v => match tyOfName u ty with
    | some t => optText (fmtValue t v)
    | none => .sym "untyped"
  | .dflt => .sym "default"
  | .unset => .sym "unset"

def rowSexp (u : UC) : List (Name × Name) → List Cell → List Sexp
  | a :: as, c :: cs => cellSexp u a.2 c :: rowSexp u as cs
  | _, _ => []

def classBSexp (u : UC) (c : ClassB) : Sexp :=
  .list [.sym "cls", txt c.kind, .list (c.attrs.map fun a => .list [txt a.1, txt a.2]),
         .list (c.indices.map fun ix => .list [txt ix.1, txts ix.2]),
         .list (c.rows.map fun r => .list (rowSexp u c.attrs r))]

def endMSexp (e : EndM) : Sexp :=
  .list [ofBool e.many, ofBool e.cond, txt e.kind, txts e.keys, txt e.phrase]

def assocMSexp (a : AssocM) : Sexp := .list [.sym "assoc", txt a.relId, endMSexp a.src, endMSexp a.tgt]

def buildSexp (u : UC) : Except BuildErr BState → Sexp
  | .error .parseErr => .sym "parsing"
  | .error .metaErr => .sym "meta"
  | .error .builtinErr => .sym "builtin"
  | .ok s => .list [.sym "ok", .list (s.classes.map (classBSexp u)), .list ((s.toMM u).assocs.map assocMSexp)]

def outcomeSexp : Except BuildErr BState → Sexp
  | .error .parseErr => .sym "parsing"
  | .error .metaErr => .sym "meta"
  | .error .builtinErr => .sym "builtin"
  | .ok _ => .sym "ok"

end Pyx.Sql.Wire
