import PyxModel.Sql.Parser
import Gen.Persist

/-
  Attribute values: `serialize_value` (xtuml/persist.py) and `deserialize_value`, `guess_type_name`
  (xtuml/load.py).

  Reals.  The format `'%f'` carries a sign, an integer part and exactly six fraction digits; a model
  value of type REAL is that decimal (`neg`, `micro` = millionths).  The conversion between Python's
  binary floats and decimal numerals (`'%f' % v`, `float(text)`) is NOT modelled.
  GUARD: the non-finite doubles (inf, -inf, nan) are not values of the model at all -- `Val.real` can only hold a numeral --
  and they are outside the persistable domain: the writers emit the bare words `inf` / `-inf` / `nan` for them, for which
  the format has no token (the loader raises ParsingException).  The harness never sends such a metamodel to the model
  (harness/prop_C01.py `model_line` refuses it explicitly) and counts what the implementation does with it (`nonfinite`).
-/
namespace Pyx.Sql
open Gen.Persist (Ty Lit)

inductive Val where
  | bool (b : Bool)
  | int (z : Int)
  | real (neg : Bool) (micro : Nat)
  | str (s : Text)
  | id (n : Nat)
  deriving DecidableEq, Repr, Inhabited

/-- the table key for an attribute type as spelled in the schema: `ty.upper()` -/
def tyOfName (u : UC) (name : Text) : Option Ty := Ty.all.find? (fun t => t.chars == u.upper name)

/-! ### printing -/

/-- `'%s' % uuid.UUID(int=n)`: 32 lower-case hex digits grouped 8-4-4-4-12 -/
def guidBody (n : Nat) : Text :=
  let h := (fixedDigits 16 32 n).map hexChar
  h.take 8 ++ '-' :: ((h.drop 8).take 4 ++ '-' :: ((h.drop 12).take 4 ++ '-' :: ((h.drop 16).take 4 ++ '-' :: h.drop 20)))

def guidText (n : Nat) : Text := '"' :: (guidBody n ++ ['"'])

/-- `'%f'` of the decimal `±micro / 10^6` -/
def realText (neg : Bool) (micro : Nat) : Text :=
  (if neg then ['-'] else []) ++ natText (micro / 1000000) ++ '.' :: (fixedDigits 10 6 (micro % 1000000)).map digitChar

def strText (s : Text) : Text := '\'' :: (escapeQ s ++ ['\''])

/-- `transfer_fn[ty](value)` for a value OF THE ATTRIBUTE'S TYPE.  `none` means "outside the modelled domain", not "the
    call raises": Python formats several ill-typed cells without complaint (`'%d' % True` is `1`, `'%f' % 1` is
    `1.000000`, `'%d' % 1.5` is `1`), the model does not follow it there; only an id outside 0 ≤ n < 2^128 really raises
    (`uuid.UUID(int=n)`: ValueError).  Every theorem with the hypothesis `printItems … = some text` therefore speaks
    about metamodels whose cells hold values of their column's type. -/
def fmtValue : Ty → Val → Option Text
  | .BOOLEAN, .bool b => some (natText (if b then 1 else 0))
  | .INTEGER, .int z => some (intText z)
  | .REAL, .real neg micro => some (realText neg micro)
  | .STRING, .str s => some (strText s)
  | .UNIQUE_ID, .id n => if n < 2 ^ 128 then some (guidText n) else none
  | _, _ => none

/-- the `(FORMAT, ARG)` pairs `fmtValue` was written for (tied to `Gen.Persist.transfer` in Props) -/
def modelledTransfer : Ty → String × Gen.Persist.Arg
  | .BOOLEAN => ("%d", .intOf)
  | .INTEGER => ("%d", .v)
  | .REAL => ("%f", .v)
  | .STRING => ("'%s'", .replace ['\''] ['\'', '\''])
  | .UNIQUE_ID => ("\"%s\"", .uuidOfInt)

/-- a literal of the `null_value` table as a value of the attribute type -/
def litToVal : Ty → Lit → Option Val
  | .BOOLEAN, .bool b => some (.bool b)
  | .INTEGER, .int z => some (.int z)
  | .REAL, .float r => if r = "0.0" then some (.real false 0) else none
  | .STRING, .str s => some (.str s)
  | .UNIQUE_ID, .int z => if 0 ≤ z then some (.id z.toNat) else none
  | _, _ => none

/-- `null_value[ty]` (generated table) -/
def nullOf (t : Ty) : Option Val := litToVal t (Gen.Persist.nullValue t)

/-- the documented null value of each type (what an unset attribute is indistinguishable from) -/
def documentedNull : Ty → Val
  | .BOOLEAN => .bool false
  | .INTEGER => .int 0
  | .REAL => .real false 0
  | .STRING => .str []
  | .UNIQUE_ID => .id 0

/-- `serialize_value(value, ty)` for an upper-cased type key; `none` value = unset (`None`) -/
def printValue (t : Ty) : Option Val → Option Text
  | some v => fmtValue t v
  | none => (nullOf t).bind (fmtValue t)

/-! ### reading -/

/-- `value.isdigit()` on a token text (only NUMBER tokens qualify: ASCII digits) -/
def isDigitText (v : Text) : Bool := !v.isEmpty && v.all isAsciiDigit

/-- `int(value)` on a token text: `-`? ASCII digits -/
def pyInt (v : Text) : Option Int :=
  match v with
  | '-' :: r => if isDigitText r then some (- (Int.ofNat (natOfText r))) else none
  | _ => if isDigitText v then some (Int.ofNat (natOfText v)) else none

/-- `uuid.UUID(content).int`: `urn:` / `uuid:` removed, braces stripped, dashes removed, then exactly
    32 hexadecimal digits.  (Python's `int(hex, 16)` also accepts `_`, surrounding blanks, a sign, `0x` and
    non-ASCII digits inside those 32 characters; such contents are outside the modelled domain.) -/
def uuidParse (content : Text) : Option Nat :=
  let h := replaceAll ['u', 'u', 'i', 'd', ':'] [] (replaceAll ['u', 'r', 'n', ':'] [] content)
  let h := stripChars (fun c => c = '{' || c = '}') h
  let h := h.filter (fun c => c != '-')
  if h.length = 32 ∧ h.all isAsciiHex then some (hexOfText h) else none

/-- six fraction digits from a digit text: padded with zeros, cut after the sixth -/
def frac6 (ds : List Nat) : Nat := ofDigits ((ds ++ [0, 0, 0, 0, 0, 0]).take 6)

/-- `float(value)` on a token text: `-`? digits (`.` digits)?  The digits are `\d` characters: `float('١٢.٥')` is 12.5,
    so every digit counts with its Unicode value (`UC.dval`); fraction digits beyond the sixth are cut (a `Val.real` is a
    six-decimal numeral) -/
def parseReal (u : UC) (v : Text) : Option Val :=
  let (neg, body) := match v with
    | '-' :: r => (true, r)
    | _ => (false, v)
  let d1 := body.takeWhile u.isDigit
  if d1.isEmpty then none else
  match body.dropWhile u.isDigit with
  | [] => some (.real neg (u.natOf d1 * 1000000))
  | '.' :: r =>
    let d2 := r.takeWhile u.isDigit
    if d2.isEmpty then none
    else if (r.dropWhile u.isDigit).isEmpty then some (.real neg (u.natOf d1 * 1000000 + frac6 (d2.map u.dval)))
    else none
  | _ => none

/-- `deserialize_value(ty, value)`; `none` = `None` (caller raises ParsingException).
    The `ValueError`s of `int()`, `float()`, `uuid.UUID()` are caught and give `None` as well. -/
def deserialize (u : UC) (tyName : Text) (v : Text) : Option Val :=
  match tyOfName u tyName with
  | some .BOOLEAN =>
    if isDigitText v then some (.bool (natOfText v != 0))
    else if u.upper v = Gen.SqlLex.Kw.FALSE.chars then some (.bool false)
    else if u.upper v = Gen.SqlLex.Kw.TRUE.chars then some (.bool true)
    else none
  | some .INTEGER =>
    if v.contains '"' then (uuidParse (stripEnds v)).map (fun n => .int (Int.ofNat n))
    else (pyInt v).map .int
  | some .REAL => parseReal u v
  | some .STRING => some (.str (unescapeQ (stripEnds v)))
  | some .UNIQUE_ID =>
    if v.contains '"' then (uuidParse (stripEnds v)).map .id
    else (pyInt v).map (fun z => if 0 ≤ z then .id z.toNat else .int z)
  | none => none

/-- the optional leading `-` of `(-)?(\d+)…` -/
def stripMinus : Text → Text
  | [] => []
  | c :: r => if c = '-' then r else c :: r

/-- `guess_type_name(value)` on a value text of a statement -/
def guessType (u : UC) (v : Text) : Option Ty :=
  let up := u.upper v
  if up = Gen.SqlLex.Kw.TRUE.chars ∨ up = Gen.SqlLex.Kw.FALSE.chars then some .BOOLEAN
  else
    let body := stripMinus v
    if !(body.takeWhile u.isDigit).isEmpty then
      match body.dropWhile u.isDigit with
      | '.' :: r => if (r.takeWhile u.isDigit).isEmpty then some .INTEGER else some .REAL
      | _ => some .INTEGER
    else if (mString v).isSome then some .STRING
    else if (mGuid v).isSome then some .UNIQUE_ID
    else none

end Pyx.Sql
