import PyxModel.Sql.Lexer

/-
  Statement syntax of xtuml/load.py (the `p_*` productions of ModelLoader) as a deterministic
  recursive-descent parser over the token list.  The PLY grammar has no conflicts, so the LALR(1)
  parser accepts exactly the language of the grammar; `p_error` raises, so there is no recovery.

  Quirks kept on purpose
    * `attribute_sequence`, `value_sequence`, `identifier_sequence` are `ε | x | seq COMMA x`:
      the language is `[x] (COMMA x)*`, so a LEADING comma is accepted: `CREATE TABLE A (, a INTEGER);`
    * every reserved word listed in `p_identifier` is an identifier;
    * cardinality is NUMBER with text `1`, ID with text `M` or `MC` (exact case), or CARDINALITY (`1C`);
      any other NUMBER / ID there raises ParsingException from the action;
    * a negative value is the concatenation `'-' + text`; the statement keeps the TEXT of each value;
    * a phrase is the STRING token without its first and last character, doubled quotes un-escaped.
-/
namespace Pyx.Sql
open Gen.SqlLex (Kw)

abbrev Name := Text

/-- `CreateClassStmt`, `CreateAssociationStmt`, `CreateUniqueStmt`, `CreateInstanceStmt` -/
inductive Stmt where
  | createTable (kind : Name) (attrs : List (Name × Name))
  | createRop (relId : Name)
      (srcKind : Name) (srcCard : Text) (srcKeys : List Name) (srcPhrase : Text)
      (tgtKind : Name) (tgtCard : Text) (tgtKeys : List Name) (tgtPhrase : Text)
  | createIndex (kind : Name) (name : Name) (attrs : List Name)
  | insert (kind : Name) (values : List Text) (names : Option (List Name))
  deriving DecidableEq, Repr, Inhabited

/-- `p_identifier`: ID or one of the listed reserved words -/
def isIdentTok (t : Tok) : Bool :=
  match t.kind with
  | .ID => Gen.SqlLex.identifierAllowsID
  | .kw k => Gen.SqlLex.identifierKws.contains k
  | _ => false

def expectK (k : Kind) : List Tok → Option (List Tok)
  | t :: r => if t.kind = k then some r else none
  | [] => none

def identAt : List Tok → Option (Name × List Tok)
  | t :: r => if isIdentTok t then some (t.text, r) else none
  | [] => none

/-- `attribute : identifier identifier` -/
def attrAt : List Tok → Option ((Name × Name) × List Tok)
  | a :: b :: r => if isIdentTok a && isIdentTok b then some ((a.text, b.text), r) else none
  | _ => none

def isNumTok (t : Tok) : Bool :=
  match t.kind with
  | .FRACTION => true
  | .NUMBER => true
  | _ => false

def isPlainValueTok (t : Tok) : Bool :=
  match t.kind with
  | .FRACTION => true
  | .NUMBER => true
  | .STRING => true
  | .GUID => true
  | .kw .TRUE => true
  | .kw .FALSE => true
  | _ => false

/-- `p_value` / `p_negative_value` -/
def valueAt : List Tok → Option (Text × List Tok)
  | t :: r =>
    if isPlainValueTok t then some (t.text, r)
    else if t.kind = .MINUS then
      match r with
      | t2 :: r2 => if isNumTok t2 then some (t.text ++ t2.text, r2) else none
      | [] => none
    else none
  | [] => none

/-- `(COMMA x)*` -/
def seqTail {α : Type} (elem : List Tok → Option (α × List Tok)) : Nat → List Tok → Option (List α × List Tok)
  | fuel, toks =>
    match toks with
    | t :: r =>
      if t.kind = .COMMA then
        match fuel with
        | 0 => none
        | f + 1 =>
          match elem r with
          | some (x, r') =>
            match seqTail elem f r' with
            | some (xs, r'') => some (x :: xs, r'')
            | none => none
          | none => none
      else some ([], toks)
    | [] => some ([], [])

/-- `ε | x | seq COMMA x`  =  `[x] (COMMA x)*`.  The fuel of the tail (one unit per comma) is the number of
    tokens that are left, which always suffices. -/
def seqP {α : Type} (elem : List Tok → Option (α × List Tok)) (toks : List Tok) : Option (List α × List Tok) :=
  match elem toks with
  | some (x, r) =>
    match seqTail elem r.length r with
    | some (xs, r') => some (x :: xs, r')
    | none => none
  | none => seqTail elem toks.length toks

/-- the three `p_cardinality_*` productions with their checks -/
def cardAt : List Tok → Option (Text × List Tok)
  | t :: r =>
    match t.kind with
    | .NUMBER => if t.text = ['1'] then some (t.text, r) else none
    | .ID => if t.text = ['M'] ∨ t.text = ['M', 'C'] then some (t.text, r) else none
    | .CARDINALITY => some (t.text, r)
    | _ => none
  | [] => none

/-- `value[1:-1]` -/
def stripEnds (t : Text) : Text := t.tail.dropLast

structure EndP where
  kind : Name
  card : Text
  keys : List Name
  phrase : Text
  deriving DecidableEq, Repr

/-- `association_end : cardinality identifier LPAREN identifier_sequence RPAREN [PHRASE STRING]` -/
def endAt (toks : List Tok) : Option (EndP × List Tok) := do
  let (card, r) ← cardAt toks
  let (kind, r) ← identAt r
  let r ← expectK .LPAREN r
  let (keys, r) ← seqP identAt r
  let r ← expectK .RPAREN r
  match r with
  | ⟨.kw .PHRASE, _⟩ :: ⟨.STRING, s⟩ :: r' => some (⟨kind, card, keys, unescapeQ (stripEnds s)⟩, r')
  | _ => some (⟨kind, card, keys, []⟩, r)

def relidAt : List Tok → Option (Name × List Tok)
  | t :: r => if t.kind = .RELID then some (t.text, r) else none
  | [] => none

def pCreateTable (toks : List Tok) : Option (Stmt × List Tok) := do
  let r ← expectK (.kw .CREATE) toks
  let r ← expectK (.kw .TABLE) r
  let (kind, r) ← identAt r
  let r ← expectK .LPAREN r
  let (attrs, r) ← seqP attrAt r
  let r ← expectK .RPAREN r
  let r ← expectK .SEMICOLON r
  some (.createTable kind attrs, r)

def pCreateRop (toks : List Tok) : Option (Stmt × List Tok) := do
  let r ← expectK (.kw .CREATE) toks
  let r ← expectK (.kw .ROP) r
  let r ← expectK (.kw .REF_ID) r
  let (rel, r) ← relidAt r
  let r ← expectK (.kw .FROM) r
  let (s, r) ← endAt r
  let r ← expectK (.kw .TO) r
  let (t, r) ← endAt r
  let r ← expectK .SEMICOLON r
  some (.createRop rel s.kind s.card s.keys s.phrase t.kind t.card t.keys t.phrase, r)

def pCreateIndex (toks : List Tok) : Option (Stmt × List Tok) := do
  let r ← expectK (.kw .CREATE) toks
  let r ← expectK (.kw .UNIQUE) r
  let r ← expectK (.kw .INDEX) r
  let (name, r) ← identAt r
  let r ← expectK (.kw .ON) r
  let (kind, r) ← identAt r
  let r ← expectK .LPAREN r
  let (attrs, r) ← seqP identAt r
  let r ← expectK .RPAREN r
  let r ← expectK .SEMICOLON r
  some (.createIndex kind name attrs, r)

def pInsertOrdered (toks : List Tok) : Option (Stmt × List Tok) := do
  let r ← expectK (.kw .INSERT) toks
  let r ← expectK (.kw .INTO) r
  let (kind, r) ← identAt r
  let r ← expectK (.kw .VALUES) r
  let r ← expectK .LPAREN r
  let (vals, r) ← seqP valueAt r
  let r ← expectK .RPAREN r
  let r ← expectK .SEMICOLON r
  some (.insert kind vals none, r)

def pInsertNamed (toks : List Tok) : Option (Stmt × List Tok) := do
  let r ← expectK (.kw .INSERT) toks
  let r ← expectK (.kw .INTO) r
  let (kind, r) ← identAt r
  let r ← expectK .LPAREN r
  let (names, r) ← seqP identAt r
  let r ← expectK .RPAREN r
  let r ← expectK (.kw .VALUES) r
  let r ← expectK .LPAREN r
  let (vals, r) ← seqP valueAt r
  let r ← expectK .RPAREN r
  let r ← expectK .SEMICOLON r
  some (.insert kind vals (some names), r)

/-- `statement`: the grammar is unambiguous, at most one alternative succeeds -/
def stmtAt (toks : List Tok) : Option (Stmt × List Tok) :=
  (pCreateTable toks).orElse fun _ =>
  (pCreateRop toks).orElse fun _ =>
  (pCreateIndex toks).orElse fun _ =>
  (pInsertOrdered toks).orElse fun _ =>
  pInsertNamed toks

/-- `translation_unit : ε | statement+`; `none` = ParsingException from `p_error` or a cardinality action.
    `fuel` bounds the number of statements; `toks.length` is always enough (`parseFuel_stable`, Proofs/SqlParser.lean). -/
def parseFuel : Nat → List Tok → Option (List Stmt)
  | _, [] => some []
  | 0, _ :: _ => none
  | f + 1, t :: r =>
    match stmtAt (t :: r) with
    | some (s, rest) =>
      match parseFuel f rest with
      | some ss => some (s :: ss)
      | none => none
    | none => none

def parse (toks : List Tok) : Option (List Stmt) := parseFuel toks.length toks

/-- the productions the parser above was written for (tied to `Gen.SqlLex.grammar` in Props) -/
def modelledGrammar : List (String × List String) := [
  ("translation_unit", []),
  ("translation_unit", ["statement_sequence"]),
  ("statement_sequence", ["statement_sequence", "statement"]),
  ("statement_sequence", ["statement"]),
  ("statement", ["create_table_statement", "SEMICOLON"]),
  ("statement", ["insert_into_statement", "SEMICOLON"]),
  ("statement", ["create_rop_statement", "SEMICOLON"]),
  ("statement", ["create_index_statement", "SEMICOLON"]),
  ("create_table_statement", ["CREATE", "TABLE", "identifier", "LPAREN", "attribute_sequence", "RPAREN"]),
  ("attribute_sequence", []),
  ("attribute_sequence", ["attribute"]),
  ("attribute_sequence", ["attribute_sequence", "COMMA", "attribute"]),
  ("attribute", ["identifier", "identifier"]),
  ("insert_into_statement", ["INSERT", "INTO", "identifier", "VALUES", "LPAREN", "value_sequence", "RPAREN"]),
  ("insert_into_statement", ["INSERT", "INTO", "identifier", "LPAREN", "identifier_sequence", "RPAREN", "VALUES", "LPAREN", "value_sequence", "RPAREN"]),
  ("value_sequence", []),
  ("value_sequence", ["value_sequence", "COMMA", "value"]),
  ("value_sequence", ["value"]),
  ("value", ["FRACTION"]),
  ("value", ["NUMBER"]),
  ("value", ["STRING"]),
  ("value", ["GUID"]),
  ("value", ["TRUE"]),
  ("value", ["FALSE"]),
  ("value", ["MINUS", "FRACTION"]),
  ("value", ["MINUS", "NUMBER"]),
  ("create_rop_statement", ["CREATE", "ROP", "REF_ID", "RELID", "FROM", "association_end", "TO", "association_end"]),
  ("association_end", ["cardinality", "identifier", "LPAREN", "identifier_sequence", "RPAREN"]),
  ("association_end", ["cardinality", "identifier", "LPAREN", "identifier_sequence", "RPAREN", "PHRASE", "STRING"]),
  ("cardinality", ["NUMBER"]),
  ("cardinality", ["ID"]),
  ("cardinality", ["CARDINALITY"]),
  ("identifier_sequence", []),
  ("identifier_sequence", ["identifier_sequence", "COMMA", "identifier"]),
  ("identifier_sequence", ["identifier"]),
  ("identifier", ["ID"]),
  ("identifier", ["CREATE"]),
  ("identifier", ["INSERT"]),
  ("identifier", ["INTO"]),
  ("identifier", ["VALUES"]),
  ("identifier", ["TABLE"]),
  ("identifier", ["ROP"]),
  ("identifier", ["REF_ID"]),
  ("identifier", ["FROM"]),
  ("identifier", ["TO"]),
  ("identifier", ["PHRASE"]),
  ("identifier", ["UNIQUE"]),
  ("identifier", ["INDEX"]),
  ("identifier", ["ON"]),
  ("identifier", ["TRUE"]),
  ("identifier", ["FALSE"]),
  ("create_index_statement", ["CREATE", "UNIQUE", "INDEX", "identifier", "ON", "identifier", "LPAREN", "identifier_sequence", "RPAREN"])
]

def modelledCardinalityChecks : List (String × String) := [("p_cardinality_1", "p[1] != '1'"), ("p_cardinality_many", "p[1] not in ['M', 'MC']")]

/-- outcome of `ModelLoader.input` on a text -/
inductive Classified where
  | accepted (stmts : List Stmt)
  | parsing
  deriving DecidableEq, Repr

def classify (u : UC) (text : Text) : Classified :=
  match lex u text with
  | none => .parsing
  | some toks =>
    match parse toks with
    | some stmts => .accepted stmts
    | none => .parsing

end Pyx.Sql
