import PyxModel.Sql.Lexer
import PyxModel.Regex

/-
  The SQL lexer with its lexemes taken from the GENERIC regex engine (PyxModel/Regex.lean, builder-A2) run on the parse
  trees Python's own `re._parser` gives for the rule regexes of xtuml/load.py (`Gen.SqlLex.Rule.rx`, generated on every
  run) instead of the hand-written matchers `m…` of PyxModel/Sql/Lexer.lean: the same PLY discipline (skip `t_ignore`,
  function rules in definition order, first rule that matches wins, `t_error` raises), the same token bookkeeping
  (`mkTok`).  Proofs/SqlRegex.lean proves rule by rule that the hand matcher IS the engine on the source regex; the
  driver prints both token streams and the harness compares them with the real PLY lexer on every text.
-/
namespace Pyx.Sql
open Gen.SqlLex (Rule)
open Pyx.Regex (Regex CSet CItem Cat)

/-! ### the lexer, generic in the matcher of a rule -/

def firstMatchWith (M : Rule → Text → Option (Text × Text)) (cs : Text) : Option (Rule × Text × Text) :=
  Gen.SqlLex.ruleOrder.findSome? (fun r => (M r cs).map (fun p => (r, p.1, p.2)))

def stepWith (u : UC) (M : Rule → Text → Option (Text × Text)) : Text → Step
  | [] => .eof
  | c :: r =>
    if Gen.SqlLex.ignore.contains c then .skip r
    else match firstMatchWith M (c :: r) with
      | none => .illegal
      | some (rule, lexeme, rest) =>
        if rule.returnsToken then .emit (mkTok u rule lexeme) rest else .skip rest

def lexFuelWith (u : UC) (M : Rule → Text → Option (Text × Text)) : Nat → Text → Option (List Tok)
  | 0, _ => none
  | fuel + 1, cs =>
    match stepWith u M cs with
    | .eof => some []
    | .skip rest => lexFuelWith u M fuel rest
    | .emit t rest => (lexFuelWith u M fuel rest).map (fun ts => t :: ts)
    | .illegal => none

/-! ### … with the regex engine as matcher -/

/-- the lexeme of a rule according to the regex engine on the parse tree of the rule's source regex: the engine is run with
    the final continuation that reports how much of the input is left (`matchPrefix`, i.e. `re.match`, reports the
    difference to the length of the input instead; Proofs/SqlRegex.lean `matchPrefix_rule` ties that form as well -- this
    one does not measure the whole input for every rule that is tried).  A match of length zero does not count (PLY
    refuses rules whose regex matches the empty string; none of these does). -/
def matchRuleRx (r : Rule) (cs : Text) : Option (Text × Text) :=
  match Pyx.Regex.Regex.matchK r.rx cs (fun rest => some rest.length) with
  | some m => if m < cs.length then some (cs.take (cs.length - m), cs.drop (cs.length - m)) else none
  | none => none

/-- the token stream of a text when every rule is matched by the regex engine on its source regex (`none`: `t_error`) -/
def lexRx (u : UC) (cs : Text) : Option (List Tok) := lexFuelWith u matchRuleRx (cs.length + 1) cs

/-- Python's own tables for `\d` and `\w` outside ASCII (the engine carries those of CPython 3.12) -/
def UC.PyTables (u : UC) : Prop :=
  ∀ c : Char, 128 ≤ c.toNat → u.digit c = Pyx.Regex.isDigit c ∧ u.word c = Pyx.Regex.isWordU c

/-- the parse trees the matchers of PyxModel/Sql/Lexer.lean were written for (tied to `Gen.SqlLex.Rule.rx` in Props) -/
def modelledRx : Rule → Pyx.Regex.Regex
  | .comment => (.seq (.cls { neg := false, items := [.ch '-'] }) (.seq (.cls { neg := false, items := [.ch '-'] }) (.group (.seq (.star true (.cls { neg := true, items := [.ch '\n'] })) (.alt (.cls { neg := false, items := [.ch '\n'] }) .eps)))))
  | .COMMA => (.cls { neg := false, items := [.ch ','] })
  | .FRACTION => (.seq (.group (.seq (.cls { neg := false, items := [.cat .digit] }) (.star true (.cls { neg := false, items := [.cat .digit] })))) (.group (.seq (.cls { neg := false, items := [.ch '.'] }) (.seq (.cls { neg := false, items := [.cat .digit] }) (.star true (.cls { neg := false, items := [.cat .digit] }))))))
  | .RELID => (.seq (.cls { neg := false, items := [.ch 'R'] }) (.seq (.cls { neg := false, items := [.range '0' '9'] }) (.star true (.cls { neg := false, items := [.range '0' '9'] }))))
  | .CARDINALITY => (.group (.seq (.cls { neg := false, items := [.ch '1'] }) (.cls { neg := false, items := [.ch 'C'] })))
  | .ID => (.seq (.cls { neg := false, items := [.range 'A' 'Z', .range 'a' 'z', .ch '_'] }) (.star true (.cls { neg := false, items := [.cat .word, .ch '_'] })))
  | .LPAREN => (.cls { neg := false, items := [.ch '('] })
  | .MINUS => (.cls { neg := false, items := [.ch '-'] })
  | .NUMBER => (.seq (.cls { neg := false, items := [.range '0' '9'] }) (.star true (.cls { neg := false, items := [.range '0' '9'] })))
  | .RPAREN => (.cls { neg := false, items := [.ch ')'] })
  | .SEMICOLON => (.cls { neg := false, items := [.ch ';'] })
  | .STRING => (.seq (.cls { neg := false, items := [.ch '\''] }) (.seq (.star true (.group (.alt (.group (.seq (.cls { neg := false, items := [.ch '\''] }) (.cls { neg := false, items := [.ch '\''] }))) (.cls { neg := true, items := [.ch '\''] })))) (.cls { neg := false, items := [.ch '\''] })))
  | .GUID => (.seq (.cls { neg := false, items := [.ch '"'] }) (.seq (.star false (.group (.alt (.cls { neg := true, items := [.ch '\\', .ch '\n'] }) (.group (.seq (.cls { neg := false, items := [.ch '\\'] }) (.cls { neg := true, items := [.ch '\n'] })))))) (.cls { neg := false, items := [.ch '"'] })))
  | .newline => (.seq (.cls { neg := false, items := [.ch '\n'] }) (.star true (.cls { neg := false, items := [.ch '\n'] })))

/-- The driver runs the engine only when the generated trees are the modelled ones: a changed regex can make a
    backtracking engine take exponential time (seed C12-d: `[^']+` inside the repetition of t_STRING), which would hang
    the driver instead of reporting; a changed tree breaks `rx_tie` and the `sql_scanner_is_regex_*` theorems anyway, and
    the answer `unknown-regex` disagrees with the implementation's token stream on every text. -/
def rxKnown : Bool := Gen.SqlLex.ruleOrder.all fun r => decide (r.rx = modelledRx r)

end Pyx.Sql
