import PyxModel.Sql.Chars
import Gen.SqlLex

/-
  Character-level lexer of xtuml/load.py (PLY lexer built from the `t_*` methods of ModelLoader).

  PLY semantics modelled here
    * `token()`: skip the characters of `t_ignore`; at the first other character try the master
      regular expression, which is the alternation of the function rules IN DEFINITION ORDER
      (`Gen.SqlLex.ruleOrder`); Python's `re` takes the first alternative that matches at the position
      (ordered choice, not longest match);
    * a rule whose function does not `return t` discards its match (comment, newline);
    * no alternative matches -> `t_error` raises ParsingException ("illegal character").
  `re` semantics are hand-modelled per rule (`m…` below), including the two places where backtracking
  matters: the STRING rule `'((\'\')|[^\'])*'` (greedy, backs off into the last doubled quote when the
  text ends without a closing quote) and the GUID rule `"([^\\\n]|(\\.))*?"` (lazy: closes at the first
  quote that is not part of a backslash pair; no newline inside).
-/
namespace Pyx.Sql
open Gen.SqlLex (Rule Kw)

inductive Kind where
  | kw (k : Kw)
  | CARDINALITY | COMMA | FRACTION | GUID | ID | LPAREN | MINUS | NUMBER | RPAREN | RELID | SEMICOLON | STRING
  deriving DecidableEq, Repr, Inhabited

structure Tok where
  kind : Kind
  text : Text
  deriving DecidableEq, Repr, Inhabited

/-! ### one regular expression each: `some (lexeme, rest)` when it matches at the head of the text -/

/-- `\-\-([^\n]*\n?)` -/
def mComment : Text → Option (Text × Text)
  | c :: cs =>
    if c = '-' then
      match cs with
      | d :: r =>
        if d = '-' then
          let body := r.takeWhile (fun c => c != '\n')
          match r.dropWhile (fun c => c != '\n') with
          | [] => some ('-' :: '-' :: body, [])
          | e :: r' => if e = '\n' then some ('-' :: '-' :: (body ++ ['\n']), r') else some ('-' :: '-' :: body, e :: r')
        else none
      | [] => none
    else none
  | [] => none

/-- a one-character rule -/
def mChar (x : Char) : Text → Option (Text × Text)
  | c :: r => if c = x then some ([c], r) else none
  | [] => none

/-- `(\d+)(\.\d+)` : both `\d+` are greedy; giving back digits never helps (the next character must be `.`) -/
def mFraction (u : UC) (cs : Text) : Option (Text × Text) :=
  let d1 := cs.takeWhile u.isDigit
  if d1.isEmpty then none else
  match cs.dropWhile u.isDigit with
  | [] => none
  | e :: r =>
    if e = '.' then
      let d2 := r.takeWhile u.isDigit
      if d2.isEmpty then none else some (d1 ++ '.' :: d2, r.dropWhile u.isDigit)
    else none

/-- `R[0-9]+` -/
def mRelid : Text → Option (Text × Text)
  | c :: r =>
    if c = 'R' then
      let ds := r.takeWhile isAsciiDigit
      if ds.isEmpty then none else some ('R' :: ds, r.dropWhile isAsciiDigit)
    else none
  | [] => none

/-- `(1C)` -/
def mCardinality : Text → Option (Text × Text)
  | c :: cs =>
    if c = '1' then
      match cs with
      | d :: r => if d = 'C' then some (['1', 'C'], r) else none
      | [] => none
    else none
  | [] => none

/-- `[A-Za-z_][\w_]*` -/
def mId (u : UC) : Text → Option (Text × Text)
  | c :: r => if isIdStart c then some (c :: r.takeWhile u.isWord, r.dropWhile u.isWord) else none
  | [] => none

/-- `[0-9]+` -/
def mNumber (cs : Text) : Option (Text × Text) :=
  let ds := cs.takeWhile isAsciiDigit
  if ds.isEmpty then none else some (ds, cs.dropWhile isAsciiDigit)

/-- after the opening quote of `\'((\'\')|[^\'])*\'`: `some (body, rest after the closing quote)`.
    The star is greedy: it takes doubled quotes and non-quote characters as long as it can.  If it then
    stands at a single quote the match is complete.  If it stands at the end of the text the engine
    backs off: the only iterations that can be undone usefully are doubled quotes (the first quote of
    the pair then closes the string); the LAST such pair is tried first. -/
def scanStr : Text → Option (Text × Text)
  | [] => none
  | c :: rest =>
    if c = '\'' then
      match rest with
      | [] => some ([], [])
      | d :: rest' =>
        if d = '\'' then
          match scanStr rest' with
          | some (b, r) => some ('\'' :: '\'' :: b, r)
          | none => some ([], d :: rest')
        else some ([], d :: rest')
    else
      match scanStr rest with
      | some (b, r) => some (c :: b, r)
      | none => none

def mString : Text → Option (Text × Text)
  | c :: r =>
    if c = '\'' then
      match scanStr r with
      | some (b, rest) => some ('\'' :: (b ++ ['\'']), rest)
      | none => none
    else none
  | [] => none

/-- after the opening quote of `\"([^\\\n]|(\\.))*?\"`: `some (content, rest after the closing quote)`.
    Lazy star: at every iteration boundary the closing quote is tried first.  An iteration is either one
    character other than backslash and newline, or a backslash followed by any character but newline. -/
def scanGuid : Text → Option (Text × Text)
  | [] => none
  | c :: rest =>
    if c = '"' then some ([], rest)
    else if c = '\n' then none
    else if c = '\\' then
      match rest with
      | [] => none
      | d :: rest' =>
        if d = '\n' then none
        else match scanGuid rest' with
          | some (b, r) => some ('\\' :: d :: b, r)
          | none => none
    else
      match scanGuid rest with
      | some (b, r) => some (c :: b, r)
      | none => none

def mGuid : Text → Option (Text × Text)
  | c :: r =>
    if c = '"' then
      match scanGuid r with
      | some (b, rest) => some ('"' :: (b ++ ['"']), rest)
      | none => none
    else none
  | [] => none

/-- `\n+` -/
def mNewline (cs : Text) : Option (Text × Text) :=
  let ds := cs.takeWhile (fun c => c == '\n')
  if ds.isEmpty then none else some (ds, cs.dropWhile (fun c => c == '\n'))

/-- the hand-modelled matcher of each `t_*` rule -/
def matchRule (u : UC) : Rule → Text → Option (Text × Text)
  | .comment => mComment
  | .COMMA => mChar ','
  | .FRACTION => mFraction u
  | .RELID => mRelid
  | .CARDINALITY => mCardinality
  | .ID => mId u
  | .LPAREN => mChar '('
  | .MINUS => mChar '-'
  | .NUMBER => mNumber
  | .RPAREN => mChar ')'
  | .SEMICOLON => mChar ';'
  | .STRING => mString
  | .GUID => mGuid
  | .newline => mNewline

/-- the regular expression each matcher above was written for (tied to `Gen.SqlLex.Rule.regex` in Props) -/
def modelledRegex : Rule → String
  | .comment => "\\-\\-([^\\n]*\\n?)"
  | .COMMA => ","
  | .FRACTION => "(\\d+)(\\.\\d+)"
  | .RELID => "R[0-9]+"
  | .CARDINALITY => "(1C)"
  | .ID => "[A-Za-z_][\\w_]*"
  | .LPAREN => "\\("
  | .MINUS => "-"
  | .NUMBER => "[0-9]+"
  | .RPAREN => "\\)"
  | .SEMICOLON => ";"
  | .STRING => "\\'((\\'\\')|[^\\'])*\\'"
  | .GUID => "\\\"([^\\\\\\n]|(\\\\.))*?\\\""
  | .newline => "\\n+"

/-- token type of a returned match (before the reserved-word retyping of `t_ID`) -/
def ruleKind : Rule → Kind
  | .COMMA => .COMMA
  | .FRACTION => .FRACTION
  | .RELID => .RELID
  | .CARDINALITY => .CARDINALITY
  | .ID => .ID
  | .LPAREN => .LPAREN
  | .MINUS => .MINUS
  | .NUMBER => .NUMBER
  | .RPAREN => .RPAREN
  | .SEMICOLON => .SEMICOLON
  | .STRING => .STRING
  | .GUID => .GUID
  | .comment => .ID      -- never returned
  | .newline => .ID      -- never returned

/-- `vup in self.reserved` -/
def kwOf (up : Text) : Option Kw := Kw.all.find? (fun k => k.chars == up)

/-- the token a rule function returns for its lexeme -/
def mkTok (u : UC) (r : Rule) (lexeme : Text) : Tok :=
  if r.retypesReserved then
    match kwOf (u.upper lexeme) with
    | some k => ⟨.kw k, lexeme⟩
    | none => ⟨ruleKind r, lexeme⟩
  else ⟨ruleKind r, lexeme⟩

/-- the master regular expression: first rule in definition order that matches -/
def firstMatch (u : UC) (cs : Text) : Option (Rule × Text × Text) :=
  Gen.SqlLex.ruleOrder.findSome? (fun r => (matchRule u r cs).map (fun p => (r, p.1, p.2)))

/-- one round of PLY's `token()` loop -/
inductive Step where
  | eof
  | skip (rest : Text)                 -- an ignored character or a discarded match
  | emit (t : Tok) (rest : Text)
  | illegal                            -- `t_error`
  deriving Repr

def step (u : UC) : Text → Step
  | [] => .eof
  | c :: r =>
    if Gen.SqlLex.ignore.contains c then .skip r
    else match firstMatch u (c :: r) with
      | none => .illegal
      | some (rule, lexeme, rest) =>
        if rule.returnsToken then .emit (mkTok u rule lexeme) rest else .skip rest

/-- all tokens of a text; `none` = ParsingException from `t_error`.  Running out of fuel also gives `none`;
    `lexFuel_stable` (Proofs/SqlLexer.lean) shows fuel `length + 1` is always enough. -/
def lexFuel (u : UC) : Nat → Text → Option (List Tok)
  | 0, _ => none
  | fuel + 1, cs =>
    match step u cs with
    | .eof => some []
    | .skip rest => lexFuel u fuel rest
    | .emit t rest => (lexFuel u fuel rest).map (fun ts => t :: ts)
    | .illegal => none

def lex (u : UC) (cs : Text) : Option (List Tok) := lexFuel u (cs.length + 1) cs

end Pyx.Sql
