import PyxModel.Sql.Build

/-
  The links a load produces, as a SPECIFICATION on the metamodel the writers see (`MM`, PyxModel/Sql/Printer.lean):
  for every association a nested loop over the rows of its source class and of its target class; a pair is linked iff
  for every pair of key attributes both values are not null and equal.  This is what `populate_connections`
  (xtuml/load.py) computes with `Link.compute_lookup_key` / `Link.compute_index_key` (xtuml/meta.py): a key is a
  frozenset of (target attribute, value) pairs, absent when `_is_null` holds for one of its values; C03 proves that the
  batch loader's hash join is exactly the nested join.

  `_is_null(instance, name)`: `None` is null; a truthy value is not; a falsy value is null only for a UNIQUE_ID
  attribute (value == 0) or a STRING attribute (empty).  INTEGER 0, REAL 0.0 and BOOLEAN False are NOT null.
  Values are compared with Python's `==` (and hashed accordingly): True == 1 == 1.0, -0.0 == 0.0.
-/
namespace Pyx.Sql
open Gen.Persist (Ty)

/-- `_is_null` on a stored value of an attribute whose type name selects `t` (`none`: not a core type) -/
def isNullL (t : Option Ty) : Option Val → Bool
  | none => true
  | some (.id n) => (t == some .UNIQUE_ID) && n == 0
  | some (.str s) => (t == some .STRING) && s.isEmpty
  | some _ => false

/-- a number as Python compares it: sign and millionths (`none` for strings) -/
def pyNum : Val → Option (Bool × Nat)
  | .bool b => some (false, if b then 1000000 else 0)
  | .int z => some (decide (z < 0), z.natAbs * 1000000)
  | .id n => some (false, n * 1000000)
  | .real neg micro => some (neg && micro != 0, micro)
  | .str _ => none

/-- Python's `==` on attribute values -/
def valKeyEq (a b : Val) : Bool :=
  match a, b with
  | .str s, .str t => s == t
  | .str _, _ => false
  | _, .str _ => false
  | x, y => pyNum x == pyNum y

/-- position of a source key: `attr in instance.__dict__` is an exact match (a referential attribute spelled in
    another letter case is read through its property and is null while the links are being computed) -/
def colExact (attrs : List (Name × Name)) (k : Name) : Option Nat := attrs.findIdx? (fun a => a.1 == k)

/-- position of a target key: exact match, else `Class.__getattr__`'s case-insensitive match -/
def colCI (u : UC) (attrs : List (Name × Name)) (k : Name) : Option Nat :=
  match colExact attrs k with
  | some i => some i
  | none => attrs.findIdx? (fun a => u.upper a.1 == u.upper k)

/-- type and value of a key cell of a row -/
def keyCell (u : UC) (c : ClassM) (row : List (Option Val)) (col : Option Nat) : Option Ty × Option Val :=
  match col with
  | none => (none, none)
  | some i => ((c.attrs[i]?).bind (fun a => tyOfName u a.2), (row[i]?).join)

/-- both cells are not null and equal -/
def cellMatch (s t : Option Ty × Option Val) : Bool :=
  !isNullL s.1 s.2 && !isNullL t.1 t.2 &&
    (match s.2, t.2 with
     | some x, some y => valKeyEq x y
     | _, _ => false)

/-- a source row and a target row are linked across an association -/
def rowsMatch (u : UC) (a : AssocM) (sc tc : ClassM) (s t : List (Option Val)) : Bool :=
  (a.src.keys.zip a.tgt.keys).all fun kk =>
    cellMatch (keyCell u sc s (colExact sc.attrs kk.1)) (keyCell u tc t (colCI u tc.attrs kk.2))

def MM.findClass (u : UC) (m : MM) (kind : Name) : Option ClassM :=
  m.classes.find? (fun c => u.upper c.kind == u.upper kind)

/-- indices of the rows of `ts` that match `s` -/
def partnersOf (p : List (Option Val) → Bool) : Nat → List (List (Option Val)) → List Nat
  | _, [] => []
  | j, t :: ts => if p t then j :: partnersOf p (j + 1) ts else partnersOf p (j + 1) ts

def joinRows (f : List (Option Val) → List (Option Val) → Bool) (T : List (List (Option Val))) :
    Nat → List (List (Option Val)) → List (Nat × Nat)
  | _, [] => []
  | i, s :: ss => (partnersOf (f s) 0 T).map (fun j => (i, j)) ++ joinRows f T (i + 1) ss

/-- the link pairs (source row index, target row index, both within their class) of one association -/
def linksOfAssoc (u : UC) (m : MM) (a : AssocM) : List (Nat × Nat) :=
  match m.findClass u a.src.kind, m.findClass u a.tgt.kind with
  | some sc, some tc => joinRows (rowsMatch u a sc tc) tc.rows 0 sc.rows
  | _, _ => []

/-- the links of a metamodel: per association, in the order of `m.assocs` -/
def linksOf (u : UC) (m : MM) : List (AssocM × List (Nat × Nat)) := m.assocs.map (fun a => (a, linksOfAssoc u m a))

/-! ### what `getattr` returns for a referential attribute after the load

  `populate_connections` ends by deleting every referential attribute (the source keys of the associations, by their exact
  names) from the instance `__dict__`.  From then on `getattr(inst, n)` runs the property `formalize` installed: the
  property of the LAST association (in definition order) that has `n` as source key asks `navigate_one` for the partner
  across that association; without a partner it falls back to the property of the association before it (`alt_prop`), and
  without any to `None`; with a partner it reads the paired identifying attribute of the partner.

  `readThrough` models ONE step of that: the partner's identifying attribute is taken from the partner's stored cell.  When
  that attribute is referential itself Python reads it through the partner's links in turn (C02 / C03 model that with fuel;
  on cyclic keys it does not terminate: RecursionError).  On a metamodel that is a FIXED POINT of `readThrough` -- every
  stored cell already is what its own read returns -- the nested read returns the stored cell as well, so the fixed point
  (`MM.ReadsFixed`, up to unset ≡ null value) is what the theorems of C01 ask of the reloaded metamodel. -/

/-- the (association, paired identifying attribute) through which attribute `n` of the class `kind` is read, in the order
    the properties consult them: last formalized first -/
def refOccurrences (u : UC) (m : MM) (kind n : Name) : List (AssocM × Name) :=
  (m.assocs.flatMap fun a =>
    if u.upper a.src.kind == u.upper kind then ((a.src.keys.zip a.tgt.keys).filter (fun kk => kk.1 == n)).map (fun kk => (a, kk.2))
    else []).reverse

/-- `fget` along the chain of properties: the first association with a partner decides -/
def readRef (u : UC) (m : MM) (sc : ClassM) (s : List (Option Val)) : List (AssocM × Name) → Option Val
  | [] => none
  | (a, p) :: rest =>
    match m.findClass u a.tgt.kind with
    | none => readRef u m sc s rest
    | some tc =>
      match tc.rows.find? (rowsMatch u a sc tc s) with
      | some t => (keyCell u tc t (colCI u tc.attrs p)).2
      | none => readRef u m sc s rest

/-- one cell: a referential attribute through the links, any other as stored -/
def readCell (u : UC) (m : MM) (c : ClassM) (s : List (Option Val)) (n : Name) (v : Option Val) : Option Val :=
  if (refOccurrences u m c.kind n).isEmpty then v else readRef u m c s (refOccurrences u m c.kind n)

/-- the cells `getattr` returns for one row -/
def readCells (u : UC) (m : MM) (c : ClassM) (s : List (Option Val)) : List (Name × Name) → List (Option Val) → List (Option Val)
  | a :: as, v :: vs => readCell u m c s a.1 v :: readCells u m c s as vs
  | _, vs => vs

def readRow (u : UC) (m : MM) (c : ClassM) (s : List (Option Val)) : List (Option Val) := readCells u m c s c.attrs s

/-- the metamodel as `getattr` shows it after the load -/
def MM.readThrough (u : UC) (m : MM) : MM :=
  ⟨m.classes.map (fun c => { c with rows := c.rows.map (readRow u m c) }), m.assocs⟩

end Pyx.Sql
