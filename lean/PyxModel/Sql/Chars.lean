/-
  Character classes, decimal / hexadecimal numerals and small list helpers used by the model of
  pyxtuml's SQL dialect (xtuml/load.py, xtuml/persist.py).  No Mathlib, no `import Lean`.

  Python's `re` is Unicode-aware for `str` patterns: `\d` and `\w` also match non-ASCII
  characters and `str.upper()` maps some non-ASCII letters onto ASCII ones (`ſ` -> `S`).  Those
  tables belong to the Python runtime, not to pyxtuml; they are a PARAMETER (`UC`) of the model.
  The harness supplies the classes of the non-ASCII characters that occur in a case, the theorems
  hold for every `UC`.
-/
namespace Pyx.Sql

abbrev Text := List Char

/-- Python's view of the NON-ASCII characters (consulted only for code points ≥ 128) -/
structure UC where
  digit : Char → Bool          -- `\d`
  word : Char → Bool           -- `\w`
  upperOf : Char → List Char   -- `str.upper()` of the one-character string
  digitOf : Char → Nat         -- `int(ch)` of a non-ASCII `\d` character (what `float()` reads it as)

/-- the world in which no non-ASCII character is a digit or a word character -/
def UC.ascii : UC := ⟨fun _ => false, fun _ => false, fun c => [c], fun _ => 0⟩

def isAsciiDigit (c : Char) : Bool := decide (48 ≤ c.toNat) && decide (c.toNat ≤ 57)
def isAsciiUpper (c : Char) : Bool := decide (65 ≤ c.toNat) && decide (c.toNat ≤ 90)
def isAsciiLower (c : Char) : Bool := decide (97 ≤ c.toNat) && decide (c.toNat ≤ 122)
def isAsciiAlpha (c : Char) : Bool := isAsciiUpper c || isAsciiLower c
/-- `[A-Za-z_]` -/
def isIdStart (c : Char) : Bool := isAsciiAlpha c || c == '_'
/-- `[A-Za-z0-9_]` -/
def isAsciiWord (c : Char) : Bool := isAsciiAlpha c || isAsciiDigit c || c == '_'
def isAsciiHex (c : Char) : Bool :=
  isAsciiDigit c || (decide (97 ≤ c.toNat) && decide (c.toNat ≤ 102)) || (decide (65 ≤ c.toNat) && decide (c.toNat ≤ 70))

/-- `\d` -/
def UC.isDigit (u : UC) (c : Char) : Bool := if c.toNat < 128 then isAsciiDigit c else u.digit c
/-- `[\w_]` -/
def UC.isWord (u : UC) (c : Char) : Bool := if c.toNat < 128 then isAsciiWord c else u.word c

def asciiUpper (c : Char) : Char := if isAsciiLower c then Char.ofNat (c.toNat - 32) else c
def UC.up (u : UC) (c : Char) : List Char := if c.toNat < 128 then [asciiUpper c] else u.upperOf c
/-- `str.upper()` -/
def UC.upper (u : UC) (s : Text) : Text := s.flatMap u.up

/-! ### numerals -/

def digitChar : Nat → Char
  | 0 => '0' | 1 => '1' | 2 => '2' | 3 => '3' | 4 => '4'
  | 5 => '5' | 6 => '6' | 7 => '7' | 8 => '8' | _ => '9'

def hexChar : Nat → Char
  | 0 => '0' | 1 => '1' | 2 => '2' | 3 => '3' | 4 => '4' | 5 => '5' | 6 => '6' | 7 => '7'
  | 8 => '8' | 9 => '9' | 10 => 'a' | 11 => 'b' | 12 => 'c' | 13 => 'd' | 14 => 'e' | _ => 'f'

/-- value of an ASCII decimal digit (ONLY of those: for the other `\\d` characters the code point minus 48 is not the digit's
    value; wherever such a character can occur -- the FRACTION rule -- `UC.dval` below is used) -/
def digitVal (c : Char) : Nat := c.toNat - 48

/-- value of an ASCII hexadecimal digit (either case) -/
def hexVal (c : Char) : Nat :=
  if isAsciiDigit c then c.toNat - 48
  else if decide (97 ≤ c.toNat) && decide (c.toNat ≤ 102) then c.toNat - 87
  else c.toNat - 55

/-- decimal digits of `n`, least significant first; `[0]` for zero -/
def digitsRev (n : Nat) : List Nat :=
  if h : n < 10 then [n] else (n % 10) :: digitsRev (n / 10)
termination_by n
decreasing_by omega

/-- decimal digits of `n`, most significant first (the minimal numeral: no leading zero) -/
def digits (n : Nat) : List Nat := (digitsRev n).reverse

/-- value of a big-endian digit list in base `b` -/
def ofDigitsB (b : Nat) (ds : List Nat) : Nat := ds.foldl (fun a d => b * a + d) 0

def ofDigits (ds : List Nat) : Nat := ofDigitsB 10 ds

/-- exactly `w` big-endian digits of `n` in base `b` (the low `w` digits) -/
def fixedDigits (b : Nat) : Nat → Nat → List Nat
  | 0, _ => []
  | w + 1, n => fixedDigits b w (n / b) ++ [n % b]

/-- `'%d' % n` for a natural number -/
def natText (n : Nat) : Text := (digits n).map digitChar

/-- `'%d' % z` -/
def intText (z : Int) : Text :=
  match z with
  | .ofNat n => natText n
  | .negSucc n => '-' :: natText (n + 1)

/-- value of a text of ASCII digits (`int(text)` on such a text; leading zeros allowed) -/
def natOfText (t : Text) : Nat := ofDigits (t.map digitVal)

/-- the value of a `\d` character as `float()` reads it: ASCII digits by their code, the others (Arabic-Indic, NKo, …
    digits, which the FRACTION rule `(\d+)(\.\d+)` lets through) by Python's Unicode table -/
def UC.dval (u : UC) (c : Char) : Nat := if c.toNat < 128 then digitVal c else u.digitOf c

def UC.natOf (u : UC) (t : Text) : Nat := ofDigits (t.map u.dval)

def hexOfText (t : Text) : Nat := ofDigitsB 16 (t.map hexVal)

/-! ### list helpers -/

/-- `s.startswith(p)` and the remainder -/
def stripPrefix? : Text → Text → Option Text
  | [], s => some s
  | _ :: _, [] => none
  | p :: ps, c :: cs => if p = c then stripPrefix? ps cs else none

/-- `s.replace(pat, rep)` for a non-empty pattern: left to right, non-overlapping (fuel = length) -/
def replaceAllF (pat rep : Text) : Nat → Text → Text
  | 0, _ => []
  | _ + 1, [] => []
  | f + 1, c :: cs =>
    match stripPrefix? pat (c :: cs) with
    | some rest => rep ++ replaceAllF pat rep f rest
    | none => c :: replaceAllF pat rep f cs

def replaceAll (pat rep : Text) (s : Text) : Text :=
  if pat.isEmpty then s else replaceAllF pat rep s.length s

/-- `v.replace("'", "''")` -/
def escapeQ (s : Text) : Text := s.flatMap (fun c => if c = '\'' then ['\'', '\''] else [c])

/-- `value[1:-1].replace("''", "'")` (after the slicing) -/
def unescapeQ : Text → Text
  | [] => []
  | [c] => [c]
  | c :: d :: rest => if c = '\'' ∧ d = '\'' then '\'' :: unescapeQ rest else c :: unescapeQ (d :: rest)

/-- `s.strip(chars)` -/
def stripChars (p : Char → Bool) (s : Text) : Text :=
  ((s.dropWhile p).reverse.dropWhile p).reverse

/-- `sep.join(parts)` -/
def joinWith (sep : Text) : List Text → Text
  | [] => []
  | [x] => x
  | x :: y :: rest => x ++ sep ++ joinWith sep (y :: rest)

/-- lexicographic order on texts by code point (Python's `str` comparison) -/
def textLe : Text → Text → Bool
  | [], _ => true
  | _ :: _, [] => false
  | a :: as, b :: bs => if a.toNat < b.toNat then true else if b.toNat < a.toNat then false else textLe as bs

/-- stable insertion sort by a key (Python's `sorted(xs, key=…)` is stable, so the result is the same) -/
def insertBy {α : Type} (le : α → α → Bool) (x : α) : List α → List α
  | [] => [x]
  | y :: ys => if le y x then y :: insertBy le x ys else x :: y :: ys

def sortBy {α : Type} (le : α → α → Bool) (xs : List α) : List α :=
  xs.foldl (fun acc x => insertBy le x acc) []

end Pyx.Sql
