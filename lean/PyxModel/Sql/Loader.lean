import PyxModel.Sql.Build

/-
  `ModelLoader` as a state machine.  `input` creates a fresh lexer, parses the whole text and only then
  extends `self.statements`; the parser object is reused but keeps no state between calls (its stacks
  are locals of `parse`).  A text that raises leaves `statements` untouched.
-/
namespace Pyx.Sql

structure Loader where
  statements : List Stmt
  deriving DecidableEq, Repr, Inhabited

def Loader.fresh : Loader := ⟨[]⟩

inductive InputOutcome where
  | accepted
  | parsing
  deriving DecidableEq, Repr

/-- `ModelLoader.input(text)` -/
def Loader.input (u : UC) (l : Loader) (text : Text) : Loader × InputOutcome :=
  match classify u text with
  | .accepted stmts => (⟨l.statements ++ stmts⟩, .accepted)
  | .parsing => (l, .parsing)

/-- a sequence of `input` calls on one loader -/
def Loader.inputs (u : UC) : Loader → List Text → Loader
  | l, [] => l
  | l, t :: ts => Loader.inputs u (l.input u t).1 ts

/-- `ModelLoader.build_metamodel()` -/
def Loader.build (u : UC) (l : Loader) : Except BuildErr BState := Pyx.Sql.build u l.statements

end Pyx.Sql
