import PyxModel.Sql.Value

/-
  The text writers of xtuml/persist.py.

  `Item` is one printed statement together with what the writer reads from the metamodel
  (`serialize_class`, `serialize_association`, `serialize_instance`, the `CREATE UNIQUE INDEX` line).
  `MM` is the part of a metamodel the writers look at, in the orders Python keeps it:
  `metaclasses` is a dict keyed by the upper-cased kind (insertion order), `associations` a list,
  `indices` a dict per class (insertion order), `storage` a list per class.
  Each route (`serialize_*`, and the separately written `persist_*`) is a list of items in its own order.
-/
namespace Pyx.Sql
open Gen.Persist (Ty)

/-- one end of an association as `serialize_association` prints it -/
structure EndM where
  many : Bool
  cond : Bool
  kind : Name          -- `link.to_metaclass.kind`
  keys : List Name
  phrase : Text        -- the phrase printed after THIS end
  deriving DecidableEq, Repr, Inhabited

inductive Item where
  | cls (kind : Name) (attrs : List (Name × Name))
  | assoc (relId : Name) (src tgt : EndM)
  | inst (kind : Name) (attrs : List (Name × Name)) (vals : List (Option Val))
  | index (name kind : Name) (attrs : List Name)
  deriving DecidableEq, Repr, Inhabited

/-- `Link.cardinality` -/
def cardText (many cond : Bool) : Text :=
  (if many then ['M'] else ['1']) ++ (if cond then ['C'] else [])

def endText (e : EndM) : Text :=
  cardText e.many e.cond ++ ' ' :: e.kind ++ [' ', '('] ++ joinWith [',', ' '] e.keys ++ [')'] ++
    (if e.phrase.isEmpty then [] else " PHRASE '".toList ++ escapeQ e.phrase ++ ['\''])

/-- `serialize_value(getattr(instance, name), ty)`; `none` = the call raises (unknown type: KeyError) -/
def cellText (u : UC) (ty : Name) (v : Option Val) : Option Text :=
  match tyOfName u ty with
  | none => none
  | some t => printValue t v

/-- the lines of `serialize_instance` between `VALUES (` and the closing `);`
    (the model carries one, possibly unset, value per attribute) -/
def valueLines (u : UC) : List (Name × Name) → List (Option Val) → Option Text
  | [], _ => some []
  | _ :: _, [] => none
  | (name, ty) :: attrs, v :: vs =>
    match cellText u ty v, valueLines u attrs vs with
    | some txt, some rest =>
      some ("\n    ".toList ++ txt ++ (if attrs.isEmpty then " -- ".toList else ", -- ".toList) ++ name ++ " : ".toList ++ ty ++ rest)
    | _, _ => none

/-- the value texts of one row -/
def rowTexts (u : UC) : List (Name × Name) → List (Option Val) → Option (List Text)
  | [], _ => some []
  | _ :: _, [] => none
  | (_, ty) :: attrs, v :: vs =>
    match cellText u ty v, rowTexts u attrs vs with
    | some txt, some rest => some (txt :: rest)
    | _, _ => none

def Item.print (u : UC) : Item → Option Text
  | .cls kind attrs =>
    some ("CREATE TABLE ".toList ++ kind ++ " (\n    ".toList ++
      joinWith ",\n    ".toList (attrs.map (fun a => a.1 ++ ' ' :: u.upper a.2)) ++ "\n);\n".toList)
  | .assoc rel s t =>
    some ("CREATE ROP REF_ID ".toList ++ rel ++ " FROM ".toList ++ endText s ++ " TO ".toList ++ endText t ++ ";\n".toList)
  | .inst kind attrs vals =>
    match valueLines u attrs vals with
    | some ls => some ("INSERT INTO ".toList ++ kind ++ " VALUES (".toList ++ ls ++ "\n);\n".toList)
    | none => none
  | .index name kind attrs =>
    some ("CREATE UNIQUE INDEX ".toList ++ name ++ " ON ".toList ++ kind ++ " (".toList ++
      joinWith [',', ' '] attrs ++ ");\n".toList)

/-- the text of a list of items; `none` when some value cannot be printed -/
def printItems (u : UC) : List Item → Option Text
  | [] => some []
  | it :: rest =>
    match it.print u, printItems u rest with
    | some a, some b => some (a ++ b)
    | _, _ => none

/-- the statement string constants the printers above were written for (tied to `Gen.Persist.templates`) -/
def modelledTemplates : List (String × List String) := [
  ("serialize_value", ["BOOLEAN", "INTEGER", "REAL", "STRING", "", "UNIQUE_ID", "BOOLEAN", "%d", "INTEGER", "%d", "REAL", "%f", "STRING", "'%s'", "'", "''", "UNIQUE_ID", "\"%s\""]),
  ("serialize_instance", ["INSERT INTO %s VALUES (", "\x0a    ", ", -- %s : %s", " -- %s : %s", "\x0a);\x0a"]),
  ("serialize_instances", [""]),
  ("serialize_association", ["%s %s (%s)", ", ", " PHRASE '%s'", "'", "''", "%s %s (%s)", ", ", " PHRASE '%s'", "'", "''", "CREATE ROP REF_ID %s FROM %s TO %s;\x0a"]),
  ("serialize_class", ["%s %s", "CREATE TABLE %s (\x0a    ", ",\x0a    ", "\x0a);\x0a"]),
  ("serialize_unique_identifiers", ["", ", ", "CREATE UNIQUE INDEX %s ON %s (%s);\x0a"]),
  ("serialize_classes", [""]),
  ("serialize_associations", [""]),
  ("serialize_schema", []),
  ("serialize_database", [""]),
  ("serialize", []),
  ("persist_instances", ["w"]),
  ("persist_schema", ["w"]),
  ("persist_unique_identifiers", ["w", ", ", "CREATE UNIQUE INDEX %s ON %s (%s);\x0a"]),
  ("persist_database", ["w", ", ", "CREATE UNIQUE INDEX %s ON %s (%s);\x0a"])
]

/-- the loop iterables / sort keys the routes below were written for (tied to `Gen.Persist.orderings`) -/
def modelledOrderings : List (String × List String) := [
  ("serialize_value", []),
  ("serialize_instance", ["metaclass.attributes"]),
  ("serialize_instances", ["metamodel.instances"]),
  ("serialize_association", []),
  ("serialize_class", ["metaclass.attributes"]),
  ("serialize_unique_identifiers", ["sorted(metamodel.metaclasses.keys())", "metaclass.indices.items()"]),
  ("serialize_classes", ["sorted(metamodel.metaclasses.keys())"]),
  ("serialize_associations", ["lambda x: (x.rel_id, x.target_link.from_metaclass.kind)", "sorted(metamodel.associations, key=orderby)"]),
  ("serialize_schema", []),
  ("serialize_database", []),
  ("serialize", []),
  ("persist_instances", ["metamodel.instances"]),
  ("persist_schema", ["sorted(metamodel.metaclasses.keys())", "sorted(metamodel.associations, key=lambda x: x.rel_id)", "lambda x: x.rel_id"]),
  ("persist_unique_identifiers", ["metamodel.metaclasses.values()", "metaclass.indices.items()"]),
  ("persist_database", ["sorted(metamodel.metaclasses.keys())", "metaclass.indices.items()", "sorted(metamodel.associations, key=lambda x: x.rel_id)", "lambda x: x.rel_id", "metamodel.instances"])
]

def modelledCalls : List (String × List String) := [
  ("serialize_value", []),
  ("serialize_instance", ["serialize_value"]),
  ("serialize_instances", ["serialize_instance"]),
  ("serialize_association", []),
  ("serialize_class", []),
  ("serialize_unique_identifiers", []),
  ("serialize_classes", ["serialize_class"]),
  ("serialize_associations", ["serialize_association"]),
  ("serialize_schema", ["serialize_classes", "serialize_associations"]),
  ("serialize_database", ["serialize_schema", "serialize_instances", "serialize_unique_identifiers"]),
  ("serialize", ["serialize_database", "serialize_class", "serialize_association", "serialize_instance"]),
  ("persist_instances", ["serialize_instance"]),
  ("persist_schema", ["serialize_class", "serialize_association"]),
  ("persist_unique_identifiers", []),
  ("persist_database", ["serialize_class", "serialize_association", "serialize_instance"])
]

/-! ### the metamodel as the writers see it -/

structure ClassM where
  kind : Name
  attrs : List (Name × Name)
  indices : List (Name × List Name)
  rows : List (List (Option Val))
  deriving DecidableEq, Repr, Inhabited

/-- an `Association`: `src` is what `s1` is printed from (source_link.cardinality, the source class's
    kind, source_keys, target_link.phrase), `tgt` what `s2` is printed from -/
structure AssocM where
  relId : Name
  src : EndM
  tgt : EndM
  deriving DecidableEq, Repr, Inhabited

structure MM where
  classes : List ClassM      -- dict order of `metamodel.metaclasses`
  assocs : List AssocM       -- `metamodel.associations`
  deriving DecidableEq, Repr, Inhabited

def ClassM.item (c : ClassM) : Item := .cls c.kind c.attrs
def ClassM.indexItems (c : ClassM) : List Item := c.indices.map (fun ix => .index ix.1 c.kind ix.2)
def ClassM.instItems (c : ClassM) : List Item := c.rows.map (fun r => .inst c.kind c.attrs r)
def AssocM.item (a : AssocM) : Item := .assoc a.relId a.src a.tgt

/-- `sorted(metamodel.metaclasses.keys())`: the dict keys are the upper-cased kinds -/
def MM.sortedClasses (u : UC) (m : MM) : List ClassM :=
  sortBy (fun a b => textLe (u.upper a.kind) (u.upper b.kind)) m.classes

/-- order of the pair `(rel_id, source kind)` -/
def pairLe (a b : Text × Text) : Bool :=
  if a.1 = b.1 then textLe a.2 b.2 else textLe a.1 b.1

/-- `sorted(associations, key=lambda x: (x.rel_id, x.target_link.from_metaclass.kind))` -/
def MM.assocsByIdKind (m : MM) : List AssocM :=
  sortBy (fun a b => pairLe (a.relId, a.src.kind) (b.relId, b.src.kind)) m.assocs

/-- `sorted(associations, key=lambda x: x.rel_id)` -/
def MM.assocsById (m : MM) : List AssocM :=
  sortBy (fun a b => textLe a.relId b.relId) m.assocs

def MM.serializeClasses (u : UC) (m : MM) : List Item := (m.sortedClasses u).map ClassM.item
def MM.serializeAssociations (m : MM) : List Item := m.assocsByIdKind.map AssocM.item
def MM.serializeSchema (u : UC) (m : MM) : List Item := m.serializeClasses u ++ m.serializeAssociations
def MM.serializeInstances (m : MM) : List Item := m.classes.flatMap ClassM.instItems
def MM.serializeUniqueIdentifiers (u : UC) (m : MM) : List Item := (m.sortedClasses u).flatMap ClassM.indexItems
def MM.serializeDatabase (u : UC) (m : MM) : List Item :=
  m.serializeSchema u ++ m.serializeInstances ++ m.serializeUniqueIdentifiers u

def MM.persistInstances (m : MM) : List Item := m.classes.flatMap ClassM.instItems
def MM.persistSchema (u : UC) (m : MM) : List Item :=
  (m.sortedClasses u).map ClassM.item ++ m.assocsById.map AssocM.item
def MM.persistUniqueIdentifiers (m : MM) : List Item := m.classes.flatMap ClassM.indexItems
def MM.persistDatabase (u : UC) (m : MM) : List Item :=
  (m.sortedClasses u).flatMap (fun c => c.item :: c.indexItems) ++ m.assocsById.map AssocM.item ++
    m.classes.flatMap ClassM.instItems

/-! ### the statement each item denotes -/

/-- the value text a printed value parses to (`p_value` / `p_negative_value` rebuild exactly the text) -/
def Item.stmt (u : UC) : Item → Option Stmt
  | .cls kind attrs => some (.createTable kind (attrs.map (fun a => (a.1, u.upper a.2))))
  | .assoc rel s t =>
    some (.createRop rel s.kind (cardText s.many s.cond) s.keys s.phrase t.kind (cardText t.many t.cond) t.keys t.phrase)
  | .inst kind attrs vals =>
    match rowTexts u attrs vals with
    | some texts => some (.insert kind texts none)
    | none => none
  | .index name kind attrs => some (.createIndex kind name attrs)

end Pyx.Sql
