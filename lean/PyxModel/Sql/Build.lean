import PyxModel.Sql.Printer

/-
  `ModelLoader.build_metamodel` (xtuml/load.py) with the parts of xtuml/meta.py it calls
  (`define_class`, `define_unique_identifier`, `define_association` + `formalize`, `MetaClass.new`,
  `default_value`), as far as classes, identifiers, associations, rows and the OUTCOME are concerned.
  Of the fifth phase (`populate_connections`: links recomputed from key values) only the one place where it can raise
  is modelled here (`_is_null`); the links are modelled in PyxModel/Sql/Links.lean (and C03); rows keep the values the
  INSERT statements carry.

  Phase order of `populate`: classes, unique identifiers, associations, instances, connections.
  The first exception ends the build:
    meta    : MetaModelException (duplicate class, attribute names of one class that coincide after upper-casing
              -- declared or inferred from a named INSERT --, association with key lists of different length or naming an
              unknown identifying attribute),
              UnknownClassException (association / identifier / …), MetaException (unknown type in `new`)
    parsing : ParsingException (a value that `deserialize_value` cannot read for its column type;
              a named INSERT whose numbers of names and values differ)
    builtin : a built-in exception of Python -- the outcome the property FORBIDS.  The places where the code can raise one
              are explicit in the model, each with the reason it cannot be reached (Proofs/SqlBuildTotal.lean):
                `stmt.values[idx]` of a named INSERT (IndexError)           -- `namedCells`
                `default_value(None)` -> `None.upper()` for an inferred class one of whose values
                   `guess_type_name` cannot classify (AttributeError)       -- `guessOk`
                `_is_null` -> `len(value)` on a falsy non-string value of an attribute whose type, looked up
                   by upper-cased name, is STRING (TypeError)               -- `connRaises`
              (`formalize` -> `alt_prop.fget` no longer raises since 6c6075a: a class attribute that is no property is ignored.)
    Identifiers of the form `__x__` (`_is_reserved`: longer than four characters, beginning and ending with two
    underscores) are rejected with MetaModelException where they would become attribute names of python objects: by
    `define_class` for an attribute name (declared, or a column of a named INSERT that creates its class) and by
    `define_association` for a source key (since 7fb506e; before, some of them raised TypeError / AttributeError /
    RecursionError).
-/
namespace Pyx.Sql

inductive BuildErr where
  | parseErr
  | metaErr
  | builtinErr
  deriving DecidableEq, Repr

/-- what `inst.__dict__[name]` holds after `populate_instances` -/
inductive Cell where
  | val (v : Val)
  | dflt            -- the default `MetaClass.new` assigned (fewer positional values than attributes)
  | unset           -- never assigned (referential attribute without a value) or assigned `None` (named INSERT)
  deriving DecidableEq, Repr, Inhabited

structure ClassB where
  kind : Name
  attrs : List (Name × Name)
  indices : List (Name × List Name)
  referential : List Name
  rows : List (List Cell)
  deriving DecidableEq, Repr, Inhabited

structure AssocB where
  relId : Name
  srcKind : Name
  srcCard : Text
  srcKeys : List Name
  srcPhrase : Text
  tgtKind : Name
  tgtCard : Text
  tgtKeys : List Name
  tgtPhrase : Text
  deriving DecidableEq, Repr, Inhabited

structure BState where
  classes : List ClassB
  assocs : List AssocB
  deriving DecidableEq, Repr, Inhabited

def BState.empty : BState := ⟨[], []⟩

/-- `kind.upper() in metamodel.metaclasses` / `find_metaclass` -/
def BState.find? (u : UC) (s : BState) (kind : Name) : Option ClassB :=
  s.classes.find? (fun c => u.upper c.kind == u.upper kind)

def BState.update (u : UC) (s : BState) (kind : Name) (f : ClassB → ClassB) : BState :=
  { s with classes := s.classes.map (fun c => if u.upper c.kind == u.upper kind then f c else c) }

/-- `d[k] = v` on an insertion-ordered dict -/
def dictSet (k : Name) (v : List Name) : List (Name × List Name) → List (Name × List Name)
  | [] => [(k, v)]
  | (k', v') :: rest => if k' = k then (k, v) :: rest else (k', v') :: dictSet k v rest

/-- no text occurs twice -/
def distinctB : List Text → Bool
  | [] => true
  | x :: xs => !xs.contains x && distinctB xs

/-- `_is_reserved(name)`: longer than four characters, begins and ends with two underscores -/
def isDunder (n : Name) : Bool := decide (5 ≤ n.length) && n.take 2 == ['_', '_'] && (n.reverse.take 2) == ['_', '_']

/-- the loop of `define_class` over the attributes: `if _is_reserved(name): raise MetaModelException`,
    `if name.upper() in unames: raise MetaModelException`; it completes exactly when no attribute name has the form `__x__`
    and no two attribute names coincide after upper-casing -/
def attrNamesOk (u : UC) (attrs : List (Name × Name)) : Bool :=
  distinctB (attrs.map fun a => u.upper a.1) && attrs.all (fun a => !isDunder a.1)

/-- `define_class`: the class name is looked up first, then the attribute names are compared -/
def defineClass (u : UC) (s : BState) (kind : Name) (attrs : List (Name × Name)) : Except BuildErr BState :=
  match s.find? u kind with
  | some _ => .error .metaErr
  | none =>
    if attrNamesOk u attrs then .ok { s with classes := s.classes ++ [⟨kind, attrs, [], [], []⟩] }
    else .error .metaErr

/-- phase 1: `populate_classes` -/
def popClasses (u : UC) : List Stmt → BState → Except BuildErr BState
  | [], s => .ok s
  | .createTable kind attrs :: rest, s =>
    match defineClass u s kind attrs with
    | .ok s' => popClasses u rest s'
    | .error e => .error e
  | _ :: rest, s => popClasses u rest s

/-- phase 2: `populate_unique_identifiers` / `define_unique_identifier` -/
def popIdents (u : UC) : List Stmt → BState → Except BuildErr BState
  | [], s => .ok s
  | .createIndex kind name attrs :: rest, s =>
    if attrs.isEmpty then popIdents u rest s          -- `if not named_attributes: return` precedes the class lookup
    else match s.find? u kind with
      | none => .error .metaErr
      | some _ => popIdents u rest (s.update u kind (fun c => { c with indices := dictSet name attrs c.indices }))
  | _ :: rest, s => popIdents u rest s

/-- phase 3: `populate_associations` / `define_association` + `formalize` -/
def popAssocs (u : UC) : List Stmt → BState → Except BuildErr BState
  | [], s => .ok s
  | .createRop rel sk sc skeys sp tk tc tkeys tp :: rest, s =>
    match s.find? u sk, s.find? u tk with
    | some _, some t =>
      -- a reserved source key first, then `len(source_keys) != len(target_keys)`, then every target key must name an attribute
      if skeys.any isDunder then .error .metaErr
      else if skeys.length != tkeys.length then .error .metaErr
      else if tkeys.all (fun k => (t.attrs.map (fun a => u.upper a.1)).contains (u.upper k)) then
        let s1 := s.update u sk (fun c => { c with referential := c.referential ++ skeys })
        popAssocs u rest { s1 with assocs := s1.assocs ++ [⟨rel, sk, sc, skeys, sp, tk, tc, tkeys, tp⟩] }
      else .error .metaErr
    | _, _ => .error .metaErr
  | _ :: rest, s => popAssocs u rest s

/-- `MetaClass.new()` without arguments: every non-referential attribute gets `default_value(ty)`;
    an unknown type name raises MetaException -/
def newRowOk (u : UC) (c : ClassB) : Bool :=
  c.attrs.all (fun a => c.referential.contains a.1 || (tyOfName u a.2).isSome)

def initialCell (c : ClassB) (name : Name) : Cell := if c.referential.contains name then .unset else .dflt

/-- `_populate_matching_class`: attribute types guessed from the value texts -/
def inferredAttrs (u : UC) (names : List Name) (values : List Text) : List (Name × Name) :=
  (names.zip values).map (fun nv => (nv.1, match guessType u nv.2 with
    | some t => t.chars
    | none => []))

/-- the names `_0`, `_1`, … of `_populate_instance_with_positional_arguments` -/
def positionalNames (n : Nat) : List Name := (List.range n).map (fun i => '_' :: natText i)

/-- the cells of a positional row: `zip(metaclass.attributes, stmt.values)` -/
def positionalCells (u : UC) (c : ClassB) : List (Name × Name) → List Text → Except BuildErr (List Cell)
  | [], _ => .ok []
  | attrs, [] => .ok (attrs.map (fun a => initialCell c a.1))
  | (_, ty) :: attrs, v :: vs =>
    match deserialize u ty v with
    | none => .error .parseErr
    | some x =>
      match positionalCells u c attrs vs with
      | .ok cells => .ok (.val x :: cells)
      | .error e => .error e

/-- first index of an upper-cased name -/
def indexOfUpper (u : UC) (uname : Text) : List Name → Nat → Option Nat
  | [], _ => none
  | n :: ns, i => if u.upper n = uname then some i else indexOfUpper u uname ns (i + 1)

/-- the cells of a named row: every class attribute looks its value up by upper-cased name -/
def namedCells (u : UC) (names : List Name) (values : List Text) : List (Name × Name) → Except BuildErr (List Cell)
  | [] => .ok []
  | (name, ty) :: attrs =>
    match indexOfUpper u (u.upper name) names 0 with
    | some idx =>
      match values[idx]? with
      | none => .error .builtinErr          -- `stmt.values[idx]`: IndexError (lengths were compared first: `namedCells_no_builtin`)
      | some v =>
        match deserialize u ty v with
        | none => .error .parseErr
        | some x =>
          match namedCells u names values attrs with
          | .ok cells => .ok (.val x :: cells)
          | .error e => .error e
    | none =>
      match namedCells u names values attrs with
      | .ok cells => .ok (.unset :: cells)
      | .error e => .error e

/-- `if stmt.names:` an empty name list is falsy, the statement is then treated as positional -/
def isNamed : Option (List Name) → Bool
  | some (_ :: _) => true
  | _ => false

/-- the attributes `_populate_matching_class` hands to `define_class` -/
def inferredFor (u : UC) (named : Bool) (ns : List Name) (values : List Text) : List (Name × Name) :=
  if named then inferredAttrs u ns values else inferredAttrs u (positionalNames values.length) values

/-- does the `define_class` call of `_populate_matching_class` complete?  (no call when the class exists; the names
    `_0`, `_1`, … never collide, the names of a named INSERT can) -/
def inferOk (u : UC) (s : BState) (kind : Name) (named : Bool) (ns : List Name) (values : List Text) : Bool :=
  match s.find? u kind with
  | some _ => true
  | none => attrNamesOk u (inferredFor u named ns values)

/-- `guess_type_name` returns a type name for every value of an INSERT that creates its class (otherwise the class gets
    the type `None`, and `MetaClass.new` -> `default_value(None)` raises AttributeError from `None.upper()`) -/
def guessOk (u : UC) (s : BState) (kind : Name) (values : List Text) : Bool :=
  match s.find? u kind with
  | some _ => true
  | none => values.all (fun v => (guessType u v).isSome)

/-- `if stmt.kind.upper() not in metamodel.metaclasses: _populate_matching_class(...)`, when `inferOk` -/
def ensureClass (u : UC) (s : BState) (kind : Name) (named : Bool) (ns : List Name) (values : List Text) : BState :=
  match s.find? u kind with
  | some _ => s
  | none =>
    { s with classes := s.classes ++ [⟨kind, inferredFor u named ns values, [], [], []⟩] }

def cellsOf (u : UC) (c : ClassB) (named : Bool) (ns : List Name) (values : List Text) : Except BuildErr (List Cell) :=
  if named then namedCells u ns values c.attrs else positionalCells u c c.attrs values

/-- one `CreateInstanceStmt` -/
def popInstance (u : UC) (s : BState) (kind : Name) (values : List Text) (names : Option (List Name)) :
    Except BuildErr BState :=
  if isNamed names && (names.getD []).length != values.length then .error .parseErr else
  if !inferOk u s kind (isNamed names) (names.getD []) values then .error .metaErr else
  if !guessOk u s kind values then .error .builtinErr else
  match (ensureClass u s kind (isNamed names) (names.getD []) values).find? u kind with
  | none => .error .metaErr                   -- unreachable
  | some c =>
    if !newRowOk u c then .error .metaErr else
    match cellsOf u c (isNamed names) (names.getD []) values with
    | .error e => .error e
    | .ok cells =>
      .ok ((ensureClass u s kind (isNamed names) (names.getD []) values).update u kind
        (fun c => { c with rows := c.rows ++ [cells] }))

/-- phase 4: `populate_instances` -/
def popInstances (u : UC) : List Stmt → BState → Except BuildErr BState
  | [], s => .ok s
  | .insert kind values names :: rest, s =>
    match popInstance u s kind values names with
    | .ok s' => popInstances u rest s'
    | .error e => .error e
  | _ :: rest, s => popInstances u rest s

/-! ### phase 5, as far as it can raise -/

def Val.isStr : Val → Bool
  | .str _ => true
  | _ => false

/-- `if value: return False` -/
def Val.truthy : Val → Bool
  | .bool b => b
  | .int z => z != 0
  | .real _ micro => micro != 0
  | .str s => !s.isEmpty
  | .id n => n != 0

/-- type name and cell of the attribute that `getattr(inst, key)` reads and whose type `_is_null` looks up: the first one
    whose upper-cased name is that of the key.  (`_is_null` first tries `inst.__dict__[key]` with the exact name; as no two
    attribute names of a class coincide after upper-casing -- `attrNamesOk`, checked by `define_class` -- both find the
    same attribute.) -/
def nullCell (u : UC) (uname : Text) : List (Name × Name) → List Cell → Option (Name × Option Cell)
  | [], _ => none
  | (n, ty) :: rest, row => if u.upper n = uname then some (ty, row.head?) else nullCell u uname rest row.tail

/-- does `_is_null(inst, key)` raise?  It does (`len(value)`: TypeError) when the value is falsy, not `None`, not a string,
    and the type of the attribute is STRING.  An attribute without a value in `__dict__` reads `None` (a referential
    attribute reads through links, and an instance with an unset key cell has none yet). -/
def isNullRaises (u : UC) (c : ClassB) (row : List Cell) (key : Name) : Bool :=
  match nullCell u (u.upper key) c.attrs row with
  | some (ty, some (.val x)) => !x.truthy && tyOfName u ty == some .STRING && !x.isStr
  | _ => false                     -- no such attribute, `None`, or the default `''` of a STRING attribute

/-- `compute_index_key` / `compute_lookup_key` over every instance of a class.  (Python leaves the key loop at the first
    null key; the model looks at every key, which can only add failures.) -/
def classKeysRaise (u : UC) (s : BState) (kind : Name) (keys : List Name) : Bool :=
  match s.find? u kind with
  | none => false
  | some c => c.rows.any (fun row => keys.any (isNullRaises u c row))

/-- does `populate_connections` raise? -/
def connRaises (u : UC) (s : BState) : Bool :=
  s.assocs.any (fun a => classKeysRaise u s a.tgtKind a.tgtKeys || classKeysRaise u s a.srcKind a.srcKeys)

/-- phase 5: `populate_connections` changes neither classes, identifiers, associations nor rows -/
def popConnections (u : UC) (s : BState) : Except BuildErr BState :=
  if connRaises u s then .error .builtinErr else .ok s

/-- phases 1–4 -/
def buildCore (u : UC) (stmts : List Stmt) : Except BuildErr BState :=
  match popClasses u stmts BState.empty with
  | .error e => .error e
  | .ok s1 =>
    match popIdents u stmts s1 with
    | .error e => .error e
    | .ok s2 =>
      match popAssocs u stmts s2 with
      | .error e => .error e
      | .ok s3 => popInstances u stmts s3

/-- `populate`: phases 1–5 -/
def buildPhases (u : UC) (stmts : List Stmt) : Except BuildErr BState :=
  match buildCore u stmts with
  | .error e => .error e
  | .ok s => popConnections u s

/-- `build_metamodel` -/
def build (u : UC) (stmts : List Stmt) : Except BuildErr BState := buildPhases u stmts

/-! ### the built metamodel as the writers see it

  CAVEAT (referential cells).  `populate_connections` ends by deleting every referential attribute from the instance
  `__dict__`; afterwards `getattr` reads it through the property `formalize` installed, i.e. from the instance at the
  other end of the link (`None` when there is none).  `toMM` below keeps the value the INSERT statement carried.  What
  `getattr` returns is modelled by `MM.readThrough` (PyxModel/Sql/Links.lean); the two agree exactly on the metamodels that
  are FIXED POINTS of reading through links (`MM.ReadsFixed`, Proofs/SqlLinks.lean) -- true of everything the writers
  produce from a model built through the API (an unrelated instance reads `None` for its referential attributes, a related
  one reads the key values of its partner).  A hand-written `INSERT INTO B VALUES (7, 5)` whose 5 refers to no `A` reads 0
  in the implementation and 5 here: there `toMM` is NOT what `getattr` returns.  The reload theorems of Props/C01.lean
  carry `ReadsFixed` of the canonical form as a hypothesis and conclude it for the built metamodel. -/

def cellVal : Cell → Option Val
  | .val v => some v
  | _ => none

def ClassB.toM (c : ClassB) : ClassM := ⟨c.kind, c.attrs, c.indices, c.rows.map (fun r => r.map cellVal)⟩

def BState.kindOf (u : UC) (s : BState) (kind : Name) : Name :=
  match s.find? u kind with
  | some c => c.kind
  | none => kind

/-- `'M' in cardinality`, `'C' in cardinality`; the phrase printed after the first end is `target_link.phrase`,
    i.e. the source phrase of the statement, and vice versa -/
def AssocB.toM (u : UC) (s : BState) (a : AssocB) : AssocM :=
  ⟨a.relId,
   ⟨a.srcCard.contains 'M', a.srcCard.contains 'C', s.kindOf u a.srcKind, a.srcKeys, a.srcPhrase⟩,
   ⟨a.tgtCard.contains 'M', a.tgtCard.contains 'C', s.kindOf u a.tgtKind, a.tgtKeys, a.tgtPhrase⟩⟩

def BState.toMM (u : UC) (s : BState) : MM := ⟨s.classes.map ClassB.toM, s.assocs.map (AssocB.toM u s)⟩

end Pyx.Sql
