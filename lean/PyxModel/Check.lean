import PyxModel.Meta
import PyxModel.Query

/-
  xtuml/consistency_check.py (C11): `check_link_integrity`, `check_association_integrity`,
  `check_uniqueness_constraint`, `check_subtype_integrity`, `MetaModel.is_consistent`, the option
  handling of the two `main` functions.

  The state is given explicitly (pools, link maps, attribute valuation), so that under- and
  over-populated ends — reachable through the loader's unchecked connects — are representable.
-/
namespace Pyx
namespace Check
open Pyx.Meta

structure ClassInfo where
  attrs : List (String × Bool)              -- declared attributes in order: (name, type is UNIQUE_ID in any case)
  idents : List (String × List String)      -- `indices` in dict order: identifier name ↦ attribute names
  identifying : List String                 -- `identifying_attributes` (a set)
  deriving Repr

structure World where
  sch : Schema
  classes : List ClassInfo                  -- by Kind
  pool : Kind → List Inst
  links : Nat → ALinks
  val : Inst → String → Option Int          -- `getattr(inst, name)`; `none` = None
  kindOf : Inst → Kind
  count : Nat

/-- `(len < 1 and not conditional) or (len > 1 and not many)` -/
def violates (cond many : Bool) (n : Nat) : Bool := (n < 1 && !cond) || (n > 1 && !many)

/-- `check_link_integrity` for the source_link (`isSrc`) or target_link of association `i` -/
def checkLink (w : World) (i : Nat) (isSrc : Bool) : Nat :=
  let a := specAt w.sch i
  if isSrc then
    -- source_link: from the target class, conditional/many = source_*
    (w.pool a.tgtKind).countP (fun x => violates a.srcCond a.srcMany ((w.links i).src x).length)
  else
    (w.pool a.srcKind).countP (fun x => violates a.tgtCond a.tgtMany ((w.links i).tgt x).length)

/-- `check_association_integrity(m, rel_id)`; `none` = all associations -/
def checkAssocFrom (w : World) (rel : Option String) : Nat → Schema → Nat
  | _, [] => 0
  | i, a :: rest =>
    (if rel = none ∨ rel = some a.rel then checkLink w i true + checkLink w i false else 0) +
      checkAssocFrom w rel (i + 1) rest

def checkAssoc (w : World) (rel : Option String) : Nat := checkAssocFrom w rel 0 w.sch

def isNull (v : Option Int) (isUid : Bool) : Bool := v.isNone || (isUid && v == some 0)

/-- number of null identifying values of one instance -/
def nullCount (ci : ClassInfo) (val : Inst → String → Option Int) (x : Inst) : Nat :=
  (ci.attrs.filter (fun a => ci.identifying.contains a.1)).countP (fun a => isNull (val x a.1) a.2)

/-- the `frozenset(kwargs.items())` of an identifier: the dict collapses repeated attribute names -/
def identKey (val : Inst → String → Option Int) (x : Inst) (attrs : List String) : List (String × Option Int) :=
  attrs.eraseDups.map (fun a => (a, val x a))

/-- one instance against the seen-keys of every identifier: (violations, updated seen) -/
def uniqStep (ci : ClassInfo) (val : Inst → String → Option Int) (x : Inst)
    (seen : List (String × List (String × Option Int))) : Nat × List (String × List (String × Option Int)) :=
  ci.idents.foldl (fun (acc : Nat × List (String × List (String × Option Int))) idn =>
    let key := (idn.1, identKey val x idn.2)
    ((if acc.2.contains key then acc.1 + 1 else acc.1), key :: acc.2)) (0, seen)

def uniqLoop (ci : ClassInfo) (val : Inst → String → Option Int) :
    List Inst → List (String × List (String × Option Int)) → Nat
  | [], _ => 0
  | x :: xs, seen =>
    let r := uniqStep ci val x seen
    nullCount ci val x + r.1 + uniqLoop ci val xs r.2

def checkUniqClass (w : World) (k : Kind) : Nat :=
  match w.classes[k]? with
  | some ci => uniqLoop ci w.val (w.pool k) []
  | none => 0

/-- `check_uniqueness_constraint(m, kind)`; `none` = all classes -/
def checkUniq (w : World) (kind : Option Kind) : Nat :=
  match kind with
  | some k => checkUniqClass w k
  | none => ((List.range w.classes.length).map (checkUniqClass w)).sum

/-- `MetaModel.is_consistent` -/
def isConsistent (w : World) : Bool :=
  if checkAssoc w none != 0 then false else checkUniq w none == 0

/-- the two `main` functions: sum per `-r` option (or the unrestricted check when none is given),
    plus sum per `-k` option (or the unrestricted check) -/
def mainErrors (w : World) (rels : List String) (kinds : List Kind) : Nat :=
  (if rels.isEmpty then checkAssoc w none else (rels.map (fun r => checkAssoc w (some r))).sum) +
  (if kinds.isEmpty then checkUniq w none else (kinds.map (fun k => checkUniq w (some k))).sum)

/-- `sys.exit(num_errors > 0)` -/
def exitStatus (w : World) (rels : List String) (kinds : List Kind) : Nat :=
  if mainErrors w rels kinds > 0 then 1 else 0

def World.toState (w : World) : State :=
  { kindOf := w.kindOf, count := w.count, pool := w.pool, links := w.links, idOf := fun _ => 0, nextId := 0 }

/-- `check_subtype_integrity(m, super_kind, rel)`: supertype instances for which `navigate_subtype`
    yields nothing -/
def checkSubtype (w : World) (k : Kind) (rel : String) : Nat :=
  (w.pool k).countP (fun x => match Query.navSubtype w.sch w.toState x rel with
    | some (some _) => false
    | _ => true)

end Check
end Pyx
