import PyxModel.Meta
import PyxModel.OSet

/-
  Queries and navigation of xtuml/meta.py over the L2 state (C09):

  * `apply_query_operators` folds the operators left to right over the instance sequence:
    `WhereEqual` / dict  → filter on `getattr(inst, name) == value` for every pair,
    `OrderBy`            → `sorted(seq, key=[getattr …], reverse=flag)`  (stable, also with reverse),
    any other callable   → `filter(op, seq)`.
  * `select_many` = `QuerySet(result)` (first-occurrence de-duplication; `storage` has no duplicates),
    `select_one/any` = `next(iter(result), None)`.
  * `MetaClass.navigate(inst, kind, rel, phrase)`: the link stored under the key
    `(kind.upper(), rel, phrase)` in the class's `links` dict, else the two-hop
    `_find_assoc_links` through an association class.
  * `NavChain`: nested generators — every step maps each element of the previous sequence
    (duplicates included) to its partners; the query operators are applied to that sequence and
    only then `QuerySet(...)` de-duplicates.  `NavOneChain` returns the first element or nothing.
  * `navigate_subtype`: the first link key of the class (dict order) with the rel id whose
    navigation with phrase '' yields something.
-/

namespace Pyx
namespace Query
open Pyx.Meta

/-- first-occurrence de-duplication (`QuerySet(iterable)`), shared with the ordered-set model -/
abbrev dedupFirst : List Nat → List Nat := Pyx.OSet.dedupFirst

/-- stable insertion: `x` goes before the first element `y` with `lt x y` -/
def insertBefore {α : Type} (lt : α → α → Bool) (x : α) : List α → List α
  | [] => [x]
  | y :: ys => if lt x y then x :: y :: ys else y :: insertBefore lt x ys

/-- stable sort w.r.t. a strict order `lt` (the model of `sorted`; with `lt := fun a b => key b < key a`
    it is `sorted(..., reverse=True)`, which keeps ties in their original order) -/
def sortStable {α : Type} (lt : α → α → Bool) (l : List α) : List α :=
  l.foldl (fun acc x => insertBefore lt x acc) []

/-- lexicographic strict order on key lists (Python compares the key lists element-wise) -/
def keyLt : List Int → List Int → Bool
  | [], [] => false
  | [], _ :: _ => true
  | _ :: _, [] => false
  | a :: as, b :: bs => if a < b then true else if b < a then false else keyLt as bs

/-- small predicate language standing for the lambdas the harness passes -/
inductive Pred where
  | ltC (attr : String) (c : Int)          -- getattr(x, attr) <  c
  | geC (attr : String) (c : Int)          -- getattr(x, attr) >= c
  | sumEq (a b : String) (c : Int)         -- getattr(x,a) + getattr(x,b) == c
  | tt
  deriving Repr

inductive QOp where
  | whereEq (pairs : List (String × Option Int))      -- `none` = compare with None
  | orderBy (attrs : List String) (reverse : Bool)
  | pred (p : Pred)
  deriving Repr

/-- attribute reads: `val x name` (plain, id and referential attributes unified by the caller) -/
abbrev Valuation := Inst → String → Option Int

def evalPred (val : Valuation) (x : Inst) : Pred → Bool
  | .ltC a c => match val x a with | some v => v < c | none => false
  | .geC a c => match val x a with | some v => v ≥ c | none => false
  | .sumEq a b c => match val x a, val x b with | some u, some v => u + v == c | _, _ => false
  | .tt => true

def keyOf (val : Valuation) (attrs : List String) (x : Inst) : List Int :=
  attrs.map (fun a => (val x a).getD 0)

def applyOp (val : Valuation) (l : List Inst) : QOp → List Inst
  | .whereEq pairs => l.filter (fun x => pairs.all (fun p => val x p.1 == p.2))
  | .orderBy attrs false => sortStable (fun a b => keyLt (keyOf val attrs a) (keyOf val attrs b)) l
  | .orderBy attrs true => sortStable (fun a b => keyLt (keyOf val attrs b) (keyOf val attrs a)) l
  | .pred p => l.filter (fun x => evalPred val x p)

def applyOps (val : Valuation) (l : List Inst) (ops : List QOp) : List Inst :=
  ops.foldl (applyOp val) l

def selectMany (val : Valuation) (s : State) (k : Kind) (ops : List QOp) : List Inst :=
  dedupFirst (applyOps val (s.pool k) ops)

def selectOne (val : Valuation) (s : State) (k : Kind) (ops : List QOp) : Option Inst :=
  (applyOps val (s.pool k) ops).head?

/-! navigation -/

/-- the `links` dict of class `k`: entries in insertion order, a later entry with the same key
    (toKind, rel, phrase) replaces the earlier one in place (dict assignment keeps the position) -/
structure LinkEntry where
  toKind : Kind
  rel : String
  phrase : String
  assoc : Nat
  isSrc : Bool          -- is it the association's source_link?
  deriving Repr

def linkEntriesFrom (k : Kind) : Nat → Schema → List LinkEntry
  | _, [] => []
  | i, a :: rest =>
    (if a.tgtKind = k then [{ toKind := a.srcKind, rel := a.rel, phrase := a.tgtPhrase, assoc := i, isSrc := true }] else []) ++
    (if a.srcKind = k then [{ toKind := a.tgtKind, rel := a.rel, phrase := a.srcPhrase, assoc := i, isSrc := false }] else []) ++
    linkEntriesFrom k (i + 1) rest

def sameKey (e f : LinkEntry) : Bool := e.toKind == f.toKind && e.rel == f.rel && e.phrase == f.phrase

/-- dict semantics: assignment to an existing key overwrites the value but keeps the key's position -/
def dictInsert (d : List LinkEntry) (e : LinkEntry) : List LinkEntry :=
  if d.any (sameKey e) then d.map (fun f => if sameKey e f then e else f) else d ++ [e]

def linkDict (sch : Schema) (k : Kind) : List LinkEntry :=
  (linkEntriesFrom k 0 sch).foldl dictInsert []

def followEntry (s : State) (e : LinkEntry) (x : Inst) : List Inst :=
  if e.isSrc then (s.links e.assoc).src x else (s.links e.assoc).tgt x

def lookupKey (d : List LinkEntry) (toKind : Kind) (rel phrase : String) : Option LinkEntry :=
  d.find? (fun e => e.toKind == toKind && e.rel == rel && e.phrase == phrase)

/-- `OrderedSet |= iterable` accumulated over the first-hop partners -/
def unionAll (ls : List (List Inst)) : List Inst := dedupFirst ls.flatten

/-- `MetaClass.navigate(inst, kind, rel, phrase)`; `none` = UnknownLinkException -/
def navigate (sch : Schema) (s : State) (x : Inst) (toKind : Kind) (rel phrase : String) : Option (List Inst) :=
  let d := linkDict sch (s.kindOf x)
  match lookupKey d toKind rel phrase with
  | some e => some (followEntry s e x)
  | none =>
    -- `_find_assoc_links`: first link of the class with that rel id and phrase whose far class has the key
    match d.findSome? (fun l1 =>
        if l1.rel == rel && l1.phrase == phrase then
          (lookupKey (linkDict sch l1.toKind) toKind rel phrase).map (fun l2 => (l1, l2))
        else none) with
    | some (l1, l2) => some (unionAll ((followEntry s l1 x).map (followEntry s l2)))
    | none => none

structure Step where
  toKind : Kind
  rel : String
  phrase : String
  deriving Repr

/-- accumulate one element's partners; `none` once any element raises UnknownLink -/
def navAcc (sch : Schema) (s : State) (st : Step) (acc : Option (List Inst)) (x : Inst) : Option (List Inst) :=
  match acc, navigate sch s x st.toKind st.rel st.phrase with
  | some a, some r => some (a ++ r)
  | _, _ => none

/-- one `nav` step over a sequence (duplicates kept); `none` if any element raises UnknownLink -/
def navStep (sch : Schema) (s : State) (l : List Inst) (st : Step) : Option (List Inst) :=
  l.foldl (navAcc sch s st) (some [])

def navSeq (sch : Schema) (s : State) (h : List Inst) (steps : List Step) : Option (List Inst) :=
  steps.foldl (fun acc st => match acc with | some l => navStep sch s l st | none => none) (some h)

/-- `navigate_many(handle).nav(..)…(ops)` -/
def navMany (sch : Schema) (val : Valuation) (s : State) (h : List Inst) (steps : List Step) (ops : List QOp) :
    Option (List Inst) :=
  (navSeq sch s h steps).map (fun l => dedupFirst (applyOps val l ops))

/-- `navigate_one/any(handle).nav(..)…(ops)` -/
def navOne (sch : Schema) (val : Valuation) (s : State) (h : List Inst) (steps : List Step) (ops : List QOp) :
    Option (Option Inst) :=
  (navSeq sch s h steps).map (fun l => (applyOps val l ops).head?)

/-- `navigate_subtype(supertype, rel)`: the link keys of the class are tried in dict order; the
    first one with the rel id whose navigation (phrase '') yields an instance wins;
    outer `none` = the UnknownLinkException raised by that navigation escapes -/
def navSubtypeFrom (sch : Schema) (s : State) (x : Inst) (rel : String) : List LinkEntry → Option (Option Inst)
  | [] => some none
  | e :: rest =>
    if e.rel == rel then
      match navigate sch s x e.toKind rel "" with
      | none => none
      | some l =>
        match l.head? with
        | some y => some (some y)
        | none => navSubtypeFrom sch s x rel rest
    else navSubtypeFrom sch s x rel rest

def navSubtype (sch : Schema) (s : State) (x : Inst) (rel : String) : Option (Option Inst) :=
  navSubtypeFrom sch s x rel (linkDict sch (s.kindOf x))

end Query
end Pyx
