/-
  L1 — `xtuml.tools.OrderedSet`, pointer level.

  The Python object is a doubly linked ring of cells `[key, prev, next]` around a sentinel
  cell `end`, plus a dict `map : key → cell`.  Cells are modelled as addresses (`Nat`),
  address `0` is the sentinel; the three fields are three functions with point updates;
  `fresh` is the allocator (every `add` of a new key creates a new list object).
-/

namespace Pyx
namespace OSetPtr

structure Store where
  key  : Nat → Nat
  prev : Nat → Nat
  next : Nat → Nat
  map  : Nat → Option Nat
  fresh : Nat

def empty : Store :=
  { key := fun _ => 0, prev := fun _ => 0, next := fun _ => 0, map := fun _ => none, fresh := 1 }

def upd (f : Nat → α) (a : Nat) (v : α) : Nat → α := fun z => if z = a then v else f z

/-- `add`:  `curr = end[1]; curr[2] = end[1] = self.map[key] = [key, curr, end]` -/
def add (k : Nat) (s : Store) : Store :=
  match s.map k with
  | some _ => s
  | none =>
    let a := s.fresh
    let curr := s.prev 0
    { key := upd s.key a k
      prev := upd (upd s.prev a curr) 0 a
      next := upd (upd s.next a 0) curr a
      map := upd s.map k (some a)
      fresh := a + 1 }

/-- the two pointer writes of `discard` on the cell at address `a` -/
def unlink (s : Store) (a : Nat) : Store :=
  -- the two neighbours are read ONCE, before the writes (as `key, prev, next_ = self.map.pop(key)` does); with the
  -- reads inside the closures the compiled driver re-evaluates them on every look-up (exponential in the discards)
  let p := s.prev a
  let n := s.next a
  { s with
    next := fun z => if z = p then n else s.next z
    prev := fun z => if z = n then p else s.prev z }

/-- `discard`: `key, prev, next_ = self.map.pop(key); prev[2] = next_; next_[1] = prev` -/
def discard (k : Nat) (s : Store) : Store :=
  match s.map k with
  | none => s
  | some a => { unlink s a with map := upd s.map k none }

/-- `__iter__` (no mutation while iterating); fuel bounds the walk -/
def iter : Nat → Store → Nat → List Nat
  | 0, _, _ => []
  | f+1, s, curr => if curr = 0 then [] else s.key curr :: iter f s (s.next curr)

def reversed : Nat → Store → Nat → List Nat
  | 0, _, _ => []
  | f+1, s, curr => if curr = 0 then [] else s.key curr :: reversed f s (s.prev curr)

def toList (s : Store) : List Nat := iter s.fresh s (s.next 0)
def toListRev (s : Store) : List Nat := reversed s.fresh s (s.prev 0)

/-- generator `__iter__` whose consumer discards the element being visited when `p key`;
    `curr = curr[2]` is read *after* the consumer ran, as the generator resumes -/
def iterRem (p : Nat → Bool) : Nat → Store → Nat → List Nat × Store
  | 0, s, _ => ([], s)
  | f+1, s, curr =>
    if curr = 0 then ([], s) else
      let k := s.key curr
      let s' := if p k then discard k s else s
      let r := iterRem p f s' (s'.next curr)
      (k :: r.1, r.2)

/-- generator `__reversed__` (`curr = end[1]; while curr is not end: yield curr[0]; curr = curr[1]`) whose consumer discards
    the element being visited when `p key`; `curr = curr[1]` is read *after* the consumer ran, as the generator resumes -/
def reversedRem (p : Nat → Bool) : Nat → Store → Nat → List Nat × Store
  | 0, s, _ => ([], s)
  | f+1, s, curr =>
    if curr = 0 then ([], s) else
      let k := s.key curr
      let s' := if p k then discard k s else s
      let r := reversedRem p f s' (s'.prev curr)
      (k :: r.1, r.2)

/-- the loop body "replace the visited element": `s.discard(k); s.add(fresh + added)` -/
def replaceAt (fresh added k : Nat) (s : Store) : Store := add (fresh + added) (discard k s)

/-- `for x in s:` whose body REPLACES the visited element when `p x` holds and fewer than `limit` were added so far
    (`s.discard(x); s.add(fresh + added)`: the node is unlinked and a fresh node is linked before the sentinel); the
    generator holds the visited node and reads its `next` AFTER the body ran -/
def iterReplace (p : Nat → Bool) (fresh limit : Nat) : Nat → Store → Nat → Nat → List Nat × Store
  | 0, s, _, _ => ([], s)
  | f+1, s, curr, added =>
    if curr = 0 then ([], s) else
      let k := s.key curr
      let doit := p k && decide (added < limit)
      let s' := if doit then replaceAt fresh added k s else s
      let r := iterReplace p fresh limit f s' (s'.next curr) (if doit then added + 1 else added)
      (k :: r.1, r.2)

/-- the same over `reversed(s)`: the generator reads `prev` of the visited node after the body ran -/
def reversedReplace (p : Nat → Bool) (fresh limit : Nat) : Nat → Store → Nat → Nat → List Nat × Store
  | 0, s, _, _ => ([], s)
  | f+1, s, curr, added =>
    if curr = 0 then ([], s) else
      let k := s.key curr
      let doit := p k && decide (added < limit)
      let s' := if doit then replaceAt fresh added k s else s
      let r := reversedReplace p fresh limit f s' (s'.prev curr) (if doit then added + 1 else added)
      (k :: r.1, r.2)

/-- list-level meaning of the forward loop: `pre` = the elements behind the iterator, `suf` = the elements still ahead of it
    (first = the one visited next), result = (visit list, final content).  A replaced element leaves, its fresh replacement is
    appended; the iterator reaches it — unless the replaced element was the LAST one of the ring at that moment (its stale
    `next` is the sentinel: the walk ends) -/
def absIterReplace (p : Nat → Bool) (fresh limit : Nat) : Nat → List Nat → List Nat → Nat → List Nat × List Nat
  | 0, pre, suf, _ => ([], pre ++ suf)
  | _+1, pre, [], _ => ([], pre)
  | f+1, pre, k :: suf, added =>
    if p k && decide (added < limit) then
      match suf with
      | [] => ([k], pre ++ [fresh + added])
      | _ :: _ =>
        let r := absIterReplace p fresh limit f pre (suf ++ [fresh + added]) (added + 1)
        (k :: r.1, r.2)
    else
      let r := absIterReplace p fresh limit f (pre ++ [k]) suf added
      (k :: r.1, r.2)

/-- list-level meaning of the backward loop: `preRev` = the elements still ahead of the iterator, nearest first; `tail` = the
    elements behind it.  Fresh elements are appended behind the iterator: it never reaches them -/
def absReversedReplace (p : Nat → Bool) (fresh limit : Nat) : List Nat → List Nat → Nat → List Nat × List Nat
  | [], tail, _ => ([], tail)
  | k :: restRev, tail, added =>
    if p k && decide (added < limit) then
      let r := absReversedReplace p fresh limit restRev (tail ++ [fresh + added]) (added + 1)
      (k :: r.1, r.2)
    else
      let r := absReversedReplace p fresh limit restRev (k :: tail) added
      (k :: r.1, r.2)

def len (s : Store) : Nat := (toList s).length

/-- the two mutators as data, so that "any state reachable by add/discard" is a fold from `empty` -/
inductive POp where
  | add (k : Nat)
  | discard (k : Nat)
  | iterRm (ks : List Nat)      -- iterate, the consumer discards the visited element when it is in `ks`
  | riterRm (ks : List Nat)     -- the same over `reversed(s)`
  deriving Repr

def applyP : POp → Store → Store
  | .add k, s => add k s
  | .discard k, s => discard k s
  | .iterRm ks, s => (iterRem (fun k => decide (k ∈ ks)) s.fresh s (s.next 0)).2
  | .riterRm ks, s => (reversedRem (fun k => decide (k ∈ ks)) s.fresh s (s.prev 0)).2

def runP (ops : List POp) : Store := ops.foldl (fun s op => applyP op s) empty

/-- the list-level meaning of the same ops (`OSet.add` / `OSet.discard` written out) -/
def absP : POp → List Nat → List Nat
  | .add k, l => if k ∈ l then l else l ++ [k]
  | .discard k, l => l.erase k
  | .iterRm ks, l => l.filter (fun k => !(decide (k ∈ ks)))
  | .riterRm ks, l => l.filter (fun k => !(decide (k ∈ ks)))

def absRunP (ops : List POp) : List Nat := ops.foldl (fun l op => absP op l) []

/-! observers read off the pointers, as the code does -/

/-- `next(iter(self), None)` / `QuerySet.first` / `pop(last=False)`'s key: `self.end[2][0]` unless the ring is empty -/
def ptrFirst (s : Store) : Option Nat := if s.next 0 = 0 then none else some (s.key (s.next 0))

/-- `next(reversed(self), None)` / `QuerySet.last` / `pop()`'s key: `self.end[1][0]` -/
def ptrLast (s : Store) : Option Nat := if s.prev 0 = 0 then none else some (s.key (s.prev 0))

/-- `key in self.map` -/
def ptrMem (k : Nat) (s : Store) : Bool := (s.map k).isSome

end OSetPtr
end Pyx
