/-
  L1 — `xtuml.tools.OrderedSet` / `xtuml.meta.QuerySet`, abstract (list) level.

  An ordered set is the list of its keys in iteration order.  Every operation is written
  the way the Python code (and the CPython 3.12 `collections.abc.Set/MutableSet` mixins it
  inherits) composes `add`, `discard`, `__contains__` and iteration:

    _from_iterable(it)  = OrderedSet(it)  =  `self |= it` on an empty set
    a & b   = _from_iterable(v for v in b if v in a)          (ordered by b!)
    a | b   = _from_iterable(chain(a, b))
    a - b   = _from_iterable(v for v in a if v not in b)
    a ^ b   = (a - b) | (b - a)
    a |= it : for v in it: a.add(v)
    a &= it : for v in (a - it): a.discard(v)
    a -= it : for v in it: a.discard(v)        (a.clear() when `it is a`)
    a ^= it : it' = _from_iterable(it); for v in it': discard if present else add
-/

namespace Pyx
namespace OSet

abbrev T := List Nat

def add (k : Nat) (l : T) : T := if k ∈ l then l else l ++ [k]

def discard (k : Nat) (l : T) : T := l.erase k

def fromIter (it : List Nat) : T := it.foldl (fun acc k => add k acc) []

def ior (l : T) (it : List Nat) : T := it.foldl (fun acc k => add k acc) l

def and (l t : T) : T := fromIter (t.filter (fun v => v ∈ l))

def or (l t : T) : T := fromIter (l ++ t)

def sub (l t : T) : T := fromIter (l.filter (fun v => !(v ∈ t)))

def xor (l t : T) : T := or (sub l t) (sub t l)

def iand (l : T) (t : T) : T := (sub l t).foldl (fun acc v => discard v acc) l

def isub (l : T) (it : List Nat) : T := it.foldl (fun acc v => discard v acc) l

def ixor (l : T) (it : List Nat) : T :=
  (fromIter it).foldl (fun acc v => if v ∈ acc then discard v acc else add v acc) l

/-- `remove`: `none` stands for `KeyError` -/
def remove (k : Nat) (l : T) : Option T := if k ∈ l then some (discard k l) else none

/-- `pop(last=True)`: `none` stands for `KeyError('set is empty')` -/
def popLast (l : T) : Option (Nat × T) :=
  match l.getLast? with
  | none => none
  | some k => some (k, discard k l)

def popFirst (l : T) : Option (Nat × T) :=
  match l.head? with
  | none => none
  | some k => some (k, discard k l)

def clear (_ : T) : T := []

def first (l : T) : Option Nat := l.head?
def last (l : T) : Option Nat := l.getLast?

/-- `__eq__` against any iterable given as the list of what it yields:
    `self == OrderedSet(iter(other))`, then length and element-wise comparison -/
def eqIter (l : T) (other : List Nat) : Bool :=
  let o := fromIter other
  l.length == o.length && l == o

/-- iteration while the consumer discards the element being visited when `p` holds
    (abstract level: the visit list is the original list) -/
def iterRemove (p : Nat → Bool) (l : T) : List Nat × T :=
  (l, l.filter (fun k => !p k))

end OSet
end Pyx

namespace Pyx
namespace OSet

/-- the state-changing operations of the statement, as data, so that "any sequence of
    operations" is a fold -/
inductive Op where
  | add (k : Nat) | discard (k : Nat) | remove (k : Nat) | popLast | popFirst | clear
  | ior (it : List Nat) | iand (it : List Nat) | isub (it : List Nat) | ixor (it : List Nat)
  | iterRm (ks : List Nat)
  deriving Repr

def apply : Op → T → T
  | .add k, l => add k l
  | .discard k, l => discard k l
  | .remove k, l => (remove k l).getD l          -- KeyError leaves the set unchanged
  | .popLast, l => match popLast l with | some (_, l') => l' | none => l
  | .popFirst, l => match popFirst l with | some (_, l') => l' | none => l
  | .clear, l => clear l
  | .ior it, l => ior l it
  | .iand it, l => iand l (fromIter it)
  | .isub it, l => isub l it
  | .ixor it, l => ixor l it
  | .iterRm ks, l => (iterRemove (fun k => decide (k ∈ ks)) l).2

def run (ops : List Op) : T := ops.foldl (fun l op => apply op l) []

/-- first-occurrence de-duplication, the specification of `OrderedSet(iterable)` -/
def dedupFirst : List Nat → List Nat
  | [] => []
  | x :: xs => x :: (dedupFirst xs).filter (fun y => y != x)

end OSet
end Pyx
