/-
  C10 — the attribute store of one `xtuml.meta.Class` instance, as Python resolves it, and the
  case-insensitive class table of `xtuml.meta.MetaModel`.  Written from xtuml/meta.py as it is now.

  Names are `List Char`; `fold` is `str.upper()` RESTRICTED TO ASCII (`Char.toUpper` maps a–z only);
  the harness generates ASCII identifiers only.

  Python's lookup order for `getattr(inst, name)`:
    1. a data descriptor on the type under the EXACT name — `Association.formalize` installs a
       `property` under each referential attribute name (`refs`);
    2. `inst.__dict__[name]`, EXACT spelling;
    3. `Class.__getattr__`: loop over the declared attributes, first one whose `upper()` equals
       `name.upper()`: `object.__getattribute__(self, attr)` (property under the declared name, else
       `__dict__[attr]`, else AttributeError); no declared match → AttributeError.
       (An instance created BEFORE `formalize` keeps the referential value in its `__dict__`; the property
       shadows it under every spelling.)
  Not modelled: names that collide with Python-level attributes of `Class` (`__metaclass__`, `__add__`, …).
-/

namespace Pyx
namespace Attr

abbrev Name := List Char

/-- `str.upper()`, ASCII only -/
def fold (n : Name) : Name := n.map Char.toUpper

/-- attribute values.  Equality is structural: Python's `False == 0 == 0.0` across bool/int/float is NOT
    modelled (the C10 histories use `int`, `str`, `none` only; `bool`/`real` occur as typed defaults, C19);
    a float is kept as the text Python prints for it. -/
inductive Val where
  | int (i : Int)
  | str (s : List Char)
  | none
  | bool (b : Bool)
  | real (repr : List Char)
  deriving DecidableEq, Repr, Inhabited

/-! ### `__dict__`: insertion-ordered association list keyed by exact spelling -/

abbrev Dict := List (Name × Val)

def dget : Dict → Name → Option Val
  | [], _ => none
  | (k, v) :: r, n => if k = n then some v else dget r n

/-- `d[n] = v`: an existing key keeps its position, a new key goes to the end -/
def dset : Dict → Name → Val → Dict
  | [], n, v => [(n, v)]
  | (k, w) :: r, n, v => if k = n then (k, v) :: r else (k, w) :: dset r n v

def ddel (d : Dict) (n : Name) : Dict := d.filter (fun kv => decide (kv.1 ≠ n))

def keys (d : Dict) : List Name := d.map (·.1)

/-! ### one metaclass, as far as attribute access is concerned -/

structure Cls where
  kind  : Name
  attrs : List (Name × Name)      -- declared (name, type name), in order
  refs  : List Name               -- `referential_attributes` = names under which `formalize` put a property

def Cls.names (c : Cls) : List Name := c.attrs.map (·.1)

/-- the loop `for attr, _ in attributes: if attr.upper() != uname: continue` — first declared match -/
def declMatch (c : Cls) (sp : Name) : Option Name :=
  c.names.find? (fun a => decide (fold a = fold sp))

/-- `attribute_type` -/
def attrType (c : Cls) (sp : Name) : Option Name :=
  (c.attrs.find? (fun a => decide (fold a.1 = fold sp))).map (·.2)

inductive Read where
  | val (v : Val)
  | prop (name : Name)            -- the class property installed under `name` is invoked (fget)
  | attrError
  deriving DecidableEq, Repr

def getattr (c : Cls) (d : Dict) (sp : Name) : Read :=
  if sp ∈ c.refs then .prop sp
  else match dget d sp with
    | some v => .val v
    | none =>
      match declMatch c sp with
      | some a =>                               -- return object.__getattribute__(self, attr): the normal lookup
        if a ∈ c.refs then .prop a              -- under the DECLARED name - the property first, then `__dict__`
        else match dget d a with
          | some v => .val v
          | none => .attrError
      | none => .attrError

inductive SetRes where
  | ok
  | metaExc                       -- MetaException raised by the property's fset
  deriving DecidableEq, Repr

/-- `Class.__setattr__` (current code: `return object.__setattr__(self, attr, value)` on a match - the property of a
    referential attribute refuses, whatever `__dict__` holds) -/
def setattr (c : Cls) (d : Dict) (sp : Name) (v : Val) : Dict × SetRes :=
  match declMatch c sp with
  | some a => if a ∈ c.refs then (d, .metaExc) else (dset d a v, .ok)   -- object.__setattr__(self, attr, value)
  | none => (dset d sp v, .ok)                                          -- self.__dict__[name] = value

inductive DelRes where
  | ok
  | attrError                     -- AttributeError(name): no key matches
  deriving DecidableEq, Repr

/-- `Class.__delattr__` (current code):
      for key in self.__dict__:
          if uname == key.upper():
              del self.__dict__[key]; return
      raise AttributeError(name)
    The first key that matches case-insensitively is deleted; without a match nothing is touched. -/
def delattr (d : Dict) (sp : Name) : Dict × DelRes :=
  match d.find? (fun kv => decide (fold kv.1 = fold sp)) with
  | some kv => (ddel d kv.1, .ok)
  | none => (d, .attrError)

/-- `serialize_instance` reads `getattr(inst, name)` for every declared name, in order -/
def serialReads (c : Cls) (d : Dict) : List Read := c.names.map (getattr c d)

/-- one `where_eq` item on a stored (non-property) value: `getattr(inst, name) != value → break` -/
def whereItemHolds (c : Cls) (d : Dict) (sp : Name) (v : Val) : Bool := decide (getattr c d sp = .val v)

/-! ### histories on one instance (the object of theorem `one_cell`) -/

inductive Op where
  | write (sp : Name) (v : Val)
  | read (sp : Name)
  | delete (sp : Name)
  deriving Repr

def step (c : Cls) (d : Dict) : Op → Dict
  | .write sp v => (setattr c d sp v).1
  | .read _ => d                                  -- neither lookup path mutates anything
  | .delete sp => (delattr d sp).1

def run (c : Cls) (d : Dict) (h : List Op) : Dict := h.foldl (step c) d

/-! ### the assignment loops of `MetaClass.new`

    for name, ty in attributes:   if name not in referential_attributes: setattr(inst, name, default)
    for attr, value in zip(attributes, args):  (same test) setattr  /  referential_attributes[name] = value
    for name, value in kwargs.items():
        for attr_name in self.attribute_names:              # the keyword is first resolved to the declared
            if attr_name.upper() == name.upper():           # name, as attribute access does
                name = attr_name; break
        (same test) setattr  /  referential_attributes[name] = value

  The test `name not in self.referential_attributes` compares EXACT spellings; after the resolution of the
  keyword names the three loops are one loop over `defaults ++ zip names args ++ resolved kwargs`. -/

structure NewAcc where
  dict : Dict
  refd : Dict                                      -- the local dict `referential_attributes`
  deriving DecidableEq, Repr

def assignArg (c : Cls) (acc : NewAcc) (name : Name) (v : Val) : NewAcc × SetRes :=
  if name ∈ c.refs then ({ acc with refd := dset acc.refd name v }, .ok)
  else
    let r := setattr c acc.dict name v
    ({ acc with dict := r.1 }, r.2)

def assignAll (c : Cls) : NewAcc → List (Name × Val) → NewAcc × SetRes
  | acc, [] => (acc, .ok)
  | acc, (n, v) :: r =>
    match assignArg c acc n v with
    | (acc', .ok) => assignAll c acc' r
    | (acc', .metaExc) => (acc', .metaExc)

/-- a keyword name becomes the first declared name with the same upper-casing; unchanged if there is none -/
def resolveKw (c : Cls) (kw : Name × Val) : Name × Val := ((declMatch c kw.1).getD kw.1, kw.2)

def newItems (c : Cls) (defaults : List (Name × Val)) (args : List Val) (kwargs : List (Name × Val)) :
    List (Name × Val) :=
  defaults ++ c.names.zip args ++ kwargs.map (resolveKw c)

def newCore (c : Cls) (defaults : List (Name × Val)) (args : List Val) (kwargs : List (Name × Val)) :
    NewAcc × SetRes :=
  assignAll c ⟨[], []⟩ (newItems c defaults args kwargs)

/-! ### the class table: `MetaModel.metaclasses`, keyed by `kind.upper()` -/

abbrev Classes := List (Name × Cls)

def clsGet : Classes → Name → Option Cls
  | [], _ => none
  | (k, c) :: r, n => if k = n then some c else clsGet r n

/-- `find_metaclass`; `none` = UnknownClassException -/
def findMetaclass (cs : Classes) (kind : Name) : Option Cls := clsGet cs (fold kind)

/-- two of the names coincide after upper-casing (what the `unames` set of `define_class` detects) -/
def dupFold : List Name → Bool
  | [] => false
  | n :: r => r.any (fun m => decide (fold m = fold n)) || dupFold r

/-- `_is_reserved(name)`: `len(name) > 4 and name.startswith('__') and name.endswith('__')` — the names python
    reserves for itself (`__class__`, `__dict__`, `__init__`, …) -/
def isReserved (n : Name) : Bool :=
  decide (n.length > 4) && (['_', '_'] : Name).isPrefixOf n && (['_', '_'] : Name).isSuffixOf n

/-- what the attribute loop of `define_class` refuses: a reserved name, or two names that coincide after upper-casing
    (each name is tested for both in turn; either raises MetaModelException, so the order does not show) -/
def badNames (l : List Name) : Bool := l.any isReserved || dupFold l

/-- `define_class`; `none` = MetaModelException: the name is already defined (in any letter case), an attribute name is
    reserved by python, or two of the attribute names coincide apart from letter case — in all cases nothing is defined -/
def defineClass (cs : Classes) (kind : Name) (attrs : List (Name × Name)) : Option Classes :=
  match clsGet cs (fold kind) with
  | some _ => none
  | none =>
    if badNames (attrs.map (·.1)) then none
    else some (cs ++ [(fold kind, { kind := kind, attrs := attrs, refs := [] })])

/-- any sequence of `define_class` calls; rejected ones leave the table unchanged -/
def defineAll (cs : Classes) : List (Name × List (Name × Name)) → Classes
  | [] => cs
  | (k, as) :: r =>
    match defineClass cs k as with
    | some cs' => defineAll cs' r
    | none => defineAll cs r

/-! ### a small world for the correspondence run: classes, instances in creation order, and ONE
    association  source (referential side, many, conditional) → target (one, conditional), single key.
    (`relate`/`unrelate` cardinality logic in general is C02's subject; here only this shape.) -/

inductive Exc where
  | attributeError | metaE | metaModelE | unknownClass | relateE | unrelateE | unknownLink
  deriving DecidableEq, Repr

structure Inst where
  cls  : Name                      -- key of its metaclass in the class table
  dict : Dict

structure Assoc where
  srcKind : Name                   -- class keys (upper-cased kinds)
  srcKey  : Name
  tgtKind : Name
  tgtKey  : Name

structure World where
  classes : Classes
  assoc   : Option Assoc
  insts   : List Inst
  links   : List (Nat × Nat)       -- (source instance, target instance)
  nextId  : Nat                    -- IntegerGenerator: the value `next` returns next

def World.empty : World := { classes := [], assoc := none, insts := [], links := [], nextId := 1 }

def clsSet : Classes → Name → Cls → Classes
  | [], _, _ => []
  | (k, c) :: r, n, c' => if k = n then (k, c') :: r else (k, c) :: clsSet r n c'

/-- `define_association` (checks both kinds and the target key, case-insensitively) followed by
    `formalize` (adds the source key to `referential_attributes`, installs the property) -/
def defineAssoc (w : World) (srcKind srcKey tgtKind tgtKey : Name) : World × Option Exc :=
  match findMetaclass w.classes srcKind, findMetaclass w.classes tgtKind with
  | some sc, some tc =>
    if isReserved srcKey then (w, some .metaModelE)      -- a reserved source key is refused before anything else
    else if fold tgtKey ∈ tc.names.map fold then
      ({ w with classes := clsSet w.classes (fold srcKind) { sc with refs := sc.refs ++ [srcKey] }
                assoc := some { srcKind := fold srcKind, srcKey := srcKey, tgtKind := fold tgtKind, tgtKey := tgtKey } },
       none)
    else (w, some .metaModelE)
  | _, _ => (w, some .unknownClass)

def instCls (w : World) (i : Inst) : Option Cls := clsGet w.classes i.cls

def linkedTarget (w : World) (b : Nat) : Option Nat := (w.links.find? (fun p => decide (p.1 = b))).map (·.2)

/-- `getattr(inst, sp)` with the property resolved:
    fget = `other = target_link.navigate_one(inst); return getattr(other, primary_key, None)` -/
def readVal (w : World) (i : Nat) (sp : Name) : Except Exc Val :=
  match w.insts[i]? with
  | none => .error .attributeError
  | some inst =>
    match instCls w inst with
    | none => .error .attributeError
    | some c =>
      match getattr c inst.dict sp with
      | .val v => .ok v
      | .attrError => .error .attributeError
      | .prop _ =>
        match w.assoc, linkedTarget w i with
        | some as, some a =>
          match w.insts[a]? with
          | some ia =>
            match instCls w ia with
            | some ca =>
              match getattr ca ia.dict as.tgtKey with
              | .val v => .ok v
              | _ => .ok .none
            | none => .ok .none
          | none => .ok .none
        | _, _ => .ok .none

def setInstDict (w : World) (i : Nat) (d : Dict) : World :=
  match w.insts[i]? with
  | some inst => { w with insts := w.insts.set i { inst with dict := d } }
  | none => w

def writeVal (w : World) (i : Nat) (sp : Name) (v : Val) : World × Option Exc :=
  match w.insts[i]? with
  | none => (w, some .attributeError)
  | some inst =>
    match instCls w inst with
    | none => (w, some .attributeError)
    | some c =>
      match setattr c inst.dict sp v with
      | (d, .ok) => (setInstDict w i d, none)
      | (_, .metaExc) => (w, some .metaE)          -- `setattr` returns the dictionary unchanged in this case

def deleteVal (w : World) (i : Nat) (sp : Name) : World × Option Exc :=
  match w.insts[i]? with
  | none => (w, some .attributeError)
  | some inst =>
    match delattr inst.dict sp with
    | (d, .ok) => (setInstDict w i d, none)
    | (_, .attrError) => (w, some .attributeError)      -- `delattr` returns the dictionary unchanged in this case

/-- indices of the instances in `metaclass.storage`, in creation order -/
def storageOf (w : World) (key : Name) : List Nat :=
  (List.range w.insts.length).filter (fun i => match w.insts[i]? with
    | some inst => decide (inst.cls = key)
    | none => false)

/-- `serialize_instance`: the values read, `none` where Python reads `None` -/
def serialVals (w : World) (i : Nat) : List Name → Except Exc (List Val)
  | [] => .ok []
  | n :: r =>
    match readVal w i n with
    | .error e => .error e
    | .ok v =>
      match serialVals w i r with
      | .error e => .error e
      | .ok l => .ok (v :: l)

def serialize (w : World) (i : Nat) : Except Exc (List Val) :=
  match w.insts[i]? with
  | none => .error .attributeError
  | some inst =>
    match instCls w inst with
    | none => .error .attributeError
    | some c => serialVals w i c.names

/-- building a Relate/UnrelateException formats both instances with `Class.__str__`, which reads every
    declared attribute: a deleted attribute makes that raise AttributeError instead -/
def excOrAttrError (w : World) (i j : Nat) (e : Exc) : Exc :=
  match serialize w i, serialize w j with
  | .ok _, .ok _ => e
  | _, _ => .attributeError

/-- `relate` for the one association shape: a source instance refers to at most one target -/
def relate (w : World) (i j : Nat) : World × Option Exc :=
  match w.assoc, w.insts[i]?, w.insts[j]? with
  | some as, some ii, some ij =>
    let pair : Option (Nat × Nat) :=          -- (source b, target a)
      if ii.cls = as.tgtKind ∧ ij.cls = as.srcKind then some (j, i)
      else if ii.cls = as.srcKind ∧ ij.cls = as.tgtKind then some (i, j)
      else none
    match pair with
    | none => (w, some .unknownLink)
    | some (b, a) =>
      match linkedTarget w b with
      | some a' => if a' = a then (w, none) else (w, some (excOrAttrError w i j .relateE))
      | none => ({ w with links := w.links ++ [(b, a)] }, none)
  | _, _, _ => (w, some .unknownLink)

def unrelate (w : World) (i j : Nat) : World × Option Exc :=
  match w.assoc, w.insts[i]?, w.insts[j]? with
  | some as, some ii, some ij =>
    let pair : Option (Nat × Nat) :=
      if ii.cls = as.tgtKind ∧ ij.cls = as.srcKind then some (j, i)
      else if ii.cls = as.srcKind ∧ ij.cls = as.tgtKind then some (i, j)
      else none
    match pair with
    | none => (w, some .unknownLink)
    | some (b, a) =>
      if (b, a) ∈ w.links then ({ w with links := w.links.filter (fun p => decide (p ≠ (b, a))) }, none)
      else (w, some (excOrAttrError w i j .unrelateE))
  | _, _, _ => (w, some .unknownLink)

/-- `WhereEqual.__call__` over a storage: instances in order, items in order, first raising read aborts -/
def whereInst (w : World) (i : Nat) : List (Name × Val) → Except Exc Bool
  | [] => .ok true
  | (sp, v) :: r =>
    match readVal w i sp with
    | .error e => .error e
    | .ok x => if x = v then whereInst w i r else .ok false

def whereAll (w : World) (filt : List (Name × Val)) : List Nat → Except Exc (List Nat)
  | [] => .ok []
  | i :: r =>
    match whereInst w i filt with
    | .error e => .error e
    | .ok b =>
      match whereAll w filt r with
      | .error e => .error e
      | .ok l => .ok (if b then i :: l else l)

/-- `MetaModel.select_many(kind, where_eq(**filt))` -/
def selectMany (w : World) (kind : Name) (filt : List (Name × Val)) : Except Exc (List Nat) :=
  match findMetaclass w.classes kind with
  | none => .error .unknownClass
  | some _ => whereAll w filt (storageOf w (fold kind))

/-- defaults of the three types the C10 histories use (typed defaults in general: C19) -/
def simpleDefault (ty : Name) (nextId : Nat) : Option (Val × Nat) :=
  let u := fold ty
  if u = "INTEGER".toList then some (.int 0, nextId)
  else if u = "STRING".toList then some (.str [], nextId)
  else if u = "UNIQUE_ID".toList then some (.int nextId, nextId + 1)
  else none

/-- `default_value` as a parameter: type name, generator position ↦ (value, new position); `none` = MetaException -/
abbrev DfltFn := Name → Nat → Option (Val × Nat)

/-- defaults for the non-referential attributes, in order; stops at an unknown type (`false`) -/
def computeDefaults (dflt : DfltFn) (c : Cls) : List (Name × Name) → Nat → List (Name × Val) × Nat × Bool
  | [], n => ([], n, true)
  | (a, ty) :: r, n =>
    if a ∈ c.refs then computeDefaults dflt c r n
    else
      match dflt ty n with
      | none => ([], n, false)
      | some (v, n') =>
        let (l, n'', ok) := computeDefaults dflt c r n'
        ((a, v) :: l, n'', ok)

/-- the batch-relate tail of `MetaClass.new` for the one association: relate every target whose
    key equals the supplied referential value, in storage order; the first exception aborts -/
def relateMatches (w : World) (b : Nat) (tgtKey : Name) (v : Val) : List Nat → World × Option Exc
  | [] => (w, none)
  | a :: r =>
    match readVal w a tgtKey with
    | .error e => (w, some e)
    | .ok x =>
      if x = v then
        match relate w a b with
        | (w', none) => relateMatches w' b tgtKey v r
        | (w', some e) => (w', some e)
      else relateMatches w b tgtKey v r

/-- the creation part of `MetaClass.new` — everything before the batch relate — for a class `c` and a generator at
    position `pos`: (the `__dict__` and the local referential dict, the defaults computed, the new position, no
    MetaException?).  `NewInst.newOne` (the object of the C19 theorems) is this function, see `NewInst.newOne_eq_newDict` -/
def newDict (dflt : DfltFn) (c : Cls) (args : List Val) (kwargs : List (Name × Val)) (pos : Nat) :
    NewAcc × List (Name × Val) × Nat × Bool :=
  let (defs, nid, dok) := computeDefaults dflt c c.attrs pos
  if !dok then
    -- default_value raised MetaException: the attributes before the offending one are set
    let (acc, _) := assignAll c ⟨[], []⟩ defs
    (acc, defs, nid, false)
  else
    let (acc, res) := assignAll c ⟨[], []⟩ (newItems c defs args kwargs)
    (acc, defs, nid, decide (res = .ok))

/-- `MetaModel.new(kind, *args, **kwargs)`; the instance is appended to the storage first and stays there
    whatever happens afterwards -/
def newInstWith (dflt : DfltFn) (w : World) (kind : Name) (args : List Val) (kwargs : List (Name × Val)) :
    World × Option Exc :=
  match findMetaclass w.classes kind with
  | none => (w, some .unknownClass)
  | some c =>
    let key := fold kind
    let b := w.insts.length
    let r := newDict dflt c args kwargs w.nextId
    let w1 := { w with insts := w.insts ++ [{ cls := key, dict := r.1.dict }], nextId := r.2.2.1 }
    if !r.2.2.2 then (w1, some .metaE)
    else
      match w1.assoc with
      | none => (w1, none)
      | some as =>
        if as.srcKind = key then
          match dget r.1.refd as.srcKey with
          | none => (w1, none)
          | some v =>
            let ty := ((attrType c as.srcKey).getD []) |> fold
            if v = .none ∨ (ty = "UNIQUE_ID".toList ∧ v = .int 0) ∨ (ty = "STRING".toList ∧ v = .str []) then
              (w1, none)
            else relateMatches w1 b as.tgtKey v (storageOf w1 as.tgtKind)
        else (w1, none)

/-- the C10 histories: IntegerGenerator (position n yields n, starting at 1) and three types -/
def newInst (w : World) (kind : Name) (args : List Val) (kwargs : List (Name × Val)) : World × Option Exc :=
  newInstWith simpleDefault w kind args kwargs

end Attr
end Pyx
