import PyxModel.Extract.Schema
import PyxModel.Sql.Printer

/-
  C14, last clause — the extracted component as the metamodel the writers of xtuml/persist.py look at
  (`Pyx.Sql.MM`, PyxModel/Sql/Printer.lean): `gen_sql_schema.main` ends with
  `xtuml.persist_database(c, opts.output)`, i.e. the route `MM.persistDatabase` (per class in sorted order its
  CREATE TABLE and its CREATE UNIQUE INDEX lines, then the associations sorted by rel_id, then the
  instances — a freshly built component has none).

    define_class(Key_Lett, [(name, TYPE)…])            -> ClassM.kind / attrs
    define_unique_identifier(Key_Lett, n, *names)      -> the index named 'I%d' % n   (`Pyx.Sql.natText` = '%d')
    define_association(rel_id = Numb, …)               -> AssocM with relId 'R%d' % Numb; `src.phrase` is the
                                                          phrase printed after the first end = source_phrase
-/

namespace Pyx.Extract
open Pyx.Sql (Name EndM ClassM AssocM MM natText)

def indexName (n : Nat) : Name := 'I' :: natText n
def relName (n : Nat) : Name := 'R' :: natText n

def SEnd.toM (e : SEnd) : EndM :=
  { many := e.many, cond := e.cond, kind := e.kind.toList, keys := e.keys.map String.toList, phrase := e.phrase.toList }

def SClass.toM (c : SClass) : ClassM :=
  { kind := c.kl.toList,
    attrs := c.attrs.map (fun a => (a.name.toList, a.ty.toList)),
    indices := c.idents.map (fun i => (indexName i.num, i.names.map String.toList)),
    rows := [] }

def SGroup.toM (g : SGroup) : List AssocM :=
  g.items.map (fun a => { relId := relName g.rel, src := a.src.toM, tgt := a.tgt.toM })

def Schema.toMM (s : Schema) : MM :=
  { classes := s.classes.map SClass.toM, assocs := s.groups.flatMap SGroup.toM }

end Pyx.Extract
