import PyxModel.Extract.Edit
import Gen.XsdCore

/-
  C20 — `xsd`: the XML tree `bridgepoint.gen_xsd_schema.build_schema(m, c_c)` must return for a
  class diagram, written from gen_xsd_schema.py:

    get_type_name            `typeNameOf`
    get_refered_attribute    `attrDt` (Schema.lean: the data type of the attribute reached over R113)
    build_core_type          `coreXs` / `xtypeOf`, case `core`  (chosen by the NAME of the type)
    build_enum_type          `xtypeOf`, case `enum`  (enumerators in R56 order)
    build_user_type          `xtypeOf`, case `user`
    build_type               `xtypeOf`  (S_SDT and anything else: nothing)
    build_class              `xclassOf` (`while S_UDT: base` = `baseTypeFuel`)
    build_component          `XsdSpec.classes`, `render`
    build_schema             `xsdSpec` (global types, then the types contained in the component), `render`

  `xsdSpec` is the declarative content, `render` the fixed XML vocabulary around it.
-/

namespace Pyx.Extract

inductive XmlTree where
  | node (tag : String) (attrs : List (String × String)) (children : List XmlTree)
  deriving Repr, Inhabited

/-- a declared simple type -/
inductive XType where
  | restriction (name base : String)               -- core type (base xs:...) or user type (base = a model type)
  | enumeration (name : String) (values : List String)
  deriving DecidableEq, Repr, Inhabited

def XType.name : XType → String
  | .restriction n _ => n
  | .enumeration n _ => n

structure XAttr where
  name : String
  ty : String
  deriving DecidableEq, Repr, Inhabited

structure XClass where
  kl : String
  attrs : List XAttr
  deriving DecidableEq, Repr, Inhabited

structure XsdSpec where
  types : List XType
  comp : String
  classes : List XClass
  deriving DecidableEq, Repr, Inhabited

/-- `build_core_type`: the xs: base of a core type, selected by its name from the if/elif chain of the source
    (`Gen.XsdCore.table`, regenerated from bridgepoint/gen_xsd_schema.py on every run); void and every name that
    is not listed (state<State_Model>, inst_ref<Object>, …) are not declared -/
def coreXs (name : String) : Option String :=
  match Gen.XsdCore.table.find? (fun p => p.1 == name) with
  | some p => p.2
  | none => none

/-- `get_type_name(s_dt)`: the name, for core types 1..5, enumerations and user types; an EMPTY name counts as no
    name for every caller -/
def typeNameOf (dts : List DataType) (id : Nat) : Option String :=
  match findDt dts id with
  | none => none
  | some t =>
    if t.name == "" then none else      -- every caller tests the name for truthiness (`if base_name:`, `if type_name and …`)
    match t.kind with
    | .core n => if 1 ≤ n ∧ n ≤ 5 then some t.name else none
    | .enum _ => some t.name
    | .user _ => some t.name
    | .other => none

/-- `build_type(s_dt)` -/
def xtypeOf (dts : List DataType) (t : DataType) : Option XType :=
  match t.kind with
  | .core _ => (coreXs t.name).map (fun b => .restriction t.name b)
  | .enum es => some (.enumeration t.name es)
  | .user b => (typeNameOf dts b).map (fun bn => .restriction t.name bn)
  | .other => none

/-- `while S_UDT[17]: s_dt = S_UDT[17].S_DT[18]` followed by `get_type_name`: the name of the data type
    at the end of the chain of user types (fuel for the loop; a cyclic chain never ends in Python) -/
def baseTypeFuel (dts : List DataType) : Nat → Nat → Option String
  | 0, _ => none
  | f + 1, id =>
    match findDt dts id with
    | none => none
    | some t =>
      match t.kind with
      | .user b => baseTypeFuel dts f b
      | .core n => if 1 ≤ n ∧ n ≤ 5 ∧ t.name ≠ "" then some t.name else none
      | .enum _ => if t.name = "" then none else some t.name      -- `if type_name and …`: an empty name is falsy
      | .other => none

def baseTypeName (dts : List DataType) (id : Nat) : Option String := baseTypeFuel dts (dts.length + 1) id

/-- the body of the attribute loop of `build_class`: derived attributes are never declared; the type is
    the base data type of the (referred) attribute -/
def xattr (d : ClassDiagram) (a : Attr) : Option XAttr :=
  if a.isDerived then none
  else ((attrDt d a).bind (baseTypeName d.dts)).map (fun n => { name := a.name, ty := n })

def xclassOf (d : ClassDiagram) (c : Class) : XClass := { kl := c.kl, attrs := c.attrs.filterMap (xattr d) }

def compName (d : ClassDiagram) (comp : Nat) : String :=
  match findContainer d.containers true comp with
  | some k => k.name
  | none => ""

/-- `build_class` iterates the attributes related across R102: the ones off the R103 chain as well -/
def xclassAll (d : ClassDiagram) (c : Class) : XClass :=
  { kl := c.kl, attrs := (looseOf d c.id).filterMap (xattr d) ++ (xclassOf d c).attrs }

/-- `build_schema(m, c_c)` as a declaration list.  The second loop of the code takes the data types that are contained in
    the component AND not global: a data type of a global package that a package of the component REFERS to (EP_PKGREF)
    is global and contained, and is declared by the first loop only (fix 6208c4e; Props/C20 `xsd_type_loops_disjoint`,
    `xsd_global_contained_declared_once`).  Without package references a contained data type is never global
    (`contained_not_global_plain`) and the second condition filters nothing (`xsdSpec_no_pkgref`). -/
def xsdSpec (d : ClassDiagram) (comp : Nat) : XsdSpec :=
  { types := (d.dts.filter (fun t => isGlobal d.containers t.parent)).filterMap (xtypeOf d.dts) ++
             (d.dts.filter (fun t => containedIn d.containers d.pkgrefs comp t.parent && !isGlobal d.containers t.parent)).filterMap (xtypeOf d.dts),
    comp := compName d comp,
    classes := (d.classes.filter (fun c => containedIn d.containers d.pkgrefs comp c.parent)).map (xclassAll d) }

/-- the same when every attribute is on the R103 chain of its class (`d.loose = []`, see `xsdSpec_chained`) -/
def xsdSpecChained (d : ClassDiagram) (comp : Nat) : XsdSpec :=
  { types := (d.dts.filter (fun t => isGlobal d.containers t.parent)).filterMap (xtypeOf d.dts) ++
             (d.dts.filter (fun t => containedIn d.containers d.pkgrefs comp t.parent && !isGlobal d.containers t.parent)).filterMap (xtypeOf d.dts),
    comp := compName d comp,
    classes := (d.classes.filter (fun c => containedIn d.containers d.pkgrefs comp c.parent)).map (xclassOf d) }

/-! ### the XML around the declarations -/

def leaf (tag : String) (attrs : List (String × String)) : XmlTree := .node tag attrs []

def renderType : XType → XmlTree
  | .restriction n b => .node "xs:simpleType" [("name", n)] [leaf "xs:restriction" [("base", b)]]
  | .enumeration n vs =>
    .node "xs:simpleType" [("name", n)]
      [.node "xs:restriction" [("base", "xs:string")] (vs.map (fun v => leaf "xs:enumeration" [("value", v)]))]

def renderAttr (a : XAttr) : XmlTree := leaf "xs:attribute" [("name", a.name), ("type", a.ty)]

def renderClass (c : XClass) : XmlTree :=
  .node "xs:element" [("name", c.kl), ("minOccurs", "0"), ("maxOccurs", "unbounded")]
    [.node "xs:complexType" [] (c.attrs.map renderAttr)]

def renderComp (name : String) (cs : List XClass) : XmlTree :=
  .node "xs:element" [("name", name)] [.node "xs:complexType" [] [.node "xs:sequence" [] (cs.map renderClass)]]

def render (s : XsdSpec) : XmlTree :=
  .node "xs:schema" [("xmlns:xs", "http://www.w3.org/2001/XMLSchema")]
    (s.types.map renderType ++ [renderComp s.comp s.classes])

def xsd (d : ClassDiagram) (comp : Nat) : XmlTree := render (xsdSpec d comp)

/-- `gen_xsd_schema.main -c NAME`: the first component with that name; none -> exit status 1 -/
def xsdByName (d : ClassDiagram) (name : String) : Option XmlTree :=
  (d.containers.find? (fun k => k.isComp && k.name == name)).map (fun k => xsd d k.id)

/-! ### the file `gen_xsd_schema.main` writes

  `ET.tostring(schema)` re-parsed by `xml.dom.minidom` and written by `toprettyxml(indent="    ")`:
  `Element.writexml` (indent, `<tag`, ` key="value"` per attribute in order, `/>` for an element without
  children, otherwise `>`, the children one level deeper, indent, `</tag>`, each line ended by a newline) and
  `_write_data(writer, value, attr=True)` for the attribute values. -/

/-- `xml.dom.minidom._write_data`: the replacements `&` (first) `<` `"` `>` — i.e. per character.  (Newer
    Python versions also replace CR, LF and TAB inside attribute values, 3.12.1 writes them raw and an XML parser
    then reads blanks: names with control characters are outside the domain.) -/
def escChar (c : Char) : List Char :=
  if c = '&' then "&amp;".toList
  else if c = '<' then "&lt;".toList
  else if c = '>' then "&gt;".toList
  else if c = '\x22' then "&quot;".toList
  else [c]

def escAttr (s : List Char) : List Char := s.flatMap escChar

def attrText (p : String × String) : List Char :=
  ' ' :: p.1.toList ++ '=' :: '\x22' :: escAttr p.2.toList ++ ['\x22']

def attrsText (attrs : List (String × String)) : List Char := attrs.flatMap attrText

mutual
  def nodeText (indent : List Char) : XmlTree → List Char
    | .node tag attrs children =>
      indent ++ '<' :: tag.toList ++ attrsText attrs ++
        (match children with
         | [] => "/>\n".toList
         | c :: cs => ">\n".toList ++ nodesText ("    ".toList ++ indent) (c :: cs) ++ indent ++ '<' :: '/' :: tag.toList ++ ">\n".toList)
  def nodesText (indent : List Char) : List XmlTree → List Char
    | [] => []
    | c :: cs => nodeText indent c ++ nodesText indent cs
end

/-! reading a start tag back (what an XML parser does with the attribute list; used to state that the escaping
    is sound) -/

/-- one of the four predefined entity references the writer produces, at the head of the text -/
def entityAt : List Char → Option (Char × List Char)
  | '&' :: 'a' :: 'm' :: 'p' :: ';' :: r => some ('&', r)
  | '&' :: 'l' :: 't' :: ';' :: r => some ('<', r)
  | '&' :: 'g' :: 't' :: ';' :: r => some ('>', r)
  | '&' :: 'q' :: 'u' :: 'o' :: 't' :: ';' :: r => some ('\x22', r)
  | _ => none

def unescFuel : Nat → List Char → List Char
  | 0, _ => []
  | _ + 1, [] => []
  | n + 1, c :: r =>
    match entityAt (c :: r) with
    | some (x, r') => x :: unescFuel n r'
    | none => c :: unescFuel n r

/-- expansion of the entity references of an attribute value -/
def unescAttr (s : List Char) : List Char := unescFuel s.length s

/-- ` key="value"` repeated: key up to `=`, value between double quotes, references expanded; stops at the
    first character that is not a blank -/
def readAttrs : Nat → List Char → Option (List (List Char × List Char) × List Char)
  | 0, s => some ([], s)
  | n + 1, ' ' :: s =>
    let key := s.takeWhile (fun c => c != '=')
    match s.dropWhile (fun c => c != '=') with
    | '=' :: '\x22' :: s' =>
      let raw := s'.takeWhile (fun c => c != '\x22')
      match s'.dropWhile (fun c => c != '\x22') with
      | '\x22' :: s'' =>
        match readAttrs n s'' with
        | some (more, rest) => some ((key, unescAttr raw) :: more, rest)
        | none => none
      | _ => none
    | _ => none
  | _ + 1, s => some ([], s)

/-- the text of the written file -/
def fileText (t : XmlTree) : List Char := "<?xml version=\"1.0\" ?>\n".toList ++ nodeText [] t

/-! ### reading an XML tree -/

def XmlTree.tag : XmlTree → String
  | .node t _ _ => t

def XmlTree.attrs : XmlTree → List (String × String)
  | .node _ a _ => a

def XmlTree.children : XmlTree → List XmlTree
  | .node _ _ c => c

def XmlTree.attr (t : XmlTree) (name : String) : Option String :=
  (t.attrs.find? (fun p => p.1 == name)).map (·.2)

def XmlTree.childrenTagged (t : XmlTree) (tag : String) : List XmlTree := t.children.filter (fun c => c.tag == tag)

/-- the `xs:simpleType` declarations of a schema -/
def simpleTypeNodes (t : XmlTree) : List XmlTree := t.childrenTagged "xs:simpleType"

/-- the class elements: schema / element / complexType / sequence / element -/
def classNodes (t : XmlTree) : List XmlTree :=
  (((t.childrenTagged "xs:element").flatMap (·.childrenTagged "xs:complexType")).flatMap
    (·.childrenTagged "xs:sequence")).flatMap (·.childrenTagged "xs:element")

/-- the attribute declarations of a class element: element / complexType / attribute -/
def attributeNodes (t : XmlTree) : List XmlTree :=
  (t.childrenTagged "xs:complexType").flatMap (·.childrenTagged "xs:attribute")

/-- the enumerators of a simple type: simpleType / restriction / enumeration -/
def enumerationValues (t : XmlTree) : List (Option String) :=
  ((t.childrenTagged "xs:restriction").flatMap (·.childrenTagged "xs:enumeration")).map (·.attr "value")

/-! ### edits (C20) -/

inductive XEdit where
  | renameAttr (c a : Nat) (new : String)
  | retypeAttr (c a : Nat) (dt : Nat)
  /-- a new attribute at the end of the class's attribute order -/
  | addAttr (c : Nat) (x : Attr)
  /-- a new enumerator at the end -/
  | addEnum (t : Nat) (name : String)
  /-- the enumerators in the order given by positions `perm` -/
  | permEnums (t : Nat) (perm : List Nat)
  /-- a new data type (a user type) at the end of the S_DT rows -/
  | addType (t : DataType)
  | moveClass (c : Nat) (p : Parent)
  deriving Repr, Inhabited

def mapDt (d : ClassDiagram) (t : Nat) (f : DataType → DataType) : ClassDiagram :=
  { d with dts := d.dts.map (fun x => if x.id == t then f x else x) }

def DtKind.mapEnum (f : List String → List String) : DtKind → DtKind
  | .enum es => .enum (f es)
  | k => k

def permute (perm : List Nat) (es : List String) : List String := perm.filterMap (fun i => es[i]?)

def applyXEdit (e : XEdit) (d : ClassDiagram) : ClassDiagram :=
  match e with
  | .renameAttr c a new => applyEdit (.renameAttr c a new) d
  | .retypeAttr c a dt => applyEdit (.retypeAttr c a dt) d
  | .addAttr c x => mapClass d c (fun k => { k with attrs := k.attrs ++ [x] })
  | .addEnum t name => mapDt d t (fun x => { x with kind := x.kind.mapEnum (fun es => es ++ [name]) })
  | .permEnums t perm => mapDt d t (fun x => { x with kind := x.kind.mapEnum (permute perm) })
  | .addType t => { d with dts := d.dts ++ [t] }
  | .moveClass c p => applyEdit (.moveClass c p) d

inductive XSEdit where
  | nop
  | renameAttr (kl old new : String)
  | retype (sites : List (String × String)) (ty : String)
  | appendAttr (kl : String) (x : XAttr)
  | setEnum (name : String) (values : List String)
  | insertType (pos : Nat) (x : XType)
  | dropClass (kl : String)
  | insertClass (pos : Nat) (c : XClass)
  deriving Repr, Inhabited

def XType.setEnum (name : String) (values : List String) : XType → XType
  | .enumeration n vs => if n == name then .enumeration n values else .enumeration n vs
  | x => x

def specEdit (se : XSEdit) (s : XsdSpec) : XsdSpec :=
  match se with
  | .nop => s
  | .renameAttr kl old new =>
    { s with classes := s.classes.map (fun c =>
        if c.kl == kl then { c with attrs := c.attrs.map (fun a => { a with name := renameKey old new a.name }) } else c) }
  | .retype sites ty =>
    { s with classes := s.classes.map (fun c =>
        { c with attrs := c.attrs.map (fun a => if sites.contains (c.kl, a.name) then { a with ty := ty } else a) }) }
  | .appendAttr kl x =>
    { s with classes := s.classes.map (fun c => if c.kl == kl then { c with attrs := c.attrs ++ [x] } else c) }
  | .setEnum name values => { s with types := s.types.map (XType.setEnum name values) }
  | .insertType pos x => { s with types := insertAt pos x s.types }
  | .dropClass kl => { s with classes := s.classes.filter (fun c => c.kl != kl) }
  | .insertClass pos c => { s with classes := insertAt pos c s.classes }

def xresolve (d : ClassDiagram) (comp : Nat) (e : XEdit) : XSEdit :=
  match e with
  | .renameAttr c a new =>
    match findClass d c with
    | some k =>
      match k.findAttr a with
      | some x => .renameAttr k.kl x.name new
      | none => .nop
    | none => .nop
  | .retypeAttr c a dt =>
    match findClass d c with
    | some k =>
      match k.findAttr a, baseTypeName d.dts dt with
      | some x, some ty =>
        match x.kind with
        | .ref _ _ => .nop
        | _ => .retype ((k.kl, x.name) :: dependents d c a) ty
      | _, _ => .nop
    | none => .nop
  | .addAttr c x =>
    match findClass d c with
    | some k =>
      match xattr d x with
      | some xa => .appendAttr k.kl xa
      | none => .nop
    | none => .nop
  | .addEnum t name =>
    match findDt d.dts t with
    | some x =>
      match x.kind with
      | .enum es => .setEnum x.name (es ++ [name])
      | _ => .nop
    | none => .nop
  | .permEnums t perm =>
    match findDt d.dts t with
    | some x =>
      match x.kind with
      | .enum es => .setEnum x.name (permute perm es)
      | _ => .nop
    | none => .nop
  | .addType t =>
    match xtypeOf d.dts t with
    | some x =>
      if isGlobal d.containers t.parent then
        .insertType ((d.dts.filter (fun t => isGlobal d.containers t.parent)).filterMap (xtypeOf d.dts)).length x
      else if containedIn d.containers d.pkgrefs comp t.parent then
        .insertType (((d.dts.filter (fun t => isGlobal d.containers t.parent)).filterMap (xtypeOf d.dts)).length +
          ((d.dts.filter (fun t => containedIn d.containers d.pkgrefs comp t.parent && !isGlobal d.containers t.parent)).filterMap (xtypeOf d.dts)).length) x
      else .nop
    | none => .nop
  | .moveClass c p =>
    match findClass d c with
    | some k =>
      match containedIn d.containers d.pkgrefs comp k.parent, containedIn d.containers d.pkgrefs comp p with
      | true, false => .dropClass k.kl
      | false, true =>
        .insertClass ((d.classes.takeWhile (fun x => x.id != c)).filter
          (fun x => containedIn d.containers d.pkgrefs comp x.parent)).length (xclassOf d k)
      | _, _ => .nop
    | none => .nop

def applyXEdits (es : List XEdit) (d : ClassDiagram) : ClassDiagram := es.foldl (fun acc e => applyXEdit e acc) d
def specEdits (ses : List XSEdit) (s : XsdSpec) : XsdSpec := ses.foldl (fun acc e => specEdit e acc) s
def xresolveAll (d : ClassDiagram) (comp : Nat) : List XEdit → List XSEdit
  | [] => []
  | e :: es => xresolve d comp e :: xresolveAll (applyXEdit e d) comp es

end Pyx.Extract
