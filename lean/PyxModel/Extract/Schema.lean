import PyxModel.Extract.Diagram

/-
  C14 — `extract`: what `mk_component` / `ModelLoader.build_component` must define for a diagram.
  Written from bridgepoint/ooaofooa.py line by line:

    _get_data_type_name      `dtTypeName`
    get_attribute_type       `attrDt`
    mk_class                 `classOf`   (attribute loop `sattr`, identifier loop `identOf`)
    _get_related_attributes  `keyNames`
    mk_simple_association    `groupOf`, case `simple`
    mk_linked_association    `groupOf`, case `linked`  (the two `_mk_assoc` calls, in call order)
    mk_subsuper_association  `groupOf`, case `subsup`
    mk_derived_association   `groupOf`, case `derived`
    mk_component             `extract`
    build_component          `extractByName`

  The result records the arguments of `define_class`, `define_unique_identifier` and
  `define_association`; associations are grouped by the relationship they were made for.
-/

namespace Pyx.Extract

structure SAttr where
  name : String
  ty : String
  deriving DecidableEq, Repr, Inhabited

/-- `define_unique_identifier(kl, num, *names)` -/
structure SIdent where
  num : Nat
  names : List String
  deriving DecidableEq, Repr, Inhabited

structure SClass where
  kl : String
  attrs : List SAttr
  idents : List SIdent
  deriving DecidableEq, Repr, Inhabited

/-- one side of `define_association`: `<side>_kind, _keys, _many, _conditional, _phrase` -/
structure SEnd where
  kind : String
  keys : List String
  many : Bool
  cond : Bool
  phrase : String
  deriving DecidableEq, Repr, Inhabited

structure SAssoc where
  src : SEnd
  tgt : SEnd
  deriving DecidableEq, Repr, Inhabited

/-- the `define_association` calls made for one R_REL (all with `rel_id = Numb`), in call order -/
structure SGroup where
  rel : Nat
  items : List SAssoc
  deriving DecidableEq, Repr, Inhabited

structure Schema where
  classes : List SClass
  groups : List SGroup
  deriving DecidableEq, Repr, Inhabited

/-- all `define_association` calls, flat -/
def Schema.assocs (s : Schema) : List (Nat × SAssoc) :=
  (s.groups.map (fun g => g.items.map (fun a => (g.rel, a)))).flatten

/-! ### data types -/

/-- `str.upper()` on the ASCII letters (the names of the core types); written over the character list
    so that the kernel can evaluate it -/
def upper (s : String) : String := String.ofList (s.toList.map Char.toUpper)

/-- `_get_data_type_name`: core types 1..5 -> upper-cased name, enumerations -> INTEGER,
    user types -> their base (recursively), anything else -> None.  Fuel stands for the Python
    recursion over R18 (a cyclic chain of user types never returns in Python). -/
def dtTypeFuel (dts : List DataType) : Nat → Nat → Option String
  | 0, _ => none
  | f + 1, id =>
    match findDt dts id with
    | none => none
    | some t =>
      match t.kind with
      | .core n => if 1 ≤ n ∧ n ≤ 5 ∧ t.name ≠ "" then some (upper t.name) else none   -- `elif not ty:` an empty name is falsy
      | .enum _ => some "INTEGER"
      | .user b => dtTypeFuel dts f b
      | .other => none

def dtTypeName (dts : List DataType) (id : Nat) : Option String := dtTypeFuel dts (dts.length + 1) id

/-- `get_attribute_type`: the S_DT of the attribute, for a referential attribute the S_DT of the
    base attribute it refers to over R113.  A referential attribute whose R113 does not lead to a
    base attribute keeps its own type same_as<Base_Attribute>, which is unsupported: `none`. -/
def attrDt (d : ClassDiagram) (a : Attr) : Option Nat :=
  match a.kind with
  | .base dt => some dt
  | .derived dt => some dt
  | .ref c b =>
    match (findClass d c).bind (fun k => k.findAttr b) with
    | some ba =>
      match ba.kind with
      | .base dt => some dt
      | .derived dt => some dt
      | .ref _ _ => none
    | none => none

def attrTy (d : ClassDiagram) (a : Attr) : Option String := (attrDt d a).bind (dtTypeName d.dts)

/-! ### classes -/

/-- the body of the attribute loop of `mk_class` -/
def sattr (d : ClassDiagram) (drv : Bool) (a : Attr) : Option SAttr :=
  if !drv && a.isDerived then none
  else (attrTy d a).map (fun ty => { name := a.name, ty := ty })

/-- the body of the identifier loop of `mk_class`: skipped when derived attributes are left out and
    ANY attribute of the identifier is derived (`one(o_attrs).O_BATTR[106].O_DBATTR[107]()` walks the
    whole set); `define_unique_identifier` ignores an identifier without attributes; the names
    are not checked against the attributes that were kept. -/
def identOf (drv : Bool) (c : Class) (i : Ident) : Option SIdent :=
  let as := i.attrs.filterMap c.findAttr
  if (!drv && as.any Attr.isDerived) || as.isEmpty then none
  else some { num := i.num + 1, names := as.map (fun a => a.name) }

def classOf (d : ClassDiagram) (drv : Bool) (c : Class) : SClass :=
  { kl := c.kl, attrs := c.attrs.filterMap (sattr d drv), idents := c.idents.filterMap (identOf drv c) }

/-! ### associations -/

/-- names of the attributes `ids` of class `c` (one list of `_get_related_attributes`) -/
def keyNames (c : Class) (ids : List Nat) : List String :=
  ids.filterMap (fun i => (c.findAttr i).map (fun a => a.name))

def phraseIf (same : Bool) (p : String) : String := if same then p else ""

/-- the association(s) defined for one R_REL.  `none`: an end's class cannot be found (the Python
    code dereferences None there; such populations are outside the domain). -/
def groupOf (d : ClassDiagram) (r : Rel) : Option SGroup :=
  match r.kind with
  | .simple form part refs =>
    match findClass d form.cls, findClass d part.cls with
    | some fc, some pc =>
      let same := form.cls == part.cls
      some { rel := r.numb, items := [
        { src := { kind := fc.kl, keys := keyNames fc (refs.map (·.rattr)),
                   many := form.mult, cond := form.cond, phrase := phraseIf same part.phrase },
          tgt := { kind := pc.kl, keys := keyNames pc (refs.map (·.iattr)),
                   many := part.mult, cond := part.cond, phrase := phraseIf same form.phrase } } ] }
    | _, _ => none
  | .linked one oth link refsOne refsOth =>
    match findClass d link, findClass d one.cls, findClass d oth.cls with
    | some lc, some oc, some tc =>
      let same := one.cls == oth.cls
      some { rel := r.numb, items := [
        -- _mk_assoc(r_aone, r_aoth)
        { src := { kind := lc.kl, keys := keyNames lc (refsOne.map (·.rattr)),
                   many := oth.mult, cond := oth.cond, phrase := phraseIf same one.phrase },
          tgt := { kind := oc.kl, keys := keyNames oc (refsOne.map (·.iattr)),
                   many := false, cond := false, phrase := phraseIf same oth.phrase } },
        -- _mk_assoc(r_aoth, r_aone)
        { src := { kind := lc.kl, keys := keyNames lc (refsOth.map (·.rattr)),
                   many := one.mult, cond := one.cond, phrase := phraseIf same oth.phrase },
          tgt := { kind := tc.kl, keys := keyNames tc (refsOth.map (·.iattr)),
                   many := false, cond := false, phrase := phraseIf same one.phrase } } ] }
    | _, _, _ => none
  | .subsup sup subs =>
    match findClass d sup with
    | some pc =>
      some { rel := r.numb, items := subs.filterMap (fun (s : Nat × List Ref) =>
        (findClass d s.1).map (fun sc =>
          { src := { kind := sc.kl, keys := keyNames sc (s.2.map (·.rattr)),
                     many := false, cond := true, phrase := "" },
            tgt := { kind := pc.kl, keys := keyNames pc (s.2.map (·.iattr)),
                     many := false, cond := false, phrase := "" } })) }
    | none => none
  | .derived => some { rel := r.numb, items := [] }

/-! ### components -/

/-- `mk_component(bp_model, c_c, derived_attributes)` -/
def extract (d : ClassDiagram) (comp : Option Nat) (drv : Bool) : Schema :=
  { classes := (d.classes.filter (fun c => inScope d.containers d.pkgrefs comp c.parent)).map (classOf d drv),
    groups := (d.rels.filter (fun r => inScope d.containers d.pkgrefs comp r.parent)).filterMap (groupOf d) }

/-! ### what the calls above do when a definition is impossible

  `define_class` raises MetaModelException for a second class with the same upper-cased name;
  `define_association` looks both classes up with `find_metaclass` (UnknownClassException, a
  MetaModelException) and checks every target key against the target class's attribute names, upper-cased
  (MetaModelException).  A relationship that lies inside the component while one of its classes lies outside
  therefore makes `mk_component` RAISE: no half-defined association ever reaches the result. -/

def endDefinable (classes : List SClass) (e : SEnd) : Bool :=
  classes.any (fun c => upper c.kl == upper e.kind)

def targetKeysKnown (classes : List SClass) (e : SEnd) : Bool :=
  match classes.find? (fun c => upper c.kl == upper e.kind) with
  | some c => e.keys.all (fun k => (c.attrs.map (fun a => upper a.name)).contains (upper k))
  | none => false

/-- `find_metaclass` of both kinds, then `len(source_keys) != len(target_keys)`, then the target keys -/
def assocDefinable (classes : List SClass) (a : SAssoc) : Bool :=
  endDefinable classes a.src && endDefinable classes a.tgt && a.src.keys.length == a.tgt.keys.length &&
    targetKeysKnown classes a.tgt

/-- no define_* call of the build raises -/
def Schema.definable (s : Schema) : Bool :=
  decide ((s.classes.map (fun c => upper c.kl)).Nodup) &&
  s.groups.all (fun g => g.items.all (assocDefinable s.classes))

/-- `mk_component` with its exceptions: `none` = MetaModelException (incl. UnknownClassException) -/
def mkComponent (d : ClassDiagram) (comp : Option Nat) (drv : Bool) : Option Schema :=
  let s := extract d comp drv
  if s.definable then some s else none

/-! ### identifiers that do not resolve

  The functions above are total: `groupOf` gives `none` when a class of a relationship is missing and `keyNames`
  drops an O_REF whose attribute is missing.  The Python code dereferences `None` there (`source_o_obj.Obj_ID`,
  `o_attr.Name`: AttributeError).  `resolvedRel` says that this does not happen; `buildOutcome` is `mk_component`
  with all three endings. -/

def refsResolved (rc tc : Class) (refs : List Ref) : Bool :=
  refs.all (fun r => (rc.findAttr r.rattr).isSome && (tc.findAttr r.iattr).isSome)

def pairResolved (d : ClassDiagram) (rgo rto : Nat) (refs : List Ref) : Bool :=
  match findClass d rgo, findClass d rto with
  | some rc, some tc => refsResolved rc tc refs
  | _, _ => false

/-- every class and attribute the relationship refers to exists -/
def resolvedRel (d : ClassDiagram) (r : Rel) : Bool :=
  match r.kind with
  | .simple form part refs => pairResolved d form.cls part.cls refs
  | .linked one oth link r1 r2 => pairResolved d link one.cls r1 && pairResolved d link oth.cls r2
  | .subsup sup subs => (findClass d sup).isSome && subs.all (fun s => pairResolved d s.1 sup s.2)
  | .derived => true

def resolvedIn (d : ClassDiagram) (comp : Option Nat) : Bool :=
  (d.rels.filter (fun r => inScope d.containers d.pkgrefs comp r.parent)).all (resolvedRel d)

inductive BuildOutcome where
  | ok (s : Schema)
  | metaModelException      -- define_class / define_association refuse (incl. UnknownClassException)
  | attributeError          -- a relationship refers to a class / attribute row that does not exist
  deriving Repr

/-- `mk_component` with every ending.  (When one relationship is unresolved and another one undefinable, which of
    the two exceptions is raised depends on the order of the R_REL rows; the model reports the AttributeError.) -/
def buildOutcome (d : ClassDiagram) (comp : Option Nat) (drv : Bool) : BuildOutcome :=
  if !(decide (((extract d comp drv).classes.map (fun c => upper c.kl)).Nodup)) then .metaModelException
  else if !resolvedIn d comp then .attributeError
  else match mkComponent d comp drv with
    | some s => .ok s
    | none => .metaModelException

/-- `ModelLoader.build_component(name, derived_attributes)`; `none` = OoaOfOoaException -/
def extractByName (d : ClassDiagram) (name : Option String) (drv : Bool) : Option Schema :=
  (selectComp d.containers name).map (fun comp => extract d comp drv)

end Pyx.Extract
