import PyxModel.Extract.Wire
import PyxModel.Extract.Xsd

/-
  Wire format for C20: XML trees as `("tag" (("key" "value")…) (child…))`, XSD edits as
    (rename CLS ATTR "new") (retype CLS ATTR DT) (add-attr CLS attr) (add-enum DT "name")
    (perm-enums DT (POS…)) (add-type datatype) (move-class CLS parent)
-/

namespace Pyx.Extract.Wire
open Pyx Pyx.Sexp Pyx.Extract

partial def eXml : XmlTree → Sexp
  | .node tag attrs children =>
    .list [eStr tag, .list (attrs.map (fun p => .list [eStr p.1, eStr p.2])), .list (children.map eXml)]

def dXEdit : Sexp → Option XEdit
  | list [sym "rename", c, a, n] => do some (.renameAttr (← dNat c) (← dNat a) (← dStr n))
  | list [sym "retype", c, a, t] => do some (.retypeAttr (← dNat c) (← dNat a) (← dNat t))
  | list [sym "add-attr", c, x] => do some (.addAttr (← dNat c) (← dAttr x))
  | list [sym "add-enum", t, n] => do some (.addEnum (← dNat t) (← dStr n))
  | list [sym "perm-enums", t, p] => do some (.permEnums (← dNat t) (← dList dNat p))
  | list [sym "add-type", t] => do some (.addType (← dDataType t))
  | list [sym "move-class", c, p] => do some (.moveClass (← dNat c) (← dParent p))
  | _ => none

end Pyx.Extract.Wire
