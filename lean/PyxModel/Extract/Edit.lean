import PyxModel.Extract.Schema

/-
  C14 — edits of the BridgePoint model and the change each one must cause in the extracted schema.

    `applyEdit e d`        the edit on the class diagram (what the setattr / relate / unrelate on the
                           ooaofooa population denotes)
    `resolve d comp drv e` the same edit expressed in terms of the OUTPUT (key letters, attribute
                           names, relationship numbers) — the only place that looks at the diagram
    `schemaEdit se s`      the predicted change of the schema, a function of the schema alone

  `Proofs/Extract*.lean` proves  extract (applyEdit e d) = schemaEdit (resolve d e) (extract d).
-/

namespace Pyx.Extract

inductive EndSel where
  | form | part | one | oth
  deriving DecidableEq, Repr, Inhabited

inductive Edit where
  | renameAttr (c a : Nat) (new : String)          -- O_ATTR.Name
  | retypeAttr (c a : Nat) (dt : Nat)              -- R114 of a base / derived attribute
  | reorderAttrs (c : Nat) (perm : List Nat)       -- R103 chain rebuilt in the order `perm`
  | setMult (r : Nat) (e : EndSel) (v : Bool)      -- R_FORM / R_PART / R_AONE / R_AOTH .Mult
  | setCond (r : Nat) (e : EndSel) (v : Bool)      -- .Cond
  | setPhrase (r : Nat) (e : EndSel) (v : String)  -- .Txt_Phrs
  | moveClass (c : Nat) (p : Parent)               -- PE_PE of the O_OBJ: R8000 / R8003
  | moveRel (r : Nat) (p : Parent)                 -- PE_PE of the R_REL
  deriving Repr, Inhabited

/-! ### on the diagram -/

def Class.mapAttr (c : Class) (a : Nat) (f : Attr → Attr) : Class :=
  { c with attrs := c.attrs.map (fun x => if x.id == a then f x else x) }

def mapClass (d : ClassDiagram) (c : Nat) (f : Class → Class) : ClassDiagram :=
  { d with classes := d.classes.map (fun k => if k.id == c then f k else k) }

def mapRel (d : ClassDiagram) (r : Nat) (f : Rel → Rel) : ClassDiagram :=
  { d with rels := d.rels.map (fun k => if k.id == r then f k else k) }

def AttrKind.retype (dt : Nat) : AttrKind → AttrKind
  | .base _ => .base dt
  | .derived _ => .derived dt
  | .ref c a => .ref c a

/-- apply `f` to the selected end; a selector that does not fit the kind of relationship changes nothing -/
def RelKind.mapEnd (sel : EndSel) (f : End → End) : RelKind → RelKind
  | .simple form part refs =>
    match sel with
    | .form => .simple (f form) part refs
    | .part => .simple form (f part) refs
    | _ => .simple form part refs
  | .linked one oth link r1 r2 =>
    match sel with
    | .one => .linked (f one) oth link r1 r2
    | .oth => .linked one (f oth) link r1 r2
    | _ => .linked one oth link r1 r2
  | k => k

def applyEdit (e : Edit) (d : ClassDiagram) : ClassDiagram :=
  match e with
  | .renameAttr c a new => mapClass d c (fun k => k.mapAttr a (fun x => { x with name := new }))
  | .retypeAttr c a dt => mapClass d c (fun k => k.mapAttr a (fun x => { x with kind := x.kind.retype dt }))
  | .reorderAttrs c perm => mapClass d c (fun k => { k with attrs := perm.filterMap k.findAttr })
  | .setMult r sel v => mapRel d r (fun k => { k with kind := k.kind.mapEnd sel (fun x => { x with mult := v }) })
  | .setCond r sel v => mapRel d r (fun k => { k with kind := k.kind.mapEnd sel (fun x => { x with cond := v }) })
  | .setPhrase r sel v => mapRel d r (fun k => { k with kind := k.kind.mapEnd sel (fun x => { x with phrase := v }) })
  | .moveClass c p => mapClass d c (fun k => { k with parent := p })
  | .moveRel r p => mapRel d r (fun k => { k with parent := p })

/-! ### on the schema -/

inductive SEdit where
  | nop
  | renameAttr (kl old new : String)
  /-- the attributes `sites` (key letters, name) get the type `ty` -/
  | retype (sites : List (String × String)) (ty : String)
  | reorder (kl : String) (names : List String)
  | setMult (rel : Nat) (e : EndSel) (v : Bool)
  | setCond (rel : Nat) (e : EndSel) (v : Bool)
  | setPhrase (rel : Nat) (e : EndSel) (v : String)
  | dropClass (kl : String)
  | insertClass (pos : Nat) (c : SClass)
  | dropGroup (rel : Nat)
  | insertGroup (pos : Nat) (g : SGroup)
  deriving Repr, Inhabited

def renameKey (old new : String) (k : String) : String := if k == old then new else k

def SEnd.renameIn (kl old new : String) (e : SEnd) : SEnd :=
  if e.kind == kl then { e with keys := e.keys.map (renameKey old new) } else e

def SClass.rename (old new : String) (c : SClass) : SClass :=
  { c with
    attrs := c.attrs.map (fun a => { a with name := renameKey old new a.name }),
    idents := c.idents.map (fun i => { i with names := i.names.map (renameKey old new) }) }

def SClass.retype (sites : List (String × String)) (ty : String) (c : SClass) : SClass :=
  { c with attrs := c.attrs.map (fun a => if sites.contains (c.kl, a.name) then { a with ty := ty } else a) }

def SClass.reorder (names : List String) (c : SClass) : SClass :=
  { c with attrs := names.filterMap (fun n => c.attrs.find? (fun a => a.name == n)) }

def mapSClass (s : Schema) (kl : String) (f : SClass → SClass) : Schema :=
  { s with classes := s.classes.map (fun c => if c.kl == kl then f c else c) }

def mapGroup (s : Schema) (rel : Nat) (f : List SAssoc → List SAssoc) : Schema :=
  { s with groups := s.groups.map (fun g => if g.rel == rel then { g with items := f g.items } else g) }

def SAssoc.mapSrc (f : SEnd → SEnd) (a : SAssoc) : SAssoc := { a with src := f a.src }
def SAssoc.mapTgt (f : SEnd → SEnd) (a : SAssoc) : SAssoc := { a with tgt := f a.tgt }

/-- WHERE each end's Mult lands: R_FORM -> source_many, R_PART -> target_many of the one association;
    R_AONE -> source_many of the SECOND association (link class -> other side),
    R_AOTH -> source_many of the FIRST (link class -> one side) -/
def itemsSetMult (sel : EndSel) (v : Bool) : List SAssoc → List SAssoc
  | [a] =>
    match sel with
    | .form => [a.mapSrc (fun e => { e with many := v })]
    | .part => [a.mapTgt (fun e => { e with many := v })]
    | _ => [a]
  | [a, b] =>
    match sel with
    | .one => [a, b.mapSrc (fun e => { e with many := v })]
    | .oth => [a.mapSrc (fun e => { e with many := v }), b]
    | _ => [a, b]
  | l => l

/-- the same table for Cond -/
def itemsSetCond (sel : EndSel) (v : Bool) : List SAssoc → List SAssoc
  | [a] =>
    match sel with
    | .form => [a.mapSrc (fun e => { e with cond := v })]
    | .part => [a.mapTgt (fun e => { e with cond := v })]
    | _ => [a]
  | [a, b] =>
    match sel with
    | .one => [a, b.mapSrc (fun e => { e with cond := v })]
    | .oth => [a.mapSrc (fun e => { e with cond := v }), b]
    | _ => [a, b]
  | l => l

/-- phrases only show on reflexive relationships: R_FORM.Txt_Phrs -> target_phrase, R_PART.Txt_Phrs ->
    source_phrase; R_AONE.Txt_Phrs -> source_phrase of the first and target_phrase of the second
    association, R_AOTH.Txt_Phrs -> target_phrase of the first and source_phrase of the second -/
def itemsSetPhrase (sel : EndSel) (v : String) : List SAssoc → List SAssoc
  | [a] =>
    if a.src.kind == a.tgt.kind then
      match sel with
      | .form => [a.mapTgt (fun e => { e with phrase := v })]
      | .part => [a.mapSrc (fun e => { e with phrase := v })]
      | _ => [a]
    else [a]
  | [a, b] =>
    if a.tgt.kind == b.tgt.kind then
      match sel with
      | .one => [a.mapSrc (fun e => { e with phrase := v }), b.mapTgt (fun e => { e with phrase := v })]
      | .oth => [a.mapTgt (fun e => { e with phrase := v }), b.mapSrc (fun e => { e with phrase := v })]
      | _ => [a, b]
    else [a, b]
  | l => l

def insertAt {α : Type} (pos : Nat) (x : α) (l : List α) : List α := l.take pos ++ x :: l.drop pos

def schemaEdit (se : SEdit) (s : Schema) : Schema :=
  match se with
  | .nop => s
  | .renameAttr kl old new =>
    { classes := s.classes.map (fun c => if c.kl == kl then c.rename old new else c),
      groups := s.groups.map (fun g => { g with items := g.items.map (fun a =>
        { src := a.src.renameIn kl old new, tgt := a.tgt.renameIn kl old new }) }) }
  | .retype sites ty => { s with classes := s.classes.map (SClass.retype sites ty) }
  | .reorder kl names => mapSClass s kl (SClass.reorder names)
  | .setMult rel sel v => mapGroup s rel (itemsSetMult sel v)
  | .setCond rel sel v => mapGroup s rel (itemsSetCond sel v)
  | .setPhrase rel sel v => mapGroup s rel (itemsSetPhrase sel v)
  | .dropClass kl => { s with classes := s.classes.filter (fun c => c.kl != kl) }
  | .insertClass pos c => { s with classes := insertAt pos c s.classes }
  | .dropGroup rel => { s with groups := s.groups.filter (fun g => g.rel != rel) }
  | .insertGroup pos g => { s with groups := insertAt pos g s.groups }

/-! ### from the diagram edit to the schema edit -/

def RelKind.fits (sel : EndSel) : RelKind → Bool
  | .simple _ _ _ => sel == .form || sel == .part
  | .linked _ _ _ _ _ => sel == .one || sel == .oth
  | _ => false

/-- the referential attributes whose type follows the base attribute (c, a): R113 backwards -/
def dependents (d : ClassDiagram) (c a : Nat) : List (String × String) :=
  (d.classes.map (fun k => (k.attrs.filter (fun x => x.kind == .ref c a)).map (fun x => (k.kl, x.name)))).flatten

def countInScope {α : Type} (cs : List Container) (rf : List PkgRef) (comp : Option Nat) (par : α → Parent) (l : List α) : Nat :=
  (l.filter (fun x => inScope cs rf comp (par x))).length

def resolve (d : ClassDiagram) (comp : Option Nat) (drv : Bool) (e : Edit) : SEdit :=
  match e with
  | .renameAttr c a new =>
    match findClass d c with
    | some k =>
      match k.findAttr a with
      | some x => .renameAttr k.kl x.name new
      | none => .nop
    | none => .nop
  | .retypeAttr c a dt =>
    match findClass d c with
    | some k =>
      match k.findAttr a, dtTypeName d.dts dt with
      | some x, some ty =>
        match x.kind with
        | .ref _ _ => .nop
        | _ => .retype ((k.kl, x.name) :: dependents d c a) ty
      | _, _ => .nop
    | none => .nop
  | .reorderAttrs c perm =>
    match findClass d c with
    | some k => .reorder k.kl (perm.filterMap (fun i => (k.findAttr i).map (fun x => x.name)))
    | none => .nop
  | .setMult r sel v =>
    match findRel d r with
    | some k => if k.kind.fits sel then .setMult k.numb sel v else .nop
    | none => .nop
  | .setCond r sel v =>
    match findRel d r with
    | some k => if k.kind.fits sel then .setCond k.numb sel v else .nop
    | none => .nop
  | .setPhrase r sel v =>
    match findRel d r with
    | some k => if k.kind.fits sel then .setPhrase k.numb sel v else .nop
    | none => .nop
  | .moveClass c p =>
    match findClass d c with
    | some k =>
      match inScope d.containers d.pkgrefs comp k.parent, inScope d.containers d.pkgrefs comp p with
      | true, false => .dropClass k.kl
      | false, true =>
        .insertClass (countInScope d.containers d.pkgrefs comp Class.parent (d.classes.takeWhile (fun x => x.id != c)))
          (classOf d drv k)
      | _, _ => .nop
    | none => .nop
  | .moveRel r p =>
    match findRel d r with
    | some k =>
      match inScope d.containers d.pkgrefs comp k.parent, inScope d.containers d.pkgrefs comp p, groupOf d k with
      | true, false, some _ => .dropGroup k.numb
      | false, true, some g =>
        .insertGroup (((d.rels.takeWhile (fun x => x.id != r)).filter
            (fun x => inScope d.containers d.pkgrefs comp x.parent)).filterMap (groupOf d)).length g
      | _, _, _ => .nop
    | none => .nop

/-- edit scripts -/
def applyEdits (es : List Edit) (d : ClassDiagram) : ClassDiagram := es.foldl (fun acc e => applyEdit e acc) d

def schemaEdits (ses : List SEdit) (s : Schema) : Schema := ses.foldl (fun acc e => schemaEdit e acc) s

/-- the schema edits of a script: each edit is resolved against the diagram it is applied to -/
def resolveAll (d : ClassDiagram) (comp : Option Nat) (drv : Bool) : List Edit → List SEdit
  | [] => []
  | e :: es => resolve d comp drv e :: resolveAll (applyEdit e d) comp drv es

end Pyx.Extract
