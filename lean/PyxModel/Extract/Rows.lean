import PyxModel.Extract.Schema

/-
  C14 — `mk_association` as a TOTAL function of the rows that hang on an R_REL (bridgepoint/ooaofooa.py):

    mk_association            `RelRows.dispatch`, `mkAssociation`
    mk_simple_association     case `simple`  (formalised: R_FORM + first R_PART; unformalised: second R_PART + first R_PART)
    mk_linked_association     case `linked`  (R_AONE, R_AOTH and R_ASSR all needed)
    mk_subsuper_association   case `subsup`  (one call per R_SUB; R_SUPER needed as soon as there is one R_SUB)
    mk_derived_association    case `comp`    (`pass`)
    no subtype row            `fn` is None: TypeError ('NoneType' object is not callable)

  Every case that reaches `define_association` runs the very code of the well-formed shapes, with the ends chosen as the
  Python code chooses them; so the model reuses `groupOf` / `resolvedRel` (Schema.lean) through `kindOutcome`.
-/

namespace Pyx.Extract

/-- what `subtype(r_rel, 206)` finds: `navigate_subtype` tries the R206 links of R_REL in the order in which
    bridgepoint/schema.py defines them — R_ASSOC, R_COMP, R_SIMP, R_SUBSUP — and returns the first row found -/
inductive Dispatch where
  | linked | comp | simple | subsup | none
  deriving DecidableEq, Repr

def RelRows.dispatch (w : RelRows) : Dispatch :=
  if w.assoc then .linked else if w.comp then .comp else if w.simp then .simple else if w.subsup then .subsup else .none

/-- how one `mk_association` call ends -/
inductive AssocOutcome where
  /-- the `define_association` calls made, in call order (their `rel_id` is R_REL.Numb) -/
  | defined (items : List SAssoc)
  /-- `None.Obj_ID`, `None.Key_Lett`, `None.Name`: an end row, a class row or an attribute row is missing -/
  | attributeError
  /-- `handler.get('NoneType')` is None and is called -/
  | typeError
  deriving DecidableEq, Repr

/-- the associations of a relationship of shape `k` (Schema.lean: `groupOf`), AttributeError when a class or an
    attribute it names does not exist (`resolvedRel`) -/
def RelKind.asRel (k : RelKind) : Rel := { id := 0, numb := 0, kind := k, parent := .none }

/-- the number of `define_association` calls made for a relationship of shape `k` -/
def RelKind.count : RelKind → Nat
  | .simple _ _ _ => 1
  | .linked _ _ _ _ _ => 2
  | .subsup _ subs => subs.length
  | .derived => 0

/-- the O_REF lists of a relationship, one per `define_association` call -/
def RelKind.refLists : RelKind → List (List Ref)
  | .simple _ _ refs => [refs]
  | .linked _ _ _ r1 r2 => [r1, r2]
  | .subsup _ subs => subs.map (·.2)
  | .derived => []

def kindOutcome (d : ClassDiagram) (k : RelKind) : AssocOutcome :=
  if resolvedRel d k.asRel then
    match groupOf d k.asRel with
    | some g => .defined g.items
    | none => .attributeError
  else .attributeError

/-- the (referring, referred) ends `mk_simple_association` works with:
    `r_form = one(r_simp).R_FORM[208]()`, `r_part = one(r_simp).R_PART[207]()`; without an R_FORM
    `r_form = one(r_simp).R_PART[207](lambda sel: sel != r_part)` — the SECOND participant plays the referring end.
    `none`: one of the two is None (`source_o_obj.Obj_ID` / `target_o_obj.Obj_ID` then raises AttributeError). -/
def RelRows.simpleEnds (w : RelRows) : Option (End × End) :=
  match w.form, w.parts with
  | some f, p :: _ => some (f, p)
  | none, p :: q :: _ => some (q, p)
  | _, _ => none

/-- `mk_association(m, r_rel)` -/
def mkAssociation (d : ClassDiagram) (w : RelRows) : AssocOutcome :=
  match w.dispatch with
  | .linked =>
    -- `side1.Obj_ID` / `side2.Obj_ID` / `source_o_obj.Key_Lett` raise when a row is missing
    match w.aone, w.aoth, w.assr with
    | some o, some t, some l => kindOutcome d (.linked o t l w.refsOne w.refsOth)
    | _, _, _ => .attributeError
  | .comp => .defined []
  | .simple =>
    match w.simpleEnds with
    | some (s, t) => kindOutcome d (.simple s t w.refs)
    | none => .attributeError
  | .subsup =>
    -- the body of `for r_sub in many(r_subsup).R_SUB[213]()` is the only place that dereferences the supertype
    match w.subs, w.super with
    | [], _ => .defined []
    | _ :: _, some s => kindOutcome d (.subsup s w.subs)
    | _ :: _, none => .attributeError
  | .none => .typeError

/-- the rows of a relationship of one of the four well-formed shapes -/
def rowsOf : RelKind → RelRows
  | .simple form part refs => { simp := true, form := some form, parts := [part], refs := refs }
  | .linked one oth link r1 r2 =>
    { assoc := true, aone := some one, aoth := some oth, assr := some link, refsOne := r1, refsOth := r2 }
  | .subsup sup subs => { subsup := true, super := some sup, subs := subs }
  | .derived => { comp := true }

/-- a relationship is FORMALISED when referential attributes carry it: a simple one has its R_FORM row and at least one
    O_REF, a linked one O_REFs from the link class to both sides, a subtype relationship O_REFs from every subtype -/
def RelRows.formalised (w : RelRows) : Bool :=
  match w.dispatch with
  | .linked => w.aone.isSome && w.aoth.isSome && w.assr.isSome && !w.refsOne.isEmpty && !w.refsOth.isEmpty
  | .simple => w.form.isSome && !w.parts.isEmpty && !w.refs.isEmpty
  | .subsup => w.super.isSome && !w.subs.isEmpty && w.subs.all (fun s => !s.2.isEmpty)
  | .comp => false
  | .none => false

/-- the mirror image of an association: source and target exchanged -/
def SAssoc.swap (a : SAssoc) : SAssoc := { src := a.tgt, tgt := a.src }

def AssocOutcome.mirror : AssocOutcome → AssocOutcome
  | .defined items => .defined (items.map SAssoc.swap)
  | o => o

/-! ### the whole build -/

/-- `mk_component` with every ending -/
inductive FullOutcome where
  | ok (s : Schema)
  | metaModelException
  | attributeError
  | typeError
  deriving DecidableEq, Repr

def BuildOutcome.toFull : BuildOutcome → FullOutcome
  | .ok s => .ok s
  | .metaModelException => .metaModelException
  | .attributeError => .attributeError

def rowRelsInScope (d : ClassDiagram) (comp : Option Nat) : List RowRel :=
  d.rowRels.filter (fun r => inScope d.containers d.pkgrefs comp r.parent)

/-- the first `mk_association` call (list order) that raises -/
def firstRaise : List AssocOutcome → Option FullOutcome
  | [] => none
  | .defined _ :: t => firstRaise t
  | .attributeError :: _ => some .attributeError
  | .typeError :: _ => some .typeError

def rowGroup (d : ClassDiagram) (r : RowRel) : Option SGroup :=
  match mkAssociation d r.rows with
  | .defined items => some { rel := r.numb, items := items }
  | _ => none

def rowGroups (d : ClassDiagram) (comp : Option Nat) : List SGroup := (rowRelsInScope d comp).filterMap (rowGroup d)

/-- `mk_component` over `rels` and `rowRels` together.  The real loop visits the R_REL rows in file order and stops at the
    first exception; which one that is when SEVERAL relationships of a scope are faulty depends on the row order (the model
    reports the relationships of `rels` first; the generator puts at most one faulty relationship into a scope). -/
def buildAll (d : ClassDiagram) (comp : Option Nat) (drv : Bool) : FullOutcome :=
  match buildOutcome d comp drv with
  | .metaModelException => .metaModelException
  | .attributeError => .attributeError
  | .ok s =>
    match firstRaise ((rowRelsInScope d comp).map (fun r => mkAssociation d r.rows)) with
    | some e => e
    | none =>
      let s' : Schema := { classes := s.classes, groups := s.groups ++ rowGroups d comp }
      if s'.definable then .ok s' else .metaModelException

end Pyx.Extract
