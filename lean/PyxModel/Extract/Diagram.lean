/-
  C14 / C20 — the abstract class diagram that a BridgePoint (ooaofooa) population denotes.

  Everything that `bridgepoint.ooaofooa.mk_component` and `bridgepoint.gen_xsd_schema.build_schema`
  read from the population has a field here, and nothing else:

    PE_PE.Package_ID / PE_PE.Component_ID (R8000, R8003)   `Parent`
    EP_PKG, C_C (each one a PE_PE itself, R8001)           `Container`
    EP_PKGREF (Referring_Package_ID, Referred_Package_ID), R1402   `PkgRef`  (`ClassDiagram.pkgrefs`)
    S_DT with its R17 subtype S_CDT / S_EDT / S_UDT        `DataType`  (S_SDT, S_IRDT, no subtype: `other`)
      S_ENUM in R56 ('precedes') order                       `DtKind.enum`
      S_UDT -> S_DT over R18                                 `DtKind.user`
    O_OBJ (Key_Lett), O_ATTR in R103 ('precedes') order    `Class.attrs`
      O_BATTR+O_NBATTR / O_BATTR+O_DBATTR, R114              `AttrKind.base` / `.derived`
      O_RATTR with R113 to the base attribute (BObj_ID, BAttr_ID)   `AttrKind.ref`
    O_ID (Oid_ID) with O_OIDA -> O_ATTR (R105)             `Ident`
    R_REL (Numb) with its R206 subtype                     `Rel`
      R_SIMP: R_FORM, R_PART (Mult, Cond, Txt_Phrs)          `RelKind.simple`
      R_ASSOC: R_AONE, R_AOTH, R_ASSR                        `RelKind.linked`
      R_SUBSUP: R_SUPER, R_SUB*                              `RelKind.subsup`
      R_COMP                                                 `RelKind.derived`
      O_REF (referring O_RATTR  ->  O_RTIDA -> O_OIDA -> O_ATTR) per (R_RGO, R_RTO) pair   `Ref`

  Instances are linked by identifiers (Obj_ID, Attr_ID, DT_ID, Rel_ID, Package_ID, Id), so the
  diagram refers by identifier as well: a rename is the update of one field, exactly as on the
  population.  Lookups are "first row with that identifier".  No Mathlib, no `import Lean`.
-/

namespace Pyx.Extract

/-- where a packageable element (PE_PE) lives: `Package_ID` / `Component_ID` (0 = none) -/
inductive Parent where
  | none
  | pkg (id : Nat)
  | comp (id : Nat)
  deriving DecidableEq, Repr, Inhabited

/-- EP_PKG (`isComp = false`) or C_C (`isComp = true`), with the PE_PE that contains it -/
structure Container where
  isComp : Bool
  id : Nat
  name : String
  parent : Parent
  deriving DecidableEq, Repr, Inhabited

/-- one EP_PKGREF row (R1402): package `referring` REFERS TO package `referred`; for `is_contained_in` the elements of
    `referred` are then also inside whatever `referring` is inside -/
structure PkgRef where
  referring : Nat
  referred : Nat
  deriving DecidableEq, Repr, Inhabited

inductive DtKind where
  | core (coreTyp : Nat)               -- S_CDT.Core_Typ
  | enum (enumerators : List String)   -- S_EDT, S_ENUM names in modeled (R56) order
  | user (base : Nat)                  -- S_UDT, R18
  | other                              -- S_SDT, S_IRDT, ... : no branch of the code looks at them
  deriving DecidableEq, Repr, Inhabited

structure DataType where
  id : Nat
  name : String
  kind : DtKind
  parent : Parent
  deriving DecidableEq, Repr, Inhabited

inductive AttrKind where
  | base (dt : Nat)              -- O_BATTR + O_NBATTR, typed over R114
  | derived (dt : Nat)           -- O_BATTR + O_DBATTR, typed over R114
  | ref (cls : Nat) (attr : Nat) -- O_RATTR, R113 -> O_BATTR (BObj_ID, BAttr_ID); its own R114 type is
                                 -- same_as<Base_Attribute> (core type 7, unsupported)
  deriving DecidableEq, Repr, Inhabited

structure Attr where
  id : Nat
  name : String
  kind : AttrKind
  deriving DecidableEq, Repr, Inhabited

def Attr.isDerived (a : Attr) : Bool :=
  match a.kind with
  | .derived _ => true
  | _ => false

/-- O_ID with the attribute ids of its O_OIDA rows -/
structure Ident where
  num : Nat
  attrs : List Nat
  deriving DecidableEq, Repr, Inhabited

structure Class where
  id : Nat
  kl : String
  attrs : List Attr
  idents : List Ident
  parent : Parent
  deriving DecidableEq, Repr, Inhabited

/-- one end of a relationship: the class (R_OIR -> O_OBJ) and the end's own Mult, Cond, Txt_Phrs -/
structure End where
  cls : Nat
  mult : Bool
  cond : Bool
  phrase : String
  deriving DecidableEq, Repr, Inhabited

/-- one O_REF: referential attribute (in the referring class) / identifying attribute (in the referred class) -/
structure Ref where
  rattr : Nat
  iattr : Nat
  deriving DecidableEq, Repr, Inhabited

inductive RelKind where
  /-- formalised simple relationship: R_FORM is the referring end, R_PART the referred one -/
  | simple (form part : End) (refs : List Ref)
  /-- linked: the link class (R_ASSR) refers to both sides; `refsOne` are its O_REFs to the R_AONE side -/
  | linked (one oth : End) (link : Nat) (refsOne refsOth : List Ref)
  /-- each subtype (R_SUB) refers to the supertype (R_SUPER) -/
  | subsup (super : Nat) (subs : List (Nat × List Ref))
  /-- R_COMP: nothing is generated -/
  | derived
  deriving Repr, Inhabited

structure Rel where
  id : Nat
  numb : Nat
  kind : RelKind
  parent : Parent
  deriving Repr, Inhabited

/-- The rows that hang on ONE R_REL, as `mk_association` and the three `mk_*_association` functions read them — for
    every relationship, also those that are none of the four shapes of `RelKind` (an unformalised simple relationship:
    R_SIMP with two R_PART rows and no R_FORM; a linked one without its R_AONE / R_AOTH / R_ASSR row; a subtype
    relationship without R_SUPER or without any R_SUB; an R_REL without any R206 subtype row, or with two).  An end row
    (R_FORM, R_PART, R_AONE, ...) is taken together with its R_RGO / R_RTO / R_OIR supertype rows. -/
structure RelRows where
  /-- which R206 subtype rows carry the Rel_ID -/
  simp : Bool := false
  assoc : Bool := false
  subsup : Bool := false
  comp : Bool := false
  /-- `one(r_simp).R_FORM[208]()` -/
  form : Option End := none
  /-- the R_PART rows across R207, in link order (= the order of the R_PART rows in the file) -/
  parts : List End := []
  /-- the O_REF rows `_get_related_attributes(r_rgo, r_rto)` selects for the simple relationship: those hanging on the
      first participant's R_RTO whose OIR_ID is that of the referring end (R_FORM; without one: the second participant) -/
  refs : List Ref := []
  aone : Option End := none
  aoth : Option End := none
  /-- R_ASSR: the link class -/
  assr : Option Nat := none
  refsOne : List Ref := []
  refsOth : List Ref := []
  /-- R_SUPER: the supertype class -/
  super : Option Nat := none
  subs : List (Nat × List Ref) := []
  deriving Repr, Inhabited

/-- an R_REL given by its rows -/
structure RowRel where
  id : Nat
  numb : Nat
  rows : RelRows
  parent : Parent
  deriving Repr, Inhabited

structure ClassDiagram where
  containers : List Container
  dts : List DataType
  classes : List Class
  rels : List Rel
  /-- attributes related to a class across R102 that are NOT on the R103 chain starting at its first attribute
      (R103 is conditional at both ends): (Obj_ID, attribute).  `mk_class` walks the chain and never sees them (and
      which attribute is "first" is then a matter of row order: outside C14's domain); `gen_xsd_schema.build_class`
      iterates R102 and declares them like any other attribute.  They are never referred to (R113, O_OIDA, O_REF). -/
  loose : List (Nat × Attr) := []
  /-- relationships given row by row (`RelRows`): everything `rels` cannot express.  `extract` / `buildOutcome` do not
      look at them; `buildAll` (Rows.lean) is `mk_component` over `rels` and `rowRels` together. -/
  rowRels : List RowRel := []
  /-- the EP_PKGREF rows (R1402), in row order.  `is_contained_in` follows them (from the referred package to every
      package referring to it), `is_global` does not. -/
  pkgrefs : List PkgRef := []
  deriving Repr, Inhabited

def looseOf (d : ClassDiagram) (cls : Nat) : List Attr := (d.loose.filter (fun p => p.1 == cls)).map (·.2)

/-! lookups by identifier ("first row with that id") -/

def findClass (d : ClassDiagram) (id : Nat) : Option Class := d.classes.find? (fun c => c.id == id)
def Class.findAttr (c : Class) (id : Nat) : Option Attr := c.attrs.find? (fun a => a.id == id)
def findDt (dts : List DataType) (id : Nat) : Option DataType := dts.find? (fun t => t.id == id)
def findRel (d : ClassDiagram) (id : Nat) : Option Rel := d.rels.find? (fun r => r.id == id)
def findContainer (cs : List Container) (isComp : Bool) (id : Nat) : Option Container :=
  cs.find? (fun k => k.isComp == isComp && k.id == id)

/-- `is_contained_in(pe_pe, root)` for a root that is a C_C, on the `Parent` of the PE_PE (bridgepoint/ooaofooa.py):

      ep_pkg = one(pe_pe).EP_PKG[8000]();  c_c = one(pe_pe).C_C[8003]()
      if root in [ep_pkg, c_c]: return True                       -- only `c_c` can be the component `root`
      elif is_contained_in(ep_pkg, root): return True             -- up: the PE_PE of the package
      elif is_contained_in(c_c, root): return True                -- up: the PE_PE of the component
      for ep_pkg in many(ep_pkg).EP_PKG[1402, 'is referenced by'](): -- every package REFERRING to `ep_pkg` …
          if is_contained_in(ep_pkg, root): return True           -- … up: the PE_PE of the referring package
      return False

    `many(ep_pkg).EP_PKG[1402, 'is referenced by']` goes over the EP_PKGREF rows whose Referred_Package_ID is the package
    and from each to the EP_PKG its Referring_Package_ID names (a row naming no package contributes nothing; without
    the package itself — a Package_ID that names no EP_PKG row — nothing is navigated at all).  A Component_ID that names
    no C_C row is no container.  The result is a disjunction, so the order of the checks only matters for termination:
    the Python recursion is unbounded (a cyclic containment or a reference cycle never returns — RecursionError); the
    model takes fuel, `containedIn` supplies more than any acyclic containment + reference graph needs
    (`TreeOk`, `contained_iff` in Proofs/ExtractScope.lean). -/
def containedFuel (cs : List Container) (rf : List PkgRef) (root : Nat) : Nat → Parent → Bool
  | 0, _ => false
  | _ + 1, .none => false
  | f + 1, .pkg p =>
    match findContainer cs false p with
    | some k =>
      containedFuel cs rf root f k.parent ||
        rf.any (fun r => r.referred == p &&
          match findContainer cs false r.referring with
          | some kq => containedFuel cs rf root f kq.parent
          | none => false)
    | none => false
  | f + 1, .comp c =>
    -- `one(pe_pe).C_C[8003]()`: a Component_ID that names no C_C row is no container at all
    match findContainer cs true c with
    | some k => c == root || containedFuel cs rf root f k.parent
    | none => false

def containedIn (cs : List Container) (rf : List PkgRef) (root : Nat) (p : Parent) : Bool :=
  containedFuel cs rf root (cs.length + 1) p

/-- the same walk without package references: what `containedFuel` was before EP_PKGREF rows entered the model.  Kept
    for the conservative-extension lemma `containedFuel_no_pkgref` (Proofs/ExtractScope.lean). -/
def containedFuelPlain (cs : List Container) (root : Nat) : Nat → Parent → Bool
  | 0, _ => false
  | _ + 1, .none => false
  | f + 1, .pkg p =>
    match findContainer cs false p with
    | some k => containedFuelPlain cs root f k.parent
    | none => false
  | f + 1, .comp c =>
    match findContainer cs true c with
    | some k => c == root || containedFuelPlain cs root f k.parent
    | none => false

/-- `is_global(pe_pe)`: no component on the way up (`one(pe_pe).C_C[8003]()`: a Component_ID that names no
    C_C row does not count).  `is_global` does NOT follow package references: an element of a global package that a
    package of a component refers to is global AND contained in that component.  Fuel stands for the Python recursion; under `TreeOk` (Proofs/ExtractScope.lean) it
    is never exhausted (`global_iff`). -/
def globalFuel (cs : List Container) : Nat → Parent → Bool
  | 0, _ => true
  | _ + 1, .none => true
  | _ + 1, .comp c => (findContainer cs true c).isNone
  | f + 1, .pkg p =>
    match findContainer cs false p with
    | some k => globalFuel cs f k.parent
    | none => true

def isGlobal (cs : List Container) (p : Parent) : Bool := globalFuel cs (cs.length + 1) p

/-- the scope filter of `mk_component` / `build_component`: everything when no component is given -/
def inScope (cs : List Container) (rf : List PkgRef) (comp : Option Nat) (p : Parent) : Bool :=
  match comp with
  | none => true
  | some c => containedIn cs rf c p

/-- `ModelLoader.build_component(name)`: `select_any('C_C', where(Name=name))`;
    `none` (no name) and the empty name (falsy) fall back to the whole model when no component
    carries that name; any other unknown name raises `OoaOfOoaException` (outer `none`). -/
def selectComp (cs : List Container) (name : Option String) : Option (Option Nat) :=
  match name with
  | none => some none
  | some n =>
    match cs.find? (fun k => k.isComp && k.name == n) with
    | some k => some (some k.id)
    | none => if n == "" then some none else none

end Pyx.Extract
