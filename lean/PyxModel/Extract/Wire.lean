import PyxModel.Sexp
import PyxModel.Extract.Edit

/-
  Wire format of class diagrams, schemas and edits (C14, C20) — see harness/ooa_encoder.py
  (`diagram_sexp`) for the Python side.

    diagram   = ((container…) (datatype…) (class…) (rel…))
    parent    = none | (pkg ID) | (comp ID)
    container = (P|C ID "name" parent)
    datatype  = (ID "name" kind parent)        kind = (core N) | (enum "e"…) | (user ID) | other
    class     = (ID "KL" (attr…) (ident…) parent)
    attr      = (ID "name" (base DT) | (derived DT) | (ref CLS ATTR))
    ident     = (NUM (ATTRID…))
    rel       = (ID NUMB kind parent)
    kind      = (simple end end (ref…)) | (linked end end LINK (ref…) (ref…)) | (subsup SUPER ((SUB (ref…))…)) | derived
    end       = (CLS T|F T|F "phrase")         ref = (RATTR IATTR)
  optional 5th element: ((CLS attr)…) attributes off the R103 chain; optional 6th: relationships row by row
    rowrel    = (ID NUMB rows parent)
    rows      = ((SIMP ASSOC SUBSUP COMP) end? (end…) (ref…) end? end? ID? (ref…) (ref…) ID? ((SUB (ref…))…))   x? = x | none
  optional 7th: the EP_PKGREF rows
    pkgref    = (REFERRING REFERRED)
-/

namespace Pyx.Extract.Wire
open Pyx Pyx.Sexp Pyx.Extract

def dBool : Sexp → Option Bool
  | sym "T" => some true
  | sym "F" => some false
  | _ => none

def dNat : Sexp → Option Nat := asNat?

def dStr : Sexp → Option String
  | str s => some s
  | _ => none

def dList {α : Type} (f : Sexp → Option α) : Sexp → Option (List α)
  | list xs => xs.mapM f
  | _ => none

def dParent : Sexp → Option Parent
  | sym "none" => some .none
  | list [sym "pkg", i] => (dNat i).map .pkg
  | list [sym "comp", i] => (dNat i).map .comp
  | _ => none

def dContainer : Sexp → Option Container
  | list [sym k, i, n, p] => do
    let isComp ← (if k == "C" then some true else if k == "P" then some false else none)
    some { isComp := isComp, id := ← dNat i, name := ← dStr n, parent := ← dParent p }
  | _ => none

def dDtKind : Sexp → Option DtKind
  | list [sym "core", n] => (dNat n).map .core
  | list (sym "enum" :: es) => (es.mapM dStr).map .enum
  | list [sym "user", b] => (dNat b).map .user
  | sym "other" => some .other
  | _ => none

def dDataType : Sexp → Option DataType
  | list [i, n, k, p] => do
    some { id := ← dNat i, name := ← dStr n, kind := ← dDtKind k, parent := ← dParent p }
  | _ => none

def dAttrKind : Sexp → Option AttrKind
  | list [sym "base", t] => (dNat t).map .base
  | list [sym "derived", t] => (dNat t).map .derived
  | list [sym "ref", c, a] => do some (.ref (← dNat c) (← dNat a))
  | _ => none

def dAttr : Sexp → Option Attr
  | list [i, n, k] => do some { id := ← dNat i, name := ← dStr n, kind := ← dAttrKind k }
  | _ => none

def dIdent : Sexp → Option Ident
  | list [n, as] => do some { num := ← dNat n, attrs := ← dList dNat as }
  | _ => none

def dClass : Sexp → Option Class
  | list [i, kl, as, ids, p] => do
    some { id := ← dNat i, kl := ← dStr kl, attrs := ← dList dAttr as, idents := ← dList dIdent ids,
           parent := ← dParent p }
  | _ => none

def dEnd : Sexp → Option End
  | list [c, m, k, p] => do some { cls := ← dNat c, mult := ← dBool m, cond := ← dBool k, phrase := ← dStr p }
  | _ => none

def dRef : Sexp → Option Ref
  | list [r, i] => do some { rattr := ← dNat r, iattr := ← dNat i }
  | _ => none

def dSub : Sexp → Option (Nat × List Ref)
  | list [c, rs] => do some (← dNat c, ← dList dRef rs)
  | _ => none

def dRelKind : Sexp → Option RelKind
  | list [sym "simple", f, p, rs] => do some (.simple (← dEnd f) (← dEnd p) (← dList dRef rs))
  | list [sym "linked", o, t, l, r1, r2] => do
    some (.linked (← dEnd o) (← dEnd t) (← dNat l) (← dList dRef r1) (← dList dRef r2))
  | list [sym "subsup", s, subs] => do some (.subsup (← dNat s) (← dList dSub subs))
  | sym "derived" => some .derived
  | _ => none

def dRel : Sexp → Option Rel
  | list [i, n, k, p] => do some { id := ← dNat i, numb := ← dNat n, kind := ← dRelKind k, parent := ← dParent p }
  | _ => none

def dLoose : Sexp → Option (Nat × Attr)
  | list [c, a] => do some (← dNat c, ← dAttr a)
  | _ => none

def dOpt {α : Type} (f : Sexp → Option α) : Sexp → Option (Option α)
  | sym "none" => some none
  | x => (f x).map some

def dRelRows : Sexp → Option RelRows
  | list [list [si, as, su, co], f, ps, rs, o, t, l, r1, r2, sup, subs] => do
    some { simp := ← dBool si, assoc := ← dBool as, subsup := ← dBool su, comp := ← dBool co,
           form := ← dOpt dEnd f, parts := ← dList dEnd ps, refs := ← dList dRef rs,
           aone := ← dOpt dEnd o, aoth := ← dOpt dEnd t, assr := ← dOpt dNat l,
           refsOne := ← dList dRef r1, refsOth := ← dList dRef r2,
           super := ← dOpt dNat sup, subs := ← dList dSub subs }
  | _ => none

def dRowRel : Sexp → Option RowRel
  | list [i, n, w, p] => do some { id := ← dNat i, numb := ← dNat n, rows := ← dRelRows w, parent := ← dParent p }
  | _ => none

def dPkgRef : Sexp → Option PkgRef
  | list [q, p] => do some { referring := ← dNat q, referred := ← dNat p }
  | _ => none

def dDiagram : Sexp → Option ClassDiagram
  | list [cs, ts, ks, rs] => do
    some { containers := ← dList dContainer cs, dts := ← dList dDataType ts, classes := ← dList dClass ks,
           rels := ← dList dRel rs }
  | list [cs, ts, ks, rs, ls] => do
    some { containers := ← dList dContainer cs, dts := ← dList dDataType ts, classes := ← dList dClass ks,
           rels := ← dList dRel rs, loose := ← dList dLoose ls }
  | list [cs, ts, ks, rs, ls, os] => do
    some { containers := ← dList dContainer cs, dts := ← dList dDataType ts, classes := ← dList dClass ks,
           rels := ← dList dRel rs, loose := ← dList dLoose ls, rowRels := ← dList dRowRel os }
  | list [cs, ts, ks, rs, ls, os, ps] => do
    some { containers := ← dList dContainer cs, dts := ← dList dDataType ts, classes := ← dList dClass ks,
           rels := ← dList dRel rs, loose := ← dList dLoose ls, rowRels := ← dList dRowRel os,
           pkgrefs := ← dList dPkgRef ps }
  | _ => none

/-- component name as passed to `build_component`: `none` or a string -/
def dName : Sexp → Option (Option String)
  | sym "none" => some none
  | str s => some (some s)
  | _ => none

def dEndSel : Sexp → Option EndSel
  | sym "form" => some .form
  | sym "part" => some .part
  | sym "one" => some .one
  | sym "oth" => some .oth
  | _ => none

def dEdit : Sexp → Option Edit
  | list [sym "rename", c, a, n] => do some (.renameAttr (← dNat c) (← dNat a) (← dStr n))
  | list [sym "retype", c, a, t] => do some (.retypeAttr (← dNat c) (← dNat a) (← dNat t))
  | list [sym "reorder", c, p] => do some (.reorderAttrs (← dNat c) (← dList dNat p))
  | list [sym "mult", r, e, v] => do some (.setMult (← dNat r) (← dEndSel e) (← dBool v))
  | list [sym "cond", r, e, v] => do some (.setCond (← dNat r) (← dEndSel e) (← dBool v))
  | list [sym "phrase", r, e, v] => do some (.setPhrase (← dNat r) (← dEndSel e) (← dStr v))
  | list [sym "move-class", c, p] => do some (.moveClass (← dNat c) (← dParent p))
  | list [sym "move-rel", r, p] => do some (.moveRel (← dNat r) (← dParent p))
  | _ => none

/-! schema: `((class…) (group…))`, class = `("KL" ((name ty)…) ((NUM "name"…)…))`,
    group = `(REL (src tgt)…)`, end = `("kind" ("key"…) many cond "phrase")` -/

def eStr (s : String) : Sexp := .str s
def eStrs (l : List String) : Sexp := .list (l.map eStr)

def eSAttr (a : SAttr) : Sexp := .list [eStr a.name, eStr a.ty]
def eSIdent (i : SIdent) : Sexp := .list (ofNat i.num :: i.names.map eStr)
def eSClass (c : SClass) : Sexp := .list [eStr c.kl, .list (c.attrs.map eSAttr), .list (c.idents.map eSIdent)]
def eSEnd (e : SEnd) : Sexp := .list [eStr e.kind, eStrs e.keys, ofBool e.many, ofBool e.cond, eStr e.phrase]
def eSAssoc (a : SAssoc) : Sexp := .list [eSEnd a.src, eSEnd a.tgt]
def eSGroup (g : SGroup) : Sexp := .list (ofNat g.rel :: g.items.map eSAssoc)
def eSchema (s : Schema) : Sexp := .list [.list (s.classes.map eSClass), .list (s.groups.map eSGroup)]

end Pyx.Extract.Wire
