import PyxModel.LoadHeap
import Gen.Sharing

/-! C18: the sharing parameters of the heap model, read from the generated table Gen/Sharing.lean — ONE definition,
    used by the theorems (Props/C18.lean) and by the driver (Driver/C18.lean). -/

namespace Pyx.Heap

/-- where the generated table says the statement's own list object is kept; a field the table does not list is
    taken to be shared (the conservative answer) -/
def genByRef (cls field : String) : List String :=
  match Pyx.Gen.Sharing.byRef.find? (fun e => e.1 = cls ∧ e.2.1 = field) with
  | some e => e.2.2
  | none => ["<no entry>"]

/-- the sharing relation of the code as it is now -/
def genSharing : Sharing :=
  ⟨!(genByRef "CreateClassStmt" "attributes").isEmpty,
   !(genByRef "CreateAssociationStmt" "source_keys").isEmpty || !(genByRef "CreateAssociationStmt" "target_keys").isEmpty⟩

end Pyx.Heap
