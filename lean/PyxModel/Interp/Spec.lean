import PyxModel.Interp.State

/-
  L5 — OAL interpreter, the reference semantics `Spec`: a definitional big-step interpreter with fuel.

  Shape.  `M α = Cfg → Option (Except Err (α × Cfg))`: `none` = out of fuel, `error` = the program left
  the domain of properties C04/C15 (unset variable, type error, division by zero, use of a deleted
  instance, multiplicity-violating relate, ...), `ok` = a value and the next configuration.
  One level of the interpreter is written against an *oracle* `rec` for the sub-terms
  (`evalStep rec`, `execStep rec`); `run (n+1) = step (run n)`, `run 0` = out of fuel.  Lists of
  statements / arguments / candidates / loop elements are walked by structural recursion.

  Read from `bridgepoint/interpret.py` (`ActionWalker.accept_*`, `SymbolTable`, the three walkers):
    * a walker owns ONE scope = a stack of blocks; `install_symbol` updates the binding of the name in
      whatever block of the scope holds it, else creates it in the innermost block;
    * every callable runs in a NEW walker (fresh scope, own `kwargs`, own `self`, own `return_value`);
    * `return e` stores the value in the walker's `return_value` register and unwinds; in a derived
      attribute body `self.<attr>` (same instance, same name) reads/writes that register.
  The one place where `Spec` states the language rule rather than the code's mechanism: a block ends
  (its variables vanish) however it is left; the code leaks the block on break/continue/return, which
  no program of the domain (no read of an out-of-scope variable) can observe.
-/

namespace Pyx
namespace Interp

/-- how a statement completes.  `ret` = a `return <expr>` was executed (the register holds its value), `retBare` = a bare
    `return;` was executed (the register is untouched); both unwind to the body like Python's ReturnException -/
inductive Out where
  | normal | brk | cont | ret | retBare | stop
  deriving DecidableEq, Repr, Inhabited

inductive WalkerKind where
  | function                               -- FunctionWalker: param, no self
  | operation                              -- OperationWalker: param, self (none for class-based)
  | derived (i : Inst) (attr : String)     -- DerivedAttributeWalker: self, no param
  deriving DecidableEq, Repr, Inhabited

abbrev Env := List (List (String × Val))     -- blocks, innermost first

structure Frame where
  env : Env
  kind : WalkerKind
  params : String → Option Val
  self : Val
  ret : Val

structure Cfg where
  fr : Frame
  st : State

abbrev Res (α : Type) := Option (Except Err (α × Cfg))

def M (α : Type) := Cfg → Res α

namespace M

def ret' {α : Type} (a : α) : M α := fun c => some (.ok (a, c))

def bnd {α β : Type} (m : M α) (f : α → M β) : M β := fun c =>
  match m c with
  | none => none
  | some (.error e) => some (.error e)
  | some (.ok (a, c')) => f a c'

instance : Monad M where
  pure := M.ret'
  bind := M.bnd

def fail {α : Type} (msg : String) : M α := fun _ => some (.error ⟨msg⟩)

def liftE {α : Type} (x : Except Err α) : M α := fun c =>
  match x with
  | .ok a => some (.ok (a, c))
  | .error e => some (.error e)

def getSt : M State := fun c => some (.ok (c.st, c))
def getFr : M Frame := fun c => some (.ok (c.fr, c))
/-- a state transformer that may leave the domain -/
def modifySt (f : State → Except Err State) : M Unit := fun c =>
  match f c.st with
  | .ok st' => some (.ok ((), { c with st := st' }))
  | .error e => some (.error e)

def modifyGet {α : Type} (f : State → Except Err (α × State)) : M α := fun c =>
  match f c.st with
  | .ok (a, st') => some (.ok (a, { c with st := st' }))
  | .error e => some (.error e)

/-- a state query that may leave the domain -/
def querySt {α : Type} (f : State → Except Err α) : M α := fun c =>
  match f c.st with
  | .ok a => some (.ok (a, c))
  | .error e => some (.error e)
def setEnv (env : Env) : M Unit := fun c => some (.ok ((), { c with fr := { c.fr with env := env } }))
def setRet (v : Val) : M Unit := fun c => some (.ok ((), { c with fr := { c.fr with ret := v } }))

end M

open M

/-! ### the symbol table -/

def blockSet (x : String) (v : Val) : List (String × Val) → List (String × Val)
  | [] => []
  | p :: rest => if p.1 = x then (x, v) :: rest else p :: blockSet x v rest

def envLookup : Env → String → Option Val
  | [], _ => none
  | b :: rest, x =>
    match b.lookup x with
    | some v => some v
    | none => envLookup rest x

/-- update the binding of `x` in the block that holds it -/
def envUpdate (x : String) (v : Val) : Env → Env
  | [] => []
  | b :: rest => if (b.lookup x).isSome then blockSet x v b :: rest else b :: envUpdate x v rest

/-- `SymbolTable.install_symbol` -/
def envInstall (env : Env) (x : String) (v : Val) : Env :=
  if (envLookup env x).isSome then envUpdate x v env
  else match env with
    | [] => [[(x, v)]]
    | b :: rest => ((x, v) :: b) :: rest

def install (x : String) (v : Val) : M Unit := do
  let fr ← getFr
  setEnv (envInstall fr.env x v)

/-- the name `self`, in any letter case (`InstanceSymbolTable.find_symbol`: `name.lower() == 'self'`) -/
def isSelfName (x : String) : Bool := x.map Char.toLower == "self"

/-- `InstanceSymbolTable.find_symbol` / `SymbolTable.find_symbol`: in an operation or a derived attribute the NAME self (`relate self to …`,
    `delete object instance SELF;`) is the receiving instance; else the scope, then the domain's symbols (constants) -/
def selfHit (fr : Frame) (x : String) : Bool :=
  match fr.kind with
  | .function => false
  | _ => isSelfName x

def lookupVar (C : Ctx) (x : String) : M Val := do
  let fr ← getFr
  if selfHit fr x then pure fr.self
  else
    match envLookup fr.env x with
    | some v => pure v
    | none =>
      match C.consts.lookup x with
      | some v => pure v
      | none => fail ("variable " ++ x ++ " is not set")

def pushBlock : M Unit := do
  let fr ← getFr
  setEnv ([] :: fr.env)

def popBlock : M Unit := do
  let fr ← getFr
  setEnv fr.env.tail

/-! ### operators (the two dict literals of `accept_BinaryOperationNode` / `accept_UnaryOperationNode`) -/

def binop (op : BinOp) (a b : Val) : Except Err Val :=
  match op, a, b with
  | .add, .int x, .int y => .ok (.int (x + y))
  | .add, .str x, .str y => .ok (.str (x ++ y))
  | .sub, .int x, .int y => .ok (.int (x - y))
  | .mul, .int x, .int y => .ok (.int (x * y))
  | .div, .int x, .int y => if y = 0 then .error ⟨"division by zero"⟩ else .ok (.int (Int.tdiv x y))
  -- `%` is the remainder of the truncating `/`: `(x / y) * y + x % y = x` (as in C, Java, the BridgePoint model
  -- compilers); the sign follows the dividend
  | .mod, .int x, .int y => if y = 0 then .error ⟨"division by zero"⟩ else .ok (.int (Int.tmod x y))
  | .lt, .int x, .int y => .ok (.bool (decide (x < y)))
  | .le, .int x, .int y => .ok (.bool (decide (x ≤ y)))
  | .gt, .int x, .int y => .ok (.bool (decide (x > y)))
  | .ge, .int x, .int y => .ok (.bool (decide (x ≥ y)))
  | .lt, .str x, .str y => .ok (.bool (decide (x < y)))
  | .le, .str x, .str y => .ok (.bool (decide (x ≤ y)))
  | .gt, .str x, .str y => .ok (.bool (decide (x > y)))
  | .ge, .str x, .str y => .ok (.bool (decide (x ≥ y)))
  | .eq, .int x, .int y => .ok (.bool (decide (x = y)))
  | .eq, .str x, .str y => .ok (.bool (decide (x = y)))
  | .eq, .bool x, .bool y => .ok (.bool (decide (x = y)))
  | .eq, .inst x, .inst y => .ok (.bool (decide (x = y)))
  | .eq, .inst _, .none => .ok (.bool false)
  | .eq, .none, .inst _ => .ok (.bool false)
  | .eq, .none, .none => .ok (.bool true)
  | .ne, .int x, .int y => .ok (.bool (decide (x ≠ y)))
  | .ne, .str x, .str y => .ok (.bool (decide (x ≠ y)))
  | .ne, .bool x, .bool y => .ok (.bool (decide (x ≠ y)))
  | .ne, .inst x, .inst y => .ok (.bool (decide (x ≠ y)))
  | .ne, .inst _, .none => .ok (.bool true)
  | .ne, .none, .inst _ => .ok (.bool true)
  | .ne, .none, .none => .ok (.bool false)
  | .or, .bool x, .bool y => .ok (.bool (x || y))
  | .and, .bool x, .bool y => .ok (.bool (x && y))
  | _, _, _ => .error ⟨"operand types"⟩

def unop (op : UnOp) (a : Val) : Except Err Val :=
  match op, a with
  | .neg, .int x => .ok (.int (-x))
  | .pos, .int x => .ok (.int x)
  | .not, .bool x => .ok (.bool (!x))
  | .card, .none => .ok (.int 0)
  | .card, .inst _ => .ok (.int 1)
  | .card, .set l => .ok (.int l.length)
  | .empty, .none => .ok (.bool true)
  | .empty, .inst _ => .ok (.bool false)
  | .empty, .set l => .ok (.bool l.isEmpty)
  | .notEmpty, .none => .ok (.bool false)
  | .notEmpty, .inst _ => .ok (.bool true)
  | .notEmpty, .set l => .ok (.bool (!l.isEmpty))
  | _, _ => .error ⟨"operand type"⟩

def asBool (v : Val) : M Bool :=
  match v with
  | .bool b => pure b
  | _ => fail "a boolean is required"

def asInst (v : Val) : M Inst :=
  match v with
  | .inst i => pure i
  | .none => fail "empty instance handle"
  | _ => fail "an instance handle is required"

/-! ### the oracle and the list walkers -/

structure Oracle where
  eval : Expr → M Val
  exec : Stmt → M Out

/-- `accept_StatementListNode`; an outcome other than `normal` unwinds (Python: an exception) -/
def execList (rec : Oracle) : List Stmt → M Out
  | [] => pure .normal
  | s :: rest => do
    let o ← rec.exec s
    match o with
    | .normal => execList rec rest
    | o => pure o

/-- `accept_BlockNode`: enter_block, statements, leave_block -/
def execBlock (rec : Oracle) (b : Block) : M Out := do
  pushBlock
  let o ← execList rec b
  popBlock
  pure o

/-- `accept_ElIfListNode` / `accept_ElseNode` -/
def execElifs (rec : Oracle) : List (Expr × Block) → Option Block → M Out
  | [], none => pure .normal
  | [], some b => execBlock rec b
  | (c, b) :: rest, els => do
    let v ← rec.eval c
    let t ← asBool v
    if t then execBlock rec b else execElifs rec rest els

/-- `accept_ForEachNode` over the snapshot `items` -/
def forItems (rec : Oracle) (v : String) (body : Block) : List Inst → M Out
  | [] => pure .normal
  | i :: rest => do
    install v (.inst i)
    let o ← execBlock rec body
    match o with
    | .normal => forItems rec v body rest
    | .cont => forItems rec v body rest
    | .brk => pure .normal
    | o => pure o

/-- the where-closure: a block binding `selected`, the clause, leave the block -/
def evalWhere (rec : Oracle) (wh : Expr) (c : Inst) : M Bool := do
  pushBlock
  install "selected" (.inst c)
  let v ← rec.eval wh
  popBlock
  asBool v

/-- `select many ... where`: `QuerySet(filter(where, candidates))` -/
def filterAll (rec : Oracle) (wh : Expr) : List Inst → M (List Inst)
  | [] => pure []
  | c :: rest => do
    let t ← evalWhere rec wh c
    let r ← filterAll rec wh rest
    pure (if t then c :: r else r)

/-- `select any/one ... where`: `next(iter(filter(where, candidates)), None)` — stops at the first match -/
def filterFirst (rec : Oracle) (wh : Expr) : List Inst → M (Option Inst)
  | [] => pure none
  | c :: rest => do
    let t ← evalWhere rec wh c
    if t then pure (some c) else filterFirst rec wh rest

def selectResult (rec : Oracle) (many : Bool) (cands : List Inst) (wh : Option Expr) : M Val :=
  match many, wh with
  | true, none => pure (.set (dedup cands))
  | true, some w => do
    let l ← filterAll rec w cands
    pure (.set (dedup l))
  | false, none => pure (match cands with | [] => .none | c :: _ => .inst c)
  | false, some w => do
    let r ← filterFirst rec w cands
    pure (match r with | none => .none | some c => .inst c)

/-- `accept_ParameterListNode`: left to right -/
def evalArgs (rec : Oracle) : List (String × Expr) → M (List (String × Val))
  | [] => pure []
  | (n, e) :: rest => do
    let v ← rec.eval e
    let r ← evalArgs rec rest
    pure ((n, v) :: r)

/-! ### invocation -/

/-- `kwargs[name] = value` for each argument in turn: the last binding of a name wins -/
def paramsOf (kw : List (String × Val)) : String → Option Val :=
  fun x => kw.reverse.lookup x

def mkFrame (kind : WalkerKind) (kw : List (String × Val)) (self : Val) : Frame :=
  { env := [[]], kind := kind, params := paramsOf kw, self := self, ret := .none }

/-- `accept_BodyNode`: the block; `return` and `control stop` end the body -/
def runBody (rec : Oracle) (body : Block) : M Unit := do
  let o ← execBlock rec body
  match o with
  | .brk => fail "break outside a loop"
  | .cont => fail "continue outside a loop"
  | _ => pure ()

/-- run a callable: a NEW walker (fresh scope, own parameters, own self, own return register);
    the caller's frame is untouched, the state is shared; the result is the register at the end -/
def invoke (rec : Oracle) (kind : WalkerKind) (body : Block) (kw : List (String × Val)) (self : Val) : M Val :=
  fun c =>
    match runBody rec body { fr := mkFrame kind kw self, st := c.st } with
    | none => none
    | some (.error e) => some (.error e)
    | some (.ok (_, c')) => some (.ok (c'.fr.ret, { fr := c.fr, st := c'.st }))

def findCallable (C : Ctx) (p : Callable → Bool) : Option Callable := C.callables.find? p

/-- what `NS::name` denotes: a bridge of the external entity NS, else a class-based operation of class NS -/
def resolveNs (C : Ctx) (ns name : String) : Option Callable :=
  match findCallable C (fun f => f.kind = .bridge ns ∧ f.name = name) with
  | some f => some f
  | none => findCallable C (fun f => f.kind = .classOp ns ∧ f.name = name)

def findDerived (C : Ctx) (cls name : String) : Option Callable :=
  findCallable C (fun f => f.kind = .derived cls ∧ f.name = name)

/-- `DerivedAttributeWalker.accept_FieldAccessNode`: inside the body of the derived attribute `attr` of instance
    `si`, the access `si.attr` denotes the walker's `return_value` register -/
def regHit (fr : Frame) (i : Inst) (name : String) : Bool :=
  match fr.kind with
  | .derived si attr => decide (name = attr ∧ i = si)
  | _ => false

/-- attribute read `getattr(handle, name)` -/
def readField (C : Ctx) (rec : Oracle) (i : Inst) (name : String) : M Val := do
  let fr ← getFr
  if regHit fr i name then pure fr.ret
  else match findDerived C i.cls name with
    | some f => invoke rec (.derived i name) f.body [] (.inst i)
    | none => querySt (getAttr C i name)

/-- attribute write `setattr(handle, name, value)` -/
def writeField (C : Ctx) (i : Inst) (name : String) (v : Val) : M Unit := do
  let fr ← getFr
  if regHit fr i name then setRet v
  else match findDerived C i.cls name with
    | some _ => fail ("derived attribute " ++ name ++ " cannot be assigned")
    | none => modifySt (setAttr C i name v)

/-- the start of a navigation: `NavChain.__init__` -/
def startOf (v : Val) : M (List Inst) :=
  match v with
  | .none => pure []
  | .inst i => pure [i]
  | .set l => pure l
  | _ => fail "unable to navigate across a value"

/-- position of an enumerator in the enumeration (`getattr(namedtuple, name)` of `Enum(*range(len(enums)))`) -/
def posOf (name : String) : List String → Option Nat
  | [] => none
  | x :: rest => if x = name then some 0 else (posOf name rest).map (· + 1)

/-! ### one level of the interpreter -/

def evalStep (C : Ctx) (rec : Oracle) : Expr → M Val
  | .int i => pure (.int i)
  | .str s => pure (.str s)
  | .bool b => pure (.bool b)
  | .var x => lookupVar C x
  | .selected => lookupVar C "selected"
  | .self => do
    let fr ← getFr
    match fr.kind with
    | .function => fail "self in a function"
    | _ => pure fr.self
  | .param x => do
    let fr ← getFr
    match fr.kind with
    | .derived _ _ => fail "param in a derived attribute"
    | _ =>
      match fr.params x with
      | some v => pure v
      | none => fail ("missing parameter " ++ x)
  | .field h name => do
    let hv ← rec.eval h
    let i ← asInst hv
    readField C rec i name
  | .bin op l r => do
    let a ← rec.eval l
    let b ← rec.eval r
    liftE (binop op a b)
  | .un op e => do
    let a ← rec.eval e
    liftE (unop op a)
  | .enumOrConst ns name =>
    match C.enums.find? (fun d => d.name = ns) with
    | some d =>
      match posOf name d.enumerators with
      | some k => pure (.int k)
      | none => fail ("unknown enumerator " ++ name)
    | none => fail ("unknown enumeration " ++ ns)
  | .call .function name args => do
    let kw ← evalArgs rec args
    match findCallable C (fun f => f.kind = .function ∧ f.name = name) with
    | some f => invoke rec .function f.body kw .none
    | none => fail ("unknown function " ++ name)
  -- `NS::f()` (accept_ImplicitInvocationNode: find_symbol(NS, ['external entity', 'class'])) and `bridge NS::f()`
  -- (accept_BridgeInvocationNode: find_symbol(NS, 'external entity'), which falls back to find_class when NS names no
  -- external entity): the parameters first, then a bridge of NS, else the class-based operation of the class NS
  | .call (.implicit ns) name args => do
    let kw ← evalArgs rec args
    match resolveNs C ns name with
    | some f =>
      match f.kind with
      | .bridge _ => invoke rec .function f.body kw .none
      | _ => invoke rec .operation f.body kw .none
    | none => fail ("unknown " ++ ns ++ "::" ++ name)
  | .call (.bridge ns) name args => do
    let kw ← evalArgs rec args
    match resolveNs C ns name with
    | some f =>
      match f.kind with
      | .bridge _ => invoke rec .function f.body kw .none
      | _ => invoke rec .operation f.body kw .none
    | none => fail ("unknown " ++ ns ++ "::" ++ name)
  -- `transform KL::op()` (accept_ClassInvocationNode: find_symbol(KL, 'class')): the CLASS only — a bridge `op` of an external
  -- entity with the same key letters is not considered — and the look-up BEFORE the parameters are evaluated
  | .call (.classOp ns) name args =>
    match findCallable C (fun f => f.kind = .classOp ns ∧ f.name = name) with
    | some f => do
      let kw ← evalArgs rec args
      invoke rec .operation f.body kw .none
    | none => fail ("unknown " ++ ns ++ "::" ++ name)
  | .callInst h name args => do
    let hv ← rec.eval h
    let i ← asInst hv
    match findCallable C (fun f => f.kind = .instOp i.cls ∧ f.name = name) with
    | some f => do
      let kw ← evalArgs rec args
      invoke rec .operation f.body kw (.inst i)
    | none => fail ("unknown operation " ++ name)

def execStep (C : Ctx) (rec : Oracle) : Stmt → M Out
  | .assignVar x e => do
    let v ← rec.eval e
    install x v
    pure .normal
  | .assignField h name e => do
    let v ← rec.eval e
    let hv ← rec.eval h
    let i ← asInst hv
    writeField C i name v
    pure .normal
  | .ifS c thn elifs els => do
    let v ← rec.eval c
    let t ← asBool v
    if t then execBlock rec thn else execElifs rec elifs els
  | .whileS c body => do
    let v ← rec.eval c
    let t ← asBool v
    if t then do
      let o ← execBlock rec body
      match o with
      | .normal => rec.exec (.whileS c body)
      | .cont => rec.exec (.whileS c body)
      | .brk => pure .normal
      | o => pure o
    else pure .normal
  | .forEach v setv body => do
    let s ← lookupVar C setv
    match s with
    | .set items => forItems rec v body items
    | _ => fail "for each over a value that is not an instance set"
  | .brk => pure .brk
  | .cont => pure .cont
  | .ret none => pure .retBare
  | .ret (some e) => do
    let v ← rec.eval e
    setRet v
    pure .ret
  | .stop => pure .stop
  | .create v cls => do
    let i ← modifyGet (newInst C cls)
    match v with
    | some x => install x (.inst i)
    | none => pure ()
    pure .normal
  | .delete v => do
    let x ← lookupVar C v
    let i ← asInst x
    modifySt (deleteInst i)
    pure .normal
  | .relate a b rel phrase => do
    let x ← asInst (← lookupVar C a)
    let y ← asInst (← lookupVar C b)
    modifySt (relate C x y rel phrase)
    pure .normal
  | .relateUsing a b rel phrase u => do
    let x ← asInst (← lookupVar C a)
    let y ← asInst (← lookupVar C b)
    let w ← asInst (← lookupVar C u)
    modifySt (relateUsing C x y w rel phrase)
    pure .normal
  | .unrelate a b rel phrase => do
    let x ← asInst (← lookupVar C a)
    let y ← asInst (← lookupVar C b)
    modifySt (unrelate C x y rel phrase)
    pure .normal
  | .unrelateUsing a b rel phrase u => do
    let x ← asInst (← lookupVar C a)
    let y ← asInst (← lookupVar C b)
    let w ← asInst (← lookupVar C u)
    modifySt (unrelateUsing C x y w rel phrase)
    pure .normal
  | .selectFrom many v cls wh => do
    let cands ← querySt (fun st => match findClass C cls with
      | none => .error ⟨"unknown class " ++ cls⟩
      | some _ => .ok (st.instances cls))
    let r ← selectResult rec many cands wh
    install v r
    pure .normal
  | .selectRelated many v h chain wh => do
    let hv ← rec.eval h
    let start ← startOf hv
    let cands ← querySt (fun st => navChain C st start chain)
    let r ← selectResult rec many cands wh
    install v r
    pure .normal
  | .invoke e => do
    let _ ← rec.eval e
    pure .normal

/-! ### fuel -/

def run (C : Ctx) : Nat → Oracle
  | 0 => { eval := fun _ _ => none, exec := fun _ _ => none }
  | n + 1 => { eval := evalStep C (run C n), exec := execStep C (run C n) }

/-- `run_function(domain, label, action, kwargs)`: the return register and the final state -/
def runFunction (C : Ctx) (fuel : Nat) (body : Block) (kw : List (String × Val)) (st : State) :
    Option (Except Err (Val × State)) :=
  match runBody (run C fuel) body { fr := mkFrame .function kw .none, st := st } with
  | none => none
  | some (.error e) => some (.error e)
  | some (.ok (_, c)) => some (.ok (c.fr.ret, c.st))

end Interp
end Pyx
