import PyxModel.Sexp
import PyxModel.Interp.Spec

/-
  Decoder: the s-expression form of a `bridgepoint.oal` syntax tree (harness/oal_sexp.py,
  `(NodeClassName field…)`) → `Interp.Stmt` / `Interp.Expr`; and the wire form of schema, callables,
  population and results.  What `interpret.py` normalises when it *reads* a node is normalised here:
  `node.operator.lower()`, `node.value.upper() == 'TRUE'`, `node.value[1:-1]`, `int(node.value)`,
  `node.phrase.replace("'", '')`, `node.cardinality.lower() == 'many'`.
-/

namespace Pyx
namespace Interp
open Pyx.Sexp

def asciiLower (s : String) : String := s.map Char.toLower
def asciiUpper (s : String) : String := s.map Char.toUpper

/-- the keys of the binary-operator dict literal -/
def binOfLexeme : String → Option BinOp
  | "+" => some .add | "-" => some .sub | "*" => some .mul | "/" => some .div | "%" => some .mod
  | "<" => some .lt | "<=" => some .le | ">" => some .gt | ">=" => some .ge
  | "!=" => some .ne | "==" => some .eq | "or" => some .or | "and" => some .and
  | _ => none

/-- the keys of the unary-operator dict literal -/
def unOfLexeme : String → Option UnOp
  | "-" => some .neg | "+" => some .pos | "not" => some .not
  | "cardinality" => some .card | "empty" => some .empty | "not_empty" => some .notEmpty
  | _ => none

def stripTicks (s : String) : String := String.ofList (s.toList.filter (fun c => c ≠ '\''))

def strOf : Sexp → Option String
  | .str s => some s
  | _ => none

mutual
  partial def decodeExpr : Sexp → Option Expr
    | .list [.sym "IntegerNode", .str v] => (v.toInt?).map Expr.int
    | .list [.sym "StringNode", .str v] => some (.str (String.ofList ((v.toList.drop 1).dropLast)))
    | .list [.sym "BooleanNode", .str v] => some (.bool (asciiUpper v == "TRUE"))
    | .list [.sym "VariableAccessNode", .str x] => some (.var x)
    | .list [.sym "SelectedAccessNode", _] => some .selected
    | .list [.sym "SelfAccessNode", _] => some .self
    | .list [.sym "ParamAccessNode", .str x] => some (.param x)
    | .list [.sym "FieldAccessNode", h, .str n] => do
      let h' ← decodeExpr h
      pure (.field h' n)
    | .list [.sym "BinaryOperationNode", l, .str op, r] => do
      let o ← binOfLexeme (asciiLower op)
      let l' ← decodeExpr l
      let r' ← decodeExpr r
      pure (.bin o l' r')
    | .list [.sym "UnaryOperationNode", .str op, e] => do
      let o ← unOfLexeme (asciiLower op)
      let e' ← decodeExpr e
      pure (.un o e')
    | .list [.sym "EnumOrNamedConstantNode", .str ns, .str n] => some (.enumOrConst ns n)
    | .list [.sym "FunctionInvocationNode", .str n, ps] => do
      let a ← decodeArgs ps
      pure (.call .function n a)
    | .list [.sym "ImplicitInvocationNode", .str ns, .str n, ps] => do
      let a ← decodeArgs ps
      pure (.call (.implicit ns) n a)
    | .list [.sym "ClassInvocationNode", .str ns, .str n, ps] => do
      let a ← decodeArgs ps
      pure (.call (.classOp ns) n a)
    | .list [.sym "BridgeInvocationNode", .str ns, .str n, ps] => do
      let a ← decodeArgs ps
      pure (.call (.bridge ns) n a)
    | .list [.sym "InstanceInvocationNode", h, .str n, ps] => do
      let h' ← decodeExpr h
      let a ← decodeArgs ps
      pure (.callInst h' n a)
    | _ => none

  partial def decodeArgs : Sexp → Option (List (String × Expr))
    | .list (.sym "ParameterListNode" :: ps) =>
      ps.mapM (fun p => match p with
        | .list [.sym "ParameterNode", .str n, e] => do
          let e' ← decodeExpr e
          pure (n, e')
        | _ => none)
    | _ => none
end

def decodeOptExpr : Sexp → Option (Option Expr)
  | .sym "none" => some none
  | e => (decodeExpr e).map some

def decodeNav : Sexp → Option (List NavStep)
  | .list (.sym "NavigationListNode" :: steps) =>
    steps.mapM (fun s => match s with
      | .list [.sym "NavigationStepNode", .str kl, .str rel, .str ph] => some ⟨kl, rel, stripTicks ph⟩
      | _ => none)
  | _ => none

mutual
  partial def decodeStmt : Sexp → Option Stmt
    | .list [.sym "AssignmentNode", .list [.sym "VariableAccessNode", .str x], e] => do
      let e' ← decodeExpr e
      pure (.assignVar x e')
    | .list [.sym "AssignmentNode", .list [.sym "FieldAccessNode", h, .str n], e] => do
      let h' ← decodeExpr h
      let e' ← decodeExpr e
      pure (.assignField h' n e')
    | .list [.sym "IfNode", c, b, .list (.sym "ElIfListNode" :: elifs), els] => do
      let c' ← decodeExpr c
      let b' ← decodeBlock b
      let elifs' ← elifs.mapM (fun x => match x with
        | .list [.sym "ElIfNode", ce, be] => do
          let ce' ← decodeExpr ce
          let be' ← decodeBlock be
          pure (ce', be')
        | _ => none)
      let els' ← match els with
        | .sym "none" => some none
        | .list [.sym "ElseNode", be] => (decodeBlock be).map some
        | _ => none
      pure (.ifS c' b' elifs' els')
    | .list [.sym "WhileNode", c, b] => do
      let c' ← decodeExpr c
      let b' ← decodeBlock b
      pure (.whileS c' b')
    | .list [.sym "ForEachNode", .str v, .str s, b] => do
      let b' ← decodeBlock b
      pure (.forEach v s b')
    | .list [.sym "BreakNode"] => some .brk
    | .list [.sym "ContinueNode"] => some .cont
    | .list [.sym "ControlNode"] => some .stop
    | .list [.sym "ReturnNode", e] => do
      let e' ← decodeOptExpr e
      pure (.ret e')
    | .list [.sym "CreateObjectNode", .str v, .str kl] => some (.create (some v) kl)
    | .list [.sym "CreateObjectNoVariableNode", .str kl] => some (.create none kl)
    | .list [.sym "DeleteNode", .str v] => some (.delete v)
    | .list [.sym "RelateNode", .str a, .str b, .str rel, .str ph] => some (.relate a b rel (stripTicks ph))
    | .list [.sym "RelateUsingNode", .str a, .str b, .str rel, .str ph, .str u] =>
      some (.relateUsing a b rel (stripTicks ph) u)
    | .list [.sym "UnrelateNode", .str a, .str b, .str rel, .str ph] => some (.unrelate a b rel (stripTicks ph))
    | .list [.sym "UnrelateUsingNode", .str a, .str b, .str rel, .str ph, .str u] =>
      some (.unrelateUsing a b rel (stripTicks ph) u)
    | .list [.sym "SelectFromNode", .str card, .str v, .str kl] =>
      some (.selectFrom (asciiLower card == "many") v kl none)
    | .list [.sym "SelectFromWhereNode", .str card, .str v, .str kl, w] => do
      let w' ← decodeExpr w
      pure (.selectFrom (asciiLower card == "many") v kl (some w'))
    | .list [.sym "SelectRelatedNode", .str card, .str v, h, nav] => do
      let h' ← decodeExpr h
      let nav' ← decodeNav nav
      pure (.selectRelated (asciiLower card == "many") v h' nav' none)
    | .list [.sym "SelectRelatedWhereNode", .str card, .str v, h, nav, w] => do
      let h' ← decodeExpr h
      let nav' ← decodeNav nav
      let w' ← decodeExpr w
      pure (.selectRelated (asciiLower card == "many") v h' nav' (some w'))
    | .list [.sym "InvocationStatementNode", e] => do
      let e' ← decodeExpr e
      pure (.invoke e')
    | _ => none

  partial def decodeBlock : Sexp → Option Block
    | .list [.sym "BlockNode", .list (.sym "StatementListNode" :: ss)] => ss.mapM decodeStmt
    | _ => none
end

def decodeBody : Sexp → Option Block
  | .list [.sym "BodyNode", b] => decodeBlock b
  | _ => none

/-! ### values, schema, callables, population -/

def decodeInst : Sexp → Option Inst
  | .list [.sym "i", c, .int n] => do
    let c' ← asStr? c
    pure ⟨c', n.toNat⟩
  | _ => none

def decodeVal : Sexp → Option Val
  | .int i => some (.int i)
  | .str s => some (.str s)
  | .sym "T" => some (.bool true)
  | .sym "F" => some (.bool false)
  | .sym "none" => some .none
  | .list (.sym "set" :: xs) => (xs.mapM decodeInst).map Val.set
  | x => (decodeInst x).map Val.inst

def encodeInst (i : Inst) : Sexp := .list [.sym "i", .str i.cls, .int (Int.ofNat i.idx)]

def encodeVal : Val → Sexp
  | .int i => .int i
  | .str s => .str s
  | .bool b => ofBool b
  | .none => .sym "none"
  | .inst i => encodeInst i
  | .set l => .list (.sym "set" :: l.map encodeInst)

def decodeTy : Sexp → Option Ty
  | .sym "integer" => some .integer
  | .sym "string" => some .string
  | .sym "boolean" => some .boolean
  | .sym "unique_id" => some .uniqueId
  | _ => none

def decodeBool : Sexp → Option Bool
  | .sym "T" => some true
  | .sym "F" => some false
  | _ => none

def decodeClass : Sexp → Option ClassDecl
  | .list (.sym "cls" :: .str n :: attrs) => do
    let as' ← attrs.mapM (fun a => match a with
      | .list [.str an, ty, r] => do
        let ty' ← decodeTy ty
        let r' ← decodeBool r
        pure (⟨an, ty', r'⟩ : AttrDecl)
      | _ => none)
    pure ⟨n, as'⟩
  | _ => none

def decodeStrs : Sexp → Option (List String)
  | .list xs => xs.mapM (fun x => match x with | .str s => some s | _ => none)
  | _ => none

def decodeAssoc : Sexp → Option Assoc
  | .list [.sym "assoc", .str rel, .str src, .str tgt, .str sp, .str tp, sm, tm] => do
    let sm' ← decodeBool sm
    let tm' ← decodeBool tm
    pure { rel := rel, src := src, tgt := tgt, srcPhrase := sp, tgtPhrase := tp, srcMany := sm', tgtMany := tm' }
  | .list [.sym "assoc", .str rel, .str src, .str tgt, .str sp, .str tp, sm, tm, sk, tk] => do
    let sm' ← decodeBool sm
    let tm' ← decodeBool tm
    let sk' ← decodeStrs sk
    let tk' ← decodeStrs tk
    pure { rel := rel, src := src, tgt := tgt, srcPhrase := sp, tgtPhrase := tp, srcMany := sm', tgtMany := tm',
           srcKeys := sk', tgtKeys := tk' }
  | _ => none

def decodeCallable : Sexp → Option Callable
  | .list [.sym "function", .str n, b] => do
    let b' ← decodeBody b
    pure ⟨.function, n, b'⟩
  | .list [.sym "bridge", .str ee, .str n, b] => do
    let b' ← decodeBody b
    pure ⟨.bridge ee, n, b'⟩
  | .list [.sym "classop", .str c, .str n, b] => do
    let b' ← decodeBody b
    pure ⟨.classOp c, n, b'⟩
  | .list [.sym "instop", .str c, .str n, b] => do
    let b' ← decodeBody b
    pure ⟨.instOp c, n, b'⟩
  | .list [.sym "derived", .str c, .str n, b] => do
    let b' ← decodeBody b
    pure ⟨.derived c, n, b'⟩
  | _ => none

def section? (name : String) (xs : List Sexp) : List Sexp :=
  match xs.find? (fun x => match x with | .list (.sym n :: _) => n == name | _ => false) with
  | some (.list (_ :: r)) => r
  | _ => []

/-- `(ctx (classes …) (assocs …) (callables …))`; enumerations and constants are added by the C15 driver -/
def decodeCtx : Sexp → Option Ctx
  | .list (.sym "ctx" :: secs) => do
    let cs ← (section? "classes" secs).mapM decodeClass
    let as' ← (section? "assocs" secs).mapM decodeAssoc
    let fs ← (section? "callables" secs).mapM decodeCallable
    pure { classes := cs, assocs := as', callables := fs }
  | _ => none

/-- the attribute values of one instance, in the order of the class's non-referential attributes -/
def setAttrs (i : Inst) : List AttrDecl → List Val → (Inst → String → Val) → (Inst → String → Val)
  | a :: as', v :: vs, f =>
    if a.referential then setAttrs i as' (v :: vs) f
    else setAttrs i as' vs (fun j n => if j = i ∧ n = a.name then v else f j n)
  | _, _, f => f

/-- `(state (nextId n) (pop (CLS next (idx v…)…)…) (links (k (scls sidx tcls tidx)…)…))` -/
def decodeState (C : Ctx) : Sexp → Option State
  | .list (.sym "state" :: secs) => do
    let nid ← match section? "nextId" secs with
      | [.int n] => some n
      | _ => none
    let st0 : State := { live := fun _ => [], next := fun _ => 0, attr := fun _ _ => .none,
                         links := fun _ => [], nextId := nid }
    let st1 ← (section? "pop" secs).foldlM (fun (st : State) p => match p with
      | .list (.str cls :: .int nxt :: insts) => do
        let decl ← findClass C cls
        let st' ← insts.foldlM (fun (st : State) x => match x with
          | .list (.int idx :: vals) => do
            let vs ← vals.mapM decodeVal
            let i : Inst := ⟨cls, idx.toNat⟩
            pure { st with live := upd st.live cls (st.live cls ++ [idx.toNat]),
                           attr := setAttrs i decl.attrs vs st.attr }
          | _ => none) st
        pure { st' with next := upd st'.next cls nxt.toNat }
      | _ => none) st0
    (section? "links" secs).foldlM (fun (st : State) p => match p with
      | .list (.int k :: pairs) => do
        let ps ← pairs.mapM (fun q => match q with
          | .list [.str sc, .int si, .str tc, .int ti] => some ((⟨sc, si.toNat⟩ : Inst), (⟨tc, ti.toNat⟩ : Inst))
          | _ => none)
        pure { st with links := upd st.links k.toNat ps }
      | _ => none) st1
  | _ => none

def encodeState (C : Ctx) (st : State) : Sexp :=
  .list [ .sym "state",
    .list [.sym "nextId", .int st.nextId],
    .list (.sym "pop" :: C.classes.map (fun c =>
      .list (.str c.name :: .int (Int.ofNat (st.next c.name)) :: (st.live c.name).map (fun (n : Nat) =>
        .list (.int (Int.ofNat n) :: (c.attrs.filter (fun a => !a.referential)).map (fun a => encodeVal (st.attr ⟨c.name, n⟩ a.name))))))),
    .list (.sym "links" :: (List.range C.assocs.length).map (fun (k : Nat) =>
      .list (.int (Int.ofNat k) :: (st.links k).map (fun p =>
        .list [.str p.1.cls, .int (Int.ofNat p.1.idx), .str p.2.cls, .int (Int.ofNat p.2.idx)])))) ]

def decodeKwargs : Sexp → Option (List (String × Val))
  | .list xs => xs.mapM (fun x => match x with
    | .list [.str n, v] => (decodeVal v).map (fun v' => (n, v'))
    | _ => none)
  | _ => none

def encodeResult (C : Ctx) : Option (Except Err (Val × State)) → Sexp
  | none => .list [.sym "timeout"]
  | some (.error e) => .list [.sym "error", .str e.msg]
  | some (.ok (v, st)) => .list [.sym "ok", encodeVal v, encodeState C st]

end Interp
end Pyx
