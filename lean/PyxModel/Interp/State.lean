import PyxModel.Interp.Ast

/-
  L5 — OAL interpreter, the PLAIN RELATIONAL state of the reference semantics (`Spec`).

    per class        the live instance indices in creation order, and the next creation index
    per instance     an attribute valuation
    per association  ONE list of (source instance, target instance) pairs in relate order
                     (source = the formalising class of `CREATE ROP ... FROM <source> TO <target>`;
                      an association class is two such associations with the same number)
    nextId           the id generator (`xtuml.IntegerGenerator`)

  `xtuml/meta.py` keeps two directed maps of ordered sets per association; navigating a link from an
  instance there is "the partners of that instance in insertion order" = the projection used here.
-/

namespace Pyx
namespace Interp

structure Err where
  msg : String
  deriving Repr, DecidableEq, Inhabited

inductive Ty where
  | integer | string | boolean | uniqueId
  deriving DecidableEq, Repr, Inhabited

structure AttrDecl where
  name : String
  ty : Ty
  referential : Bool     -- referential attributes get no default and are not part of the valuation
  deriving Repr, Inhabited

structure ClassDecl where
  name : String
  attrs : List AttrDecl
  deriving Repr, Inhabited

/-- `define_association(rel, source_kind, …, source_many, …, source_phrase, target_kind, …)`.
    `srcPhrase` is the phrase of the link source→target (`target_link.phrase = source_phrase`),
    `tgtPhrase` the phrase of the link target→source (`source_link.phrase = target_phrase`);
    `srcMany`: a target instance may have many source partners (`source_link.many`). -/
structure Assoc where
  rel : String
  src : String
  tgt : String
  srcPhrase : String
  tgtPhrase : String
  srcMany : Bool
  tgtMany : Bool
  srcKeys : List String := []     -- referential attributes of the source class …
  tgtKeys : List String := []     -- … and the identifying attributes of the target class they refer to (zipped)
  deriving Repr, Inhabited

inductive CalleeKind where
  | function
  | bridge (ee : String)
  | classOp (cls : String)
  | instOp (cls : String)
  | derived (cls : String)     -- `name` of the callable is the attribute name
  deriving DecidableEq, Repr, Inhabited

structure Callable where
  kind : CalleeKind
  name : String
  body : Block
  deriving Repr, Inhabited

structure EnumDecl where
  name : String
  enumerators : List String    -- in the order computed by the model of `mk_enum`
  deriving Repr, Inhabited

/-- everything static: the schema and the callable model elements -/
structure Ctx where
  classes : List ClassDecl := []
  assocs : List Assoc := []
  callables : List Callable := []
  enums : List EnumDecl := []
  consts : List (String × Val) := []
  deriving Inhabited

structure State where
  live : String → List Nat
  next : String → Nat
  attr : Inst → String → Val
  links : Nat → List (Inst × Inst)
  nextId : Int

instance : Inhabited State := ⟨⟨fun _ => [], fun _ => 0, fun _ _ => .none, fun _ => [], 1⟩⟩

/-- function with a point update -/
def upd {α β : Type} [DecidableEq α] (f : α → β) (a : α) (b : β) : α → β :=
  fun x => if x = a then b else f x

/-- `QuerySet(iterable)`: first occurrences, in encounter order -/
def dedup {α : Type} [DecidableEq α] (l : List α) : List α :=
  l.foldl (fun acc x => if x ∈ acc then acc else acc ++ [x]) []

namespace State

def isLive (st : State) (i : Inst) : Bool := decide (i.idx ∈ st.live i.cls)

def instances (st : State) (cls : String) : List Inst := (st.live cls).map (fun n => ⟨cls, n⟩)

end State

def findClass (C : Ctx) (cls : String) : Option ClassDecl := C.classes.find? (fun c => c.name = cls)

def findAttr (C : Ctx) (cls name : String) : Option AttrDecl :=
  match findClass C cls with
  | some c => c.attrs.find? (fun a => a.name = name)
  | none => none

def defaultOf (ty : Ty) (nextId : Int) : Val × Int :=
  match ty with
  | .integer => (.int 0, nextId)
  | .string => (.str "", nextId)
  | .boolean => (.bool false, nextId)
  | .uniqueId => (.int nextId, nextId + 1)

/-- `MetaClass.new`: defaults for the non-referential attributes in attribute order -/
def initAttrs (i : Inst) : List AttrDecl → (Inst → String → Val) × Int → (Inst → String → Val) × Int
  | [], acc => acc
  | a :: rest, (f, nid) =>
    if a.referential then initAttrs i rest (f, nid)
    else
      let (v, nid') := defaultOf a.ty nid
      initAttrs i rest (fun j n => if j = i ∧ n = a.name then v else f j n, nid')

/-- `create object instance of cls` -/
def newInst (C : Ctx) (cls : String) (st : State) : Except Err (Inst × State) :=
  match findClass C cls with
  | none => .error ⟨"unknown class " ++ cls⟩
  | some c =>
    let i : Inst := ⟨cls, st.next cls⟩
    let (attr', nid') := initAttrs i c.attrs (st.attr, st.nextId)
    .ok (i, { st with live := upd st.live cls (st.live cls ++ [st.next cls]),
                      next := upd st.next cls (st.next cls + 1),
                      attr := attr', nextId := nid' })

/-- `delete object instance`: leaves the instance pool and every pair it takes part in -/
def deleteInst (i : Inst) (st : State) : Except Err State :=
  if st.isLive i then
    .ok { st with live := upd st.live i.cls ((st.live i.cls).erase i.idx),
                  links := fun k => (st.links k).filter (fun p => decide (p.1 ≠ i ∧ p.2 ≠ i)) }
  else .error ⟨"delete of an instance that is not in the pool"⟩

/-- `_find_link(inst1, inst2, rel_id, phrase)`: which association and which of the two is the source.
    Result: (association index, association, source instance, target instance). -/
def findLinkFrom (rel phrase : String) (x y : Inst) : Nat → List Assoc → Option (Nat × Assoc × Inst × Inst)
  | _, [] => none
  | k, a :: rest =>
    if a.rel = rel then
      if a.tgt = x.cls ∧ a.src = y.cls ∧ a.tgtPhrase = phrase then some (k, a, y, x)
      else if a.src = x.cls ∧ a.tgt = y.cls ∧ a.srcPhrase = phrase then some (k, a, x, y)
      else findLinkFrom rel phrase x y (k + 1) rest
    else findLinkFrom rel phrase x y (k + 1) rest

def findLink (C : Ctx) (rel phrase : String) (x y : Inst) : Option (Nat × Assoc × Inst × Inst) :=
  findLinkFrom rel phrase x y 0 C.assocs

/-- `relate x to y across rel.phrase` -/
def relate (C : Ctx) (x y : Inst) (rel phrase : String) (st : State) : Except Err State :=
  if st.isLive x && st.isLive y then
    match findLink C rel phrase x y with
    | none => .error ⟨"unknown link " ++ rel⟩
    | some (k, a, s, t) =>
      let ps := st.links k
      if (s, t) ∈ ps then .ok st
      else if (!a.srcMany && ps.any (fun p => decide (p.2 = t))) || (!a.tgtMany && ps.any (fun p => decide (p.1 = s)))
      then .error ⟨"relate violates the multiplicity of " ++ rel⟩
      else .ok { st with links := upd st.links k (ps ++ [(s, t)]) }
  else .error ⟨"relate of an instance that is not in the pool"⟩

/-- `unrelate x from y across rel.phrase` -/
def unrelate (C : Ctx) (x y : Inst) (rel phrase : String) (st : State) : Except Err State :=
  if st.isLive x && st.isLive y then
    match findLink C rel phrase x y with
    | none => .error ⟨"unknown link " ++ rel⟩
    | some (k, _, s, t) =>
      let ps := st.links k
      if (s, t) ∈ ps then .ok { st with links := upd st.links k (ps.erase (s, t)) }
      else .error ⟨"unrelate of instances that are not related across " ++ rel⟩
  else .error ⟨"unrelate of an instance that is not in the pool"⟩

/-- the formalisations of attribute `name` of class `cls`: (association index, referred identifying attribute),
    in definition order (`Association.formalize`) -/
def formalsFrom (cls name : String) : Nat → List Assoc → List (Nat × String)
  | _, [] => []
  | k, a :: rest =>
    (if a.src = cls then ((a.srcKeys.zip a.tgtKeys).filter (fun p => p.1 = name)).map (fun p => (k, p.2)) else []) ++
    formalsFrom cls name (k + 1) rest

/-- a referential attribute reads as the referred identifying attribute of the instance related across the
    formalising association, and as nothing (Python `None`) when there is none.  Domain: exactly one association
    formalises the attribute and the referred attribute is a stored one. -/
def refRead (C : Ctx) (i : Inst) (name : String) (st : State) : Except Err Val :=
  match formalsFrom i.cls name 0 C.assocs with
  | [(k, pk)] =>
    match ((st.links k).filterMap (fun p => if p.1 = i then some p.2 else none)).head? with
    | none => .ok .none
    | some o =>
      match findAttr C o.cls pk with
      | some b => if b.referential then .error ⟨"referential attribute " ++ name ++ " refers to a referential attribute"⟩
                  else .ok (st.attr o pk)
      | none => .error ⟨"unknown attribute " ++ pk⟩
  | _ => .error ⟨"referential attribute " ++ name ++ " is not formalised by exactly one association"⟩

/-- attribute read `getattr(inst, name)` of a stored or referential (non-derived) attribute -/
def getAttr (C : Ctx) (i : Inst) (name : String) (st : State) : Except Err Val :=
  if st.isLive i then
    match findAttr C i.cls name with
    | some a => if a.referential then refRead C i name st else .ok (st.attr i name)
    | none => .error ⟨"unknown attribute " ++ name⟩
  else .error ⟨"attribute read of a deleted instance"⟩

def tyMatches (ty : Ty) (v : Val) : Bool :=
  match ty, v with
  | .integer, .int _ => true
  | .uniqueId, .int _ => true
  | .string, .str _ => true
  | .boolean, .bool _ => true
  | _, _ => false

/-- attribute write `setattr(inst, name, value)` of a stored (non-derived) attribute -/
def setAttr (C : Ctx) (i : Inst) (name : String) (v : Val) (st : State) : Except Err State :=
  if st.isLive i then
    match findAttr C i.cls name with
    | some a =>
      if a.referential then .error ⟨"referential attribute " ++ name⟩
      else if tyMatches a.ty v then
        .ok { st with attr := fun j n => if j = i ∧ n = name then v else st.attr j n }
      else .error ⟨"type of the value assigned to " ++ name⟩
    | none => .error ⟨"unknown attribute " ++ name⟩
  else .error ⟨"attribute write of a deleted instance"⟩

/-- `relate a to b across R using l`: two relates -/
def relateUsing (C : Ctx) (x y w : Inst) (rel phrase : String) (st : State) : Except Err State :=
  match relate C x w rel phrase st with
  | .error e => .error e
  | .ok st1 => relate C w y rel phrase st1

/-- `unrelate a from b across R using l`: two unrelates -/
def unrelateUsing (C : Ctx) (x y w : Inst) (rel phrase : String) (st : State) : Except Err State :=
  match unrelate C x w rel phrase st with
  | .error e => .error e
  | .ok st1 => unrelate C w y rel phrase st1

/-- one directed link of a class (an entry of `MetaClass.links`) -/
structure LinkRef where
  k : Nat            -- association index
  toSource : Bool    -- true: from the target class to the source class (`source_link`)
  to : String
  rel : String
  phrase : String
  deriving Repr, Inhabited

/-- the links of class `c` in the order `define_association` adds them -/
def linksOfFrom (c : String) : Nat → List Assoc → List LinkRef
  | _, [] => []
  | k, a :: rest =>
    (if a.tgt = c then [⟨k, true, a.src, a.rel, a.tgtPhrase⟩] else []) ++
    (if a.src = c then [⟨k, false, a.tgt, a.rel, a.srcPhrase⟩] else []) ++
    linksOfFrom c (k + 1) rest

def linksOf (C : Ctx) (c : String) : List LinkRef := linksOfFrom c 0 C.assocs

/-- `Link.navigate(inst)`: the partners of `i` across the link, in relate order -/
def follow (st : State) (l : LinkRef) (i : Inst) : List Inst :=
  if l.toSource then (st.links l.k).filterMap (fun p => if p.2 = i then some p.1 else none)
  else (st.links l.k).filterMap (fun p => if p.1 = i then some p.2 else none)

/-- the probe `_find_assoc_links` makes on one link `l1` of the class: same rel id and phrase, and the far class has the
    wanted link -/
def viaProbe (C : Ctx) (s : NavStep) (l1 : LinkRef) : Option (LinkRef × LinkRef) :=
  if l1.rel = s.rel ∧ l1.phrase = s.phrase then
    match (linksOf C l1.to).find? (fun l2 => l2.to = s.kl ∧ l2.rel = s.rel ∧ l2.phrase = s.phrase) with
    | some l2 => some (l1, l2)
    | none => none
  else none

/-- `MetaClass.navigate(inst, kind, rel_id, phrase)`: a direct link, or across an association class -/
def navStep (C : Ctx) (st : State) (i : Inst) (s : NavStep) : Except Err (List Inst) :=
  let ls := linksOf C i.cls
  match ls.find? (fun l => l.to = s.kl ∧ l.rel = s.rel ∧ l.phrase = s.phrase) with
  | some l => .ok (follow st l i)
  | none =>
    match ls.filterMap (viaProbe C s) with
    | (l1, l2) :: _ => .ok (dedup ((follow st l1 i).flatMap (follow st l2)))
    | [] => .error ⟨"unknown link " ++ i.cls ++ "->" ++ s.kl ++ "[" ++ s.rel ++ "]"⟩

/-- one step of a navigation chain over a list of instances (`NavChain._nav`: no de-duplication) -/
def navStepList (C : Ctx) (st : State) : List Inst → NavStep → Except Err (List Inst)
  | [], _ => .ok []
  | i :: rest, s =>
    match navStep C st i s with
    | .error e => .error e
    | .ok l =>
      match navStepList C st rest s with
      | .error e => .error e
      | .ok l' => .ok (l ++ l')

def navChain (C : Ctx) (st : State) : List Inst → List NavStep → Except Err (List Inst)
  | l, [] => .ok l
  | l, s :: rest =>
    match navStepList C st l s with
    | .error e => .error e
    | .ok l' => navChain C st l' rest

end Interp
end Pyx
