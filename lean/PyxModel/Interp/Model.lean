import PyxModel.Interp.State

/-
  C15 — enumerations and named constants as `bridgepoint/ooaofooa.py` builds them from the rows of a
  BridgePoint model (`mk_enum`, `mk_constant`, `Domain.add_symbol`).

    mk_enum       starts at the first S_ENUM row (in R27 link order = row order of the model files) that has NO
                  predecessor across R56 ('succeeds'), then follows R56 'precedes' until there is no successor;
                  the enumerators are numbered 0, 1, 2, … in that order.
    mk_constant   converts CNST_LSC.Value by the NAME of the constant's data type.
    add_symbol    a dict: the last row with a given name wins.
-/

namespace Pyx
namespace Interp

/-- an S_ENUM row: Enum_ID, Name, Previous_Enum_ID (0 = the null id: no predecessor) -/
structure EnumRow where
  id : Nat
  name : String
  prev : Nat
  deriving DecidableEq, Repr, Inhabited

/-- `one(sel).S_ENUM[56, 'succeeds']()` is empty: no row carries the id `sel.prev` -/
def EnumRow.isFirst (rows : List EnumRow) (r : EnumRow) : Bool := !(rows.any (fun r' => r'.id = r.prev))

/-- `one(enum).S_ENUM[56, 'precedes']()`: the (first) row whose Previous_Enum_ID is `enum`'s id -/
def enumNext (rows : List EnumRow) (r : EnumRow) : Option EnumRow := rows.find? (fun r' => r'.prev = r.id)

/-- the `while enum:` loop of `mk_enum` (fuel = number of rows: enough for every chain without a cycle;
    the Python loop does not terminate on a cyclic chain) -/
def enumChain (rows : List EnumRow) : Nat → Option EnumRow → List String
  | 0, _ => []
  | _, none => []
  | n + 1, some r => r.name :: enumChain rows n (enumNext rows r)

/-- the enumerator names in the order `mk_enum` numbers them -/
def enumOrder (rows : List EnumRow) : List String :=
  enumChain rows rows.length (rows.find? (EnumRow.isFirst rows))

/-! constants -/

def digitVal (c : Char) : Option Nat :=
  if '0' ≤ c ∧ c ≤ '9' then some (c.toNat - 48) else none

def parseNatChars : List Char → Nat → Option Nat
  | [], acc => some acc
  | c :: rest, acc =>
    match digitVal c with
    | some d => parseNatChars rest (acc * 10 + d)
    | none => none

/-- `int(text)` on the canonical numerals `-?[0-9]+` -/
def parseInt (s : String) : Option Int :=
  match s.toList with
  | [] => none
  | '-' :: rest => if rest = [] then none else (parseNatChars rest 0).map (fun n => -(n : Int))
  | cs => (parseNatChars cs 0).map (fun n => (n : Int))

/-- `mk_constant`: by the name of the data type -/
def constVal (tyName text : String) : Option Val :=
  if tyName = "boolean" then some (.bool (text.map Char.toLower == "true"))
  else if tyName = "integer" then (parseInt text).map Val.int
  else if tyName = "string" then some (.str text)
  else none

/-- a CNST_SYC / CNST_LSC row pair: name, data type name, Value -/
structure ConstRow where
  name : String
  tyName : String
  text : String
  deriving DecidableEq, Repr, Inhabited

/-- `for cnst_syc in …: target.add_symbol(cnst_syc.Name, mk_constant(cnst_syc))` as the association list that
    `lookupVar` searches front to back: the LAST row of a name comes first -/
def constTable (rows : List ConstRow) : List (String × Val) :=
  (rows.filterMap (fun r => (constVal r.tyName r.text).map (fun v => (r.name, v)))).reverse

end Interp
end Pyx
