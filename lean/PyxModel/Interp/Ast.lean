/-
  L5 — OAL interpreter, syntax.

  The syntax tree of `bridgepoint/oal.py` restricted to what `bridgepoint/interpret.py`
  evaluates and properties C04/C15 quantify over (no reals, no events, no index access).
  The harness parses the program with the real `bridgepoint.oal.parse` and sends the tree;
  `PyxModel/Interp/Decode.lean` turns it into these types.  No Mathlib, no `import Lean`.
-/

namespace Pyx
namespace Interp

/-- an instance is named by its class (key letters) and its creation index within the class -/
structure Inst where
  cls : String
  idx : Nat
  deriving DecidableEq, Repr, Inhabited

/-- run-time values.  `none` is Python's `None`: the empty instance handle and "no value".
    Integers and unique ids are both Python `int`s. -/
inductive Val where
  | int  (i : Int)
  | str  (s : String)
  | bool (b : Bool)
  | inst (i : Inst)
  | set  (l : List Inst)
  | none
  deriving DecidableEq, Repr, Inhabited

/-- the thirteen entries of the dict literal in `accept_BinaryOperationNode` -/
inductive BinOp where
  | add | sub | mul | div | mod | lt | le | gt | ge | ne | eq | or | and
  deriving DecidableEq, Repr, Inhabited

/-- the six entries of the dict literal in `accept_UnaryOperationNode` -/
inductive UnOp where
  | neg | pos | not | card | empty | notEmpty
  deriving DecidableEq, Repr, Inhabited

/-- how an invocation node finds its callee (`accept_*InvocationNode`) -/
inductive CallKind where
  | function                 -- `::f(...)`            FunctionInvocationNode
  | implicit (ns : String)   -- `NS::f(...)`          ImplicitInvocationNode: class operation or bridge, by what NS names
  | classOp (kl : String)    -- `transform KL::f()`   ClassInvocationNode
  | bridge (ee : String)     -- `bridge EE::f()`      BridgeInvocationNode
  deriving DecidableEq, Repr, Inhabited

inductive Expr where
  | int (i : Int)
  | str (s : String)
  | bool (b : Bool)
  | var (name : String)
  | selected
  | self
  | param (name : String)
  | field (h : Expr) (name : String)
  | bin (op : BinOp) (l r : Expr)
  | un (op : UnOp) (e : Expr)
  | enumOrConst (ns name : String)
  | call (k : CallKind) (name : String) (args : List (String × Expr))
  | callInst (h : Expr) (name : String) (args : List (String × Expr))
  deriving Repr, Inhabited

structure NavStep where
  kl : String
  rel : String
  phrase : String
  deriving DecidableEq, Repr, Inhabited

/-- a block (`BlockNode`) is a `List Stmt` -/
inductive Stmt where
  | assignVar (name : String) (e : Expr)
  | assignField (h : Expr) (name : String) (e : Expr)
  | ifS (c : Expr) (thn : List Stmt) (elifs : List (Expr × List Stmt)) (els : Option (List Stmt))
  | whileS (c : Expr) (body : List Stmt)
  | forEach (v setv : String) (body : List Stmt)
  | brk
  | cont
  | ret (e : Option Expr)
  | stop
  | create (v : Option String) (cls : String)
  | delete (v : String)
  | relate (a b rel phrase : String)
  | relateUsing (a b rel phrase u : String)
  | unrelate (a b rel phrase : String)
  | unrelateUsing (a b rel phrase u : String)
  | selectFrom (many : Bool) (v cls : String) (wh : Option Expr)
  | selectRelated (many : Bool) (v : String) (h : Expr) (chain : List NavStep) (wh : Option Expr)
  | invoke (e : Expr)
  deriving Repr, Inhabited

abbrev Block := List Stmt

end Interp
end Pyx
