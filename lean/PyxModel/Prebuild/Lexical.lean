import PyxModel.Prebuild.Supported
import Gen.OalLex

/-
  `lexical b` — the lexical side conditions under which the TOKEN-level model speaks about TEXT: every name is an
  identifier the lexer delivers as ID (not an OAL keyword), integers are digit strings, reals have the shape of
  the FRACTION rule, relationship ids are `R` ++ minimal decimal (what `canon` produces), phrases are ticked
  without an inner tick, `self` only where an instance name may be the keyword.
  `supported` does NOT include these conditions: `regen_parses_back` is a theorem about token lists and holds
  without them; what they are needed for is the step from tokens to characters, which is not proved but covered
  by the correspondence run — the driver evaluates `lexical` on every generated case, so that run also shows
  that the generator stays inside this domain.
-/
namespace Pyx.Prebuild

/-- `t_ID` of bridgepoint/oal.py: `value.upper() in self.keywords` — the keyword table is the GENERATED one
    (`Gen/OalLex.lean`, re-read from oal.py on every run), not a copy -/
def isKeyword (s : String) : Bool := Gen.OalLex.keywords.contains (s.toList.map Char.toUpper)

def isIdentStart (c : Char) : Bool := c.isAlpha || c == '_'
def isIdentChar (c : Char) : Bool := c.isAlphanum || c == '_'

def isIdent (s : String) : Bool :=
  match s.toList with
  | c :: cs => isIdentStart c && cs.all isIdentChar && !isKeyword s
  | [] => false

/-- an instance name: an identifier or the keyword self (already folded by `canon`) -/
def isInstName (s : String) : Bool := s == "self" || isIdent s

def isNumber (s : String) : Bool := !s.toList.isEmpty && s.toList.all Char.isDigit

def isFraction (s : String) : Bool :=
  s.toList.any Char.isDigit && s.toList.any (fun c => c == '.' || c == 'e' || c == 'E') &&
  s.toList.all (fun c => c.isDigit || "..eE+-fFlL".toList.contains c)

def isRelId (s : String) : Bool := (canonRelL s.toList).isSome && canonRel s == s

def isPhrase (s : String) : Bool :=
  match s.toList with
  | '\'' :: rest => match rest.reverse with
    | '\'' :: inner => !inner.contains '\''
    | _ => false
  | _ => false

def isPhraseOpt (s : String) : Bool := s == "" || isPhrase s

mutual
  def lexExpr : Expr → Bool
    | .int v => isNumber v
    | .real v => isFraction v
    | .str _ => true
    | .bool _ => true
    | .enum a b => isIdent a && isIdent b
    | .var n => isIdent n
    | .self => true
    | .selected => true
    | .param n => isIdent n
    | .field h n => lexExpr h && isIdent n
    | .index h i => lexExpr h && lexExpr i
    | .un _ e => lexExpr e
    | .bin l _ r => lexExpr l && lexExpr r
    | .call .func _ n ps => isIdent n && lexParams ps
    | .call _ a n ps => isIdent a && isIdent n && lexParams ps
    | .icall h n ps => lexExpr h && isIdent n && lexParams ps
  def lexParams : Params → Bool
    | .nil => true
    | .cons n e rest => isIdent n && lexExpr e && lexParams rest
end

def lexTo : EvtTo → Bool
  | .cls kl => isIdent kl
  | .creator kl => isIdent kl
  | .inst h => lexExpr h

def lexStep (s : Step) : Bool := isIdent s.kl && isRelId s.rel && isPhraseOpt s.phrase

mutual
  def lexStmt : Stmt → Bool
    | .assign l r => lexExpr l && lexExpr r
    | .ret none => true
    | .ret (some e) => lexExpr e
    | .brk | .cont | .ctl => true
    | .create v kl => isIdent v && isIdent kl
    | .createNV kl => isIdent kl
    | .delete v => isInstName v
    | .relate a b rel ph => isInstName a && isInstName b && isRelId rel && isPhraseOpt ph
    | .relateU a b rel ph u => isInstName a && isInstName b && isRelId rel && isPhraseOpt ph && isInstName u
    | .unrelate a b rel ph => isInstName a && isInstName b && isRelId rel && isPhraseOpt ph
    | .unrelateU a b rel ph u => isInstName a && isInstName b && isRelId rel && isPhraseOpt ph && isInstName u
    | .selFrom _ v kl => isIdent v && isIdent kl
    | .selFromW _ v kl w => isIdent v && isIdent kl && lexExpr w
    | .selRel _ v h chain => isIdent v && lexExpr h && chain.all lexStep
    | .selRelW _ v h chain w => isIdent v && lexExpr h && chain.all lexStep && lexExpr w
    | .forEach v s b => isIdent v && isIdent s && lexBlock b
    | .while_ e b => lexExpr e && lexBlock b
    | .if_ e b el els => lexExpr e && lexBlock b && lexElifs el && lexElse els
    | .invoke e => lexExpr e
    | .genEvt l m d tgt => isIdent l && (match m with | some mm => isPhrase mm | none => false) && lexParams d && lexTo tgt
    | .createEvt v l m d tgt =>
        isIdent v && isIdent l && (match m with | some mm => isPhrase mm | none => false) && lexParams d && lexTo tgt
    | .genPre e => lexExpr e
  def lexBlock : Block → Bool
    | .nil => true
    | .cons s rest => lexStmt s && lexBlock rest
  def lexElifs : Elifs → Bool
    | .nil => true
    | .cons e b rest => lexExpr e && lexBlock b && lexElifs rest
  def lexElse : Else → Bool
    | .none => true
    | .some b => lexBlock b
end

/-- the lexical side conditions of a whole body (in normal form) -/
def lexical (b : Block) : Bool := lexBlock b

end Pyx.Prebuild
