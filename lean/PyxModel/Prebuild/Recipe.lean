import Gen.OoaSchema
import PyxModel.Prebuild.Ast

/-
  C06 — the recipe table: for each kind of instance bridgepoint/prebuild.py creates, the links
  (relationship number, partner class) the creating `accept_*` / helper method relates it with, hand-written
  from prebuild.py (method named in the comment).  Conditional extras that depend on the program
  (R661 / R604 / R816 neighbours, R668 return value, R830 / R667 instance of an instance-based operation,
  the R810/R811/R817 + R627/R628/R669 owner of a parameter, the R605–R608/R658 owner of a block) are not part
  of the fixed recipe; `conforms` only demands what the schema makes unconditional.

  `conforms` (checked against the GENERATED schema table `Gen/OoaSchema.lean`):
    * every link of the recipe is an association of the schema between the two classes,
    * on every association end where the schema demands exactly one partner ("1", unconditional, single) the
      recipe relates exactly one,
    * on every single end ("1" or "1C") the recipe relates at most one.
  The table itself is tied to the code by the correspondence run: every instance the real prebuilder creates
  must carry (at least) the links of a recipe of its class.
-/
namespace Pyx.Prebuild
open Pyx.Gen.OoaSchema

structure Recipe where
  name : String                     -- creating method
  cls : String
  links : List (Nat × String)
  deriving Repr, DecidableEq, Inhabited

def recipes : List Recipe := [
  ⟨"<Home>Prebuilder.accept_BodyNode + ActionPrebuilder.accept_BodyNode", "ACT_ACT", [(666, "ACT_BLK"), (601, "ACT_BLK")]⟩,
  ⟨"accept_BodyNode", "ACT_BLK", [(666, "ACT_ACT"), (601, "ACT_ACT")]⟩,
  ⟨"accept_BlockNode", "ACT_BLK", [(601, "ACT_ACT")]⟩,
  ⟨"act_smt", "ACT_SMT", [(602, "ACT_BLK")]⟩,
  ⟨"accept_ReturnNode", "ACT_RET", [(603, "ACT_SMT")]⟩,
  ⟨"accept_BreakNode", "ACT_BRK", [(603, "ACT_SMT")]⟩,
  ⟨"accept_ContinueNode", "ACT_CON", [(603, "ACT_SMT")]⟩,
  ⟨"accept_ControlNode", "ACT_CTL", [(603, "ACT_SMT")]⟩,
  ⟨"accept_CreateObjectNode", "ACT_CR", [(603, "ACT_SMT"), (633, "V_VAR"), (671, "O_OBJ")]⟩,
  ⟨"accept_CreateObjectNoVariableNode", "ACT_CNV", [(603, "ACT_SMT"), (672, "O_OBJ")]⟩,
  ⟨"accept_DeleteNode", "ACT_DEL", [(603, "ACT_SMT"), (634, "V_VAR")]⟩,
  ⟨"accept_RelateNode", "ACT_REL", [(603, "ACT_SMT"), (615, "V_VAR"), (616, "V_VAR"), (653, "R_REL")]⟩,
  ⟨"accept_RelateUsingNode", "ACT_RU",
    [(603, "ACT_SMT"), (617, "V_VAR"), (618, "V_VAR"), (619, "V_VAR"), (654, "R_REL")]⟩,
  ⟨"accept_UnrelateNode", "ACT_UNR", [(603, "ACT_SMT"), (620, "V_VAR"), (621, "V_VAR"), (655, "R_REL")]⟩,
  ⟨"accept_UnrelateUsingNode", "ACT_URU",
    [(603, "ACT_SMT"), (622, "V_VAR"), (623, "V_VAR"), (624, "V_VAR"), (656, "R_REL")]⟩,
  ⟨"accept_SelectFromNode", "ACT_FIO", [(603, "ACT_SMT"), (639, "V_VAR"), (677, "O_OBJ")]⟩,
  ⟨"accept_SelectFromWhereNode", "ACT_FIW", [(603, "ACT_SMT"), (665, "V_VAR"), (676, "O_OBJ"), (610, "V_VAL")]⟩,
  ⟨"act_sel", "ACT_SEL", [(603, "ACT_SMT"), (637, "ACT_LNK"), (613, "V_VAL"), (638, "V_VAR")]⟩,
  ⟨"accept_SelectRelatedNode", "ACT_SR", [(664, "ACT_SEL")]⟩,
  ⟨"accept_SelectRelatedWhereNode", "ACT_SRW", [(664, "ACT_SEL"), (611, "V_VAL")]⟩,
  ⟨"accept_NavigationStepNode", "ACT_LNK", [(681, "R_REL"), (678, "O_OBJ")]⟩,
  ⟨"accept_ForEachNode", "ACT_FOR",
    [(603, "ACT_SMT"), (605, "ACT_BLK"), (614, "V_VAR"), (652, "V_VAR"), (670, "O_OBJ")]⟩,
  ⟨"accept_IfNode", "ACT_IF", [(603, "ACT_SMT"), (607, "ACT_BLK"), (625, "V_VAL")]⟩,
  ⟨"accept_ElIfNode", "ACT_EL", [(603, "ACT_SMT"), (658, "ACT_BLK"), (659, "V_VAL"), (682, "ACT_IF")]⟩,
  ⟨"accept_ElseNode", "ACT_E", [(603, "ACT_SMT"), (606, "ACT_BLK"), (683, "ACT_IF")]⟩,
  ⟨"accept_WhileNode", "ACT_WHL", [(603, "ACT_SMT"), (608, "ACT_BLK"), (626, "V_VAL")]⟩,
  ⟨"accept_AssignmentNode", "ACT_AI", [(603, "ACT_SMT"), (609, "V_VAL"), (689, "V_VAL")]⟩,
  ⟨"accept_InstanceInvocationNode / accept_ClassInvocationNode", "ACT_TFM", [(603, "ACT_SMT"), (673, "O_TFR")]⟩,
  ⟨"accept_BridgeInvocationNode", "ACT_BRG", [(603, "ACT_SMT"), (674, "S_BRG")]⟩,
  ⟨"accept_FunctionInvocationNode", "ACT_FNC", [(603, "ACT_SMT"), (675, "S_SYNC")]⟩,
  ⟨"FunctionPrebuilder.accept_BodyNode", "ACT_FNB", [(695, "S_SYNC"), (698, "ACT_ACT")]⟩,
  ⟨"BridgePrebuilder.accept_BodyNode", "ACT_BRB", [(697, "S_BRG"), (698, "ACT_ACT")]⟩,
  ⟨"OperationPrebuilder.accept_BodyNode", "ACT_OPB", [(696, "O_TFR"), (698, "ACT_ACT")]⟩,
  ⟨"DerivedAttributePrebuilder.accept_BodyNode", "ACT_DAB", [(693, "O_DBATTR"), (698, "ACT_ACT")]⟩,
  ⟨"TransitionPrebuilder.accept_BodyNode (state action)", "ACT_SAB", [(691, "SM_ACT"), (698, "ACT_ACT")]⟩,
  ⟨"v_val + typing accept_*", "V_VAL", [(826, "ACT_BLK"), (820, "S_DT")]⟩,
  ⟨"v_var + v_int / v_ins / first assignment", "V_VAR", [(823, "ACT_BLK"), (835, "V_LOC"), (848, "S_DT")]⟩,
  ⟨"v_var", "V_LOC", [(835, "V_VAR")]⟩,
  ⟨"v_int / migrate_instance", "V_INT", [(814, "V_VAR"), (818, "O_OBJ")]⟩,
  ⟨"v_ins / migrate_instance_set", "V_INS", [(814, "V_VAR"), (819, "O_OBJ")]⟩,
  ⟨"v_trn", "V_TRN", [(814, "V_VAR")]⟩,
  ⟨"v_isr / migrate_instance_set", "V_ISR", [(801, "V_VAL"), (809, "V_VAR")]⟩,
  ⟨"v_irf / accept_SelfAccessNode / migrate_instance", "V_IRF", [(801, "V_VAL"), (808, "V_VAR")]⟩,
  ⟨"v_avl", "V_AVL", [(801, "V_VAL"), (807, "V_VAL"), (806, "O_ATTR")]⟩,
  ⟨"accept_VariableAccessNode", "V_TVL", [(801, "V_VAL"), (805, "V_VAR")]⟩,
  ⟨"accept_FieldAccessNode (array length)", "V_ALV", [(801, "V_VAL"), (840, "V_VAL")]⟩,
  ⟨"v_mvl", "V_MVL", [(801, "V_VAL"), (837, "V_VAL"), (836, "S_MBR")]⟩,
  ⟨"accept_SelectedAccessNode", "V_SLR", [(801, "V_VAL")]⟩,
  ⟨"accept_ParamAccessNode", "V_PVL", [(801, "V_VAL")]⟩,
  ⟨"accept_IndexAccessNode", "V_AER", [(801, "V_VAL"), (838, "V_VAL"), (839, "V_VAL")]⟩,
  ⟨"accept_BinaryOperationNode", "V_BIN", [(801, "V_VAL"), (802, "V_VAL"), (803, "V_VAL")]⟩,
  ⟨"accept_UnaryOperationNode", "V_UNY", [(801, "V_VAL"), (804, "V_VAL")]⟩,
  ⟨"accept_BooleanNode", "V_LBO", [(801, "V_VAL")]⟩,
  ⟨"accept_IntegerNode", "V_LIN", [(801, "V_VAL")]⟩,
  ⟨"accept_RealNode", "V_LRL", [(801, "V_VAL")]⟩,
  ⟨"accept_StringNode", "V_LST", [(801, "V_VAL")]⟩,
  ⟨"accept_EnumOrNamedConstantNode (enumerator)", "V_LEN", [(801, "V_VAL"), (824, "S_ENUM")]⟩,
  ⟨"accept_EnumOrNamedConstantNode (constant)", "V_SCV", [(801, "V_VAL"), (850, "CNST_SYC")]⟩,
  ⟨"accept_ParameterNode", "V_PAR", [(800, "V_VAL")]⟩,
  ⟨"accept_FunctionInvocationNode", "V_FNV", [(801, "V_VAL"), (827, "S_SYNC")]⟩,
  ⟨"accept_BridgeInvocationNode", "V_BRV", [(801, "V_VAL"), (828, "S_BRG")]⟩,
  ⟨"accept_InstanceInvocationNode / accept_ClassInvocationNode", "V_TRV", [(801, "V_VAL"), (829, "O_TFR")]⟩,
  ⟨"e_gsme / accept_GenerateClassEventNode", "E_ESS", [(603, "ACT_SMT"), (701, "E_GES")]⟩,
  ⟨"e_csme", "E_ESS", [(603, "ACT_SMT"), (701, "E_CES")]⟩,
  ⟨"e_gsme / accept_GenerateClassEventNode", "E_GES", [(701, "E_ESS"), (703, "E_GSME")]⟩,
  ⟨"e_gsme / accept_GenerateClassEventNode", "E_GSME", [(703, "E_GES"), (707, "SM_EVT")]⟩,
  ⟨"accept_GenerateInstanceEventNode", "E_GEN", [(705, "E_GSME"), (712, "V_VAR")]⟩,
  ⟨"accept_GenerateClassEventNode", "E_GAR", [(705, "E_GSME")]⟩,
  ⟨"accept_GenerateCreatorEventNode", "E_GEC", [(705, "E_GSME")]⟩,
  ⟨"e_csme", "E_CES", [(701, "E_ESS"), (702, "E_CSME"), (710, "V_VAR")]⟩,
  ⟨"e_csme", "E_CSME", [(702, "E_CES"), (706, "SM_EVT")]⟩,
  ⟨"accept_CreateInstanceEventNode", "E_CEI", [(704, "E_CSME"), (711, "V_VAR")]⟩,
  ⟨"accept_CreateClassEventNode", "E_CEA", [(704, "E_CSME")]⟩,
  ⟨"accept_CreateCreatorEventNode", "E_CEC", [(704, "E_CSME")]⟩,
  ⟨"accept_GeneratePreexistingNode", "E_GPR", [(603, "ACT_SMT"), (714, "V_VAL")]⟩
]

/-- the association end a link `(rel, partner)` of an instance of `cls` uses: the multiplicity the schema gives
    to the PARTNER side as seen from `cls` (how many partners an instance of `cls` has) -/
def partnerCards (cls : String) (l : Nat × String) : List String :=
  assocs.filterMap fun a =>
    if a.rel == l.1 && a.src.cls == cls && a.tgt.cls == l.2 then some a.tgt.card
    else if a.rel == l.1 && a.tgt.cls == cls && a.src.cls == l.2 then some a.src.card
    else none

/-- the links the schema makes mandatory for an instance of `cls`: (rel, partner) with partner multiplicity "1" -/
def required (cls : String) : List (Nat × String) :=
  assocs.filterMap fun a =>
    if a.src.cls == cls && a.tgt.card == "1" then some (a.rel, a.tgt.cls)
    else if a.tgt.cls == cls && a.src.card == "1" then some (a.rel, a.src.cls)
    else none

def isSingle (card : String) : Bool := card == "1" || card == "1C"

/-- the ends on which an instance of `cls` may have at most one partner: (rel, partner) with multiplicity 1 / 1C -/
def singleEnds (cls : String) : List (Nat × String) :=
  assocs.filterMap fun a =>
    if a.src.cls == cls && isSingle a.tgt.card then some (a.rel, a.tgt.cls)
    else if a.tgt.cls == cls && isSingle a.src.card then some (a.rel, a.src.cls)
    else none

/-- supertype / subtype relationships of the schema: a relationship number that occurs in several ROPs, all
    `FROM 1C <subtype> TO 1 <supertype>`: (supertype, rel, subtypes) -/
def supertypes : List (String × Nat × List String) :=
  let keys := (assocs.filterMap fun a =>
    if a.src.card == "1C" && a.tgt.card == "1" then some (a.tgt.cls, a.rel) else none).eraseDups
  keys.filterMap fun k =>
    let subs := assocs.filterMap fun a =>
      if a.tgt.cls == k.1 && a.rel == k.2 && a.src.card == "1C" && a.tgt.card == "1" then some a.src.cls else none
    if subs.length ≥ 2 then some (k.1, k.2, subs) else none

/-- unique identifiers of a class -/
def identifiers (cls : String) : List (List String) :=
  indices.filterMap fun i => if i.1 == cls then some i.2.2 else none

def conforms (r : Recipe) : Bool :=
  r.links.all (fun l => !(partnerCards r.cls l).isEmpty) &&
  (required r.cls).all (fun q => r.links.count q == 1) &&
  r.links.all (fun l => !((partnerCards r.cls l).all isSingle) || r.links.count l == 1)

/-- the classes of the Body / Value subsystems the prebuilder instantiates for the supported statement set -/
def createdClasses : List String := (recipes.map (·.cls)).eraseDups

end Pyx.Prebuild
