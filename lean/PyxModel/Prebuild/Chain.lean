import PyxModel.Prebuild.Ast

/-
  C06 — the three chaining loops of bridgepoint/prebuild.py, as functions from the list of created instances
  (ids, in SOURCE order) to the persisted referential pairs (holder, designated):

    accept_StatementListNode   prev = None; for child in children:          relate(prev, smt, 661, 'precedes')
                               => smt.Previous_Statement_ID = prev.Statement_ID
    accept_ParameterListNode   prev = None; for child in reversed(children): relate(prev, par, 816, 'succeeds')
                               => par.Next_Value_ID = prev.Value_ID            (prev was created before = comes later in the source)
    accept_NavigationListNode  prev = None; for child in reversed(children): relate(prev, lnk, 604, 'succeeds')
                               => lnk.Next_Link_ID = prev.Link_ID
    accept_EventDataListNode   prev = None; for child in children:          relate(prev, par, 816, 'precedes')
                               => prev.Next_Value_ID = par.Value_ID

  `xtuml.relate(None, x, …)` is a no-op (first iteration).
-/
namespace Pyx.Prebuild

/-- the loop `prev = None; for x in xs: relate(prev, x); prev = x` where relate(prev, x) makes x the holder of a
    reference to prev -/
def chainLoop : Option Nat → List Nat → List (Nat × Nat)
  | _, [] => []
  | none, x :: xs => chainLoop (some x) xs
  | some q, x :: xs => (x, q) :: chainLoop (some x) xs

/-- the same loop where relate(prev, x) makes prev the holder of a reference to x (event data lists) -/
def chainLoopFwd : Option Nat → List Nat → List (Nat × Nat)
  | _, [] => []
  | none, x :: xs => chainLoopFwd (some x) xs
  | some q, x :: xs => (q, x) :: chainLoopFwd (some x) xs

/-- the value of the referential attribute of instance `x` -/
def refOf (links : List (Nat × Nat)) (x : Nat) : Option Nat :=
  match links.find? (fun l => l.1 == x) with
  | some l => some l.2
  | none => none

/-- R661: `Previous_Statement_ID` of each statement of a statement list given in source order -/
def prevStatement (xs : List Nat) (x : Nat) : Option Nat := refOf (chainLoop none xs) x

/-- R816 (invocation parameters) / R604 (navigation steps): `Next_Value_ID` / `Next_Link_ID` -/
def nextInChain (xs : List Nat) (x : Nat) : Option Nat := refOf (chainLoop none xs.reverse) x

/-- R816 for event data items -/
def nextEventDatum (xs : List Nat) (x : Nat) : Option Nat := refOf (chainLoopFwd none xs) x

end Pyx.Prebuild
