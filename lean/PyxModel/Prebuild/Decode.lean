import PyxModel.Sexp
import PyxModel.Prebuild.Ast

/-
  Wire format of C05 / C06: `harness/oal_sexp.py` encodes `bridgepoint.oal` trees as
  `(NodeClassName field…)` (field order = the node class' __init__ signature); this file decodes them into
  `Expr` / `Stmt` / `Block` and encodes trees and tokens back in the same format.  Driver-side only
  (`partial def`s; nothing here is mentioned by a theorem).
-/
namespace Pyx.Prebuild
open Pyx Pyx.Sexp

def kwName : Kw → String
  | .assign => "assign" | .return_ => "return" | .break_ => "break" | .continue_ => "continue"
  | .control_ => "control" | .stop => "stop" | .create => "create" | .object => "object"
  | .instance_ => "instance" | .of_ => "of" | .delete => "delete" | .relate => "relate" | .to => "to"
  | .across => "across" | .using_ => "using" | .unrelate => "unrelate" | .from_ => "from"
  | .select => "select" | .one => "one" | .any => "any" | .many => "many" | .related => "related"
  | .by_ => "by" | .instances => "instances" | .where_ => "where" | .for_ => "for" | .each => "each"
  | .in_ => "in" | .while_ => "while" | .if_ => "if" | .elif_ => "elif" | .else_ => "else"
  | .bridge => "bridge" | .transform => "transform" | .true_ => "true" | .false_ => "false"
  | .self_ => "self" | .selected => "selected" | .param => "param" | .not_ => "not" | .empty => "empty"
  | .not_empty => "not_empty" | .cardinality => "cardinality" | .and_ => "and" | .or_ => "or"
  | .generate => "generate" | .event => "event" | .class_ => "class" | .creator => "creator"

def pnName : Pn → String × String
  | .semi => ("SEMICOLON", ";") | .eq => ("EQUAL", "=") | .dot => ("DOT", ".") | .dcolon => ("DOUBLECOLON", "::")
  | .lpar => ("LPAREN", "(") | .rpar => ("RPAREN", ")") | .times => ("TIMES", "*") | .colon => ("COLON", ":")
  | .comma => ("COMMA", ",") | .arrow => ("ARROW", "->") | .lsq => ("LSQBR", "[") | .rsq => ("RSQBR", "]")
  | .deq => ("DOUBLEEQUAL", "==") | .neq => ("NOTEQUAL", "!=") | .lt => ("LESSTHAN", "<") | .le => ("LE", "<=")
  | .gt => ("GT", ">") | .ge => ("GE", ">=") | .plus => ("PLUS", "+") | .minus => ("MINUS", "-")
  | .pipe => ("PIPE", "|") | .div => ("DIV", "/") | .mod => ("MOD", "%") | .amp => ("AMP", "&")
  | .caret => ("CARET", "^")

/-- a token as the pair (PLY token type, value) the real lexer reports -/
def encTok : Tok → Sexp
  | .kw k => list [sym (kwName k).toUpper, str (kwName k)]
  | .p x => list [sym (pnName x).1, str (pnName x).2]
  | .ident s => list [sym "ID", str s]
  | .ns s => list [sym "NAMESPACE", str s]
  | .num s => list [sym "NUMBER", str s]
  | .frac s => list [sym "FRACTION", str s]
  | .str s => list [sym "STRING", str s]
  | .phrase s => list [sym "TICKED_PHRASE", str s]
  | .endIf => list [sym "END_IF", str "end if"]
  | .endFor => list [sym "END_FOR", str "end for"]
  | .endWhile => list [sym "END_WHILE", str "end while"]
  | .bad s => list [sym "BAD", str s]

def kindOfName : String → Option CallKind
  | "ImplicitInvocationNode" => some .implicit
  | "BridgeInvocationNode" => some .bridge
  | "ClassInvocationNode" => some .classop
  | "PortInvocationNode" => some .port
  | _ => none

def nameOfKind : CallKind → String
  | .func => "FunctionInvocationNode"
  | .implicit => "ImplicitInvocationNode"
  | .bridge => "BridgeInvocationNode"
  | .classop => "ClassInvocationNode"
  | .port => "PortInvocationNode"

mutual
  partial def decExpr : Sexp → Option Expr
    | list [sym "IntegerNode", str v] => some (.int v)
    | list [sym "RealNode", str v] => some (.real v)
    | list [sym "StringNode", str v] => some (.str v)
    | list [sym "BooleanNode", str v] => some (.bool v)
    | list [sym "EnumOrNamedConstantNode", str a, str b] => some (.enum a b)
    | list [sym "VariableAccessNode", str n] => some (.var n)
    | list [sym "SelfAccessNode", _] => some .self
    | list [sym "SelectedAccessNode", _] => some .selected
    | list [sym "ParamAccessNode", str n] => some (.param n)
    | list [sym "FieldAccessNode", h, str n] => do let h' ← decExpr h; some (.field h' n)
    | list [sym "IndexAccessNode", h, i] => do let h' ← decExpr h; let i' ← decExpr i; some (.index h' i')
    | list [sym "UnaryOperationNode", str op, e] => do let e' ← decExpr e; some (.un op e')
    | list [sym "BinaryOperationNode", l, str op, r] => do
        let l' ← decExpr l; let r' ← decExpr r; some (.bin l' op r')
    | list [sym "FunctionInvocationNode", str n, ps] => do let ps' ← decParams ps; some (.call .func "" n ps')
    | list [sym "InstanceInvocationNode", h, str n, ps] => do
        let h' ← decExpr h; let ps' ← decParams ps; some (.icall h' n ps')
    | list [sym k, str nsp, str n, ps] => do
        let k' ← kindOfName k; let ps' ← decParams ps; some (.call k' nsp n ps')
    | _ => none
  partial def decParams : Sexp → Option Params
    | list (sym "ParameterListNode" :: xs) => decParamList xs
    | _ => none
  partial def decParamList : List Sexp → Option Params
    | [] => some .nil
    | list [sym "ParameterNode", str n, e] :: rest => do
        let e' ← decExpr e; let rest' ← decParamList rest; some (.cons n e' rest')
    | _ => none
end

/-- EventDataListNode of EventDataItemNode(name, expression): same shape as a parameter list -/
partial def decDataList : List Sexp → Option Params
  | [] => some .nil
  | list [sym "EventDataItemNode", str n, e] :: rest => do
      let e' ← decExpr e; let rest' ← decDataList rest; some (.cons n e' rest')
  | _ => none

/-- EventSpecNode(identifier, meaning, event_data) -/
def decSpec : Sexp → Option (String × Option String × Params)
  | list [sym "EventSpecNode", str l, m, list (sym "EventDataListNode" :: xs)] => do
      let d ← decDataList xs
      match m with
      | str mm => some (l, some mm, d)
      | sym "none" => some (l, none, d)
      | _ => none
  | _ => none

def decStep : Sexp → Option Step
  | list [sym "NavigationStepNode", str kl, str rel, str ph] => some ⟨kl, rel, ph⟩
  | _ => none

def decChain : Sexp → Option (List Step)
  | list (sym "NavigationListNode" :: xs) => xs.mapM decStep
  | _ => none

mutual
  partial def decStmt : Sexp → Option Stmt
    | list [sym "AssignmentNode", l, r] => do let l' ← decExpr l; let r' ← decExpr r; some (.assign l' r')
    | list [sym "ReturnNode", sym "none"] => some (.ret none)
    | list [sym "ReturnNode", e] => do let e' ← decExpr e; some (.ret (some e'))
    | list [sym "BreakNode"] => some .brk
    | list [sym "ContinueNode"] => some .cont
    | list [sym "ControlNode"] => some .ctl
    | list [sym "CreateObjectNode", str v, str kl] => some (.create v kl)
    | list [sym "CreateObjectNoVariableNode", str kl] => some (.createNV kl)
    | list [sym "DeleteNode", str v] => some (.delete v)
    | list [sym "RelateNode", str a, str b, str rel, str ph] => some (.relate a b rel ph)
    | list [sym "RelateUsingNode", str a, str b, str rel, str ph, str u] => some (.relateU a b rel ph u)
    | list [sym "UnrelateNode", str a, str b, str rel, str ph] => some (.unrelate a b rel ph)
    | list [sym "UnrelateUsingNode", str a, str b, str rel, str ph, str u] => some (.unrelateU a b rel ph u)
    | list [sym "SelectFromNode", str c, str v, str kl] => some (.selFrom c v kl)
    | list [sym "SelectFromWhereNode", str c, str v, str kl, w] => do let w' ← decExpr w; some (.selFromW c v kl w')
    | list [sym "SelectRelatedNode", str c, str v, h, ch] => do
        let h' ← decExpr h; let ch' ← decChain ch; some (.selRel c v h' ch')
    | list [sym "SelectRelatedWhereNode", str c, str v, h, ch, w] => do
        let h' ← decExpr h; let ch' ← decChain ch; let w' ← decExpr w; some (.selRelW c v h' ch' w')
    | list [sym "ForEachNode", str v, str s, b] => do let b' ← decBlock b; some (.forEach v s b')
    | list [sym "WhileNode", e, b] => do let e' ← decExpr e; let b' ← decBlock b; some (.while_ e' b')
    | list [sym "IfNode", e, b, el, els] => do
        let e' ← decExpr e; let b' ← decBlock b; let el' ← decElifs el; let els' ← decElse els
        some (.if_ e' b' el' els')
    | list [sym "InvocationStatementNode", e] => do let e' ← decExpr e; some (.invoke e')
    | list [sym "GenerateClassEventNode", sp, str kl] => do
        let (l, m, d) ← decSpec sp; some (.genEvt l m d (.cls kl))
    | list [sym "GenerateCreatorEventNode", sp, str kl] => do
        let (l, m, d) ← decSpec sp; some (.genEvt l m d (.creator kl))
    | list [sym "GenerateInstanceEventNode", sp, h] => do
        let (l, m, d) ← decSpec sp; let h' ← decExpr h; some (.genEvt l m d (.inst h'))
    | list [sym "CreateClassEventNode", str v, sp, str kl] => do
        let (l, m, d) ← decSpec sp; some (.createEvt v l m d (.cls kl))
    | list [sym "CreateCreatorEventNode", str v, sp, str kl] => do
        let (l, m, d) ← decSpec sp; some (.createEvt v l m d (.creator kl))
    | list [sym "CreateInstanceEventNode", str v, sp, h] => do
        let (l, m, d) ← decSpec sp; let h' ← decExpr h; some (.createEvt v l m d (.inst h'))
    | list [sym "GeneratePreexistingNode", e] => do let e' ← decExpr e; some (.genPre e')
    | _ => none
  partial def decStmts : List Sexp → Option Block
    | [] => some .nil
    | s :: rest => do let s' ← decStmt s; let rest' ← decStmts rest; some (.cons s' rest')
  partial def decBlock : Sexp → Option Block
    | list [sym "BlockNode", list (sym "StatementListNode" :: xs)] => decStmts xs
    | _ => none
  partial def decElifList : List Sexp → Option Elifs
    | [] => some .nil
    | list [sym "ElIfNode", e, b] :: rest => do
        let e' ← decExpr e; let b' ← decBlock b; let rest' ← decElifList rest; some (.cons e' b' rest')
    | _ => none
  partial def decElifs : Sexp → Option Elifs
    | list (sym "ElIfListNode" :: xs) => decElifList xs
    | _ => none
  partial def decElse : Sexp → Option Else
    | sym "none" => some .none
    | list [sym "ElseNode", b] => do let b' ← decBlock b; some (.some b')
    | _ => none
end

def decBody : Sexp → Option Block
  | list [sym "BodyNode", b] => decBlock b
  | _ => none

def decCtx : Sexp → Option Ctx
  | list [list ees, list classes] => some ⟨ees.filterMap asStr?, classes.filterMap asStr?, []⟩
  | list [list ees, list classes, list events] =>
    some ⟨ees.filterMap asStr?, classes.filterMap asStr?, events.filterMap fun
      | list [a, b] => match asStr? a, asStr? b with
        | some x, some y => some (x, y)
        | _, _ => none
      | _ => none⟩
  | _ => none

mutual
  partial def encExpr : Expr → Sexp
    | .int v => list [sym "IntegerNode", str v]
    | .real v => list [sym "RealNode", str v]
    | .str v => list [sym "StringNode", str v]
    | .bool v => list [sym "BooleanNode", str v]
    | .enum a b => list [sym "EnumOrNamedConstantNode", str a, str b]
    | .var n => list [sym "VariableAccessNode", str n]
    | .self => list [sym "SelfAccessNode", str "self"]
    | .selected => list [sym "SelectedAccessNode", str "selected"]
    | .param n => list [sym "ParamAccessNode", str n]
    | .field h n => list [sym "FieldAccessNode", encExpr h, str n]
    | .index h i => list [sym "IndexAccessNode", encExpr h, encExpr i]
    | .un op e => list [sym "UnaryOperationNode", str op, encExpr e]
    | .bin l op r => list [sym "BinaryOperationNode", encExpr l, str op, encExpr r]
    | .call .func _ n ps => list [sym "FunctionInvocationNode", str n, encParams ps]
    | .call k nsp n ps => list [sym (nameOfKind k), str nsp, str n, encParams ps]
    | .icall h n ps => list [sym "InstanceInvocationNode", encExpr h, str n, encParams ps]
  partial def encParamList : Params → List Sexp
    | .nil => []
    | .cons n e rest => list [sym "ParameterNode", str n, encExpr e] :: encParamList rest
  partial def encParams (ps : Params) : Sexp := list (sym "ParameterListNode" :: encParamList ps)
end

partial def encDataList : Params → List Sexp
  | .nil => []
  | .cons n e rest => list [sym "EventDataItemNode", str n, encExpr e] :: encDataList rest

def encSpec (l : String) (m : Option String) (d : Params) : Sexp :=
  list [sym "EventSpecNode", str l, (match m with | some mm => str mm | none => sym "none"),
        list (sym "EventDataListNode" :: encDataList d)]

def encChain (ch : List Step) : Sexp :=
  list (sym "NavigationListNode" :: ch.map fun s => list [sym "NavigationStepNode", str s.kl, str s.rel, str s.phrase])

mutual
  partial def encStmt : Stmt → Sexp
    | .assign l r => list [sym "AssignmentNode", encExpr l, encExpr r]
    | .ret none => list [sym "ReturnNode", sym "none"]
    | .ret (some e) => list [sym "ReturnNode", encExpr e]
    | .brk => list [sym "BreakNode"]
    | .cont => list [sym "ContinueNode"]
    | .ctl => list [sym "ControlNode"]
    | .create v kl => list [sym "CreateObjectNode", str v, str kl]
    | .createNV kl => list [sym "CreateObjectNoVariableNode", str kl]
    | .delete v => list [sym "DeleteNode", str v]
    | .relate a b rel ph => list [sym "RelateNode", str a, str b, str rel, str ph]
    | .relateU a b rel ph u => list [sym "RelateUsingNode", str a, str b, str rel, str ph, str u]
    | .unrelate a b rel ph => list [sym "UnrelateNode", str a, str b, str rel, str ph]
    | .unrelateU a b rel ph u => list [sym "UnrelateUsingNode", str a, str b, str rel, str ph, str u]
    | .selFrom c v kl => list [sym "SelectFromNode", str c, str v, str kl]
    | .selFromW c v kl w => list [sym "SelectFromWhereNode", str c, str v, str kl, encExpr w]
    | .selRel c v h ch => list [sym "SelectRelatedNode", str c, str v, encExpr h, encChain ch]
    | .selRelW c v h ch w => list [sym "SelectRelatedWhereNode", str c, str v, encExpr h, encChain ch, encExpr w]
    | .forEach v s b => list [sym "ForEachNode", str v, str s, encBlock b]
    | .while_ e b => list [sym "WhileNode", encExpr e, encBlock b]
    | .if_ e b el els => list [sym "IfNode", encExpr e, encBlock b, list (sym "ElIfListNode" :: encElifs el), encElse els]
    | .invoke e => list [sym "InvocationStatementNode", encExpr e]
    | .genEvt l m d (.cls kl) => list [sym "GenerateClassEventNode", encSpec l m d, str kl]
    | .genEvt l m d (.creator kl) => list [sym "GenerateCreatorEventNode", encSpec l m d, str kl]
    | .genEvt l m d (.inst h) => list [sym "GenerateInstanceEventNode", encSpec l m d, encExpr h]
    | .createEvt v l m d (.cls kl) => list [sym "CreateClassEventNode", str v, encSpec l m d, str kl]
    | .createEvt v l m d (.creator kl) => list [sym "CreateCreatorEventNode", str v, encSpec l m d, str kl]
    | .createEvt v l m d (.inst h) => list [sym "CreateInstanceEventNode", str v, encSpec l m d, encExpr h]
    | .genPre e => list [sym "GeneratePreexistingNode", encExpr e]
  partial def encStmts : Block → List Sexp
    | .nil => []
    | .cons s rest => encStmt s :: encStmts rest
  partial def encBlock (b : Block) : Sexp := list [sym "BlockNode", list (sym "StatementListNode" :: encStmts b)]
  partial def encElifs : Elifs → List Sexp
    | .nil => []
    | .cons e b rest => list [sym "ElIfNode", encExpr e, encBlock b] :: encElifs rest
  partial def encElse : Else → Sexp
    | .none => sym "none"
    | .some b => list [sym "ElseNode", encBlock b]
end

def encBody (b : Block) : Sexp := list [sym "BodyNode", encBlock b]

end Pyx.Prebuild
