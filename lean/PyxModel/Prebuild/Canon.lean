import PyxModel.Prebuild.Ast

/-
  `canon` — the normal form in which the original and the regenerated tree are compared (C05).
  What the round trip through prebuild.py + sourcegen.py cannot preserve, and the property does not ask for:
    * the letter case of operator keywords, boolean literals and select cardinalities
      (prebuild stores `node.operator.lower()`, `str(node.value).upper()` printed `.lower()`, `cardinality.lower()`)
    * whether `NS::f(...)` was written with `bridge` / `transform` or bare: the prebuilder resolves a bare
      `ImplicitInvocationNode` exactly like this (`accept_ImplicitInvocationNode`: external entity first, then class,
      else port) and sourcegen prints the keyword from the resolved kind
    * the letter case of the keyword `self` where it stands for an instance name (delete / relate / unrelate):
      `find_symbol` folds it and the variable is printed `self`; NO other name is folded
    * the spelling of a relationship NUMBER (`R01`, `r1` = `R1`): looked up by `int(rel_id[1:])`, printed `'R' + str(Numb)`
    * the meaning of an event (`E1:'meaning'`): sourcegen prints the modelled `SM_EVT.Mning`, the source may omit it
  This list is complete: every other field of every node is compared as the parser delivered it.
  `assign`, `then`, `loop`, `instances of`, redundant parentheses and un-ticked phrases are already gone in the
  tree `oal.parse` delivers.
-/
namespace Pyx.Prebuild

def lowerStr (s : String) : String := String.ofList (s.toList.map Char.toLower)

/-- `accept_ImplicitInvocationNode`: `s_ee(namespace)` first, then `o_obj(namespace)`, else a port message -/
def resolve (ctx : Ctx) (ns : String) : CallKind :=
  if ctx.ees.contains ns then .bridge else if ctx.classes.contains ns then .classop else .port

def canonKind (ctx : Ctx) (k : CallKind) (ns : String) : CallKind :=
  match k with
  | .implicit => resolve ctx ns
  | k => k

mutual
  def canonExpr (ctx : Ctx) : Expr → Expr
    | .int v => .int v
    | .real v => .real v
    | .str v => .str v
    | .bool v => .bool (lowerStr v)
    | .enum ns n => .enum ns n
    | .var n => .var n
    | .self => .self
    | .selected => .selected
    | .param n => .param n
    | .field h n => .field (canonExpr ctx h) n
    | .index h i => .index (canonExpr ctx h) (canonExpr ctx i)
    | .un op e => .un (lowerStr op) (canonExpr ctx e)
    | .bin l op r => .bin (canonExpr ctx l) (lowerStr op) (canonExpr ctx r)
    | .call k ns name ps => .call (canonKind ctx k ns) ns name (canonParams ctx ps)
    | .icall h name ps => .icall (canonExpr ctx h) name (canonParams ctx ps)
  def canonParams (ctx : Ctx) : Params → Params
    | .nil => .nil
    | .cons n e rest => .cons n (canonExpr ctx e) (canonParams ctx rest)
end

/-- an instance name in delete / relate / unrelate is a variable name or the keyword `self`; the keyword may be
    spelled in any letter case (the prebuilder's `find_symbol` folds it, sourcegen prints the variable `self`);
    every other name is case-sensitive and left alone -/
def canonName (n : String) : String := if lowerStr n = "self" then "self" else n

def stripZeros : List Char → List Char
  | '0' :: d :: ds => stripZeros (d :: ds)
  | ds => ds

def isRelHead (c : Char) : Bool := c == 'R' || c == 'r'

def canonRelL : List Char → Option (List Char)
  | c :: d :: ds =>
    if isRelHead c && (d :: ds).all Char.isDigit then some ('R' :: stripZeros (d :: ds)) else none
  | _ => none

/-- a relationship id is a NUMBER: the prebuilder looks the association up by `int(rel_id[1:])` and sourcegen
    prints `'R' + str(Numb)`, so `R01`, `r1` and `R1` are the same relationship -/
def canonRel (s : String) : String :=
  match canonRelL s.toList with
  | some l => String.ofList l
  | none => s

def canonStep (s : Step) : Step := { s with rel := canonRel s.rel }

/-- the meaning of an event is printed from the MODEL (`SM_EVT.Mning`), whatever the source states (it may omit
    it): the normal form carries the modelled meaning -/
def canonMeaning (ctx : Ctx) (label : String) (m : Option String) : Option String :=
  match ctx.events.lookup label with
  | some mm => some mm
  | none => m

def canonTo (ctx : Ctx) : EvtTo → EvtTo
  | .cls kl => .cls kl
  | .creator kl => .creator kl
  | .inst h => .inst (canonExpr ctx h)

mutual
  def canonStmt (ctx : Ctx) : Stmt → Stmt
    | .assign l r => .assign (canonExpr ctx l) (canonExpr ctx r)
    | .ret none => .ret none
    | .ret (some e) => .ret (some (canonExpr ctx e))
    | .brk => .brk
    | .cont => .cont
    | .ctl => .ctl
    | .create v kl => .create v kl
    | .createNV kl => .createNV kl
    | .delete v => .delete (canonName v)
    | .relate a b rel ph => .relate (canonName a) (canonName b) (canonRel rel) ph
    | .relateU a b rel ph u => .relateU (canonName a) (canonName b) (canonRel rel) ph (canonName u)
    | .unrelate a b rel ph => .unrelate (canonName a) (canonName b) (canonRel rel) ph
    | .unrelateU a b rel ph u => .unrelateU (canonName a) (canonName b) (canonRel rel) ph (canonName u)
    | .selFrom card v kl => .selFrom (lowerStr card) v kl
    | .selFromW card v kl w => .selFromW (lowerStr card) v kl (canonExpr ctx w)
    | .selRel card v h chain => .selRel (lowerStr card) v (canonExpr ctx h) (chain.map canonStep)
    | .selRelW card v h chain w =>
        .selRelW (lowerStr card) v (canonExpr ctx h) (chain.map canonStep) (canonExpr ctx w)
    | .forEach v s b => .forEach v s (canonBlock ctx b)
    | .while_ e b => .while_ (canonExpr ctx e) (canonBlock ctx b)
    | .if_ e b elifs els => .if_ (canonExpr ctx e) (canonBlock ctx b) (canonElifs ctx elifs) (canonElse ctx els)
    | .invoke e => .invoke (canonExpr ctx e)
    | .genEvt l m d to => .genEvt l (canonMeaning ctx l m) (canonParams ctx d) (canonTo ctx to)
    | .createEvt v l m d to => .createEvt v l (canonMeaning ctx l m) (canonParams ctx d) (canonTo ctx to)
    | .genPre e => .genPre (canonExpr ctx e)
  def canonBlock (ctx : Ctx) : Block → Block
    | .nil => .nil
    | .cons s rest => .cons (canonStmt ctx s) (canonBlock ctx rest)
  def canonElifs (ctx : Ctx) : Elifs → Elifs
    | .nil => .nil
    | .cons e b rest => .cons (canonExpr ctx e) (canonBlock ctx b) (canonElifs ctx rest)
  def canonElse (ctx : Ctx) : Else → Else
    | .none => .none
    | .some b => .some (canonBlock ctx b)
end

/-- the normal form of a whole action body -/
def canon (ctx : Ctx) (b : Block) : Block := canonBlock ctx b

end Pyx.Prebuild
