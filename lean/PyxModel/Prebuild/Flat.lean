import PyxModel.Prebuild.Gen

/-
  C05 / C06 — the FLAT POPULATION between the two walkers.

  `bridgepoint/prebuild.py` turns a syntax tree into instances of the ooaofooa classes ACT_BLK, ACT_SMT (+ its R603
  subtypes), V_VAL (+ its R801 subtypes), V_VAR (+ its R814 subtypes) …; `bridgepoint/sourcegen.py` navigates
  those instances and prints text.  Here:

    FlatPop       the rows of all those classes in ONE list in creation order; every row is a row of one ooaofooa
                  class (`Row.cls`), an instance is named by its position in the list (its *global* creation index),
                  the per-class creation index is the number of earlier rows of the same class (`clsIdx`).  A link is
                  stored the way the code persists it: the association number's referential attribute in the row
                  that holds it, naming the partner.  A subtype row names its supertype row (R603 / R801 / R814:
                  the subtype shares the supertype's identifier), and a link to a subtype instance (R682 / R683 to
                  ACT_IF) names that instance's supertype row — exactly what Statement_ID / Value_ID / Var_ID are.
    prebuildFlat  `ActionPrebuilder.accept_*Node`, line by line: same creation order within every class, same
                  partners.  Two deviations of FORM, none of the final population:
                    * `xtuml.relate(prev, act_smt, 661, 'precedes')` runs after `accept(child)` returned; it sets
                      `Previous_Statement_ID` of the child's own ACT_SMT.  `prev` is a loop variable assigned before
                      the call, so the model writes the field when the ACT_SMT row is created (no row is ever
                      mutated: the population is append-only).
                    * ACT_RET is instantiated before its value is accepted and related (R668) afterwards; the model
                      appends the ACT_RET row after the value's rows.  No expression creates an ACT_RET, so the order
                      WITHIN each class — the only order instance names depend on — is the code's.
    regenFlat     `ActionTextGenWalker.accept_*`, line by line, at token level (like `genTokens`): first statement of
                  a block (R602 + first_filter), R661 successor, subtype dispatch, operand navigation.

  The symbol table of the prebuilder (`SymbolTable`: a stack of scopes, each with a handle — an ACT_BLK or, for a
  where clause, an O_OBJ — and a dict name ↦ V_VAR) is part of the builder state.  Where the real code raises
  (a name that is not found, `relate` with None) or leaves the modelled subset, the model sets `ok := false` and
  goes on (total); every theorem is guarded by `ok = true` of the final state.

  NOT modelled (ok := false): event statements, select related (chains), invocations, parameter lists, array
  elements as l-values, structure members, `<array>.length`, attribute access through anything but an instance
  handle variable / `self` / `selected`, an assignment whose right-hand side may be an instance reference
  (`plainE` false: the code then MIGRATES the transient — it deletes V_TRN / V_TVL instances), the name `sender`,
  bare constant names.  Attributes that are not links and are not printed (positions, Label, is_implicit,
  isLValue, Declared, Mult, ParmListOK) and the V_LOC / S_DIM / ACT_ACT / ACT_xxB instances are left out; model
  elements (O_OBJ, R_REL, O_ATTR, S_xPARM, S_ENUM, CNST_SYC) are named by what sourcegen prints of them (key letters,
  'R' + Numb, Name).
  No Mathlib, no `import Lean`.
-/
namespace Pyx.Prebuild.Flat
open Pyx.Prebuild

/-- one row of one ooaofooa class; `Nat` fields are global creation indices of the partner row -/
inductive Row where
  | blk (outer : Bool)                                   -- ACT_BLK (R601 → ACT_ACT; outer: also R666)
  | smt (blk : Nat) (prev : Option Nat)                  -- ACT_SMT  R602 Block_ID, R661 Previous_Statement_ID
  -- R603 subtypes (first field: Statement_ID)
  | ai (smt rval lval : Nat)                             -- ACT_AI   R609 r_Value_ID, R689 l_Value_ID
  | ret (smt : Nat) (val : Option Nat)                   -- ACT_RET  R668
  | brk (smt : Nat) | con (smt : Nat) | ctl (smt : Nat)  -- ACT_BRK ACT_CON ACT_CTL
  | cr (smt var : Nat) (kl : String)                     -- ACT_CR   R633 Var_ID, R671 O_OBJ
  | cnv (smt : Nat) (kl : String)                        -- ACT_CNV  R672
  | del (smt var : Nat)                                  -- ACT_DEL  R634
  | rel (smt a b : Nat) (r ph : String)                  -- ACT_REL  R615 R616 R653
  | ru (smt a b u : Nat) (r ph : String)                 -- ACT_RU   R617 R618 R619 R654
  | unr (smt a b : Nat) (r ph : String)                  -- ACT_UNR  R620 R621 R655
  | uru (smt a b u : Nat) (r ph : String)                -- ACT_URU  R622 R623 R624 R656
  | fio (smt var : Nat) (kl card : String)               -- ACT_FIO  R639 R677
  | fiw (smt var : Nat) (kl card : String) (whr : Nat)   -- ACT_FIW  R665 R676 R610
  | for_ (smt blk var set : Nat) (kl : String)           -- ACT_FOR  R605 R614 R652 R670
  | whl (smt blk val : Nat)                              -- ACT_WHL  R608 R626
  | if_ (smt blk val : Nat)                              -- ACT_IF   R607 R625
  | el (smt blk val if_ : Nat)                           -- ACT_EL   R658 R659 R682
  | e (smt blk if_ : Nat)                                -- ACT_E    R606 R683
  -- values
  | val (blk : Nat)                                      -- V_VAL    R826
  -- R801 subtypes (first field: Value_ID)
  | lin (val : Nat) (v : String) | lrl (val : Nat) (v : String)
  | lst (val : Nat) (v : String) | lbo (val : Nat) (v : String)
  | tvl (val var : Nat)                                  -- V_TVL    R805
  | irf (val var : Nat)                                  -- V_IRF    R808
  | isr (val var : Nat)                                  -- V_ISR    R809
  | uny (val : Nat) (op : String) (operand : Nat)        -- V_UNY    R804
  | bin (val : Nat) (op : String) (l r : Nat)            -- V_BIN    R802 R803
  | slr (val : Nat)                                      -- V_SLR
  | avl (val root : Nat) (attr : String)                 -- V_AVL    R807 R806
  | pvl (val : Nat) (name : String)                      -- V_PVL    R831 / R832 / R833
  | len (val : Nat) (ns name : String)                   -- V_LEN    R824
  | scv (val : Nat) (ns name : String)                   -- V_SCV    R850
  -- variables
  | var (name : String) (blk : Nat)                      -- V_VAR    R823
  -- R814 subtypes (first field: Var_ID)
  | vint (var : Nat) (kl : String)                       -- V_INT    R818
  | vins (var : Nat) (kl : String)                       -- V_INS    R819
  | vtrn (var : Nat)                                     -- V_TRN
  deriving DecidableEq, Repr, Inhabited

abbrev FlatPop := List Row

/-- the ooaofooa class of a row -/
def Row.cls : Row → String
  | .blk _ => "ACT_BLK" | .smt _ _ => "ACT_SMT" | .ai _ _ _ => "ACT_AI" | .ret _ _ => "ACT_RET"
  | .brk _ => "ACT_BRK" | .con _ => "ACT_CON" | .ctl _ => "ACT_CTL" | .cr _ _ _ => "ACT_CR"
  | .cnv _ _ => "ACT_CNV" | .del _ _ => "ACT_DEL" | .rel _ _ _ _ _ => "ACT_REL" | .ru _ _ _ _ _ _ => "ACT_RU"
  | .unr _ _ _ _ _ => "ACT_UNR" | .uru _ _ _ _ _ _ => "ACT_URU" | .fio _ _ _ _ => "ACT_FIO"
  | .fiw _ _ _ _ _ => "ACT_FIW" | .for_ _ _ _ _ _ => "ACT_FOR" | .whl _ _ _ => "ACT_WHL" | .if_ _ _ _ => "ACT_IF"
  | .el _ _ _ _ => "ACT_EL" | .e _ _ _ => "ACT_E" | .val _ => "V_VAL" | .lin _ _ => "V_LIN" | .lrl _ _ => "V_LRL"
  | .lst _ _ => "V_LST" | .lbo _ _ => "V_LBO" | .tvl _ _ => "V_TVL" | .irf _ _ => "V_IRF" | .isr _ _ => "V_ISR"
  | .uny _ _ _ => "V_UNY" | .bin _ _ _ _ => "V_BIN" | .slr _ => "V_SLR" | .avl _ _ _ => "V_AVL"
  | .pvl _ _ => "V_PVL" | .len _ _ _ => "V_LEN" | .scv _ _ _ => "V_SCV" | .var _ _ => "V_VAR"
  | .vint _ _ => "V_INT" | .vins _ _ => "V_INS" | .vtrn _ => "V_TRN"

/-- the ACT_SMT a row is the R603 subtype of -/
def Row.smtOf : Row → Option Nat
  | .ai s _ _ | .ret s _ | .brk s | .con s | .ctl s | .cr s _ _ | .cnv s _ | .del s _ | .rel s _ _ _ _
  | .ru s _ _ _ _ _ | .unr s _ _ _ _ | .uru s _ _ _ _ _ | .fio s _ _ _ | .fiw s _ _ _ _ | .for_ s _ _ _ _
  | .whl s _ _ | .if_ s _ _ | .el s _ _ _ | .e s _ _ => some s
  | _ => none

/-- the V_VAL a row is the R801 subtype of -/
def Row.valOf : Row → Option Nat
  | .lin v _ | .lrl v _ | .lst v _ | .lbo v _ | .tvl v _ | .irf v _ | .isr v _ | .uny v _ _ | .bin v _ _ _
  | .slr v | .avl v _ _ | .pvl v _ | .len v _ _ | .scv v _ _ => some v
  | _ => none

/-- the V_VAR a row is the R814 subtype of -/
def Row.varOf : Row → Option Nat
  | .vint v _ | .vins v _ | .vtrn v => some v
  | _ => none

/-! ### the builder state -/

inductive Handle where
  | blk (id : Nat)          -- Scope(handle = ACT_BLK)
  | obj (kl : String)       -- Scope(handle = O_OBJ): the where clause of a select
  deriving DecidableEq, Repr, Inhabited

structure Scope where
  handle : Handle
  syms : List (String × Nat)      -- `symbols`: name ↦ V_VAR; the latest `install_symbol` of a name first
  deriving Repr, Inhabited

structure St where
  pop : FlatPop := []
  scopes : List Scope := []       -- innermost first (`reversed(self.stack)`)
  ok : Bool := true
  deriving Repr, Inhabited

/-- `self.new(...)`: the new instance's index and the grown population -/
def St.new (st : St) (r : Row) : Nat × St := (st.pop.length, { st with pop := st.pop ++ [r] })

def St.fail (st : St) : St := { st with ok := false }

def St.guard (st : St) (c : Bool) : St := if c then st else st.fail

/-- `symtab.find_symbol(kind='ACT_BLK')`: the handle of the innermost scope that is a block -/
def curBlk : List Scope → Option Nat
  | [] => none
  | ⟨.blk b, _⟩ :: _ => some b
  | ⟨.obj _, _⟩ :: rest => curBlk rest

/-- `symtab.find_symbol(kind='O_OBJ')` -/
def curObj : List Scope → Option String
  | [] => none
  | ⟨.obj k, _⟩ :: _ => some k
  | ⟨.blk _, _⟩ :: rest => curObj rest

def curBlkD (ss : List Scope) : Nat := (curBlk ss).getD 0

/-- `symtab.find_symbol(name)` -/
def findSym : List Scope → String → Option Nat
  | [], _ => none
  | s :: rest, n => match s.syms.lookup n with
    | some v => some v
    | none => findSym rest n

/-- `symtab.install_symbol(name, handle)`: into the innermost scope -/
def install : List Scope → String → Nat → List Scope
  | [], _, _ => []
  | s :: rest, n, v => { s with syms := (n, v) :: s.syms } :: rest

/-- `self.v_val(node)`: a V_VAL related over R826 to the current block -/
def newVal (st : St) : Nat × St := (st.guard (curBlk st.scopes).isSome).new (.val (curBlkD st.scopes))

/-- `v_var(node, Name=name)` + the R814 subtype + `install_symbol` (v_int / v_ins / v_trn); answers the V_VAR -/
def newVar (name : String) (sub : Nat → Row) (st : St) : Nat × St :=
  let s0 := st.guard (curBlk st.scopes).isSome
  let r1 := s0.new (.var name (curBlkD st.scopes))
  let r2 := r1.2.new (sub r1.1)
  (r1.1, { r2.2 with scopes := install r2.2.scopes name r1.1 })

/-- name-resolution context: `Ctx` + the class `self` denotes in this action home (operation, derived attribute,
    state action; `none`: function, bridge, class-based operation) + the enumerations (data type ↦ enumerators) -/
structure FCtx extends Ctx where
  selfKl : Option String := none
  enums : List (String × List String) := []
  deriving Repr, Inhabited

/-- `find_symbol(node, name)` of the home's prebuilder: the symbol table first; `self` is created (V_VAR + V_INT,
    installed in the INNERMOST scope) the first time it is not found, in a home that has a `self`.
    Names must be spelled as `canonName` leaves them (the keyword `self` in lower case); `sender` is not modelled. -/
def lookupVar (fc : FCtx) (n : String) (st : St) : Option Nat × St :=
  if canonName n != n || lowerStr n == "sender" then (none, st.fail) else
  match findSym st.scopes n with
  | some v => (some v, st)
  | none =>
    if n == "self" then
      match fc.selfKl with
      | some kl => let r := newVar "self" (fun v => .vint v kl) st; (some r.1, r.2)
      | none => (none, st)
    else (none, st)

/-- a lookup whose result is related unconditionally (`relate(x, v_var, n)` asserts): `none` is a failure -/
def needVar (fc : FCtx) (n : String) (st : St) : Nat × St :=
  match lookupVar fc n st with
  | (some v, s) => (v, s)
  | (none, s) => (0, s.fail)

/-- a variable a statement declares when it is not visible (`implicit`): `v_int` / `v_ins` of class `kl` -/
def declVar (fc : FCtx) (n : String) (many : Bool) (kl : String) (st : St) : Nat × St :=
  match lookupVar fc n st with
  | (some v, s) => (v, s)
  | (none, s) =>
    let s1 := s.guard (n != "self" && fc.classes.contains kl)
    if many then newVar n (fun v => .vins v kl) s1 else newVar n (fun v => .vint v kl) s1

/-- `one(v_var).V_INT[814]()` … : the R814 subtype row of a variable -/
def varSub (p : FlatPop) (v : Nat) : Option Row := p.find? (fun r => r.varOf == some v)

/-- `subtype(v_val, 801)` -/
def valSub (p : FlatPop) (v : Nat) : Option Row := p.find? (fun r => r.valOf == some v)

/-- `subtype(act_smt, 603)` -/
def smtSub (p : FlatPop) (s : Nat) : Option Row := p.find? (fun r => r.smtOf == some s)

def compareOps : List String := ["<", "<=", "==", "!=", ">=", ">", "and", "or"]
def boolUnOps : List String := ["not", "empty", "not_empty"]

/-- the value of `e` is certainly no instance reference (so `accept_AssignmentNode` migrates nothing):
    literals, enumerators / constants, attribute reads, reads of transients, results of comparisons and of
    not / empty / not_empty / cardinality, and an arithmetic operation whose LEFT operand is such a value -/
def plainE (st : St) : Expr → Bool
  | .int _ | .real _ | .str _ | .bool _ | .enum _ _ | .field _ _ => true
  | .var n => match findSym st.scopes n with
    | some v => match varSub st.pop v with
      | some (.vtrn _) => true
      | _ => false
    | none => false
  | .un op e => boolUnOps.contains op || op == "cardinality" || plainE st e
  | .bin l op _ => compareOps.contains op || plainE st l
  | _ => false

def boolValue (v : String) : String := if v == "true" then "TRUE" else "FALSE"

/-- V_LST.Value = `node.value[1:-1]` -/
def unquote (v : String) : String := String.ofList ((v.toList.drop 1).dropLast)

/-- `accept_<expression node>`: the V_VAL of the expression -/
def buildExpr (fc : FCtx) : Expr → St → Nat × St
  | .int v, st => let r := newVal st; (r.1, (r.2.new (.lin r.1 v)).2)
  | .real v, st => let r := newVal st; (r.1, (r.2.new (.lrl r.1 v)).2)
  | .str v, st => let r := newVal st; (r.1, (r.2.new (.lst r.1 (unquote v))).2)
  | .bool v, st =>
    let r := newVal (st.guard (v == "true" || v == "false")); (r.1, (r.2.new (.lbo r.1 (boolValue v))).2)
  | .enum nsp n, st =>
    let r := newVal st
    match fc.enums.lookup nsp with
    | some es => if es.contains n then (r.1, (r.2.new (.len r.1 nsp n)).2) else (r.1, (r.2.new (.scv r.1 nsp n)).2)
    | none => (r.1, (r.2.new (.scv r.1 nsp n)).2)
  | .var n, st =>
    -- accept_VariableAccessNode (not an l-value): V_IRF / V_ISR / V_TVL by the variable's R814 subtype
    let l := needVar fc n (st.guard (n != "self"))
    let r := newVal l.2
    match varSub l.2.pop l.1 with
    | some (.vint _ _) => (r.1, (r.2.new (.irf r.1 l.1)).2)
    | some (.vins _ _) => (r.1, (r.2.new (.isr r.1 l.1)).2)
    | some (.vtrn _) => (r.1, (r.2.new (.tvl r.1 l.1)).2)
    | _ => (r.1, r.2.fail)
  | .self, st =>
    let l := needVar fc "self" st
    let r := newVal l.2
    (r.1, (r.2.new (.irf r.1 l.1)).2)
  | .selected, st => let r := newVal st; (r.1, (r.2.new (.slr r.1)).2)
  | .param n, st => let r := newVal st; (r.1, (r.2.new (.pvl r.1 n)).2)
  | .field h a, st =>
    -- accept_FieldAccessNode: the root first; V_AVL when the root is an instance handle or `selected`
    let rt := buildExpr fc h st
    let good := match valSub rt.2.pop rt.1 with
      | some (.irf _ _) => true
      | some (.slr _) => (curObj rt.2.scopes).isSome
      | _ => false
    let r := newVal (rt.2.guard good)
    (r.1, (r.2.new (.avl r.1 rt.1 a)).2)
  | .un op e, st =>
    let o := buildExpr fc e st
    let r := newVal o.2
    (r.1, (r.2.new (.uny r.1 (lowerStr op) o.1)).2)
  | .bin l op rr, st =>
    let a := buildExpr fc l st
    let b := buildExpr fc rr a.2
    let r := newVal b.2
    (r.1, (r.2.new (.bin r.1 (lowerStr op) a.1 b.1)).2)
  | _, st => (0, st.fail)

/-- the l-value of an assignment (`is_lvalue = True`): an unknown name becomes a transient (V_VAR, V_TRN, then
    the V_VAL and its V_TVL); anything else is accepted like a value -/
def buildLval (fc : FCtx) : Expr → St → Nat × St
  | .var n, st =>
    match lookupVar fc n (st.guard (n != "self")) with
    | (some _, _) => buildExpr fc (.var n) st
    | (none, s) =>
      let v := newVar n (fun v => .vtrn v) s
      let r := newVal v.2
      (r.1, (r.2.new (.tvl r.1 v.1)).2)
  | .field h a, st => buildExpr fc (.field h a) st
  | _, st => (0, st.fail)

/-- `act_smt(node)` with the R661 referential of the statement-list loop -/
def newSmt (prev : Option Nat) (st : St) : Nat × St :=
  (st.guard (curBlk st.scopes).isSome).new (.smt (curBlkD st.scopes) prev)

def pushScope (h : Handle) (st : St) : St := { st with scopes := ⟨h, []⟩ :: st.scopes }
def popScope (st : St) : St := { st with scopes := st.scopes.tail }

def isMany (card : String) : Bool := card == "many"

/-- `one(v_var_set).V_INS[814].O_OBJ[819]()` -/
def setClass (p : FlatPop) (v : Nat) : Option String :=
  match varSub p v with
  | some (.vins _ kl) => some kl
  | _ => none

/-- `accept_BlockNode`: a new ACT_BLK, its scope, the statements (`body` = `accept(node.statement_list)`) -/
def withBlock (st : St) (body : St → St) : Nat × St :=
  let k := st.new (.blk false)
  (k.1, popScope (body (pushScope (.blk k.1) k.2)))

mutual
  /-- `accept_<statement node>`: the ACT_SMT of the statement -/
  def buildStmt (fc : FCtx) (prev : Option Nat) : Stmt → St → Nat × St
    | .assign l r, st =>
      let s := newSmt prev st
      let rv := buildExpr fc r (s.2.guard (plainE s.2 r))
      let lv := buildLval fc l rv.2
      (s.1, (lv.2.new (.ai s.1 rv.1 lv.1)).2)
    | .ret none, st => let s := newSmt prev st; (s.1, (s.2.new (.ret s.1 none)).2)
    | .ret (some e), st =>
      let s := newSmt prev st
      let v := buildExpr fc e s.2
      (s.1, (v.2.new (.ret s.1 (some v.1))).2)
    | .brk, st => let s := newSmt prev st; (s.1, (s.2.new (.brk s.1)).2)
    | .cont, st => let s := newSmt prev st; (s.1, (s.2.new (.con s.1)).2)
    | .ctl, st => let s := newSmt prev st; (s.1, (s.2.new (.ctl s.1)).2)
    | .create v kl, st =>
      let s := newSmt prev st
      let x := declVar fc v false kl (s.2.guard (v != "self" && fc.classes.contains kl))
      (s.1, (x.2.new (.cr s.1 x.1 kl)).2)
    | .createNV kl, st =>
      let s := newSmt prev (st.guard (fc.classes.contains kl)); (s.1, (s.2.new (.cnv s.1 kl)).2)
    | .delete v, st =>
      let s := newSmt prev st
      let x := needVar fc v s.2
      (s.1, (x.2.new (.del s.1 x.1)).2)
    | .relate a b r ph, st =>
      let s := newSmt prev st
      let x := needVar fc a s.2
      let y := needVar fc b x.2
      (s.1, (y.2.new (.rel s.1 x.1 y.1 r ph)).2)
    | .relateU a b r ph u, st =>
      let s := newSmt prev st
      let x := needVar fc a s.2
      let y := needVar fc b x.2
      let z := needVar fc u y.2
      (s.1, (z.2.new (.ru s.1 x.1 y.1 z.1 r ph)).2)
    | .unrelate a b r ph, st =>
      let s := newSmt prev st
      let x := needVar fc a s.2
      let y := needVar fc b x.2
      (s.1, (y.2.new (.unr s.1 x.1 y.1 r ph)).2)
    | .unrelateU a b r ph u, st =>
      let s := newSmt prev st
      let x := needVar fc a s.2
      let y := needVar fc b x.2
      let z := needVar fc u y.2
      (s.1, (z.2.new (.uru s.1 x.1 y.1 z.1 r ph)).2)
    | .selFrom card v kl, st =>
      let s := newSmt prev st
      let x := declVar fc v (isMany card) kl (s.2.guard (v != "self" && fc.classes.contains kl))
      (s.1, (x.2.new (.fio s.1 x.1 kl (lowerStr card))).2)
    | .selFromW card v kl w, st =>
      -- the variable is looked up BEFORE the where clause is accepted and declared AFTER it
      let s := newSmt prev st
      let found := lookupVar fc v (s.2.guard (v != "self" && fc.classes.contains kl))
      let wv := buildExpr fc w (pushScope (.obj kl) found.2)
      let s2 := popScope wv.2
      let x := match found.1 with
        | some var => (var, s2)
        | none => if isMany card then newVar v (fun i => .vins i kl) s2 else newVar v (fun i => .vint i kl) s2
      (s.1, (x.2.new (.fiw s.1 x.1 kl (lowerStr card) wv.1)).2)
    | .forEach v sv b, st =>
      let s := newSmt prev st
      let found := lookupVar fc v (s.2.guard (v != "self"))
      let set := needVar fc sv found.2
      let kl := (setClass set.2.pop set.1).getD ""
      let x := match found.1 with
        | some var => (var, set.2.guard (setClass set.2.pop set.1).isSome)
        | none => newVar v (fun i => .vint i kl) (set.2.guard (setClass set.2.pop set.1).isSome)
      let blk := withBlock x.2 (buildStmts fc none b)
      (s.1, (blk.2.new (.for_ s.1 blk.1 x.1 set.1 kl)).2)
    | .while_ e b, st =>
      let s := newSmt prev st
      let v := buildExpr fc e s.2
      let blk := withBlock v.2 (buildStmts fc none b)
      (s.1, (blk.2.new (.whl s.1 blk.1 v.1)).2)
    | .if_ e b elifs els, st =>
      let s := newSmt prev st
      let v := buildExpr fc e s.2
      let blk := withBlock v.2 (buildStmts fc none b)
      let i := blk.2.new (.if_ s.1 blk.1 v.1)
      (s.1, buildElse fc s.1 els (buildElifs fc s.1 elifs i.2))
    | _, st => (0, st.fail)
  /-- `accept_StatementListNode`: `prev = None; for child: act_smt = accept(child); relate(prev, act_smt, 661)` -/
  def buildStmts (fc : FCtx) (prev : Option Nat) : Block → St → St
    | .nil, st => st
    | .cons s rest, st =>
      let r := buildStmt fc prev s st
      buildStmts fc (some r.1) rest r.2
  /-- `accept_ElIfListNode` / `accept_ElIfNode`: the ACT_SMT of an elif lies in the block HOLDING the if and is
      chained nowhere -/
  def buildElifs (fc : FCtx) (ifS : Nat) : Elifs → St → St
    | .nil, st => st
    | .cons e b rest, st =>
      let s := newSmt none st
      let v := buildExpr fc e s.2
      let blk := withBlock v.2 (buildStmts fc none b)
      buildElifs fc ifS rest (blk.2.new (.el s.1 blk.1 v.1 ifS)).2
  /-- `accept_ElseNode` -/
  def buildElse (fc : FCtx) (ifS : Nat) : Else → St → St
    | .none, st => st
    | .some b, st =>
      let s := newSmt none st
      let blk := withBlock s.2 (buildStmts fc none b)
      (blk.2.new (.e s.1 blk.1 ifS)).2
end

/-- `accept_BodyNode`: the outer ACT_BLK (R666), its scope, the statements -/
def prebuildSt (fc : FCtx) (a : Block) : St :=
  let k := ({} : St).new (.blk true)
  popScope (buildStmts fc none a (pushScope (.blk k.1) k.2))

def prebuildFlat (fc : FCtx) (a : Block) : FlatPop := (prebuildSt fc a).pop

/-- the modelled subset, decided by running the builder: nothing the real code rejects, nothing left out -/
def flatOk (fc : FCtx) (a : Block) : Bool := (prebuildSt fc a).ok

/-! ### `sourcegen.py` on the flat population (token level) -/

open Tok Kw Pn

/-- `accept_V_VAR`: `buf(inst.Name)`; the lexer makes the keyword of the name `self` -/
def regenVar (q : FlatPop) (v : Nat) : List Tok :=
  match q[v]? with
  | some (.var n _) => [nameTok n]
  | _ => [bad "V_VAR"]

/-- `accept_V_VAL` → `accept(subtype(inst, 801))` -/
def regenVal (q : FlatPop) : Nat → Nat → List Tok
  | 0, _ => [bad "fuel"]
  | f + 1, v =>
    match valSub q v with
    | some (.lin _ x) => [num x]
    | some (.lrl _ x) => [frac x]
    | some (.lst _ x) => [str ("\"" ++ x ++ "\"")]
    | some (.lbo _ x) => [boolTok (lowerStr x)]
    | some (.tvl _ var) => regenVar q var
    | some (.irf _ var) => regenVar q var
    | some (.isr _ var) => regenVar q var
    | some (.uny _ op o) => [Tok.p lpar, tokOf unOps op] ++ regenVal q f o ++ [Tok.p rpar]
    | some (.bin _ op l r) => [Tok.p lpar] ++ regenVal q f l ++ [tokOf binOps op] ++ regenVal q f r ++ [Tok.p rpar]
    | some (.slr _) => [kw selected]
    | some (.avl _ root a) => regenVal q f root ++ [Tok.p dot, ident a]
    | some (.pvl _ n) => [kw param, Tok.p dot, ident n]
    | some (.len _ nsp n) => [ns nsp, Tok.p dcolon, ident n]
    | some (.scv _ nsp n) => [ns nsp, Tok.p dcolon, ident n]
    | _ => [bad "V_VAL"]

/-- `one(sel).ACT_EL[603]()` or `one(sel).ACT_E[603]()`: the statement's R603 subtype instance is an elif / else -/
def isElifOrElse (q : FlatPop) (s : Nat) : Bool :=
  match smtSub q s with
  | some (.el _ _ _ _) => true
  | some (.e _ _ _) => true
  | _ => false

/-- `one(blk).ACT_SMT[602](first_filter)`: a statement of the block with no R661 predecessor that is no elif / else -/
def firstStmt (q : FlatPop) (b : Nat) : Option Nat :=
  (List.range q.length).find? fun i =>
    match q[i]? with
    | some (.smt b' none) => b' == b && !isElifOrElse q i
    | _ => false

/-- `one(act_smt).ACT_SMT[661, 'precedes']()`: the statement whose Previous_Statement_ID names this one -/
def succStmt (q : FlatPop) (s : Nat) : Option Nat :=
  (List.range q.length).find? fun i =>
    match q[i]? with
    | some (.smt _ (some q)) => q == s
    | _ => false

/-- `many(act_if).ACT_EL[682]()` (creation order; the code sorts them by position, which is the creation order) -/
def elifsOf (q : FlatPop) (i : Nat) : List Row :=
  q.filter fun
    | .el _ _ _ i' => i' == i
    | _ => false

/-- `one(act_if).ACT_E[683]()` -/
def elseOf (q : FlatPop) (i : Nat) : Option Row :=
  q.find? fun
    | .e _ _ i' => i' == i
    | _ => false

def phraseOf (ph : String) : List Tok := if ph = "" then [] else [Tok.p dot, phrase ph]

mutual
  /-- `accept_ACT_BLK`: the first statement, then along R661 -/
  def regenBlk (q : FlatPop) : Nat → Nat → List Tok
    | 0, _ => [bad "fuel"]
    | f + 1, b => regenChain q f (firstStmt q b)
  /-- `while act_smt: accept(act_smt); act_smt = one(act_smt).ACT_SMT[661, 'precedes']()` -/
  def regenChain (q : FlatPop) : Nat → Option Nat → List Tok
    | 0, _ => [bad "fuel"]
    | _ + 1, none => []
    | f + 1, some s => regenSmt q f s ++ [Tok.p semi] ++ regenChain q f (succStmt q s)
  /-- `accept_ACT_SMT` → `accept(subtype(inst, 603))` -/
  def regenSmt (q : FlatPop) : Nat → Nat → List Tok
    | 0, _ => [bad "fuel"]
    | f + 1, s =>
      match smtSub q s with
      | some (.ai _ rv lv) => [kw assign] ++ regenVal q f lv ++ [Tok.p eq] ++ regenVal q f rv
      | some (.ret _ none) => [kw return_]
      | some (.ret _ (some v)) => [kw return_] ++ regenVal q f v
      | some (.brk _) => [kw break_]
      | some (.con _) => [kw continue_]
      | some (.ctl _) => [kw control_, kw stop]
      | some (.cr _ v kl) => [kw create, kw object, kw instance_] ++ regenVar q v ++ [kw of_, ident kl]
      | some (.cnv _ kl) => [kw create, kw object, kw instance_, kw of_, ident kl]
      | some (.del _ v) => [kw delete, kw object, kw instance_] ++ regenVar q v
      | some (.rel _ a b r ph) =>
        [kw relate] ++ regenVar q a ++ [kw to] ++ regenVar q b ++ [kw across, ident r] ++ phraseOf ph
      | some (.ru _ a b u r ph) =>
        [kw relate] ++ regenVar q a ++ [kw to] ++ regenVar q b ++ [kw across, ident r] ++ phraseOf ph ++
          [kw using_] ++ regenVar q u
      | some (.unr _ a b r ph) =>
        [kw unrelate] ++ regenVar q a ++ [kw from_] ++ regenVar q b ++ [kw across, ident r] ++ phraseOf ph
      | some (.uru _ a b u r ph) =>
        [kw unrelate] ++ regenVar q a ++ [kw from_] ++ regenVar q b ++ [kw across, ident r] ++ phraseOf ph ++
          [kw using_] ++ regenVar q u
      | some (.fio _ v kl card) =>
        [kw select, tokOf cards card] ++ regenVar q v ++ [kw from_, kw instances, kw of_, ident kl]
      | some (.fiw _ v kl card w) =>
        [kw select, tokOf cards card] ++ regenVar q v ++ [kw from_, kw instances, kw of_, ident kl, kw where_] ++
          regenVal q f w
      | some (.for_ _ blk v sv _) =>
        [kw for_, kw each] ++ regenVar q v ++ [kw in_] ++ regenVar q sv ++ regenBlk q f blk ++ [endFor]
      | some (.whl _ blk v) => [kw while_] ++ regenVal q f v ++ regenBlk q f blk ++ [endWhile]
      | some (.if_ _ blk v) =>
        [kw if_] ++ regenVal q f v ++ regenBlk q f blk ++ regenElifs q f (elifsOf q s) ++
          (match elseOf q s with
           | some (.e _ eb _) => [kw else_] ++ regenBlk q f eb
           | _ => []) ++ [endIf]
      | _ => [bad "ACT_SMT"]
  /-- `for act_el in sorted(many(inst).ACT_EL[682]()): accept(act_el)` -/
  def regenElifs (q : FlatPop) : Nat → List Row → List Tok
    | 0, _ => [bad "fuel"]
    | _ + 1, [] => []
    | f + 1, .el _ blk v _ :: rest => [kw elif_] ++ regenVal q f v ++ regenBlk q f blk ++ regenElifs q f rest
    | _ + 1, _ :: _ => [bad "ACT_EL"]
end

/-- `accept_ACT_ACT`: `one(inst).ACT_BLK[666]()` -/
def outerBlk (q : FlatPop) : Option Nat := q.findIdx? (· == .blk true)

/-- tokens of the text `gen_text_action` prints for the population (fuel: one unit per navigation step down;
    a population of n rows needs less than n + 1) -/
def regenFlat (q : FlatPop) : List Tok :=
  match outerBlk q with
  | some b => regenBlk q (q.length + 1) b
  | none => [bad "ACT_BLK"]

end Pyx.Prebuild.Flat
