import PyxModel.Prebuild.Typing

/-
  C06 — the prebuilder's typing MECHANISM (as opposed to the specification `typeOf`): `accept_*Node` creates the
  V_VAL instances of an expression bottom-up in a growing population and relates each one to an S_DT across
  R820; the type of a compound value is obtained by NAVIGATING from the operand's V_VAL across R820
  (`one(v_val_l).S_DT[820]()`), never by re-deriving it from the syntax:

    accept_BinaryOperationNode   l, r accepted first; s_dt_l = one(v_val_l).S_DT[820](); boolean for the relational /
                                 logical operators, the generic set type for set operators on generic references,
                                 else s_dt_l; then v_val created and relate(v_val, s_dt, 820)
    accept_UnaryOperationNode    operand first; boolean / integer by operator, else one(v_val_op).S_DT[820]()
    accept_FieldAccessNode       handle first; s_dt = one(root_v_val).S_DT[820](); class through S_IRDT[17] of that
                                 type, or (root is V_SLR) the class of the enclosing where clause; attribute's type
    accept_IndexAccessNode       handle, index; one(v_val_root).S_DT[820]()
    accept_*InvocationNode       own v_val first (declared return type), then the parameters last to first;
                                 an instance invocation accepts its handle before and finds the class through it
    leaves                       s_dt(<core type name>), the S_DT across R848 of the variable found in the symbol
                                 table, the declared type of the parameter / enumerator / constant

  `Pop` is the part of the population this concerns: the V_VAL instances in creation order with their R801
  subtype and R820 type; an instance is named by its creation index.  `Proofs/PrebuildMech.lean` proves that the
  mechanism produces exactly the rows of the specification walk and that R820 of the value of `e` is `typeOf e`.
-/
namespace Pyx.Prebuild

structure Pop where
  vals : List Row
  deriving Repr, Inhabited

/-- `self.v_val(node)` + the R801 subtype + `relate(v_val, s_dt, 820)`: the new instance and the grown population -/
def Pop.newVal (p : Pop) (kind : String) (ty : Ty) : Nat × Pop := (p.vals.length, ⟨p.vals ++ [(kind, ty)]⟩)

/-- `one(v_val).S_DT[820]()` -/
def Pop.r820 (p : Pop) (id : Nat) : Ty :=
  match p.vals[id]? with
  | some r => r.2
  | none => none

/-- `subtype(v_val, 801).__class__.__name__` -/
def Pop.kind (p : Pop) (id : Nat) : String :=
  match p.vals[id]? with
  | some r => r.1
  | none => ""

def opType (op : String) (operandTy : Ty) : Ty :=
  if boolUnOps.contains op then some "boolean"
  else if op == "cardinality" then some "integer"
  else operandTy

def binType (op : String) (leftTy : Ty) : Ty :=
  if compareOps.contains op then some "boolean"
  else if setOps.contains op && genericRefs.contains leftTy then some "inst_ref_set<Object>"
  else leftTy

/-- the class `accept_FieldAccessNode` finds: through the S_IRDT of the root value's type, else (root V_SLR) the
    class of the where clause -/
def fieldClass (c : TCtx) (sel : Option String) (rootTy : Ty) (rootKind : String) : Option ClassInfo :=
  match tyClass c rootTy with
  | some ci => some ci
  | none => if rootKind == "V_SLR" then selClass c sel else none

mutual
  def buildExpr (c : TCtx) (env : Env) (sel : Option String) : Expr → Pop → Nat × Pop
    | .field h a, p =>
      let r := buildExpr c env sel h p
      let row := fieldRow (fieldClass c sel (r.2.r820 r.1) (r.2.kind r.1)) a
      r.2.newVal row.1 row.2
    | .index h i, p =>
      let r := buildExpr c env sel h p
      let ri := buildExpr c env sel i r.2
      ri.2.newVal "V_AER" (ri.2.r820 r.1)
    | .un op e, p =>
      let r := buildExpr c env sel e p
      r.2.newVal "V_UNY" (opType op (r.2.r820 r.1))
    | .bin l op rr, p =>
      let r1 := buildExpr c env sel l p
      let r2 := buildExpr c env sel rr r1.2
      r2.2.newVal "V_BIN" (binType op (r2.2.r820 r1.1))
    | .call k nsp n ps, p =>
      let own := p.newVal (kindOf c env sel (.call k nsp n ps)) (typeOf c env sel (.call k nsp n .nil))
      (own.1, buildParamsRev c env sel ps own.2)
    | .icall h n ps, p =>
      let r := buildExpr c env sel h p
      let own := r.2.newVal "V_TRV" (opTy (tyClass c (r.2.r820 r.1)) n)
      (own.1, buildParamsRev c env sel ps own.2)
    | e, p => p.newVal (kindOf c env sel e) (typeOf c env sel e)
  def buildParamsRev (c : TCtx) (env : Env) (sel : Option String) : Params → Pop → Pop
    | .nil, p => p
    | .cons _ e rest, p => (buildExpr c env sel e (buildParamsRev c env sel rest p)).2
end

end Pyx.Prebuild
