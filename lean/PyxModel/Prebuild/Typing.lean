import PyxModel.Prebuild.Ast

/-
  C06 — `typeOf`: OAL's typing rules, written from the language definition the property words
  (not from the prebuilder's control flow):

    comparison, `and`, `or`, `not`, `empty`, `not_empty`   boolean
    `cardinality`                                           integer
    integer / real / string / boolean literal, enumerator   integer / real / string / boolean / the enumeration
    named constant                                          its declared type
    transient variable                                      the type of the value first assigned to it
    instance handle / instance set variable, `self`         inst_ref<K> / inst_ref_set<K> of its class K
    attribute read `h.a`                                    the declared type of attribute a of h's class
                                                            (a referential attribute: the type of the attribute referred to)
    parameter read `param.p`                                the declared type of p
    arithmetic `l op r`, unary `+ -`                        the type of the left operand / of the operand
    invocation                                              the declared return type
    `selected`                                              inst_ref<Object>  (the generic instance reference)
    `a[i]`                                                  the type of a

  Types are the names of the S_DT instances (`none` = no type).  `walkBlock` lists, for a whole action body, the
  (R801 subtype, R820 type) of every value instance in the order prebuild.py creates them, threading the variable
  environment through the statements exactly as the language scopes variables: a variable lives in the block
  whose statement first assigns / selects / creates it; the control variable of `for each` in the block holding
  the loop; a where clause sees `selected`.
-/
namespace Pyx.Prebuild

abbrev Ty := Option String

structure ClassInfo where
  kl : String
  iref : String                      -- name of the S_DT of a handle to one instance
  irefSet : String                   -- … of a set of instances
  attrs : List (String × String)     -- attribute name ↦ declared (base) type
  ops : List (String × String)       -- operation name ↦ return type
  deriving Repr, Inhabited

structure TCtx where
  classes : List ClassInfo
  funcs : List (String × String)
  ees : List (String × List (String × String))
  enums : List (String × List String)
  consts : List (String × List (String × String))
  params : List (String × String)
  selfKl : Option String
  deriving Repr, Inhabited

inductive VarKind where
  | trn | inst | iset
  deriving DecidableEq, Repr, Inhabited

structure VarInfo where
  kind : VarKind
  ty : Ty                 -- the S_DT related over R848
  kl : String             -- class (instance handles and sets), "" for transients
  deriving Repr, Inhabited

/-- innermost scope first; each scope maps names to variables -/
abbrev Env := List (List (String × VarInfo))

def Env.find (env : Env) (n : String) : Option VarInfo :=
  match env with
  | [] => none
  | s :: rest => match s.lookup n with
    | some v => some v
    | none => Env.find rest n

def Env.declare (env : Env) (n : String) (v : VarInfo) : Env :=
  match env with
  | [] => [[(n, v)]]
  | s :: rest => ((n, v) :: s) :: rest

def TCtx.cls (c : TCtx) (kl : String) : Option ClassInfo := c.classes.find? (fun x => x.kl == kl)

/-- the class an instance-reference type refers to, and whether it is the set type -/
def TCtx.classOfType (c : TCtx) (t : Ty) : Option (ClassInfo × Bool) :=
  match t with
  | none => none
  | some n =>
    match c.classes.find? (fun x => x.iref == n) with
    | some ci => some (ci, false)
    | none => match c.classes.find? (fun x => x.irefSet == n) with
      | some ci => some (ci, true)
      | none => none

def compareOps : List String := ["<", "<=", "==", "!=", ">=", ">", "and", "or"]
def boolUnOps : List String := ["not", "empty", "not_empty"]
def setOps : List String := ["|", "+", "&", "^", "-"]
def genericRefs : List Ty := [some "inst_ref<Object>", some "inst_ref_set<Object>"]

def selfInfo (c : TCtx) : Option VarInfo :=
  match c.selfKl with
  | none => none
  | some kl => match c.cls kl with
    | some ci => some ⟨.inst, some ci.iref, kl⟩
    | none => none

/-- variable lookup; `self` is always the instance the action runs on -/
def findVar (c : TCtx) (env : Env) (n : String) : Option VarInfo :=
  match env.find n with
  | some v => some v
  | none => if n == "self" then selfInfo c else none

def lookup2 (tbl : List (String × List (String × String))) (a b : String) : Ty :=
  match tbl.lookup a with
  | some inner => inner.lookup b
  | none => none

/-- the class an instance-reference type refers to -/
def tyClass (c : TCtx) (t : Ty) : Option ClassInfo :=
  match c.classOfType t with
  | some (ci, _) => some ci
  | none => none

/-- the class `selected` denotes inside a where clause -/
def selClass (c : TCtx) (sel : Option String) : Option ClassInfo :=
  match sel with
  | some kl => c.cls kl
  | none => none

/-- `accept_FieldAccessNode` once the class of the root is known (or not): an attribute of that class (V_AVL, its
    declared type); with no class, the name `length` is the length of an array (V_ALV, integer) -/
def fieldRow (cls : Option ClassInfo) (a : String) : String × Ty :=
  match cls with
  | some ci => ("V_AVL", ci.attrs.lookup a)
  | none => if a == "length" then ("V_ALV", some "integer") else ("V_AVL", none)

def attrTy (cls : Option ClassInfo) (a : String) : Ty := (fieldRow cls a).2

def opTy (cls : Option ClassInfo) (n : String) : Ty :=
  match cls with
  | some ci => ci.ops.lookup n
  | none => none

/-- a bare name that is no visible variable but a symbolic constant of the model (`accept_VariableAccessNode`:
    `cnst_syc(name)` over the constant specifications in scope, in their order): its declared type -/
def bareConst (c : TCtx) (n : String) : Ty :=
  match c.consts.find? (fun g => (g.2.lookup n).isSome) with
  | some g => g.2.lookup n
  | none => none

/-- `typeOf ctx env sel e` — `sel` is the class `selected` denotes (inside a where clause) -/
def typeOf (c : TCtx) (env : Env) (sel : Option String) : Expr → Ty
  | .int _ => some "integer"
  | .real _ => some "real"
  | .str _ => some "string"
  | .bool _ => some "boolean"
  | .enum nsp n =>
    match c.enums.lookup nsp with
    | some es => if es.contains n then some nsp else lookup2 c.consts nsp n
    | none => lookup2 c.consts nsp n
  | .var n => match findVar c env n with
    | some v => v.ty
    | none => bareConst c n
  | .self => match findVar c env "self" with
    | some v => v.ty
    | none => none
  | .selected => some "inst_ref<Object>"
  | .param n => c.params.lookup n
  | .field h a =>
    match h with
    | .selected => attrTy (selClass c sel) a
    | _ => attrTy (tyClass c (typeOf c env sel h)) a
  | .index h _ => typeOf c env sel h
  | .un op e =>
    if boolUnOps.contains op then some "boolean"
    else if op == "cardinality" then some "integer"
    else typeOf c env sel e
  | .bin l op _ =>
    if compareOps.contains op then some "boolean"
    else if setOps.contains op && genericRefs.contains (typeOf c env sel l) then some "inst_ref_set<Object>"
    else typeOf c env sel l
  | .call .func _ n _ => c.funcs.lookup n
  | .call .bridge nsp n _ => lookup2 c.ees nsp n
  | .call .classop nsp n _ => match c.cls nsp with
    | some ci => ci.ops.lookup n
    | none => none
  | .call _ _ _ _ => none
  | .icall h n _ => opTy (tyClass c (typeOf c env sel h)) n

/-- the R801 subtype the prebuilder instantiates for the value of an expression -/
def kindOf (c : TCtx) (env : Env) (sel : Option String) : Expr → String
  | .int _ => "V_LIN"
  | .real _ => "V_LRL"
  | .str _ => "V_LST"
  | .bool _ => "V_LBO"
  | .enum nsp n => match c.enums.lookup nsp with
    | some es => if es.contains n then "V_LEN" else "V_SCV"
    | none => "V_SCV"
  | .var n => match findVar c env n with
    | some ⟨.inst, _, _⟩ => "V_IRF"
    | some ⟨.iset, _, _⟩ => "V_ISR"
    | some _ => "V_TVL"
    | none => if (bareConst c n).isSome then "V_SCV" else "V_TVL"
  | .self => "V_IRF"
  | .selected => "V_SLR"
  | .param _ => "V_PVL"
  | .field h a =>
    match h with
    | .selected => (fieldRow (selClass c sel) a).1
    | _ => (fieldRow (tyClass c (typeOf c env sel h)) a).1
  | .index _ _ => "V_AER"
  | .un _ _ => "V_UNY"
  | .bin _ _ _ => "V_BIN"
  | .call .func _ _ _ => "V_FNV"
  | .call .bridge _ _ _ => "V_BRV"
  | .call .classop _ _ _ => "V_TRV"
  | .call _ _ _ _ => "V_MSV"
  | .icall _ _ _ => "V_TRV"

abbrev Row := String × Ty

def Params.rev : Params → List (String × Expr) → List (String × Expr)
  | .nil, acc => acc
  | .cons n e rest, acc => Params.rev rest ((n, e) :: acc)

mutual
  /-- the values of one expression in the prebuilder's creation order (own value after the operands; an
      invocation's own value before its parameters, which are visited last to first) -/
  def walkExpr (c : TCtx) (env : Env) (sel : Option String) : Expr → List Row
    | .field h a => walkExpr c env sel h ++ [(kindOf c env sel (.field h a), typeOf c env sel (.field h a))]
    | .index h i => walkExpr c env sel h ++ walkExpr c env sel i ++
        [(kindOf c env sel (.index h i), typeOf c env sel (.index h i))]
    | .un op e => walkExpr c env sel e ++ [(kindOf c env sel (.un op e), typeOf c env sel (.un op e))]
    | .bin l op r => walkExpr c env sel l ++ walkExpr c env sel r ++
        [(kindOf c env sel (.bin l op r), typeOf c env sel (.bin l op r))]
    | .call k nsp n ps => (kindOf c env sel (.call k nsp n ps), typeOf c env sel (.call k nsp n ps)) ::
        walkParamsRev c env sel ps
    | .icall h n ps => walkExpr c env sel h ++
        ((kindOf c env sel (.icall h n ps), typeOf c env sel (.icall h n ps)) :: walkParamsRev c env sel ps)
    | e => [(kindOf c env sel e, typeOf c env sel e)]
  /-- `for child in reversed(node.children)`: the last parameter's values first -/
  def walkParamsRev (c : TCtx) (env : Env) (sel : Option String) : Params → List Row
    | .nil => []
    | .cons _ e rest => walkParamsRev c env sel rest ++ walkExpr c env sel e
end

/-- `accept_EventDataListNode`: the data items' values in source order -/
def walkParamsFwd (c : TCtx) (env : Env) (sel : Option String) : Params → List Row
  | .nil => []
  | .cons _ e rest => walkExpr c env sel e ++ walkParamsFwd c env sel rest

/-- a variable an instance-selecting statement declares if the name is not visible yet -/
def declareIfNew (c : TCtx) (env : Env) (n : String) (many : Bool) (kl : String) : Env :=
  match findVar c env n with
  | some _ => env
  | none =>
    match c.cls kl with
    | some ci => env.declare n (if many then ⟨.iset, some ci.irefSet, kl⟩ else ⟨.inst, some ci.iref, kl⟩)
    | none => env.declare n (if many then ⟨.iset, some "inst_ref_set<Object>", kl⟩ else ⟨.inst, some "inst_ref<Object>", kl⟩)

def lastKl (chain : List Step) : String :=
  match chain.getLast? with
  | some s => s.kl
  | none => ""

/-- the variable a first assignment `n = <value of type t>` declares: an instance handle / set when the value is
    an instance reference (the prebuilder migrates the transient), else a transient of type `t` -/
def assignedVar (c : TCtx) (t : Ty) : VarInfo :=
  match c.classOfType t with
  | some (ci, false) => ⟨.inst, t, ci.kl⟩
  | some (ci, true) => ⟨.iset, t, ci.kl⟩
  | none => ⟨.trn, t, ""⟩

def isMany (card : String) : Bool := card == "many"

/-- the variable an assignment may declare: the variable itself, or the array variable under `a[i]…[j]` -/
def lvalueRoot : Expr → Option String
  | .var n => some n
  | .index h _ => lvalueRoot h
  | _ => none

/-- the row of a V_VAR the statement creates: `n` was not visible in `env` and is in `env'` -/
def declRow (c : TCtx) (env env' : Env) (n : String) : List Row :=
  match findVar c env n, findVar c env' n with
  | none, some v => [("V_VAR:" ++ n, v.ty)]
  | _, _ => []

/-- `create event instance v …`: an unknown `v` becomes a transient of type inst<Event> -/
def declareEvent (c : TCtx) (env : Env) (v : String) : Env :=
  match findVar c env v with
  | some _ => env
  | none => env.declare v ⟨.trn, some "inst<Event>", ""⟩

mutual
  def walkStmt (c : TCtx) (env : Env) : Stmt → Env × List Row
    | .assign l r =>
      let vr := walkExpr c env none r
      match lvalueRoot l with
      | some n =>
        match findVar c env n with
        | some _ => (env, vr ++ walkExpr c env none l)
        | none =>
          let env' := env.declare n (assignedVar c (typeOf c env none r))
          (env', vr ++ walkExpr c env' none l ++ declRow c env env' n)
      | none => (env, vr ++ walkExpr c env none l)
    | .ret none => (env, [])
    | .ret (some e) => (env, walkExpr c env none e)
    | .create v kl =>
      let env' := declareIfNew c env v false kl
      (env', declRow c env env' v)
    | .selFrom card v kl =>
      let env' := declareIfNew c env v (isMany card) kl
      (env', declRow c env env' v)
    | .selFromW card v kl w =>
      let env' := declareIfNew c env v (isMany card) kl
      (env', walkExpr c env (some kl) w ++ declRow c env env' v)
    | .selRel card v h chain =>
      let env' := declareIfNew c env v (isMany card) (lastKl chain)
      (env', walkExpr c env none h ++ declRow c env env' v)
    | .selRelW card v h chain w =>
      let env' := declareIfNew c env v (isMany card) (lastKl chain)
      (env', walkExpr c env none h ++ declRow c env env' v ++ walkExpr c env' (some (lastKl chain)) w)
    | .forEach v s b =>
      let kl := match findVar c env s with
        | some info => info.kl
        | none => ""
      let env' := declareIfNew c env v false kl
      (env', declRow c env env' v ++ walkBlock c ([] :: env') b)
    | .while_ e b => (env, walkExpr c env none e ++ walkBlock c ([] :: env) b)
    | .if_ e b el els =>
      (env, walkExpr c env none e ++ walkBlock c ([] :: env) b ++ walkElifs c env el ++ walkElse c env els)
    | .invoke e => (env, walkExpr c env none e)
    | .genEvt _ _ d _ => (env, walkParamsFwd c env none d)
    | .createEvt v _ _ d _ =>
      let env' := declareEvent c env v
      (env', declRow c env env' v ++ walkParamsFwd c env' none d)
    | .genPre e => (env, walkExpr c env none e)
    | _ => (env, [])
  def walkBlock (c : TCtx) (env : Env) : Block → List Row
    | .nil => []
    | .cons s rest =>
      let r := walkStmt c env s
      r.2 ++ walkBlock c r.1 rest
  def walkElifs (c : TCtx) (env : Env) : Elifs → List Row
    | .nil => []
    | .cons e b rest => walkExpr c env none e ++ walkBlock c ([] :: env) b ++ walkElifs c env rest
  def walkElse (c : TCtx) (env : Env) : Else → List Row
    | .none => []
    | .some b => walkBlock c ([] :: env) b
end

def isVarRow (r : Row) : Bool := r.1.toList.take 6 == ['V', '_', 'V', 'A', 'R', ':']

/-- all value instances of an action body, in creation order, with subtype and type -/
def typeWalk (c : TCtx) (b : Block) : List Row := (walkBlock c [[]] b).filter (fun r => !isVarRow r)

/-- all variables the body declares (V_VAR instances other than `self`), in creation order: (name, R848 type).
    A name declared in a block is gone when the block ends; declaring it again creates another variable. -/
def varWalk (c : TCtx) (b : Block) : List Row :=
  ((walkBlock c [[]] b).filter isVarRow).map (fun r => (String.ofList (r.1.toList.drop 6), r.2))

end Pyx.Prebuild
